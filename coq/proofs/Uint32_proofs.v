(* Uint32_proofs.v — the uint32 DOMAIN of the slab trees, as theorems.

   Part A.  Every slab header size that occurs in a tree satisfying the carried invariant (arrays:
   [awf]; maps: [mtwf]) is at most maxThreshold = floor(1.5 T) <= 49152 < 2^32: the root by the
   clause "never above the maximum" of [wf_root] / [mwf_root] (in Go: the root is split when full,
   after every operation), every other slab by [in_band].  Hence the three hypotheses of
   C05_gen_array_predicates_match_source / C05_gen_map_predicates_match_source hold on every slab
   of every reachable tree for every request that is the underflow deficit of some slab.

   Part B.  The models use unbounded N with TRUNCATED subtraction, the Go code uint32 (uint64 for
   array indices) with wrap-around.  For every function below a WRAP-DETECTING twin [f_ck] is
   defined: the same text with every subtraction replaced by [usub] (None when the subtrahend is
   larger), every addition / multiplication by [uadd] / [umul] (None when the result is >= 2^32;
   [uadd64] for the uint64 index arithmetic of childSlabIndexInfo), nat subtractions by [nsub].
   The no_wrap lemmas state [f_ck args = Some (f args)] under the invariant: no arithmetic
   expression evaluated by f leaves [0, 2^32) and the model's result is the Go result.
   Modules: A / M (Part A, arrays / maps), U (usub, uadd, umul, uadd64, nsub, npred and what their
   answers mean), AB (twins of ArrayTree.v up to a_step / a_run), MB (twins of MapTree.v up to mt_step /
   mt_run).  Summaries: AB.a_step_no_wrap, AB.array_reachable_no_wrap, MB.mt_step_no_wrap,
   MB.map_reachable_no_wrap, MB.map_reachable_step_no_wrap.  Stated in props/C05_uint32.v. *)
From Coq Require Import ZArith NArith List Bool Lia ZifyBool ZifyN ZifyNat.
From AtreeGen Require Import Consts.
From AtreeGen Require GoFuncs.
From AtreeModel Require Import Settings.
From AtreeModel Require ArrayTree ArrayInv MapElems MapElemsInv MapTree MapTreeInv.
From AtreeProofs Require Import Settings_proofs ArrayList_lemmas Rebalance_proofs ArrayRoute_proofs
  ArrayFixup_proofs ArrayTree_proofs Array_proofs GoFuncs_proofs.
From AtreeProofs Require MapTree_proofs MapRebalance_proofs MapFixup_proofs MapTreeOps_proofs Map_proofs.
Import ListNotations.
Local Open Scope N_scope.
Ltac Zify.zify_post_hook ::= Z.div_mod_to_equations.

Lemma cmax_lt_two32 T : valid_T T -> cmax (set_threshold T) <= 49152 /\ cmax (set_threshold T) < two32.
Proof. intros HT. pose proof (cfg_facts T HT) as (?&?&?&?&?). unfold two32. lia. Qed.

(** * Part A, arrays *)
Module A.
Import ArrayTree ArrayInv.

(* every header value stored anywhere in a tree: each slab's own header and, in index slabs, the
   parent's copies of the child headers *)
Fixpoint all_hdrs (n : anode) : list hdr :=
  match n with
  | AD h _ _ => [h]
  | AM h hs _ cs => h :: hs ++ flat_map all_hdrs cs
  end.

Fixpoint nodes (n : anode) : list anode :=
  n :: match n with AD _ _ _ => [] | AM _ _ _ cs => flat_map nodes cs end.

Lemma wfn_hdrs_le c B : cmax c <= B -> forall d n, wfn c d n -> h_size (hdr_of n) <= B ->
  Forall (fun h => h_size h <= B) (all_hdrs n).
Proof.
  intros HB. induction d as [|d IH]; intros n Hw Hn.
  - destruct (wfn_0_inv _ _ Hw) as (h & nx & es & -> & _). cbn [all_hdrs hdr_of] in *. auto.
  - destruct (wfn_S_inv _ _ _ Hw) as (h & hs & sums & cs & -> & Hws & Hbs & -> & _).
    cbn [all_hdrs hdr_of] in *. constructor; [exact Hn|]. apply Forall_app. split.
    + apply Forall_forall. intros x Hx. apply in_map_iff in Hx. destruct Hx as (ch & <- & Hch).
      rewrite Forall_forall in Hbs. destruct (Hbs ch Hch). lia.
    + apply Forall_flat_map. apply Forall_forall. intros ch Hch.
      rewrite Forall_forall in Hws, Hbs. apply IH; [apply Hws, Hch|]. destruct (Hbs ch Hch). lia.
Qed.

Lemma wf_root_hdrs_le c r : wf_root c r -> Forall (fun h => h_size h <= cmax c) (all_hdrs r).
Proof.
  intros H. inversion H; subst.
  - cbn [all_hdrs]. auto.
  - eapply wfn_hdrs_le; [apply N.le_refl|eassumption|assumption].
Qed.

Lemma nodes_hdr_in : forall n x, In x (nodes n) -> In (hdr_of x) (all_hdrs n).
Proof.
  induction n as [h nx es|h hs sums cs IH] using anode_ind'; intros x Hx; cbn [nodes all_hdrs] in *.
  - destruct Hx as [<-|[]]. left. reflexivity.
  - destruct Hx as [<-|Hx]; [left; reflexivity|]. right. apply in_or_app. right.
    apply in_flat_map in Hx. destruct Hx as (ch & Hch & Hx). apply in_flat_map. exists ch. split; [exact Hch|].
    rewrite Forall_forall in IH. apply IH; assumption.
Qed.

(* the statement the audit asked for: what the invariant gives, exactly *)
Theorem array_hdr_sizes_bounded T a : valid_T T -> awf (set_threshold T) a ->
  Forall (fun h => h_size h <= cmax (set_threshold T) /\ h_size h <= 49152 /\ h_size h < two32)
         (all_hdrs (a_root a)).
Proof.
  intros HT (Hr & _). pose proof (cmax_lt_two32 T HT) as (H1 & H2).
  eapply Forall_impl; [|apply wf_root_hdrs_le; exact Hr]. cbn beta. intros h Hh. lia.
Qed.

Lemma underflow_need c n need : n_underflow c n = Some need -> 0 < need /\ need <= cmin c /\
  h_size (hdr_of n) + need = cmin c.
Proof. unfold n_underflow. destruct (h_size (hdr_of n) <? cmin c) eqn:E; [|discriminate]. intros [= <-]. lia. Qed.

(* the three hypotheses of C05_gen_array_predicates_match_source, on every header of an invariant
   tree and every request that is some slab's underflow deficit (or any value up to minThreshold) *)
Theorem array_predicate_hyps T a h need : valid_T T -> awf (set_threshold T) a ->
  In h (all_hdrs (a_root a)) -> need <= cmin (set_threshold T) ->
  cmin (set_threshold T) < two32 /\ h_size h < two32 /\ need + c_arraySlabHeaderSize <= two32.
Proof.
  intros HT Ha Hin Hneed. pose proof (array_hdr_sizes_bounded T a HT Ha) as HF.
  rewrite Forall_forall in HF. destruct (HF h Hin) as (_ & _ & Hh).
  destruct (gen_predicate_domain T need HT Hneed) as (G1 & G2 & _). auto.
Qed.

Theorem array_predicates_apply_to_reachable T rootid ti ops : valid_T T ->
  let c := set_threshold T in
  Forall (aop_ok c) ops ->
  let a := fst (a_run c (fst (arr_init rootid ti)) ops) in
  awf c a /\
  forall x, In x (nodes (a_root a)) ->
  forall need, (need <= cmin c \/ exists y, n_underflow c y = Some need) ->
  let h := hdr_of x in
  (cmin c < two32 /\ h_size h < two32 /\ need + c_arraySlabHeaderSize <= two32) /\
  forall nx es hs sums cs,
    let d := AD h nx es in
    let m := AM h hs sums cs in
    GoFuncs.ArrayDataSlab_IsFull (cmax c) (h_size h) = n_is_full c d /\
    GoFuncs.ArrayDataSlab_IsUnderflow (cmin c) (h_size h) = underflow_result (n_underflow c d) /\
    GoFuncs.ArrayMetaDataSlab_IsFull (cmax c) (h_size h) = n_is_full c m /\
    GoFuncs.ArrayMetaDataSlab_IsUnderflow (cmin c) (h_size h) = underflow_result (n_underflow c m) /\
    GoFuncs.ArrayMetaDataSlab_CanLendToLeft (cmin c) (h_size h) need = n_can_lend_to_left c m need /\
    GoFuncs.ArrayMetaDataSlab_CanLendToRight (cmin c) (h_size h) need = n_can_lend_to_right c m need.
Proof.
  intros HT c Hops a. pose proof (reachable_awf T HT rootid ti ops Hops) as Ha. fold c a in Ha.
  split; [exact Ha|]. intros x Hx need Hneed h.
  assert (Hn : need <= cmin c).
  { destruct Hneed as [H|(y & Hy)]; [exact H|]. apply underflow_need in Hy. lia. }
  pose proof (array_predicate_hyps T a h need HT Ha (nodes_hdr_in _ _ Hx) Hn) as (H1 & H2 & H3).
  split; [auto|]. intros nx es hs sums cs. apply gen_array_predicates_eq; assumption.
Qed.

End A.

(** * Part A, maps *)
Module M.
Import MapElems MapElemsInv MapTree MapTreeInv.
Import MapTree_proofs MapRebalance_proofs Map_proofs.

Fixpoint all_hdrs (n : mnode) : list mhdr :=
  match n with
  | MD h _ _ => [h]
  | MM h hs cs => h :: hs ++ flat_map all_hdrs cs
  end.

Fixpoint nodes (n : mnode) : list mnode :=
  n :: match n with MD _ _ _ => [] | MM _ _ cs => flat_map nodes cs end.

Lemma mwfn_hdrs_le dg levels c B : cmax c <= B -> forall d n, mwfn dg levels c d n -> mh_size (hdr_of n) <= B ->
  Forall (fun h => mh_size h <= B) (all_hdrs n).
Proof.
  intros HB. induction d as [|d IH]; intros n Hw Hn.
  - inversion Hw; subst. cbn [all_hdrs hdr_of] in *. auto.
  - inversion Hw as [|d' h hs cs Hws Hbs Hhs Hne Hsz Hf Hr]; subst.
    cbn [all_hdrs hdr_of] in *. constructor; [exact Hn|]. apply Forall_app. split.
    + apply Forall_forall. intros x Hx. apply in_map_iff in Hx. destruct Hx as (ch & <- & Hch).
      rewrite Forall_forall in Hbs. destruct (Hbs ch Hch). lia.
    + apply Forall_flat_map. apply Forall_forall. intros ch Hch.
      rewrite Forall_forall in Hws, Hbs. apply IH; [apply Hws, Hch|]. destruct (Hbs ch Hch). lia.
Qed.

Lemma mwf_root_hdrs_le dg levels c r : mwf_root dg levels c r ->
  Forall (fun h => mh_size h <= cmax c) (all_hdrs r).
Proof.
  intros H. inversion H; subst.
  - cbn [all_hdrs]. auto.
  - eapply mwfn_hdrs_le; [apply N.le_refl|eassumption|assumption].
Qed.

Lemma nodes_hdr_in : forall n x, In x (nodes n) -> In (hdr_of x) (all_hdrs n).
Proof.
  induction n as [h nx es|h hs cs IH] using mnode_ind'; intros x Hx; cbn [nodes all_hdrs] in *.
  - destruct Hx as [<-|[]]. left. reflexivity.
  - destruct Hx as [<-|Hx]; [left; reflexivity|]. right. apply in_or_app. right.
    apply in_flat_map in Hx. destruct Hx as (ch & Hch & Hx). apply in_flat_map. exists ch. split; [exact Hch|].
    rewrite Forall_forall in IH. apply IH; assumption.
Qed.

Theorem map_hdr_sizes_bounded T dg levels t : valid_T T -> mtwf dg levels (set_threshold T) t ->
  Forall (fun h => mh_size h <= cmax (set_threshold T) /\ mh_size h <= 49152 /\ mh_size h < two32)
         (all_hdrs (t_root t)).
Proof.
  intros HT (Hr & _). pose proof (cmax_lt_two32 T HT) as (H1 & H2).
  eapply Forall_impl; [|eapply mwf_root_hdrs_le; exact Hr]. cbn beta. intros h Hh. lia.
Qed.

Lemma underflow_need c n need : n_underflow c n = Some need -> 0 < need /\ need <= cmin c /\
  mh_size (hdr_of n) + need = cmin c.
Proof. unfold n_underflow. destruct (mh_size (hdr_of n) <? cmin c) eqn:E; [|discriminate]. intros [= <-]. lia. Qed.

Theorem map_predicate_hyps T dg levels t h need : valid_T T -> mtwf dg levels (set_threshold T) t ->
  In h (all_hdrs (t_root t)) -> need <= cmin (set_threshold T) ->
  cmin (set_threshold T) < two32 /\ mh_size h < two32 /\ need + c_mapSlabHeaderSize <= two32.
Proof.
  intros HT Ha Hin Hneed. pose proof (map_hdr_sizes_bounded T dg levels t HT Ha) as HF.
  rewrite Forall_forall in HF. destruct (HF h Hin) as (_ & _ & Hh).
  destruct (gen_predicate_domain T need HT Hneed) as (G1 & _ & G3). auto.
Qed.

Theorem map_predicates_apply_to_reachable T dg limit levels ks rootid ops :
  valid_T T -> (1 <= levels)%nat ->
  let c := set_threshold T in
  Forall (mop_ok T ks) ops ->
  let t := fst (mt_run dg levels (cinl_melem c) limit c (fst (mt_init rootid)) ops) in
  mtwf dg levels c t /\
  forall x, In x (nodes (t_root t)) ->
  forall need, (need <= cmin c \/ exists y, n_underflow c y = Some need) ->
  let h := hdr_of x in
  (cmin c < two32 /\ mh_size h < two32 /\ need + c_mapSlabHeaderSize <= two32) /\
  forall nx es hs cs,
    let d := MD h nx es in
    let m := MM h hs cs in
    GoFuncs.MapDataSlab_IsFull (cmax c) (mh_size h) false = n_is_full c d /\
    GoFuncs.MapDataSlab_IsUnderflow (cmin c) (mh_size h) false = underflow_result (n_underflow c d) /\
    (forall mx mn sz, GoFuncs.MapDataSlab_IsFull mx sz true = false /\ GoFuncs.MapDataSlab_IsUnderflow mn sz true = (0, false)) /\
    GoFuncs.MapMetaDataSlab_IsFull (cmax c) (mh_size h) = n_is_full c m /\
    GoFuncs.MapMetaDataSlab_IsUnderflow (cmin c) (mh_size h) = underflow_result (n_underflow c m) /\
    GoFuncs.MapMetaDataSlab_CanLendToLeft (cmin c) (mh_size h) need = n_can_lend_to_left c m need /\
    GoFuncs.MapMetaDataSlab_CanLendToRight (cmin c) (mh_size h) need = n_can_lend_to_right c m need.
Proof.
  intros HT Hlv c Hops t.
  assert (Ha : mtwf dg levels c t).
  { pose proof (mt_run_from_empty dg levels T HT Hlv limit ks rootid ops Hops) as H.
    subst t c. destruct (mt_run _ _ _ _ _ _ _) as [t outs]. destruct (d_run _ _ _ _ _) as [d outs'].
    cbn [fst]. destruct H as (_ & _ & _ & H4 & _). apply H4. }
  split; [exact Ha|]. intros x Hx need Hneed h.
  assert (Hn : need <= cmin c).
  { destruct Hneed as [H|(y & Hy)]; [exact H|]. apply underflow_need in Hy. lia. }
  pose proof (map_predicate_hyps T dg levels t h need HT Ha (nodes_hdr_in _ _ Hx) Hn) as (H1 & H2 & H3).
  split; [auto|]. intros nx es hs cs. apply gen_map_predicates_eq; assumption.
Qed.

(* the slab on which the parent evaluates IsFull / IsUnderflow right after the recursive update
   ([upd_post]: the post-condition of n_set / n_remove on a subtree), and the root before the root fix-up *)
Theorem updated_child_hdr_lt_two32 dg levels T d n n' : valid_T T ->
  MapTreeOps_proofs.upd_post dg levels T d n n' -> in_band (set_threshold T) n ->
  mh_size (hdr_of n') < two32.
Proof.
  intros HT (_ & _ & _ & Hsz) (_ & Hb). pose proof (mcfg_facts T HT) as (?&?&?&?&?&?).
  unfold slack in Hsz. destruct (is_data n); unfold two32; unfold_msizes; lia.
Qed.
Theorem root_mid_hdr_lt_two32 dg levels T r : valid_T T -> root_mid dg levels T r -> mh_size (hdr_of r) < two32.
Proof.
  intros HT H. pose proof (mcfg_facts T HT) as (?&?&?&?&?&?).
  inversion H; subst; cbn [hdr_of]; unfold two32; unfold_msizes; lia.
Qed.

End M.

(** * Part B: wrap-detecting arithmetic *)
Module U.
Definition two64 : N := 18446744073709551616.

(* uint32 subtraction / addition / multiplication that REPORT a result outside [0, 2^32) *)
Definition usub (a b : N) : option N := if b <=? a then Some (a - b) else None.
Definition uadd (a b : N) : option N := if a + b <? two32 then Some (a + b) else None.
Definition umul (a b : N) : option N := if a * b <? two32 then Some (a * b) else None.
(* uint64 addition (array indices) *)
Definition uadd64 (a b : N) : option N := if a + b <? two64 then Some (a + b) else None.
(* subtraction / predecessor of Go ints and uint32 counts held in nat *)
Definition nsub (a b : nat) : option nat := if (b <=? a)%nat then Some (a - b)%nat else None.
Definition npred (a : nat) : option nat := match a with O => None | S k => Some k end.

Lemma usub_ok a b : b <= a -> usub a b = Some (a - b).
Proof. intros H. unfold usub. destruct (b <=? a) eqn:E; [reflexivity|lia]. Qed.
Lemma uadd_ok a b : a + b < two32 -> uadd a b = Some (a + b).
Proof. intros H. unfold uadd. destruct (a + b <? two32) eqn:E; [reflexivity|lia]. Qed.
Lemma umul_ok a b : a * b < two32 -> umul a b = Some (a * b).
Proof. intros H. unfold umul. destruct (a * b <? two32) eqn:E; [reflexivity|lia]. Qed.
Lemma uadd64_ok a b : a + b < two64 -> uadd64 a b = Some (a + b).
Proof. intros H. unfold uadd64. destruct (a + b <? two64) eqn:E; [reflexivity|lia]. Qed.
Lemma nsub_ok a b : (b <= a)%nat -> nsub a b = Some (a - b)%nat.
Proof. intros H. unfold nsub. destruct (b <=? a)%nat eqn:E; [reflexivity|lia]. Qed.
Lemma npred_ok a : (0 < a)%nat -> npred a = Some (pred a).
Proof. destruct a; [lia|reflexivity]. Qed.

(* what "Some r" means: r is the mathematical (integer) value, it lies in [0, 2^32), and it is what
   Go's wrapping uint32 operation returns on uint32 operands *)
Lemma usub_spec a b r : usub a b = Some r ->
  (Z.of_N r = Z.of_N a - Z.of_N b)%Z /\ r = N.sub a b /\
  (a < two32 -> b < two32 -> r < two32 /\ r = (a + two32 - b) mod two32).
Proof.
  unfold usub. destruct (b <=? a) eqn:E; [|discriminate]. intros [= <-].
  split; [lia|]. split; [reflexivity|]. intros Ha Hb. split; [lia|].
  replace (a + two32 - b) with ((a - b) + 1 * two32) by lia.
  rewrite N.mod_add by (unfold two32; lia). symmetry. apply N.mod_small. lia.
Qed.
Lemma uadd_spec a b r : uadd a b = Some r ->
  (Z.of_N r = Z.of_N a + Z.of_N b)%Z /\ r = a + b /\ r < two32 /\ r = (a + b) mod two32.
Proof.
  unfold uadd. destruct (a + b <? two32) eqn:E; [|discriminate]. intros [= <-].
  repeat split; try lia. symmetry. apply N.mod_small. lia.
Qed.
Lemma umul_spec a b r : umul a b = Some r ->
  (Z.of_N r = Z.of_N a * Z.of_N b)%Z /\ r = a * b /\ r < two32 /\ r = (a * b) mod two32.
Proof.
  unfold umul. destruct (a * b <? two32) eqn:E; [|discriminate]. intros [= <-].
  repeat split; try lia. symmetry. apply N.mod_small. lia.
Qed.
(* conversely: when the mathematical value leaves the range, the twin says so *)
Lemma usub_none a b : usub a b = None <-> a < b.
Proof. unfold usub. destruct (b <=? a) eqn:E; split; intros H; first [reflexivity|discriminate|lia]. Qed.
Lemma uadd_none a b : uadd a b = None <-> two32 <= a + b.
Proof. unfold uadd. destruct (a + b <? two32) eqn:E; split; intros H; first [reflexivity|discriminate|lia]. Qed.

Declare Scope ck_scope.
Notation "x <- e ;; f" := (match e with Some x => f | None => None end)
  (at level 61, e at next level, right associativity) : ck_scope.
Notation "' p <- e ;; f" := (match e with Some p => f | None => None end)
  (at level 61, p pattern, e at next level, right associativity) : ck_scope.
End U.

Module AB.
Import ArrayTree ArrayInv U.
Local Open Scope ck_scope.

(** ** the loops of array_data_slab.go *)
Fixpoint split_point_ck (es : list elem) (dataSize mid leftSize : N) (i : nat) : option (nat * N) :=
  match es with
  | [] => Some (0%nat, leftSize)
  | e :: r =>
    let z := e_sz e in
    lz <- uadd leftSize z ;;
    if mid <=? lz then
      d1 <- usub dataSize leftSize ;; d2 <- usub d1 z ;;
      if leftSize <=? d2 then Some (S i, lz) else Some (i, leftSize)
    else split_point_ck r dataSize mid lz (S i)
  end.

(* both operands of Go's && are evaluated here (Go short-circuits: a superset of its evaluations) *)
Fixpoint lend_loop_ck (res : list elem) (size mid m : N) (leftCount : nat) (leftSize : N) : option (nat * N) :=
  match res with
  | [] => Some (leftCount, leftSize)
  | e :: r =>
    let z := e_sz e in
    d <- usub leftSize z ;; s <- usub size leftSize ;;
    if (d <? mid) && (m <=? s) then Some (leftCount, leftSize)
    else lc' <- npred leftCount ;; lend_loop_ck r size mid m lc' d
  end.

Fixpoint borrow_loop_ck (es : list elem) (size mid m : N) (leftCount : nat) (leftSize : N) : option (nat * N) :=
  match es with
  | [] => Some (leftCount, leftSize)
  | e :: r =>
    let z := e_sz e in
    lz <- uadd leftSize z ;;
    if mid <? lz then
      d1 <- usub size leftSize ;; d2 <- usub d1 z ;;
      if m <=? d2 then Some (S leftCount, lz) else Some (leftCount, leftSize)
    else borrow_loop_ck r size mid m (S leftCount) lz
  end.

Fixpoint can_lend_loop_ck (es : list elem) (hsize m need lend : N) : option bool :=
  match es with
  | [] => Some false
  | e :: r =>
    lend' <- uadd lend (e_sz e) ;;
    d <- usub hsize lend' ;;
    if d <? m then Some false
    else if need <=? lend' then Some true
    else can_lend_loop_ck r hsize m need lend'
  end.
Definition d_can_lend_ck (es_walk : list elem) (hsize m need : N) : option bool :=
  if Nat.ltb (length es_walk) 2 then Some false
  else d <- usub hsize need ;;
       if d <? m then Some false
       else can_lend_loop_ck es_walk hsize m need 0.

(* childSlabIndexInfo: adjustedIndex = index + uint64(count) - uint64(countSum), uint64 arithmetic *)
Definition route_ck (hs : list hdr) (sums : list N) (i : N) : option (option (nat * N)) :=
  let k := route_index sums i in
  match nth_error hs k, nth_error sums k with
  | Some h, Some s => a <- uadd64 i (h_count h) ;; j <- usub a s ;; Some (Some (k, j))
  | _, _ => Some None
  end.

(** *** no_wrap lemmas, in terms of the sizes alone *)
Lemma split_point_no_wrap : forall es D mid acc i,
  acc + sum_sz es = D -> D < two32 ->
  split_point_ck es D mid acc i = Some (split_point es D mid acc i).
Proof.
  induction es as [|e r IH]; intros D mid acc i Hsum HD; cbn [split_point_ck split_point sum_sz] in *; [reflexivity|].
  rewrite uadd_ok by lia. destruct (mid <=? acc + e_sz e).
  - rewrite usub_ok by lia. rewrite usub_ok by lia. destruct (acc <=? D - acc - e_sz e); reflexivity.
  - apply IH; lia.
Qed.

Lemma lend_loop_no_wrap : forall res size mid m lc ls,
  sum_sz res <= ls -> ls <= size -> (length res <= lc)%nat ->
  lend_loop_ck res size mid m lc ls = Some (lend_loop res size mid m lc ls).
Proof.
  induction res as [|e r IH]; intros size mid m lc ls Hsum Hls Hlc; cbn [lend_loop_ck lend_loop sum_sz length] in *; [reflexivity|].
  rewrite usub_ok by lia. rewrite usub_ok by lia.
  destruct ((ls - e_sz e <? mid) && (m <=? size - ls)); [reflexivity|].
  rewrite npred_ok by lia. apply IH; lia.
Qed.

Lemma borrow_loop_no_wrap : forall es size mid m lc ls,
  ls + sum_sz es <= size -> size < two32 ->
  borrow_loop_ck es size mid m lc ls = Some (borrow_loop es size mid m lc ls).
Proof.
  induction es as [|e r IH]; intros size mid m lc ls Hsum Hsz; cbn [borrow_loop_ck borrow_loop sum_sz] in *; [reflexivity|].
  rewrite uadd_ok by lia. destruct (mid <? ls + e_sz e).
  - rewrite usub_ok by lia. rewrite usub_ok by lia. destruct (m <=? size - ls - e_sz e); reflexivity.
  - apply IH; lia.
Qed.

Lemma can_lend_loop_no_wrap : forall es hsize m need lend,
  lend + sum_sz es <= hsize -> hsize < two32 ->
  can_lend_loop_ck es hsize m need lend = Some (can_lend_loop es hsize m need lend).
Proof.
  induction es as [|e r IH]; intros hsize m need lend Hsum Hsz; cbn [can_lend_loop_ck can_lend_loop sum_sz] in *; [reflexivity|].
  rewrite uadd_ok by lia. rewrite usub_ok by lia.
  destruct (hsize - (lend + e_sz e) <? m); [reflexivity|].
  destruct (need <=? lend + e_sz e); [reflexivity|]. apply IH; lia.
Qed.

Lemma d_can_lend_no_wrap es hsize m need :
  sum_sz es <= hsize -> hsize < two32 -> need <= hsize ->
  d_can_lend_ck es hsize m need = Some (d_can_lend es hsize m need).
Proof.
  intros Hsum Hsz Hneed. unfold d_can_lend_ck, d_can_lend.
  destruct (Nat.ltb (length es) 2); [reflexivity|]. rewrite usub_ok by lia.
  destruct (hsize - need <? m); [reflexivity|]. apply can_lend_loop_no_wrap; lia.
Qed.

(* the request that makes the first subtraction of CanLendTo... wrap: larger than the cached size *)
Lemma d_can_lend_wraps_iff es hsize m need : (2 <= length es)%nat ->
  (d_can_lend_ck es hsize m need = None -> hsize < need \/ hsize < sum_sz es \/ two32 <= hsize).
Proof.
  intros H2 H. destruct (N.lt_ge_cases hsize need) as [L|G]; [left; exact L|]. right.
  destruct (N.lt_ge_cases hsize (sum_sz es)) as [L2|G2]; [left; exact L2|]. right.
  destruct (N.lt_ge_cases hsize two32) as [L3|G3]; [|exact G3].
  rewrite d_can_lend_no_wrap in H by assumption. discriminate.
Qed.


(** ** twins of the node-level slab operations *)
(* running uint32 sums, accumulated left to right as the Go loops do *)
Fixpoint sum_cnt_from (acc : N) (hs : list hdr) : option N :=
  match hs with [] => Some acc | h :: r => a <- uadd acc (h_count h) ;; sum_cnt_from a r end.
Fixpoint psums_ck (base : N) (hs : list hdr) : option (list N) :=
  match hs with
  | [] => Some []
  | h :: r => a <- uadd base (h_count h) ;; t <- psums_ck a r ;; Some (a :: t)
  end.
Fixpoint sum_sz_from (acc : N) (es : list elem) : option N :=
  match es with [] => Some acc | e :: r => a <- uadd acc (e_sz e) ;; sum_sz_from a r end.

Definition n_underflow_ck (c : cfg) (n : anode) : option (option N) :=
  if h_size (hdr_of n) <? cmin c then d <- usub (cmin c) (h_size (hdr_of n)) ;; Some (Some d) else Some None.

(* index slabs: n := uint32(math.Ceil(float64(size) / arraySlabHeaderSize)) is a float64 computation (no
   uint32 arithmetic inside ceil_div); arraySlabHeaderSize*n and header.size - arraySlabHeaderSize*n are *)
Definition am_can_lend_ck (c : cfg) (hsize need : N) : option bool :=
  let k := ceil_div need HS in
  p <- umul HS k ;;
  if p <=? hsize then d <- usub hsize p ;; Some (cmin c <? d) else Some false.

Definition n_can_lend_to_left_ck (c : cfg) (n : anode) (need : N) : option bool :=
  match n with
  | AD h _ es => d_can_lend_ck es (h_size h) (cmin c) need
  | AM h _ _ _ => am_can_lend_ck c (h_size h) need
  end.
Definition n_can_lend_to_right_ck (c : cfg) (n : anode) (need : N) : option bool :=
  match n with
  | AD h _ es => d_can_lend_ck (rev es) (h_size h) (cmin c) need
  | AM h _ _ _ => am_can_lend_ck c (h_size h) need
  end.

Definition n_split_ck (n : anode) (newid : N) : option (res (anode * anode)) :=
  match n with
  | AD h next es =>
    if Nat.ltb (length es) 2 then Some (Err ESplit)
    else
      dataSize <- usub (h_size h) P ;;
      d1 <- uadd dataSize 1 ;;
      '(lc, ls) <- split_point_ck es dataSize (d1 / 2) 0 0 ;;
      lsz <- uadd P ls ;;
      t <- uadd P dataSize ;; rsz <- usub t ls ;;
      rc <- nsub (length es) lc ;;                       (* len(elements[leftCount:]) *)
      Some (Ok (AD (mkhdr (h_id h) lsz (N.of_nat lc)) newid (firstn lc es),
                AD (mkhdr newid rsz (N.of_nat rc)) next (skipn lc es)))
  | AM h hs sums cs =>
    if Nat.ltb (length hs) 2 then Some (Err ESplit)
    else
      let lc := Nat.div2 (S (length hs)) in
      leftSize <- umul (N.of_nat lc) HS ;;
      leftCount <- sum_cnt_from 0 (firstn lc hs) ;;
      lsz <- uadd PM leftSize ;;
      rsz <- usub (h_size h) leftSize ;;
      rcnt <- usub (h_count h) leftCount ;;
      rsums <- psums_ck 0 (skipn lc hs) ;;
      Some (Ok (AM (mkhdr (h_id h) lsz leftCount) (firstn lc hs) (firstn lc sums) (firstn lc cs),
                AM (mkhdr newid rsz rcnt) (skipn lc hs) rsums (skipn lc cs)))
  end.

Definition n_merge_ck (l r : anode) : option (res anode) :=
  match l, r with
  | AD h _ es, AD h2 next2 es2 =>
    t <- uadd (h_size h) (h_size h2) ;; sz <- usub t P ;;
    cnt <- uadd (h_count h) (h_count h2) ;;
    Some (Ok (AD (mkhdr (h_id h) sz cnt) next2 (es ++ es2)))
  | AM h hs sums cs, AM h2 hs2 _ cs2 =>
    d <- usub (h_size h2) PM ;; sz <- uadd (h_size h) d ;;
    cnt <- uadd (h_count h) (h_count h2) ;;
    ps <- psums_ck (last_or0 sums) hs2 ;;
    Some (Ok (AM (mkhdr (h_id h) sz cnt) (hs ++ hs2) (sums ++ ps) (cs ++ cs2)))
  | _, _ => Some (Err EPanic)
  end.

(* [mvc]: the move count Go computes explicitly (oldLeftCount - leftCount, uint32 resp. int); the model
   uses firstn/skipn instead, the twin checks it as well *)
Definition n_lend_to_right_ck (c : cfg) (l r : anode) : option (res (anode * anode)) :=
  match l, r with
  | AD h next es, AD h2 next2 es2 =>
    count <- uadd (h_count h) (h_count h2) ;;
    size <- uadd (h_size h) (h_size h2) ;;
    s1 <- uadd size 1 ;;
    '(lc, ls) <- lend_loop_ck (rev es) size (s1 / 2) (cmin c) (N.to_nat (h_count h)) (h_size h) ;;
    mvc <- usub (h_count h) (N.of_nat lc) ;;
    rsz <- usub size ls ;;
    rcnt <- usub count (N.of_nat lc) ;;
    Some (Ok (AD (mkhdr (h_id h) ls (N.of_nat lc)) next (firstn lc es),
              AD (mkhdr (h_id h2) rsz rcnt) next2 (skipn lc es ++ es2)))
  | AM h hs sums cs, AM h2 hs2 sums2 cs2 =>
    let lc := Nat.div2 (length hs + length hs2) in
    mvc <- nsub (length hs) lc ;;
    let hsr := skipn lc hs ++ hs2 in
    l1 <- umul (N.of_nat lc) HS ;; lsz <- uadd PM l1 ;;
    lcnt <- sum_cnt_from 0 (firstn lc hs) ;;
    r1 <- umul (N.of_nat (length hsr)) HS ;; rsz <- uadd PM r1 ;;
    rcnt <- sum_cnt_from 0 hsr ;;
    rsums <- psums_ck 0 hsr ;;
    Some (Ok (AM (mkhdr (h_id h) lsz lcnt) (firstn lc hs) (firstn lc sums) (firstn lc cs),
              AM (mkhdr (h_id h2) rsz rcnt) hsr rsums (skipn lc cs ++ cs2)))
  | _, _ => Some (Err EPanic)
  end.

Definition n_borrow_from_right_ck (c : cfg) (l r : anode) : option (res (anode * anode)) :=
  match l, r with
  | AD h next es, AD h2 next2 es2 =>
    count <- uadd (h_count h) (h_count h2) ;;
    size <- uadd (h_size h) (h_size h2) ;;
    s1 <- uadd size 1 ;;
    '(lc, ls) <- borrow_loop_ck es2 size (s1 / 2) (cmin c) (N.to_nat (h_count h)) (h_size h) ;;
    mv <- nsub lc (N.to_nat (h_count h)) ;;               (* moveCount := leftCount - oldLeftCount *)
    rsz <- usub size ls ;;
    rcnt <- usub count (N.of_nat lc) ;;
    Some (Ok (AD (mkhdr (h_id h) ls (N.of_nat lc)) next (es ++ firstn mv es2),
              AD (mkhdr (h_id h2) rsz rcnt) next2 (skipn mv es2)))
  | AM h hs sums cs, AM h2 hs2 sums2 cs2 =>
    let lc := Nat.div2 (length hs + length hs2) in
    mv <- nsub lc (length hs) ;;                          (* leftChildrenHeaderCount - oldLeft... (int) *)
    let hsl := hs ++ firstn mv hs2 in
    let hsr := skipn mv hs2 in
    l1 <- umul (N.of_nat lc) HS ;; lsz <- uadd PM l1 ;;
    lcnt <- sum_cnt_from (h_count h) (firstn mv hs2) ;;
    lsums <- psums_ck (h_count h) (firstn mv hs2) ;;
    r1 <- umul (N.of_nat (length hsr)) HS ;; rsz <- uadd PM r1 ;;
    rcnt <- sum_cnt_from 0 hsr ;;
    rsums <- psums_ck 0 hsr ;;
    Some (Ok (AM (mkhdr (h_id h) lsz lcnt) hsl (sums ++ lsums) (cs ++ firstn mv cs2),
              AM (mkhdr (h_id h2) rsz rcnt) hsr rsums (skipn mv cs2)))
  | _, _ => Some (Err EPanic)
  end.

(** ** twins of the parent's fix-ups (slab indices [alloc] are 64-bit counters, not instrumented) *)
Definition split_child_ck (h : hdr) (hs : list hdr) (sums : list N) (cs : list anode)
           (k : nat) (child : anode) (alloc : N) : option (res (anode * N * wlog)) :=
  base <- usub (nth k sums 0) (h_count (hdr_of child)) ;;
  sp <- n_split_ck child (alloc + 1) ;;
  match sp with
  | Err e => Some (Err e)
  | Ok (l, r) =>
    lsum <- uadd base (h_count (hdr_of l)) ;;
    rsum <- uadd lsum (h_count (hdr_of r)) ;;
    sz <- uadd (h_size h) HS ;;
    Some (Ok (AM (mkhdr (h_id h) sz (h_count h))
                 (insert_nth (S k) (hdr_of r) (replace_nth k (hdr_of l) hs))
                 (insert_nth (S k) rsum (replace_nth k lsum sums))
                 (insert_nth (S k) r (replace_nth k l cs)),
              alloc + 1,
              [WStore (h_id (hdr_of l)); WStore (h_id (hdr_of r)); WStore (h_id h)]))
  end.

Definition rebalance_children_ck (c : cfg) (h : hdr) (hs : list hdr) (sums : list N) (cs : list anode)
           (li : nat) (l r : anode) (borrow : bool) : option (res (anode * wlog)) :=
  base <- usub (nth li sums 0) (h_count (hdr_of l)) ;;
  rb <- (if borrow then n_borrow_from_right_ck c l r else n_lend_to_right_ck c l r) ;;
  match rb with
  | Err e => Some (Err e)
  | Ok (l', r') =>
    ls <- uadd base (h_count (hdr_of l')) ;;
    Some (Ok (AM h (replace_nth (S li) (hdr_of r') (replace_nth li (hdr_of l') hs))
                 (replace_nth li ls sums)
                 (replace_nth (S li) r' (replace_nth li l' cs)),
              [WStore (h_id (hdr_of l')); WStore (h_id (hdr_of r')); WStore (h_id h)]))
  end.

Definition merge_children_ck (h : hdr) (hs : list hdr) (sums : list N) (cs : list anode)
           (li : nat) (l r : anode) : option (res (anode * wlog)) :=
  mg <- n_merge_ck l r ;;
  match mg with
  | Err e => Some (Err e)
  | Ok m =>
    sz <- usub (h_size h) HS ;;
    Some (Ok (AM (mkhdr (h_id h) sz (h_count h))
                 (remove_nth (S li) (replace_nth li (hdr_of m) hs))
                 (remove_nth (S li) (replace_nth li (nth (S li) sums 0) sums))
                 (remove_nth (S li) (replace_nth li m cs)),
              [WStore (h_id (hdr_of m)); WStore (h_id h); WRemove (h_id (hdr_of r))]))
  end.

Definition merge_or_rebalance_ck (c : cfg) (h : hdr) (hs : list hdr) (sums : list N) (cs : list anode)
           (k : nat) (child : anode) (need : N) : option (res (anode * wlog)) :=
  let lsib := match k with O => None | S k' => nth_error cs k' end in
  let rsib := nth_error cs (S k) in
  lcan <- match lsib with Some s => n_can_lend_to_right_ck c s need | None => Some false end ;;
  rcan <- match rsib with Some s => n_can_lend_to_left_ck c s need | None => Some false end ;;
  if lcan || rcan then
    match lsib, rsib with
    | Some ls, Some rs =>
      if negb lcan then rebalance_children_ck c h hs sums cs k child rs true
      else if negb rcan then rebalance_children_ck c h hs sums cs (pred k) ls child false
      else if h_size (hdr_of rs) <? h_size (hdr_of ls) then rebalance_children_ck c h hs sums cs (pred k) ls child false
      else rebalance_children_ck c h hs sums cs k child rs true
    | Some ls, None => rebalance_children_ck c h hs sums cs (pred k) ls child false
    | None, Some rs => rebalance_children_ck c h hs sums cs k child rs true
    | None, None => Some (Err EPanic)
    end
  else
    match lsib, rsib with
    | None, Some rs => merge_children_ck h hs sums cs k child rs
    | Some ls, None => merge_children_ck h hs sums cs (pred k) ls child
    | Some ls, Some rs =>
      if h_size (hdr_of ls) <? h_size (hdr_of rs) then merge_children_ck h hs sums cs (pred k) ls child
      else merge_children_ck h hs sums cs k child rs
    | None, None => Some (Err EPanic)
    end.


(** *** no_wrap lemmas of the node-level operations *)
Lemma sum_cnt_from_ok : forall hs acc, acc + sum_cnt hs < two32 -> sum_cnt_from acc hs = Some (acc + sum_cnt hs).
Proof.
  induction hs as [|h r IH]; intros acc H; cbn [sum_cnt_from sum_cnt] in *; [f_equal; lia|].
  rewrite uadd_ok by lia. rewrite IH by lia. f_equal. lia.
Qed.
Lemma sum_cnt_from0_ok hs : sum_cnt hs < two32 -> sum_cnt_from 0 hs = Some (sum_cnt hs).
Proof. intros H. rewrite sum_cnt_from_ok by lia. reflexivity. Qed.
Lemma psums_ck_ok : forall hs base, base + sum_cnt hs < two32 -> psums_ck base hs = Some (psums base hs).
Proof.
  induction hs as [|h r IH]; intros base H; cbn [psums_ck psums sum_cnt] in *; [reflexivity|].
  rewrite uadd_ok by lia. rewrite IH by lia. reflexivity.
Qed.
Lemma sum_sz_from_ok : forall es acc, acc + sum_sz es < two32 -> sum_sz_from acc es = Some (acc + sum_sz es).
Proof.
  induction es as [|e r IH]; intros acc H; cbn [sum_sz_from sum_sz] in *; [f_equal; lia|].
  rewrite uadd_ok by lia. rewrite IH by lia. f_equal. lia.
Qed.
Lemma sum_cnt_firstn_le k hs : sum_cnt (firstn k hs) <= sum_cnt hs.
Proof. pose proof (sum_cnt_firstn_skipn k hs). lia. Qed.
Lemma sum_cnt_skipn_le k hs : sum_cnt (skipn k hs) <= sum_cnt hs.
Proof. pose proof (sum_cnt_firstn_skipn k hs). lia. Qed.

Lemma n_underflow_no_wrap c n : n_underflow_ck c n = Some (n_underflow c n).
Proof.
  unfold n_underflow_ck, n_underflow. destruct (h_size (hdr_of n) <? cmin c) eqn:E; [|reflexivity].
  rewrite usub_ok by lia. reflexivity.
Qed.

Lemma am_can_lend_no_wrap c hsize need : need + HS <= two32 ->
  am_can_lend_ck c hsize need =
  Some (let k := ceil_div need HS in if HS * k <=? hsize then cmin c <? hsize - HS * k else false).
Proof.
  intros Hn. unfold am_can_lend_ck. cbv zeta.
  assert (HS * ceil_div need HS < two32).
  { unfold ceil_div. unfold_sizes. unfold two32 in *. lia. }
  rewrite umul_ok by assumption. destruct (HS * ceil_div need HS <=? hsize) eqn:E; [|reflexivity].
  rewrite usub_ok by lia. reflexivity.
Qed.

Lemma wfn_sum_le c d h nx es : wfn c d (AD h nx es) -> sum_sz es <= h_size h.
Proof. intros H. apply wfn_AD_iff in H. lia. Qed.

Lemma n_can_lend_to_left_no_wrap c d n need :
  wfn c d n -> h_size (hdr_of n) < two32 -> need <= h_size (hdr_of n) -> need + HS <= two32 ->
  n_can_lend_to_left_ck c n need = Some (n_can_lend_to_left c n need).
Proof.
  intros Hw Hsz Hneed Hn. destruct n as [h nx es|h hs sums cs]; cbn [n_can_lend_to_left_ck n_can_lend_to_left hdr_of] in *.
  - apply d_can_lend_no_wrap; auto. eapply wfn_sum_le; eauto.
  - apply am_can_lend_no_wrap; assumption.
Qed.
Lemma n_can_lend_to_right_no_wrap c d n need :
  wfn c d n -> h_size (hdr_of n) < two32 -> need <= h_size (hdr_of n) -> need + HS <= two32 ->
  n_can_lend_to_right_ck c n need = Some (n_can_lend_to_right c n need).
Proof.
  intros Hw Hsz Hneed Hn. destruct n as [h nx es|h hs sums cs]; cbn [n_can_lend_to_right_ck n_can_lend_to_right hdr_of] in *.
  - apply d_can_lend_no_wrap; auto. rewrite sum_sz_rev. eapply wfn_sum_le; eauto.
  - apply am_can_lend_no_wrap; assumption.
Qed.

Lemma n_split_no_wrap c d n newid :
  wfn c d n -> h_size (hdr_of n) + 1 < two32 -> h_count (hdr_of n) < two32 ->
  n_split_ck n newid = Some (n_split n newid).
Proof.
  intros Hw Hsz Hcnt. destruct n as [h nx es|h hs sums cs]; cbn [hdr_of] in *.
  - apply wfn_AD_iff in Hw. destruct Hw as (-> & HF & Hc & Hs).
    unfold n_split_ck, n_split. destruct (Nat.ltb (length es) 2) eqn:Hlt; [reflexivity|].
    apply Nat.ltb_ge in Hlt.
    assert (HD : h_size h - P = sum_sz es) by lia.
    rewrite usub_ok by lia. rewrite HD. rewrite uadd_ok by lia.
    rewrite split_point_no_wrap by lia.
    destruct (split_point es (sum_sz es) ((sum_sz es + 1) / 2) 0 0) as [lc ls] eqn:Hsp.
    assert (Hpos : 0 < sum_sz es).
    { destruct es as [|a r]; [cbn in Hlt; lia|]. pose proof (Forall_inv HF) as Ha. unfold elem_ok in Ha.
      cbn [sum_sz]. lia. }
    pose proof (split_point_spec es (sum_sz es) 0 0%nat (cinl_arr c) HF ltac:(lia) ltac:(lia) lc ls Hsp)
      as (S1 & S2 & S3 & S4 & _).
    rewrite uadd_ok by lia. rewrite uadd_ok by lia. rewrite usub_ok by lia. rewrite nsub_ok by lia.
    reflexivity.
  - apply wfn_AM_inv in Hw. destruct Hw as (d' & -> & Hw & Hb & Hhs & Hsums & Hc & Hs).
    assert (Hlen : length hs = length cs) by (subst hs; apply map_length).
    unfold n_split_ck, n_split. destruct (Nat.ltb (length hs) 2) eqn:Hlt; [reflexivity|].
    apply Nat.ltb_ge in Hlt.
    set (lc := Nat.div2 (S (length hs))).
    assert (Hlc : (lc <= length hs)%nat) by (subst lc; rewrite div2_half; lia).
    pose proof (sum_cnt_firstn_le lc hs). pose proof (sum_cnt_skipn_le lc hs).
    assert (HlcS : N.of_nat lc * HS <= N.of_nat (length cs) * HS) by (apply N.mul_le_mono_r; lia).
    rewrite umul_ok by lia. rewrite sum_cnt_from0_ok by lia. rewrite uadd_ok by (unfold_sizes; lia).
    rewrite usub_ok by lia. rewrite usub_ok by lia. rewrite psums_ck_ok by lia. reflexivity.
Qed.

Lemma n_merge_no_wrap c d l r :
  wfn c d l -> wfn c d r ->
  h_size (hdr_of l) + h_size (hdr_of r) < two32 -> h_count (hdr_of l) + h_count (hdr_of r) < two32 ->
  n_merge_ck l r = Some (n_merge l r).
Proof.
  intros Hl Hr Hsz Hcnt. destruct d as [|d].
  - destruct (wfn_0_inv _ _ Hl) as (h & nx & es & -> & HF & Hc & Hs).
    destruct (wfn_0_inv _ _ Hr) as (h2 & nx2 & es2 & -> & HF2 & Hc2 & Hs2).
    cbn [n_merge_ck n_merge hdr_of] in *.
    rewrite uadd_ok by lia. rewrite usub_ok by lia. rewrite uadd_ok by lia. reflexivity.
  - destruct (wfn_S_inv _ _ _ Hl) as (h & hs & sums & cs & -> & Hw & Hb & Hhs & Hsums & Hc & Hs).
    destruct (wfn_S_inv _ _ _ Hr) as (h2 & hs2 & sums2 & cs2 & -> & Hw2 & Hb2 & Hhs2 & Hsums2 & Hc2 & Hs2).
    cbn [n_merge_ck n_merge hdr_of] in *.
    rewrite usub_ok by lia. rewrite uadd_ok by lia. rewrite uadd_ok by lia.
    rewrite psums_ck_ok; [reflexivity|]. subst sums. unfold last_or0. rewrite psums_last0. lia.
Qed.

Lemma n_lend_to_right_no_wrap c d l r :
  wfn c d l -> wfn c d r ->
  h_size (hdr_of l) + h_size (hdr_of r) + 1 < two32 -> h_count (hdr_of l) + h_count (hdr_of r) < two32 ->
  h_size (hdr_of r) <= h_size (hdr_of l) + HS ->
  n_lend_to_right_ck c l r = Some (n_lend_to_right c l r).
Proof.
  intros Hl Hr Hsz Hcnt Hle. destruct d as [|d].
  - destruct (wfn_0_inv _ _ Hl) as (h & nx & es & -> & HF & Hc & Hs).
    destruct (wfn_0_inv _ _ Hr) as (h2 & nx2 & es2 & -> & HF2 & Hc2 & Hs2).
    cbn [n_lend_to_right_ck n_lend_to_right hdr_of] in *.
    rewrite uadd_ok by lia. rewrite uadd_ok by lia. rewrite uadd_ok by lia.
    rewrite lend_loop_no_wrap by (rewrite ?sum_sz_rev, ?rev_length; lia).
    destruct (lend_loop (rev es) (h_size h + h_size h2) ((h_size h + h_size h2 + 1) / 2) (cmin c)
                (N.to_nat (h_count h)) (h_size h)) as [lc ls] eqn:Hloop.
    apply lend_loop_shape in Hloop. destruct Hloop as (done & rest & Hrev & Hlc & Hls).
    rewrite usub_ok by lia. rewrite usub_ok by lia. rewrite usub_ok by lia. reflexivity.
  - destruct (wfn_S_inv _ _ _ Hl) as (h & hs & sums & cs & -> & Hw & Hb & Hhs & Hsums & Hc & Hs).
    destruct (wfn_S_inv _ _ _ Hr) as (h2 & hs2 & sums2 & cs2 & -> & Hw2 & Hb2 & Hhs2 & Hsums2 & Hc2 & Hs2).
    cbn [n_lend_to_right_ck n_lend_to_right hdr_of] in *.
    assert (Hlen : length hs = length cs) by (subst hs; apply map_length).
    assert (Hlen2 : length hs2 = length cs2) by (subst hs2; apply map_length).
    set (lc := Nat.div2 (length hs + length hs2)).
    assert (Hlc : (lc = (length cs + length cs2) / 2)%nat) by (subst lc; rewrite div2_half, Hlen, Hlen2; reflexivity).
    assert (Hle' : (length cs2 <= length cs + 1)%nat) by (unfold_sizes; lia).
    assert (Hlcle : (lc <= length hs)%nat) by lia.
    rewrite nsub_ok by lia.
    pose proof (sum_cnt_firstn_le lc hs). pose proof (sum_cnt_skipn_le lc hs).
    assert (Hlr : length (skipn lc hs ++ hs2) = (length cs - lc + length cs2)%nat).
    { rewrite app_length, skipn_length. lia. }
    assert (H1 : N.of_nat lc * HS <= N.of_nat (length cs) * HS) by (apply N.mul_le_mono_r; lia).
    assert (H2 : N.of_nat (length (skipn lc hs ++ hs2)) * HS <= (N.of_nat (length cs) + N.of_nat (length cs2)) * HS).
    { apply N.mul_le_mono_r. rewrite Hlr. lia. }
    assert (H3 : sum_cnt (skipn lc hs ++ hs2) <= sum_cnt hs + sum_cnt hs2) by (rewrite sum_cnt_app; lia).
    rewrite umul_ok by lia. rewrite uadd_ok by (unfold_sizes; lia).
    rewrite sum_cnt_from0_ok by lia.
    rewrite umul_ok by lia. rewrite uadd_ok by (unfold_sizes; lia).
    rewrite sum_cnt_from0_ok by lia. rewrite psums_ck_ok by lia. reflexivity.
Qed.

Lemma n_borrow_from_right_no_wrap c d l r :
  wfn c d l -> wfn c d r ->
  h_size (hdr_of l) + h_size (hdr_of r) + 1 < two32 -> h_count (hdr_of l) + h_count (hdr_of r) < two32 ->
  h_size (hdr_of l) <= h_size (hdr_of r) ->
  n_borrow_from_right_ck c l r = Some (n_borrow_from_right c l r).
Proof.
  intros Hl Hr Hsz Hcnt Hle. destruct d as [|d].
  - destruct (wfn_0_inv _ _ Hl) as (h & nx & es & -> & HF & Hc & Hs).
    destruct (wfn_0_inv _ _ Hr) as (h2 & nx2 & es2 & -> & HF2 & Hc2 & Hs2).
    cbn [n_borrow_from_right_ck n_borrow_from_right hdr_of] in *.
    rewrite uadd_ok by lia. rewrite uadd_ok by lia. rewrite uadd_ok by lia.
    rewrite borrow_loop_no_wrap by (unfold_sizes; lia).
    destruct (borrow_loop es2 (h_size h + h_size h2) ((h_size h + h_size h2 + 1) / 2) (cmin c)
                (N.to_nat (h_count h)) (h_size h)) as [lc ls] eqn:Hloop.
    apply borrow_loop_shape in Hloop. destruct Hloop as (done & rest & Hes2 & Hlc & Hls).
    assert (sum_sz es2 = sum_sz done + sum_sz rest) by (rewrite Hes2; apply sum_sz_app).
    assert (length es2 = (length done + length rest)%nat) by (rewrite Hes2; apply app_length).
    rewrite nsub_ok by lia. rewrite usub_ok by (unfold_sizes; lia). rewrite usub_ok by lia. reflexivity.
  - destruct (wfn_S_inv _ _ _ Hl) as (h & hs & sums & cs & -> & Hw & Hb & Hhs & Hsums & Hc & Hs).
    destruct (wfn_S_inv _ _ _ Hr) as (h2 & hs2 & sums2 & cs2 & -> & Hw2 & Hb2 & Hhs2 & Hsums2 & Hc2 & Hs2).
    cbn [n_borrow_from_right_ck n_borrow_from_right hdr_of] in *.
    assert (Hlen : length hs = length cs) by (subst hs; apply map_length).
    assert (Hlen2 : length hs2 = length cs2) by (subst hs2; apply map_length).
    set (lc := Nat.div2 (length hs + length hs2)).
    assert (Hlc : (lc = (length cs + length cs2) / 2)%nat) by (subst lc; rewrite div2_half, Hlen, Hlen2; reflexivity).
    assert (Hle' : (length cs <= length cs2)%nat) by (unfold_sizes; lia).
    assert (Hge : (length hs <= lc)%nat) by lia.
    { rewrite nsub_ok by lia.
      set (mv := (lc - length hs)%nat).
      pose proof (sum_cnt_firstn_le mv hs2). pose proof (sum_cnt_skipn_le mv hs2).
      assert (H1 : N.of_nat lc * HS <= (N.of_nat (length cs) + N.of_nat (length cs2)) * HS) by (apply N.mul_le_mono_r; lia).
      assert (H2 : N.of_nat (length (skipn mv hs2)) * HS <= N.of_nat (length cs2) * HS).
      { apply N.mul_le_mono_r. rewrite skipn_length. lia. }
      rewrite umul_ok by lia. rewrite uadd_ok by (unfold_sizes; lia).
      rewrite sum_cnt_from_ok by lia. rewrite psums_ck_ok by lia.
      rewrite umul_ok by lia. rewrite uadd_ok by (unfold_sizes; lia).
      rewrite sum_cnt_from0_ok by lia. rewrite psums_ck_ok by lia. reflexivity. }
Qed.

(* the hypothesis on the two sizes cannot be dropped: with one child header more on the LEFT the move count
   leftChildrenHeaderCount - oldLeftChildrenHeaderCount of ArrayMetaDataSlab.BorrowFromRight is negative
   (Go: slice bounds panic; model: truncated to 0); the twin reports it *)
Example borrow_index_negative_move_count :
  let mk := fun i => AD (mkhdr i 100 1) 0 [mkelem 0 89 0] in
  let l := AM (mkhdr 1 40 2) [hdr_of (mk 3); hdr_of (mk 4)] [1; 2] [mk 3; mk 4] in
  let r := AM (mkhdr 2 22 1) [hdr_of (mk 5)] [1] [mk 5] in
  n_borrow_from_right_ck (set_threshold 256) l r = None.
Proof. vm_compute. reflexivity. Qed.


(** *** the parent's fix-ups *)
Lemma nth_psums_mid hpre hx hpost :
  nth (length hpre) (psums 0 (hpre ++ hx :: hpost)) 0 = sum_cnt hpre + h_count hx.
Proof. rewrite psums_cons_app, (nth_at (length hpre)) by (rewrite psums_length; reflexivity). lia. Qed.

Lemma lend_counts c d l r l' r' : wfn c d l -> wfn c d r -> n_lend_to_right c l r = Ok (l', r') ->
  h_count (hdr_of l') + h_count (hdr_of r') = h_count (hdr_of l) + h_count (hdr_of r).
Proof.
  intros Hl Hr. destruct d as [|d].
  - destruct (wfn_0_inv _ _ Hl) as (h & nx & es & -> & HF & Hc & Hs).
    destruct (wfn_0_inv _ _ Hr) as (h2 & nx2 & es2 & -> & HF2 & Hc2 & Hs2).
    cbn [n_lend_to_right hdr_of].
    destruct (lend_loop _ _ _ _ _ _) as [lc ls] eqn:Hloop.
    apply lend_loop_shape in Hloop. destruct Hloop as (done & rest & Hrev & Hlc & Hls).
    intros [= <- <-]. cbn [hdr_of h_count]. lia.
  - destruct (wfn_S_inv _ _ _ Hl) as (h & hs & sums & cs & -> & Hw & Hb & Hhs & Hsums & Hc & Hs).
    destruct (wfn_S_inv _ _ _ Hr) as (h2 & hs2 & sums2 & cs2 & -> & Hw2 & Hb2 & Hhs2 & Hsums2 & Hc2 & Hs2).
    cbn [n_lend_to_right hdr_of]. intros [= <- <-]. cbn [hdr_of h_count].
    rewrite sum_cnt_app. pose proof (sum_cnt_firstn_skipn (Nat.div2 (length hs + length hs2)) hs). lia.
Qed.
Lemma borrow_counts c d l r l' r' : wfn c d l -> wfn c d r -> n_borrow_from_right c l r = Ok (l', r') ->
  h_count (hdr_of l') + h_count (hdr_of r') = h_count (hdr_of l) + h_count (hdr_of r).
Proof.
  intros Hl Hr. destruct d as [|d].
  - destruct (wfn_0_inv _ _ Hl) as (h & nx & es & -> & HF & Hc & Hs).
    destruct (wfn_0_inv _ _ Hr) as (h2 & nx2 & es2 & -> & HF2 & Hc2 & Hs2).
    cbn [n_borrow_from_right hdr_of].
    destruct (borrow_loop _ _ _ _ _ _) as [lc ls] eqn:Hloop.
    apply borrow_loop_shape in Hloop. destruct Hloop as (done & rest & Hes2 & Hlc & Hls).
    assert (length es2 = (length done + length rest)%nat) by (rewrite Hes2; apply app_length).
    intros [= <- <-]. cbn [hdr_of h_count]. lia.
  - destruct (wfn_S_inv _ _ _ Hl) as (h & hs & sums & cs & -> & Hw & Hb & Hhs & Hsums & Hc & Hs).
    destruct (wfn_S_inv _ _ _ Hr) as (h2 & hs2 & sums2 & cs2 & -> & Hw2 & Hb2 & Hhs2 & Hsums2 & Hc2 & Hs2).
    cbn [n_borrow_from_right hdr_of]. intros [= <- <-]. cbn [hdr_of h_count].
    pose proof (sum_cnt_firstn_skipn (Nat.div2 (length hs + length hs2) - length hs) hs2). lia.
Qed.

Lemma rebalance_children_no_wrap c d h pre l r post (borrow : bool) :
  wfn c d l -> wfn c d r ->
  h_size (hdr_of l) + h_size (hdr_of r) + 1 < two32 ->
  (if borrow then h_size (hdr_of l) <= h_size (hdr_of r) else h_size (hdr_of r) <= h_size (hdr_of l) + HS) ->
  let cs := pre ++ l :: r :: post in
  sum_cnt (map hdr_of cs) < two32 ->
  rebalance_children_ck c h (map hdr_of cs) (psums 0 (map hdr_of cs)) cs (length pre) l r borrow
  = Some (rebalance_children c h (map hdr_of cs) (psums 0 (map hdr_of cs)) cs (length pre) l r borrow).
Proof.
  intros Hl Hr Hsz Hord cs Hcnt. subst cs. rewrite map_app in *. cbn [map] in *.
  rewrite !sum_cnt_app in Hcnt. cbn [sum_cnt] in Hcnt.
  unfold rebalance_children_ck, rebalance_children.
  rewrite <- (map_length hdr_of pre). rewrite nth_psums_mid. rewrite usub_ok by lia.
  assert (Eop : (if borrow then n_borrow_from_right_ck c l r else n_lend_to_right_ck c l r)
                = Some (if borrow then n_borrow_from_right c l r else n_lend_to_right c l r)).
  { destruct borrow; [apply (n_borrow_from_right_no_wrap c d)|apply (n_lend_to_right_no_wrap c d)]; auto; lia. }
  rewrite Eop.
  destruct (if borrow then n_borrow_from_right c l r else n_lend_to_right c l r) as [[l' r']|x] eqn:E; [|reflexivity].
  assert (h_count (hdr_of l') + h_count (hdr_of r') = h_count (hdr_of l) + h_count (hdr_of r)).
  { destruct borrow; [eapply borrow_counts|eapply lend_counts]; eauto. }
  rewrite uadd_ok by lia. reflexivity.
Qed.

Lemma merge_children_no_wrap c d h hs sums cs li l r :
  wfn c d l -> wfn c d r ->
  h_size (hdr_of l) + h_size (hdr_of r) < two32 -> h_count (hdr_of l) + h_count (hdr_of r) < two32 ->
  HS <= h_size h ->
  merge_children_ck h hs sums cs li l r = Some (merge_children h hs sums cs li l r).
Proof.
  intros Hl Hr Hsz Hcnt Hh. unfold merge_children_ck, merge_children.
  rewrite (n_merge_no_wrap c d) by assumption.
  destruct (n_merge l r) as [m|x]; [|reflexivity]. rewrite usub_ok by lia. reflexivity.
Qed.

Section WithT.
Variable T : N.
Hypothesis HT : valid_T T.
Local Notation c := (set_threshold T).
Local Notation kids_ok := (kids_ok T).

Lemma cmax_two32 : cmax c + cmax c + cmax c < two32 /\ cmin c <= cmax c /\ cinl_arr c <= cmax c /\ HS <= cmin c.
Proof. pose proof (cfg_facts T HT) as (?&?&?&?&?). unfold two32. unfold_sizes. lia. Qed.

Lemma split_child_no_wrap d h pre ch post alloc :
  kids_ok d pre -> kids_ok d post -> wfn c d ch ->
  cmax c < h_size (hdr_of ch) -> h_size (hdr_of ch) <= cmax c + split_slack T ch ->
  let cs := pre ++ ch :: post in
  h_count h = sum_cnt (map hdr_of cs) -> h_count h < two32 -> h_size h + HS < two32 ->
  split_child_ck h (map hdr_of cs) (psums 0 (map hdr_of cs)) cs (length pre) ch alloc
  = Some (split_child h (map hdr_of cs) (psums 0 (map hdr_of cs)) cs (length pre) ch alloc).
Proof.
  intros Hpre Hpost Hw Hlo Hhi cs Hc Hcnt Hsz. subst cs. rewrite map_app in *. cbn [map] in *.
  rewrite !sum_cnt_app in Hc. cbn [sum_cnt] in Hc.
  pose proof cmax_two32 as (C1 & C2 & C3 & C4).
  assert (Hss : split_slack T ch <= cmax c).
  { unfold split_slack. destruct (is_data ch); [|lia]. pose proof (cfg_facts T HT) as (?&?&?&?&?). unfold_sizes. lia. }
  unfold split_child_ck, split_child.
  rewrite <- (map_length hdr_of pre). rewrite nth_psums_mid. rewrite usub_ok by lia.
  rewrite (n_split_no_wrap c d) by (auto; lia).
  destruct (split_ok T HT d ch (alloc + 1) Hw Hlo Hhi)
    as (l & r & Hsp & Hwl & Hwr & Hbl & Hbr & Hto & Hidl & Hidr & Hcc & Hln).
  rewrite Hsp. rewrite uadd_ok by lia. rewrite uadd_ok by lia. rewrite uadd_ok by lia. reflexivity.
Qed.

Lemma kids_ok_wfn d l x : kids_ok d l -> In x l -> wfn c d x /\ in_band c x.
Proof. intros (A & B) Hx. rewrite Forall_forall in A, B. auto. Qed.

Lemma merge_or_rebalance_no_wrap d h ch need pre post :
  wfn c d ch -> h_size (hdr_of ch) + need = cmin c -> 0 < need ->
  kids_ok d pre -> kids_ok d post ->
  let cs := pre ++ ch :: post in
  h_count h = sum_cnt (map hdr_of cs) -> h_count h < two32 -> HS <= h_size h ->
  merge_or_rebalance_ck c h (map hdr_of cs) (psums 0 (map hdr_of cs)) cs (length pre) ch need
  = Some (merge_or_rebalance c h (map hdr_of cs) (psums 0 (map hdr_of cs)) cs (length pre) ch need).
Proof.
  intros Hwch Hneed Hpos Hpre Hpost cs Hc Hcnt Hh. subst cs.
  pose proof cmax_two32 as (C1 & C2 & C3 & C4).
  assert (Hcan : forall s, wfn c d s -> in_band c s ->
            n_can_lend_to_right_ck c s need = Some (n_can_lend_to_right c s need) /\
            n_can_lend_to_left_ck c s need = Some (n_can_lend_to_left c s need)).
  { intros s Hs (B1 & B2). split; [apply (n_can_lend_to_right_no_wrap c d)|apply (n_can_lend_to_left_no_wrap c d)];
      auto; try lia; unfold two32 in *; unfold_sizes; lia. }
  assert (Hsib : forall s, wfn c d s -> in_band c s ->
            h_size (hdr_of ch) <= h_size (hdr_of s) /\ h_size (hdr_of s) + h_size (hdr_of ch) + 1 < two32).
  { intros s Hs (B1 & B2). lia. }
  unfold merge_or_rebalance_ck, merge_or_rebalance.
  destruct pre as [|p0 pre0].
  - (* no left sibling *)
    cbn [length app]. destruct post as [|rs post]; cbn [nth_error]; [reflexivity|].
    apply kids_ok_cons in Hpost. destruct Hpost as ((Wrs & Brs) & Hpost).
    destruct (Hcan rs Wrs Brs) as (_ & ->). destruct (Hsib rs Wrs Brs) as (S1 & S2). cbn [orb].
    cbn [app map] in *. cbn [sum_cnt] in Hc.
    destruct (n_can_lend_to_left c rs need).
    + apply (rebalance_children_no_wrap c d h [] ch rs post true); auto; try lia.
      cbn [app map sum_cnt]. lia.
    + apply (merge_children_no_wrap c d); auto; lia.
  - assert (Hnn : p0 :: pre0 <> []) by discriminate.
    destruct (exists_last Hnn) as (pre & ls & Epre). rewrite Epre in *. clear Epre Hnn p0 pre0.
    apply kids_ok_app in Hpre. destruct Hpre as (Hpre & Hls).
    apply kids_ok_cons in Hls. destruct Hls as ((Wls & Bls) & _).
    destruct (Hcan ls Wls Bls) as (Els & _). destruct (Hsib ls Wls Bls) as (L1 & L2).
    rewrite (app_length pre [ls]). cbn [length]. rewrite Nat.add_1_r. cbv beta iota. cbn [pred].
    rewrite <- !app_assoc. cbn [app].
    rewrite <- !app_assoc in Hc. cbn [app] in Hc.
    rewrite (nth_error_at (length pre) pre ls (ch :: post)) by reflexivity.
    change (ls :: ch :: post) with ([ls] ++ ch :: post). rewrite app_assoc.
    rewrite (nth_error_at_S (S (length pre)) (pre ++ [ls]) ch post) by (rewrite app_length; cbn; lia).
    rewrite <- !app_assoc. cbn [app].
    rewrite Els.
    assert (Hcl : sum_cnt (map hdr_of (pre ++ ls :: ch :: post)) < two32) by lia.
    assert (HL : rebalance_children_ck c h (map hdr_of (pre ++ ls :: ch :: post))
                   (psums 0 (map hdr_of (pre ++ ls :: ch :: post))) (pre ++ ls :: ch :: post) (length pre) ls ch false
                 = Some (rebalance_children c h (map hdr_of (pre ++ ls :: ch :: post))
                   (psums 0 (map hdr_of (pre ++ ls :: ch :: post))) (pre ++ ls :: ch :: post) (length pre) ls ch false)).
    { apply (rebalance_children_no_wrap c d h pre ls ch post false); auto; lia. }
    assert (HML : merge_children_ck h (map hdr_of (pre ++ ls :: ch :: post))
                   (psums 0 (map hdr_of (pre ++ ls :: ch :: post))) (pre ++ ls :: ch :: post) (length pre) ls ch
                 = Some (merge_children h (map hdr_of (pre ++ ls :: ch :: post))
                   (psums 0 (map hdr_of (pre ++ ls :: ch :: post))) (pre ++ ls :: ch :: post) (length pre) ls ch)).
    { apply (merge_children_no_wrap c d); auto; try lia.
      rewrite Hc in Hcnt. rewrite map_app, sum_cnt_app in Hcnt. cbn [map sum_cnt] in Hcnt. lia. }
    destruct post as [|rs post]; cbn [nth_error].
    + rewrite orb_false_r. destruct (n_can_lend_to_right c ls need); [exact HL|exact HML].
    + apply kids_ok_cons in Hpost. destruct Hpost as ((Wrs & Brs) & Hpost).
      destruct (Hcan rs Wrs Brs) as (_ & ->). destruct (Hsib rs Wrs Brs) as (S1 & S2).
      assert (HR : rebalance_children_ck c h (map hdr_of (pre ++ ls :: ch :: rs :: post))
                   (psums 0 (map hdr_of (pre ++ ls :: ch :: rs :: post))) (pre ++ ls :: ch :: rs :: post) (S (length pre)) ch rs true
                 = Some (rebalance_children c h (map hdr_of (pre ++ ls :: ch :: rs :: post))
                   (psums 0 (map hdr_of (pre ++ ls :: ch :: rs :: post))) (pre ++ ls :: ch :: rs :: post) (S (length pre)) ch rs true)).
      { change (pre ++ ls :: ch :: rs :: post) with (pre ++ [ls] ++ ch :: rs :: post).
        rewrite app_assoc.
        replace (S (length pre)) with (length (pre ++ [ls])) by (rewrite app_length; cbn; lia).
        apply (rebalance_children_no_wrap c d h (pre ++ [ls]) ch rs post true); auto; try lia.
        rewrite <- app_assoc. exact Hcl. }
      assert (HMR : merge_children_ck h (map hdr_of (pre ++ ls :: ch :: rs :: post))
                   (psums 0 (map hdr_of (pre ++ ls :: ch :: rs :: post))) (pre ++ ls :: ch :: rs :: post) (S (length pre)) ch rs
                 = Some (merge_children h (map hdr_of (pre ++ ls :: ch :: rs :: post))
                   (psums 0 (map hdr_of (pre ++ ls :: ch :: rs :: post))) (pre ++ ls :: ch :: rs :: post) (S (length pre)) ch rs)).
      { apply (merge_children_no_wrap c d); auto; try lia.
        rewrite Hc in Hcnt. rewrite map_app, sum_cnt_app in Hcnt. cbn [map sum_cnt] in Hcnt. lia. }
      destruct (n_can_lend_to_right c ls need); destruct (n_can_lend_to_left c rs need); cbn [orb negb].
      * destruct (h_size (hdr_of rs) <? h_size (hdr_of ls)); [exact HL|exact HR].
      * exact HL.
      * exact HR.
      * destruct (h_size (hdr_of ls) <? h_size (hdr_of rs)); [exact HML|exact HMR].
Qed.

End WithT.


(** ** twins of the recursive operations and of the array level *)
Fixpoint map_ck {A B} (f : A -> option B) (l : list A) : option (list B) :=
  match l with [] => Some [] | a :: r => b <- f a ;; t <- map_ck f r ;; Some (b :: t) end.
Lemma map_ck_ok {A B} (f : A -> option B) (g : A -> B) l :
  Forall (fun a => f a = Some (g a)) l -> map_ck f l = Some (map g l).
Proof. induction 1 as [|a r Ha _ IH]; cbn [map_ck map]; [reflexivity|]. rewrite Ha, IH. reflexivity. Qed.

Definition incr_from_ck (k : nat) (sums : list N) : option (list N) :=
  t <- map_ck (fun s => uadd s 1) (skipn k sums) ;; Some (firstn k sums ++ t).
Definition decr_from_ck (k : nat) (sums : list N) : option (list N) :=
  t <- map_ck (fun s => usub s 1) (skipn k sums) ;; Some (firstn k sums ++ t).

Fixpoint n_get_ck (n : anode) (i : N) : option (res elem) :=
  match n with
  | AD _ _ es => Some (match nth_N es i with Some e => Ok e | None => Err EIndexOOB end)
  | AM h hs sums cs =>
    if h_count h <=? i then Some (Err EIndexOOB)
    else rt <- route_ck hs sums i ;;
         match rt with
         | None => Some (Err EPanic)
         | Some (k, j) =>
           match on_kth (fun ch => n_get_ck ch j) cs k with
           | Some r => r
           | None => Some (Err ESlabNotFound)
           end
         end
  end.

Fixpoint n_set_ck (c : cfg) (pfx : N) (n : anode) (i : N) (e : elem) (alloc : N)
  : option (res (anode * elem * N * wlog)) :=
  match n with
  | AD h next es =>
    match nth_N es i with
    | None => Some (Err EIndexOOB)
    | Some old =>
      let '(e', alloc', lg) := externalise e alloc in
      let es' := replace_nth (N.to_nat i) e' es in
      sz <- sum_sz_from pfx es' ;;          (* size := prefix; for e in elements: size += e.ByteSize() *)
      Some (Ok (AD (mkhdr (h_id h) sz (h_count h)) next es', old, alloc', lg ++ [WStore (h_id h)]))
    end
  | AM h hs sums cs =>
    if h_count h <=? i then Some (Err EIndexOOB)
    else rt <- route_ck hs sums i ;;
         match rt with
         | None => Some (Err EPanic)
         | Some (k, j) =>
           match on_kth (fun ch => n_set_ck c P ch j e alloc) cs k with
           | None => Some (Err ESlabNotFound)
           | Some None => None
           | Some (Some (Err x)) => Some (Err x)
           | Some (Some (Ok (ch', old, alloc', lg))) =>
             let hs' := replace_nth k (hdr_of ch') hs in
             let cs' := replace_nth k ch' cs in
             if n_is_full c ch' then
               sc <- split_child_ck h hs' sums cs' k ch' alloc' ;;
               match sc with
               | Err x => Some (Err x)
               | Ok (n', alloc'', lg') => Some (Ok (n', old, alloc'', lg ++ lg'))
               end
             else uf <- n_underflow_ck c ch' ;;
                  match uf with
                  | Some need =>
                    mr <- merge_or_rebalance_ck c h hs' sums cs' k ch' need ;;
                    match mr with
                    | Err x => Some (Err x)
                    | Ok (n', lg') => Some (Ok (n', old, alloc', lg ++ lg'))
                    end
                  | None => Some (Ok (AM h hs' sums cs', old, alloc', lg ++ [WStore (h_id h)]))
                  end
           end
         end
  end.

Fixpoint n_insert_ck (c : cfg) (n : anode) (i : N) (e : elem) (alloc : N)
  : option (res (anode * N * wlog)) :=
  match n with
  | AD h next es =>
    if N.of_nat (length es) <? i then Some (Err EIndexOOB)
    else
      let '(e', alloc', lg) := externalise e alloc in
      sz <- uadd (h_size h) (e_sz e') ;;
      cnt <- uadd (h_count h) 1 ;;
      Some (Ok (AD (mkhdr (h_id h) sz cnt) next (insert_nth (N.to_nat i) e' es), alloc', lg ++ [WStore (h_id h)]))
  | AM h hs sums cs =>
    if h_count h <? i then Some (Err EIndexOOB)
    else
      target <- (if i =? h_count h then
                   Some (match length hs with
                         | O => None
                         | S k => match nth_error hs k with Some hh => Some (k, h_count hh) | None => None end
                         end)
                 else route_ck hs sums i) ;;
      match target with
      | None => Some (Err EPanic)
      | Some (k, j) =>
        match on_kth (fun ch => n_insert_ck c ch j e alloc) cs k with
        | None => Some (Err ESlabNotFound)
        | Some None => None
        | Some (Some (Err x)) => Some (Err x)
        | Some (Some (Ok (ch', alloc', lg))) =>
          cnt <- uadd (h_count h) 1 ;;
          let h' := mkhdr (h_id h) (h_size h) cnt in
          sums' <- incr_from_ck k sums ;;
          let hs' := replace_nth k (hdr_of ch') hs in
          let cs' := replace_nth k ch' cs in
          if n_is_full c ch' then
            sc <- split_child_ck h' hs' sums' cs' k ch' alloc' ;;
            match sc with
            | Err x => Some (Err x)
            | Ok (n', alloc'', lg') => Some (Ok (n', alloc'', lg ++ lg'))
            end
          else Some (Ok (AM h' hs' sums' cs', alloc', lg ++ [WStore (h_id h)]))
        end
      end
  end.

Fixpoint n_remove_ck (c : cfg) (n : anode) (i : N) : option (res (anode * elem * wlog)) :=
  match n with
  | AD h next es =>
    match nth_N es i with
    | None => Some (Err EIndexOOB)
    | Some old =>
      sz <- usub (h_size h) (e_sz old) ;;
      cnt <- usub (h_count h) 1 ;;
      Some (Ok (AD (mkhdr (h_id h) sz cnt) next (remove_nth (N.to_nat i) es), old, [WStore (h_id h)]))
    end
  | AM h hs sums cs =>
    if h_count h <=? i then Some (Err EIndexOOB)
    else rt <- route_ck hs sums i ;;
         match rt with
         | None => Some (Err EPanic)
         | Some (k, j) =>
           match on_kth (fun ch => n_remove_ck c ch j) cs k with
           | None => Some (Err ESlabNotFound)
           | Some None => None
           | Some (Some (Err x)) => Some (Err x)
           | Some (Some (Ok (ch', old, lg))) =>
             cnt <- usub (h_count h) 1 ;;
             let h' := mkhdr (h_id h) (h_size h) cnt in
             sums' <- decr_from_ck k sums ;;
             let hs' := replace_nth k (hdr_of ch') hs in
             let cs' := replace_nth k ch' cs in
             uf <- n_underflow_ck c ch' ;;
             match uf with
             | Some need =>
               mr <- merge_or_rebalance_ck c h' hs' sums' cs' k ch' need ;;
               match mr with
               | Err x => Some (Err x)
               | Ok (n', lg') => Some (Ok (n', old, lg ++ lg' ++ [WStore (h_id h)]))
               end
             | None => Some (Ok (AM h' hs' sums' cs', old, lg ++ [WStore (h_id h)]))
             end
           end
         end
  end.

Definition split_root_ck (a : arr) : option (res arr * wlog) :=
  let rootid := a_rootid a in
  old <- match a_root a with
         | AD h nx es => t <- usub (h_size h) RP ;; sz <- uadd t P ;; Some (AD (mkhdr (h_id h) sz (h_count h)) nx es)
         | n => Some n
         end ;;
  let id1 := a_alloc a + 1 in
  sp <- n_split_ck (set_id old id1) (id1 + 1) ;;
  match sp with
  | Err e => Some (Err e, [])
  | Ok (l, r) =>
    let lc := h_count (hdr_of l) in
    let rc := h_count (hdr_of r) in
    t <- umul HS 2 ;; sz <- uadd PM t ;; cnt <- uadd lc rc ;;
    Some (Ok (mkarr (AM (mkhdr rootid sz cnt) [hdr_of l; hdr_of r] [lc; cnt] [l; r]) (id1 + 1) (a_type a)),
          [WStore (h_id (hdr_of l)); WStore (h_id (hdr_of r)); WStore rootid])
  end.

Definition promote_if_single_ck (a : arr) : option (arr * wlog) :=
  match a_root a with
  | AM h [_] _ [ch] =>
    let rootid := h_id h in
    ch' <- match ch with
           | AD hh nx es => t <- usub (h_size hh) P ;; sz <- uadd t RP ;; Some (AD (mkhdr rootid sz (h_count hh)) nx es)
           | AM hh hs sums cs => Some (AM (mkhdr rootid (h_size hh) (h_count hh)) hs sums cs)
           end ;;
    Some (mkarr ch' (a_alloc a) (a_type a), [WStore rootid; WRemove (h_id (hdr_of ch))])
  | _ => Some (a, [])
  end.

Definition a_get_ck (a : arr) (i : N) : option aout :=
  r <- n_get_ck (a_root a) i ;; Some (match r with Ok e => RElem e | Err x => RErr x end).

Definition a_set_ck (c : cfg) (a : arr) (i : N) (e : elem) : option (arr * aout * wlog) :=
  st <- n_set_ck c RP (a_root a) i e (a_alloc a) ;;
  match st with
  | Err x => Some (a, RErr x, [])
  | Ok (r', old, alloc', lg) =>
    let a1 := mkarr r' alloc' (a_type a) in
    '(ra2, lg2) <- (if n_is_full c r' then split_root_ck a1 else Some (Ok a1, [])) ;;
    match ra2 with
    | Err x => Some (a, RErr x, [])
    | Ok a2 =>
      '(a3, lg3) <- promote_if_single_ck a2 ;;
      Some (a3, RElem old, lg ++ lg2 ++ lg3)
    end
  end.

Definition a_insert_ck (c : cfg) (a : arr) (i : N) (e : elem) : option (arr * aout * wlog) :=
  if a_count a =? max_count then Some (a, RErr EMaxCount, [])
  else
    st <- n_insert_ck c (a_root a) i e (a_alloc a) ;;
    match st with
    | Err x => Some (a, RErr x, [])
    | Ok (r', alloc', lg) =>
      let a1 := mkarr r' alloc' (a_type a) in
      '(ra2, lg2) <- (if n_is_full c r' then split_root_ck a1 else Some (Ok a1, [])) ;;
      match ra2 with
      | Err x => Some (a, RErr x, [])
      | Ok a2 => Some (a2, RUnit, lg ++ lg2)
      end
    end.

Definition a_remove_ck (c : cfg) (a : arr) (i : N) : option (arr * aout * wlog) :=
  st <- n_remove_ck c (a_root a) i ;;
  match st with
  | Err x => Some (a, RErr x, [])
  | Ok (r', old, lg) =>
    '(a2, lg2) <- promote_if_single_ck (mkarr r' (a_alloc a) (a_type a)) ;;
    Some (a2, RElem old, lg ++ lg2)
  end.

(* a_pop, a_range (uint64 iterator bounds, guarded), OCount, OType, OSetType, OIterate: no uint32 arithmetic *)
Definition a_step_ck (c : cfg) (a : arr) (o : aop) : option (arr * aout * wlog) :=
  match o with
  | OGet i => r <- a_get_ck a i ;; Some (a, r, [])
  | OSet i e => a_set_ck c a i e
  | OInsert i e => a_insert_ck c a i e
  | OAppend e => a_insert_ck c a (a_count a) e
  | ORemove i => a_remove_ck c a i
  | _ => Some (a_step c a o)
  end.

Fixpoint a_run_ck (c : cfg) (a : arr) (ops : list aop) : option (arr * list aout) :=
  match ops with
  | [] => Some (a, [])
  | o :: r =>
    '(a1, x, _) <- a_step_ck c a o ;;
    '(a2, xs) <- a_run_ck c a1 r ;; Some (a2, x :: xs)
  end.


(** *** characterising equations of the twins *)
Lemma n_get_ck_AM h hs sums cs i :
  n_get_ck (AM h hs sums cs) i =
    if h_count h <=? i then Some (Err EIndexOOB)
    else rt <- route_ck hs sums i ;;
         match rt with
         | None => Some (Err EPanic)
         | Some (k, j) =>
           match on_kth (fun ch => n_get_ck ch j) cs k with
           | Some r => r
           | None => Some (Err ESlabNotFound)
           end
         end.
Proof. reflexivity. Qed.

Lemma n_set_ck_AM c pfx h hs sums cs i e alloc :
  n_set_ck c pfx (AM h hs sums cs) i e alloc =
    if h_count h <=? i then Some (Err EIndexOOB)
    else rt <- route_ck hs sums i ;;
         match rt with
         | None => Some (Err EPanic)
         | Some (k, j) =>
           match on_kth (fun ch => n_set_ck c P ch j e alloc) cs k with
           | None => Some (Err ESlabNotFound)
           | Some None => None
           | Some (Some (Err x)) => Some (Err x)
           | Some (Some (Ok (ch', old, alloc', lg))) =>
             let hs' := replace_nth k (hdr_of ch') hs in
             let cs' := replace_nth k ch' cs in
             if n_is_full c ch' then
               sc <- split_child_ck h hs' sums cs' k ch' alloc' ;;
               match sc with
               | Err x => Some (Err x)
               | Ok (n', alloc'', lg') => Some (Ok (n', old, alloc'', lg ++ lg'))
               end
             else uf <- n_underflow_ck c ch' ;;
                  match uf with
                  | Some need =>
                    mr <- merge_or_rebalance_ck c h hs' sums cs' k ch' need ;;
                    match mr with
                    | Err x => Some (Err x)
                    | Ok (n', lg') => Some (Ok (n', old, alloc', lg ++ lg'))
                    end
                  | None => Some (Ok (AM h hs' sums cs', old, alloc', lg ++ [WStore (h_id h)]))
                  end
           end
         end.
Proof. reflexivity. Qed.

Lemma n_insert_ck_AM c h hs sums cs i e alloc :
  n_insert_ck c (AM h hs sums cs) i e alloc =
    if h_count h <? i then Some (Err EIndexOOB)
    else
      target <- (if i =? h_count h then
                   Some (match length hs with
                         | O => None
                         | S k => match nth_error hs k with Some hh => Some (k, h_count hh) | None => None end
                         end)
                 else route_ck hs sums i) ;;
      match target with
      | None => Some (Err EPanic)
      | Some (k, j) =>
        match on_kth (fun ch => n_insert_ck c ch j e alloc) cs k with
        | None => Some (Err ESlabNotFound)
        | Some None => None
        | Some (Some (Err x)) => Some (Err x)
        | Some (Some (Ok (ch', alloc', lg))) =>
          cnt <- uadd (h_count h) 1 ;;
          let h' := mkhdr (h_id h) (h_size h) cnt in
          sums' <- incr_from_ck k sums ;;
          let hs' := replace_nth k (hdr_of ch') hs in
          let cs' := replace_nth k ch' cs in
          if n_is_full c ch' then
            sc <- split_child_ck h' hs' sums' cs' k ch' alloc' ;;
            match sc with
            | Err x => Some (Err x)
            | Ok (n', alloc'', lg') => Some (Ok (n', alloc'', lg ++ lg'))
            end
          else Some (Ok (AM h' hs' sums' cs', alloc', lg ++ [WStore (h_id h)]))
        end
      end.
Proof. reflexivity. Qed.

Lemma n_remove_ck_AM c h hs sums cs i :
  n_remove_ck c (AM h hs sums cs) i =
    if h_count h <=? i then Some (Err EIndexOOB)
    else rt <- route_ck hs sums i ;;
         match rt with
         | None => Some (Err EPanic)
         | Some (k, j) =>
           match on_kth (fun ch => n_remove_ck c ch j) cs k with
           | None => Some (Err ESlabNotFound)
           | Some None => None
           | Some (Some (Err x)) => Some (Err x)
           | Some (Some (Ok (ch', old, lg))) =>
             cnt <- usub (h_count h) 1 ;;
             let h' := mkhdr (h_id h) (h_size h) cnt in
             sums' <- decr_from_ck k sums ;;
             let hs' := replace_nth k (hdr_of ch') hs in
             let cs' := replace_nth k ch' cs in
             uf <- n_underflow_ck c ch' ;;
             match uf with
             | Some need =>
               mr <- merge_or_rebalance_ck c h' hs' sums' cs' k ch' need ;;
               match mr with
               | Err x => Some (Err x)
               | Ok (n', lg') => Some (Ok (n', old, lg ++ lg' ++ [WStore (h_id h)]))
               end
             | None => Some (Ok (AM h' hs' sums' cs', old, lg ++ [WStore (h_id h)]))
             end
           end
         end.
Proof. reflexivity. Qed.

Lemma psums_ge : forall l b, Forall (fun s => b <= s) (psums b l).
Proof.
  induction l as [|h r IH]; intros b; cbn [psums]; constructor; [lia|].
  eapply Forall_impl; [|apply IH]. cbn beta. intros s Hs. lia.
Qed.
Lemma psums_le : forall l b, Forall (fun s => s <= b + sum_cnt l) (psums b l).
Proof.
  induction l as [|h r IH]; intros b; cbn [psums sum_cnt]; constructor; [lia|].
  eapply Forall_impl; [|apply IH]. cbn beta. intros s Hs. lia.
Qed.

Lemma incr_from_no_wrap k hs : sum_cnt hs + 1 < two32 ->
  incr_from_ck k (psums 0 hs) = Some (incr_from k (psums 0 hs)).
Proof.
  intros H. unfold incr_from_ck, incr_from.
  rewrite (map_ck_ok _ (fun s => s + 1)); [reflexivity|].
  apply Forall_skipn. eapply Forall_impl; [|apply psums_le]. cbn beta. intros s Hs. apply uadd_ok. lia.
Qed.
Lemma decr_from_no_wrap hpre hx hpost : 1 <= h_count hx ->
  decr_from_ck (length hpre) (psums 0 (hpre ++ hx :: hpost))
  = Some (decr_from (length hpre) (psums 0 (hpre ++ hx :: hpost))).
Proof.
  intros H. unfold decr_from_ck, decr_from.
  rewrite (map_ck_ok _ (fun s => s - 1)); [reflexivity|].
  rewrite psums_cons_app. rewrite <- (psums_length 0 hpre) at 1.
  rewrite skipn_app, skipn_all, Nat.sub_diag. cbn [skipn app].
  constructor; [apply usub_ok; lia|].
  eapply Forall_impl; [|apply psums_ge]. cbn beta. intros s Hs. apply usub_ok. lia.
Qed.

Section WithT2.
Variable T : N.
Hypothesis HT : valid_T T.
Local Notation c := (set_threshold T).
Local Notation kids_ok := (kids_ok T).
Local Notation leaf_ok := (leaf_ok T).
Local Notation slack := (slack T).


Lemma route_no_wrap d h hs sums cs i :
  wfn c (S d) (AM h hs sums cs) -> i < h_count h -> h_count h < two32 ->
  route_ck hs sums i = Some (route hs sums i).
Proof.
  intros Hw Hi Hcnt.
  destruct (route_spec T HT d h hs sums cs i Hw Hi) as (pre & ch & post & j & Hcs & Hr & Hij & Hj).
  unfold route_ck. unfold route in *.
  destruct (nth_error hs (route_index sums i)) as [hh|] eqn:E1; [|reflexivity].
  destruct (nth_error sums (route_index sums i)) as [s|] eqn:E2; [|reflexivity].
  injection Hr as Hk Hj'.
  apply wfn_AM_inv in Hw. destruct Hw as (d' & _ & _ & _ & Hhs & Hsums & Hc & _).
  rewrite Hk in E1, E2. subst cs hs sums. rewrite map_app in *. cbn [map] in *.
  rewrite (nth_error_at (length pre)) in E1 by (symmetry; apply map_length). injection E1 as <-.
  rewrite psums_cons_app in E2.
  rewrite (nth_error_at (length pre)) in E2 by (rewrite psums_length, map_length; reflexivity). injection E2 as <-.
  rewrite sum_cnt_app in Hc. cbn [sum_cnt] in Hc.
  rewrite uadd64_ok by (unfold two64, two32 in *; lia). rewrite usub_ok by lia. reflexivity.
Qed.

Theorem n_get_no_wrap : forall d n i, wfn c d n -> h_count (hdr_of n) < two32 ->
  n_get_ck n i = Some (n_get n i).
Proof.
  induction d as [|d IH]; intros n i Hw Hcnt.
  - destruct (wfn_0_inv _ _ Hw) as (h & nx & es & -> & _). reflexivity.
  - pose proof Hw as Hw0.
    destruct (wfn_S_inv _ _ _ Hw) as (h & hs & sums & cs & -> & Hws & Hbs & Hhs & Hsums & Hc & Hs).
    rewrite n_get_AM, n_get_ck_AM. cbn [hdr_of] in *.
    destruct (h_count h <=? i) eqn:Hi; [reflexivity|].
    rewrite (route_no_wrap d h hs sums cs i Hw0 ltac:(lia) Hcnt).
    destruct (route_spec T HT d h hs sums cs i Hw0 ltac:(lia)) as (pre & ch & post & j & Hcs & Hr & Hij & Hj).
    rewrite Hr, !on_kth_spec. subst cs.
    rewrite (nth_error_at (length pre)) by reflexivity. cbn [option_map].
    apply Forall_app in Hws. destruct Hws as (_ & Hwch). apply IH; [exact (Forall_inv Hwch)|].
    subst hs. rewrite map_app, sum_cnt_app in Hc. cbn [map sum_cnt] in Hc. lia.
Qed.

Lemma leaf_set_no_wrap pfx h nx es i e alloc :
  leaf_ok pfx h es -> h_size h <= cmax c -> elem_ok c e ->
  n_set_ck c pfx (AD h nx es) i e alloc = Some (n_set c pfx (AD h nx es) i e alloc).
Proof.
  intros (HF & Hc & Hs) Hsz He. cbn [n_set_ck n_set]. rewrite nth_N_eq.
  destruct (nth_error es (N.to_nat i)) as [old|] eqn:Hold; [|reflexivity].
  destruct (externalise e alloc) as [[e' alloc'] lg] eqn:Hx.
  destruct (externalise_spec _ _ _ _ _ Hx) as (Hez & _).
  pose proof (sum_sz_replace_nth (N.to_nat i) e' es old Hold) as Hsum.
  pose proof (cmax_two32 T HT) as (C1 & C2 & C3 & C4). unfold elem_ok in He.
  rewrite sum_sz_from_ok by lia. reflexivity.
Qed.
Lemma leaf_insert_no_wrap pfx h nx es i e alloc :
  leaf_ok pfx h es -> h_size h <= cmax c -> h_count h + 1 < two32 -> elem_ok c e ->
  n_insert_ck c (AD h nx es) i e alloc = Some (n_insert c (AD h nx es) i e alloc).
Proof.
  intros (HF & Hc & Hs) Hsz Hcnt He. cbn [n_insert_ck n_insert].
  destruct (N.of_nat (length es) <? i); [reflexivity|].
  destruct (externalise e alloc) as [[e' alloc'] lg] eqn:Hx.
  destruct (externalise_spec _ _ _ _ _ Hx) as (Hez & _).
  pose proof (cmax_two32 T HT) as (C1 & C2 & C3 & C4). unfold elem_ok in He.
  rewrite uadd_ok by lia. rewrite uadd_ok by lia. reflexivity.
Qed.
Lemma leaf_remove_no_wrap pfx h nx es i :
  leaf_ok pfx h es ->
  n_remove_ck c (AD h nx es) i = Some (n_remove c (AD h nx es) i).
Proof.
  intros (HF & Hc & Hs). cbn [n_remove_ck n_remove]. rewrite nth_N_eq.
  destruct (nth_error es (N.to_nat i)) as [old|] eqn:Hold; [|reflexivity].
  pose proof (sum_sz_remove_nth (N.to_nat i) es old Hold) as Hsum.
  assert (N.to_nat i < length es)%nat by (apply nth_error_Some; congruence).
  rewrite usub_ok by lia. rewrite usub_ok by lia. reflexivity.
Qed.

(* the three facts every index-slab case needs about the child that is updated *)
Lemma child_bounds d h pre ch post :
  kids_ok d pre -> kids_ok d post ->
  h_count h = sum_cnt (map hdr_of (pre ++ ch :: post)) ->
  h_count (hdr_of ch) <= h_count h.
Proof. intros _ _ Hc. rewrite map_app, sum_cnt_app in Hc. cbn [map sum_cnt] in Hc. lia. Qed.

Theorem n_set_no_wrap : forall d n, wfn c d n -> kids2 n ->
  h_count (hdr_of n) < two32 -> h_size (hdr_of n) <= cmax c ->
  forall i e alloc, elem_ok c e -> n_set_ck c P n i e alloc = Some (n_set c P n i e alloc).
Proof.
  induction d as [|d IH]; intros n Hw H2 Hcnt Hsz i e alloc He.
  - destruct (wfn_0_inv _ _ Hw) as (h & nx & es & -> & _). apply wfn_leaf in Hw.
    apply leaf_set_no_wrap; auto.
  - pose proof Hw as Hw0. pose proof (cmax_two32 T HT) as (C1 & C2 & C3 & C4).
    destruct (wfn_S_inv _ _ _ Hw) as (h & hs & sums & cs & -> & Hws & Hbs & Hhs & Hsums & Hc & Hs).
    cbn [hdr_of ArrayTree_proofs.kids2] in *. rewrite n_set_AM, n_set_ck_AM.
    destruct (h_count h <=? i) eqn:Hle; [reflexivity|].
    assert (Hi : i < h_count h) by lia.
    rewrite (route_no_wrap d h hs sums cs i Hw0 Hi Hcnt).
    destruct (route_spec T HT d h hs sums cs i Hw0 Hi) as (pre & ch & post & j & Hcs & Hr & Hij & Hj).
    rewrite Hr, !on_kth_spec. subst cs hs sums.
    rewrite (nth_error_at (length pre)) by reflexivity. cbn [option_map].
    destruct (kids_split T d pre ch post Hws Hbs) as (Kpre & Wch & Bch & Kpost).
    pose proof (child_bounds d h pre ch post Kpre Kpost Hc) as Hcc.
    pose proof Bch as Bch0. unfold in_band in Bch.
    rewrite (IH ch Wch (in_band_kids2 T HT d ch Wch Bch0) ltac:(lia) ltac:(lia) j e alloc He).
    destruct (n_set_ok T HT d ch Wch (in_band_kids2 T HT d ch Wch Bch0) j e alloc He) as (_ & IHch).
    destruct (IHch Hj) as (ch' & old & alloc' & lg & Eset & Hold & Wch' & Hstr & Hid & Hln & Hcnt' & Hlo & Hhi).
    rewrite Eset. cbv beta iota zeta.
    rewrite replace_nth_map, !replace_nth_app_len.
    assert (Esums : psums 0 (map hdr_of (pre ++ ch :: post)) = psums 0 (map hdr_of (pre ++ ch' :: post))).
    { rewrite !map_app. cbn [map]. symmetry. apply psums_same_count. exact Hcnt'. }
    rewrite Esums.
    assert (Hc' : h_count h = sum_cnt (map hdr_of (pre ++ ch' :: post))).
    { rewrite Hc, !map_app, !sum_cnt_app. cbn [map sum_cnt]. lia. }
    assert (Hsl : ArrayTree_proofs.slack T ch <= split_slack T ch /\ split_slack T ch <= cmax c).
    { unfold ArrayTree_proofs.slack, split_slack. pose proof (cfg_facts T HT) as (?&?&?&?&?).
      destruct (is_data ch); unfold_sizes; lia. }
    assert (Hss : split_slack T ch' = split_slack T ch).
    { unfold split_slack. rewrite (wfn_is_data _ _ _ Wch), (wfn_is_data _ _ _ Wch'). reflexivity. }
    destruct (n_is_full c ch') eqn:Hfull.
    + unfold n_is_full in Hfull.
      rewrite (split_child_no_wrap T HT d h pre ch' post alloc' Kpre Kpost Wch' ltac:(lia) ltac:(lia) Hc' Hcnt ltac:(lia)).
      destruct (split_child _ _ _ _ _ _ _) as [[[n' a''] lg']|x]; reflexivity.
    + rewrite n_underflow_no_wrap.
      destruct (n_underflow c ch') as [need|] eqn:Hu; [|reflexivity].
      destruct (A.underflow_need _ _ _ Hu) as (U1 & U2 & U3).
      rewrite (merge_or_rebalance_no_wrap T HT d h ch' need pre post Wch' U3 U1 Kpre Kpost Hc' Hcnt ltac:(unfold_sizes; lia)).
      destruct (merge_or_rebalance _ _ _ _ _ _ _ _) as [[n' lg']|x]; reflexivity.
Qed.

Theorem n_insert_no_wrap : forall d n, wfn c d n -> kids2 n ->
  h_count (hdr_of n) + 1 < two32 -> h_size (hdr_of n) <= cmax c ->
  forall i e alloc, elem_ok c e -> n_insert_ck c n i e alloc = Some (n_insert c n i e alloc).
Proof.
  induction d as [|d IH]; intros n Hw H2 Hcnt Hsz i e alloc He.
  - destruct (wfn_0_inv _ _ Hw) as (h & nx & es & -> & _). apply wfn_leaf in Hw.
    apply (leaf_insert_no_wrap P); auto.
  - pose proof Hw as Hw0. pose proof (cmax_two32 T HT) as (C1 & C2 & C3 & C4).
    destruct (wfn_S_inv _ _ _ Hw) as (h & hs & sums & cs & -> & Hws & Hbs & Hhs & Hsums & Hc & Hs).
    cbn [hdr_of ArrayTree_proofs.kids2] in *. rewrite n_insert_AM, n_insert_ck_AM.
    destruct (h_count h <? i) eqn:Hle; [reflexivity|].
    assert (Hi : i <= h_count h) by lia. cbv zeta.
    assert (Etg : (if i =? h_count h then
                   Some (match length hs with
                         | O => None
                         | S k => match nth_error hs k with Some hh => Some (k, h_count hh) | None => None end
                         end)
                 else route_ck hs sums i)
              = Some (if i =? h_count h then
                   match length hs with
                   | O => None
                   | S k => match nth_error hs k with Some hh => Some (k, h_count hh) | None => None end
                   end
                 else route hs sums i)).
    { destruct (i =? h_count h) eqn:Heq; [reflexivity|].
      apply (route_no_wrap d h hs sums cs i Hw0); lia. }
    rewrite Etg.
    destruct (insert_target_spec T HT d h hs sums cs i Hw0 H2 Hi) as (pre & ch & post & j & Hcs & Hr & Hij & Hj).
    rewrite Hr, !on_kth_spec. subst cs hs sums.
    rewrite (nth_error_at (length pre)) by reflexivity. cbn [option_map].
    destruct (kids_split T d pre ch post Hws Hbs) as (Kpre & Wch & Bch & Kpost).
    pose proof (child_bounds d h pre ch post Kpre Kpost Hc) as Hcc.
    pose proof Bch as Bch0. unfold in_band in Bch.
    rewrite (IH ch Wch (in_band_kids2 T HT d ch Wch Bch0) ltac:(lia) ltac:(lia) j e alloc He).
    destruct (n_insert_ok T HT d ch Wch (in_band_kids2 T HT d ch Wch Bch0) j e alloc He) as (_ & IHch).
    destruct (IHch Hj) as (ch' & alloc' & lg & Eins & Wch' & Hstr & Hid & Hln & Hcnt' & Hlo & Hhi).
    rewrite Eins. cbv beta iota zeta.
    rewrite uadd_ok by lia.
    rewrite incr_from_no_wrap by lia.
    rewrite replace_nth_map, !replace_nth_app_len.
    assert (Esums : incr_from (length pre) (psums 0 (map hdr_of (pre ++ ch :: post)))
                    = psums 0 (map hdr_of (pre ++ ch' :: post))).
    { rewrite !map_app. cbn [map]. apply incr_from_psums; [symmetry; apply map_length|exact Hcnt']. }
    rewrite Esums.
    set (h' := mkhdr (h_id h) (h_size h) (h_count h + 1)).
    assert (Hc' : h_count h' = sum_cnt (map hdr_of (pre ++ ch' :: post))).
    { subst h'. cbn [h_count]. rewrite Hc, !map_app, !sum_cnt_app. cbn [map sum_cnt]. lia. }
    assert (Hsl : ArrayTree_proofs.slack T ch <= split_slack T ch /\ split_slack T ch <= cmax c).
    { unfold ArrayTree_proofs.slack, split_slack. pose proof (cfg_facts T HT) as (?&?&?&?&?).
      destruct (is_data ch); unfold_sizes; lia. }
    assert (Hss : split_slack T ch' = split_slack T ch).
    { unfold split_slack. rewrite (wfn_is_data _ _ _ Wch), (wfn_is_data _ _ _ Wch'). reflexivity. }
    destruct (n_is_full c ch') eqn:Hfull; [|reflexivity].
    unfold n_is_full in Hfull.
    rewrite (split_child_no_wrap T HT d h' pre ch' post alloc' Kpre Kpost Wch' ltac:(lia) ltac:(lia) Hc'
               ltac:(subst h'; cbn [h_count]; lia) ltac:(subst h'; cbn [h_size]; lia)).
    destruct (split_child _ _ _ _ _ _ _) as [[[n' a''] lg']|x]; reflexivity.
Qed.

Theorem n_remove_no_wrap : forall d n, wfn c d n -> kids2 n ->
  h_count (hdr_of n) < two32 -> h_size (hdr_of n) <= cmax c ->
  forall i, n_remove_ck c n i = Some (n_remove c n i).
Proof.
  induction d as [|d IH]; intros n Hw H2 Hcnt Hsz i.
  - destruct (wfn_0_inv _ _ Hw) as (h & nx & es & -> & _). apply wfn_leaf in Hw.
    apply (leaf_remove_no_wrap P); auto.
  - pose proof Hw as Hw0. pose proof (cmax_two32 T HT) as (C1 & C2 & C3 & C4).
    destruct (wfn_S_inv _ _ _ Hw) as (h & hs & sums & cs & -> & Hws & Hbs & Hhs & Hsums & Hc & Hs).
    cbn [hdr_of ArrayTree_proofs.kids2] in *. rewrite n_remove_AM, n_remove_ck_AM.
    destruct (h_count h <=? i) eqn:Hle; [reflexivity|].
    assert (Hi : i < h_count h) by lia.
    rewrite (route_no_wrap d h hs sums cs i Hw0 Hi Hcnt).
    destruct (route_spec T HT d h hs sums cs i Hw0 Hi) as (pre & ch & post & j & Hcs & Hr & Hij & Hj).
    rewrite Hr, !on_kth_spec. subst cs hs sums.
    rewrite (nth_error_at (length pre)) by reflexivity. cbn [option_map].
    destruct (kids_split T d pre ch post Hws Hbs) as (Kpre & Wch & Bch & Kpost).
    pose proof (child_bounds d h pre ch post Kpre Kpost Hc) as Hcc.
    pose proof Bch as Bch0. unfold in_band in Bch.
    rewrite (IH ch Wch (in_band_kids2 T HT d ch Wch Bch0) ltac:(lia) ltac:(lia) j).
    destruct (n_remove_ok T HT d ch Wch (in_band_kids2 T HT d ch Wch Bch0) j) as (_ & IHch).
    destruct (IHch Hj) as (ch' & old & lg & Erem & Hold & Wch' & Hto & Hid & Hln & Hcnt' & Hlo & Hhi).
    rewrite Erem. cbv beta iota zeta.
    rewrite usub_ok by lia.
    rewrite map_app. cbn [map]. rewrite <- (map_length hdr_of pre) at 1.
    rewrite decr_from_no_wrap by lia. rewrite (map_length hdr_of pre).
    change (map hdr_of pre ++ hdr_of ch :: map hdr_of post) with (map hdr_of pre ++ map hdr_of (ch :: post)).
    rewrite <- map_app.
    rewrite replace_nth_map, !replace_nth_app_len.
    assert (Esums : decr_from (length pre) (psums 0 (map hdr_of (pre ++ ch :: post)))
                    = psums 0 (map hdr_of (pre ++ ch' :: post))).
    { rewrite !map_app. cbn [map]. apply decr_from_psums; [symmetry; apply map_length|exact Hcnt']. }
    rewrite Esums.
    set (h' := mkhdr (h_id h) (h_size h) (h_count h - 1)).
    assert (Hc' : h_count h' = sum_cnt (map hdr_of (pre ++ ch' :: post))).
    { subst h'. cbn [h_count]. rewrite Hc, !map_app, !sum_cnt_app. cbn [map sum_cnt]. lia. }
    rewrite n_underflow_no_wrap.
    destruct (n_underflow c ch') as [need|] eqn:Hu; [|reflexivity].
    destruct (A.underflow_need _ _ _ Hu) as (U1 & U2 & U3).
    rewrite (merge_or_rebalance_no_wrap T HT d h' ch' need pre post Wch' U3 U1 Kpre Kpost Hc'
               ltac:(subst h'; cbn [h_count]; lia) ltac:(subst h'; cbn [h_size]; unfold_sizes; lia)).
    destruct (merge_or_rebalance _ _ _ _ _ _ _ _) as [[n' lg']|x]; reflexivity.
Qed.

End WithT2.


(** *** the array level *)
Section WithT3.
Variable T : N.
Hypothesis HT : valid_T T.
Local Notation c := (set_threshold T).

Lemma root_set_no_wrap r i e alloc : wf_root c r -> h_count (hdr_of r) < two32 -> elem_ok c e ->
  n_set_ck c RP r i e alloc = Some (n_set c RP r i e alloc).
Proof.
  intros Hr Hcnt He.
  destruct (wf_root_cases T r Hr) as [(h & es & -> & Hl & Hsz)|(d & h & hs & sums & cs & -> & Hw & H2 & Hsz)].
  - apply leaf_set_no_wrap; auto.
  - change (n_set c RP (AM h hs sums cs) i e alloc) with (n_set c P (AM h hs sums cs) i e alloc).
    change (n_set_ck c RP (AM h hs sums cs) i e alloc) with (n_set_ck c P (AM h hs sums cs) i e alloc).
    apply (n_set_no_wrap T HT (S d)); auto.
Qed.
Lemma root_insert_no_wrap r i e alloc : wf_root c r -> h_count (hdr_of r) + 1 < two32 -> elem_ok c e ->
  n_insert_ck c r i e alloc = Some (n_insert c r i e alloc).
Proof.
  intros Hr Hcnt He.
  destruct (wf_root_cases T r Hr) as [(h & es & -> & Hl & Hsz)|(d & h & hs & sums & cs & -> & Hw & H2 & Hsz)].
  - apply (leaf_insert_no_wrap T HT RP); auto.
  - apply (n_insert_no_wrap T HT (S d)); auto.
Qed.
Lemma root_remove_no_wrap r i : wf_root c r -> h_count (hdr_of r) < two32 ->
  n_remove_ck c r i = Some (n_remove c r i).
Proof.
  intros Hr Hcnt.
  destruct (wf_root_cases T r Hr) as [(h & es & -> & Hl & Hsz)|(d & h & hs & sums & cs & -> & Hw & H2 & Hsz)].
  - apply (leaf_remove_no_wrap T RP); auto.
  - apply (n_remove_no_wrap T HT (S d)); auto.
Qed.
Lemma root_get_no_wrap r i : wf_root c r -> h_count (hdr_of r) < two32 ->
  n_get_ck r i = Some (n_get r i).
Proof.
  intros Hr Hcnt.
  destruct (wf_root_cases T r Hr) as [(h & es & -> & Hl & Hsz)|(d & h & hs & sums & cs & -> & Hw & H2 & Hsz)].
  - reflexivity.
  - apply (n_get_no_wrap T HT (S d)); auto.
Qed.

(* Array.splitRoot on the root between the recursive update and the root fix-up *)
Lemma split_root_no_wrap a1 :
  root_mid T (a_root a1) -> n_is_full c (a_root a1) = true -> h_count (hdr_of (a_root a1)) < two32 ->
  split_root_ck a1 = Some (split_root a1).
Proof.
  intros Hm Hfull Hcnt. unfold n_is_full in Hfull.
  pose proof (cmax_two32 T HT) as (C1 & C2 & C3 & C4). pose proof (cfg_facts T HT) as (F1&F2&F3&F4&F5).
  unfold split_root_ck, split_root.
  destruct a1 as [r al ty]. cbn [a_root a_alloc a_type a_rootid] in *.
  assert (Hgen : forall old d, wfn c d old -> cmax c < h_size (hdr_of old) ->
            h_size (hdr_of old) <= cmax c + split_slack T old -> h_count (hdr_of old) < two32 ->
            (sp <- n_split_ck (set_id old (al + 1)) (al + 1 + 1) ;;
             match sp with
             | Err e => Some (Err e, [])
             | Ok (l, r0) =>
               t <- umul HS 2 ;; sz <- uadd PM t ;; cnt <- uadd (h_count (hdr_of l)) (h_count (hdr_of r0)) ;;
               Some (Ok (mkarr (AM (mkhdr (h_id (hdr_of r)) sz cnt) [hdr_of l; hdr_of r0]
                                   [h_count (hdr_of l); cnt] [l; r0]) (al + 1 + 1) ty),
                     [WStore (h_id (hdr_of l)); WStore (h_id (hdr_of r0)); WStore (h_id (hdr_of r))])
             end)
            = Some (match n_split (set_id old (al + 1)) (al + 1 + 1) with
                    | Err e => (Err e, [])
                    | Ok (l, r0) =>
                      (Ok (mkarr (AM (mkhdr (h_id (hdr_of r)) (PM + HS * 2) (h_count (hdr_of l) + h_count (hdr_of r0)))
                                     [hdr_of l; hdr_of r0]
                                     [h_count (hdr_of l); h_count (hdr_of l) + h_count (hdr_of r0)] [l; r0])
                                 (al + 1 + 1) ty),
                       [WStore (h_id (hdr_of l)); WStore (h_id (hdr_of r0)); WStore (h_id (hdr_of r))])
                    end)).
  { intros old d Hw Hlo Hhi Hc.
    assert (Hw' : wfn c d (set_id old (al + 1))) by (inversion Hw; subst; constructor; auto).
    assert (Hh : h_size (hdr_of (set_id old (al + 1))) = h_size (hdr_of old)) by (destruct old; reflexivity).
    assert (Hss : split_slack T (set_id old (al + 1)) = split_slack T old) by (destruct old; reflexivity).
    assert (Hcnt' : h_count (hdr_of (set_id old (al + 1))) = h_count (hdr_of old)) by (destruct old; reflexivity).
    assert (Hsl : split_slack T old <= cmax c).
    { unfold split_slack. destruct (is_data old); unfold_sizes; lia. }
    rewrite (n_split_no_wrap c d) by (auto; lia).
    destruct (split_ok T HT d _ (al + 1 + 1) Hw' ltac:(lia) ltac:(lia))
      as (l & r0 & Hsp & Hwl & Hwr & Hbl & Hbr & Hlist & Hidl & Hidr & Hcc & Hlast).
    rewrite Hsp. rewrite umul_ok by (unfold two32; unfold_sizes; lia).
    rewrite uadd_ok by (unfold two32; unfold_sizes; lia). rewrite uadd_ok by lia. reflexivity. }
  inversion Hm as [h es Hl Hsz Er | d h hs sums cs Hw Hk1 Hsz Er]; subst r; cbn [hdr_of] in *.
  - destruct Hl as (HF & Hc & Hs).
    rewrite usub_ok by lia. rewrite uadd_ok by (unfold two32 in *; unfold_sizes; lia).
    apply (Hgen (AD (mkhdr (h_id h) (h_size h - RP + P) (h_count h)) 0 es) 0%nat);
      cbn [hdr_of h_size h_count is_data split_slack]; auto.
    + apply wfn_AD_iff. repeat split; auto; cbn [h_size]. unfold_sizes; lia.
    + unfold_sizes; lia.
    + unfold split_slack. cbn [is_data]. unfold_sizes; lia.
  - apply (Hgen (AM h hs sums cs) (S d)); auto. cbn [hdr_of split_slack is_data]. unfold split_slack. cbn [is_data]. lia.
Qed.

Lemma promote_no_wrap a1 : root_mid T (a_root a1) ->
  promote_if_single_ck a1 = Some (promote_if_single a1).
Proof.
  intros Hm. pose proof (cmax_two32 T HT) as (C1 & C2 & C3 & C4).
  destruct a1 as [r al ty]. cbn [a_root] in *. unfold promote_if_single_ck, promote_if_single. cbn [a_root a_alloc a_type].
  inversion Hm as [h es Hl Hsz Er | d h hs sums cs Hw H1 Hsz Er]; subst r; [reflexivity|].
  apply wfn_AM_inv in Hw. destruct Hw as (d0 & [= <-] & Hws & Hbs & -> & Hsums & Hc & Hs).
  destruct cs as [|ch [|ch2 cs]]; cbn [map]; try reflexivity.
  pose proof (Forall_inv Hws) as Wch. pose proof (Forall_inv Hbs) as Bch. unfold in_band in Bch.
  destruct ch as [hh nx es|hh hs2 sums2 cs2]; [|reflexivity].
  apply wfn_AD_iff in Wch. destruct Wch as (_ & _ & _ & Hsz'). cbn [hdr_of] in *.
  rewrite usub_ok by lia. rewrite uadd_ok by (unfold two32 in *; unfold_sizes; lia). reflexivity.
Qed.

Lemma max_count_two32 : max_count + 1 = two32.
Proof. reflexivity. Qed.

Theorem a_step_no_wrap a o : awfl c a -> aop_ok c o -> a_step_ck c a o = Some (a_step c a o).
Proof.
  intros Ha Ho. destruct (awfl_parts T a Ha) as (Hr & Hmax & Hln & Hlen).
  pose proof max_count_two32 as Hmc. unfold a_count in *.
  assert (Hcnt : h_count (hdr_of (a_root a)) < two32) by lia.
  assert (Hins : forall i e, elem_ok c e -> a_insert_ck c a i e = Some (a_insert c a i e)).
  { intros i e He. unfold a_insert_ck, a_insert. unfold a_count.
    destruct (h_count (hdr_of (a_root a)) =? max_count) eqn:Hmx; [reflexivity|].
    rewrite (root_insert_no_wrap (a_root a) i e (a_alloc a) Hr ltac:(lia) He).
    destruct (root_insert_ok T HT (a_root a) i e (a_alloc a) Hr He) as (A & B).
    destruct (N.lt_ge_cases (h_count (hdr_of (a_root a))) i) as [Hi|Hi].
    - rewrite (A Hi). reflexivity.
    - destruct (B Hi) as (r' & alloc' & lg & E & Hm & Hstr & Hid & Hln' & Hc & Hwr).
      rewrite E. cbv beta iota zeta.
      destruct (n_is_full c r') eqn:Hfull.
      + rewrite (split_root_no_wrap (mkarr r' alloc' (a_type a)) Hm Hfull ltac:(cbn [a_root]; lia)).
        destruct (split_root _) as [[a2|x] lg2]; reflexivity.
      + reflexivity. }
  destruct o as [i|i e|i e|e|i| | | |t| |s e]; cbn [a_step_ck a_step aop_ok] in *; try reflexivity.
  - unfold a_get_ck, a_get. rewrite (root_get_no_wrap _ i Hr Hcnt). reflexivity.
  - destruct Ho as (He & _). unfold a_set_ck, a_set.
    rewrite (root_set_no_wrap (a_root a) i e (a_alloc a) Hr Hcnt He).
    destruct (root_set_ok T HT (a_root a) i e (a_alloc a) Hr He) as (A & B).
    destruct (N.lt_ge_cases i (h_count (hdr_of (a_root a)))) as [Hi|Hi].
    + destruct (B Hi) as (r' & old & alloc' & lg & E & Hold & Hm & Hstr & Hid & Hln' & Hc).
      rewrite E. cbv beta iota zeta.
      destruct (n_is_full c r') eqn:Hfull.
      * rewrite (split_root_no_wrap (mkarr r' alloc' (a_type a)) Hm Hfull ltac:(cbn [a_root]; lia)).
        destruct (split_root_ok T HT (mkarr r' alloc' (a_type a)) Hm Hfull) as (a2 & lg2 & Es & Hr2 & _ & Ep).
        rewrite Es. cbv beta iota zeta.
        assert (Ep' : promote_if_single_ck a2 = Some (a2, [])).
        { unfold promote_if_single_ck. unfold promote_if_single in Ep.
          destruct (a_root a2) as [|h0 hs0 sums0 cs0]; [reflexivity|].
          destruct hs0 as [|x0 [|x1 hs0]]; try reflexivity.
          destruct cs0 as [|ch0 [|ch1 cs0]]; try reflexivity. discriminate. }
        rewrite Ep', Ep. reflexivity.
      * cbv beta iota zeta. rewrite (promote_no_wrap (mkarr r' alloc' (a_type a)) Hm).
        destruct (promote_if_single _) as [a3 lg3]. reflexivity.
    + rewrite (A Hi). reflexivity.
  - destruct Ho as (He & _). apply Hins, He.
  - destruct Ho as (He & _). apply Hins, He.
  - unfold a_remove_ck, a_remove.
    rewrite (root_remove_no_wrap (a_root a) i Hr Hcnt).
    destruct (root_remove_ok T HT (a_root a) i Hr) as (A & B).
    destruct (N.lt_ge_cases i (h_count (hdr_of (a_root a)))) as [Hi|Hi].
    + destruct (B Hi) as (r' & old & lg & E & Hold & Hm & Hfull & Hto & Hid & Hln' & Hc).
      rewrite E. cbv beta iota zeta. rewrite (promote_no_wrap (mkarr r' (a_alloc a) (a_type a)) Hm).
      destruct (promote_if_single _) as [a3 lg3]. reflexivity.
    + rewrite (A Hi). reflexivity.
Qed.

Theorem a_run_no_wrap : forall ops a, awfl c a -> Forall (aop_ok c) ops ->
  a_run_ck c a ops = Some (a_run c a ops).
Proof.
  induction ops as [|o r IH]; intros a Ha Hops; cbn [a_run_ck a_run]; [reflexivity|].
  pose proof (Forall_inv Hops) as Ho. pose proof (Forall_inv_tail Hops) as Hr.
  rewrite (a_step_no_wrap a o Ha Ho).
  destruct (a_step_ok T HT a o Ha Ho) as (S1 & _).
  destruct (a_step c a o) as [[a1 x] lg]. cbn [fst] in S1.
  rewrite (IH a1 S1 Hr). destruct (a_run c a1 r) as [a2 xs]. reflexivity.
Qed.

(* the summary: in every reachable state, every step of every history evaluates all its uint32 (and
   uint64 index) arithmetic without leaving the range *)
Theorem array_reachable_no_wrap rootid ti ops o : Forall (aop_ok c) ops -> aop_ok c o ->
  let a := fst (a_run c (fst (arr_init rootid ti)) ops) in
  a_run_ck c (fst (arr_init rootid ti)) ops = Some (a_run c (fst (arr_init rootid ti)) ops) /\
  a_step_ck c a o = Some (a_step c a o).
Proof.
  intros Hops Ho a. destruct (arr_init_ok T HT rootid ti) as (H0 & _).
  split; [apply a_run_no_wrap; assumption|].
  apply a_step_no_wrap; [|exact Ho]. apply (a_run_ok T HT ops _ H0 Hops).
Qed.

End WithT3.


(** *** Part A on the slabs BETWEEN the recursive update and the parent's fix-up: IsFull / IsUnderflow are
    evaluated on the updated child, which may be one element / one child header outside the band *)
Section WithT4.
Variable T : N.
Hypothesis HT : valid_T T.
Local Notation c := (set_threshold T).

Lemma near_band_lt_two32 n sz : sz <= cmax c + ArrayTree_proofs.slack T n -> sz < two32.
Proof.
  intros H. pose proof (cmax_two32 T HT) as (C1 & C2 & C3 & C4).
  unfold ArrayTree_proofs.slack in H. destruct (is_data n); unfold_sizes; lia.
Qed.

Theorem updated_child_hdr_lt_two32 d n : wfn c d n -> in_band c n ->
  (forall i e alloc n' old alloc' lg, elem_ok c e -> n_set c P n i e alloc = Ok (n', old, alloc', lg) ->
     h_size (hdr_of n') < two32) /\
  (forall i e alloc n' alloc' lg, elem_ok c e -> n_insert c n i e alloc = Ok (n', alloc', lg) ->
     h_size (hdr_of n') < two32) /\
  (forall i n' old lg, n_remove c n i = Ok (n', old, lg) -> h_size (hdr_of n') < two32).
Proof.
  intros Hw Hb. split; [|split].
  - intros i e alloc n' old alloc' lg He E.
    destruct (n_set_near_band T HT d n i e alloc n' old alloc' lg Hw Hb He E) as (_ & _ & H).
    eapply near_band_lt_two32; eauto.
  - intros i e alloc n' alloc' lg He E.
    destruct (n_insert_near_band T HT d n i e alloc n' alloc' lg Hw Hb He E) as (_ & _ & H).
    eapply near_band_lt_two32; eauto.
  - intros i n' old lg E.
    destruct (n_remove_near_band T HT d n i n' old lg Hw Hb E) as (_ & _ & H).
    pose proof (cmax_two32 T HT) as (C1 & C2 & C3 & C4). lia.
Qed.

Theorem root_mid_hdr_lt_two32 r : root_mid T r -> h_size (hdr_of r) < two32.
Proof.
  intros H. pose proof (cmax_two32 T HT) as (C1 & C2 & C3 & C4).
  inversion H; subst; cbn [hdr_of]; unfold_sizes; lia.
Qed.
End WithT4.

(** *** non-vacuity and sensitivity of the twins *)
Definition ex_ops : list aop :=
  map (fun i => OAppend (mkelem (Z.of_nat i) 117 0)) (seq 1 60)
  ++ map (fun i => OInsert 3 (mkelem (Z.of_nat i) (N.of_nat i) 0)) (seq 1 40)
  ++ map (fun i => OSet (N.of_nat i) (mkelem 7 1 0)) (seq 0 30)
  ++ repeat (ORemove 2) 90 ++ [OGet 5; ORemove 0; OPop].

(* a history at T = 256 with splits, merges, lends, borrows, root split and root promotion: the caller's
   contract holds, the twin returns the model's result *)
Example ex_run_no_wrap :
  let c := set_threshold 256 in
  Forall (aop_ok c) ex_ops /\
  a_run_ck c (fst (arr_init 1 7)) ex_ops = Some (a_run c (fst (arr_init 1 7)) ex_ops) /\
  a_count (fst (a_run c (fst (arr_init 1 7)) (firstn 100 ex_ops))) = 100 /\
  is_data (a_root (fst (a_run c (fst (arr_init 1 7)) (firstn 100 ex_ops)))) = false.
Proof.
  cbv zeta. split; [|vm_compute; repeat split; reflexivity].
  unfold ex_ops. repeat (apply Forall_app; split).
  - apply Forall_forall. intros o Ho. apply in_map_iff in Ho. destruct Ho as (i & <- & _).
    cbn. repeat split; vm_compute; congruence.
  - apply Forall_forall. intros o Ho. apply in_map_iff in Ho. destruct Ho as (i & <- & Hi).
    apply in_seq in Hi. cbn [aop_ok]. unfold elem_ok, strip. cbn [e_sz e_id e_ext]. vm_compute cinl_arr.
    repeat split; try lia. 
  - apply Forall_forall. intros o Ho. apply in_map_iff in Ho. destruct Ho as (i & <- & _).
    cbn. repeat split; vm_compute; congruence.
  - apply Forall_forall. intros o Ho. apply repeat_spec in Ho. subst o. exact I.
  - repeat constructor.
Qed.

(* the twins do report a wrap outside the invariant: a request above the cached size; a cached size
   smaller than the element that is removed; a cached count of 0 on a non-empty leaf *)
Example ex_twins_detect :
  let c := set_threshold 256 in
  d_can_lend_ck [mkelem 1 30 0; mkelem 2 30 0] 71 128 72 = None /\
  d_can_lend [mkelem 1 30 0; mkelem 2 30 0] 71 128 72 = false /\
  a_step_ck c (mkarr (AD (mkhdr 1 10 1) 0 [mkelem 1 20 0]) 1 0) (ORemove 0) = None /\
  a_step_ck c (mkarr (AD (mkhdr 1 47 0) 0 [mkelem 1 20 0]) 1 0) (ORemove 0) = None /\
  split_point_ck [mkelem 1 30 0; mkelem 2 30 0] 20 10 0 0 = None.
Proof. vm_compute. repeat split; reflexivity. Qed.


(** *** the six functions of the audit's list at their call sites, under the invariant *)
Section CallSites.
Variable T : N.
Hypothesis HT : valid_T T.
Local Notation c := (set_threshold T).

(* ArrayDataSlab.Split (called on a slab of at most 2^32-2 bytes: in fact <= maxThreshold + one element) *)
Lemma split_point_call_site h nx es : wfn c 0 (AD h nx es) -> h_size h + 1 < two32 ->
  let dataSize := h_size h - P in
  usub (h_size h) P = Some dataSize /\ uadd dataSize 1 = Some (dataSize + 1) /\
  split_point_ck es dataSize ((dataSize + 1) / 2) 0 0 = Some (split_point es dataSize ((dataSize + 1) / 2) 0 0).
Proof.
  intros Hw Hsz. apply wfn_AD_iff in Hw. destruct Hw as (_ & _ & _ & Hs). cbv zeta.
  split; [apply usub_ok; lia|]. split; [apply uadd_ok; lia|]. apply split_point_no_wrap; lia.
Qed.

(* ArrayDataSlab.LendToRight / BorrowFromRight on two sibling leaves *)
Lemma lend_loop_call_site h nx es h2 nx2 es2 : wfn c 0 (AD h nx es) -> wfn c 0 (AD h2 nx2 es2) ->
  h_size h + h_size h2 + 1 < two32 ->
  let size := h_size h + h_size h2 in
  lend_loop_ck (rev es) size ((size + 1) / 2) (cmin c) (N.to_nat (h_count h)) (h_size h)
  = Some (lend_loop (rev es) size ((size + 1) / 2) (cmin c) (N.to_nat (h_count h)) (h_size h)).
Proof.
  intros Hl Hr Hsz. apply wfn_AD_iff in Hl. destruct Hl as (_ & _ & Hc & Hs). cbv zeta.
  apply lend_loop_no_wrap; rewrite ?sum_sz_rev, ?rev_length; lia.
Qed.
Lemma borrow_loop_call_site h nx es h2 nx2 es2 : wfn c 0 (AD h nx es) -> wfn c 0 (AD h2 nx2 es2) ->
  h_size h + h_size h2 + 1 < two32 ->
  let size := h_size h + h_size h2 in
  borrow_loop_ck es2 size ((size + 1) / 2) (cmin c) (N.to_nat (h_count h)) (h_size h)
  = Some (borrow_loop es2 size ((size + 1) / 2) (cmin c) (N.to_nat (h_count h)) (h_size h)).
Proof.
  intros Hl Hr Hsz. apply wfn_AD_iff in Hr. destruct Hr as (_ & _ & Hc & Hs). cbv zeta.
  apply borrow_loop_no_wrap; unfold_sizes; lia.
Qed.

(* CanLendToLeft / CanLendToRight of a sibling inside the band, asked for the deficit of an underflowing slab *)
Lemma can_lend_call_site d s x need : wfn c d s -> in_band c s -> n_underflow c x = Some need ->
  n_can_lend_to_left_ck c s need = Some (n_can_lend_to_left c s need) /\
  n_can_lend_to_right_ck c s need = Some (n_can_lend_to_right c s need).
Proof.
  intros Hw (B1 & B2) Hu. destruct (A.underflow_need _ _ _ Hu) as (U1 & U2 & U3).
  pose proof (cmax_two32 T HT) as (C1 & C2 & C3 & C4).
  split; [apply (n_can_lend_to_left_no_wrap c d)|apply (n_can_lend_to_right_no_wrap c d)];
    auto; try lia; unfold two32 in *; unfold_sizes; lia.
Qed.
Lemma d_can_lend_call_site h nx es x need : wfn c 0 (AD h nx es) -> in_band c (AD h nx es) ->
  n_underflow c x = Some need ->
  d_can_lend_ck es (h_size h) (cmin c) need = Some (d_can_lend es (h_size h) (cmin c) need) /\
  d_can_lend_ck (rev es) (h_size h) (cmin c) need = Some (d_can_lend (rev es) (h_size h) (cmin c) need).
Proof. intros Hw Hb Hu. exact (can_lend_call_site 0 (AD h nx es) x need Hw Hb Hu). Qed.

(* the two nat subtractions of BorrowFromRight (move counts) and the one of LendToRight (pred of the count) *)
Lemma move_counts_call_site d l r need :
  wfn c d l -> wfn c d r -> h_count (hdr_of l) + h_count (hdr_of r) < two32 ->
  (in_band c l -> h_size (hdr_of r) + need = cmin c -> 0 < need ->
     n_lend_to_right_ck c l r = Some (n_lend_to_right c l r)) /\
  (in_band c r -> h_size (hdr_of l) + need = cmin c -> 0 < need ->
     n_borrow_from_right_ck c l r = Some (n_borrow_from_right c l r)).
Proof.
  intros Hl Hr Hcnt. pose proof (cmax_two32 T HT) as (C1 & C2 & C3 & C4).
  split; intros (B1 & B2) Hn Hp;
    [apply (n_lend_to_right_no_wrap c d)|apply (n_borrow_from_right_no_wrap c d)]; auto; lia.
Qed.
End CallSites.

End AB.

(** * Part B, maps: the twins of MapTree.v

   For every function f of MapTree.v that does uint32 arithmetic a twin [f_ck] with the same text:
   N subtraction -> [usub], uint32 addition / multiplication -> [uadd] / [umul] (constant
   expressions such as minThreshold - mapDataSlabPrefixSize - hkeyElementsPrefixSize and
   hkeyElementsPrefixSize*2 included), nat subtraction / pred (Go ints: move counts, leftCount--,
   childHeaderIndex-1) -> [nsub] / [npred]; result type [option] of the original's.
   The theorems state [f_ck args = Some (f args)] under the carried invariant:
     Level 1  the loops over the element costs               (inequalities between sizes)
     Level 2  slab level: predicates, Split, Merge, Lend, Borrow      ([mwfn], [in_band])
     Level 3  SplitChildSlab, MergeOrRebalanceChildSlab, the tail of Set/Remove
     Level 4  Set / Remove through a subtree                 (induction on the height)
     Level 5  OrderedMap: promote, splitRoot, set, remove, PopIterate, histories ([minv])
   NOT instrumented, on purpose: ceil_div (a float64 computation in Go), the slab-index counter
   (alloc + 1, a' - 1: uint64 GenerateSlabID), MapExtraData.Count++ (uint64; Count-- IS
   instrumented), index arithmetic on Go ints that cannot leave the slice bounds without a panic the
   model already reports (childHeaderIndex+1, the binary search (i+j)>>1, len-1), and everything
   below MapElems.set_elems / remove_elems (the element level is out of scope here). *)
Module MB.
Import MapElems MapElemsInv MapTree MapTreeInv U.
Import MapElems_proofs MapTree_proofs MapRebalance_proofs MapFixup_proofs MapTreeOps_proofs Map_proofs.
Local Open Scope ck_scope.

(** ** Level 1: the size-driven loops of map_elements_hashkey.go over the list of element costs *)

(* hkeyElements.Split (494-517): leftSize+elemSize, dataSize-leftSize-elemSize *)
Fixpoint split_point_ck (zs : list N) (dataSize mid leftSize : N) (i : nat) : option (nat * N) :=
  match zs with
  | [] => Some (0%nat, leftSize)
  | z :: r =>
    lz <- uadd leftSize z ;;
    if mid <=? lz then
      d1 <- usub dataSize leftSize ;; d2 <- usub d1 z ;;
      if leftSize <=? d2 then Some (S i, lz) else Some (i, leftSize)
    else split_point_ck r dataSize mid lz (S i)
  end.

(* hkeyElements.LendToRight (565-575).  Both operands of Go's && are evaluated here (Go
   short-circuits: a superset of its evaluations); leftCount-- is a Go int: [npred] *)
Fixpoint lend_loop_ck (rzs : list N) (size mid minSize : N) (leftCount : nat) (leftSize : N) : option (nat * N) :=
  match rzs with
  | [] => Some (leftCount, leftSize)
  | z :: r =>
    d <- usub leftSize z ;; s <- usub size leftSize ;;
    if (d <? mid) && (minSize <=? s) then Some (leftCount, leftSize)
    else lc' <- npred leftCount ;; lend_loop_ck r size mid minSize lc' d
  end.

(* hkeyElements.BorrowFromRight (612-624) *)
Fixpoint borrow_loop_ck (zs : list N) (size mid minSize : N) (leftCount : nat) (leftSize : N) : option (nat * N) :=
  match zs with
  | [] => Some (leftCount, leftSize)
  | z :: r =>
    lz <- uadd leftSize z ;;
    if mid <? lz then
      d1 <- usub size leftSize ;; d2 <- usub d1 z ;;
      if minSize <=? d2 then Some (S leftCount, lz) else Some (leftCount, leftSize)
    else borrow_loop_ck r size mid minSize (S leftCount) lz
  end.

(* hkeyElements.CanLendToLeft / CanLendToRight (640-692): lendSize += cost; e.Size()-lendSize *)
Fixpoint can_lend_loop_ck (zs : list N) (esz minSize need lend : N) : option bool :=
  match zs with
  | [] => Some false
  | z :: r =>
    lend' <- uadd lend z ;;
    d <- usub esz lend' ;;
    if d <? minSize then Some false
    else if need <=? lend' then Some true
    else can_lend_loop_ck r esz minSize need lend'
  end.
Definition e_can_lend_ck (zs_walk : list N) (esz minSize need : N) : option bool :=
  if (length zs_walk <? 2)%nat then Some false
  else d <- usub esz need ;;
       if d <? minSize then Some false
       else can_lend_loop_ck zs_walk esz minSize need 0.

Lemma split_point_no_wrap : forall zs D mid acc i,
  acc + Nsum zs = D -> D < two32 ->
  split_point_ck zs D mid acc i = Some (split_point zs D mid acc i).
Proof.
  induction zs as [|z r IH]; intros D mid acc i Hsum HD; cbn [split_point_ck split_point] in *; [reflexivity|].
  rewrite Nsum_cons in Hsum.
  rewrite uadd_ok by lia. destruct (mid <=? acc + z).
  - rewrite usub_ok by lia. rewrite usub_ok by lia. destruct (acc <=? D - acc - z); reflexivity.
  - apply IH; lia.
Qed.

Lemma lend_loop_no_wrap : forall rzs size mid m lc ls,
  Nsum rzs <= ls -> ls <= size -> (length rzs <= lc)%nat ->
  lend_loop_ck rzs size mid m lc ls = Some (lend_loop rzs size mid m lc ls).
Proof.
  induction rzs as [|z r IH]; intros size mid m lc ls Hsum Hls Hlc; cbn [lend_loop_ck lend_loop length] in *; [reflexivity|].
  rewrite Nsum_cons in Hsum.
  rewrite usub_ok by lia. rewrite usub_ok by lia.
  destruct ((ls - z <? mid) && (m <=? size - ls)); [reflexivity|].
  rewrite npred_ok by lia. apply IH; lia.
Qed.

Lemma borrow_loop_no_wrap : forall zs size mid m lc ls,
  ls + Nsum zs <= size -> size < two32 ->
  borrow_loop_ck zs size mid m lc ls = Some (borrow_loop zs size mid m lc ls).
Proof.
  induction zs as [|z r IH]; intros size mid m lc ls Hsum Hsz; cbn [borrow_loop_ck borrow_loop] in *; [reflexivity|].
  rewrite Nsum_cons in Hsum.
  rewrite uadd_ok by lia. destruct (mid <? ls + z).
  - rewrite usub_ok by lia. rewrite usub_ok by lia. destruct (m <=? size - ls - z); reflexivity.
  - apply IH; lia.
Qed.

Lemma can_lend_loop_no_wrap : forall zs esz m need lend,
  lend + Nsum zs <= esz -> esz < two32 ->
  can_lend_loop_ck zs esz m need lend = Some (can_lend_loop zs esz m need lend).
Proof.
  induction zs as [|z r IH]; intros esz m need lend Hsum Hsz; cbn [can_lend_loop_ck can_lend_loop] in *; [reflexivity|].
  rewrite Nsum_cons in Hsum. cbv zeta.
  rewrite uadd_ok by lia. rewrite usub_ok by lia.
  destruct (esz - (lend + z) <? m); [reflexivity|].
  destruct (need <=? lend + z); [reflexivity|]. apply IH; lia.
Qed.

Lemma e_can_lend_no_wrap zs esz m need :
  Nsum zs <= esz -> esz < two32 -> need <= esz ->
  e_can_lend_ck zs esz m need = Some (e_can_lend zs esz m need).
Proof.
  intros Hsum Hsz Hneed. unfold e_can_lend_ck, e_can_lend.
  destruct (length zs <? 2)%nat; [reflexivity|]. rewrite usub_ok by lia.
  destruct (esz - need <? m); [reflexivity|]. apply can_lend_loop_no_wrap; lia.
Qed.

(* the twins do detect a wrap: a request larger than the cached size *)
Lemma e_can_lend_wraps zs esz m need : (2 <= length zs)%nat -> esz < need -> e_can_lend_ck zs esz m need = None.
Proof.
  intros H2 H. unfold e_can_lend_ck. replace (length zs <? 2)%nat with false by (symmetry; apply Nat.ltb_ge; lia).
  apply usub_none in H. rewrite H. reflexivity.
Qed.

Example level1_some :
  split_point_ck [40; 50; 60; 70] 220 110 0 0 = Some (2%nat, 90) /\
  lend_loop_ck [70; 60; 50; 40] 260 130 102 4 220 = Some (3%nat, 150) /\
  borrow_loop_ck [40; 50; 60; 70] 260 130 102 1 40 = Some (3%nat, 130) /\
  e_can_lend_ck [40; 50; 60; 70] 228 110 60 = Some true.
Proof. vm_compute. repeat split. Qed.
Example level1_none : e_can_lend_ck [40; 50] 98 110 99 = None /\ split_point_ck [10] 4294967300 5 4294967290 0 = None.
Proof. vm_compute. split; reflexivity. Qed.

(** ** Level 2: node level (map_data_slab.go, map_metadata_slab.go, map_elements_hashkey.go) *)

(* elem.Size() + digestSize, a uint32 addition evaluated once per element by every loop above.
   The twins compute the costs of ALL elements of the slab before the loop (the Go loops compute
   them on the fly and may stop early: a superset of Go's evaluations). *)
Definition ecost_ck (e : melem) : option N := uadd (esize e) c_digestSize.
Fixpoint costs_ck (els : list melem) : option (list N) :=
  match els with
  | [] => Some []
  | e :: r => z <- ecost_ck e ;; zs <- costs_ck r ;; Some (z :: zs)
  end.

Section twins.
  Variable dg : N -> nat -> N.
  Variable levels : nat.
  Variable max_inline_elem : N.
  Variable limit : N.
  Variable c : cfg.

  (* IsUnderflow: minThreshold - m.header.size behind the guard minThreshold > m.header.size *)
  Definition n_underflow_ck (n : mnode) : option (option N) :=
    if mh_size (hdr_of n) <? cmin c then d <- usub (cmin c) (mh_size (hdr_of n)) ;; Some (Some d) else Some None.

  (* MapMetaDataSlab.CanLendToLeft/Right (714-728): n is a float64 computation (not instrumented),
     mapSlabHeaderSize*n and m.header.size-mapSlabHeaderSize*n are uint32 *)
  Definition m_can_lend_ck (h : mhdr) (need : N) : option bool :=
    let k := ceil_div need HS in
    m <- umul HS k ;;
    if m <=? mh_size h then d <- usub (mh_size h) m ;; Some (cmin c <? d) else Some false.

  (* minSize := minThreshold - mapDataSlabPrefixSize is computed after the count test in Go; here
     always (a superset) *)
  Definition n_can_lend_to_left_ck (n : mnode) (need : N) : option bool :=
    match n with
    | MD _ _ (HKey _ _ els sz) =>
      zs <- costs_ck els ;; m <- usub (cmin c) P ;; e_can_lend_ck zs sz m need
    | MD _ _ (SList _ _ _) => Some false
    | MM h _ _ => m_can_lend_ck h need
    end.
  Definition n_can_lend_to_right_ck (n : mnode) (need : N) : option bool :=
    match n with
    | MD _ _ (HKey _ _ els sz) =>
      zs <- costs_ck els ;; m <- usub (cmin c) P ;; e_can_lend_ck (rev zs) sz m need
    | MD _ _ (SList _ _ _) => Some false
    | MM h _ _ => m_can_lend_ck h need
    end.

  (* MapDataSlab.Split + hkeyElements.Split; MapMetaDataSlab.Split (leftSize is a Go int product
     converted to uint32: [umul] states that the conversion is exact) *)
  Definition n_split_ck (n : mnode) (newid : N) : option (tres (mnode * mnode)) :=
    match n with
    | MD h next (HKey lv hks els sz) =>
      if (length els <? 2)%nat then Some (TErr TSplit)
      else
        zs <- costs_ck els ;;
        dataSize <- usub sz HP ;;
        d1 <- uadd dataSize 1 ;;
        '(lc, ls) <- split_point_ck zs dataSize (d1 / 2) 0 0 ;;
        lsz <- uadd HP ls ;;
        r0 <- usub dataSize ls ;; rsz <- uadd r0 HP ;;
        let lg := HKey lv (firstn lc hks) (firstn lc els) lsz in
        let rg := HKey lv (skipn lc hks) (skipn lc els) rsz in
        lh <- uadd P (msize lg) ;; rh <- uadd P (msize rg) ;;
        Some (TOk (MD (mkmhdr (mh_id h) lh (mh_first h)) newid lg,
                   MD (mkmhdr newid rh (efirst rg)) next rg))
    | MD _ _ (SList _ _ _) => Some (TErr TSplit)
    | MM h hs cs =>
      if (length hs <? 2)%nat then Some (TErr TSplit)
      else
        let lc := Nat.div2 (S (length hs)) in
        leftSize <- umul (N.of_nat lc) HS ;;
        let hsr := skipn lc hs in
        lsz <- uadd PM leftSize ;; rsz <- usub (mh_size h) leftSize ;;
        Some (TOk (MM (mkmhdr (mh_id h) lsz (mh_first h)) (firstn lc hs) (firstn lc cs),
                   MM (mkmhdr newid rsz (hfirst hsr)) hsr (skipn lc cs)))
    end.

  (* Merge: e.size += rElems.Size() - hkeyElementsPrefixSize; header.size = prefix + Size();
     index: m.header.size += rightSlab.header.size - mapMetaDataSlabPrefixSize *)
  Definition n_merge_ck (l r : mnode) : option (tres mnode) :=
    match l, r with
    | MD h _ (HKey lv hks els sz), MD h2 next2 (HKey _ hks2 els2 sz2) =>
      d <- usub sz2 HP ;; s <- uadd sz d ;;
      let g := HKey lv (hks ++ hks2) (els ++ els2) s in
      hsz <- uadd P (msize g) ;;
      Some (TOk (MD (mkmhdr (mh_id h) hsz (efirst g)) next2 g))
    | MD _ _ _, MD _ _ _ => Some (TErr TMerge)
    | MM h hs cs, MM h2 hs2 cs2 =>
      d <- usub (mh_size h2) PM ;; s <- uadd (mh_size h) d ;;
      Some (TOk (MM (mkmhdr (mh_id h) s (mh_first h)) (hs ++ hs2) (cs ++ cs2)))
    | _, _ => Some (TErr TPanic)
    end.

  (* LendToRight.  moveCount := oldLeftCount - leftCount and rightCount := total - leftCount are
     Go ints: [nsub] (a negative moveCount is a slice-bounds panic, which the model reports as
     TErr TPanic for index slabs) *)
  Definition n_lend_to_right_ck (l r : mnode) : option (tres (mnode * mnode)) :=
    match l, r with
    | MD h next (HKey lv hks els sz), MD h2 next2 (HKey lv2 hks2 els2 sz2) =>
      if negb (lv =? lv2)%nat then Some (TErr TRebalance)
      else
        zs <- costs_ck els ;;
        m1 <- usub (cmin c) P ;; minSize <- usub m1 HP ;;
        s1 <- uadd sz sz2 ;; hp2 <- umul HP 2 ;; size <- usub s1 hp2 ;;
        ls0 <- usub sz HP ;;
        s2 <- uadd size 1 ;;
        '(lc, ls) <- lend_loop_ck (rev zs) size (s2 / 2) minSize (length els) ls0 ;;
        _mv <- nsub (length els) lc ;;
        lsz <- uadd HP ls ;;
        r0 <- usub size ls ;; rsz <- uadd r0 HP ;;
        let lg := HKey lv (firstn lc hks) (firstn lc els) lsz in
        let rg := HKey lv2 (skipn lc hks ++ hks2) (skipn lc els ++ els2) rsz in
        lh <- uadd P (msize lg) ;; rh <- uadd P (msize rg) ;;
        Some (TOk (MD (mkmhdr (mh_id h) lh (mh_first h)) next lg,
                   MD (mkmhdr (mh_id h2) rh (efirst rg)) next2 rg))
    | MD _ _ _, MD _ _ _ => Some (TErr TRebalance)
    | MM h hs cs, MM h2 hs2 cs2 =>
      let total := (length hs + length hs2)%nat in
      let lc := Nat.div2 total in
      if (length hs <? lc)%nat then Some (TErr TPanic)
      else
        _mv <- nsub (length hs) lc ;;
        rc <- nsub total lc ;;
        lm <- umul (N.of_nat lc) HS ;; lsz <- uadd PM lm ;;
        rm <- umul (N.of_nat rc) HS ;; rsz <- uadd PM rm ;;
        let hsr := skipn lc hs ++ hs2 in
        Some (TOk (MM (mkmhdr (mh_id h) lsz (mh_first h)) (firstn lc hs) (firstn lc cs),
                   MM (mkmhdr (mh_id h2) rsz (hfirst hsr)) hsr (skipn lc cs ++ cs2)))
    | _, _ => Some (TErr TPanic)
    end.

  Definition n_borrow_from_right_ck (l r : mnode) : option (tres (mnode * mnode)) :=
    match l, r with
    | MD h next (HKey lv hks els sz), MD h2 next2 (HKey lv2 hks2 els2 sz2) =>
      if negb (lv =? lv2)%nat then Some (TErr TRebalance)
      else
        zs2 <- costs_ck els2 ;;
        m1 <- usub (cmin c) P ;; minSize <- usub m1 HP ;;
        s1 <- uadd sz sz2 ;; hp2 <- umul HP 2 ;; size <- usub s1 hp2 ;;
        ls0 <- usub sz HP ;;
        s2 <- uadd size 1 ;;
        '(lc, ls) <- borrow_loop_ck zs2 size (s2 / 2) minSize (length els) ls0 ;;
        mv <- nsub lc (length els) ;;
        lsz <- uadd ls HP ;;
        r0 <- usub size ls ;; rsz <- uadd r0 HP ;;
        let lg := HKey lv (hks ++ firstn mv hks2) (els ++ firstn mv els2) lsz in
        let rg := HKey lv2 (skipn mv hks2) (skipn mv els2) rsz in
        lh <- uadd P (msize lg) ;; rh <- uadd P (msize rg) ;;
        Some (TOk (MD (mkmhdr (mh_id h) lh (efirst lg)) next lg,
                   MD (mkmhdr (mh_id h2) rh (efirst rg)) next2 rg))
    | MD _ _ _, MD _ _ _ => Some (TErr TRebalance)
    | MM h hs cs, MM h2 hs2 cs2 =>
      let total := (length hs + length hs2)%nat in
      let lc := Nat.div2 total in
      if (lc <? length hs)%nat then Some (TErr TPanic)
      else
        mv <- nsub lc (length hs) ;;
        rc <- nsub total lc ;;
        lm <- umul (N.of_nat lc) HS ;; lsz <- uadd PM lm ;;
        rm <- umul (N.of_nat rc) HS ;; rsz <- uadd PM rm ;;
        let hsr := skipn mv hs2 in
        Some (TOk (MM (mkmhdr (mh_id h) lsz (mh_first h)) (hs ++ firstn mv hs2) (cs ++ firstn mv cs2),
                   MM (mkmhdr (mh_id h2) rsz (hfirst hsr)) hsr (skipn mv cs2)))
    | _, _ => Some (TErr TPanic)
    end.
End twins.

(** *** Level 2 lemmas *)
Lemma hkr els : hk_recompute els = HP + Nsum (map ecost els).
Proof. rewrite hk_recompute_eq. reflexivity. Qed.

(* every element cost is below 2^32 as soon as their sum is *)
Lemma costs_ck_ok els : Nsum (map ecost els) < two32 -> costs_ck els = Some (map ecost els).
Proof.
  induction els as [|e r IH]; intros H; cbn [costs_ck map] in *; [reflexivity|].
  rewrite Nsum_cons in H. unfold ecost_ck. unfold ecost in H at 1. rewrite uadd_ok by lia.
  rewrite IH by lia. reflexivity.
Qed.

Lemma split_point_le : forall zs D mid acc i, acc + Nsum zs = D -> snd (split_point zs D mid acc i) <= D.
Proof.
  induction zs as [|z r IH]; intros D mid acc i H; cbn [split_point]; [cbn [snd]; lia|].
  rewrite Nsum_cons in H. destruct (mid <=? acc + z).
  - destruct (acc <=? D - acc - z); cbn [snd]; lia.
  - apply IH. lia.
Qed.

Ltac ubound := cbn [msize mh_size hdr_of] in *; unfold two32 in *; unfold_msizes; lia.
Ltac ck_arith :=
  repeat (first [rewrite uadd_ok by ubound | rewrite usub_ok by ubound | rewrite umul_ok by ubound
                |rewrite nsub_ok by lia | rewrite npred_ok by lia]; cbv beta iota zeta).

(* the constants of every legal configuration *)
Lemma cfg_u32 T : valid_T T -> let c := set_threshold T in
  P + HP < cmin c /\ cmin c <= cmax c /\ cmax c <= 49152 /\ cmax c + Emax c + HS < two32 /\ Emax c <= cmin c.
Proof. intros HT c. subst c. pose proof (mcfg_facts T HT) as (?&?&?&?&?&?). unfold two32. unfold_msizes. lia. Qed.

Lemma slack_u32 T n : valid_T T -> let c := set_threshold T in
  mh_size (hdr_of n) <= cmax c + MapRebalance_proofs.slack T n -> mh_size (hdr_of n) + cmax c + HS < two32.
Proof.
  intros HT c H. subst c. pose proof (cfg_u32 T HT) as (C1 & C2 & C3 & C4 & C5). cbv zeta in *.
  pose proof (mcfg_facts T HT) as (?&?&?&?&?&?).
  unfold MapRebalance_proofs.slack in H. destruct (is_data n); unfold two32 in *; unfold_msizes; lia.
Qed.

(** **** statements over the cached sizes alone (any configuration [c]) *)
Lemma n_underflow_no_wrap c n : n_underflow_ck c n = Some (n_underflow c n).
Proof.
  unfold n_underflow_ck, n_underflow. destruct (mh_size (hdr_of n) <? cmin c) eqn:E; [|reflexivity].
  rewrite usub_ok by lia. reflexivity.
Qed.

Lemma m_can_lend_no_wrap c h need : need + HS <= two32 -> m_can_lend_ck c h need = Some (m_can_lend c h need).
Proof.
  intros Hn. unfold m_can_lend_ck, m_can_lend, ceil_div. cbv zeta.
  rewrite umul_ok by (unfold two32 in *; unfold_msizes; lia).
  destruct (HS * ((need + HS - 1) / HS) <=? mh_size h) eqn:E; [|reflexivity].
  rewrite usub_ok by lia. reflexivity.
Qed.

(* data slabs: the facts the invariant gives are sz = hk_recompute els, header = prefix + sz *)
Lemma n_can_lend_data_no_wrap c h nx lv hks els need (right : bool) :
  P + hk_recompute els < two32 -> need <= hk_recompute els -> P <= cmin c ->
  let n := MD h nx (HKey lv hks els (hk_recompute els)) in
  (if right then n_can_lend_to_right_ck c n need else n_can_lend_to_left_ck c n need) =
  Some (if right then n_can_lend_to_right c n need else n_can_lend_to_left c n need).
Proof.
  intros HB Hn HP' n. subst n. pose proof (hkr els) as Hz.
  destruct right; cbn [n_can_lend_to_right_ck n_can_lend_to_right n_can_lend_to_left_ck n_can_lend_to_left];
    rewrite costs_ck_ok by ubound; rewrite (usub_ok (cmin c) P) by lia;
    apply e_can_lend_no_wrap; try rewrite Nsum_rev; ubound.
Qed.

Lemma n_split_data_no_wrap h nx lv hks els newid :
  P + hk_recompute els < two32 ->
  let n := MD h nx (HKey lv hks els (hk_recompute els)) in
  n_split_ck n newid = Some (n_split n newid).
Proof.
  intros HB n. subst n. pose proof (hkr els) as Hz. cbn [n_split_ck n_split].
  destruct (length els <? 2)%nat; [reflexivity|]. cbv zeta.
  rewrite costs_ck_ok by ubound. ck_arith.
  rewrite split_point_no_wrap by ubound.
  pose proof (split_point_le (map ecost els) (hk_recompute els - HP) ((hk_recompute els - HP + 1) / 2) 0 0 ltac:(ubound)) as Hle.
  destruct (split_point _ _ _ _ _) as [lc ls]. cbn [snd] in Hle. ck_arith. reflexivity.
Qed.

Lemma n_split_index_no_wrap h hs cs newid :
  mh_size h = PM + N.of_nat (length hs) * HS -> mh_size h < two32 ->
  n_split_ck (MM h hs cs) newid = Some (n_split (MM h hs cs) newid).
Proof.
  intros Hz HB. cbn [n_split_ck n_split]. destruct (length hs <? 2)%nat eqn:E; [reflexivity|]. cbv zeta.
  assert (Hlc : (Nat.div2 (S (length hs)) <= length hs)%nat) by (rewrite Nat.div2_div; lia).
  set (lc := Nat.div2 (S (length hs))) in *. ck_arith. reflexivity.
Qed.

Lemma n_merge_data_no_wrap h nx lv hks els h2 nx2 lv2 hks2 els2 :
  (P + hk_recompute els) + hk_recompute els2 < two32 ->
  let l := MD h nx (HKey lv hks els (hk_recompute els)) in
  let r := MD h2 nx2 (HKey lv2 hks2 els2 (hk_recompute els2)) in
  n_merge_ck l r = Some (n_merge l r).
Proof.
  intros HB l r. subst l r. pose proof (hkr els) as Z1. pose proof (hkr els2) as Z2.
  cbn [n_merge_ck n_merge]. ck_arith. reflexivity.
Qed.

Lemma n_merge_index_no_wrap h hs cs h2 hs2 cs2 :
  PM <= mh_size h2 -> mh_size h + mh_size h2 < two32 ->
  n_merge_ck (MM h hs cs) (MM h2 hs2 cs2) = Some (n_merge (MM h hs cs) (MM h2 hs2 cs2)).
Proof. intros Z2 HB. cbn [n_merge_ck n_merge]. ck_arith. reflexivity. Qed.

Lemma n_lend_data_no_wrap c h nx lv hks els h2 nx2 lv2 hks2 els2 :
  P + HP <= cmin c -> (P + hk_recompute els) + (P + hk_recompute els2) < two32 ->
  let l := MD h nx (HKey lv hks els (hk_recompute els)) in
  let r := MD h2 nx2 (HKey lv2 hks2 els2 (hk_recompute els2)) in
  n_lend_to_right_ck c l r = Some (n_lend_to_right c l r).
Proof.
  intros C1 HB l r. subst l r. pose proof (hkr els) as Z1. pose proof (hkr els2) as Z2.
  cbn [n_lend_to_right_ck n_lend_to_right]. destruct (negb (lv =? lv2)%nat); [reflexivity|]. cbv zeta.
  rewrite costs_ck_ok by ubound. ck_arith.
  rewrite lend_loop_no_wrap;
    [|rewrite Nsum_rev; ubound|ubound|rewrite rev_length, map_length; lia].
  destruct (lend_loop _ _ _ _ _ _) as [lc ls] eqn:EL.
  destruct (mlend_loop_shape _ _ _ _ _ _ _ _ EL) as (done & rest & _ & Elc & Els).
  ck_arith. reflexivity.
Qed.

Lemma n_borrow_data_no_wrap c h nx lv hks els h2 nx2 lv2 hks2 els2 :
  P + HP <= cmin c -> (P + hk_recompute els) + (P + hk_recompute els2) < two32 ->
  let l := MD h nx (HKey lv hks els (hk_recompute els)) in
  let r := MD h2 nx2 (HKey lv2 hks2 els2 (hk_recompute els2)) in
  n_borrow_from_right_ck c l r = Some (n_borrow_from_right c l r).
Proof.
  intros C1 HB l r. subst l r. pose proof (hkr els) as Z1. pose proof (hkr els2) as Z2.
  cbn [n_borrow_from_right_ck n_borrow_from_right]. destruct (negb (lv =? lv2)%nat); [reflexivity|]. cbv zeta.
  rewrite costs_ck_ok by ubound. ck_arith.
  rewrite borrow_loop_no_wrap by ubound.
  destruct (borrow_loop _ _ _ _ _ _) as [lc ls] eqn:EL.
  destruct (mborrow_loop_shape _ _ _ _ _ _ _ _ EL) as (done & rest & Ezs & Elc & Els).
  assert (Hd : Nsum done <= Nsum (map ecost els2)) by (rewrite Ezs, Nsum_app; lia).
  ck_arith. reflexivity.
Qed.

(* index slabs: the model's guard (negative move count = slice-bounds panic) is kept as it is; when it
   does not fire the two Go int subtractions are non-negative and the uint32 products/sums exact *)
Lemma n_lend_index_no_wrap c h hs cs h2 hs2 cs2 :
  mh_size h = PM + N.of_nat (length hs) * HS -> mh_size h2 = PM + N.of_nat (length hs2) * HS ->
  mh_size h + mh_size h2 < two32 ->
  n_lend_to_right_ck c (MM h hs cs) (MM h2 hs2 cs2) = Some (n_lend_to_right c (MM h hs cs) (MM h2 hs2 cs2)).
Proof.
  intros Z1 Z2 HB. cbn [n_lend_to_right_ck n_lend_to_right]. cbv zeta.
  assert (Hlc : (Nat.div2 (length hs + length hs2) <= length hs + length hs2)%nat) by (rewrite Nat.div2_div; lia).
  set (lc := Nat.div2 (length hs + length hs2)) in *.
  destruct (length hs <? lc)%nat eqn:E; [reflexivity|]. ck_arith. reflexivity.
Qed.

Lemma n_borrow_index_no_wrap c h hs cs h2 hs2 cs2 :
  mh_size h = PM + N.of_nat (length hs) * HS -> mh_size h2 = PM + N.of_nat (length hs2) * HS ->
  mh_size h + mh_size h2 < two32 ->
  n_borrow_from_right_ck c (MM h hs cs) (MM h2 hs2 cs2) = Some (n_borrow_from_right c (MM h hs cs) (MM h2 hs2 cs2)).
Proof.
  intros Z1 Z2 HB. cbn [n_borrow_from_right_ck n_borrow_from_right]. cbv zeta.
  assert (Hlc : (Nat.div2 (length hs + length hs2) <= length hs + length hs2)%nat) by (rewrite Nat.div2_div; lia).
  set (lc := Nat.div2 (length hs + length hs2)) in *.
  destruct (lc <? length hs)%nat eqn:E; [reflexivity|]. ck_arith. reflexivity.
Qed.

(** **** statements over well-formed subtrees ([mwfn]) of every legal configuration *)
Section WithT.
Variable dg : N -> nat -> N.
Variable levels : nat.
Variable T : N.
Hypothesis HT : valid_T T.
Hypothesis Hlv : (0 < levels)%nat.
Local Notation c := (set_threshold T).
Local Notation mwfn := (mwfn dg levels c).
Local Notation in_band := (in_band c).
Local Notation mwfn_0_inv := (MapRebalance_proofs.mwfn_0_inv dg levels T).
Local Notation mwfn_S_inv := (MapRebalance_proofs.mwfn_S_inv dg levels T HT Hlv).
Local Notation pfx_of := MapRebalance_proofs.pfx_of.
Local Notation slack := (MapRebalance_proofs.slack T).

Lemma n_can_lend_to_left_no_wrap d n need : mwfn d n -> in_band n -> need + pfx_of n <= cmin c ->
  n_can_lend_to_left_ck c n need = Some (n_can_lend_to_left c n need).
Proof using HT Hlv.
  intros Hw (Bm & BX) Hn. pose proof (cfg_u32 T HT) as (C1 & C2 & C3 & C4 & C5). cbv zeta in *. destruct d as [|d].
  - destruct (mwfn_0_inv _ Hw) as (h & nx & hks & els & -> & _ & _ & _ & _ & Hz).
    cbn [hdr_of pfx_of is_data] in *.
    apply (n_can_lend_data_no_wrap c h nx 0%nat hks els need false); ubound.
  - destruct (mwfn_S_inv _ _ Hw) as (h & cs & -> & _).
    cbn [hdr_of pfx_of is_data n_can_lend_to_left_ck n_can_lend_to_left] in *.
    apply m_can_lend_no_wrap. ubound.
Qed.

Lemma n_can_lend_to_right_no_wrap d n need : mwfn d n -> in_band n -> need + pfx_of n <= cmin c ->
  n_can_lend_to_right_ck c n need = Some (n_can_lend_to_right c n need).
Proof using HT Hlv.
  intros Hw (Bm & BX) Hn. pose proof (cfg_u32 T HT) as (C1 & C2 & C3 & C4 & C5). cbv zeta in *. destruct d as [|d].
  - destruct (mwfn_0_inv _ Hw) as (h & nx & hks & els & -> & _ & _ & _ & _ & Hz).
    cbn [hdr_of pfx_of is_data] in *.
    apply (n_can_lend_data_no_wrap c h nx 0%nat hks els need true); ubound.
  - destruct (mwfn_S_inv _ _ Hw) as (h & cs & -> & _).
    cbn [hdr_of pfx_of is_data n_can_lend_to_right_ck n_can_lend_to_right] in *.
    apply m_can_lend_no_wrap. ubound.
Qed.

(* the request of MergeOrRebalanceChildSlab: the deficit of a well-formed sibling of the same height *)
Lemma deficit_le d ch n need : mwfn d ch -> mwfn d n -> mh_size (hdr_of ch) + need = cmin c ->
  need + pfx_of n <= cmin c.
Proof using HT Hlv.
  intros Hc Hn E. rewrite (pfx_of_eq dg levels T d ch n Hc Hn).
  pose proof (mwfn_size_ge_pfx dg levels T HT Hlv d ch Hc). lia.
Qed.

Lemma n_split_no_wrap d n newid : mwfn d n -> mh_size (hdr_of n) < two32 ->
  n_split_ck n newid = Some (n_split n newid).
Proof using HT Hlv.
  intros Hw HB. destruct d as [|d].
  - destruct (mwfn_0_inv _ Hw) as (h & nx & hks & els & -> & _ & _ & _ & _ & Hz).
    cbn [hdr_of] in HB. apply n_split_data_no_wrap. lia.
  - destruct (mwfn_S_inv _ _ Hw) as (h & cs & -> & _ & _ & Hz & _).
    cbn [hdr_of] in HB. apply n_split_index_no_wrap; [rewrite map_length; exact Hz|exact HB].
Qed.

(* the form of split_ok: one element cost / one header above the maximum *)
Lemma n_split_ck_ok d n newid : mwfn d n -> cmax c < mh_size (hdr_of n) -> mh_size (hdr_of n) <= cmax c + slack n ->
  n_split_ck n newid = Some (n_split n newid).
Proof using HT Hlv.
  intros Hw _ Hhi. apply (n_split_no_wrap d); [exact Hw|]. pose proof (slack_u32 T n HT Hhi). lia.
Qed.

Lemma n_merge_no_wrap d l r : mwfn d l -> mwfn d r -> mh_size (hdr_of l) + mh_size (hdr_of r) < two32 ->
  n_merge_ck l r = Some (n_merge l r).
Proof using HT Hlv.
  intros Hl Hr HB. destruct d as [|d].
  - destruct (mwfn_0_inv _ Hl) as (h & nx & hks & els & -> & _ & _ & _ & _ & Hz1).
    destruct (mwfn_0_inv _ Hr) as (h2 & nx2 & hks2 & els2 & -> & _ & _ & _ & _ & Hz2).
    cbn [hdr_of] in HB. apply n_merge_data_no_wrap. lia.
  - destruct (mwfn_S_inv _ _ Hl) as (h & cs & -> & _ & _ & Hz1 & _).
    destruct (mwfn_S_inv _ _ Hr) as (h2 & cs2 & -> & _ & _ & Hz2 & _).
    cbn [hdr_of] in HB. apply n_merge_index_no_wrap; lia.
Qed.

Lemma n_lend_to_right_no_wrap d l r : mwfn d l -> mwfn d r -> mh_size (hdr_of l) + mh_size (hdr_of r) < two32 ->
  n_lend_to_right_ck c l r = Some (n_lend_to_right c l r).
Proof using HT Hlv.
  intros Hl Hr HB. pose proof (cfg_u32 T HT) as (C1 & _). cbv zeta in C1. destruct d as [|d].
  - destruct (mwfn_0_inv _ Hl) as (h & nx & hks & els & -> & _ & _ & _ & _ & Hz1).
    destruct (mwfn_0_inv _ Hr) as (h2 & nx2 & hks2 & els2 & -> & _ & _ & _ & _ & Hz2).
    cbn [hdr_of] in HB. apply n_lend_data_no_wrap; lia.
  - destruct (mwfn_S_inv _ _ Hl) as (h & cs & -> & _ & _ & Hz1 & _).
    destruct (mwfn_S_inv _ _ Hr) as (h2 & cs2 & -> & _ & _ & Hz2 & _).
    cbn [hdr_of] in HB. apply n_lend_index_no_wrap; rewrite ?map_length; assumption.
Qed.

Lemma n_borrow_from_right_no_wrap d l r : mwfn d l -> mwfn d r -> mh_size (hdr_of l) + mh_size (hdr_of r) < two32 ->
  n_borrow_from_right_ck c l r = Some (n_borrow_from_right c l r).
Proof using HT Hlv.
  intros Hl Hr HB. pose proof (cfg_u32 T HT) as (C1 & _). cbv zeta in C1. destruct d as [|d].
  - destruct (mwfn_0_inv _ Hl) as (h & nx & hks & els & -> & _ & _ & _ & _ & Hz1).
    destruct (mwfn_0_inv _ Hr) as (h2 & nx2 & hks2 & els2 & -> & _ & _ & _ & _ & Hz2).
    cbn [hdr_of] in HB. apply n_borrow_data_no_wrap; lia.
  - destruct (mwfn_S_inv _ _ Hl) as (h & cs & -> & _ & _ & Hz1 & _).
    destruct (mwfn_S_inv _ _ Hr) as (h2 & cs2 & -> & _ & _ & Hz2 & _).
    cbn [hdr_of] in HB. apply n_borrow_index_no_wrap; rewrite ?map_length; assumption.
Qed.

(* under the hypotheses of lend_ok / borrow_ok (the sibling said it can lend) the twin returns the
   model's SUCCESSFUL result: no wrap, and the negative-move-count guard of the index slabs (a Go
   slice-bounds panic) does not fire *)
Lemma n_lend_to_right_ck_ok d l r need :
  mwfn d l -> mwfn d r -> in_band l -> mh_size (hdr_of r) + need = cmin c -> 0 < need ->
  ssorted (keys_of l ++ keys_of r) -> n_can_lend_to_right c l need = true ->
  exists l' r', n_lend_to_right_ck c l r = Some (TOk (l', r')) /\ n_lend_to_right c l r = TOk (l', r') /\
    in_band l' /\ in_band r'.
Proof using HT Hlv.
  intros Hl Hr Bl HR Hneed Hs Hcan.
  destruct (lend_ok dg levels T HT Hlv d l r need Hl Hr Bl HR Hneed Hs Hcan) as (l' & r' & E & _ & _ & B1 & B2 & _).
  exists l', r'. rewrite <- E. split; [|auto]. apply (n_lend_to_right_no_wrap d); auto.
  destruct Bl as (_ & BX). pose proof (cfg_u32 T HT) as (C1 & C2 & C3 & C4 & C5). cbv zeta in *. unfold two32 in *. lia.
Qed.

Lemma n_borrow_from_right_ck_ok d l r need :
  mwfn d l -> mwfn d r -> in_band r -> mh_size (hdr_of l) + need = cmin c -> 0 < need ->
  ssorted (keys_of l ++ keys_of r) -> n_can_lend_to_left c r need = true ->
  exists l' r', n_borrow_from_right_ck c l r = Some (TOk (l', r')) /\ n_borrow_from_right c l r = TOk (l', r') /\
    in_band l' /\ in_band r'.
Proof using HT Hlv.
  intros Hl Hr Br HL Hneed Hs Hcan.
  destruct (borrow_ok dg levels T HT Hlv d l r need Hl Hr Br HL Hneed Hs Hcan) as (l' & r' & E & _ & _ & B1 & B2 & _).
  exists l', r'. rewrite <- E. split; [|auto]. apply (n_borrow_from_right_no_wrap d); auto.
  destruct Br as (_ & BX). pose proof (cfg_u32 T HT) as (C1 & C2 & C3 & C4 & C5). cbv zeta in *. unfold two32 in *. lia.
Qed.

End WithT.

(** ** Level 3: the index slab after a child changed (map_metadata_slab.go 331-608).
    [alloc + 1] is the uint64 slab index of GenerateSlabID: not uint32 arithmetic, not instrumented. *)
Section twins3.
  Variable c : cfg.

  (* SplitChildSlab: m.header.size += mapSlabHeaderSize *)
  Definition split_child_ck (h : mhdr) (hs : list mhdr) (cs : list mnode)
             (k : nat) (child : mnode) (alloc : N) : option (tres (mnode * N * wlog)) :=
    x <- n_split_ck child (alloc + 1) ;;
    match x with
    | TErr e => Some (TErr e)
    | TOk (l, r) =>
      s <- uadd (mh_size h) HS ;;
      Some (TOk (MM (mkmhdr (mh_id h) s (mh_first h))
                    (insert_nth (S k) (hdr_of r) (replace_nth k (hdr_of l) hs))
                    (insert_nth (S k) r (replace_nth k l cs)),
                 alloc + 1,
                 [WStore (mh_id (hdr_of l)); WStore (mh_id (hdr_of r)); WStore (mh_id h)]))
    end.

  Definition rebalance_children_ck (h : mhdr) (hs : list mhdr) (cs : list mnode)
             (li : nat) (l r : mnode) (borrow : bool) : option (tres (mnode * wlog)) :=
    x <- (if borrow then n_borrow_from_right_ck c l r else n_lend_to_right_ck c l r) ;;
    match x with
    | TErr e => Some (TErr e)
    | TOk (l', r') =>
      Some (TOk (MM (first_if0 li h l')
                    (replace_nth (S li) (hdr_of r') (replace_nth li (hdr_of l') hs))
                    (replace_nth (S li) r' (replace_nth li l' cs)),
                 [WStore (mh_id (hdr_of l')); WStore (mh_id (hdr_of r')); WStore (mh_id h)]))
    end.

  (* mergeChildren: m.header.size -= mapSlabHeaderSize *)
  Definition merge_children_ck (h : mhdr) (hs : list mhdr) (cs : list mnode)
             (li : nat) (l r : mnode) : option (tres (mnode * wlog)) :=
    x <- n_merge_ck l r ;;
    match x with
    | TErr e => Some (TErr e)
    | TOk m =>
      s <- usub (mh_size h) HS ;;
      Some (TOk (MM (first_if0 li (mkmhdr (mh_id h) s (mh_first h)) m)
                    (remove_nth (S li) (replace_nth li (hdr_of m) hs))
                    (remove_nth (S li) (replace_nth li m cs)),
                 [WStore (mh_id (hdr_of m)); WStore (mh_id h); WRemove (mh_id (hdr_of r))]))
    end.

  (* MergeOrRebalanceChildSlab; childHeaderIndex-1 is a Go int: [npred] *)
  Definition merge_or_rebalance_ck (h : mhdr) (hs : list mhdr) (cs : list mnode)
             (k : nat) (child : mnode) (need : N) : option (tres (mnode * wlog)) :=
    let lsib := match k with O => None | S k' => nth_error cs k' end in
    let rsib := nth_error cs (S k) in
    lcan <- match lsib with Some s => n_can_lend_to_right_ck c s need | None => Some false end ;;
    rcan <- match rsib with Some s => n_can_lend_to_left_ck c s need | None => Some false end ;;
    if lcan || rcan then
      match lsib, rsib with
      | Some ls, Some rs =>
        if negb lcan then rebalance_children_ck h hs cs k child rs true
        else if negb rcan then pk <- npred k ;; rebalance_children_ck h hs cs pk ls child false
        else if mh_size (hdr_of rs) <? mh_size (hdr_of ls) then pk <- npred k ;; rebalance_children_ck h hs cs pk ls child false
        else rebalance_children_ck h hs cs k child rs true
      | Some ls, None => pk <- npred k ;; rebalance_children_ck h hs cs pk ls child false
      | None, Some rs => rebalance_children_ck h hs cs k child rs true
      | None, None => Some (TErr TPanic)
      end
    else
      match lsib, rsib with
      | None, Some rs => merge_children_ck h hs cs k child rs
      | Some ls, None => pk <- npred k ;; merge_children_ck h hs cs pk ls child
      | Some ls, Some rs =>
        if mh_size (hdr_of ls) <? mh_size (hdr_of rs) then pk <- npred k ;; merge_children_ck h hs cs pk ls child
        else merge_children_ck h hs cs k child rs
      | None, None => Some (TErr TPanic)
      end.

  Definition fix_child_ck (h : mhdr) (hs : list mhdr) (cs : list mnode) (k : nat) (ch' : mnode) (alloc : N)
    : option (tres (mnode * N * wlog)) :=
    let hs' := replace_nth k (hdr_of ch') hs in
    let cs' := replace_nth k ch' cs in
    let h' := first_if0 k h ch' in
    if n_is_full c ch' then split_child_ck h' hs' cs' k ch' alloc
    else u <- n_underflow_ck c ch' ;;
         match u with
         | Some need =>
           x <- merge_or_rebalance_ck h' hs' cs' k ch' need ;;
           match x with
           | TErr e => Some (TErr e)
           | TOk (n', lg) => Some (TOk (n', alloc, lg))
           end
         | None => Some (TOk (MM h' hs' cs', alloc, [WStore (mh_id h)]))
         end.
End twins3.

Section WithT3.
Variable dg : N -> nat -> N.
Variable levels : nat.
Variable T : N.
Hypothesis HT : valid_T T.
Hypothesis Hlv : (0 < levels)%nat.
Local Notation c := (set_threshold T).
Local Notation mwfn := (mwfn dg levels c).
Local Notation in_band := (in_band c).
Local Notation kids_ok := (MapRebalance_proofs.kids_ok dg levels T).
Local Notation slack := (MapRebalance_proofs.slack T).

Lemma split_child_no_wrap d h hs cs k ch alloc :
  mwfn d ch -> mh_size (hdr_of ch) < two32 -> mh_size h + HS < two32 ->
  split_child_ck h hs cs k ch alloc = Some (split_child h hs cs k ch alloc).
Proof using HT Hlv.
  intros Hw HB Hh. unfold split_child_ck, split_child.
  rewrite (n_split_no_wrap dg levels T HT Hlv d) by assumption.
  destruct (n_split ch (alloc + 1)) as [[l r]|e]; [|reflexivity]. ck_arith. reflexivity.
Qed.

Lemma rebalance_children_no_wrap d h hs cs li l r borrow :
  mwfn d l -> mwfn d r -> mh_size (hdr_of l) + mh_size (hdr_of r) < two32 ->
  rebalance_children_ck c h hs cs li l r borrow = Some (rebalance_children c h hs cs li l r borrow).
Proof using HT Hlv.
  intros Hl Hr HB. unfold rebalance_children_ck, rebalance_children. destruct borrow.
  - rewrite (n_borrow_from_right_no_wrap dg levels T HT Hlv d) by assumption.
    destruct (n_borrow_from_right c l r) as [[l' r']|e]; reflexivity.
  - rewrite (n_lend_to_right_no_wrap dg levels T HT Hlv d) by assumption.
    destruct (n_lend_to_right c l r) as [[l' r']|e]; reflexivity.
Qed.

Lemma merge_children_no_wrap d h hs cs li l r :
  mwfn d l -> mwfn d r -> mh_size (hdr_of l) + mh_size (hdr_of r) < two32 -> HS <= mh_size h ->
  merge_children_ck h hs cs li l r = Some (merge_children h hs cs li l r).
Proof using HT Hlv.
  intros Hl Hr HB Hh. unfold merge_children_ck, merge_children.
  rewrite (n_merge_no_wrap dg levels T HT Hlv d) by assumption.
  destruct (n_merge l r) as [m|e]; [|reflexivity]. ck_arith. reflexivity.
Qed.

(* every sibling of position k is a well-formed slab of height d inside the band *)
Definition sib_ok (d : nat) (cs : list mnode) (k : nat) : Prop :=
  forall j s, j <> k -> nth_error cs j = Some s -> mwfn d s /\ in_band s.

Lemma sib_ok_mid d pre x post : kids_ok d pre -> kids_ok d post -> sib_ok d (pre ++ x :: post) (length pre).
Proof using HT Hlv.
  intros (W1 & B1) (W2 & B2) j s Hj E. rewrite Forall_forall in W1, B1, W2, B2.
  destruct (Nat.lt_ge_cases j (length pre)) as [Hlt|Hge].
  - rewrite nth_error_app1 in E by exact Hlt. apply nth_error_In in E. auto.
  - rewrite nth_error_app2 in E by exact Hge.
    destruct (j - length pre)%nat as [|m] eqn:Em; [lia|]. cbn [nth_error] in E. apply nth_error_In in E. auto.
Qed.

Lemma merge_or_rebalance_no_wrap d h hs cs k ch need :
  mwfn d ch -> mh_size (hdr_of ch) + need = cmin c -> sib_ok d cs k -> HS <= mh_size h ->
  merge_or_rebalance_ck c h hs cs k ch need = Some (merge_or_rebalance c h hs cs k ch need).
Proof using HT Hlv.
  intros Hw Hneed Hsib Hh. pose proof (cfg_u32 T HT) as (C1 & C2 & C3 & C4 & C5). cbv zeta in C1, C2, C3, C4, C5.
  assert (Hb : forall s, mwfn d s /\ in_band s ->
               mh_size (hdr_of s) + mh_size (hdr_of ch) < two32 /\ mh_size (hdr_of ch) + mh_size (hdr_of s) < two32).
  { intros s (_ & (_ & BX)). unfold two32 in *. lia. }
  assert (Hr : forall s, mwfn d s /\ in_band s ->
               n_can_lend_to_right_ck c s need = Some (n_can_lend_to_right c s need) /\
               n_can_lend_to_left_ck c s need = Some (n_can_lend_to_left c s need)).
  { intros s (Ws & Bs). pose proof (deficit_le dg levels T HT Hlv d ch s need Hw Ws Hneed) as Hd. split.
    - apply (n_can_lend_to_right_no_wrap dg levels T HT Hlv d); assumption.
    - apply (n_can_lend_to_left_no_wrap dg levels T HT Hlv d); assumption. }
  unfold merge_or_rebalance_ck, merge_or_rebalance. cbv zeta.
  destruct k as [|k'].
  - destruct (nth_error cs 1) as [rs|] eqn:ER; [|reflexivity].
    pose proof (Hsib 1%nat rs ltac:(lia) ER) as Hrs. destruct (Hr rs Hrs) as (_ & ->). destruct (Hb rs Hrs) as (B1 & B2).
    cbn [orb]. destruct (n_can_lend_to_left c rs need).
    + apply (rebalance_children_no_wrap d); tauto.
    + apply (merge_children_no_wrap d); tauto.
  - cbn [npred pred].
    destruct (nth_error cs k') as [ls|] eqn:EL; destruct (nth_error cs (S (S k'))) as [rs|] eqn:ER.
    + pose proof (Hsib k' ls ltac:(lia) EL) as Hls. pose proof (Hsib (S (S k')) rs ltac:(lia) ER) as Hrs.
      destruct (Hr ls Hls) as (-> & _). destruct (Hr rs Hrs) as (_ & ->).
      destruct (Hb ls Hls) as (B1 & B2). destruct (Hb rs Hrs) as (B3 & B4).
      destruct (n_can_lend_to_right c ls need); destruct (n_can_lend_to_left c rs need); cbn [orb negb].
      * destruct (mh_size (hdr_of rs) <? mh_size (hdr_of ls)); apply (rebalance_children_no_wrap d); tauto.
      * apply (rebalance_children_no_wrap d); tauto.
      * apply (rebalance_children_no_wrap d); tauto.
      * destruct (mh_size (hdr_of ls) <? mh_size (hdr_of rs)); apply (merge_children_no_wrap d); tauto.
    + pose proof (Hsib k' ls ltac:(lia) EL) as Hls. destruct (Hr ls Hls) as (-> & _). destruct (Hb ls Hls) as (B1 & B2).
      rewrite orb_false_r. destruct (n_can_lend_to_right c ls need).
      * apply (rebalance_children_no_wrap d); tauto.
      * apply (merge_children_no_wrap d); tauto.
    + pose proof (Hsib (S (S k')) rs ltac:(lia) ER) as Hrs. destruct (Hr rs Hrs) as (_ & ->). destruct (Hb rs Hrs) as (B3 & B4).
      cbn [orb]. destruct (n_can_lend_to_left c rs need).
      * apply (rebalance_children_no_wrap d); tauto.
      * apply (merge_children_no_wrap d); tauto.
    + reflexivity.
Qed.

(* the same in the shape of split_child_ok / merge_or_rebalance_ok (children = pre ++ ch :: post).
   The existing *_ok lemmas do not bound the PARENT's cached size (they do not need it); the
   parent's own += / -= mapSlabHeaderSize does: in a tree the parent is inside the band or the root,
   hence <= maxThreshold (used in n_set_no_wrap below) *)
Lemma split_child_ck_ok d h pre ch post alloc :
  mwfn d ch -> cmax c < mh_size (hdr_of ch) -> mh_size (hdr_of ch) <= cmax c + slack ch ->
  let cs := pre ++ ch :: post in
  mh_size h + HS < two32 ->
  split_child_ck h (map hdr_of cs) cs (length pre) ch alloc = Some (split_child h (map hdr_of cs) cs (length pre) ch alloc).
Proof using HT Hlv.
  intros Hw _ Hhi cs Hh. apply (split_child_no_wrap d); [exact Hw| |exact Hh].
  pose proof (slack_u32 T ch HT Hhi) as Hu. cbv zeta in Hu. lia.
Qed.

Lemma merge_or_rebalance_ck_ok d h ch need pre post :
  mwfn d ch -> mh_size (hdr_of ch) + need = cmin c ->
  kids_ok d pre -> kids_ok d post ->
  let cs := pre ++ ch :: post in
  mh_size h = PM + N.of_nat (length cs) * HS ->
  merge_or_rebalance_ck c h (map hdr_of cs) cs (length pre) ch need =
  Some (merge_or_rebalance c h (map hdr_of cs) cs (length pre) ch need).
Proof using HT Hlv.
  intros Hw Hneed Hpre Hpost cs Hsz. apply (merge_or_rebalance_no_wrap d); [exact Hw|exact Hneed| |].
  - subst cs. apply sib_ok_mid; assumption.
  - subst cs. rewrite Hsz, app_length. cbn [length]. unfold_msizes. lia.
Qed.

(* the common tail of MapMetaDataSlab.Set / Remove (hypotheses of fix_child_ok that bound sizes, plus
   a bound on the parent: in the tree it is inside the band or the root, hence <= maxThreshold) *)
Lemma fix_child_no_wrap d h pre ch ch' post alloc :
  kids_ok d pre -> kids_ok d post -> mwfn d ch' ->
  let cs := pre ++ ch :: post in
  mh_size h = PM + N.of_nat (length cs) * HS ->
  mh_size (hdr_of ch') <= cmax c + slack ch' -> mh_size h + HS < two32 ->
  fix_child_ck c h (map hdr_of cs) cs (length pre) ch' alloc = Some (fix_child c h (map hdr_of cs) cs (length pre) ch' alloc).
Proof using HT Hlv.
  intros Hpre Hpost Hw cs Hsz Hhi Hh. pose proof (slack_u32 T ch' HT Hhi) as Hu. cbv zeta in Hu.
  unfold fix_child_ck, fix_child. subst cs. cbv zeta.
  rewrite replace_nth_map, !replace_nth_app_len.
  set (cs' := pre ++ ch' :: post). set (h' := first_if0 (length pre) h ch').
  assert (Hsame : mh_size h' = mh_size h) by apply first_if0_size.
  destruct (n_is_full c ch').
  - apply (split_child_no_wrap d); [exact Hw| |rewrite Hsame; exact Hh]. unfold two32 in *. lia.
  - rewrite n_underflow_no_wrap. unfold n_underflow.
    destruct (mh_size (hdr_of ch') <? cmin c) eqn:Hlt; [|reflexivity].
    rewrite (merge_or_rebalance_no_wrap d).
    + destruct (merge_or_rebalance _ _ _ _ _ _ _) as [[n' lg]|e]; reflexivity.
    + exact Hw.
    + lia.
    + subst cs'. apply sib_ok_mid; assumption.
    + rewrite Hsame, Hsz, app_length. cbn [length]. unfold_msizes. lia.
Qed.

End WithT3.

(** ** Level 4: Set / Remove through the tree (MapDataSlab.Set/Remove, MapMetaDataSlab.Set/Remove).
    In a data slab the only uint32 arithmetic of these functions is
    [m.header.size = m.getPrefixSize() + m.Size()]; the element level (MapElems.set_elems /
    remove_elems: hkeyElements.Set/Remove and below) is out of scope here.  [alloc + 1] / [a' - 1]
    convert between the model's "last index handed out" and the element level's "next free index":
    uint64 slab indices, no Go arithmetic, not instrumented. *)
Section twins4.
  Variable dg : N -> nat -> N.
  Variable levels : nat.
  Variable max_inline_elem : N.
  Variable limit : N.
  Variable c : cfg.

  Definition leaf_set_ck (pfx : N) (h : mhdr) (next : N) (es : melems) (k v : kv) (alloc : N)
    : option (tres (mnode * option kv * N * wlog)) :=
    match set_elems dg levels max_inline_elem limit (op_fuel levels) es 0 k v (alloc + 1) with
    | inl e => Some (TErr (TElem e))
    | inr (es', prev, a', evs) =>
      s <- uadd pfx (msize es') ;;
      Some (TOk (MD (mkmhdr (mh_id h) s (efirst es')) next es', prev, a' - 1, evs ++ [WStore (mh_id h)]))
    end.

  Definition leaf_remove_ck (pfx : N) (h : mhdr) (next : N) (es : melems) (k : N)
    : option (tres (mnode * (kv * kv) * wlog)) :=
    match remove_elems dg levels (op_fuel levels) es 0 k with
    | inl e => Some (TErr (TElem e))
    | inr (es', kvp, evs) =>
      s <- uadd pfx (msize es') ;;
      Some (TOk (MD (mkmhdr (mh_id h) s (efirst es')) next es', kvp, evs ++ [WStore (mh_id h)]))
    end.

  Fixpoint n_set_ck (pfx : N) (n : mnode) (k v : kv) (alloc : N) : option (tres (mnode * option kv * N * wlog)) :=
    match n with
    | MD h next es => leaf_set_ck pfx h next es k v alloc
    | MM h hs cs =>
      let i := route_set hs (hkey0 dg (kid k)) in
      match on_kth (fun ch => n_set_ck P ch k v alloc) cs i with
      | None => Some (TErr TSlabNotFound)
      | Some None => None
      | Some (Some (TErr x)) => Some (TErr x)
      | Some (Some (TOk (ch', prev, alloc', lg))) =>
        y <- fix_child_ck c h hs cs i ch' alloc' ;;
        match y with
        | TErr x => Some (TErr x)
        | TOk (n', alloc'', lg') => Some (TOk (n', prev, alloc'', lg ++ lg'))
        end
      end
    end.

  Fixpoint n_remove_ck (pfx : N) (n : mnode) (k : N) (alloc : N) : option (tres (mnode * (kv * kv) * N * wlog)) :=
    match n with
    | MD h next es =>
      y <- leaf_remove_ck pfx h next es k ;;
      match y with
      | TErr x => Some (TErr x)
      | TOk (n', kvp, lg) => Some (TOk (n', kvp, alloc, lg))
      end
    | MM h hs cs =>
      match route_get hs (hkey0 dg k) with
      | None => Some (TErr (TElem EKeyNotFound))
      | Some i =>
        match on_kth (fun ch => n_remove_ck P ch k alloc) cs i with
        | None => Some (TErr TSlabNotFound)
        | Some None => None
        | Some (Some (TErr x)) => Some (TErr x)
        | Some (Some (TOk (ch', kvp, alloc', lg))) =>
          y <- fix_child_ck c h hs cs i ch' alloc' ;;
          match y with
          | TErr x => Some (TErr x)
          | TOk (n', alloc'', lg') => Some (TOk (n', kvp, alloc'', lg ++ lg'))
          end
        end
      end
    end.
End twins4.

Section WithT4.
Variable dg : N -> nat -> N.
Variable levels : nat.
Variable T : N.
Hypothesis HT : valid_T T.
Hypothesis Hlv : (0 < levels)%nat.
Variable limit : N.
Variable ks : N -> N.
Local Notation c := (set_threshold T).
Local Notation M := (cinl_melem (set_threshold T)).
Local Notation mwfn := (mwfn dg levels c).
Local Notation in_band := (in_band c).
Local Notation kids_ok := (MapRebalance_proofs.kids_ok dg levels T).
Local Notation slack := (MapRebalance_proofs.slack T).
Local Notation ewf_e := (ewf_e dg levels).
Local Notation pair_ok := (pair_ok T ks).
Local Notation pairs_ok := (pairs_ok T ks).
Local Notation pairs := (pairs T ks).
Local Notation set_elems := (set_elems dg levels M limit).
Local Notation remove_elems := (remove_elems dg levels).
Local Notation n_set := (n_set dg levels M limit c).
Local Notation n_remove := (n_remove dg levels c).
Local Notation n_set_ck := (n_set_ck dg levels M limit c).
Local Notation n_remove_ck := (n_remove_ck dg levels c).
Local Notation mwfn_0_inv := (MapRebalance_proofs.mwfn_0_inv dg levels T).
Local Notation mwfn_S_inv := (MapRebalance_proofs.mwfn_S_inv dg levels T HT Hlv).

Lemma leaf_set_no_wrap pfx h nx hks els k v alloc :
  ssorted hks -> Forall2 (ewf_e 0) hks els -> Forall (elem_ok c) els ->
  pairs_ok (flat_map to_list_e els) -> pair_ok (k, v) ->
  pfx + hk_recompute els + Emax c < two32 ->
  let es := HKey 0 hks els (hk_recompute els) in
  leaf_set_ck dg levels M limit pfx h nx es k v alloc = Some (leaf_set dg levels M limit pfx h nx es k v alloc).
Proof using HT Hlv.
  intros Hs HF He Hp Hkv HB es. subst es.
  pose proof (leaf_set_ok dg levels T HT Hlv limit ks pfx h nx hks els k v alloc Hs HF He Hp Hkv) as L.
  unfold leaf_set_ck, leaf_set.
  destruct (set_elems (op_fuel levels) (HKey 0 hks els (hk_recompute els)) 0 k v (alloc + 1))
    as [e|[[[g' prev] a'] evs]]; [reflexivity|].
  destruct L as (hks' & els' & -> & _ & _ & _ & _ & _ & Hsl). cbn [msize].
  rewrite uadd_ok by lia. reflexivity.
Qed.

Lemma leaf_remove_no_wrap pfx h nx hks els k :
  ssorted hks -> Forall2 (ewf_e 0) hks els -> Forall (elem_ok c) els ->
  pairs_ok (flat_map to_list_e els) ->
  pfx + hk_recompute els + Emax c < two32 ->
  let es := HKey 0 hks els (hk_recompute els) in
  leaf_remove_ck dg levels pfx h nx es k = Some (leaf_remove dg levels pfx h nx es k).
Proof using HT Hlv.
  intros Hs HF He Hp HB es. subst es.
  pose proof (leaf_remove_ok dg levels T HT Hlv 0 ks pfx h nx hks els k Hs HF He Hp) as L.
  unfold leaf_remove_ck, leaf_remove.
  destruct (remove_elems (op_fuel levels) (HKey 0 hks els (hk_recompute els)) 0 k)
    as [e|[[g' kvp] evs]]; [reflexivity|].
  destruct L as (hks' & els' & -> & _ & _ & _ & _ & _ & Hsl). cbn [msize].
  rewrite uadd_ok by lia. reflexivity.
Qed.

Lemma n_set_ck_MM pfx h hs cs k v alloc :
  n_set_ck pfx (MM h hs cs) k v alloc =
  match on_kth (fun ch => n_set_ck P ch k v alloc) cs (route_set hs (dg (kid k) 0)) with
  | None => Some (TErr TSlabNotFound)
  | Some None => None
  | Some (Some (TErr x)) => Some (TErr x)
  | Some (Some (TOk (ch', prev, alloc', lg))) =>
    match fix_child_ck c h hs cs (route_set hs (dg (kid k) 0)) ch' alloc' with
    | Some (TErr x) => Some (TErr x)
    | Some (TOk (n', alloc'', lg')) => Some (TOk (n', prev, alloc'', lg ++ lg'))
    | None => None
    end
  end.
Proof. reflexivity. Qed.

Lemma n_remove_ck_MM pfx h hs cs k alloc :
  n_remove_ck pfx (MM h hs cs) k alloc =
  match route_get hs (dg k 0) with
  | None => Some (TErr (TElem EKeyNotFound))
  | Some i =>
    match on_kth (fun ch => n_remove_ck P ch k alloc) cs i with
    | None => Some (TErr TSlabNotFound)
    | Some None => None
    | Some (Some (TErr x)) => Some (TErr x)
    | Some (Some (TOk (ch', kvp, alloc', lg))) =>
      match fix_child_ck c h hs cs i ch' alloc' with
      | Some (TErr x) => Some (TErr x)
      | Some (TOk (n', alloc'', lg')) => Some (TOk (n', kvp, alloc'', lg ++ lg'))
      | None => None
      end
    end
  end.
Proof. reflexivity. Qed.

(* a subtree inside the tree: well-formed, and its cached size at most maxThreshold (a child is
   inside the band, the root is split when above) *)
Theorem n_set_no_wrap : forall d n, mwfn d n -> kids2 n -> pairs n -> mh_size (hdr_of n) <= cmax c ->
  forall k v alloc, pair_ok (k, v) -> n_set_ck P n k v alloc = Some (n_set P n k v alloc).
Proof using HT Hlv.
  pose proof (cfg_u32 T HT) as (C1 & C2 & C3 & C4 & C5). cbv zeta in C1, C2, C3, C4, C5.
  induction d as [|d IH]; intros n Hw H2 Hp HX k v alloc Hkv.
  - destruct (mwfn_0_inv _ Hw) as (h & nx & hks & els & -> & Hs & HF & He & Hf & Hsz).
    unfold MapTreeOps_proofs.pairs in Hp. cbn [elems_flat g_elems hdr_of] in *.
    cbn [MapTree.n_set MB.n_set_ck]. apply leaf_set_no_wrap; auto. unfold two32 in *. unfold_msizes. lia.
  - destruct (mwfn_S_inv _ _ Hw) as (h & cs & -> & Hk & Hne & Hsz & Hf & Hs).
    cbn [kids2 hdr_of] in *. rewrite n_set_ck_MM, (n_set_MM dg levels T limit).
    destruct (route_split dg levels T HT Hlv d cs (dg (kid k) 0) Hk Hne Hs) as (pre & ch & post & -> & Hr & _).
    rewrite Hr, !on_kth_app.
    destruct Hk as (Hws & Hbs).
    destruct (kids_split dg levels T d pre ch post Hws Hbs) as (Kpre & Wch & Bch & Kpost).
    pose proof (in_band_kids2 dg levels T HT Hlv d ch Wch Bch) as K2.
    pose proof (pairs_mid dg levels T ks _ _ _ _ _ Hp) as Pch.
    rewrite (IH ch Wch K2 Pch (proj2 Bch) k v alloc Hkv).
    pose proof (n_set_ok dg levels T HT Hlv limit ks d ch Wch K2 Pch k v alloc Hkv) as L.
    destruct (MapElems.set_elems dg levels M limit (op_fuel levels) (gtree ch) 0 k v (alloc + 1))
      as [e|[[[g' prev] a'] evs]].
    + rewrite L. reflexivity.
    + destruct L as (ch' & alloc' & lg & En & _ & Wch' & _ & _ & Hsz').
      rewrite En.
      assert (Hhi : mh_size (hdr_of ch') <= cmax c + slack ch').
      { rewrite (slack_eq dg levels T d ch ch' Wch Wch'). destruct Bch as (_ & BX). lia. }
      rewrite (fix_child_no_wrap dg levels T HT Hlv d h pre ch ch' post alloc' Kpre Kpost Wch' Hsz Hhi)
        by (unfold two32 in *; unfold_msizes; lia).
      destruct (fix_child c h _ _ _ ch' alloc') as [[[n' a''] lg']|x]; reflexivity.
Qed.

Theorem n_remove_no_wrap : forall d n, mwfn d n -> kids2 n -> pairs n -> mh_size (hdr_of n) <= cmax c ->
  forall k alloc, n_remove_ck P n k alloc = Some (n_remove P n k alloc).
Proof using HT Hlv.
  pose proof (cfg_u32 T HT) as (C1 & C2 & C3 & C4 & C5). cbv zeta in C1, C2, C3, C4, C5.
  induction d as [|d IH]; intros n Hw H2 Hp HX k alloc.
  - destruct (mwfn_0_inv _ Hw) as (h & nx & hks & els & -> & Hs & HF & He & Hf & Hsz).
    unfold MapTreeOps_proofs.pairs in Hp. cbn [elems_flat g_elems hdr_of] in *.
    cbn [MapTree.n_remove MB.n_remove_ck]. rewrite leaf_remove_no_wrap; auto; [|unfold two32 in *; unfold_msizes; lia].
    destruct (leaf_remove _ _ _ _ _ _ _) as [[[n' kvp] lg]|x]; reflexivity.
  - destruct (mwfn_S_inv _ _ Hw) as (h & cs & -> & Hk & Hne & Hsz & Hf & Hs).
    cbn [kids2 hdr_of] in *. rewrite n_remove_ck_MM, (n_remove_MM dg levels T).
    destruct (route_split dg levels T HT Hlv d cs (dg k 0) Hk Hne Hs) as (pre & ch & post & -> & Hr & _ & _ & [Hg|(Hg & _)]);
      rewrite Hg; [|reflexivity].
    rewrite !on_kth_app.
    destruct Hk as (Hws & Hbs).
    destruct (kids_split dg levels T d pre ch post Hws Hbs) as (Kpre & Wch & Bch & Kpost).
    pose proof (in_band_kids2 dg levels T HT Hlv d ch Wch Bch) as K2.
    pose proof (pairs_mid dg levels T ks _ _ _ _ _ Hp) as Pch.
    rewrite (IH ch Wch K2 Pch (proj2 Bch) k alloc).
    pose proof (n_remove_ok dg levels T HT Hlv 0 ks d ch Wch K2 Pch k alloc) as L.
    destruct (MapElems.remove_elems dg levels (op_fuel levels) (gtree ch) 0 k)
      as [e|[[g' kvp] evs]].
    + rewrite L. reflexivity.
    + destruct L as (ch' & alloc' & lg & En & _ & Wch' & _ & _ & Hsz').
      rewrite En.
      assert (Hhi : mh_size (hdr_of ch') <= cmax c + slack ch').
      { rewrite (slack_eq dg levels T d ch ch' Wch Wch'). destruct Bch as (_ & BX). lia. }
      rewrite (fix_child_no_wrap dg levels T HT Hlv d h pre ch ch' post alloc' Kpre Kpost Wch' Hsz Hhi)
        by (unfold two32 in *; unfold_msizes; lia).
      destruct (fix_child c h _ _ _ ch' alloc') as [[[n' a''] lg']|x]; reflexivity.
Qed.

End WithT4.

(** ** Level 5: the OrderedMap (map.go: promoteChildAsNewRoot, splitRoot, set, remove, PopIterate) *)
Section twins5.
  Variable dg : N -> nat -> N.
  Variable levels : nat.
  Variable max_inline_elem : N.
  Variable limit : N.
  Variable c : cfg.

  (* promoteChildAsNewRoot: dataSlab.header.size - mapDataSlabPrefixSize + mapRootDataSlabPrefixSize *)
  Definition promote_if_single_ck (t : mtree) : option (mtree * wlog) :=
    match t_root t with
    | MM h [_] [ch] =>
      let rootid := mh_id h in
      ch' <- match ch with
             | MD hh nx es => d <- usub (mh_size hh) P ;; s <- uadd d RP ;; Some (MD (mkmhdr rootid s (mh_first hh)) nx es)
             | MM hh hs cs => Some (MM (mkmhdr rootid (mh_size hh) (mh_first hh)) hs cs)
             end ;;
      Some (mkmt ch' (t_alloc t) (t_count t), [WStore rootid; WRemove (mh_id (hdr_of ch))])
    | _ => Some (t, [])
    end.

  (* splitRoot: header.size - mapRootDataSlabPrefixSize + mapDataSlabPrefixSize;
     mapMetaDataSlabPrefixSize + mapSlabHeaderSize*2.  The slab indices id1, id1 + 1 are uint64
     counters of GenerateSlabID: not instrumented. *)
  Definition split_root_ck (t : mtree) : option (tres mtree * wlog) :=
    let rootid := t_rootid t in
    old <- match t_root t with
           | MD h nx es => d <- usub (mh_size h) RP ;; s <- uadd d P ;; Some (MD (mkmhdr (mh_id h) s (mh_first h)) nx es)
           | n => Some n
           end ;;
    let id1 := t_alloc t + 1 in
    x <- n_split_ck (set_id old id1) (id1 + 1) ;;
    match x with
    | TErr e => Some (TErr e, [])
    | TOk (l, r) =>
      h2 <- umul HS 2 ;; s <- uadd PM h2 ;;
      Some (TOk (mkmt (MM (mkmhdr rootid s (mh_first (hdr_of l))) [hdr_of l; hdr_of r] [l; r])
                      (id1 + 1) (t_count t)),
            [WStore (mh_id (hdr_of l)); WStore (mh_id (hdr_of r)); WStore rootid])
    end.

  Definition fix_root_ck (t : mtree) : option (tres mtree * wlog) :=
    '(t1, lg1) <- promote_if_single_ck t ;;
    if n_is_full c (t_root t1) then
      '(r, lg2) <- split_root_ck t1 ;; Some (r, lg1 ++ lg2)
    else Some (TOk t1, lg1).

  (* MapExtraData.Count is a uint64: incrementCount (m.Count++) would need 2^64 - 1 stored pairs
     to wrap and is NOT instrumented; decrementCount (m.Count--) is: [usub] reports a decrement
     of a zero count *)
  Definition mt_set_ck (t : mtree) (k v : kv) : option (mtree * mout * wlog) :=
    x <- n_set_ck dg levels max_inline_elem limit c RP (t_root t) k v (t_alloc t) ;;
    match x with
    | TErr e => Some (t, terr_out e, [])
    | TOk (r', prev, alloc', lg) =>
      let t1 := mkmt r' alloc' (match prev with None => t_count t + 1 | Some _ => t_count t end) in
      y <- fix_root_ck t1 ;;
      match y with
      | (TErr e, _) => Some (t, terr_out e, [])
      | (TOk t2, lg2) => Some (t2, RPrev prev, lg ++ lg2)
      end
    end.

  Definition mt_remove_ck (t : mtree) (k : N) : option (mtree * mout * wlog) :=
    x <- n_remove_ck dg levels c RP (t_root t) k (t_alloc t) ;;
    match x with
    | TErr e => Some (t, terr_out e, [])
    | TOk (r', (k0, v0), alloc', lg) =>
      cnt <- usub (t_count t) 1 ;;
      let t1 := mkmt r' alloc' cnt in
      y <- fix_root_ck t1 ;;
      match y with
      | (TErr e, _) => Some (t, terr_out e, [])
      | (TOk t2, lg2) => Some (t2, RPair k0 v0, lg ++ lg2)
      end
    end.

  (* PopIterate: size: prefixSize + hkeyElementsPrefixSize *)
  Definition mt_pop_ck (t : mtree) : option (mtree * mout * wlog) :=
    let '(d, evs) := n_pop (t_root t) in
    s <- uadd RP HP ;;
    Some (mkmt (MD (mkmhdr (t_rootid t) s 0) 0 (HKey 0 [] [] HP)) (t_alloc t) 0, RList d, evs ++ [WStore (t_rootid t)]).

  (* the read-only operations (Get, Has, Count, Iterate, the mutable iterator) do no uint32
     arithmetic on sizes *)
  Definition mt_step_ck (t : mtree) (o : mop) : option (mtree * mout * wlog) :=
    match o with
    | OSet k v => mt_set_ck t k v
    | ORemove k => mt_remove_ck t k
    | OPop => mt_pop_ck t
    | _ => Some (mt_step dg levels max_inline_elem limit c t o)
    end.

  Fixpoint mt_run_ck (t : mtree) (ops : list mop) : option (mtree * list mout) :=
    match ops with
    | [] => Some (t, [])
    | o :: r => '(t1, x, _) <- mt_step_ck t o ;; '(t2, xs) <- mt_run_ck t1 r ;; Some (t2, x :: xs)
    end.
End twins5.

Lemma mt_pop_no_wrap t : mt_pop_ck t = Some (mt_pop t).
Proof.
  unfold mt_pop_ck, mt_pop, empty_root. destruct (n_pop (t_root t)) as [d evs].
  rewrite uadd_ok by (unfold two32; unfold_msizes; lia). reflexivity.
Qed.

Section WithT5.
Variable dg : N -> nat -> N.
Variable levels : nat.
Variable T : N.
Hypothesis HT : valid_T T.
Hypothesis Hlv : (0 < levels)%nat.
Local Notation c := (set_threshold T).
Local Notation M := (cinl_melem (set_threshold T)).
Local Notation mwfn := (mwfn dg levels c).
Local Notation mwf_root := (mwf_root dg levels c).
Local Notation in_band := (in_band c).
Local Notation root_mid := (root_mid dg levels T).
Local Notation n_remove := (n_remove dg levels c).
Local Notation n_remove_ck := (n_remove_ck dg levels c).
Local Notation mwfn_0_inv := (MapRebalance_proofs.mwfn_0_inv dg levels T).
Local Notation mwfn_S_inv := (MapRebalance_proofs.mwfn_S_inv dg levels T HT Hlv).

(* what the root looks like when splitRoot may run: a root data slab (prefix RP) or a well-formed
   index slab, at most one element / one header above the maximum *)
Inductive root_shape : mnode -> Prop :=
| rs_leaf h nx lv hks els :
    mh_size h = RP + hk_recompute els -> mh_size h + P < two32 ->
    root_shape (MD h nx (HKey lv hks els (hk_recompute els)))
| rs_index d h hs cs :
    mwfn (S d) (MM h hs cs) -> mh_size h < two32 -> root_shape (MM h hs cs).

Lemma split_root_no_wrap t : root_shape (t_root t) -> split_root_ck t = Some (split_root t).
Proof using HT Hlv.
  destruct t as [r a cnt]. cbn [t_root]. intros H. destruct H as [h nx lv hks els Hz HB|d h hs cs Hw HB].
  - unfold split_root_ck, split_root. cbn [t_root t_alloc t_count t_rootid hdr_of]. pose proof (hkr els) as Z.
    ck_arith. cbn [set_id mh_size mh_first mh_id].
    rewrite n_split_data_no_wrap by ubound.
    destruct (n_split _ _) as [[l r]|e]; [|reflexivity]. ck_arith. reflexivity.
  - unfold split_root_ck, split_root. cbn [t_root t_alloc t_count t_rootid hdr_of]. cbv beta iota zeta.
    destruct (mwfn_set_id dg levels T HT Hlv (S d) _ (a + 1) Hw) as (Wi & _ & _ & _ & Zi & _).
    rewrite (n_split_no_wrap dg levels T HT Hlv (S d)); [|exact Wi|rewrite Zi; exact HB].
    destruct (n_split _ _) as [[l r]|e]; [|reflexivity]. ck_arith. reflexivity.
Qed.

Lemma promote_no_wrap r' a cnt : root_mid r' ->
  promote_if_single_ck (mkmt r' a cnt) = Some (promote_if_single (mkmt r' a cnt)) /\
  root_shape (t_root (fst (promote_if_single (mkmt r' a cnt)))).
Proof using HT Hlv.
  pose proof (cfg_u32 T HT) as (C1 & C2 & C3 & C4 & C5). cbv zeta in C1, C2, C3, C4, C5.
  intros Hm. destruct Hm as [h hks els Hs HF He Hf Hz Hx|d h hs cs Hw Hx Hln].
  - split; [reflexivity|]. cbn [promote_if_single t_root fst]. apply rs_leaf; [exact Hz|]. unfold two32 in *. unfold_msizes. lia.
  - destruct (mwfn_S_inv _ _ Hw) as (h0 & cs0 & E & Hk & Hne & Hz & _). injection E as <- -> <-.
    destruct cs as [|ch [|c2 cs']]; [congruence| |].
    + cbn [map] in *. unfold promote_if_single_ck, promote_if_single. cbn [t_root t_alloc t_count].
      destruct Hk as (Hws & Hbs). pose proof (Forall_inv Hws) as Wch. pose proof (Forall_inv Hbs) as (Bm & BX).
      destruct d as [|d].
      * destruct (mwfn_0_inv _ Wch) as (hh & nx & hks & els & -> & _ & _ & _ & _ & Hz').
        pose proof (hkr els) as Z. cbn [hdr_of] in *. ck_arith. split; [reflexivity|].
        cbn [fst t_root]. apply rs_leaf; cbn [mh_size]; unfold two32 in *; unfold_msizes; lia.
      * destruct (mwfn_S_inv _ _ Wch) as (hh & cs2 & -> & _). cbn [hdr_of] in *.
        split; [reflexivity|]. cbn [fst t_root].
        change (MM (mkmhdr (mh_id h) (mh_size hh) (mh_first hh)) (map hdr_of cs2) cs2)
          with (set_id (MM hh (map hdr_of cs2) cs2) (mh_id h)).
        destruct (mwfn_set_id dg levels T HT Hlv (S d) _ (mh_id h) Wch) as (Wi & _ & _ & _ & Zi & _).
        cbn [set_id] in *. apply rs_index with d; [exact Wi|]. cbn [mh_size]. unfold two32 in *. lia.
    + split; [reflexivity|]. cbn [promote_if_single t_root fst map]. apply rs_index with d; [exact Hw|].
      unfold two32 in *. unfold_msizes. lia.
Qed.

Lemma fix_root_no_wrap r' a cnt : root_mid r' ->
  fix_root_ck c (mkmt r' a cnt) = Some (fix_root c (mkmt r' a cnt)).
Proof using HT Hlv.
  intros Hm. unfold fix_root_ck, fix_root. destruct (promote_no_wrap r' a cnt Hm) as (E & Hs). rewrite E.
  destruct (promote_if_single (mkmt r' a cnt)) as [t1 lg1]. cbn [fst] in Hs.
  destruct (n_is_full c (t_root t1)); [|reflexivity].
  rewrite split_root_no_wrap by exact Hs. destruct (split_root t1) as [r lg2]. reflexivity.
Qed.

Variable limit : N.
Variable ks : N -> N.
Local Notation pair_ok := (pair_ok T ks).
Local Notation pairs := (pairs T ks).
Local Notation minv := (minv dg levels T ks).
Local Notation mop_ok := (mop_ok T ks).
Local Notation n_set := (n_set dg levels M limit c).
Local Notation n_set_ck := (n_set_ck dg levels M limit c).
Local Notation mt_step := (mt_step dg levels M limit c).
Local Notation mt_step_ck := (mt_step_ck dg levels M limit c).
Local Notation mt_run := (mt_run dg levels M limit c).
Local Notation mt_run_ck := (mt_run_ck dg levels M limit c).

(* the recursive operation on the root: the root data slab has prefix RP, a root index slab is an
   ordinary well-formed index slab with at least two children and at most maxThreshold bytes *)
Lemma root_set_no_wrap r k v alloc : mwf_root r -> pairs r -> pair_ok (k, v) ->
  n_set_ck RP r k v alloc = Some (n_set RP r k v alloc).
Proof using HT Hlv.
  pose proof (cfg_u32 T HT) as (C1 & C2 & C3 & C4 & C5). cbv zeta in C1, C2, C3, C4, C5.
  intros Hr Hp Hkv.
  destruct (mwf_root_cases dg levels T r Hr) as [(h & hks & els & -> & Hs & HF & He & Hf & Hz & Hx)|(d & h & hs & cs & -> & Hw & H2 & Hx)].
  - unfold MapTreeOps_proofs.pairs in Hp. cbn [elems_flat g_elems] in Hp.
    cbn [MapTree.n_set MB.n_set_ck]. apply (leaf_set_no_wrap dg levels T HT Hlv limit ks); auto.
    unfold two32 in *. unfold_msizes. lia.
  - change (n_set_ck RP (MM h hs cs) k v alloc) with (n_set_ck P (MM h hs cs) k v alloc).
    change (n_set RP (MM h hs cs) k v alloc) with (n_set P (MM h hs cs) k v alloc).
    apply (n_set_no_wrap dg levels T HT Hlv limit ks (S d)); auto.
Qed.

Lemma root_remove_no_wrap r k alloc : mwf_root r -> pairs r ->
  n_remove_ck RP r k alloc = Some (n_remove RP r k alloc).
Proof using HT Hlv.
  pose proof (cfg_u32 T HT) as (C1 & C2 & C3 & C4 & C5). cbv zeta in C1, C2, C3, C4, C5.
  intros Hr Hp.
  destruct (mwf_root_cases dg levels T r Hr) as [(h & hks & els & -> & Hs & HF & He & Hf & Hz & Hx)|(d & h & hs & cs & -> & Hw & H2 & Hx)].
  - unfold MapTreeOps_proofs.pairs in Hp. cbn [elems_flat g_elems] in Hp.
    cbn [MapTree.n_remove MB.n_remove_ck].
    rewrite (leaf_remove_no_wrap dg levels T HT Hlv ks); auto; [|unfold two32 in *; unfold_msizes; lia].
    destruct (leaf_remove _ _ _ _ _ _ _) as [[[n' kvp] lg]|x]; reflexivity.
  - change (n_remove_ck RP (MM h hs cs) k alloc) with (n_remove_ck P (MM h hs cs) k alloc).
    change (n_remove RP (MM h hs cs) k alloc) with (n_remove P (MM h hs cs) k alloc).
    apply (n_remove_no_wrap dg levels T HT Hlv ks (S d)); auto.
Qed.

Theorem mt_set_no_wrap t k v : minv t -> pair_ok (k, v) ->
  mt_set_ck dg levels M limit c t k v = Some (mt_set dg levels M limit c t k v).
Proof using HT Hlv.
  intros Hi Hkv. destruct (minv_state dg levels T HT Hlv limit ks t Hi) as (_ & _ & _ & Hp).
  destruct Hi as ((Hr & Hc) & Hln & Hpp).
  unfold mt_set_ck, mt_set. rewrite (root_set_no_wrap _ k v (t_alloc t) Hr Hp Hkv).
  pose proof (root_set_ok dg levels T HT Hlv limit ks (t_root t) k v (t_alloc t) Hr Hln Hp Hkv) as L.
  destruct (MapElems.set_elems dg levels M limit (op_fuel levels) (gtree (t_root t)) 0 k v (t_alloc t + 1))
    as [e|[[[g' prev] a'] evs]].
  - rewrite L. reflexivity.
  - destruct L as (r' & alloc' & lg & En & _ & Hm & _). rewrite En.
    rewrite (fix_root_no_wrap r' alloc' _ Hm).
    destruct (fix_root c _) as [[t2|x] lg2]; reflexivity.
Qed.

Theorem mt_remove_no_wrap t k : minv t ->
  mt_remove_ck dg levels c t k = Some (mt_remove dg levels c t k).
Proof using HT Hlv.
  intros Hi. destruct (minv_state dg levels T HT Hlv 0 ks t Hi) as ((Hw & _) & Er & Etl & Hp).
  destruct Hi as ((Hr & Hc) & Hln & Hpp).
  unfold mt_remove_ck, mt_remove. rewrite (root_remove_no_wrap _ k (t_alloc t) Hr Hp).
  pose proof (root_remove_ok dg levels T HT Hlv 0 ks (t_root t) k (t_alloc t) Hr Hln Hp) as L.
  destruct (remove_spec dg levels 0 (op_fuel levels)) as [_ RG].
  unfold ewf in Hw. rewrite Er in Hw.
  specialize (RG (gtree (t_root t)) 0%nat k ltac:(unfold op_fuel; lia) Hw).
  destruct (d_get (to_list (gtree (t_root t))) k) as [[k0 v0]|] eqn:D.
  - destruct RG as (g' & evs & Eq & _). rewrite Eq in L.
    destruct L as (r' & alloc' & lg & En & _ & Hm & _). rewrite En.
    assert (Hc1 : 1 <= t_count t).
    { rewrite Hc, Etl. pose proof (d_remove_length _ _ _ D). lia. }
    rewrite usub_ok by exact Hc1.
    rewrite (fix_root_no_wrap r' alloc' _ Hm).
    destruct (fix_root c _) as [[t2|x] lg2]; reflexivity.
  - rewrite RG in L. rewrite L. reflexivity.
Qed.

(** the step theorem: under the map invariant no uint32 expression evaluated by one operation
    wraps, the element count is not decremented below zero, and the model's result is the result of
    the instrumented computation *)
Theorem mt_step_no_wrap t o : minv t -> mop_ok o -> mt_step_ck t o = Some (mt_step t o).
Proof using HT Hlv.
  intros Hi Ho. destruct o as [k v|k|k|k| | | |]; cbn [MB.mt_step_ck MapTree.mt_step]; try reflexivity.
  - apply mt_set_no_wrap; assumption.
  - apply mt_remove_no_wrap; assumption.
  - apply mt_pop_no_wrap.
Qed.

Theorem mt_run_no_wrap : forall ops t, minv t -> Forall mop_ok ops -> mt_run_ck t ops = Some (mt_run t ops).
Proof using HT Hlv.
  induction ops as [|o ops IH]; intros t Hi Hops; cbn [MB.mt_run_ck MapTree.mt_run]; [reflexivity|].
  pose proof (Forall_inv Hops) as Ho. pose proof (Forall_inv_tail Hops) as Hops'.
  rewrite (mt_step_no_wrap t o Hi Ho).
  pose proof (mt_step_ok dg levels T HT Hlv limit ks t o Hi Ho) as St.
  destruct (mt_step t o) as [[t1 x] lg]. destruct (m_step dg levels M limit (mstate_of_tree t) o) as [[s1 y] evs].
  destruct St as (_ & _ & _ & Hi1 & _).
  rewrite (IH t1 Hi1 Hops'). destruct (mt_run t1 ops) as [t2 xs]. reflexivity.
Qed.

(** every history from the empty map whose Set arguments respect the inline limits: the
    instrumented run returns the model's run (no step wraps) ... *)
Theorem map_reachable_no_wrap rootid ops : Forall mop_ok ops ->
  mt_run_ck (fst (mt_init rootid)) ops = Some (mt_run (fst (mt_init rootid)) ops).
Proof using HT Hlv.
  intros Hops. apply mt_run_no_wrap; [|exact Hops]. apply (minv_empty dg levels T HT Hlv ks rootid rootid).
Qed.

(** ... and, step by step: at every state reached, the next operation's twin returns the model's step *)
Lemma mt_run_minv : forall ops t, minv t -> Forall mop_ok ops -> minv (fst (mt_run t ops)).
Proof using HT Hlv.
  intros ops t Hi Hops. pose proof (mt_run_refines dg levels T HT Hlv limit ks ops t Hi Hops) as H.
  destruct (mt_run t ops) as [t' outs]. destruct (d_run dg levels limit _ ops) as [d' outs'].
  cbn [fst]. apply H.
Qed.

Theorem map_reachable_step_no_wrap rootid pre o post : Forall mop_ok (pre ++ o :: post) ->
  let t := fst (mt_run (fst (mt_init rootid)) pre) in
  mt_step_ck t o = Some (mt_step t o).
Proof using HT Hlv.
  intros Hops t. apply Forall_app in Hops. destruct Hops as (Hpre & Hrest).
  apply mt_step_no_wrap; [|exact (Forall_inv Hrest)].
  subst t. apply mt_run_minv; [|exact Hpre]. apply (minv_empty dg levels T HT Hlv ks rootid rootid).
Qed.

End WithT5.

(** ** Examples at T = 256 (min 128, max 384, inline element limit 107): every pair costs 58 bytes
    (1 + 9 + 40 + 8); digests dg k 0 = 10 k *)
Definition xdg (k : N) (l : nat) : N := match l with O => 10 * k | _ => k end.
Definition xc := set_threshold 256.
Definition xe (a : N) : melem := ESingle (mkkv a 9) (mkkv (100 + a) 40).
Definition xleaf (id nx : N) (ks : list N) : mnode :=
  MD (mkmhdr id (P + HP + 58 * N.of_nat (length ks)) (hd 0 (map (N.mul 10) ks))) nx
     (HKey 0 (map (N.mul 10) ks) (map xe ks) (HP + 58 * N.of_nat (length ks))).
Definition xidx (id : N) (cs : list mnode) : mnode :=
  MM (mkmhdr id (PM + HS * N.of_nat (length cs)) (hfirst (map hdr_of cs))) (map hdr_of cs) cs.

(* Level 2: a full leaf (7 pairs, 432 bytes) splits 4 + 3; a leaf of 4 pairs lends to / a leaf of 1
   pair borrows; merge; the index predicates *)
Example level2_some :
  (exists lr, n_split_ck (xleaf 2 0 [1;2;3;4;5;6;7]) 9 = Some (TOk lr) /\ n_split (xleaf 2 0 [1;2;3;4;5;6;7]) 9 = TOk lr) /\
  n_can_lend_to_right_ck xc (xleaf 2 3 [1;2;3;4]) 44 = Some true /\
  n_can_lend_to_left_ck xc (xleaf 2 3 [1;2]) 44 = Some false /\
  (exists lr, n_lend_to_right_ck xc (xleaf 2 3 [1;2;3;4]) (xleaf 3 0 [5]) = Some (TOk lr)) /\
  (exists lr, n_borrow_from_right_ck xc (xleaf 2 3 [1]) (xleaf 3 0 [5;6;7;8]) = Some (TOk lr)) /\
  (exists m, n_merge_ck (xleaf 2 3 [1;2]) (xleaf 3 0 [5]) = Some (TOk m)) /\
  m_can_lend_ck xc (mkmhdr 1 (PM + 14 * HS) 0) (cmin xc - (PM + 5 * HS)) = Some true /\
  n_underflow_ck xc (xleaf 3 0 [5]) = Some (Some 44).
Proof. vm_compute. repeat split; eexists; try split; reflexivity. Qed.

(* the twins detect a wrap when the hypothesis fails: a request above the cached size; a cached
   elements size below the real one (truncated subtraction in the model, wrap-around in Go); a
   cached size below the prefix *)
Example level2_none :
  n_can_lend_to_left_ck xc (xleaf 2 3 [1;2;3;4]) 300 = None /\
  n_split_ck (MD (mkmhdr 2 78 10) 0 (HKey 0 (map (N.mul 10) [1;2;3;4;5;6;7]) (map xe [1;2;3;4;5;6;7]) 60)) 9 = None /\
  n_merge_ck (xleaf 2 3 [1;2]) (MD (mkmhdr 3 20 50) 0 (HKey 0 [50] [xe 5] 2)) = None.
Proof. vm_compute. repeat split; reflexivity. Qed.

(* Level 3: the second child underflows (84 < 128): its left sibling lends; a full child splits *)
Example level3_some :
  let cs := [xleaf 2 3 [1;2;3;4]; xleaf 3 0 [5;6]] in
  (exists r, fix_child_ck xc (hdr_of (xidx 1 cs)) (map hdr_of cs) cs 1 (xleaf 3 0 [5]) 3 = Some (TOk r) /\
             fix_child xc (hdr_of (xidx 1 cs)) (map hdr_of cs) cs 1 (xleaf 3 0 [5]) 3 = TOk r) /\
  (exists r, fix_child_ck xc (hdr_of (xidx 1 cs)) (map hdr_of cs) cs 1 (xleaf 3 0 [5;6;7;8;9;10;11]) 3 = Some (TOk r)).
Proof. vm_compute. repeat split; eexists; try split; reflexivity. Qed.
Example level3_none :
  let cs := [xleaf 2 3 [1;2]; xleaf 3 0 [5;6]] in
  merge_children_ck (mkmhdr 1 12 10) (map hdr_of cs) cs 0 (xleaf 2 3 [1;2]) (xleaf 3 0 [5]) = None.
Proof. vm_compute. reflexivity. Qed.

(* Level 4: Set through an index slab into a leaf of 6 pairs (374 bytes): the leaf splits *)
Example level4_some :
  let n := xidx 1 [xleaf 2 3 [1;2;3;4;5;6]; xleaf 3 0 [11;12;13]] in
  (exists r, n_set_ck xdg 4 107 255 xc P n (mkkv 7 9) (mkkv 107 40) 3 = Some (TOk r) /\
             n_set xdg 4 107 255 xc P n (mkkv 7 9) (mkkv 107 40) 3 = TOk r) /\
  (exists r, n_remove_ck xdg 4 xc P n 12 3 = Some (TOk r) /\ n_remove xdg 4 xc P n 12 3 = TOk r).
Proof. vm_compute. repeat split; eexists; split; reflexivity. Qed.
Example level4_none :
  n_set_ck xdg 4 107 255 xc P (MD (mkmhdr 2 4294967290 10) 0 (HKey 0 [10] [xe 1] 4294967272)) (mkkv 7 9) (mkkv 107 40) 3 = None.
Proof. vm_compute. reflexivity. Qed.

(* Level 5: a history from the empty map: 15 insertions (root split, leaf splits), removals (borrow,
   lend, merge), an overwrite, PopIterate; the hypotheses of [map_reachable_no_wrap] hold for it *)
Definition xops : list mop :=
  map (fun a => OSet (mkkv a 9) (mkkv (100 + a) 40)) [1;2;3;4;5;6;7;8;9;10;11;12;13;14;15] ++
  [ORemove 1; ORemove 2; ORemove 3; OCount; ORemove 9; OGet 5; ORemove 4; ORemove 5; ORemove 6;
   OSet (mkkv 7 9) (mkkv 300 60); OPop].
Example level5_hyps : valid_T 256 /\ (0 < 4)%nat /\ Forall (mop_ok 256 (fun _ => 9)) xops.
Proof.
  split; [vm_compute; split; discriminate|]. split; [lia|].
  unfold xops. cbn [map app].
  repeat (constructor; [first [exact I | split; [reflexivity|vm_compute; discriminate]]|]). constructor.
Qed.
Example level5_some :
  mt_run_ck xdg 4 107 255 xc (fst (mt_init 1)) xops = Some (mt_run xdg 4 107 255 xc (fst (mt_init 1)) xops) /\
  (exists t outs h hs c1 c2 c3 c4, mt_run_ck xdg 4 107 255 xc (fst (mt_init 1)) (firstn 22 xops) = Some (t, outs) /\
     t_root t = MM h hs [c1; c2; c3; c4] /\ t_count t = 10).
Proof. vm_compute. split; [reflexivity|]. do 8 eexists. repeat split; reflexivity. Qed.
(* a count that is not the number of stored pairs (invariant violated): Count-- wraps *)
Example level5_none :
  mt_remove_ck xdg 4 xc (mkmt (MD (mkmhdr 1 68 10) 0 (HKey 0 [10] [xe 1] 66)) 1 0) 1 = None.
Proof. vm_compute. reflexivity. Qed.


End MB.
