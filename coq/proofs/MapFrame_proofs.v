(* MapFrame_proofs.v — structural theorems of the MAP slab tree (MapTree.v / MapTreeInv.v /
   MapElems.v); the map analogue of ArrayFrame_proofs.v.

   G1  identifiers (C09):  [mids_step]   uniqueness and bounds of ALL slab indexes ([mslab_ids]: tree slabs
                           and external collision-group slabs at any depth of the element
                           structure), allocator monotone, root index constant, and the ACCOUNTING
                             mslab_ids(new tree) ++ slabs released by Storage.Remove
                               ==_perm  mslab_ids(old tree) ++ the freshly allocated indexes
                           (what Set / Remove / PopIterate hand back to the caller are (identity, size)
                           pairs [kv] in this model, never slabs: there is no "back" term);
                           [mgone_were_removed] (nothing leaked: e.g. a collapsed external group),
                           [mnew_are_fresh], [mreleased_were_owned]
   G2  frame (C03):        [mframe_step]  every slab that is not in the storeSlab/Remove log has exactly
                           the same OWN content ([mnode_at]); last event Store => present; last
                           event Remove => absent; new slabs are stored;
                           [mlog_no_store_after_remove]; [mfresh_ids_stored]
   G3  sibling links (C05/C13): [mchain_step] and the traversal theorem [mfollow_to_list];
                           [mfollow_is_dictionary] (with Map_proofs: canonical order)
   G4  PopIterate (C09):   [mpop_releases_all]
   G5  reachable maps:     [finv_init] [finv_run] [mfollow_reachable] and the [mreach_*] statements;
                           [mtwf_full_finv]: MapTreeInv.mtwf_full implies the invariant used here and
                           [mslab_ids] = MapTreeInv.slab_ids on well-formed trees

   Nothing before section 21 depends on byte sizes, digests or thresholds: the theorems hold for
   every configuration, every digest function and whatever an operation returns (on an error the
   map is unchanged and the log is empty).  The only structural side condition is [shape]: every
   hkeyElements has as many digests as elements, every index slab as many header copies as
   children and at least one child.  (Without it the model's Set on an hkeyElements with no digest
   but some elements would drop those elements; [shape] is implied by [mwf_root] and preserved by
   every operation.)

   Method.  One notion of "stage" ([xstage]: identifiers before/after, lookup by index before/after,
   allocator before/after, log) is used at the element level (one element, one elements list), at
   the node level and at the map level; stages are closed under composition ([xs_comp]), under
   embedding into a larger structure ([xs_lift]) and under "the owner is stored afterwards"
   ([xs_own]).  Set/Remove of the element level are stages by induction on the fuel ([set_ok],
   [rem_ok]: spill = allocate + store, collapse = store + remove); every successful n_set / n_remove
   is an [nstep] (one leaf update, then one local repair [pfix] of the parent per level, which
   replaces a segment of adjacent children: [seg_ok]); splitRoot, promoteChildAsNewRoot and
   PopIterate are stages of the map.  Permutation / NoDup goals are discharged by occurrence
   counting ([cnt], tactic [perm_solve]). *)
From Coq Require Import NArith ZArith List Bool Arith Lia ZifyBool ZifyN ZifyNat Permutation.
From AtreeGen Require Import Consts.
From AtreeModel Require Import Settings MapElems MapElemsInv MapTree MapTreeInv.
Import ListNotations.
Local Open Scope N_scope.

(** * 0. Induction principles for the nested types *)
Section mnode_ind.
  Variable Pn : mnode -> Prop.
  Hypothesis HD : forall h nx es, Pn (MD h nx es).
  Hypothesis HM : forall h hs cs, Forall Pn cs -> Pn (MM h hs cs).
  Fixpoint mnode_ind' (n : mnode) : Pn n :=
    match n with
    | MD h nx es => HD h nx es
    | MM h hs cs =>
      HM h hs cs ((fix go (l : list mnode) : Forall Pn l :=
                     match l with [] => Forall_nil _ | ch :: r => Forall_cons ch (mnode_ind' ch) (go r) end) cs)
    end.
End mnode_ind.

Section melem_ind.
  Variable Pe : melem -> Prop.
  Variable Pg : melems -> Prop.
  Hypothesis HS : forall k v, Pe (ESingle k v).
  Hypothesis HG : forall loc g, Pg g -> Pe (EGroup loc g).
  Hypothesis HH : forall l hks es sz, Forall Pe es -> Pg (HKey l hks es sz).
  Hypothesis HL : forall l kvs sz, Pg (SList l kvs sz).
  Fixpoint melem_ind' (e : melem) : Pe e :=
    match e with
    | ESingle k v => HS k v
    | EGroup loc g => HG loc g (melems_ind' g)
    end
  with melems_ind' (g : melems) : Pg g :=
    match g with
    | HKey l hks es sz =>
      HH l hks es sz ((fix go (es : list melem) : Forall Pe es :=
                         match es with [] => Forall_nil _ | e :: r => Forall_cons e (melem_ind' e) (go r) end) es)
    | SList l kvs sz => HL l kvs sz
    end.
  Lemma melem_melems_ind : (forall e, Pe e) /\ (forall g, Pg g).
  Proof. split; [exact melem_ind'|exact melems_ind']. Qed.
End melem_ind.

(** * 1. Multiset toolkit: Permutation / NoDup / In through occurrence counting *)

Definition cnt (l : list N) (x : N) : nat := count_occ N.eq_dec l x.
Definition one (a x : N) : nat := if N.eq_dec a x then 1%nat else 0%nat.

Lemma cnt_nil x : cnt [] x = 0%nat. Proof. reflexivity. Qed.
Lemma cnt_cons a l x : cnt (a :: l) x = (one a x + cnt l x)%nat.
Proof. unfold cnt, one. cbn [count_occ]. destruct (N.eq_dec a x); reflexivity. Qed.
Lemma cnt_app l1 l2 x : cnt (l1 ++ l2) x = (cnt l1 x + cnt l2 x)%nat.
Proof. apply count_occ_app. Qed.
Lemma one_le a x : (one a x <= 1)%nat.
Proof. unfold one. destruct (N.eq_dec a x); lia. Qed.
Lemma one_eq a : one a a = 1%nat.
Proof. unfold one. destruct (N.eq_dec a a); congruence. Qed.
Lemma one_neq a x : a <> x -> one a x = 0%nat.
Proof. unfold one. destruct (N.eq_dec a x); congruence. Qed.
Lemma one_pos a x : (0 < one a x)%nat -> a = x.
Proof. unfold one. destruct (N.eq_dec a x); [auto|lia]. Qed.

Lemma perm_cnt l1 l2 : Permutation l1 l2 <-> forall x, cnt l1 x = cnt l2 x.
Proof. apply (Permutation_count_occ N.eq_dec). Qed.
Lemma nodup_cnt l : NoDup l <-> forall x, (cnt l x <= 1)%nat.
Proof. apply (NoDup_count_occ N.eq_dec). Qed.
Lemma in_cnt l x : In x l <-> (0 < cnt l x)%nat.
Proof. unfold cnt. rewrite (count_occ_In N.eq_dec). lia. Qed.
Lemma notin_cnt l x : ~ In x l <-> cnt l x = 0%nat.
Proof. rewrite in_cnt. lia. Qed.

#[export] Hint Rewrite cnt_app cnt_cons cnt_nil : mcnt.
Ltac cnt_norm := autorewrite with mcnt in *.
Ltac cnt_hyps x :=
  repeat match goal with
         | H : Permutation _ _ |- _ => rewrite perm_cnt in H; specialize (H x)
         | H : NoDup _ |- _ => rewrite nodup_cnt in H; specialize (H x)
         | H : In x _ |- _ => rewrite in_cnt in H
         | H : ~ In x _ |- _ => rewrite notin_cnt in H
         end.
Ltac perm_solve :=
  match goal with
  | |- Permutation _ _ => apply perm_cnt; let x := fresh "x" in intro x; cnt_hyps x; cnt_norm; try lia
  | |- NoDup _ => apply nodup_cnt; let x := fresh "x" in intro x; cnt_hyps x; cnt_norm; try lia
  end.

(** fresh slab indexes: the k indexes following [a] *)
Fixpoint nseq (a : N) (k : nat) : list N :=
  match k with O => [] | S k' => (a + 1) :: nseq (a + 1) k' end.

Lemma nseq_app a k1 k2 : nseq a (k1 + k2) = nseq a k1 ++ nseq (a + N.of_nat k1) k2.
Proof.
  revert a; induction k1 as [|k1 IH]; intros a; cbn [nseq Nat.add app].
  - f_equal. lia.
  - rewrite IH. do 3 f_equal. lia.
Qed.
Lemma in_nseq x a k : In x (nseq a k) <-> a < x <= a + N.of_nat k.
Proof.
  revert a; induction k as [|k IH]; intros a; cbn [nseq In].
  - lia.
  - rewrite IH. lia.
Qed.
Lemma nodup_nseq a k : NoDup (nseq a k).
Proof.
  revert a; induction k as [|k IH]; intros a; cbn [nseq]; constructor; auto.
  rewrite in_nseq. lia.
Qed.
Lemma cnt_nseq_le a k x : (cnt (nseq a k) x <= 1)%nat.
Proof. apply nodup_cnt, nodup_nseq. Qed.
Lemma cnt_nseq_pos a k x : (0 < cnt (nseq a k) x)%nat -> a < x <= a + N.of_nat k.
Proof. rewrite <- in_cnt. apply in_nseq. Qed.

(** * 2. List helpers of the model *)

Lemma on_kth_spec {A B} (f : A -> B) l k : on_kth f l k = option_map f (nth_error l k).
Proof. revert k; induction l as [|a l IH]; intros [|k]; cbn; auto. Qed.

Lemma replace_nth_app {A} (pre : list A) x y post k :
  length pre = k -> replace_nth k y (pre ++ x :: post) = pre ++ y :: post.
Proof. intros <-. induction pre; cbn; [reflexivity|]. now rewrite IHpre. Qed.
Lemma insert_nth_app {A} (pre : list A) y post k :
  length pre = k -> insert_nth k y (pre ++ post) = pre ++ y :: post.
Proof. intros <-. induction pre; cbn; [destruct post; reflexivity|]. now rewrite IHpre. Qed.
Lemma remove_nth_app {A} (pre : list A) x post k :
  length pre = k -> remove_nth k (pre ++ x :: post) = pre ++ post.
Proof. intros <-. induction pre; cbn; [reflexivity|]. now rewrite IHpre. Qed.

Lemma replace_nth_app2 {A} (pre : list A) a x y post k :
  length pre = k -> replace_nth (S k) y (pre ++ a :: x :: post) = pre ++ a :: y :: post.
Proof.
  intros H. change (pre ++ a :: x :: post) with (pre ++ [a] ++ x :: post).
  rewrite app_assoc, replace_nth_app, <- app_assoc; [reflexivity|]. rewrite app_length; cbn; lia.
Qed.
Lemma insert_nth_app2 {A} (pre : list A) a y post k :
  length pre = k -> insert_nth (S k) y (pre ++ a :: post) = pre ++ a :: y :: post.
Proof.
  intros H. change (pre ++ a :: post) with (pre ++ [a] ++ post).
  rewrite app_assoc, insert_nth_app, <- app_assoc; [reflexivity|]. rewrite app_length; cbn; lia.
Qed.
Lemma remove_nth_app2 {A} (pre : list A) a x post k :
  length pre = k -> remove_nth (S k) (pre ++ a :: x :: post) = pre ++ a :: post.
Proof.
  intros H. change (pre ++ a :: x :: post) with (pre ++ [a] ++ x :: post).
  rewrite app_assoc, remove_nth_app, <- app_assoc; [reflexivity|]. rewrite app_length; cbn; lia.
Qed.

Lemma length_replace_nth {A} k (x : A) l : length (replace_nth k x l) = length l.
Proof. revert k; induction l as [|a l IH]; intros [|k]; cbn; auto. Qed.
Lemma length_insert_nth {A} k (x : A) l : length (insert_nth k x l) = S (length l).
Proof. revert l; induction k as [|k IH]; intros [|a l]; cbn; auto. Qed.
Lemma length_remove_nth {A} k (l : list A) : (k < length l)%nat -> length (remove_nth k l) = pred (length l).
Proof.
  revert k; induction l as [|a l IH]; intros [|k]; cbn; auto; try lia.
  intros H. rewrite IH by lia. destruct l; cbn in *; lia.
Qed.

Lemma replace_at_mid {A} (l1 l2 : list A) x y k :
  length l1 = k -> replace_at k y (l1 ++ x :: l2) = l1 ++ y :: l2.
Proof.
  intros <-. unfold replace_at. induction l1 as [|a l1 IH]; [reflexivity|].
  cbn [length app firstn skipn] in *. now rewrite IH.
Qed.
Lemma delete_at_mid {A} (l1 l2 : list A) x k :
  length l1 = k -> delete_at k (l1 ++ x :: l2) = l1 ++ l2.
Proof.
  intros <-. unfold delete_at. induction l1 as [|a l1 IH]; [reflexivity|].
  cbn [length app firstn skipn] in *. now rewrite IH.
Qed.

(** * 3. Logs *)

Definition removed (lg : wlog) : list N :=
  flat_map (fun w => match w with WRemove i => [i] | WStore _ => [] end) lg.
Definition stored (lg : wlog) : list N :=
  flat_map (fun w => match w with WStore i => [i] | WRemove _ => [] end) lg.
Lemma removed_app l1 l2 : removed (l1 ++ l2) = removed l1 ++ removed l2.
Proof. apply flat_map_app. Qed.
Lemma stored_app l1 l2 : stored (l1 ++ l2) = stored l1 ++ stored l2.
Proof. apply flat_map_app. Qed.
Lemma in_removed i lg : In i (removed lg) <-> In (WRemove i) lg.
Proof.
  unfold removed. rewrite in_flat_map. split.
  - intros ([j|j] & H1 & H2); cbn in H2; [tauto|]. destruct H2 as [->|[]]. exact H1.
  - intros H. exists (WRemove i). split; [exact H|now left].
Qed.
Lemma in_stored i lg : In i (stored lg) <-> In (WStore i) lg.
Proof.
  unfold stored. rewrite in_flat_map. split.
  - intros ([j|j] & H1 & H2); cbn in H2; [|tauto]. destruct H2 as [->|[]]. exact H1.
  - intros H. exists (WStore i). split; [exact H|now left].
Qed.

(* no store after a remove of the same index *)
Fixpoint sar_free (lg : wlog) : Prop :=
  match lg with
  | [] => True
  | WStore _ :: r => sar_free r
  | WRemove i :: r => ~ In i (stored r) /\ sar_free r
  end.

Lemma sar_free_app l1 l2 :
  sar_free (l1 ++ l2) <->
  sar_free l1 /\ sar_free l2 /\ (forall i, In i (removed l1) -> ~ In i (stored l2)).
Proof.
  induction l1 as [|[i|i] r IH]; cbn [app sar_free].
  - cbn. intuition.
  - rewrite IH. change (removed (WStore i :: r)) with (removed r). tauto.
  - rewrite IH, stored_app, in_app_iff. change (removed (WRemove i :: r)) with (i :: removed r).
    cbn [In]. split.
    + intros (Hn & H1 & H2 & H3). repeat split; auto. intros j [<-|Hj]; auto.
    + intros ((Hn & H1) & H2 & H3). repeat split; auto. intros [?|?]; [auto|]. apply (H3 i); auto.
Qed.

Lemma sar_no_removes lg : removed lg = [] -> sar_free lg.
Proof. induction lg as [|[i|i] r IH]; cbn; [auto|auto|discriminate]. Qed.
Lemma sar_no_stores lg : stored lg = [] -> sar_free lg.
Proof.
  induction lg as [|[i|i] r IH]; cbn [sar_free]; [auto|discriminate|].
  change (stored (WRemove i :: r)) with (stored r). intros E. rewrite E. split; [tauto|auto].
Qed.

Inductive ev : Type := EvStore | EvRemove.
Fixpoint last_ev (lg : wlog) (id : N) : option ev :=
  match lg with
  | [] => None
  | w :: r =>
    match last_ev r id with
    | Some e => Some e
    | None => match w with
              | WStore i => if i =? id then Some EvStore else None
              | WRemove i => if i =? id then Some EvRemove else None
              end
    end
  end.

Lemma last_ev_none lg id : last_ev lg id = None <-> ~ In id (stored lg) /\ ~ In id (removed lg).
Proof.
  induction lg as [|[i|i] r IH]; cbn [last_ev].
  - cbn. tauto.
  - change (stored (WStore i :: r)) with (i :: stored r). change (removed (WStore i :: r)) with (removed r).
    cbn [In]. destruct (last_ev r id).
    + split; [discriminate|]. intros [H1 H2]. exfalso. assert (Some e = None) by (apply IH; tauto). discriminate.
    + destruct (N.eqb_spec i id); [split; [discriminate|tauto]|]. split; [|auto]. intros _.
      destruct IH as [IH _]. specialize (IH eq_refl). tauto.
  - change (stored (WRemove i :: r)) with (stored r). change (removed (WRemove i :: r)) with (i :: removed r).
    cbn [In]. destruct (last_ev r id).
    + split; [discriminate|]. intros [H1 H2]. exfalso. assert (Some e = None) by (apply IH; tauto). discriminate.
    + destruct (N.eqb_spec i id); [split; [discriminate|tauto]|]. split; [|auto]. intros _.
      destruct IH as [IH _]. specialize (IH eq_refl). tauto.
Qed.

Lemma last_ev_remove lg id : last_ev lg id = Some EvRemove -> In id (removed lg).
Proof.
  induction lg as [|[i|i] r IH]; cbn [last_ev]; [discriminate| |].
  - change (removed (WStore i :: r)) with (removed r).
    destruct (last_ev r id); [auto|]. destruct (i =? id); discriminate.
  - change (removed (WRemove i :: r)) with (i :: removed r). cbn [In].
    destruct (last_ev r id); [auto|]. destruct (N.eqb_spec i id); [auto|discriminate].
Qed.

Lemma last_ev_store lg id :
  last_ev lg id = Some EvStore -> In id (stored lg) /\ (sar_free lg -> ~ In id (removed lg)).
Proof.
  induction lg as [|[i|i] r IH]; cbn [last_ev sar_free]; [discriminate| |].
  - change (removed (WStore i :: r)) with (removed r). change (stored (WStore i :: r)) with (i :: stored r).
    cbn [In]. destruct (last_ev r id) eqn:E.
    + intros H. destruct (IH H). auto.
    + apply last_ev_none in E. destruct (N.eqb_spec i id); [|discriminate]. intros _. tauto.
  - change (removed (WRemove i :: r)) with (i :: removed r). change (stored (WRemove i :: r)) with (stored r).
    cbn [In]. destruct (last_ev r id) eqn:E.
    + intros H. destruct (IH H) as [H1 H2]. split; [auto|]. intros [Hn Hs] [<-|Hr]; [auto|]. now apply H2.
    + destruct (i =? id); discriminate.
Qed.

(** * 4. Accounting implies uniqueness and bounds *)

Definition bnd (alloc : N) (l : list N) : Prop := Forall (fun i => 0 < i /\ i <= alloc) l.

Lemma nodup_app_nseq A alloc k : NoDup A -> bnd alloc A -> NoDup (A ++ nseq alloc k).
Proof.
  intros HN HB. apply nodup_cnt. intros x. rewrite cnt_app.
  rewrite nodup_cnt in HN. specialize (HN x). pose proof (cnt_nseq_le alloc k x) as H2.
  destruct (Nat.eq_dec (cnt (nseq alloc k) x) 0) as [E|E]; [lia|].
  assert (H3 : (0 < cnt (nseq alloc k) x)%nat) by lia. apply cnt_nseq_pos in H3.
  destruct (Nat.eq_dec (cnt A x) 0) as [E'|E']; [lia|].
  assert (H4 : In x A) by (apply in_cnt; lia). unfold bnd in HB. rewrite Forall_forall in HB. apply HB in H4. lia.
Qed.

Lemma acct_nodup A A' R alloc k :
  Permutation (A' ++ R) (A ++ nseq alloc k) -> NoDup A -> bnd alloc A ->
  NoDup (A' ++ R) /\ bnd (alloc + N.of_nat k) (A' ++ R).
Proof.
  intros HP HN HB. split.
  - eapply Permutation_NoDup; [symmetry; exact HP|]. now apply nodup_app_nseq.
  - apply Forall_forall. intros x Hx. eapply Permutation_in in Hx; [|exact HP].
    apply in_app_or in Hx as [Hx|Hx].
    + unfold bnd in HB. rewrite Forall_forall in HB. apply HB in Hx. lia.
    + apply in_nseq in Hx. lia.
Qed.

Lemma nodup_app_disj (A B : list N) x : NoDup (A ++ B) -> In x A -> ~ In x B.
Proof.
  intros HN HA HB. rewrite nodup_cnt in HN. specialize (HN x). rewrite cnt_app in HN.
  rewrite in_cnt in HA, HB. lia.
Qed.

Lemma nodup_app_l (A B : list N) : NoDup (A ++ B) -> NoDup A.
Proof. rewrite !nodup_cnt. intros H x. specialize (H x). cnt_norm. lia. Qed.
Lemma nodup_app_r (A B : list N) : NoDup (A ++ B) -> NoDup B.
Proof. rewrite !nodup_cnt. intros H x. specialize (H x). cnt_norm. lia. Qed.

Lemma bnd_perm a A B : Permutation A B -> bnd a B -> bnd a A.
Proof. intros HP HB. unfold bnd in *. rewrite Forall_forall in *. intros x Hx. apply HB. eapply Permutation_in; eauto. Qed.
Lemma bnd_app a A B : bnd a (A ++ B) <-> bnd a A /\ bnd a B.
Proof. apply Forall_app. Qed.

(** * 5. Stages.  The content of one slab is a [shallow]: what the slab itself stores. *)

Inductive shallow : Type :=
| SD (h : mhdr) (next : N) (es : melems)    (* data slab: header, sibling link, elements (external groups as references) *)
| SG (g : melems)                            (* external collision group slab: its elements *)
| SM (h : mhdr) (hs : list mhdr).            (* index slab: header, child header copies *)

(* [I], [L]: identifiers and lookup before; [I'], [L']: after *)
Record xstage (I : list N) (L : N -> option shallow) (alloc : N)
              (I' : list N) (L' : N -> option shallow) (alloc' : N) (lg : wlog) : Prop := {
  xs_acct : exists k, alloc' = alloc + N.of_nat k /\
                      Permutation (I' ++ removed lg) (I ++ nseq alloc k) /\
                      (forall id, In id (nseq alloc k) -> In id (stored lg));
  xs_frame : forall id, ~ In id (stored lg) -> ~ In id (removed lg) -> L' id = L id;
  xs_stored : forall id, In id (stored lg) -> In id I' \/ In id (removed lg);
  xs_sar : NoDup I -> bnd alloc I -> sar_free lg
}.

Lemma xs_nodup I L a I' L' a' lg :
  xstage I L a I' L' a' lg -> NoDup I -> bnd a I ->
  NoDup (I' ++ removed lg) /\ bnd a' (I' ++ removed lg) /\ a <= a'.
Proof.
  intros S HN HB. destruct (xs_acct _ _ _ _ _ _ _ S) as (k & -> & HP & _).
  destruct (acct_nodup _ _ _ _ _ HP HN HB). split; [auto|]. split; [auto|lia].
Qed.

Lemma xs_same I L a J M : Permutation J I -> (forall id, M id = L id) -> xstage I L a J M a [].
Proof.
  intros HP HL. split.
  - exists 0%nat. cbn. rewrite !app_nil_r. split; [lia|]. split; [exact HP|tauto].
  - intros id _ _. apply HL.
  - intros id [].
  - intros; exact Logic.I.
Qed.

Lemma xs_ext I L a I' L' a' lg J M J' M' :
  xstage I L a I' L' a' lg ->
  Permutation J I -> (forall id, M id = L id) -> Permutation J' I' -> (forall id, M' id = L' id) ->
  xstage J M a J' M' a' lg.
Proof.
  intros S P1 E1 P2 E2. destruct S as [(k & Ea & HP & HF) S2 S3 S4]. split.
  - exists k. split; [exact Ea|]. split; [|exact HF]. perm_solve.
  - intros id H1 H2. rewrite E1, E2. auto.
  - intros id H. apply S3 in H as [H|H]; [left|tauto]. eapply Permutation_in; [symmetry; exact P2|exact H].
  - intros HN HB. apply S4; [eapply Permutation_NoDup; eauto|eapply bnd_perm; [symmetry|]; eauto].
Qed.

Lemma xs_comp I L a I1 L1 a1 lg1 I2 L2 a2 lg2 :
  xstage I L a I1 L1 a1 lg1 -> xstage I1 L1 a1 I2 L2 a2 lg2 ->
  xstage I L a I2 L2 a2 (lg1 ++ lg2).
Proof.
  intros S1 S2.
  destruct (xs_acct _ _ _ _ _ _ _ S1) as (k1 & E1 & P1 & F1).
  destruct (xs_acct _ _ _ _ _ _ _ S2) as (k2 & E2 & P2 & F2).
  assert (PW : Permutation (I2 ++ removed (lg1 ++ lg2)) (I ++ nseq a (k1 + k2))).
  { rewrite removed_app, nseq_app, <- E1. perm_solve. }
  split.
  - exists (k1 + k2)%nat. split; [lia|]. split; [exact PW|].
    intros id. rewrite nseq_app, <- E1, stored_app, !in_app_iff. intros [H|H]; auto.
  - intros id. rewrite stored_app, removed_app, !in_app_iff. intros H1 H2.
    rewrite (xs_frame _ _ _ _ _ _ _ S2), (xs_frame _ _ _ _ _ _ _ S1); tauto.
  - intros id. rewrite stored_app, removed_app, !in_app_iff. intros [H|H].
    + apply (xs_stored _ _ _ _ _ _ _ S1) in H as [H|H]; [|tauto].
      assert (H' : In id (I2 ++ removed lg2)).
      { eapply Permutation_in; [symmetry; exact P2|]. apply in_or_app. now left. }
      rewrite in_app_iff in H'. tauto.
    + apply (xs_stored _ _ _ _ _ _ _ S2) in H. tauto.
  - intros HN HB. apply sar_free_app.
    destruct (xs_nodup _ _ _ _ _ _ _ S1 HN HB) as (N1 & B1 & _).
    assert (N1' : NoDup I1) by (eapply nodup_app_l; eauto).
    assert (B1' : bnd a1 I1) by (apply bnd_app in B1; tauto).
    split; [apply (xs_sar _ _ _ _ _ _ _ S1); auto|]. split; [apply (xs_sar _ _ _ _ _ _ _ S2); auto|].
    intros i Hi Hs. apply (xs_stored _ _ _ _ _ _ _ S2) in Hs.
    destruct (acct_nodup _ _ _ _ _ PW HN HB) as [NW _].
    rewrite removed_app in NW. rewrite nodup_cnt in NW. specialize (NW i). cnt_norm.
    rewrite !in_cnt in *. lia.
Qed.

(* a stage of a part is a stage of the whole: [R] = the identifiers of the rest *)
Lemma xs_lift I L a I' L' a' lg R W LW W' LW' :
  xstage I L a I' L' a' lg ->
  Permutation W (I ++ R) -> Permutation W' (I' ++ R) ->
  (forall id, L' id = L id -> LW' id = LW id) ->
  xstage W LW a W' LW' a' lg.
Proof.
  intros S P1 P2 HL. destruct S as [(k & Ea & HP & HF) S2 S3 S4]. split.
  - exists k. split; [exact Ea|]. split; [|exact HF]. perm_solve.
  - intros id H1 H2. apply HL. auto.
  - intros id H. apply S3 in H as [H|H]; [left|tauto].
    eapply Permutation_in; [symmetry; exact P2|]. apply in_or_app. now left.
  - intros HN HB. apply S4.
    + eapply Permutation_NoDup in HN; [|exact P1]. eapply nodup_app_l; eauto.
    + eapply bnd_perm in HB; [|symmetry; exact P1]. apply bnd_app in HB. tauto.
Qed.

(* the same when the whole is a slab [o] owning the part, whose own content may change and which
   is stored afterwards *)
Lemma xs_own I L a I' L' a' lg o R W LW W' LW' :
  xstage I L a I' L' a' lg ->
  Permutation W (o :: I ++ R) -> Permutation W' (o :: I' ++ R) ->
  (forall id, id <> o -> L' id = L id -> LW' id = LW id) ->
  xstage W LW a W' LW' a' (lg ++ [WStore o]).
Proof.
  intros S P1 P2 HL. pose proof S as [(k & Ea & HP & HF) S2 S3 S4].
  assert (Er : removed (lg ++ [WStore o]) = removed lg) by (rewrite removed_app; cbn; apply app_nil_r).
  assert (Es : forall id, In id (stored (lg ++ [WStore o])) <-> In id (stored lg) \/ id = o).
  { intros id. rewrite stored_app, in_app_iff. cbn. intuition. }
  split.
  - exists k. split; [exact Ea|]. split; [rewrite Er; perm_solve|].
    intros id Hi. apply Es. left. auto.
  - intros id H1 H2. rewrite Er in H2. rewrite Es in H1. apply HL; [intros ->; tauto|]. apply S2; tauto.
  - intros id H. rewrite Er. apply Es in H as [H| ->].
    + apply S3 in H as [H|H]; [left|tauto].
      eapply Permutation_in; [symmetry; exact P2|]. right. apply in_or_app. now left.
    + left. eapply Permutation_in; [symmetry; exact P2|]. now left.
  - intros HN HB. eapply Permutation_NoDup in HN; [|exact P1]. eapply bnd_perm in HB; [|symmetry; exact P1].
    apply sar_free_app.
    assert (NI : NoDup I). { inversion HN; subst. eapply nodup_app_l; eauto. }
    assert (BI : bnd a I). { inversion HB; subst. apply bnd_app in H2. tauto. }
    split; [auto|]. split; [exact Logic.I|].
    intros i Hi [E|[]]. subst i.
    assert (Hx : In o (I ++ nseq a k)).
    { eapply Permutation_in; [exact HP|]. apply in_or_app. now right. }
    apply in_app_or in Hx as [Hx|Hx].
    + inversion HN; subst. apply H1. apply in_or_app. now left.
    + apply in_nseq in Hx. inversion HB; subst. lia.
Qed.

(** * 6. The element level: identifiers, own content, lookup of external group slabs *)

Definition loc_ids (loc : option N) : list N := match loc with Some i => [i] | None => [] end.

(* the slab indexes of ALL external collision groups below an element / an elements list *)
Fixpoint eids_e (e : melem) : list N :=
  match e with
  | ESingle _ _ => []
  | EGroup loc g => loc_ids loc ++ gids g
  end
with gids (g : melems) : list N :=
  match g with
  | HKey _ _ es _ => flat_map eids_e es
  | SList _ _ _ => []
  end.

(* what a slab stores of its elements: external groups are references (slab index only) *)
Fixpoint strip_e (e : melem) : melem :=
  match e with
  | ESingle k v => ESingle k v
  | EGroup (Some i) _ => EGroup (Some i) (SList 0 [] 0)
  | EGroup None g => EGroup None (strip_g g)
  end
with strip_g (g : melems) : melems :=
  match g with
  | HKey l hks es sz => HKey l hks (map strip_e es) sz
  | SList l kvs sz => SList l kvs sz
  end.

(* the content of external group slab [id] below an element / an elements list *)
Fixpoint ext_at_e (e : melem) (id : N) : option shallow :=
  match e with
  | ESingle _ _ => None
  | EGroup loc g =>
    match loc with
    | Some i => if i =? id then Some (SG (strip_g g)) else ext_at g id
    | None => ext_at g id
    end
  end
with ext_at (g : melems) (id : N) : option shallow :=
  match g with
  | HKey _ _ es _ =>
    (fix go (l : list melem) : option shallow :=
       match l with
       | [] => None
       | e :: r => match ext_at_e e id with Some s => Some s | None => go r end
       end) es
  | SList _ _ _ => None
  end.

Fixpoint ext_list (es : list melem) (id : N) : option shallow :=
  match es with
  | [] => None
  | e :: r => match ext_at_e e id with Some s => Some s | None => ext_list r id end
  end.

Lemma ext_at_HKey l hks es sz id : ext_at (HKey l hks es sz) id = ext_list es id.
Proof. cbn [ext_at]. induction es as [|e r IH]; [reflexivity|]. cbn [ext_list]. now rewrite IH. Qed.
Lemma gids_HKey l hks es sz : gids (HKey l hks es sz) = flat_map eids_e es.
Proof. reflexivity. Qed.
Lemma ext_list_app l1 l2 id :
  ext_list (l1 ++ l2) id = match ext_list l1 id with Some s => Some s | None => ext_list l2 id end.
Proof.
  induction l1 as [|e r IH]; [reflexivity|]. cbn [app ext_list]. rewrite IH.
  destruct (ext_at_e e id); reflexivity.
Qed.
Lemma ext_list_one e id : ext_list [e] id = ext_at_e e id.
Proof. cbn. destruct (ext_at_e e id); reflexivity. Qed.
Lemma eids_one e : flat_map eids_e [e] = eids_e e.
Proof. cbn. apply app_nil_r. Qed.

Lemma ext_list_none es id :
  Forall (fun e => ext_at_e e id = None <-> ~ In id (eids_e e)) es ->
  (ext_list es id = None <-> ~ In id (flat_map eids_e es)).
Proof.
  induction 1 as [|e r He Hr IH]; cbn [ext_list flat_map]; [tauto|].
  rewrite in_app_iff. destruct (ext_at_e e id) eqn:E.
  - split; [discriminate|]. intros Hn. exfalso. assert (Some s = None) by (apply He; tauto). discriminate.
  - destruct He as [He _]. specialize (He eq_refl). tauto.
Qed.

Lemma ext_none :
  (forall e id, ext_at_e e id = None <-> ~ In id (eids_e e)) /\
  (forall g id, ext_at g id = None <-> ~ In id (gids g)).
Proof.
  apply melem_melems_ind.
  - intros k v id. cbn. tauto.
  - intros [i|] g IH id; cbn [ext_at_e eids_e loc_ids app In].
    + destruct (N.eqb_spec i id); [split; [discriminate|tauto]|]. rewrite IH. tauto.
    + apply IH.
  - intros l hks es sz IH id. rewrite ext_at_HKey, gids_HKey. apply ext_list_none.
    eapply Forall_impl; [|exact IH]. cbn. auto.
  - intros l kvs sz id. cbn. tauto.
Qed.

(* every hkeyElements has as many digests as elements (all the way down) *)
Fixpoint eshape_e (e : melem) : Prop :=
  match e with
  | ESingle _ _ => True
  | EGroup _ g => eshape g
  end
with eshape (g : melems) : Prop :=
  match g with
  | HKey _ hks es _ =>
    length hks = length es /\
    (fix go (l : list melem) : Prop := match l with [] => True | e :: r => eshape_e e /\ go r end) es
  | SList _ _ _ => True
  end.

Lemma eshape_HKey l hks es sz : eshape (HKey l hks es sz) <-> length hks = length es /\ Forall eshape_e es.
Proof.
  cbn [eshape].
  assert (E : forall l, (fix go (l : list melem) : Prop := match l with [] => True | e :: r => eshape_e e /\ go r end) l
                        <-> Forall eshape_e l).
  { induction l0 as [|e r IH]; [split; auto|]. rewrite IH. split.
    - intros [? ?]; constructor; auto.
    - intros H; inversion H; auto. }
  rewrite E. tauto.
Qed.

Definition oel (o : option melem) : list melem := match o with Some e => [e] | None => [] end.

Lemma length_insert_at {A} i (x : A) l : length (insert_at i x l) = S (length l).
Proof.
  unfold insert_at. rewrite app_length. cbn [length]. rewrite <- (firstn_skipn i l) at 3. rewrite app_length. lia.
Qed.
Lemma Forall_firstn' {A} (Q : A -> Prop) k l : Forall Q l -> Forall Q (firstn k l).
Proof. intros H. revert k; induction H; intros [|k]; cbn; auto. Qed.
Lemma Forall_skipn' {A} (Q : A -> Prop) k l : Forall Q l -> Forall Q (skipn k l).
Proof. intros H. revert k; induction H; intros [|k]; cbn; auto. Qed.
Lemma Forall_insert_at {A} (Q : A -> Prop) i x l : Forall Q l -> Q x -> Forall Q (insert_at i x l).
Proof.
  intros H Hx. unfold insert_at. apply Forall_app. split; [now apply Forall_firstn'|].
  constructor; [exact Hx|now apply Forall_skipn'].
Qed.
Lemma gids_insert_at i k v es : flat_map eids_e (insert_at i (ESingle k v) es) = flat_map eids_e es.
Proof.
  unfold insert_at. rewrite flat_map_app. cbn [flat_map eids_e app]. rewrite <- flat_map_app, firstn_skipn. reflexivity.
Qed.
Lemma ext_list_insert_at i k v es id : ext_list (insert_at i (ESingle k v) es) id = ext_list es id.
Proof.
  unfold insert_at. rewrite ext_list_app. cbn [ext_list ext_at_e].
  rewrite <- ext_list_app, firstn_skipn. reflexivity.
Qed.

(* replacing a run of adjacent elements *)
Lemma xs_list_mid pre seg seg' post a a' lg :
  xstage (flat_map eids_e seg) (ext_list seg) a (flat_map eids_e seg') (ext_list seg') a' lg ->
  xstage (flat_map eids_e (pre ++ seg ++ post)) (ext_list (pre ++ seg ++ post)) a
         (flat_map eids_e (pre ++ seg' ++ post)) (ext_list (pre ++ seg' ++ post)) a' lg.
Proof.
  intros S. eapply xs_lift with (R := flat_map eids_e pre ++ flat_map eids_e post); [exact S| | |].
  - rewrite !flat_map_app. perm_solve.
  - rewrite !flat_map_app. perm_solve.
  - intros id E. rewrite !ext_list_app, E. reflexivity.
Qed.

(* an inline group spills into its own slab *)
Lemma xs_spill g a :
  xstage (gids g) (ext_at g) a ((a + 1) :: gids g) (ext_at_e (EGroup (Some (a + 1)) g)) (a + 1) [WStore (a + 1)].
Proof.
  split.
  - exists 1%nat. split; [lia|]. cbn [removed stored flat_map nseq app In]. split; [perm_solve|tauto].
  - intros id Hs _. cbn [stored flat_map app In] in Hs. cbn [ext_at_e].
    destruct (N.eqb_spec (a + 1) id); [tauto|reflexivity].
  - intros id [<-|[]]. left. now left.
  - intros _ _. exact Logic.I.
Qed.

(* an external group collapses: its slab is removed *)
Lemma xs_drop_owner id I L a :
  I = [] -> (forall x, x <> id -> L x = None) ->
  xstage (id :: I) L a [] (fun _ => None) a [WRemove id].
Proof.
  intros -> HL. split.
  - exists 0%nat. split; [lia|]. cbn. split; [reflexivity|tauto].
  - intros x _ Hr. cbn in Hr. symmetry. apply HL. intros ->. tauto.
  - intros x [].
  - intros _ _. cbn. tauto.
Qed.

Section elems.
  Variable dg : N -> nat -> N.
  Variable levels : nat.
  Variable max_inline_elem limit : N.

  Local Notation set_elem := (set_elem dg levels max_inline_elem limit).
  Local Notation set_elems := (set_elems dg levels max_inline_elem limit).
  Local Notation remove_elem := (remove_elem dg levels).
  Local Notation remove_elems := (remove_elems dg levels).
  Local Notation get_elem := (get_elem dg levels).

  Lemma set_elem_S f e l k v a :
    set_elem (S f) e l k v a =
      match e with
      | ESingle k0 v0 =>
        if kid k0 =? kid k then inr (ESingle k0 v, Some v0, a, [])
        else if (S l =? levels)%nat then
          set_elem f (EGroup None (SList (S l) [(k0, v0)] (c_singleElementsPrefixSize + ssize k0 v0))) l k v a
        else
          set_elem f (EGroup None (HKey (S l) [dg (kid k0) (S l)] [e]
                                        (c_hkeyElementsPrefixSize + c_digestSize + esize e))) l k v a
      | EGroup None g =>
        let l' := S l in
        if (levels <? l')%nat then inl EInternal else
        match set_elems f g l' k v a with
        | inl err => inl err
        | inr (g', prev, a', evs) =>
          if (l' =? 1)%nat && (max_inline_elem <? c_inlineCollisionGroupPrefixSize + msize g')
          then inr (EGroup (Some a') g', prev, a' + 1, evs ++ [WStore a'])
          else inr (EGroup None g', prev, a', evs)
        end
      | EGroup (Some id) g =>
        let l' := S l in
        if (levels <? l')%nat then inl EInternal else
        match set_elems f g l' k v a with
        | inl err => inl err
        | inr (g', prev, a', evs) => inr (EGroup (Some id) g', prev, a', evs ++ [WStore id])
        end
      end.
  Proof. reflexivity. Qed.

  Lemma set_elems_S f g l k v a :
    set_elems (S f) g l k v a =
      match g with
      | HKey lv hks es sz =>
        if (levels <=? l)%nat then inl EInternal else
        let h := dg (kid k) l in
        let nsz := c_digestSize + ssize k v in
        match hks with
        | [] => inr (HKey lv [h] [ESingle k v] (sz + nsz), None, a, [])
        | h0 :: _ =>
          if h <? h0 then inr (HKey lv (insert_at 0 h hks) (insert_at 0 (ESingle k v) es) (sz + nsz), None, a, [])
          else if last hks 0 <? h then inr (HKey lv (hks ++ [h]) (es ++ [ESingle k v]) (sz + nsz), None, a, [])
          else
            match hk_search hks h with
            | (Some i, _) =>
              match nth_error es i with
              | None => inl EInternal
              | Some e =>
                let refused :=
                  if (lv =? 0)%nat then
                    if (ecount e =? 0)%nat then Some EInternal
                    else if limit <=? N.of_nat (ecount e - 1) then
                      match get_elem f e l (kid k) with
                      | inl EKeyNotFound => Some ECollisionLimit
                      | _ => None
                      end
                    else None
                  else None in
                match refused with
                | Some err => inl err
                | None =>
                  match set_elem f e l k v a with
                  | inl err => inl err
                  | inr (e', prev, a', evs) =>
                    let es' := replace_at i e' es in
                    inr (HKey lv hks es' (hk_recompute es'), prev, a', evs)
                  end
                end
              end
            | (None, lt) =>
              inr (HKey lv (insert_at lt h hks) (insert_at lt (ESingle k v) es) (sz + nsz), None, a, [])
            end
        end
      | SList lv kvs sz =>
        if negb (l =? levels)%nat then inl EInternal else
        match find_key (kid k) kvs with
        | Some i =>
          match nth_error kvs i with
          | None => inl EInternal
          | Some (k0, v0) =>
            let kvs' := replace_at i (k0, v) kvs in
            inr (SList lv kvs' (sl_recompute kvs'), Some v0, a, [])
          end
        | None => inr (SList lv (kvs ++ [(k, v)]) (sz + ssize k v), None, a, [])
        end
      end.
  Proof. reflexivity. Qed.

  Definition set_e_ok (f : nat) : Prop :=
    forall e l k v alloc e' prev a' evs, eshape_e e ->
      set_elem f e l k v (alloc + 1) = inr (e', prev, a', evs) ->
      exists alloc', a' = alloc' + 1 /\ eshape_e e' /\
        xstage (eids_e e) (ext_at_e e) alloc (eids_e e') (ext_at_e e') alloc' evs.
  Definition set_g_ok (f : nat) : Prop :=
    forall g l k v alloc g' prev a' evs, eshape g ->
      set_elems f g l k v (alloc + 1) = inr (g', prev, a', evs) ->
      exists alloc', a' = alloc' + 1 /\ eshape g' /\
        xstage (gids g) (ext_at g) alloc (gids g') (ext_at g') alloc' evs.

  Lemma set_e_step f : set_e_ok f -> set_g_ok f -> set_e_ok (S f).
  Proof.
    intros IHe IHg e l k v alloc e' prev a' evs Sh H. rewrite set_elem_S in H.
    destruct e as [k0 v0|[id|] g].
    - destruct (kid k0 =? kid k).
      + injection H as <- <- <- <-. exists alloc. split; [reflexivity|]. split; [exact Logic.I|].
        apply xs_same; [reflexivity|reflexivity].
      + destruct (S l =? levels)%nat.
        * apply IHe in H; [|exact Logic.I]. destruct H as (alloc' & E & Sh' & St). exists alloc'. split; [exact E|]. split; [exact Sh'|].
          eapply xs_ext; [exact St| | | |]; reflexivity.
        * apply IHe in H; [|cbn; tauto]. destruct H as (alloc' & E & Sh' & St). exists alloc'. split; [exact E|]. split; [exact Sh'|].
          eapply xs_ext; [exact St| | | |]; reflexivity.
    - cbv zeta in H. destruct (levels <? S l)%nat; [discriminate|].
      destruct (set_elems f g (S l) k v (alloc + 1)) as [err|[[[g' prev'] a1] evs1]] eqn:E; [discriminate|].
      injection H as <- <- <- <-.
      apply IHg in E; [|exact Sh]. destruct E as (alloc' & Ea & Sh' & St). exists alloc'. split; [exact Ea|]. split; [exact Sh'|].
      eapply xs_own with (o := id) (R := []); [exact St| | |].
      + cbn [eids_e loc_ids app]. rewrite app_nil_r. reflexivity.
      + cbn [eids_e loc_ids app]. rewrite app_nil_r. reflexivity.
      + intros x Hx Ex. cbn [ext_at_e]. destruct (N.eqb_spec id x); [congruence|exact Ex].
    - cbv zeta in H. destruct (levels <? S l)%nat; [discriminate|].
      destruct (set_elems f g (S l) k v (alloc + 1)) as [err|[[[g' prev'] a1] evs1]] eqn:E; [discriminate|].
      apply IHg in E; [|exact Sh]. destruct E as (alloc1 & Ea & Sh' & St). subst a1.
      destruct ((S l =? 1)%nat && _); injection H as <- <- <- <-.
      + exists (alloc1 + 1). split; [reflexivity|]. split; [exact Sh'|].
        eapply xs_comp.
        * eapply xs_ext; [exact St| | | |]; reflexivity.
        * eapply xs_ext; [apply (xs_spill g' alloc1)| | | |]; reflexivity.
      + exists alloc1. split; [reflexivity|]. split; [exact Sh'|].
        eapply xs_ext; [exact St| | | |]; reflexivity.
  Qed.

  Lemma set_g_step f : set_e_ok f -> set_g_ok (S f).
  Proof.
    intros IHe g l k v alloc g' prev a' evs Sh H. rewrite set_elems_S in H.
    destruct g as [lv hks es sz|lv kvs sz].
    - apply eshape_HKey in Sh as [Hl Hf]. cbv zeta in H.
      destruct (levels <=? l)%nat; [discriminate|].
      destruct hks as [|h0 hks0].
      { destruct es; [|discriminate]. injection H as <- <- <- <-. exists alloc. split; [reflexivity|].
        split; [apply eshape_HKey; split; [reflexivity|repeat constructor]|]. apply xs_same; reflexivity. }
      remember (h0 :: hks0) as hks eqn:Ehks.
      assert (INS : forall i sz', exists alloc', alloc + 1 = alloc' + 1 /\
                eshape (HKey lv (insert_at i (dg (kid k) l) hks) (insert_at i (ESingle k v) es) sz') /\
                xstage (gids (HKey lv hks es sz)) (ext_at (HKey lv hks es sz)) alloc
                       (gids (HKey lv (insert_at i (dg (kid k) l) hks) (insert_at i (ESingle k v) es) sz'))
                       (ext_at (HKey lv (insert_at i (dg (kid k) l) hks) (insert_at i (ESingle k v) es) sz')) alloc' []).
      { intros i sz'. exists alloc. split; [reflexivity|]. split.
        - apply eshape_HKey. rewrite !length_insert_at. split; [lia|]. apply Forall_insert_at; [exact Hf|exact Logic.I].
        - apply xs_same; [rewrite !gids_HKey, gids_insert_at; reflexivity|].
          intros id. rewrite !ext_at_HKey. apply ext_list_insert_at. }
      destruct (dg (kid k) l <? h0).
      { injection H as <- <- <- <-. apply INS. }
      destruct (last hks 0 <? dg (kid k) l).
      { injection H as <- <- <- <-. exists alloc. split; [reflexivity|]. split.
        - apply eshape_HKey. rewrite !app_length. cbn [length]. split; [lia|].
          apply Forall_app. split; [exact Hf|repeat constructor].
        - apply xs_same.
          + rewrite !gids_HKey, flat_map_app. cbn. rewrite app_nil_r. reflexivity.
          + intros id. rewrite !ext_at_HKey, ext_list_app. cbn. destruct (ext_list es id); reflexivity. }
      destruct (hk_search hks (dg (kid k) l)) as [[i|] lt].
      2: { injection H as <- <- <- <-. apply INS. }
      destruct (nth_error es i) as [e|] eqn:En; [|discriminate].
      match type of H with match ?r with _ => _ end = _ => destruct r; [discriminate|] end.
      destruct (set_elem f e l k v (alloc + 1)) as [err|[[[e' prev'] a1] evs1]] eqn:E; [discriminate|].
      injection H as <- <- <- <-.
      apply nth_error_split in En as (pre & post & -> & Hi).
      apply Forall_elt in Hf as He. apply IHe in E; [|exact He].
      destruct E as (alloc' & Ea & She' & St). exists alloc'. split; [exact Ea|].
      rewrite replace_at_mid by exact Hi. split.
      + apply eshape_HKey. split.
        * rewrite Hl, !app_length. reflexivity.
        * apply Forall_app in Hf as [F1 F2]. apply Forall_app. split; [exact F1|].
          constructor; [exact She'|]. now apply Forall_inv_tail in F2.
      + eapply xs_ext; [apply (xs_list_mid pre [e] [e'] post)| | | |].
        * eapply xs_ext; [exact St| | | |]; first [now rewrite eids_one | intros; apply ext_list_one].
        * reflexivity.
        * intros id. apply ext_at_HKey.
        * reflexivity.
        * intros id. apply ext_at_HKey.
    - destruct (negb (l =? levels)%nat); [discriminate|].
      destruct (find_key (kid k) kvs) as [i|].
      + destruct (nth_error kvs i) as [[k0 v0]|]; [|discriminate]. injection H as <- <- <- <-.
        exists alloc. split; [reflexivity|]. split; [exact Logic.I|]. apply xs_same; reflexivity.
      + injection H as <- <- <- <-.
        exists alloc. split; [reflexivity|]. split; [exact Logic.I|]. apply xs_same; reflexivity.
  Qed.

  Lemma set_ok : forall f, set_e_ok f /\ set_g_ok f.
  Proof.
    induction f as [|f [IHe IHg]].
    - split; intros ? ? ? ? ? ? ? ? ? ? H; discriminate H.
    - split; [apply set_e_step; assumption|apply set_g_step; assumption].
  Qed.

  (** Remove *)
  Lemma remove_elem_S f e l k :
    remove_elem (S f) e l k =
      match e with
      | ESingle k0 v0 => if kid k0 =? k then inr (None, (k0, v0), []) else inl EKeyNotFound
      | EGroup loc g =>
        let l' := S l in
        if (levels <? l')%nat then inl EInternal else
        match remove_elems f g l' k with
        | inl err => inl err
        | inr (g', kvp, evs) => collapse_group loc g' kvp evs
        end
      end.
  Proof. reflexivity. Qed.

  Lemma remove_elems_S f g l k :
    remove_elems (S f) g l k =
      match g with
      | HKey lv hks es sz =>
        if (levels <=? l)%nat then inl EInternal else
        let h := dg k l in
        match hks with
        | [] => inl EKeyNotFound
        | h0 :: _ =>
          if (h <? h0) || (last hks 0 <? h) then inl EKeyNotFound else
          match fst (hk_search hks h) with
          | None => inl EKeyNotFound
          | Some i =>
            match nth_error es i with
            | None => inl EInternal
            | Some e =>
              let old := esize e in
              match remove_elem f e l k with
              | inl err => inl err
              | inr (None, kvp, evs) =>
                inr (HKey lv (delete_at i hks) (delete_at i es) (sz - (c_digestSize + old)), kvp, evs)
              | inr (Some e', kvp, evs) =>
                inr (HKey lv hks (replace_at i e' es) ((sz + esize e') - old), kvp, evs)
              end
            end
          end
        end
      | SList lv kvs sz =>
        if negb (l =? levels)%nat then inl EInternal else
        match find_key k kvs with
        | Some i =>
          match nth_error kvs i with
          | None => inl EInternal
          | Some (k0, v0) => inr (SList lv (delete_at i kvs) (sz - ssize k0 v0), (k0, v0), [])
          end
        | None => inl EKeyNotFound
        end
      end.
  Proof. reflexivity. Qed.

  Definition rem_e_ok (f : nat) : Prop :=
    forall e l k alloc oe kvp evs, eshape_e e ->
      remove_elem f e l k = inr (oe, kvp, evs) ->
      Forall eshape_e (oel oe) /\
      xstage (eids_e e) (ext_at_e e) alloc (flat_map eids_e (oel oe)) (ext_list (oel oe)) alloc evs.
  Definition rem_g_ok (f : nat) : Prop :=
    forall g l k alloc g' kvp evs, eshape g ->
      remove_elems f g l k = inr (g', kvp, evs) ->
      eshape g' /\ xstage (gids g) (ext_at g) alloc (gids g') (ext_at g') alloc evs.

  (* the group itself survives (possibly stored) *)
  Lemma keep_xs loc g g' alloc evs :
    xstage (gids g) (ext_at g) alloc (gids g') (ext_at g') alloc evs ->
    xstage (eids_e (EGroup loc g)) (ext_at_e (EGroup loc g)) alloc
           (eids_e (EGroup loc g')) (ext_at_e (EGroup loc g')) alloc
           (match loc with Some id => evs ++ [WStore id] | None => evs end).
  Proof.
    intros St. destruct loc as [id|].
    - eapply xs_own with (o := id) (R := []); [exact St| | |].
      + cbn [eids_e loc_ids app]. rewrite app_nil_r. reflexivity.
      + cbn [eids_e loc_ids app]. rewrite app_nil_r. reflexivity.
      + intros x Hx Ex. cbn [ext_at_e]. destruct (N.eqb_spec id x); [congruence|exact Ex].
    - eapply xs_ext; [exact St| | | |]; reflexivity.
  Qed.

  (* the group is replaced by its only element, a single one: the external slab goes away *)
  Lemma gone_xs loc g' alloc k1 v1 :
    gids g' = [] -> (forall x, ext_at g' x = None) ->
    xstage (eids_e (EGroup loc g')) (ext_at_e (EGroup loc g')) alloc
           (flat_map eids_e (oel (Some (ESingle k1 v1)))) (ext_list (oel (Some (ESingle k1 v1)))) alloc
           (match loc with Some id => [WRemove id] | None => [] end).
  Proof.
    intros E1 E2. destruct loc as [id|].
    - eapply xs_ext; [apply (xs_drop_owner id (gids g') (ext_at_e (EGroup (Some id) g')) alloc)| | | |];
        try reflexivity; [exact E1|].
      intros x Hx. cbn [ext_at_e]. destruct (N.eqb_spec id x); [congruence|apply E2].
    - apply xs_same; [cbn [eids_e loc_ids app oel flat_map]; rewrite E1; reflexivity|].
      intros x. cbn [ext_at_e oel ext_list]. now rewrite E2.
  Qed.

  Lemma collapse_xs loc g g' kvp evs alloc oe kvp' evs' :
    xstage (gids g) (ext_at g) alloc (gids g') (ext_at g') alloc evs -> eshape g' ->
    collapse_group loc g' kvp evs = inr (oe, kvp', evs') ->
    Forall eshape_e (oel oe) /\
    xstage (eids_e (EGroup loc g)) (ext_at_e (EGroup loc g)) alloc
           (flat_map eids_e (oel oe)) (ext_list (oel oe)) alloc evs'.
  Proof.
    intros St Sh H. pose proof (keep_xs loc g g' alloc evs St) as K.
    assert (KEEP : forall oe' evs'', oe' = Some (EGroup loc g') ->
              evs'' = match loc with Some id => evs ++ [WStore id] | None => evs end ->
              Forall eshape_e (oel oe') /\
              xstage (eids_e (EGroup loc g)) (ext_at_e (EGroup loc g)) alloc
                     (flat_map eids_e (oel oe')) (ext_list (oel oe')) alloc evs'').
    { intros oe' evs'' -> ->. split; [repeat constructor; exact Sh|].
      eapply xs_ext; [exact K| | | |]; try reflexivity;
        [cbn [oel]; now rewrite eids_one|intros; cbn [oel]; apply ext_list_one]. }
    assert (GONE : forall k1 v1 oe' evs'', gids g' = [] -> (forall x, ext_at g' x = None) ->
              oe' = Some (ESingle k1 v1) ->
              evs'' = match loc with
                      | Some id => (evs ++ [WStore id]) ++ [WRemove id]
                      | None => evs
                      end ->
              Forall eshape_e (oel oe') /\
              xstage (eids_e (EGroup loc g)) (ext_at_e (EGroup loc g)) alloc
                     (flat_map eids_e (oel oe')) (ext_list (oel oe')) alloc evs'').
    { intros k1 v1 oe' evs'' E1 E2 -> ->. split; [repeat constructor|].
      pose proof (gone_xs loc g' alloc k1 v1 E1 E2) as G.
      destruct loc as [id|].
      - eapply xs_comp; [exact K|exact G].
      - rewrite <- (app_nil_r evs). eapply xs_comp; [exact K|exact G]. }
    unfold collapse_group in H.
    destruct (gcount g' =? 1)%nat.
    2: { injection H as <- <- <-. now apply KEEP. }
    destruct g' as [lv hks [|e1 [|e2 r]] sz|lv [|[k1 v1] [|p2 r]] sz];
      try (injection H as <- <- <-; now apply KEEP).
    - destruct e1 as [k1 v1|loc1 g1]; cbn [is_group] in H.
      + injection H as <- <- <-. eapply GONE; first [reflexivity | intros x; reflexivity | destruct loc; reflexivity].
      + injection H as <- <- <-. now apply KEEP.
    - injection H as <- <- <-. eapply GONE; first [reflexivity | intros x; reflexivity | destruct loc; reflexivity].
  Qed.

  Lemma rem_e_step f : rem_g_ok f -> rem_e_ok (S f).
  Proof.
    intros IHg e l k alloc oe kvp evs Sh H. rewrite remove_elem_S in H.
    destruct e as [k0 v0|loc g].
    - destruct (kid k0 =? k); [|discriminate]. injection H as <- <- <-.
      split; [constructor|]. apply xs_same; reflexivity.
    - cbv zeta in H. destruct (levels <? S l)%nat; [discriminate|].
      destruct (remove_elems f g (S l) k) as [err|[[g' kvp1] evs1]] eqn:E; [discriminate|].
      apply (IHg _ _ _ alloc) in E; [|exact Sh]. destruct E as [Sh' St].
      eapply collapse_xs; eauto.
  Qed.

  Lemma rem_g_step f : rem_e_ok f -> rem_g_ok (S f).
  Proof.
    intros IHe g l k alloc g' kvp evs Sh H. rewrite remove_elems_S in H.
    destruct g as [lv hks es sz|lv kvs sz].
    - apply eshape_HKey in Sh as [Hl Hf]. cbv zeta in H.
      destruct (levels <=? l)%nat; [discriminate|].
      destruct hks as [|h0 hks0]; [discriminate|]. remember (h0 :: hks0) as hks eqn:Ehks.
      destruct ((dg k l <? h0) || (last hks 0 <? dg k l)); [discriminate|].
      destruct (fst (hk_search hks (dg k l))) as [i|]; [|discriminate].
      destruct (nth_error es i) as [e|] eqn:En; [|discriminate].
      destruct (remove_elem f e l k) as [err|[[oe kvp1] evs1]] eqn:E; [discriminate|].
      assert (Hi : (i < length es)%nat) by (apply nth_error_Some; congruence).
      apply nth_error_split in En as (pre & post & -> & Hp).
      apply Forall_elt in Hf as He. apply (IHe _ _ _ alloc) in E; [|exact He]. destruct E as [Sho St].
      apply Forall_app in Hf as [F1 F2]. apply Forall_inv_tail in F2.
      assert (X : xstage (gids (HKey lv hks (pre ++ e :: post) sz)) (ext_at (HKey lv hks (pre ++ e :: post) sz)) alloc
                         (flat_map eids_e (pre ++ oel oe ++ post)) (ext_list (pre ++ oel oe ++ post)) alloc evs1).
      { eapply xs_ext; [apply (xs_list_mid pre [e] (oel oe) post)| | | |]; try reflexivity.
        - eapply xs_ext; [exact St| | | |]; try reflexivity; [now rewrite eids_one|intros; apply ext_list_one].
        - intros id. apply ext_at_HKey. }
      assert (F : Forall eshape_e (pre ++ oel oe ++ post)) by (repeat (apply Forall_app; split); auto).
      destruct oe as [e'|]; injection H as <- <- <-.
      + rewrite replace_at_mid by exact Hp. split.
        * apply eshape_HKey. split; [|exact F]. rewrite Hl, !app_length. reflexivity.
        * eapply xs_ext; [exact X| | | |]; try reflexivity. intros id. apply ext_at_HKey.
      + rewrite delete_at_mid by exact Hp. split.
        * apply eshape_HKey. split; [|exact F].
          assert (Hx : exists x, nth_error hks i = Some x).
          { destruct (nth_error hks i) eqn:En2; [eauto|]. apply nth_error_None in En2. lia. }
          destruct Hx as (x & Hx). apply nth_error_split in Hx as (p1 & p2 & E1 & E2).
          rewrite E1 at 1. rewrite delete_at_mid by exact E2.
          rewrite E1 in Hl. rewrite !app_length in *. cbn [length oel app] in *. lia.
        * eapply xs_ext; [exact X| | | |]; try reflexivity. intros id. apply ext_at_HKey.
    - destruct (negb (l =? levels)%nat); [discriminate|].
      destruct (find_key k kvs) as [i|]; [|discriminate].
      destruct (nth_error kvs i) as [[k0 v0]|]; [|discriminate]. injection H as <- <- <-.
      split; [exact Logic.I|]. apply xs_same; reflexivity.
  Qed.

  Lemma rem_ok : forall f, rem_e_ok f /\ rem_g_ok f.
  Proof.
    induction f as [|f [IHe IHg]].
    - split; intros ? ? ? ? ? ? ? ? H; discriminate H.
    - split; [apply rem_e_step; assumption|apply rem_g_step; assumption].
  Qed.
End elems.

(** PopIterate at the element level: every external group slab below is removed exactly once *)
Definition pop_acc (acc : dict * list wev) (e : melem) : dict * list wev :=
  let '(d, evs) := pop_list_e e in (d ++ fst acc, evs ++ snd acc).

Lemma pop_list_HKey l hks es sz : pop_list (HKey l hks es sz) = fold_left pop_acc es ([], []).
Proof. reflexivity. Qed.

Lemma snd_pop_acc acc e : snd (pop_acc acc e) = snd (pop_list_e e) ++ snd acc.
Proof. unfold pop_acc. destruct (pop_list_e e). reflexivity. Qed.

Lemma pop_elems_spec :
  (forall e, Permutation (removed (snd (pop_list_e e))) (eids_e e) /\ stored (snd (pop_list_e e)) = []) /\
  (forall g, Permutation (removed (snd (pop_list g))) (gids g) /\ stored (snd (pop_list g)) = []).
Proof.
  apply melem_melems_ind.
  - intros k v. cbn. auto.
  - intros loc g [IH1 IH2]. cbn [pop_list_e eids_e]. destruct (pop_list g) as [d evs]. cbn [snd] in *.
    destruct loc as [id|]; cbn [loc_ids app].
    + rewrite removed_app, stored_app, IH2. cbn. split; [perm_solve|reflexivity].
    + auto.
  - intros l hks es sz IH. rewrite pop_list_HKey, gids_HKey.
    assert (G : forall acc, Permutation (removed (snd (fold_left pop_acc es acc))) (flat_map eids_e es ++ removed (snd acc)) /\
                            (stored (snd acc) = [] -> stored (snd (fold_left pop_acc es acc)) = [])).
    { induction IH as [|e r [He1 He2] _ IHr]; intros acc; cbn [fold_left flat_map]; [split; [reflexivity|auto]|].
      destruct (IHr (pop_acc acc e)) as [I1 I2]. rewrite snd_pop_acc in I1, I2.
      rewrite removed_app in I1. rewrite stored_app, He2 in I2. cbn [app] in I2.
      split; [|exact I2]. clear I2. perm_solve. }
    destruct (G ([], [])) as [G1 G2]. cbn [snd removed flat_map] in G1, G2. rewrite app_nil_r in G1. auto.
  - intros l kvs sz. cbn. auto.
Qed.

(** * 7. The slab tree: identifiers, own content, lookup by slab index *)

Definition nid (n : mnode) : N := mh_id (hdr_of n).

(* ALL slabs of a subtree: data and index slabs, and the external collision group slabs of its leaves *)
Fixpoint mslab_ids (n : mnode) : list N :=
  match n with
  | MD h _ es => mh_id h :: gids es
  | MM h _ cs => mh_id h :: flat_map mslab_ids cs
  end.

(* the slabs of the tree proper *)
Fixpoint tree_ids (n : mnode) : list N :=
  match n with
  | MD h _ _ => [mh_id h]
  | MM h _ cs => mh_id h :: flat_map tree_ids cs
  end.

(* the OWN content of the slab with index [id] (Storage.Retrieve) *)
Fixpoint mnode_at (n : mnode) (id : N) : option shallow :=
  match n with
  | MD h nx es => if mh_id h =? id then Some (SD h nx (strip_g es)) else ext_at es id
  | MM h hs cs =>
    if mh_id h =? id then Some (SM h hs)
    else (fix go (l : list mnode) : option shallow :=
            match l with
            | [] => None
            | c :: r => match mnode_at c id with Some s => Some s | None => go r end
            end) cs
  end.
Fixpoint nodes_at (l : list mnode) (id : N) : option shallow :=
  match l with
  | [] => None
  | c :: r => match mnode_at c id with Some s => Some s | None => nodes_at r id end
  end.
Lemma mnode_at_MM h hs cs id :
  mnode_at (MM h hs cs) id = if mh_id h =? id then Some (SM h hs) else nodes_at cs id.
Proof.
  cbn [mnode_at]. destruct (mh_id h =? id); [reflexivity|].
  induction cs as [|c r IH]; [reflexivity|]. cbn [nodes_at]. rewrite IH. reflexivity.
Qed.
Lemma nodes_at_app l1 l2 id :
  nodes_at (l1 ++ l2) id = match nodes_at l1 id with Some s => Some s | None => nodes_at l2 id end.
Proof.
  induction l1 as [|c r IH]; [reflexivity|]. cbn [app nodes_at]. rewrite IH.
  destruct (mnode_at c id); reflexivity.
Qed.
Lemma nodes1 n id : nodes_at [n] id = mnode_at n id.
Proof. cbn. destruct (mnode_at n id); reflexivity. Qed.

Lemma mslab_ids_MM h hs cs : mslab_ids (MM h hs cs) = mh_id h :: flat_map mslab_ids cs.
Proof. reflexivity. Qed.
Lemma tree_ids_MM h hs cs : tree_ids (MM h hs cs) = mh_id h :: flat_map tree_ids cs.
Proof. reflexivity. Qed.

Lemma nodes_leaf1 h nx l hks es sz id : id <> mh_id h ->
  nodes_at [MD h nx (HKey l hks es sz)] id = ext_list es id.
Proof.
  intros H. rewrite nodes1. cbn [mnode_at]. replace (mh_id h =? id) with false by lia. apply ext_at_HKey.
Qed.
Lemma nodes_leaf2 h nx l hks es sz h2 nx2 l2 hks2 es2 sz2 id : id <> mh_id h -> id <> mh_id h2 ->
  nodes_at [MD h nx (HKey l hks es sz); MD h2 nx2 (HKey l2 hks2 es2 sz2)] id = ext_list (es ++ es2) id.
Proof.
  intros H1 H2. cbn [nodes_at mnode_at].
  replace (mh_id h =? id) with false by lia. replace (mh_id h2 =? id) with false by lia.
  rewrite !ext_at_HKey, ext_list_app. destruct (ext_list es id); [reflexivity|]. destruct (ext_list es2 id); reflexivity.
Qed.
Lemma nodes2_MM h hs cs h2 hs2 cs2 id : id <> mh_id h -> id <> mh_id h2 ->
  nodes_at [MM h hs cs; MM h2 hs2 cs2] id = nodes_at (cs ++ cs2) id.
Proof.
  intros H1 H2. cbn [nodes_at]. rewrite !mnode_at_MM, nodes_at_app.
  replace (mh_id h =? id) with false by lia. replace (mh_id h2 =? id) with false by lia.
  destruct (nodes_at cs id); [reflexivity|]. destruct (nodes_at cs2 id); reflexivity.
Qed.

Lemma nid_in_tree_ids n : In (nid n) (tree_ids n).
Proof. destruct n; cbn; auto. Qed.
Lemma in_tree_slab n id : In id (tree_ids n) -> In id (mslab_ids n).
Proof.
  induction n as [h nx es|h hs cs IH] using mnode_ind'; cbn [tree_ids mslab_ids In].
  - tauto.
  - intros [H|H]; [auto|]. right. rewrite in_flat_map in *. destruct H as (c & Hc & H).
    exists c. split; [auto|]. rewrite Forall_forall in IH. auto.
Qed.

Lemma nodes_at_none cs id :
  Forall (fun n => mnode_at n id = None <-> ~ In id (mslab_ids n)) cs ->
  (nodes_at cs id = None <-> ~ In id (flat_map mslab_ids cs)).
Proof.
  induction 1 as [|c r Hc Hr IH]; cbn [nodes_at flat_map]; [tauto|].
  rewrite in_app_iff. destruct (mnode_at c id) eqn:E.
  - split; [discriminate|]. intros Hn. exfalso. assert (Some s = None) by (apply Hc; tauto). discriminate.
  - destruct Hc as [Hc _]. specialize (Hc eq_refl). tauto.
Qed.

(* a lookup fails exactly for the indexes that are not slabs of the tree *)
Lemma mnode_at_none n id : mnode_at n id = None <-> ~ In id (mslab_ids n).
Proof.
  induction n as [h nx es|h hs cs IH] using mnode_ind'.
  - cbn [mnode_at mslab_ids In]. destruct (N.eqb_spec (mh_id h) id); [split; [discriminate|tauto]|].
    rewrite (proj2 ext_none). tauto.
  - rewrite mnode_at_MM, mslab_ids_MM. cbn [In].
    destruct (N.eqb_spec (mh_id h) id); [split; [discriminate|tauto]|].
    rewrite nodes_at_none by exact IH. tauto.
Qed.

(** shape: index slabs have as many header copies as children and at least one child; the
    elements of every leaf are well-shaped *)
Fixpoint shape (n : mnode) : Prop :=
  match n with
  | MD _ _ es => eshape es
  | MM _ hs cs =>
    length hs = length cs /\ cs <> [] /\
    (fix go (l : list mnode) : Prop := match l with [] => True | c :: r => shape c /\ go r end) cs
  end.

Lemma shape_MM h hs cs :
  shape (MM h hs cs) <-> length hs = length cs /\ cs <> [] /\ Forall shape cs.
Proof.
  cbn [shape].
  assert (E : forall l, (fix go (l : list mnode) : Prop := match l with [] => True | c :: r => shape c /\ go r end) l <-> Forall shape l).
  { induction l as [|c r IH]; [split; auto|]. rewrite IH. split.
    - intros [? ?]; constructor; auto.
    - intros H; inversion H; auto. }
  rewrite E. tauto.
Qed.

Fixpoint chain_list (l : list mnode) (nxt : N) : Prop :=
  match l with
  | [] => True
  | c :: r => match r with [] => chain c nxt | c2 :: _ => chain c (first_leaf_id c2) /\ chain_list r nxt end
  end.
Definition fl (l : list mnode) (nxt : N) : N :=
  match l with [] => nxt | c :: _ => first_leaf_id c end.

Lemma chain_MM h hs cs nxt : chain (MM h hs cs) nxt = chain_list cs nxt.
Proof.
  cbn [chain]. induction cs as [|c r IH]; [reflexivity|].
  cbn [chain_list]. destruct r as [|c2 r']; [reflexivity|]. rewrite <- IH. reflexivity.
Qed.
Lemma first_MM h hs cs : first_leaf_id (MM h hs cs) = fl cs 0.
Proof. destruct cs; reflexivity. Qed.
Lemma chain_list_cons c r nxt : chain_list (c :: r) nxt <-> chain c (fl r nxt) /\ chain_list r nxt.
Proof. cbn [chain_list]. destruct r; cbn [fl chain_list]; tauto. Qed.
Lemma chain_list_app pre post nxt :
  chain_list (pre ++ post) nxt <-> chain_list pre (fl post nxt) /\ chain_list post nxt.
Proof.
  induction pre as [|c r IH]; [cbn; tauto|].
  change ((c :: r) ++ post) with (c :: (r ++ post)). rewrite !chain_list_cons, IH.
  destruct r; cbn [app fl]; tauto.
Qed.
Lemma fl_app pre post nxt : fl (pre ++ post) nxt = fl pre (fl post nxt).
Proof. destruct pre; reflexivity. Qed.
Lemma fl_ne l x y : l <> [] -> fl l x = fl l y.
Proof. destruct l; [congruence|reflexivity]. Qed.

Lemma chain2_MM h hs cs h2 hs2 cs2 nxt : cs2 <> [] ->
  (chain (MM h hs cs) (first_leaf_id (MM h2 hs2 cs2)) /\ chain (MM h2 hs2 cs2) nxt
   <-> chain_list (cs ++ cs2) nxt).
Proof.
  intros H. rewrite !chain_MM, first_MM, chain_list_app, (fl_ne cs2 0 nxt H). tauto.
Qed.

Lemma firstn_ne {A} k (l : list A) : (1 <= k)%nat -> l <> [] -> firstn k l <> [].
Proof. destruct k; [lia|]. destruct l; cbn; congruence. Qed.
Lemma skipn_ne {A} k (l : list A) : (k < length l)%nat -> skipn k l <> [].
Proof. intros H E. apply (f_equal (@length _)) in E. rewrite skipn_length in E. cbn in E. lia. Qed.

(** * 7b. Sequential traversal along the sibling links (the read-only map iterator) *)

Fixpoint mleaves (n : mnode) : list mnode :=
  match n with
  | MD _ _ _ => [n]
  | MM _ _ cs => flat_map mleaves cs
  end.

(* the data slab with index [id] (Storage.Retrieve + type assertion) *)
Fixpoint leaf_at (n : mnode) (id : N) : option (mhdr * N * melems) :=
  match n with
  | MD h nx es => if mh_id h =? id then Some (h, nx, es) else None
  | MM h _ cs =>
    if mh_id h =? id then None
    else (fix go (l : list mnode) : option (mhdr * N * melems) :=
            match l with
            | [] => None
            | c :: r => match leaf_at c id with Some s => Some s | None => go r end
            end) cs
  end.
Fixpoint leaves_at (l : list mnode) (id : N) : option (mhdr * N * melems) :=
  match l with
  | [] => None
  | c :: r => match leaf_at c id with Some s => Some s | None => leaves_at r id end
  end.
Lemma leaf_at_MM h hs cs id :
  leaf_at (MM h hs cs) id = if mh_id h =? id then None else leaves_at cs id.
Proof.
  cbn [leaf_at]. destruct (mh_id h =? id); [reflexivity|].
  induction cs as [|c r IH]; [reflexivity|]. cbn [leaves_at]. rewrite IH. reflexivity.
Qed.

(* start at slab [id]; yield its entries; continue with its [next] until SlabIDUndefined (0).
   A missing slab or a slab of the wrong kind ends the walk (the Go code returns an error there). *)
Fixpoint mfollow (fuel : nat) (t : mnode) (id : N) : dict :=
  match fuel with
  | O => []
  | S f =>
    if id =? 0 then []
    else match leaf_at t id with
         | Some (_, nx, es) => to_list es ++ mfollow f t nx
         | None => []
         end
  end.

Definition lfirst (ls : list mnode) (nxt : N) : N :=
  match ls with [] => nxt | L :: _ => nid L end.

Fixpoint linked (ls : list mnode) (nxt : N) : Prop :=
  match ls with
  | [] => True
  | L :: r => (exists h es, L = MD h (lfirst r nxt) es) /\ linked r nxt
  end.

Lemma linked_app A B nxt : linked (A ++ B) nxt <-> linked A (lfirst B nxt) /\ linked B nxt.
Proof.
  induction A as [|L r IH]; [cbn; tauto|]. cbn [app linked]. rewrite IH.
  assert (E : lfirst (r ++ B) nxt = lfirst r (lfirst B nxt)) by (destruct r; reflexivity).
  rewrite E. tauto.
Qed.
Lemma lfirst_app A B nxt : lfirst (A ++ B) nxt = lfirst A (lfirst B nxt).
Proof. destruct A; reflexivity. Qed.

Lemma leaves_linked n :
  shape n -> mleaves n <> [] /\ (forall x, lfirst (mleaves n) x = first_leaf_id n) /\
             (forall nxt, chain n nxt -> linked (mleaves n) nxt).
Proof.
  induction n as [h nx es|h hs cs IH] using mnode_ind'.
  - intros _. cbn. split; [congruence|]. split; [auto|]. intros nxt ->. split; [eauto|exact Logic.I].
  - intros Sh. apply shape_MM in Sh as (_ & Hne & Hf). cbn [mleaves].
    assert (H : (cs <> [] -> flat_map mleaves cs <> []) /\
                (forall x, lfirst (flat_map mleaves cs) x = fl cs x) /\
                (forall nxt, chain_list cs nxt -> linked (flat_map mleaves cs) nxt)).
    { clear Hne. induction IH as [|c r Hc Hr IHr].
      - cbn. split; [congruence|]. split; auto.
      - pose proof (Forall_inv Hf) as Sc. pose proof (Forall_inv_tail Hf) as Sr.
        destruct (Hc Sc) as (C1 & C2 & C3). destruct (IHr Sr) as (R1 & R2 & R3).
        cbn [flat_map]. split; [|split].
        + intros _ E. apply app_eq_nil in E. tauto.
        + intros x. rewrite lfirst_app. cbn [fl]. apply C2.
        + intros nxt. rewrite chain_list_cons, linked_app, R2. intros [A1 A2]. auto. }
    destruct H as (H1 & H2 & H3). split; [auto|]. split.
    + intros x. rewrite first_MM. rewrite H2. now apply fl_ne.
    + intros nxt. rewrite chain_MM. apply H3.
Qed.

Lemma to_list_leaves n : flat_map to_list_tree (mleaves n) = to_list_tree n.
Proof.
  induction n as [h nx es|h hs cs IH] using mnode_ind'.
  - cbn. apply app_nil_r.
  - cbn [mleaves to_list_tree]. induction IH as [|c r Hc Hr IHr]; [reflexivity|].
    cbn [flat_map]. now rewrite flat_map_app, Hc, IHr.
Qed.

Lemma leaf_in_tree_ids n L : In L (mleaves n) -> In (nid L) (tree_ids n).
Proof.
  induction n as [h nx es|h hs cs IH] using mnode_ind'.
  - cbn. intros [<-|[]]. now left.
  - cbn [mleaves tree_ids]. rewrite in_flat_map. intros (c & Hc & HL). right.
    rewrite in_flat_map. exists c. split; [auto|]. rewrite Forall_forall in IH. auto.
Qed.

Lemma leaves_in_flat cs L : In L (flat_map mleaves cs) -> In (nid L) (flat_map tree_ids cs).
Proof.
  rewrite !in_flat_map. intros (c & Hc & HL). exists c. split; [auto|]. now apply leaf_in_tree_ids.
Qed.

Lemma leaf_at_none n id : ~ In id (tree_ids n) -> leaf_at n id = None.
Proof.
  induction n as [h nx es|h hs cs IH] using mnode_ind'.
  - cbn. intros H. destruct (N.eqb_spec (mh_id h) id); [tauto|reflexivity].
  - rewrite leaf_at_MM, tree_ids_MM. cbn [In]. intros H. destruct (mh_id h =? id); [reflexivity|].
    assert (Hn : ~ In id (flat_map tree_ids cs)) by tauto. clear H.
    induction IH as [|c r Hc Hr IHr]; [reflexivity|]. cbn [leaves_at flat_map] in *.
    rewrite in_app_iff in Hn. rewrite Hc by tauto. apply IHr. tauto.
Qed.

Lemma leaf_lookup_list cs :
  Forall (fun n => NoDup (tree_ids n) ->
            forall h nx es, In (MD h nx es) (mleaves n) -> leaf_at n (mh_id h) = Some (h, nx, es)) cs ->
  NoDup (flat_map tree_ids cs) ->
  forall h nx es, In (MD h nx es) (flat_map mleaves cs) -> leaves_at cs (mh_id h) = Some (h, nx, es).
Proof.
  induction 1 as [|c r Hc Hr IHr]; intros HN h nx es Hin; [destruct Hin|].
  cbn [flat_map] in Hin, HN. cbn [leaves_at].
  assert (Nc : NoDup (tree_ids c)) by (eapply nodup_app_l; eauto).
  assert (Nr : NoDup (flat_map tree_ids r)) by (eapply nodup_app_r; eauto).
  apply in_app_or in Hin as [Hin|Hin].
  - now rewrite (Hc Nc _ _ _ Hin).
  - assert (Hn : leaf_at c (mh_id h) = None).
    { apply leaf_at_none. intros Hx. apply (nodup_app_disj _ _ _ HN Hx).
      apply (leaves_in_flat r (MD h nx es)). exact Hin. }
    rewrite Hn. now apply IHr.
Qed.

(* with unique slab indexes, looking a leaf up by its index finds that leaf *)
Lemma leaf_lookup n : NoDup (tree_ids n) ->
  forall h nx es, In (MD h nx es) (mleaves n) -> leaf_at n (mh_id h) = Some (h, nx, es).
Proof.
  induction n as [h0 nx0 es0|h0 hs cs IH] using mnode_ind'; intros HN h nx es Hin.
  - cbn in Hin. destruct Hin as [[= -> -> ->]|[]]. cbn. now rewrite N.eqb_refl.
  - cbn [mleaves] in Hin. pose proof (leaves_in_flat _ _ Hin) as Hid. unfold nid in Hid; cbn [hdr_of] in Hid.
    rewrite tree_ids_MM in HN. inversion HN as [|? ? Hnotin HN']; subst.
    rewrite leaf_at_MM. destruct (N.eqb_spec (mh_id h0) (mh_id h)) as [E|_]; [rewrite E in Hnotin; tauto|].
    now apply leaf_lookup_list.
Qed.

Lemma follow_linked t ls nxt :
  linked ls nxt ->
  (forall h nx es, In (MD h nx es) ls -> mh_id h <> 0 /\ leaf_at t (mh_id h) = Some (h, nx, es)) ->
  forall f, mfollow (length ls + f) t (lfirst ls nxt) = flat_map to_list_tree ls ++ mfollow f t nxt.
Proof.
  induction ls as [|L r IH]; intros HL Hlk f; [reflexivity|].
  cbn [linked] in HL. destruct HL as ((h & es & ->) & HL).
  destruct (Hlk h _ es (or_introl eq_refl)) as [Hz Hn].
  cbn [length Nat.add mfollow lfirst]. unfold nid; cbn [hdr_of].
  replace (mh_id h =? 0) with false by lia. rewrite Hn.
  rewrite IH; [|exact HL|intros; apply Hlk; now right].
  cbn [flat_map to_list_tree]. now rewrite app_assoc.
Qed.

Lemma tree_slab_perm n : exists R, Permutation (mslab_ids n) (tree_ids n ++ R).
Proof.
  induction n as [h nx es|h hs cs IH] using mnode_ind'.
  - exists (gids es). reflexivity.
  - assert (H : exists R, Permutation (flat_map mslab_ids cs) (flat_map tree_ids cs ++ R)).
    { induction IH as [|c r [Rc Hc] _ [Rr Hr]]; [exists []; reflexivity|].
      exists (Rc ++ Rr). cbn [flat_map]. perm_solve. }
    destruct H as [R HR]. exists R. rewrite mslab_ids_MM, tree_ids_MM. cbn [app]. now apply perm_skip.
Qed.

Lemma nodup_tree_ids n : NoDup (mslab_ids n) -> NoDup (tree_ids n).
Proof.
  intros H. destruct (tree_slab_perm n) as [R HP].
  apply (Permutation_NoDup HP) in H. eapply nodup_app_l; eauto.
Qed.

(** G3, traversal: the walk along the sibling links yields exactly the entries, in iteration order,
    and ends by reaching the undefined link, not by running out of fuel *)
Theorem mfollow_to_list n :
  shape n -> chain n 0 -> NoDup (tree_ids n) -> Forall (fun i => 0 < i) (tree_ids n) ->
  forall fuel, (length (mleaves n) <= fuel)%nat ->
  mfollow fuel n (first_leaf_id n) = to_list_tree n.
Proof.
  intros Sh Ch HN HP fuel Hf. destruct (leaves_linked n Sh) as (L1 & L2 & L3).
  replace fuel with (length (mleaves n) + (fuel - length (mleaves n)))%nat by lia.
  rewrite <- (L2 0). rewrite follow_linked.
  - rewrite to_list_leaves. destruct (fuel - length (mleaves n))%nat; cbn; apply app_nil_r.
  - auto.
  - intros h nx es Hin. split; [|now apply leaf_lookup].
    apply leaf_in_tree_ids in Hin. rewrite Forall_forall in HP. apply HP in Hin.
    unfold nid in Hin; cbn [hdr_of] in Hin. lia.
Qed.

(* the data slab found by [leaf_at] is the slab whose own content [mnode_at] returns *)
Lemma leaf_at_in n id x : leaf_at n id = Some x -> In id (tree_ids n).
Proof.
  intros H. destruct (in_dec N.eq_dec id (tree_ids n)) as [Hi|Hn]; [exact Hi|].
  rewrite leaf_at_none in H by exact Hn. discriminate.
Qed.

Lemma leaf_at_mnode_at n : NoDup (mslab_ids n) ->
  forall id h nx es, leaf_at n id = Some (h, nx, es) -> mnode_at n id = Some (SD h nx (strip_g es)).
Proof.
  induction n as [h0 nx0 es0|h0 hs cs IH] using mnode_ind'; intros HN id h nx es H.
  - cbn in *. destruct (mh_id h0 =? id); [|discriminate]. now injection H as <- <- <-.
  - rewrite leaf_at_MM in H. rewrite mnode_at_MM. destruct (mh_id h0 =? id); [discriminate|].
    rewrite mslab_ids_MM in HN. apply NoDup_cons_iff in HN as [_ HN].
    induction IH as [|c r Hc Hr IHr]; [discriminate|]. cbn [leaves_at nodes_at flat_map] in *.
    destruct (leaf_at c id) as [x|] eqn:E.
    + injection H as ->. rewrite (Hc (nodup_app_l _ _ HN) _ _ _ _ E). reflexivity.
    + assert (Hi : In id (flat_map mslab_ids r)).
      { clear - H. induction r as [|c2 r IH]; [discriminate|]. cbn [leaves_at flat_map] in *.
        apply in_or_app. destruct (leaf_at c2 id) eqn:E2; [left|right; auto].
        apply in_tree_slab. eapply leaf_at_in; eauto. }
      assert (Hn : mnode_at c id = None).
      { apply mnode_at_none. intros Hx. eapply nodup_app_disj; eauto. }
      rewrite Hn. apply IHr; [eapply nodup_app_r; eauto|exact H].
Qed.

Section tree.
  Variable dg : N -> nat -> N.
  Variable levels : nat.
  Variable max_inline_elem limit : N.
  Variable c : cfg.

  Local Notation n_set := (n_set dg levels max_inline_elem limit c).
  Local Notation n_remove := (n_remove dg levels c).
  Local Notation leaf_set := (leaf_set dg levels max_inline_elem limit).
  Local Notation leaf_remove := (leaf_remove dg levels).
  Local Notation fix_child := (fix_child c).
  Local Notation merge_or_rebalance := (merge_or_rebalance c).
  Local Notation rebalance_children := (rebalance_children c).
  Local Notation n_lend_to_right := (n_lend_to_right c).
  Local Notation n_borrow_from_right := (n_borrow_from_right c).
  Local Notation mt_set := (mt_set dg levels max_inline_elem limit c).
  Local Notation mt_remove := (mt_remove dg levels c).
  Local Notation mt_step := (mt_step dg levels max_inline_elem limit c).
  Local Notation mt_run := (mt_run dg levels max_inline_elem limit c).
  Local Notation fix_root := (fix_root c).

  (** ** 8. The primitive regroupings, with the byte sizes abstracted away *)

  Lemma n_split_inv n newid l r :
    n_split n newid = TOk (l, r) ->
    (exists h nx lv hks els sz lc hl hr szl szr,
        n = MD h nx (HKey lv hks els sz) /\
        l = MD hl newid (HKey lv (firstn lc hks) (firstn lc els) szl) /\
        r = MD hr nx (HKey lv (skipn lc hks) (skipn lc els) szr) /\
        mh_id hl = mh_id h /\ mh_id hr = newid) \/
    (exists h hs cs lc hl hr, n = MM h hs cs /\
        l = MM hl (firstn lc hs) (firstn lc cs) /\ r = MM hr (skipn lc hs) (skipn lc cs)
        /\ mh_id hl = mh_id h /\ mh_id hr = newid /\ (1 <= lc)%nat /\ (lc < length hs)%nat).
  Proof.
    destruct n as [h nx [lv hks els sz|lv kvs sz]|h hs cs]; cbn [n_split]; [| discriminate |].
    - destruct (Nat.ltb (length els) 2); [discriminate|].
      destruct (split_point _ _ _ _ _) as [lc ls]. intros [= <- <-].
      left. do 11 eexists. repeat (split; [reflexivity|]). reflexivity.
    - destruct (Nat.ltb (length hs) 2) eqn:E; [discriminate|].
      set (lc := Nat.div2 (S (length hs))).
      assert (Hlc : (1 <= lc)%nat /\ (lc < length hs)%nat).
      { subst lc. apply Nat.ltb_ge in E. rewrite Nat.div2_div.
        split; [apply Nat.div_le_lower_bound; lia | apply Nat.div_lt_upper_bound; lia]. }
      clearbody lc. intros [= <- <-].
      right. do 6 eexists. repeat (split; [reflexivity|]). exact Hlc.
  Qed.

  Lemma n_merge_inv l r m :
    n_merge l r = TOk m ->
    (exists h nx lv hks els sz h2 nx2 lv2 hks2 els2 sz2 hm szm,
        l = MD h nx (HKey lv hks els sz) /\ r = MD h2 nx2 (HKey lv2 hks2 els2 sz2) /\
        m = MD hm nx2 (HKey lv (hks ++ hks2) (els ++ els2) szm) /\ mh_id hm = mh_id h) \/
    (exists h hs cs h2 hs2 cs2 hm, l = MM h hs cs /\ r = MM h2 hs2 cs2 /\
        m = MM hm (hs ++ hs2) (cs ++ cs2) /\ mh_id hm = mh_id h).
  Proof.
    destruct l as [h nx [lv hks els sz|lv kvs sz]|h hs cs];
      destruct r as [h2 nx2 [lv2 hks2 els2 sz2|lv2 kvs2 sz2]|h2 hs2 cs2]; cbn [n_merge];
      try discriminate; intros [= <-].
    - left. do 14 eexists. repeat (split; [reflexivity|]). reflexivity.
    - right. do 7 eexists. repeat (split; [reflexivity|]). reflexivity.
  Qed.

  Lemma div2_facts a b : (1 <= a)%nat -> (1 <= b)%nat ->
    (1 <= Nat.div2 (a + b))%nat /\ (Nat.div2 (a + b) - a < b)%nat /\ (Nat.div2 (a + b) < a + b)%nat.
  Proof.
    intros Ha Hb. rewrite Nat.div2_div.
    assert (H1 : (1 <= (a + b) / 2)%nat) by (apply Nat.div_le_lower_bound; lia).
    assert (H2 : ((a + b) / 2 < a + b)%nat) by (apply Nat.div_lt_upper_bound; lia).
    lia.
  Qed.

  Lemma pair_inv (b : bool) l r l' r' :
    (if b then n_borrow_from_right l r else n_lend_to_right l r) = TOk (l', r') ->
    (exists h nx lv hks els sz h2 nx2 lv2 hks2 els2 sz2 hl hr hksl esl szl hksr esr szr,
        l = MD h nx (HKey lv hks els sz) /\ r = MD h2 nx2 (HKey lv2 hks2 els2 sz2) /\
        l' = MD hl nx (HKey lv hksl esl szl) /\ r' = MD hr nx2 (HKey lv2 hksr esr szr) /\
        esl ++ esr = els ++ els2 /\ mh_id hl = mh_id h /\ mh_id hr = mh_id h2 /\
        (length hks = length els -> length hks2 = length els2 ->
         length hksl = length esl /\ length hksr = length esr)) \/
    (exists h hs cs h2 hs2 cs2 hl hsl csl hr hsr csr,
        l = MM h hs cs /\ r = MM h2 hs2 cs2 /\
        l' = MM hl hsl csl /\ r' = MM hr hsr csr /\
        csl ++ csr = cs ++ cs2 /\ mh_id hl = mh_id h /\ mh_id hr = mh_id h2 /\
        (length hs = length cs -> length hs2 = length cs2 -> cs <> [] -> cs2 <> [] ->
         length hsl = length csl /\ length hsr = length csr /\ csl <> [] /\ csr <> [])).
  Proof.
    destruct l as [h nx [lv hks els sz|lv kvs sz]|h hs cs];
      destruct r as [h2 nx2 [lv2 hks2 els2 sz2|lv2 kvs2 sz2]|h2 hs2 cs2]; destruct b;
      cbn [MapTree.n_borrow_from_right MapTree.n_lend_to_right]; try discriminate.
    - destruct (negb (lv =? lv2)%nat); [discriminate|].
      destruct (borrow_loop _ _ _ _ _ _) as [lc ls]. intros [= <- <-].
      left. do 20 eexists. repeat (split; [reflexivity|]).
      split; [now rewrite <- app_assoc, firstn_skipn|]. split; [reflexivity|]. split; [reflexivity|].
      intros E1 E2. rewrite !app_length, !firstn_length, !skipn_length. lia.
    - destruct (negb (lv =? lv2)%nat); [discriminate|].
      destruct (lend_loop _ _ _ _ _ _) as [lc ls]. intros [= <- <-].
      left. do 20 eexists. repeat (split; [reflexivity|]).
      split; [now rewrite app_assoc, firstn_skipn|]. split; [reflexivity|]. split; [reflexivity|].
      intros E1 E2. rewrite !app_length, !firstn_length, !skipn_length. lia.
    - destruct (Nat.ltb _ _); [discriminate|].
      intros [= <- <-]. right. do 12 eexists. repeat (split; [reflexivity|]).
      split; [now rewrite <- app_assoc, firstn_skipn|]. split; [reflexivity|]. split; [reflexivity|].
      intros E1 E2 N1 N2.
      assert (L1 : (1 <= length cs)%nat) by (destruct cs; cbn; [congruence|lia]).
      assert (L2 : (1 <= length cs2)%nat) by (destruct cs2; cbn; [congruence|lia]).
      rewrite E1, E2. destruct (div2_facts (length cs) (length cs2) L1 L2) as (D1 & D2 & D3).
      set (mv := (Nat.div2 (length cs + length cs2) - length cs)%nat) in *.
      split; [rewrite !app_length, !firstn_length; lia|].
      split; [rewrite !skipn_length; lia|].
      split; [destruct cs; cbn; congruence|].
      intros E. apply (f_equal (@length _)) in E. rewrite skipn_length in E. cbn in E. lia.
    - destruct (Nat.ltb _ _); [discriminate|].
      intros [= <- <-]. right. do 12 eexists. repeat (split; [reflexivity|]).
      split; [now rewrite app_assoc, firstn_skipn|]. split; [reflexivity|]. split; [reflexivity|].
      intros E1 E2 N1 N2.
      assert (L1 : (1 <= length cs)%nat) by (destruct cs; cbn; [congruence|lia]).
      assert (L2 : (1 <= length cs2)%nat) by (destruct cs2; cbn; [congruence|lia]).
      rewrite E1, E2. destruct (div2_facts (length cs) (length cs2) L1 L2) as (D1 & D2 & D3).
      set (lc := Nat.div2 (length cs + length cs2)) in *.
      split; [rewrite !firstn_length; lia|].
      split; [rewrite !app_length, !skipn_length; lia|].
      split; [|destruct cs2; [congruence|]; destruct (skipn lc cs); cbn; congruence].
      intros E. apply (f_equal (@length _)) in E. rewrite firstn_length in E. cbn in E. lia.
  Qed.

  (** ** 9. What a regrouping of adjacent siblings preserves *)

  Record seg_ok (seg seg' : list mnode) (fresh rem st : list N) : Prop := {
    so_ids : Permutation (flat_map mslab_ids seg' ++ rem) (flat_map mslab_ids seg ++ fresh);
    so_ne : seg <> [] -> seg' <> [];
    so_shape : Forall shape seg ->
               Forall shape seg' /\ (forall x, fl seg' x = fl seg x) /\
               (forall nxt, chain_list seg nxt -> chain_list seg' nxt);
    so_frame : forall id, ~ In id st -> ~ In id rem -> nodes_at seg' id = nodes_at seg id;
    so_st : forall id, In id st -> In id (flat_map tree_ids seg');
    so_fresh : forall id, In id fresh -> In id st
  }.

  Lemma split_seg ch newid l r :
    n_split ch newid = TOk (l, r) -> seg_ok [ch] [l; r] [newid] [] [nid l; nid r].
  Proof.
    intros H. apply n_split_inv in H as
      [(h & nx & lv & hks & els & sz & lc & hl & hr & szl & szr & -> & -> & -> & E1 & E2)
      |(h & hs & cs & lc & hl & hr & -> & -> & -> & E1 & E2 & L1 & L2)].
    - assert (Ee : firstn lc els ++ skipn lc els = els) by apply firstn_skipn.
      split.
      + cbn [flat_map mslab_ids app]. rewrite !gids_HKey, !app_nil_r, E1, E2.
        rewrite <- Ee at 3. rewrite flat_map_app. perm_solve.
      + congruence.
      + intros Hs. apply Forall_inv in Hs. cbn [shape] in Hs. apply eshape_HKey in Hs as [Hl Hf].
        split.
        * constructor; [|constructor; [|constructor]]; cbn [shape]; apply eshape_HKey.
          -- split; [rewrite !firstn_length; lia|now apply Forall_firstn'].
          -- split; [rewrite !skipn_length; lia|now apply Forall_skipn'].
        * split; [intros x; cbn; congruence|]. intros nxt. cbn. intros ->. auto.
      + intros id Hn _. unfold nid in Hn; cbn [In hdr_of] in Hn.
        rewrite nodes_leaf2, nodes_leaf1, Ee by lia. reflexivity.
      + intros id [<-|[<-|[]]]; cbn; auto.
      + intros id [<-|[]]. cbn. auto.
    - assert (Ecs : firstn lc cs ++ skipn lc cs = cs) by apply firstn_skipn.
      split.
      + cbn [flat_map app]. rewrite !mslab_ids_MM, !app_nil_r, E1, E2.
        rewrite <- Ecs at 3. rewrite flat_map_app. perm_solve.
      + congruence.
      + intros Hs. apply Forall_inv in Hs. apply shape_MM in Hs as (Hl & Hne & Hf).
        assert (N1 : firstn lc cs <> []) by (apply firstn_ne; auto).
        assert (N2 : skipn lc cs <> []) by (apply skipn_ne; lia).
        rewrite <- Ecs in Hf. apply Forall_app in Hf as [Hf1 Hf2].
        split.
        * constructor; [|constructor; [|constructor]]; apply shape_MM; (split; [|split]); auto.
          -- rewrite !firstn_length. lia.
          -- rewrite !skipn_length. lia.
        * split.
          -- intros x. cbn [fl]. rewrite !first_MM. rewrite <- Ecs at 2. rewrite fl_app. now apply fl_ne.
          -- intros nxt. cbn [chain_list]. intros Hc. apply chain2_MM; [exact N2|].
             rewrite chain_MM in Hc. now rewrite Ecs.
      + intros id Hn _. unfold nid in Hn; cbn [In hdr_of] in Hn. rewrite nodes2_MM by lia.
        rewrite Ecs, nodes1, mnode_at_MM. replace (mh_id h =? id) with false by lia. reflexivity.
      + intros id [<-|[<-|[]]]; cbn; auto. right. apply in_or_app. right. now left.
      + intros id [<-|[]]. cbn. auto.
  Qed.

  Lemma merge_seg l r m :
    n_merge l r = TOk m -> seg_ok [l; r] [m] [] [nid r] [nid m].
  Proof.
    intros H. apply n_merge_inv in H as
      [(h & nx & lv & hks & els & sz & h2 & nx2 & lv2 & hks2 & els2 & sz2 & hm & szm & -> & -> & -> & E1)
      |(h & hs & cs & h2 & hs2 & cs2 & hm & -> & -> & -> & E1)].
    - split.
      + unfold nid; cbn [flat_map mslab_ids app hdr_of]. rewrite !gids_HKey, !app_nil_r, E1, flat_map_app. perm_solve.
      + congruence.
      + intros Hs. pose proof (Forall_inv Hs) as S1. pose proof (Forall_inv (Forall_inv_tail Hs)) as S2.
        cbn [shape] in S1, S2. apply eshape_HKey in S1 as [A1 A2]. apply eshape_HKey in S2 as [B1 B2].
        split.
        * constructor; [|constructor]. cbn [shape]. apply eshape_HKey. rewrite !app_length.
          split; [lia|apply Forall_app; auto].
        * split; [intros x; cbn; congruence|]. intros nxt. cbn. tauto.
      + intros id Hn Hr. unfold nid in Hn, Hr; cbn [In hdr_of] in Hn, Hr.
        rewrite nodes_leaf2, nodes_leaf1 by lia. reflexivity.
      + intros id [<-|[]]; cbn; auto.
      + intros id [].
    - split.
      + unfold nid; cbn [flat_map app hdr_of]. rewrite !mslab_ids_MM, !app_nil_r, E1, flat_map_app. perm_solve.
      + congruence.
      + intros Hs. pose proof (Forall_inv Hs) as S1. pose proof (Forall_inv (Forall_inv_tail Hs)) as S2.
        apply shape_MM in S1 as (Hl1 & Hne1 & Hf1). apply shape_MM in S2 as (Hl2 & Hne2 & Hf2).
        split.
        * constructor; [|constructor]. apply shape_MM. split; [rewrite !app_length; lia|].
          split; [destruct cs; cbn; congruence|]. apply Forall_app; auto.
        * split.
          -- intros x. cbn [fl]. rewrite !first_MM, fl_app. now apply fl_ne.
          -- intros nxt. cbn [chain_list]. intros Hc. apply chain2_MM in Hc; [|exact Hne2].
             now rewrite chain_MM.
      + intros id Hn Hr. unfold nid in Hn, Hr; cbn [In hdr_of] in Hn, Hr. rewrite nodes2_MM by lia.
        rewrite nodes1, mnode_at_MM. replace (mh_id hm =? id) with false by lia. reflexivity.
      + intros id [<-|[]]; cbn; auto.
      + intros id [].
  Qed.

  Lemma pair_seg (b : bool) l r l' r' :
    (if b then n_borrow_from_right l r else n_lend_to_right l r) = TOk (l', r') ->
    seg_ok [l; r] [l'; r'] [] [] [nid l'; nid r'].
  Proof.
    intros H. apply pair_inv in H as
      [(h & nx & lv & hks & els & sz & h2 & nx2 & lv2 & hks2 & els2 & sz2 & hl & hr & hksl & esl & szl & hksr & esr & szr &
        -> & -> & -> & -> & Ee & E1 & E2 & Hlen)
      |(h & hs & cs & h2 & hs2 & cs2 & hl & hsl & csl & hr & hsr & csr &
        -> & -> & -> & -> & Ee & E1 & E2 & Hsh)].
    - split.
      + cbn [flat_map mslab_ids app]. rewrite !gids_HKey, !app_nil_r, E1, E2.
        assert (E : Permutation (flat_map eids_e esl ++ flat_map eids_e esr) (flat_map eids_e els ++ flat_map eids_e els2))
          by now rewrite <- !flat_map_app, Ee.
        perm_solve.
      + congruence.
      + intros Hs. pose proof (Forall_inv Hs) as S1. pose proof (Forall_inv (Forall_inv_tail Hs)) as S2.
        cbn [shape] in S1, S2. apply eshape_HKey in S1 as [A1 A2]. apply eshape_HKey in S2 as [B1 B2].
        destruct (Hlen A1 B1) as [L1 L2].
        assert (Hf : Forall eshape_e (esl ++ esr)) by (rewrite Ee; apply Forall_app; auto).
        apply Forall_app in Hf as [Hfl Hfr].
        split.
        * constructor; [|constructor; [|constructor]]; cbn [shape]; apply eshape_HKey; auto.
        * split; [intros x; cbn; congruence|]. intros nxt. cbn. rewrite E2. tauto.
      + intros id Hn _. unfold nid in Hn; cbn [In hdr_of] in Hn.
        rewrite !nodes_leaf2 by lia. now rewrite Ee.
      + intros id [<-|[<-|[]]]; cbn; auto.
      + intros id [].
    - split.
      + cbn [flat_map app]. rewrite !mslab_ids_MM, !app_nil_r, E1, E2.
        assert (E : Permutation (flat_map mslab_ids csl ++ flat_map mslab_ids csr)
                                (flat_map mslab_ids cs ++ flat_map mslab_ids cs2))
          by now rewrite <- !flat_map_app, Ee.
        perm_solve.
      + congruence.
      + intros Hs. pose proof (Forall_inv Hs) as S1. pose proof (Forall_inv (Forall_inv_tail Hs)) as S2.
        apply shape_MM in S1 as (Hl1 & Hne1 & Hf1). apply shape_MM in S2 as (Hl2 & Hne2 & Hf2).
        destruct (Hsh Hl1 Hl2 Hne1 Hne2) as (L1 & L2 & N1 & N2).
        assert (Hf : Forall shape (csl ++ csr)) by (rewrite Ee; apply Forall_app; auto).
        apply Forall_app in Hf as [Hfl Hfr].
        split.
        * constructor; [|constructor; [|constructor]]; apply shape_MM; auto.
        * split.
          -- intros x. cbn [fl]. rewrite !first_MM.
             rewrite (fl_ne csl 0 (fl csr 0) N1), (fl_ne cs 0 (fl cs2 0) Hne1), <- !fl_app. now rewrite Ee.
          -- intros nxt. cbn [chain_list]. intros Hc. apply chain2_MM in Hc; [|exact Hne2].
             apply chain2_MM; [exact N2|]. now rewrite Ee.
      + intros id Hn _. unfold nid in Hn; cbn [In hdr_of] in Hn. rewrite !nodes2_MM by lia. now rewrite Ee.
      + intros id [<-|[<-|[]]]; cbn; auto. right. apply in_or_app. right. now left.
      + intros id [].
  Qed.

  Lemma nil_seg : seg_ok [] [] [] [] [].
  Proof.
    split; auto; try (intros id []); try (intros _; split; [constructor|]; split; auto).
  Qed.

  (** ** 10. The relational view of a mutation: one leaf update, then one local repair per level *)

  (* repair of an index slab [hid] with children [cs] after one child changed: nothing / split of a
     child / rebalance of two adjacent children / merge of two adjacent children.  The header and
     the child header copies of the result are left unconstrained (they are the business of the
     size proofs); only identities, order and links matter. *)
  Inductive pfix (hid : N) (nh : nat) (cs : list mnode) (alloc : N) : mnode -> N -> wlog -> Prop :=
  | pf_plain : forall h' hs',
      mh_id h' = hid -> length hs' = nh ->
      pfix hid nh cs alloc (MM h' hs' cs) alloc [WStore hid]
  | pf_split : forall h' hs' pre ch post l r,
      cs = pre ++ ch :: post ->
      n_split ch (alloc + 1) = TOk (l, r) ->
      mh_id h' = hid -> length hs' = S nh ->
      pfix hid nh cs alloc (MM h' hs' (pre ++ l :: r :: post)) (alloc + 1)
           [WStore (nid l); WStore (nid r); WStore hid]
  | pf_rebal : forall h' hs' pre l r post l' r' (b : bool),
      cs = pre ++ l :: r :: post ->
      (if b then n_borrow_from_right l r else n_lend_to_right l r) = TOk (l', r') ->
      mh_id h' = hid -> length hs' = nh ->
      pfix hid nh cs alloc (MM h' hs' (pre ++ l' :: r' :: post)) alloc
           [WStore (nid l'); WStore (nid r'); WStore hid]
  | pf_merge : forall h' hs' pre l r post m,
      cs = pre ++ l :: r :: post ->
      n_merge l r = TOk m ->
      mh_id h' = hid ->
      (nh = length cs -> length hs' = pred nh) ->
      pfix hid nh cs alloc (MM h' hs' (pre ++ m :: post)) alloc
           [WStore (nid m); WStore hid; WRemove (nid r)].

  Inductive nstep : mnode -> N -> mnode -> N -> wlog -> Prop :=
  | ns_leaf : forall h nx es h' es' alloc alloc' evs,
      mh_id h' = mh_id h -> eshape es' ->
      xstage (gids es) (ext_at es) alloc (gids es') (ext_at es') alloc' evs ->
      nstep (MD h nx es) alloc (MD h' nx es') alloc' (evs ++ [WStore (mh_id h)])
  | ns_node : forall h hs pre ch post alloc ch' alloc1 lg1 n' alloc' lg',
      nstep ch alloc ch' alloc1 lg1 ->
      pfix (mh_id h) (length hs) (pre ++ ch' :: post) alloc1 n' alloc' lg' ->
      nstep (MM h hs (pre ++ ch :: post)) alloc n' alloc' (lg1 ++ lg').

  Lemma first_if0_id k h x : mh_id (first_if0 k h x) = mh_id h.
  Proof. destruct k; reflexivity. Qed.

  Lemma split_child_pfix h hs pre ch post alloc n' alloc' lg :
    split_child h hs (pre ++ ch :: post) (length pre) ch alloc = TOk (n', alloc', lg) ->
    pfix (mh_id h) (length hs) (pre ++ ch :: post) alloc n' alloc' lg.
  Proof.
    unfold split_child. destruct (n_split ch (alloc + 1)) as [[l r]|] eqn:E; [|discriminate].
    rewrite (replace_nth_app pre), insert_nth_app2 by reflexivity.
    set (hs1 := insert_nth _ _ (replace_nth _ _ hs)).
    assert (Hh : length hs1 = S (length hs)) by (subst hs1; now rewrite length_insert_nth, length_replace_nth).
    clearbody hs1.
    intros H; injection H as <- <- <-.
    eapply pf_split; eauto.
  Qed.

  Lemma rebalance_children_pfix h hs pre l r post b alloc n' lg :
    rebalance_children h hs (pre ++ l :: r :: post) (length pre) l r b = TOk (n', lg) ->
    pfix (mh_id h) (length hs) (pre ++ l :: r :: post) alloc n' alloc lg.
  Proof.
    unfold MapTree.rebalance_children.
    destruct (if b then n_borrow_from_right l r else n_lend_to_right l r) as [[l' r']|] eqn:E; [|discriminate].
    rewrite (replace_nth_app pre), replace_nth_app2 by reflexivity.
    set (hs1 := replace_nth _ _ (replace_nth _ _ hs)).
    assert (Hh : length hs1 = length hs) by (subst hs1; now rewrite !length_replace_nth).
    clearbody hs1.
    intros H; injection H as <- <-.
    eapply pf_rebal; eauto. apply first_if0_id.
  Qed.

  Lemma merge_children_pfix h hs pre l r post alloc n' lg :
    merge_children h hs (pre ++ l :: r :: post) (length pre) l r = TOk (n', lg) ->
    pfix (mh_id h) (length hs) (pre ++ l :: r :: post) alloc n' alloc lg.
  Proof.
    unfold merge_children. destruct (n_merge l r) as [m|] eqn:E; [|discriminate].
    rewrite (replace_nth_app pre), remove_nth_app2 by reflexivity.
    set (hs1 := remove_nth _ (replace_nth _ _ hs)).
    assert (Hh : length hs = length (pre ++ l :: r :: post) -> length hs1 = pred (length hs)).
    { intros Hn. subst hs1. rewrite length_remove_nth; rewrite length_replace_nth; [reflexivity|].
      rewrite Hn, app_length. cbn. lia. }
    clearbody hs1.
    intros H; injection H as <- <-.
    eapply pf_merge; eauto. rewrite first_if0_id. reflexivity.
  Qed.

  Lemma nth_error_last_pre {A} (pre : list A) x post k ls :
    length pre = S k -> nth_error (pre ++ x :: post) k = Some ls ->
    exists p, pre = p ++ [ls] /\ length p = k.
  Proof.
    intros Hl Hn. destruct (exists_last (l:=pre)) as (p & a & ->); [destruct pre; discriminate|].
    rewrite app_length in Hl; cbn in Hl. assert (length p = k) by lia.
    exists p. split; [|auto]. rewrite <- app_assoc in Hn. rewrite nth_error_app2 in Hn by lia.
    replace (k - length p)%nat with O in Hn by lia. cbn in Hn. congruence.
  Qed.

  Lemma merge_or_rebalance_pfix h hs pre ch post need alloc n' lg :
    merge_or_rebalance h hs (pre ++ ch :: post) (length pre) ch need = TOk (n', lg) ->
    pfix (mh_id h) (length hs) (pre ++ ch :: post) alloc n' alloc lg.
  Proof.
    unfold MapTree.merge_or_rebalance.
    assert (Hr : nth_error (pre ++ ch :: post) (S (length pre)) = nth_error post 0).
    { rewrite nth_error_app2 by lia. replace (S (length pre) - length pre)%nat with 1%nat by lia. reflexivity. }
    rewrite Hr; clear Hr.
    set (lsib := match length pre with O => None | S k' => nth_error (pre ++ ch :: post) k' end).
    assert (Hl : forall ls, lsib = Some ls -> exists p, pre = p ++ [ls] /\ length p = pred (length pre)).
    { intros ls. subst lsib. destruct (length pre) eqn:El; [discriminate|]. intros Hn.
      cbn [pred]. eapply nth_error_last_pre; eauto. }
    assert (Hrs : forall rs, nth_error post 0 = Some rs -> exists q, post = rs :: q).
    { intros rs. destruct post; cbn; [discriminate|]. intros [= ->]. eauto. }
    destruct lsib as [ls|] eqn:Els; destruct (nth_error post 0) as [rs|] eqn:Ers.
    - destruct (Hl _ eq_refl) as (p & -> & Hp). destruct (Hrs _ eq_refl) as (q & ->).
      assert (Ecs : (p ++ [ls]) ++ ch :: rs :: q = p ++ ls :: ch :: rs :: q) by now rewrite <- app_assoc.
      repeat match goal with |- context [if ?b then _ else _] => destruct b end; intros H;
        first [ eapply rebalance_children_pfix; exact H | eapply merge_children_pfix; exact H
              | rewrite <- Hp in H; rewrite Ecs in *;
                first [eapply rebalance_children_pfix; exact H | eapply merge_children_pfix; exact H] ].
    - destruct (Hl _ eq_refl) as (p & -> & Hp).
      assert (Ecs : (p ++ [ls]) ++ ch :: post = p ++ ls :: ch :: post) by now rewrite <- app_assoc.
      repeat match goal with |- context [if ?b then _ else _] => destruct b end; intros H;
        rewrite <- Hp in H; rewrite Ecs in *;
        first [eapply rebalance_children_pfix; exact H | eapply merge_children_pfix; exact H].
    - destruct (Hrs _ eq_refl) as (q & ->).
      repeat match goal with |- context [if ?b then _ else _] => destruct b end; intros H;
        first [eapply rebalance_children_pfix; exact H | eapply merge_children_pfix; exact H].
    - repeat match goal with |- context [if ?b then _ else _] => destruct b end; discriminate.
  Qed.

  Lemma fix_child_pfix h hs pre ch ch' post alloc n' alloc' lg :
    fix_child h hs (pre ++ ch :: post) (length pre) ch' alloc = TOk (n', alloc', lg) ->
    pfix (mh_id h) (length hs) (pre ++ ch' :: post) alloc n' alloc' lg.
  Proof.
    unfold MapTree.fix_child. rewrite (replace_nth_app pre) by reflexivity.
    set (h1 := first_if0 (length pre) h ch').
    assert (Eh : mh_id h1 = mh_id h) by apply first_if0_id.
    set (hs1 := replace_nth (length pre) (hdr_of ch') hs).
    assert (Hh : length hs1 = length hs) by (subst hs1; apply length_replace_nth).
    clearbody h1 hs1.
    destruct (n_is_full c ch').
    - intros H. apply split_child_pfix in H. rewrite Eh, Hh in H. exact H.
    - destruct (n_underflow c ch') as [need|].
      + destruct (merge_or_rebalance h1 hs1 (pre ++ ch' :: post) (length pre) ch' need) as [[n1 lg1]|] eqn:Em; [|discriminate].
        intros [= <- <- <-]. apply (merge_or_rebalance_pfix _ _ _ _ _ _ alloc) in Em. rewrite Eh, Hh in Em. exact Em.
      + intros [= <- <- <-]. apply pf_plain; assumption.
  Qed.

  Lemma n_set_MM pfx h hs cs k v alloc :
    n_set pfx (MM h hs cs) k v alloc =
      let i := route_set hs (hkey0 dg (kid k)) in
      match on_kth (fun ch => n_set P ch k v alloc) cs i with
      | None => TErr TSlabNotFound
      | Some (TErr x) => TErr x
      | Some (TOk (ch', prev, alloc', lg)) =>
        match fix_child h hs cs i ch' alloc' with
        | TErr x => TErr x
        | TOk (n', alloc'', lg') => TOk (n', prev, alloc'', lg ++ lg')
        end
      end.
  Proof. reflexivity. Qed.

  Lemma n_remove_MM pfx h hs cs k alloc :
    n_remove pfx (MM h hs cs) k alloc =
      match route_get hs (hkey0 dg k) with
      | None => TErr (TElem EKeyNotFound)
      | Some i =>
        match on_kth (fun ch => n_remove P ch k alloc) cs i with
        | None => TErr TSlabNotFound
        | Some (TErr x) => TErr x
        | Some (TOk (ch', kvp, alloc', lg)) =>
          match fix_child h hs cs i ch' alloc' with
          | TErr x => TErr x
          | TOk (n', alloc'', lg') => TOk (n', kvp, alloc'', lg ++ lg')
          end
        end
      end.
  Proof. reflexivity. Qed.

  (** ** 11. Every successful node operation is an [nstep] *)

  Lemma n_set_nstep : forall n, shape n -> forall pfx k v alloc n' prev alloc' lg,
    n_set pfx n k v alloc = TOk (n', prev, alloc', lg) -> nstep n alloc n' alloc' lg.
  Proof.
    induction n as [h nx es|h hs cs IH] using mnode_ind'; intros Sh pfx k v alloc n' prev alloc' lg H.
    - cbn [MapTree.n_set] in H. unfold MapTree.leaf_set in H.
      destruct (set_elems dg levels max_inline_elem limit (op_fuel levels) es 0 k v (alloc + 1))
        as [err|[[[es' prev'] a1] evs]] eqn:E; [discriminate|].
      injection H as <- <- <- <-.
      apply (proj2 (set_ok dg levels max_inline_elem limit (op_fuel levels))) in E; [|exact Sh].
      destruct E as (alloc1 & -> & Sh' & St).
      replace (alloc1 + 1 - 1) with alloc1 by lia.
      apply ns_leaf; [reflexivity|exact Sh'|exact St].
    - rewrite n_set_MM in H. cbv zeta in H.
      set (i := route_set hs (hkey0 dg (kid k))) in *. clearbody i.
      rewrite on_kth_spec in H. destruct (nth_error cs i) as [ch|] eqn:Ek; cbn [option_map] in H; [|discriminate].
      apply nth_error_split in Ek as (pre & post & -> & Hl).
      apply shape_MM in Sh as (_ & _ & Hf).
      apply Forall_elt in IH. apply Forall_elt in Hf.
      destruct (n_set P ch k v alloc) as [[[[ch' prev'] alloc1] lg1]|] eqn:Es; [|discriminate].
      apply (IH Hf) in Es. subst i.
      destruct (fix_child h hs (pre ++ ch :: post) (length pre) ch' alloc1) as [[[n1 a1] lg']|] eqn:Ef; [|discriminate].
      injection H as <- <- <- <-. apply fix_child_pfix in Ef.
      eapply ns_node; eauto.
  Qed.

  Lemma n_remove_nstep : forall n, shape n -> forall pfx k alloc n' kvp alloc' lg,
    n_remove pfx n k alloc = TOk (n', kvp, alloc', lg) -> nstep n alloc n' alloc' lg.
  Proof.
    induction n as [h nx es|h hs cs IH] using mnode_ind'; intros Sh pfx k alloc n' kvp alloc' lg H.
    - cbn [MapTree.n_remove] in H. unfold MapTree.leaf_remove in H.
      destruct (remove_elems dg levels (op_fuel levels) es 0 k) as [err|[[es' kvp'] evs]] eqn:E; [discriminate|].
      injection H as <- <- <- <-.
      apply (proj2 (rem_ok dg levels (op_fuel levels)) _ _ _ alloc) in E; [|exact Sh].
      destruct E as (Sh' & St).
      apply ns_leaf; [reflexivity|exact Sh'|exact St].
    - rewrite n_remove_MM in H.
      destruct (route_get hs (hkey0 dg k)) as [i|]; [|discriminate].
      rewrite on_kth_spec in H. destruct (nth_error cs i) as [ch|] eqn:Ek; cbn [option_map] in H; [|discriminate].
      apply nth_error_split in Ek as (pre & post & -> & Hl).
      apply shape_MM in Sh as (_ & _ & Hf).
      apply Forall_elt in IH. apply Forall_elt in Hf.
      destruct (n_remove P ch k alloc) as [[[[ch' kvp'] alloc1] lg1]|] eqn:Es; [|discriminate].
      apply (IH Hf) in Es. subst i.
      destruct (fix_child h hs (pre ++ ch :: post) (length pre) ch' alloc1) as [[[n1 a1] lg']|] eqn:Ef; [|discriminate].
      injection H as <- <- <- <-. apply fix_child_pfix in Ef.
      eapply ns_node; eauto.
  Qed.

  (** ** 12. The repair of an index slab as a segment replacement *)

  Lemma pfix_seg hid nh cs alloc n' alloc' lg :
    pfix hid nh cs alloc n' alloc' lg ->
    exists h' hs' pre seg seg' post k rem st,
      cs = pre ++ seg ++ post /\ n' = MM h' hs' (pre ++ seg' ++ post) /\ mh_id h' = hid /\
      (nh = length cs -> length hs' = length (pre ++ seg' ++ post)) /\
      alloc' = alloc + N.of_nat k /\
      seg_ok seg seg' (nseq alloc k) rem st /\
      removed lg = rem /\ (forall id, In id (stored lg) <-> id = hid \/ In id st).
  Proof.
    intros H. destruct H as
      [h' hs' E1 E2
      |h' hs' pre ch post l r Ecs Es E1 E2
      |h' hs' pre l r post l' r' b Ecs Ep E1 E2
      |h' hs' pre l r post m Ecs Em E1 E2].
    - exists h', hs', [], [], [], cs, 0%nat, [], [].
      cbn [app nseq]. repeat (split; [first [reflexivity | assumption | lia | apply nil_seg | congruence]|]).
      intros id. cbn. intuition.
    - exists h', hs', pre, [ch], [l; r], post, 1%nat, [], [nid l; nid r].
      split; [exact Ecs|]. split; [reflexivity|]. split; [exact E1|].
      split; [intros ->; subst cs; rewrite E2, !app_length; cbn; lia|].
      split; [lia|]. split; [apply split_seg; exact Es|]. split; [reflexivity|].
      intros id. cbn. intuition.
    - exists h', hs', pre, [l; r], [l'; r'], post, 0%nat, [], [nid l'; nid r'].
      split; [exact Ecs|]. split; [reflexivity|]. split; [exact E1|].
      split; [intros ->; subst cs; rewrite E2, !app_length; cbn; lia|].
      split; [lia|]. split; [eapply pair_seg; exact Ep|]. split; [reflexivity|].
      intros id. cbn. intuition.
    - exists h', hs', pre, [l; r], [m], post, 0%nat, [nid r], [nid m].
      split; [exact Ecs|]. split; [reflexivity|]. split; [exact E1|].
      split; [intros ->; rewrite E2 by reflexivity; subst cs; rewrite !app_length; cbn; lia|].
      split; [lia|]. split; [apply merge_seg; exact Em|]. split; [reflexivity|].
      intros id. cbn. intuition.
  Qed.

  Lemma pfix_sar hid nh cs alloc n' alloc' lg :
    pfix hid nh cs alloc n' alloc' lg -> sar_free lg.
  Proof. intros []; cbn; tauto. Qed.

  (** ** 13. Stages of the tree *)

  Definition stage_ok (r : mnode) (alloc : N) (r' : mnode) (alloc' : N) (lg : wlog) : Prop :=
    xstage (mslab_ids r) (mnode_at r) alloc (mslab_ids r') (mnode_at r') alloc' lg /\ nid r' = nid r.

  Lemma stage_refl r alloc : stage_ok r alloc r alloc [].
  Proof. split; [apply xs_same; reflexivity|reflexivity]. Qed.

  Lemma stage_comp r a r1 a1 lg1 r2 a2 lg2 :
    stage_ok r a r1 a1 lg1 -> stage_ok r1 a1 r2 a2 lg2 -> stage_ok r a r2 a2 (lg1 ++ lg2).
  Proof. intros [S1 N1] [S2 N2]. split; [eapply xs_comp; eauto|congruence]. Qed.

  Lemma stage_lift h hs pre ch post alloc ch' alloc' lg :
    stage_ok ch alloc ch' alloc' lg ->
    stage_ok (MM h hs (pre ++ ch :: post)) alloc (MM h hs (pre ++ ch' :: post)) alloc' lg.
  Proof.
    intros [St _]. split; [|reflexivity].
    eapply xs_lift with (R := mh_id h :: flat_map mslab_ids pre ++ flat_map mslab_ids post); [exact St| | |].
    - rewrite mslab_ids_MM, flat_map_app. cbn [flat_map]. perm_solve.
    - rewrite mslab_ids_MM, flat_map_app. cbn [flat_map]. perm_solve.
    - intros id E. rewrite !mnode_at_MM, !nodes_at_app. cbn [nodes_at]. now rewrite E.
  Qed.

  Lemma stage_leaf h nx es h' es' alloc alloc' evs :
    mh_id h' = mh_id h ->
    xstage (gids es) (ext_at es) alloc (gids es') (ext_at es') alloc' evs ->
    stage_ok (MD h nx es) alloc (MD h' nx es') alloc' (evs ++ [WStore (mh_id h)]).
  Proof.
    intros Eh St. split; [|unfold nid; cbn [hdr_of]; exact Eh].
    eapply xs_own with (o := mh_id h) (R := []); [exact St| | |].
    - cbn [mslab_ids]. now rewrite app_nil_r.
    - cbn [mslab_ids]. now rewrite app_nil_r, Eh.
    - intros id Hn E. cbn [mnode_at]. rewrite Eh. replace (mh_id h =? id) with false by lia. exact E.
  Qed.

  Lemma stage_pfix h hs cs nh alloc n' alloc' lg :
    pfix (mh_id h) nh cs alloc n' alloc' lg ->
    stage_ok (MM h hs cs) alloc n' alloc' lg.
  Proof.
    intros H. pose proof (pfix_sar _ _ _ _ _ _ _ H) as Hsar.
    apply pfix_seg in H as (h' & hs' & pre & seg & seg' & post & k & rem & st &
                            -> & -> & Eh & _ & Ea & SO & Er & Es).
    destruct SO as [so1 so2 so3 so4 so5 so6].
    split; [split|].
    - exists k. split; [exact Ea|]. split.
      + rewrite Er, !mslab_ids_MM, !flat_map_app, Eh. perm_solve.
      + intros id Hi. apply Es. right. auto.
    - intros id H1 H2. rewrite Er in H2. rewrite !mnode_at_MM, Eh.
      assert (id <> mh_id h) by (intros ->; apply H1, Es; auto).
      replace (mh_id h =? id) with false by lia.
      rewrite !nodes_at_app. rewrite (so4 id); [reflexivity| |exact H2].
      intros Hs. apply H1, Es. auto.
    - intros id Hi. left. apply Es in Hi as [->|Hi].
      + rewrite mslab_ids_MM, Eh. now left.
      + apply in_tree_slab. rewrite tree_ids_MM, !flat_map_app. right. rewrite !in_app_iff. right. left. auto.
    - intros _ _. exact Hsar.
    - unfold nid; cbn [hdr_of]. exact Eh.
  Qed.

  Theorem nstep_stage n alloc n' alloc' lg :
    nstep n alloc n' alloc' lg -> stage_ok n alloc n' alloc' lg.
  Proof.
    induction 1 as [h nx es h' es' alloc alloc' evs Eh Sh St
                   |h hs pre ch post alloc ch' alloc1 lg1 n' alloc' lg' Hs IH Hp].
    - now apply stage_leaf.
    - eapply stage_comp; [apply stage_lift; exact IH|]. eapply stage_pfix; exact Hp.
  Qed.

  (** ** 14. Shape and sibling links through a node operation *)

  Lemma pfix_struct hid nh cs alloc n' alloc' lg :
    pfix hid nh cs alloc n' alloc' lg ->
    nh = length cs -> cs <> [] -> Forall shape cs ->
    shape n' /\ first_leaf_id n' = fl cs 0 /\ (forall nxt, chain_list cs nxt -> chain n' nxt).
  Proof.
    intros H Hn Hne Hf.
    apply pfix_seg in H as (h' & hs' & pre & seg & seg' & post & k & rem & st &
                            -> & -> & Eh & El & Ea & SO & Er & Es).
    destruct SO as [so1 so2 so3 so4 so5 so6].
    apply Forall_app in Hf as [Hf1 Hf2]. apply Forall_app in Hf2 as [Hf2 Hf3].
    destruct (so3 Hf2) as (Sh & Fl & Ch).
    split; [|split].
    - apply shape_MM. split; [apply El; exact Hn|]. split.
      + intros E. apply app_eq_nil in E as [-> E]. apply app_eq_nil in E as [E ->].
        rewrite app_nil_r in Hne. cbn [app] in Hne. exact (so2 Hne E).
      + repeat (apply Forall_app; split); auto.
    - rewrite first_MM, !fl_app, Fl. reflexivity.
    - intros nxt. rewrite chain_MM, !chain_list_app, !fl_app, Fl. intros (C1 & C2 & C3). auto.
  Qed.

  Theorem nstep_struct n alloc n' alloc' lg :
    nstep n alloc n' alloc' lg -> shape n ->
    shape n' /\ first_leaf_id n' = first_leaf_id n /\ (forall nxt, chain n nxt -> chain n' nxt).
  Proof.
    induction 1 as [h nx es h' es' alloc alloc' evs Eh Sh St
                   |h hs pre ch post alloc ch' alloc1 lg1 n' alloc' lg' Hs IH Hp].
    - intros _. cbn. rewrite Eh. auto.
    - intros Sh. apply shape_MM in Sh as (Hl & Hne & Hf).
      pose proof (Forall_elt _ _ _ Hf) as Hch. destruct (IH Hch) as (Sh' & Fl' & Ch').
      apply Forall_app in Hf as [Hf1 Hf2]. pose proof (Forall_inv_tail Hf2) as Hf3.
      destruct (pfix_struct _ _ _ _ _ _ _ Hp) as (S1 & F1 & C1).
      + rewrite Hl, !app_length. reflexivity.
      + destruct pre; cbn; congruence.
      + apply Forall_app. split; [auto|]. constructor; auto.
      + split; [exact S1|]. split.
        * rewrite F1, first_MM, !fl_app. cbn [fl]. now rewrite Fl'.
        * intros nxt. rewrite chain_MM. intros Hc. apply C1. revert Hc.
          rewrite !chain_list_app, !chain_list_cons. cbn [fl]. rewrite Fl'. intros (A1 & A2 & A3). auto.
  Qed.

  (** ** 15. PopIterate: every slab below the root is removed exactly once, nothing is stored *)

  Definition npop_acc (acc : dict * wlog) (ch : mnode) : dict * wlog :=
    let '(d, evs) := n_pop ch in (d ++ fst acc, (evs ++ [WRemove (mh_id (hdr_of ch))]) ++ snd acc).
  Lemma n_pop_MM h hs cs : n_pop (MM h hs cs) = fold_left npop_acc cs ([], []).
  Proof. reflexivity. Qed.
  Lemma snd_npop_acc acc ch : snd (npop_acc acc ch) = (snd (n_pop ch) ++ [WRemove (nid ch)]) ++ snd acc.
  Proof. unfold npop_acc, nid. destruct (n_pop ch). reflexivity. Qed.

  Lemma pop_log_spec n :
    Permutation (nid n :: removed (snd (n_pop n))) (mslab_ids n) /\ stored (snd (n_pop n)) = [].
  Proof.
    induction n as [h nx es|h hs cs IH] using mnode_ind'.
    - cbn [n_pop mslab_ids nid hdr_of]. destruct (proj2 pop_elems_spec es) as [P1 P2].
      split; [now apply perm_skip|exact P2].
    - rewrite n_pop_MM, mslab_ids_MM. unfold nid at 1; cbn [hdr_of].
      assert (G : forall acc, Permutation (removed (snd (fold_left npop_acc cs acc))) (flat_map mslab_ids cs ++ removed (snd acc)) /\
                              (stored (snd acc) = [] -> stored (snd (fold_left npop_acc cs acc)) = [])).
      { induction IH as [|ch r [He1 He2] _ IHr]; intros acc; cbn [fold_left flat_map]; [split; [reflexivity|auto]|].
        destruct (IHr (npop_acc acc ch)) as [I1 I2]. rewrite snd_npop_acc in I1, I2.
        rewrite !removed_app in I1. rewrite !stored_app, He2 in I2. cbn [removed stored flat_map app] in I1, I2.
        split; [|exact I2]. clear I2. perm_solve. }
      destruct (G ([], [])) as [G1 G2]. cbn [snd removed flat_map] in G1, G2. rewrite app_nil_r in G1.
      split; [now apply perm_skip|auto].
  Qed.

  (** ** 16. Root-level stages *)

  Definition sub_ids (n : mnode) : list N := tl (mslab_ids n).
  Lemma mslab_ids_nid n : mslab_ids n = nid n :: sub_ids n.
  Proof. destruct n; reflexivity. Qed.
  (* lookup strictly below the slab itself *)
  Definition below (n : mnode) (id : N) : option shallow :=
    match n with MD _ _ es => ext_at es id | MM _ _ cs => nodes_at cs id end.
  Lemma mnode_at_below n id : id <> nid n -> mnode_at n id = below n id.
  Proof.
    destruct n as [h nx es|h hs cs]; unfold nid; cbn [hdr_of below]; intros H.
    - cbn [mnode_at]. replace (mh_id h =? id) with false by lia. reflexivity.
    - rewrite mnode_at_MM. replace (mh_id h =? id) with false by lia. reflexivity.
  Qed.

  (* same slab, different header (index and cached size) *)
  Definition rehdr (n : mnode) (h' : mhdr) : mnode :=
    match n with MD _ nx es => MD h' nx es | MM _ hs cs => MM h' hs cs end.
  Lemma rehdr_facts n h' :
    sub_ids (rehdr n h') = sub_ids n /\ (forall id, below (rehdr n h') id = below n id) /\
    nid (rehdr n h') = mh_id h' /\
    (shape (rehdr n h') <-> shape n) /\ (forall nxt, chain (rehdr n h') nxt <-> chain n nxt).
  Proof. destruct n; cbn; tauto. Qed.

  Lemma split_nid ch newid l r : n_split ch newid = TOk (l, r) -> nid l = nid ch /\ nid r = newid.
  Proof.
    intros H. apply n_split_inv in H as
      [(h & nx & lv & hks & els & sz & lc & hl & hr & szl & szr & -> & -> & -> & E1 & E2)
      |(h & hs & cs & lc & hl & hr & -> & -> & -> & E1 & E2 & L1 & L2)]; cbn; auto.
  Qed.

  Lemma split_root_inv t t2 lg :
    split_root t = (TOk t2, lg) ->
    exists h1 hr hs2 l r,
      n_split (rehdr (t_root t) h1) (t_alloc t + 1 + 1) = TOk (l, r) /\ mh_id h1 = t_alloc t + 1 /\
      mh_id hr = t_rootid t /\ length hs2 = 2%nat /\
      t2 = mkmt (MM hr hs2 [l; r]) (t_alloc t + 1 + 1) (t_count t) /\
      lg = [WStore (nid l); WStore (nid r); WStore (t_rootid t)].
  Proof.
    unfold split_root.
    match goal with |- context [n_split ?o ?i] => destruct (n_split o i) as [[l r]|] eqn:E end; [|discriminate].
    intros [= <- <-].
    destruct (t_root t) as [h nx es|h hs cs] eqn:Er; cbn [set_id mh_id mh_size mh_first] in E.
    - eexists (mkmhdr (t_alloc t + 1) _ _), _, _, l, r. cbn [rehdr].
      split; [exact E|]. split; [reflexivity|]. refine (conj _ (conj _ (conj eq_refl _))); reflexivity.
    - eexists (mkmhdr (t_alloc t + 1) _ _), _, _, l, r. cbn [rehdr].
      split; [exact E|]. split; [reflexivity|]. refine (conj _ (conj _ (conj eq_refl _))); reflexivity.
  Qed.

  Lemma stage_split_root t t2 lg :
    split_root t = (TOk t2, lg) ->
    stage_ok (t_root t) (t_alloc t) (t_root t2) (t_alloc t2) lg /\
    (shape (t_root t) -> shape (t_root t2) /\ (chain (t_root t) 0 -> chain (t_root t2) 0)).
  Proof.
    intros H. apply split_root_inv in H as (h1 & hr & hs2 & l & r & Es & E1 & Er & Eh & -> & ->).
    destruct (rehdr_facts (t_root t) h1) as (R1 & R2 & R3 & R4 & R5).
    destruct (split_nid _ _ _ _ Es) as [Nl Nr]. rewrite R3, E1 in Nl.
    apply split_seg in Es. destruct Es as [so1 so2 so3 so4 so5 so6].
    cbn [t_root t_alloc]. cbn [flat_map] in so1. rewrite !app_nil_r in so1.
    rewrite (mslab_ids_nid (rehdr _ _)), R1, R3, E1 in so1.
    rewrite Nl, Nr in *.
    split; [split; [split|]|].
    - exists 2%nat. split; [lia|]. split.
      + rewrite mslab_ids_MM, Er. cbn [flat_map nseq removed app]. rewrite !app_nil_r.
        rewrite (mslab_ids_nid (t_root t)). unfold t_rootid, nid. perm_solve.
      + intros id. cbn [nseq stored flat_map app In]. tauto.
    - intros id Hs _. cbn [stored flat_map app In] in Hs.
      rewrite mnode_at_MM, Er. replace (t_rootid t =? id) with false by lia.
      rewrite so4; [|cbn [In]; tauto|tauto].
      rewrite nodes1.
      rewrite mnode_at_below by (rewrite R3, E1; lia).
      rewrite R2. symmetry. apply mnode_at_below. unfold t_rootid, nid in *. lia.
    - intros id Hs. left. cbn [stored flat_map app In] in Hs. rewrite mslab_ids_MM, Er. cbn [In flat_map].
      destruct Hs as [<-|[<-|[<-|[]]]]; [right|right|now left].
      + rewrite (mslab_ids_nid l), Nl. cbn. now left.
      + apply in_or_app. right. rewrite (mslab_ids_nid r), Nr. cbn. now left.
    - intros _ _. now apply sar_no_removes.
    - unfold nid; cbn [hdr_of]. exact Er.
    - intros Sh. apply R4 in Sh. destruct (so3 (Forall_cons _ Sh (Forall_nil _))) as (S1 & _ & C1).
      split.
      + apply shape_MM. split; [exact Eh|]. split; [congruence|exact S1].
      + intros Hc. rewrite chain_MM. apply C1. cbn [chain_list]. now apply R5.
  Qed.

  Lemma promote_inv t t3 lg3 :
    promote_if_single t = (t3, lg3) ->
    (t3 = t /\ lg3 = []) \/
    (exists h h1 ch h', t_root t = MM h [h1] [ch] /\
        t3 = mkmt (rehdr ch h') (t_alloc t) (t_count t) /\ mh_id h' = mh_id h /\
        lg3 = [WStore (mh_id h); WRemove (nid ch)]).
  Proof.
    unfold promote_if_single.
    destruct (t_root t) as [h nx es|h hs cs] eqn:Er; [intros [= <- <-]; now left|].
    destruct hs as [|h1 [|? ?]]; try (intros [= <- <-]; now left).
    destruct cs as [|ch [|? ?]]; try (intros [= <- <-]; now left).
    intros [= <- <-]. right.
    destruct ch as [hh nx es|hh hs cs];
      (eexists h, h1, _, (mkmhdr (mh_id h) _ _); split; [reflexivity|]; split; [reflexivity|]; split; reflexivity).
  Qed.

  Definition tstage (t t' : mtree) (lg : wlog) : Prop :=
    stage_ok (t_root t) (t_alloc t) (t_root t') (t_alloc t') lg /\
    (shape (t_root t) -> shape (t_root t') /\ (chain (t_root t) 0 -> chain (t_root t') 0)).

  Lemma tstage_refl t : tstage t t [].
  Proof. split; [apply stage_refl|tauto]. Qed.
  Lemma tstage_comp t t1 t2 lg1 lg2 :
    tstage t t1 lg1 -> tstage t1 t2 lg2 -> tstage t t2 (lg1 ++ lg2).
  Proof.
    intros [S1 C1] [S2 C2]. split; [eapply stage_comp; eauto|].
    intros Sh. destruct (C1 Sh) as [Sh1 Ch1]. destruct (C2 Sh1) as [Sh2 Ch2]. auto.
  Qed.

  Lemma tstage_split_root t t2 lg : split_root t = (TOk t2, lg) -> tstage t t2 lg.
  Proof. intros H. apply stage_split_root in H as [St C]. split; assumption. Qed.

  Lemma tstage_promote t t3 lg3 : promote_if_single t = (t3, lg3) -> tstage t t3 lg3.
  Proof.
    intros H. apply promote_inv in H as [[-> ->]|(h & h1 & ch & h' & Er & -> & Eh & ->)];
      [apply tstage_refl|].
    destruct (rehdr_facts ch h') as (R1 & R2 & R3 & R4 & R5).
    unfold tstage. cbn [t_root t_alloc]. rewrite Er. split; [split; [split|]|].
    - exists 0%nat. split; [lia|]. split; [|intros id []].
      rewrite mslab_ids_MM. cbn [flat_map removed nseq app]. rewrite !app_nil_r.
      rewrite (mslab_ids_nid (rehdr ch h')), (mslab_ids_nid ch), R1, R3, Eh. perm_solve.
    - intros id Hs Hr. cbn [stored removed flat_map app In] in Hs, Hr.
      rewrite mnode_at_below by (rewrite R3, Eh; lia). rewrite R2.
      rewrite mnode_at_MM. replace (mh_id h =? id) with false by lia.
      rewrite nodes1. symmetry. apply mnode_at_below. lia.
    - intros id Hs. cbn [stored flat_map app In] in Hs. destruct Hs as [<-|[]].
      left. rewrite mslab_ids_nid, R3, Eh. now left.
    - intros _ _. cbn. tauto.
    - rewrite R3. unfold nid; cbn [hdr_of]. exact Eh.
    - intros Sh. apply shape_MM in Sh as (_ & _ & Hf). apply Forall_inv in Hf.
      split; [now apply R4|]. rewrite chain_MM. cbn [chain_list]. now apply R5.
  Qed.

  Lemma tstage_nstep t r' alloc' cnt lg :
    shape (t_root t) -> nstep (t_root t) (t_alloc t) r' alloc' lg ->
    tstage t (mkmt r' alloc' cnt) lg.
  Proof.
    intros Sh H. split; [now apply nstep_stage|]. cbn [t_root].
    intros _. destruct (nstep_struct _ _ _ _ _ H Sh) as (S1 & _ & C1). auto.
  Qed.

  Lemma tstage_fix_root t t2 lg : fix_root t = (TOk t2, lg) -> tstage t t2 lg.
  Proof.
    unfold MapTree.fix_root. destruct (promote_if_single t) as [t1 lg1] eqn:E1.
    apply tstage_promote in E1.
    destruct (n_is_full c (t_root t1)).
    - destruct (split_root t1) as [r lg2] eqn:E2. intros [= -> <-].
      eapply tstage_comp; [exact E1|]. now apply tstage_split_root.
    - intros [= <- <-]. exact E1.
  Qed.

  Lemma empty_root_facts rootid :
    mslab_ids (empty_root rootid) = [rootid] /\ shape (empty_root rootid) /\ chain (empty_root rootid) 0 /\
    nid (empty_root rootid) = rootid /\
    (forall id, id <> rootid -> mnode_at (empty_root rootid) id = None).
  Proof.
    repeat split; cbn; auto. intros id H. replace (rootid =? id) with false by lia. reflexivity.
  Qed.

  Lemma tstage_pop t :
    tstage t (mkmt (empty_root (t_rootid t)) (t_alloc t) 0) (snd (n_pop (t_root t)) ++ [WStore (t_rootid t)]).
  Proof.
    destruct (pop_log_spec (t_root t)) as [P1 P2].
    destruct (empty_root_facts (t_rootid t)) as (F1 & F2 & F3 & F4 & F5).
    set (evs := snd (n_pop (t_root t))) in *.
    assert (Er : removed (evs ++ [WStore (t_rootid t)]) = removed evs).
    { rewrite removed_app. cbn. apply app_nil_r. }
    assert (Es : stored (evs ++ [WStore (t_rootid t)]) = [t_rootid t]).
    { rewrite stored_app, P2. reflexivity. }
    change (nid (t_root t)) with (t_rootid t) in P1.
    split; [split; [split|]|]; cbn [t_root t_alloc].
    - exists 0%nat. split; [lia|]. split; [|intros id []].
      rewrite Er, F1. cbn [nseq]. rewrite app_nil_r. exact P1.
    - intros id Hs Hr. rewrite Er in Hr. rewrite Es in Hs. cbn [In] in Hs.
      rewrite F5 by (intros ->; tauto). symmetry. apply mnode_at_none. intros Hi.
      eapply Permutation_in in Hi; [|symmetry; exact P1]. cbn [In] in Hi. tauto.
    - intros id Hs. rewrite Es in Hs. left. rewrite F1. exact Hs.
    - intros HN _. apply sar_free_app. split; [now apply sar_no_stores|]. split; [exact Logic.I|].
      intros i Hi [<-|[]].
      eapply Permutation_NoDup in HN; [|symmetry; exact P1]. inversion HN; auto.
    - exact F4.
    - intros _. auto.
  Qed.

  (** ** 17. The map operations *)

  Lemma mt_set_tstage t k v t' out lg :
    shape (t_root t) -> mt_set t k v = (t', out, lg) -> tstage t t' lg.
  Proof.
    intros Sh. unfold MapTree.mt_set.
    destruct (n_set RP (t_root t) k v (t_alloc t)) as [[[[r' prev] alloc'] lg1]|] eqn:E.
    2: { intros [= <- <- <-]. apply tstage_refl. }
    apply (n_set_nstep _ Sh) in E.
    match goal with |- context [fix_root ?t1] => destruct (fix_root t1) as [[t2|x] lg2] eqn:E2 end.
    - intros [= <- <- <-]. eapply tstage_comp; [eapply tstage_nstep; eauto|].
      apply tstage_fix_root in E2. exact E2.
    - intros [= <- <- <-]. apply tstage_refl.
  Qed.

  Lemma mt_remove_tstage t k t' out lg :
    shape (t_root t) -> mt_remove t k = (t', out, lg) -> tstage t t' lg.
  Proof.
    intros Sh. unfold MapTree.mt_remove.
    destruct (n_remove RP (t_root t) k (t_alloc t)) as [[[[r' [k0 v0]] alloc'] lg1]|] eqn:E.
    2: { intros [= <- <- <-]. apply tstage_refl. }
    apply (n_remove_nstep _ Sh) in E.
    match goal with |- context [fix_root ?t1] => destruct (fix_root t1) as [[t2|x] lg2] eqn:E2 end.
    - intros [= <- <- <-]. eapply tstage_comp; [eapply tstage_nstep; eauto|].
      apply tstage_fix_root in E2. exact E2.
    - intros [= <- <- <-]. apply tstage_refl.
  Qed.

  Theorem mt_step_tstage t o t' out lg :
    shape (t_root t) -> mt_step t o = (t', out, lg) -> tstage t t' lg.
  Proof.
    intros Sh. destruct o; cbn [MapTree.mt_step]; try (intros [= <- <- <-]; apply tstage_refl).
    - now apply mt_set_tstage.
    - now apply mt_remove_tstage.
    - unfold mt_pop. destruct (n_pop (t_root t)) as [d evs] eqn:E. intros [= <- <- <-].
      pose proof (tstage_pop t) as H. rewrite E in H. exact H.
  Qed.

  (** ** 18. Main theorems *)

  (* the identifier invariant: all slab indexes (tree slabs and external collision group slabs at
     any depth) are pairwise distinct, positive and at most the allocator *)
  Definition mids_ok (t : mtree) : Prop :=
    NoDup (mslab_ids (t_root t)) /\ bnd (t_alloc t) (mslab_ids (t_root t)).

  (** G1 *)
  Theorem mids_step t o t' out lg :
    mids_ok t -> shape (t_root t) -> mt_step t o = (t', out, lg) ->
    mids_ok t' /\ t_alloc t <= t_alloc t' /\ t_rootid t' = t_rootid t /\
    NoDup (mslab_ids (t_root t') ++ removed lg) /\
    exists k, t_alloc t' = t_alloc t + N.of_nat k /\
              Permutation (mslab_ids (t_root t') ++ removed lg)
                          (mslab_ids (t_root t) ++ nseq (t_alloc t) k).
  Proof.
    intros [HN HB] Sh H. apply (mt_step_tstage _ _ _ _ _ Sh) in H as [[St Hid] _].
    destruct (xs_nodup _ _ _ _ _ _ _ St HN HB) as (N1 & B1 & Hle).
    split; [split|].
    - eapply nodup_app_l; eauto.
    - apply bnd_app in B1. tauto.
    - split; [exact Hle|]. split; [exact Hid|]. split; [exact N1|].
      destruct (xs_acct _ _ _ _ _ _ _ St) as (k & E & HP & _). eauto.
  Qed.

  (* nothing dangling: a released slab is not a slab of the new tree, and it was a slab of the old
     tree or was allocated in this very operation *)
  Corollary mreleased_were_owned t o t' out lg id :
    mids_ok t -> shape (t_root t) -> mt_step t o = (t', out, lg) ->
    In id (removed lg) ->
    ~ In id (mslab_ids (t_root t')) /\ (In id (mslab_ids (t_root t)) \/ t_alloc t < id <= t_alloc t').
  Proof.
    intros Hok Sh H Hi. destruct (mids_step _ _ _ _ _ Hok Sh H) as (_ & _ & _ & N1 & k & E & HP).
    split.
    - intros Hx. eapply nodup_app_disj in N1; eauto.
    - assert (Hx : In id (mslab_ids (t_root t') ++ removed lg)) by (apply in_or_app; now right).
      eapply Permutation_in in Hx; [|exact HP]. apply in_app_or in Hx as [Hx|Hx]; [now left|right].
      apply in_nseq in Hx. lia.
  Qed.

  (* nothing leaked: a slab of the old tree (in particular an external collision group slab) that
     is no longer a slab of the new tree has been removed from storage *)
  Corollary mgone_were_removed t o t' out lg id :
    mids_ok t -> shape (t_root t) -> mt_step t o = (t', out, lg) ->
    In id (mslab_ids (t_root t)) -> ~ In id (mslab_ids (t_root t')) -> In (WRemove id) lg.
  Proof.
    intros Hok Sh H Hi Hn. destruct (mids_step _ _ _ _ _ Hok Sh H) as (_ & _ & _ & _ & k & E & HP).
    assert (Hx : In id (mslab_ids (t_root t) ++ nseq (t_alloc t) k)) by (apply in_or_app; now left).
    eapply Permutation_in in Hx; [|symmetry; exact HP]. apply in_app_or in Hx as [Hx|Hx]; [tauto|].
    now apply in_removed.
  Qed.

  (* a slab of the new tree that was not a slab of the old tree (a split half, a spilled collision
     group) carries a freshly allocated index *)
  Corollary mnew_are_fresh t o t' out lg id :
    mids_ok t -> shape (t_root t) -> mt_step t o = (t', out, lg) ->
    In id (mslab_ids (t_root t')) -> ~ In id (mslab_ids (t_root t)) -> t_alloc t < id <= t_alloc t'.
  Proof.
    intros Hok Sh H Hi Hn. destruct (mids_step _ _ _ _ _ Hok Sh H) as (_ & _ & _ & _ & k & E & HP).
    assert (Hx : In id (mslab_ids (t_root t') ++ removed lg)) by (apply in_or_app; now left).
    eapply Permutation_in in Hx; [|exact HP]. apply in_app_or in Hx as [Hx|Hx]; [tauto|].
    apply in_nseq in Hx. lia.
  Qed.

  (** G2 *)
  Definition touched (lg : wlog) (id : N) : Prop := In (WStore id) lg \/ In (WRemove id) lg.

  Lemma last_ev_untouched lg id : last_ev lg id = None <-> ~ touched lg id.
  Proof. unfold touched. rewrite last_ev_none, in_stored, in_removed. tauto. Qed.

  Theorem mlog_no_store_after_remove t o t' out lg :
    mids_ok t -> shape (t_root t) -> mt_step t o = (t', out, lg) -> sar_free lg.
  Proof.
    intros [HN HB] Sh H. apply (mt_step_tstage _ _ _ _ _ Sh) in H as [[St _] _].
    apply (xs_sar _ _ _ _ _ _ _ St HN HB).
  Qed.

  Theorem mfresh_ids_stored t o t' out lg id :
    shape (t_root t) -> mt_step t o = (t', out, lg) -> t_alloc t < id <= t_alloc t' -> In (WStore id) lg.
  Proof.
    intros Sh H Hi. apply (mt_step_tstage _ _ _ _ _ Sh) in H as [[St _] _].
    destruct (xs_acct _ _ _ _ _ _ _ St) as (k & E & _ & F). apply in_stored, F, in_nseq. lia.
  Qed.

  Theorem mframe_step t o t' out lg :
    mids_ok t -> shape (t_root t) -> mt_step t o = (t', out, lg) ->
    forall id,
      (~ touched lg id -> mnode_at (t_root t') id = mnode_at (t_root t) id) /\
      (last_ev lg id = Some EvStore -> mnode_at (t_root t') id <> None) /\
      (last_ev lg id = Some EvRemove ->
         mnode_at (t_root t') id = None /\ ~ In id (mslab_ids (t_root t'))) /\
      (mnode_at (t_root t') id <> None -> mnode_at (t_root t) id = None -> last_ev lg id = Some EvStore).
  Proof.
    intros Hok Sh H id. pose proof Hok as [HN HB].
    destruct (mids_step _ _ _ _ _ Hok Sh H) as (_ & _ & _ & N1 & _).
    apply (mt_step_tstage _ _ _ _ _ Sh) in H as [[St _] _].
    assert (F1 : ~ touched lg id -> mnode_at (t_root t') id = mnode_at (t_root t) id).
    { intros Hu. apply last_ev_untouched, last_ev_none in Hu. apply (xs_frame _ _ _ _ _ _ _ St); tauto. }
    assert (F3 : last_ev lg id = Some EvRemove -> mnode_at (t_root t') id = None /\ ~ In id (mslab_ids (t_root t'))).
    { intros Hl. apply last_ev_remove in Hl.
      assert (Hn : ~ In id (mslab_ids (t_root t'))).
      { intros Hx. eapply nodup_app_disj in N1; eauto. }
      split; [|exact Hn]. now apply mnode_at_none. }
    split; [exact F1|]. split; [|split; [exact F3|]].
    - intros Hl. apply last_ev_store in Hl as [H1 H2].
      specialize (H2 (xs_sar _ _ _ _ _ _ _ St HN HB)).
      apply (xs_stored _ _ _ _ _ _ _ St) in H1 as [H1|H1]; [|tauto].
      intros Hx. apply mnode_at_none in Hx. auto.
    - intros Hp Ha. destruct (last_ev lg id) as [[|]|] eqn:El; [reflexivity| |].
      + destruct (F3 eq_refl). congruence.
      + apply last_ev_untouched in El. rewrite (F1 El) in Hp. congruence.
  Qed.

  (** G3, preservation *)
  Theorem mchain_step t o t' out lg :
    shape (t_root t) -> chain (t_root t) 0 -> mt_step t o = (t', out, lg) ->
    shape (t_root t') /\ chain (t_root t') 0.
  Proof. intros Sh Ch H. apply (mt_step_tstage _ _ _ _ _ Sh) in H as [_ C]. destruct (C Sh). auto. Qed.

  (** G4 *)
  Theorem mpop_releases_all t t' out lg :
    mt_pop t = (t', out, lg) ->
    mslab_ids (t_root t') = [t_rootid t] /\
    stored lg = [t_rootid t] /\
    Permutation (t_rootid t :: removed lg) (mslab_ids (t_root t)) /\
    (NoDup (mslab_ids (t_root t)) -> NoDup (t_rootid t :: removed lg)) /\
    (forall id, In id (mslab_ids (t_root t)) -> id <> t_rootid t -> In (WRemove id) lg).
  Proof.
    unfold mt_pop. destruct (n_pop (t_root t)) as [d evs] eqn:E. intros [= <- <- <-]. cbn [t_root].
    destruct (pop_log_spec (t_root t)) as [P1 P2]. rewrite E in P1, P2. cbn [snd] in P1, P2.
    change (nid (t_root t)) with (t_rootid t) in P1.
    assert (Er : removed (evs ++ [WStore (t_rootid t)]) = removed evs).
    { rewrite removed_app. cbn. apply app_nil_r. }
    rewrite Er. split; [reflexivity|]. split; [rewrite stored_app, P2; reflexivity|].
    split; [exact P1|]. split.
    - intros HN. eapply Permutation_NoDup; [symmetry; exact P1|exact HN].
    - intros id Hi Hn. eapply Permutation_in in Hi; [|symmetry; exact P1]. destruct Hi as [Hi|Hi]; [congruence|].
      apply in_removed. rewrite Er. exact Hi.
  Qed.

  (** ** 19. Reachable maps *)

  Definition finv (t : mtree) : Prop := mids_ok t /\ shape (t_root t) /\ chain (t_root t) 0.

  Lemma finv_init rootid : 0 < rootid -> finv (fst (mt_init rootid)).
  Proof.
    intros H. destruct (empty_root_facts rootid) as (F1 & F2 & F3 & _).
    cbn [mt_init fst]. split; [split|]; cbn [t_root t_alloc].
    - rewrite F1. constructor; [tauto|constructor].
    - rewrite F1. constructor; [lia|constructor].
    - auto.
  Qed.

  Lemma finv_step t o t' out lg : finv t -> mt_step t o = (t', out, lg) -> finv t' /\ t_rootid t' = t_rootid t.
  Proof.
    intros (Hok & Sh & Ch) H. destruct (mids_step _ _ _ _ _ Hok Sh H) as (Hok' & _ & Hr & _).
    destruct (mchain_step _ _ _ _ _ Sh Ch H) as [Sh' Ch'].
    split; [split; [exact Hok'|split; assumption]|exact Hr].
  Qed.

  Theorem finv_run : forall ops t, finv t ->
    finv (fst (mt_run t ops)) /\ t_rootid (fst (mt_run t ops)) = t_rootid t.
  Proof.
    induction ops as [|o r IH]; intros t Ht; cbn [MapTree.mt_run]; [cbn; auto|].
    destruct (mt_step t o) as [[t1 x] lg] eqn:E. destruct (finv_step _ _ _ _ _ Ht E) as [H1 H2].
    destruct (IH t1 H1) as [H3 H4]. destruct (mt_run t1 r) as [t2 xs]. cbn [fst] in *.
    split; [exact H3|congruence].
  Qed.
  (** ** 20. Statements for the property files (maps reachable from an empty one) *)


  Lemma mreach_inv rootid ops : 0 < rootid ->
    finv (fst (mt_run (fst (mt_init rootid)) ops)) /\
    t_rootid (fst (mt_run (fst (mt_init rootid)) ops)) = rootid.
  Proof. intros H. apply (finv_run ops _ (finv_init rootid H)). Qed.

  Lemma mreach_ids : forall rootid ops o, 0 < rootid ->
    let t := fst (mt_run (fst (mt_init rootid)) ops) in
    forall t' out lg, mt_step t o = (t', out, lg) ->
      mids_ok t /\ mids_ok t' /\ t_rootid t = rootid /\ t_rootid t' = rootid /\ t_alloc t <= t_alloc t' /\
      NoDup (mslab_ids (t_root t') ++ removed lg) /\
      (exists k, t_alloc t' = t_alloc t + N.of_nat k /\
                 Permutation (mslab_ids (t_root t') ++ removed lg)
                             (mslab_ids (t_root t) ++ nseq (t_alloc t) k)) /\
      (forall id, In id (mslab_ids (t_root t)) -> ~ In id (mslab_ids (t_root t')) -> In (WRemove id) lg) /\
      (forall id, In id (mslab_ids (t_root t')) -> ~ In id (mslab_ids (t_root t)) ->
                  t_alloc t < id <= t_alloc t' /\ In (WStore id) lg).
  Proof.
    intros rootid ops o H t t' out lg E. destruct (mreach_inv rootid ops H) as [(Hok & Sh & _) Hr].
    fold t in Hok, Sh, Hr. destruct (mids_step _ _ _ _ _ Hok Sh E) as (H1 & H2 & H3 & H4 & H5).
    repeat (split; [first [assumption|congruence]|]). split.
    - intros id. eapply mgone_were_removed; eauto.
    - intros id Hi Hn. pose proof (mnew_are_fresh _ _ _ _ _ _ Hok Sh E Hi Hn) as Hf.
      split; [exact Hf|]. eapply mfresh_ids_stored; eauto.
  Qed.

  Lemma mreach_pop : forall rootid ops, 0 < rootid ->
    let t := fst (mt_run (fst (mt_init rootid)) ops) in
    forall t' out lg, mt_step t OPop = (t', out, lg) ->
      mslab_ids (t_root t') = [rootid] /\
      stored lg = [rootid] /\
      NoDup (rootid :: removed lg) /\
      Permutation (rootid :: removed lg) (mslab_ids (t_root t)) /\
      (forall id, In id (mslab_ids (t_root t)) -> id <> rootid -> In (WRemove id) lg).
  Proof.
    intros rootid ops H t t' out lg E. destruct (mreach_inv rootid ops H) as [((HN & _) & _) Hr].
    fold t in HN, Hr. cbn [MapTree.mt_step] in E. apply mpop_releases_all in E as (H1 & H2 & H3 & H4 & H5).
    rewrite Hr in *. auto.
  Qed.

  Lemma mreach_frame : forall rootid ops o, 0 < rootid ->
    let t := fst (mt_run (fst (mt_init rootid)) ops) in
    forall t' out lg, mt_step t o = (t', out, lg) ->
      sar_free lg /\
      (forall id, t_alloc t < id <= t_alloc t' -> In (WStore id) lg) /\
      forall id,
        (~ touched lg id -> mnode_at (t_root t') id = mnode_at (t_root t) id) /\
        (last_ev lg id = Some EvStore -> mnode_at (t_root t') id <> None) /\
        (last_ev lg id = Some EvRemove ->
           mnode_at (t_root t') id = None /\ ~ In id (mslab_ids (t_root t'))) /\
        (mnode_at (t_root t') id <> None -> mnode_at (t_root t) id = None -> last_ev lg id = Some EvStore).
  Proof.
    intros rootid ops o H t t' out lg E. destruct (mreach_inv rootid ops H) as [(Hok & Sh & _) _].
    fold t in Hok, Sh. split; [eapply mlog_no_store_after_remove; eauto|].
    split; [intros id; eapply mfresh_ids_stored; eauto|]. eapply mframe_step; eauto.
  Qed.

  Theorem mfollow_reachable t :
    finv t -> forall fuel, (length (mleaves (t_root t)) <= fuel)%nat ->
    mfollow fuel (t_root t) (first_leaf_id (t_root t)) = to_list_tree (t_root t).
  Proof.
    intros ((HN & HB) & Sh & Ch). apply mfollow_to_list; auto.
    - now apply nodup_tree_ids.
    - apply Forall_forall. intros x Hx. apply in_tree_slab in Hx. unfold bnd in HB. rewrite Forall_forall in HB.
      apply HB in Hx. tauto.
  Qed.

  Lemma mreach_follow : forall rootid ops, 0 < rootid ->
    let t := fst (mt_run (fst (mt_init rootid)) ops) in
    chain (t_root t) 0 /\
    forall fuel, (length (mleaves (t_root t)) <= fuel)%nat ->
      mfollow fuel (t_root t) (first_leaf_id (t_root t)) = to_list_tree (t_root t).
  Proof.
    intros rootid ops H t. destruct (mreach_inv rootid ops H) as [Hinv _]. fold t in Hinv.
    split; [apply Hinv|]. now apply mfollow_reachable.
  Qed.
End tree.

(** * 21. Link with the invariants of MapElemsInv.v / MapTreeInv.v and with Map_proofs.v

    Under the well-formedness invariant [mtwf] the external collision groups sit at level 0 only
    (MapElemsInv.loc_ok), so [mslab_ids] is the [slab_ids] of MapTreeInv.v, [mids_ok] is its
    [ids_ok], and [mtwf_full] implies the invariant [finv] used above. *)

Lemma Forall2_len' {A B} (R : A -> B -> Prop) l m : Forall2 R l m -> length l = length m.
Proof. induction 1; cbn; congruence. Qed.

Section link.
  Variable dg : N -> nat -> N.
  Variable levels : nat.
  Variable c : cfg.

  Lemma ewf_eshape :
    (forall e l h, ewf_e dg levels l h e -> eshape_e e) /\
    (forall g l, ewf_g dg levels l g -> eshape g).
  Proof.
    apply melem_melems_ind.
    - intros; exact Logic.I.
    - intros loc g IH l h H. inversion H; subst. cbn [eshape_e]. eauto.
    - intros lv hks es sz IH l H. inversion H; subst. apply eshape_HKey.
      match goal with HF : Forall2 _ hks es |- _ => rename HF into F2 end.
      split; [eapply Forall2_len'; eauto|].
      clear - IH F2. revert IH. induction F2 as [|h e hks es He _ IHF]; intros IH; [constructor|].
      inversion IH; subst. constructor; eauto.
    - intros; exact Logic.I.
  Qed.

  Lemma ewf_deep_no_ext :
    (forall e l h, (1 <= l)%nat -> ewf_e dg levels l h e -> eids_e e = []) /\
    (forall g l, (1 <= l)%nat -> ewf_g dg levels l g -> gids g = []).
  Proof.
    apply melem_melems_ind.
    - reflexivity.
    - intros loc g IH l h Hl H. inversion H; subst. cbn [eids_e].
      match goal with HL : loc_ok _ loc |- _ => rename HL into Lk end.
      destruct loc as [i|]; cbn [loc_ok] in Lk; [lia|]. cbn [loc_ids app]. eapply IH; [|eauto]. lia.
    - intros lv hks es sz IH l Hl H. inversion H; subst. rewrite gids_HKey.
      match goal with HF : Forall2 _ hks es |- _ => rename HF into F2 end.
      clear - IH F2 Hl. revert IH. induction F2 as [|h e hks es He _ IHF]; intros IH; [reflexivity|].
      inversion IH; subst. cbn [flat_map]. rewrite IHF by assumption.
      rewrite (H1 _ _ Hl He). reflexivity.
    - reflexivity.
  Qed.

  Lemma gids_ext_ids hks els sz :
    ewf_g dg levels 0 (HKey 0 hks els sz) -> gids (HKey 0 hks els sz) = ext_ids (HKey 0 hks els sz).
  Proof.
    intros H. inversion H; subst. rewrite gids_HKey. unfold ext_ids. cbn [g_elems].
    match goal with HF : Forall2 _ hks els |- _ => rename HF into F2 end.
    clear - F2. induction F2 as [|h e hks es He _ IHF]; [reflexivity|].
    cbn [flat_map]. rewrite IHF. f_equal.
    inversion He; subst; [reflexivity|]. cbn [eids_e].
    rewrite (proj2 ewf_deep_no_ext g 1%nat) by (auto; lia). rewrite app_nil_r. destruct loc; reflexivity.
  Qed.

  Lemma mwfn_frame : forall n d, mwfn dg levels c d n -> shape n /\ mslab_ids n = slab_ids n.
  Proof.
    induction n as [h nx es|h hs cs IH] using mnode_ind'; intros d H; inversion H; subst.
    - split; [cbn [shape]; eapply (proj2 ewf_eshape); eauto|].
      cbn [mslab_ids slab_ids]. f_equal. now apply gids_ext_ids.
    - match goal with HF : Forall (mwfn _ _ _ _) cs |- _ => rename HF into F end.
      assert (G : Forall shape cs /\ flat_map mslab_ids cs = flat_map slab_ids cs).
      { clear - IH F. induction IH as [|ch r Hc _ IHr]; [split; [constructor|reflexivity]|].
        inversion F; subst. destruct (Hc _ H1) as [A B]. destruct (IHr H2) as [A' B'].
        split; [constructor; auto|]. cbn [flat_map]. now rewrite B, B'. }
      destruct G as [G1 G2]. split.
      + apply shape_MM. split; [now rewrite map_length|]. split; assumption.
      + rewrite mslab_ids_MM. cbn [slab_ids]. now rewrite G2.
  Qed.

  Lemma mwf_root_frame r : mwf_root dg levels c r -> shape r /\ mslab_ids r = slab_ids r.
  Proof.
    intros H. inversion H; subst.
    - split; [cbn [shape]; eapply (proj2 ewf_eshape); eauto|].
      cbn [mslab_ids slab_ids]. f_equal. now apply gids_ext_ids.
    - eapply mwfn_frame; eauto.
  Qed.

  (* the invariant of MapTreeInv.v implies the one used in this file, and the two notions of
     "all slab indexes" coincide *)
  Theorem mtwf_full_finv t :
    mtwf_full dg levels c t -> finv t /\ mslab_ids (t_root t) = slab_ids (t_root t).
  Proof.
    intros ((Hr & _) & Hc & (HN & HB)). destruct (mwf_root_frame _ Hr) as [Sh E].
    split; [|exact E]. split; [split|split; assumption]; rewrite E; [exact HN|].
    unfold bnd. exact HB.
  Qed.
End link.

From AtreeProofs Require Map_proofs.

(* the walk along the sibling links of a map built by any history of admissible operations yields
   the dictionary of the specification (C02), i.e. the entries in canonical order *)
Theorem mfollow_is_dictionary dg levels T limit ks rootid ops :
  valid_T T -> (0 < levels)%nat -> 0 < rootid -> Forall (Map_proofs.mop_ok T ks) ops ->
  let c := set_threshold T in
  let t := fst (mt_run dg levels (cinl_melem c) limit c (fst (mt_init rootid)) ops) in
  forall fuel, (length (mleaves (t_root t)) <= fuel)%nat ->
    mfollow fuel (t_root t) (first_leaf_id (t_root t)) = fst (d_run dg levels limit [] ops).
Proof.
  intros HT Hlv Hr Hops c t fuel Hf.
  destruct (mreach_follow dg levels (cinl_melem c) limit c rootid ops Hr) as [_ F]. fold t in F.
  rewrite (F fuel Hf).
  pose proof (Map_proofs.mt_run_from_empty dg levels T HT Hlv limit ks rootid ops Hops) as R.
  subst t c. destruct (mt_run dg levels (cinl_melem (set_threshold T)) limit (set_threshold T) (fst (mt_init rootid)) ops) as [t' outs].
  destruct (d_run dg levels limit [] ops) as [d' outs']. cbn [fst]. tauto.
Qed.
