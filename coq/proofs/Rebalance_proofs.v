(* Rebalance_proofs.v — slab-level facts about the array slabs (array_data_slab.go,
   array_metadata_slab.go) for EVERY legal slab size T (256..32768) and every element-size mix
   within the inline limit:
     full_has_two, split_ok      Split keeps both halves inside [min, max] and loses nothing,
     merge_ok                    Merge concatenates, sizes add up minus one prefix,
     lend_ok / borrow_ok         after CanLend... = true, LendToRight / BorrowFromRight leave both
                                 slabs inside [min, max],
     cannot_lend_*_merge_le_max  if the sibling cannot lend, the merged slab is <= max,
   for data slabs (size-driven loops) and index slabs (header counts). *)
From Coq Require Import ZArith NArith List Bool Lia ZifyBool ZifyN ZifyNat.
From AtreeGen Require Import Consts.
From AtreeModel Require Import Settings ArrayTree ArrayInv.
From AtreeProofs Require Import Settings_proofs ArrayList_lemmas.
Import ListNotations.
Local Open Scope N_scope.
Ltac Zify.zify_post_hook ::= Z.div_mod_to_equations.

(** the sibling link of the rightmost leaf of a subtree *)
Fixpoint last_next (n : anode) : N :=
  match n with
  | AD _ nx _ => nx
  | AM _ _ _ cs => last (map last_next cs) 0
  end.

(** * Configuration facts *)
Lemma cfg_facts T : valid_T T ->
  256 <= T /\ T <= 32768 /\ cmin (set_threshold T) = T / 2 /\ cmax (set_threshold T) = T + T / 2 /\
  cinl_arr (set_threshold T) = (T - 21) / 2.
Proof. intros HT. unfold_consts. repeat split; lia. Qed.

Ltac unfold_sizes :=
  unfold P, PM, HS, RP, c_arrayDataSlabPrefixSize, c_arrayMetaDataSlabPrefixSize, c_arraySlabHeaderSize,
    c_arrayRootDataSlabPrefixSize in *.
(* arithmetic over the thresholds: needs a hypothesis [valid_T T] in the context *)
Ltac cfg_lia :=
  match goal with H : valid_T ?T |- _ => pose proof (cfg_facts T H) as (?&?&?&?&?) end;
  unfold_sizes; lia.

(** * Inversion of [wfn] *)
Lemma wfn_AD_iff c d h nx es :
  wfn c d (AD h nx es) <->
  d = 0%nat /\ Forall (elem_ok c) es /\ h_count h = N.of_nat (length es) /\ h_size h = P + sum_sz es.
Proof.
  split.
  - intros H. inversion H; subst. auto.
  - intros (-> & H1 & H2 & H3). constructor; assumption.
Qed.
Lemma wfn_AM_inv c d h hs sums cs :
  wfn c d (AM h hs sums cs) ->
  exists d', d = S d' /\ Forall (wfn c d') cs /\ Forall (in_band c) cs /\ hs = map hdr_of cs /\
    sums = psums 0 hs /\ h_count h = sum_cnt hs /\ h_size h = PM + N.of_nat (length cs) * HS.
Proof. intros H. inversion H; subst. eexists. repeat split; eauto. Qed.
Lemma wfn_0_inv c n : wfn c 0 n ->
  exists h nx es, n = AD h nx es /\ Forall (elem_ok c) es /\ h_count h = N.of_nat (length es) /\
    h_size h = P + sum_sz es.
Proof. intros H. inversion H; subst. eauto 10. Qed.
Lemma wfn_S_inv c d n : wfn c (S d) n ->
  exists h hs sums cs, n = AM h hs sums cs /\ Forall (wfn c d) cs /\ Forall (in_band c) cs /\
    hs = map hdr_of cs /\ sums = psums 0 hs /\ h_count h = sum_cnt hs /\
    h_size h = PM + N.of_nat (length cs) * HS.
Proof. intros H. inversion H; subst. eauto 12. Qed.
Lemma wfn_is_data c d n : wfn c d n -> is_data n = match d with O => true | S _ => false end.
Proof. intros H. inversion H; reflexivity. Qed.

Lemma Forall_firstn {A} (Q : A -> Prop) k l : Forall Q l -> Forall Q (firstn k l).
Proof. intros H. rewrite <- (firstn_skipn k l) in H. apply Forall_app in H. tauto. Qed.
Lemma Forall_skipn {A} (Q : A -> Prop) k l : Forall Q l -> Forall Q (skipn k l).
Proof. intros H. rewrite <- (firstn_skipn k l) in H. apply Forall_app in H. tauto. Qed.

(** * The size-driven loops of data slabs *)
Definition szb (E : N) (e : elem) : Prop := 0 < e_sz e /\ e_sz e <= E.

(* ArrayDataSlab.Split *)
Lemma split_point_spec : forall es D acc i E,
  Forall (szb E) es ->
  acc + sum_sz es = D -> acc < (D + 1) / 2 ->
  forall lc ls, split_point es D ((D + 1) / 2) acc i = (lc, ls) ->
  (i <= lc)%nat /\ (lc <= i + length es)%nat /\ ls = acc + sum_sz (firstn (lc - i) es) /\
  ls <= D /\ 2 * ls + E >= D /\ 2 * (D - ls) + E >= D.
Proof.
  induction es as [|e r IH]; intros D acc i E HF Hsum Hacc lc ls Hsp; cbn [split_point sum_sz] in *.
  - exfalso. lia.
  - pose proof (Forall_inv HF) as Hz. pose proof (Forall_inv_tail HF) as HF'. unfold szb in Hz.
    destruct (((D + 1) / 2) <=? acc + e_sz e) eqn:H1.
    + destruct (acc <=? D - acc - e_sz e) eqn:H2; injection Hsp as <- <-; cbn [length].
      * replace (S i - i)%nat with 1%nat by lia. cbn [firstn sum_sz]. repeat split; lia.
      * replace (i - i)%nat with 0%nat by lia. cbn [firstn sum_sz]. repeat split; lia.
    + specialize (IH D (acc + e_sz e) (S i) E HF' ltac:(lia) ltac:(lia) lc ls Hsp).
      destruct IH as (I1 & I2 & I3 & I4 & I5 & I6). cbn [length].
      replace (lc - i)%nat with (S (lc - S i)) by lia. cbn [firstn sum_sz]. repeat split; lia.
Qed.

(* ArrayDataSlab.LendToRight: which elements move *)
Lemma lend_loop_shape : forall res size mid m lc0 ls0 lc ls,
  lend_loop res size mid m lc0 ls0 = (lc, ls) ->
  exists done rest, res = done ++ rest /\ lc = (lc0 - length done)%nat /\ ls = ls0 - sum_sz done.
Proof.
  induction res as [|e r IH]; intros size mid m lc0 ls0 lc ls H; cbn [lend_loop] in H.
  - injection H as <- <-. exists [], []. cbn. repeat split; lia.
  - destruct ((ls0 - e_sz e <? mid) && (m <=? size - ls0)) eqn:Hb.
    + injection H as <- <-. exists [], (e :: r). cbn. repeat split; lia.
    + apply IH in H. destruct H as (done & rest & -> & -> & ->).
      exists (e :: done), rest. cbn [app length sum_sz]. repeat split; lia.
Qed.

(* phase 2: the right slab has reached the minimum *)
Lemma lend_phase2 : forall res size mid m lc0 ls0,
  m <= mid -> m <= ls0 -> ls0 <= size -> m <= size - ls0 ->
  let ls := snd (lend_loop res size mid m lc0 ls0) in
  m <= ls /\ ls <= ls0 /\ (ls = ls0 \/ mid <= ls).
Proof.
  induction res as [|e r IH]; intros size mid m lc0 ls0 Hmm Hl Hs Hr; cbn [lend_loop].
  - cbn [snd]. lia.
  - destruct ((ls0 - e_sz e <? mid) && (m <=? size - ls0)) eqn:Hb.
    + cbn [snd]. lia.
    + assert (mid <= ls0 - e_sz e) by lia.
      specialize (IH size mid m (pred lc0) (ls0 - e_sz e) Hmm ltac:(lia) ltac:(lia) ltac:(lia)).
      cbn zeta in IH. lia.
Qed.

(* phase 1 in lock step with CanLendToRight *)
Lemma lend_phase1 : forall res hL hR m E lend lc0,
  Forall (szb E) res ->
  hR < m -> lend < m - hR -> lend + sum_sz res <= hL -> m <= hL - lend ->
  can_lend_loop res hL m (m - hR) lend = true ->
  let size := hL + hR in let mid := (size + 1) / 2 in
  let ls := snd (lend_loop res size mid m lc0 (hL - lend)) in
  m <= ls /\ ls <= hL /\ m <= size - ls /\ (size - ls <= m - 1 + E \/ mid <= ls).
Proof.
  induction res as [|e r IH]; intros hL hR m E lend lc0 HF HR Hlend Hsum Hleft Hcan size mid;
    cbn [can_lend_loop lend_loop sum_sz] in *.
  - discriminate.
  - pose proof (Forall_inv HF) as Hz. pose proof (Forall_inv_tail HF) as HF'. unfold szb in Hz.
    destruct (hL - (lend + e_sz e) <? m) eqn:H1; [discriminate|].
    assert (Hnb : ((hL - lend - e_sz e <? mid) && (m <=? size - (hL - lend))) = false) by (subst size; lia).
    rewrite Hnb.
    destruct (m - hR <=? lend + e_sz e) eqn:H2.
    + pose proof (lend_phase2 r size mid m (pred lc0) (hL - lend - e_sz e)
        ltac:(subst mid size; lia) ltac:(lia) ltac:(subst size; lia) ltac:(subst size; lia)) as H.
      cbn zeta in H. subst size. lia.
    + specialize (IH hL hR m E (lend + e_sz e) (pred lc0) HF' HR ltac:(lia) ltac:(lia) ltac:(lia) Hcan).
      cbn zeta in IH.
      replace (hL - (lend + e_sz e)) with (hL - lend - e_sz e) in IH by lia. exact IH.
Qed.

(* ArrayDataSlab.BorrowFromRight: which elements move *)
Lemma borrow_loop_shape : forall es size mid m lc0 ls0 lc ls,
  borrow_loop es size mid m lc0 ls0 = (lc, ls) ->
  exists done rest, es = done ++ rest /\ lc = (lc0 + length done)%nat /\ ls = ls0 + sum_sz done.
Proof.
  induction es as [|e r IH]; intros size mid m lc0 ls0 lc ls H; cbn [borrow_loop] in H.
  - injection H as <- <-. exists [], []. cbn. repeat split; lia.
  - destruct (mid <? ls0 + e_sz e) eqn:H1.
    + destruct (m <=? size - ls0 - e_sz e) eqn:H2; injection H as <- <-.
      * exists [e], r. cbn. repeat split; lia.
      * exists [], (e :: r). cbn. repeat split; lia.
    + apply IH in H. destruct H as (done & rest & -> & -> & ->).
      exists (e :: done), rest. cbn [app length sum_sz]. repeat split; lia.
Qed.

Lemma borrow_phase2 : forall es size m E lc0 ls0,
  Forall (szb E) es -> 2 * m <= size -> m <= ls0 -> ls0 <= (size + 1) / 2 ->
  let ls := snd (borrow_loop es size ((size + 1) / 2) m lc0 ls0) in
  m <= ls /\ ls <= (size + 1) / 2 + E /\ m <= size - ls /\ ls0 <= ls.
Proof.
  induction es as [|e r IH]; intros size m E lc0 ls0 HF H2m Hl Hmid; cbn [borrow_loop].
  - cbn [snd]. lia.
  - pose proof (Forall_inv HF) as Hz. pose proof (Forall_inv_tail HF) as HF'. unfold szb in Hz.
    destruct ((size + 1) / 2 <? ls0 + e_sz e) eqn:H1.
    + destruct (m <=? size - ls0 - e_sz e) eqn:H2; cbn [snd]; lia.
    + specialize (IH size m E (S lc0) (ls0 + e_sz e) HF' H2m ltac:(lia) ltac:(lia)).
      cbn zeta in IH. lia.
Qed.

(* phase 1 in lock step with CanLendToLeft *)
Lemma borrow_phase1 : forall es hL hR m E lend lc0,
  Forall (szb E) es ->
  hL < m -> lend < m - hL -> 2 * m <= hL + hR ->
  can_lend_loop es hR m (m - hL) lend = true ->
  let size := hL + hR in
  let ls := snd (borrow_loop es size ((size + 1) / 2) m lc0 (hL + lend)) in
  m <= ls /\ ls <= (size + 1) / 2 + E /\ m <= size - ls.
Proof.
  induction es as [|e r IH]; intros hL hR m E lend lc0 HF HL Hlend H2m Hcan size;
    cbn [can_lend_loop borrow_loop] in *.
  - discriminate.
  - pose proof (Forall_inv HF) as Hz. pose proof (Forall_inv_tail HF) as HF'. unfold szb in Hz.
    destruct (hR - (lend + e_sz e) <? m) eqn:H1; [discriminate|].
    destruct ((size + 1) / 2 <? hL + lend + e_sz e) eqn:H3.
    + assert (Hk : (m <=? size - (hL + lend) - e_sz e) = true) by (subst size; lia).
      rewrite Hk. cbn [snd]. subst size. lia.
    + destruct (m - hL <=? lend + e_sz e) eqn:H2.
      * pose proof (borrow_phase2 r size m E (S lc0) (hL + lend + e_sz e) HF'
          ltac:(subst size; lia) ltac:(lia) ltac:(lia)) as H. cbn zeta in H. lia.
      * specialize (IH hL hR m E (lend + e_sz e) (S lc0) HF' HL ltac:(lia) H2m Hcan). cbn zeta in IH.
        replace (hL + (lend + e_sz e)) with (hL + lend + e_sz e) in IH by lia. exact IH.
Qed.

(* CanLend... = false: the slab is small *)
Lemma cannot_lend_loop_bound : forall es hL m u E lend,
  Forall (szb E) es -> lend < u -> m <= hL - lend ->
  can_lend_loop es hL m u lend = false ->
  hL < m + u + E \/ lend + sum_sz es < u.
Proof.
  induction es as [|e r IH]; intros hL m u E lend HF Hl Hleft Hc; cbn [can_lend_loop sum_sz] in *.
  - right; lia.
  - pose proof (Forall_inv HF) as Hz. pose proof (Forall_inv_tail HF) as HF'. unfold szb in Hz.
    destruct (hL - (lend + e_sz e) <? m) eqn:H1.
    + left; lia.
    + destruct (u <=? lend + e_sz e) eqn:H2; [discriminate|].
      specialize (IH hL m u E (lend + e_sz e) HF' ltac:(lia) ltac:(lia) Hc). lia.
Qed.

Lemma d_cannot_lend_bound es hL m u E :
  Forall (szb E) es -> hL = P + sum_sz es -> m <= hL -> 0 < u -> u + P <= m ->
  d_can_lend es hL m u = false -> hL < m + u + E.
Proof.
  intros HF HhL Hm Hu HuP Hc. unfold d_can_lend in Hc.
  destruct (Nat.ltb (length es) 2) eqn:Hlen.
  - destruct es as [|a [|b r]]; cbn in Hlen; try discriminate; cbn [sum_sz] in HhL.
    + unfold_sizes; lia.
    + pose proof (Forall_inv HF) as Ha; unfold szb in Ha. unfold_sizes; lia.
  - destruct (hL - u <? m) eqn:H0.
    + lia.
    + pose proof (cannot_lend_loop_bound es hL m u E 0 HF ltac:(lia) ltac:(lia) Hc) as [H|H];
        unfold_sizes; lia.
Qed.

(** * Slab level, for every legal T *)
Section WithT.
Variable T : N.
Hypothesis HT : valid_T T.
Local Notation c := (set_threshold T).

Lemma elem_ok_szb es : Forall (elem_ok c) es -> Forall (szb (cinl_arr c)) es.
Proof. intros H. exact H. Qed.

(* a data slab above the maximum holds at least two elements *)
Lemma full_has_two : forall es,
  Forall (elem_ok c) es -> cmax c < P + sum_sz es -> (2 <= length es)%nat.
Proof.
  intros es HF Hfull. destruct es as [|a [|b r]]; cbn [sum_sz length] in *; [| |lia].
  - exfalso. cfg_lia.
  - pose proof (Forall_inv HF) as Ha; unfold elem_ok in Ha. exfalso. cfg_lia.
Qed.

Definition split_slack (n : anode) : N := if is_data n then cinl_arr c + (P - RP) else HS.

(** L1 *)
Lemma split_ok d n newid :
  wfn c d n ->
  cmax c < h_size (hdr_of n) -> h_size (hdr_of n) <= cmax c + split_slack n ->
  exists l r, n_split n newid = Ok (l, r) /\ wfn c d l /\ wfn c d r /\ in_band c l /\ in_band c r /\
    to_list l ++ to_list r = to_list n /\
    h_id (hdr_of l) = h_id (hdr_of n) /\ h_id (hdr_of r) = newid /\
    h_count (hdr_of l) + h_count (hdr_of r) = h_count (hdr_of n) /\
    last_next r = last_next n.
Proof.
  intros Hwf Hlo Hhi. destruct n as [h nx es | h hs sums cs]; cbn [hdr_of is_data split_slack] in *.
  - apply wfn_AD_iff in Hwf. destruct Hwf as (-> & HF & Hcnt & Hsz).
    pose proof (full_has_two es HF ltac:(lia)) as H2.
    unfold n_split. destruct (Nat.ltb (length es) 2) eqn:Hlt; [apply Nat.ltb_lt in Hlt; lia|].
    replace (h_size h - P) with (sum_sz es) by lia.
    destruct (split_point es (sum_sz es) ((sum_sz es + 1) / 2) 0 0) as [lc ls] eqn:Hsp.
    pose proof (split_point_spec es (sum_sz es) 0 0%nat (cinl_arr c) HF ltac:(lia)
                  ltac:(cfg_lia) lc ls Hsp) as (S1 & S2 & S3 & S4 & S5 & S6).
    rewrite Nat.sub_0_r in S3. cbn [Nat.add] in S2.
    pose proof (sum_sz_firstn_skipn lc es) as Hfs.
    do 2 eexists. split; [reflexivity|].
    repeat split; cbn [hdr_of h_id h_size h_count to_list last_next].
    + apply wfn_AD_iff. repeat split; cbn [h_count h_size].
      * apply Forall_firstn, HF.
      * rewrite firstn_length_le by lia. reflexivity.
      * lia.
    + apply wfn_AD_iff. repeat split; cbn [h_count h_size].
      * apply Forall_skipn, HF.
      * rewrite skipn_length. reflexivity.
      * lia.
    + cfg_lia.
    + cfg_lia.
    + cfg_lia.
    + cfg_lia.
    + apply firstn_skipn.
    + rewrite Hcnt. lia.
  - apply wfn_AM_inv in Hwf. destruct Hwf as (d' & -> & Hw & Hb & Hhs & Hsums & Hcnt & Hsz).
    assert (Hlen : length hs = length cs) by (subst hs; apply map_length).
    assert (H2 : (2 <= length cs)%nat) by cfg_lia.
    unfold n_split. destruct (Nat.ltb (length hs) 2) eqn:Hlt; [apply Nat.ltb_lt in Hlt; lia|].
    set (lc := Nat.div2 (S (length hs))).
    assert (Hlc : (lc = S (length cs) / 2)%nat) by (subst lc; rewrite div2_half, Hlen; reflexivity).
    pose proof (sum_cnt_firstn_skipn lc hs) as Hfs.
    do 2 eexists. split; [reflexivity|].
    repeat split; cbn [hdr_of h_id h_size h_count to_list last_next].
    + constructor; cbn [h_count h_size].
      * apply Forall_firstn, Hw.
      * apply Forall_firstn, Hb.
      * subst hs. apply firstn_map.
      * subst sums. apply psums_firstn.
      * reflexivity.
      * rewrite firstn_length_le by lia. lia.
    + constructor; cbn [h_count h_size].
      * apply Forall_skipn, Hw.
      * apply Forall_skipn, Hb.
      * subst hs. apply skipn_map.
      * reflexivity.
      * lia.
      * rewrite skipn_length. cfg_lia.
    + cfg_lia.
    + cfg_lia.
    + cfg_lia.
    + cfg_lia.
    + rewrite <- flat_map_app, firstn_skipn. reflexivity.
    + lia.
    + rewrite <- (firstn_skipn lc cs) at 2. rewrite map_app. symmetry. apply last_app_nonempty.
      intros E. apply map_eq_nil in E. revert E. apply skipn_nonempty. lia.
Qed.

(** L2 *)
Definition pfx_of (n : anode) : N := if is_data n then P else PM.

Lemma merge_ok d l r :
  wfn c d l -> wfn c d r ->
  exists m, n_merge l r = Ok m /\ wfn c d m /\ to_list m = to_list l ++ to_list r /\
    h_size (hdr_of m) + pfx_of l = h_size (hdr_of l) + h_size (hdr_of r) /\
    h_id (hdr_of m) = h_id (hdr_of l) /\
    h_count (hdr_of m) = h_count (hdr_of l) + h_count (hdr_of r) /\
    (PM < h_size (hdr_of r) -> last_next m = last_next r).
Proof.
  intros Hl Hr. destruct d as [|d].
  - apply wfn_0_inv in Hl. destruct Hl as (h & nx & es & -> & HF & Hc & Hs).
    apply wfn_0_inv in Hr. destruct Hr as (h2 & nx2 & es2 & -> & HF2 & Hc2 & Hs2).
    eexists. split; [reflexivity|]. cbn [hdr_of h_id h_size h_count to_list last_next pfx_of is_data].
    repeat split; try reflexivity.
    + apply wfn_AD_iff. repeat split; cbn [h_count h_size].
      * apply Forall_app; auto.
      * rewrite app_length. lia.
      * rewrite sum_sz_app. unfold_sizes; lia.
    + unfold_sizes; lia.
  - apply wfn_S_inv in Hl. destruct Hl as (h & hs & sums & cs & -> & Hw & Hb & Hhs & Hsums & Hc & Hs).
    apply wfn_S_inv in Hr. destruct Hr as (h2 & hs2 & sums2 & cs2 & -> & Hw2 & Hb2 & Hhs2 & Hsums2 & Hc2 & Hs2).
    eexists. split; [reflexivity|]. cbn [hdr_of h_id h_size h_count to_list last_next pfx_of is_data].
    repeat split; try reflexivity.
    + constructor; cbn [h_count h_size].
      * apply Forall_app; auto.
      * apply Forall_app; auto.
      * subst hs hs2. rewrite map_app. reflexivity.
      * subst sums. unfold last_or0. rewrite psums_last0, psums_app. reflexivity.
      * rewrite sum_cnt_app. lia.
      * rewrite app_length. unfold_sizes; lia.
    + apply flat_map_app.
    + unfold_sizes; lia.
    + intros Hne. rewrite map_app. apply last_app_nonempty.
      intros E. apply map_eq_nil in E. subst cs2. cbn [length] in Hs2. unfold_sizes; lia.
Qed.

(** L3, data slabs *)
Lemma lend_ok_data h nx es h2 nx2 es2 need :
  wfn c 0 (AD h nx es) -> wfn c 0 (AD h2 nx2 es2) -> in_band c (AD h nx es) ->
  h_size h2 + need = cmin c -> 0 < need ->
  n_can_lend_to_right c (AD h nx es) need = true ->
  exists l' r', n_lend_to_right c (AD h nx es) (AD h2 nx2 es2) = Ok (l', r') /\
    wfn c 0 l' /\ wfn c 0 r' /\ in_band c l' /\ in_band c r' /\
    to_list l' ++ to_list r' = es ++ es2 /\
    h_id (hdr_of l') = h_id h /\ h_id (hdr_of r') = h_id h2 /\
    h_count (hdr_of l') + h_count (hdr_of r') = h_count h + h_count h2 /\
    last_next r' = nx2.
Proof.
  intros Hl Hr Hb Hneed Hpos Hcan.
  apply wfn_AD_iff in Hl. destruct Hl as (_ & HF & Hc & Hs).
  apply wfn_AD_iff in Hr. destruct Hr as (_ & HF2 & Hc2 & Hs2).
  unfold in_band in Hb. cbn [hdr_of] in Hb.
  cbn [n_can_lend_to_right] in Hcan. unfold d_can_lend in Hcan.
  destruct (Nat.ltb (length (rev es)) 2); [discriminate|].
  destruct (h_size h - need <? cmin c) eqn:H0; [discriminate|].
  assert (HFr : Forall (szb (cinl_arr c)) (rev es)) by (apply Forall_rev; exact HF).
  replace need with (cmin c - h_size h2) in Hcan by lia.
  cbn [n_lend_to_right].
  pose proof (lend_phase1 (rev es) (h_size h) (h_size h2) (cmin c) (cinl_arr c) 0 (N.to_nat (h_count h))
    HFr ltac:(lia) ltac:(lia) ltac:(rewrite sum_sz_rev; unfold_sizes; lia) ltac:(lia) Hcan) as Hb1.
  cbn zeta in Hb1. replace (h_size h - 0) with (h_size h) in Hb1 by lia.
  destruct (lend_loop (rev es) (h_size h + h_size h2) ((h_size h + h_size h2 + 1) / 2) (cmin c)
              (N.to_nat (h_count h)) (h_size h)) as [lc ls] eqn:Hloop.
  cbn [snd] in Hb1.
  apply lend_loop_shape in Hloop. destruct Hloop as (done & rest & Hrev & Hlc & Hls).
  assert (Hes : es = rev rest ++ rev done).
  { rewrite <- (rev_involutive es), Hrev, rev_app_distr. reflexivity. }
  assert (Hlen : lc = length (rev rest)).
  { rewrite Hlc, Hc, Nat2N.id. rewrite Hes, app_length, !rev_length. lia. }
  assert (Hfn : firstn lc es = rev rest).
  { rewrite Hes, Hlen. rewrite firstn_app, firstn_all, Nat.sub_diag. cbn [firstn]. apply app_nil_r. }
  assert (Hsk : skipn lc es = rev done).
  { rewrite Hes, Hlen. rewrite skipn_app, skipn_all, Nat.sub_diag. cbn [skipn]. reflexivity. }
  assert (Hsum : sum_sz es = sum_sz rest + sum_sz done).
  { rewrite Hes, sum_sz_app, !sum_sz_rev. reflexivity. }
  assert (HFes : Forall (elem_ok c) (rev rest) /\ Forall (elem_ok c) (rev done)).
  { rewrite Hes in HF. apply Forall_app in HF. exact HF. }
  do 2 eexists. split; [reflexivity|]. rewrite Hfn, Hsk. unfold in_band.
  cbn [hdr_of h_id h_size h_count to_list last_next].
  repeat split.
  - apply wfn_AD_iff. repeat split; cbn [h_count h_size]; [tauto|lia|].
    rewrite sum_sz_rev. lia.
  - apply wfn_AD_iff. repeat split; cbn [h_count h_size].
    + apply Forall_app. tauto.
    + rewrite app_length. rewrite Hc, Hc2, Hes, app_length. lia.
    + rewrite sum_sz_app, sum_sz_rev. unfold_sizes; lia.
  - lia.
  - cfg_lia.
  - lia.
  - cfg_lia.
  - rewrite Hes, <- app_assoc. reflexivity.
  - rewrite Hc, Hc2, Hes, app_length. lia.
Qed.

Lemma borrow_ok_data h nx es h2 nx2 es2 need :
  wfn c 0 (AD h nx es) -> wfn c 0 (AD h2 nx2 es2) -> in_band c (AD h2 nx2 es2) ->
  h_size h + need = cmin c -> 0 < need ->
  n_can_lend_to_left c (AD h2 nx2 es2) need = true ->
  exists l' r', n_borrow_from_right c (AD h nx es) (AD h2 nx2 es2) = Ok (l', r') /\
    wfn c 0 l' /\ wfn c 0 r' /\ in_band c l' /\ in_band c r' /\
    to_list l' ++ to_list r' = es ++ es2 /\
    h_id (hdr_of l') = h_id h /\ h_id (hdr_of r') = h_id h2 /\
    h_count (hdr_of l') + h_count (hdr_of r') = h_count h + h_count h2 /\
    last_next r' = nx2.
Proof.
  intros Hl Hr Hb Hneed Hpos Hcan.
  apply wfn_AD_iff in Hl. destruct Hl as (_ & HF & Hc & Hs).
  apply wfn_AD_iff in Hr. destruct Hr as (_ & HF2 & Hc2 & Hs2).
  unfold in_band in Hb. cbn [hdr_of] in Hb.
  cbn [n_can_lend_to_left] in Hcan. unfold d_can_lend in Hcan.
  destruct (Nat.ltb (length es2) 2); [discriminate|].
  destruct (h_size h2 - need <? cmin c) eqn:H0; [discriminate|].
  replace need with (cmin c - h_size h) in Hcan by lia.
  cbn [n_borrow_from_right].
  pose proof (borrow_phase1 es2 (h_size h) (h_size h2) (cmin c) (cinl_arr c) 0 (N.to_nat (h_count h))
    HF2 ltac:(lia) ltac:(lia) ltac:(lia) Hcan) as Hb1.
  cbn zeta in Hb1. replace (h_size h + 0) with (h_size h) in Hb1 by lia.
  destruct (borrow_loop es2 (h_size h + h_size h2) ((h_size h + h_size h2 + 1) / 2) (cmin c)
              (N.to_nat (h_count h)) (h_size h)) as [lc ls] eqn:Hloop.
  cbn [snd] in Hb1.
  apply borrow_loop_shape in Hloop. destruct Hloop as (done & rest & Hes2 & Hlc & Hls).
  assert (Hmv : (lc - N.to_nat (h_count h))%nat = length done) by lia.
  rewrite Hmv.
  assert (Hfn : firstn (length done) es2 = done).
  { rewrite Hes2. rewrite firstn_app, firstn_all, Nat.sub_diag. cbn [firstn]. apply app_nil_r. }
  assert (Hsk : skipn (length done) es2 = rest).
  { rewrite Hes2. rewrite skipn_app, skipn_all, Nat.sub_diag. cbn [skipn]. reflexivity. }
  assert (HFes : Forall (elem_ok c) done /\ Forall (elem_ok c) rest).
  { rewrite Hes2 in HF2. apply Forall_app in HF2. exact HF2. }
  assert (Hsum : sum_sz es2 = sum_sz done + sum_sz rest) by (rewrite Hes2; apply sum_sz_app).
  do 2 eexists. split; [reflexivity|]. rewrite Hfn, Hsk. unfold in_band.
  cbn [hdr_of h_id h_size h_count to_list last_next].
  repeat split.
  - apply wfn_AD_iff. repeat split; cbn [h_count h_size].
    + apply Forall_app. tauto.
    + rewrite app_length. lia.
    + rewrite sum_sz_app. lia.
  - apply wfn_AD_iff. repeat split; cbn [h_count h_size]; [tauto| |].
    + rewrite Hc, Hc2, Hes2, app_length. lia.
    + unfold_sizes; lia.
  - lia.
  - cfg_lia.
  - lia.
  - cfg_lia.
  - rewrite Hes2, <- app_assoc. reflexivity.
  - rewrite Hc, Hc2, Hes2, app_length. lia.
Qed.

(** L4, data slabs *)
Lemma cannot_lend_right_data h nx es need hR :
  wfn c 0 (AD h nx es) -> in_band c (AD h nx es) ->
  hR + need = cmin c -> 0 < need -> P <= hR ->
  n_can_lend_to_right c (AD h nx es) need = false ->
  h_size h + hR - P <= cmax c.
Proof.
  intros Hl Hb Hneed Hpos HP Hcan.
  apply wfn_AD_iff in Hl. destruct Hl as (_ & HF & Hc & Hs).
  unfold in_band in Hb. cbn [hdr_of] in Hb. cbn [n_can_lend_to_right] in Hcan.
  pose proof (d_cannot_lend_bound (rev es) (h_size h) (cmin c) need (cinl_arr c)
    (Forall_rev HF) ltac:(rewrite sum_sz_rev; exact Hs) ltac:(lia) Hpos ltac:(lia) Hcan).
  cfg_lia.
Qed.
Lemma cannot_lend_left_data h nx es need hL :
  wfn c 0 (AD h nx es) -> in_band c (AD h nx es) ->
  hL + need = cmin c -> 0 < need -> P <= hL ->
  n_can_lend_to_left c (AD h nx es) need = false ->
  hL + h_size h - P <= cmax c.
Proof.
  intros Hl Hb Hneed Hpos HP Hcan.
  apply wfn_AD_iff in Hl. destruct Hl as (_ & HF & Hc & Hs).
  unfold in_band in Hb. cbn [hdr_of] in Hb. cbn [n_can_lend_to_left] in Hcan.
  pose proof (d_cannot_lend_bound es (h_size h) (cmin c) need (cinl_arr c)
    HF Hs ltac:(lia) Hpos ltac:(lia) Hcan).
  cfg_lia.
Qed.

(** L3/L4, index slabs: header counts *)
Lemma can_lend_index_inv h hs sums cs need :
  n_can_lend_to_right c (AM h hs sums cs) need = n_can_lend_to_left c (AM h hs sums cs) need.
Proof. reflexivity. Qed.

Lemma lend_ok_index d h hs sums cs h2 hs2 sums2 cs2 need :
  wfn c (S d) (AM h hs sums cs) -> wfn c (S d) (AM h2 hs2 sums2 cs2) -> in_band c (AM h hs sums cs) ->
  h_size h2 + need = cmin c -> 0 < need ->
  n_can_lend_to_right c (AM h hs sums cs) need = true ->
  exists l' r', n_lend_to_right c (AM h hs sums cs) (AM h2 hs2 sums2 cs2) = Ok (l', r') /\
    wfn c (S d) l' /\ wfn c (S d) r' /\ in_band c l' /\ in_band c r' /\
    to_list l' ++ to_list r' = flat_map to_list cs ++ flat_map to_list cs2 /\
    h_id (hdr_of l') = h_id h /\ h_id (hdr_of r') = h_id h2 /\
    h_count (hdr_of l') + h_count (hdr_of r') = h_count h + h_count h2 /\
    (PM < h_size h2 -> last_next r' = last (map last_next cs2) 0).
Proof.
  intros Hl Hr Hb Hneed Hpos Hcan.
  apply wfn_AM_inv in Hl. destruct Hl as (d1 & [= <-] & Hw & Hbs & Hhs & Hsums & Hc & Hs).
  apply wfn_AM_inv in Hr. destruct Hr as (d2 & [= <-] & Hw2 & Hbs2 & Hhs2 & Hsums2 & Hc2 & Hs2).
  unfold in_band in Hb. cbn [hdr_of] in Hb.
  cbn [n_can_lend_to_right] in Hcan. unfold ceil_div in Hcan.
  destruct (HS * ((need + HS - 1) / HS) <=? h_size h) eqn:H0; [|discriminate].
  assert (Hlen : length hs = length cs) by (subst hs; apply map_length).
  assert (Hlen2 : length hs2 = length cs2) by (subst hs2; apply map_length).
  cbn [n_lend_to_right].
  set (lc := Nat.div2 (length hs + length hs2)).
  assert (Hlc : (lc = (length cs + length cs2) / 2)%nat) by (subst lc; rewrite div2_half, Hlen, Hlen2; reflexivity).
  assert (Hle : (lc <= length cs)%nat) by cfg_lia.
  pose proof (sum_cnt_firstn_skipn lc hs) as Hfs.
  do 2 eexists. split; [reflexivity|]. unfold in_band.
  cbn [hdr_of h_id h_size h_count to_list last_next].
  assert (Hlr : length (skipn lc hs ++ hs2) = length (skipn lc cs ++ cs2)).
  { rewrite !app_length, !skipn_length. lia. }
  repeat split.
  - constructor; cbn [h_count h_size].
    + apply Forall_firstn, Hw.
    + apply Forall_firstn, Hbs.
    + subst hs. apply firstn_map.
    + subst sums. apply psums_firstn.
    + reflexivity.
    + rewrite firstn_length_le by lia. reflexivity.
  - constructor; cbn [h_count h_size].
    + apply Forall_app. split; [apply Forall_skipn, Hw|exact Hw2].
    + apply Forall_app. split; [apply Forall_skipn, Hbs|exact Hbs2].
    + subst hs hs2. rewrite map_app, skipn_map. reflexivity.
    + reflexivity.
    + reflexivity.
    + rewrite Hlr. reflexivity.
  - cfg_lia.
  - cfg_lia.
  - rewrite Hlr, app_length, skipn_length. cfg_lia.
  - rewrite Hlr, app_length, skipn_length. cfg_lia.
  - rewrite flat_map_app, app_assoc, <- flat_map_app, firstn_skipn. reflexivity.
  - rewrite sum_cnt_app. lia.
  - intros Hne. rewrite map_app. apply last_app_nonempty.
    intros E. apply map_eq_nil in E. subst cs2. cbn [length] in Hs2. unfold_sizes; lia.
Qed.

Lemma borrow_ok_index d h hs sums cs h2 hs2 sums2 cs2 need :
  wfn c (S d) (AM h hs sums cs) -> wfn c (S d) (AM h2 hs2 sums2 cs2) -> in_band c (AM h2 hs2 sums2 cs2) ->
  h_size h + need = cmin c -> 0 < need ->
  n_can_lend_to_left c (AM h2 hs2 sums2 cs2) need = true ->
  exists l' r', n_borrow_from_right c (AM h hs sums cs) (AM h2 hs2 sums2 cs2) = Ok (l', r') /\
    wfn c (S d) l' /\ wfn c (S d) r' /\ in_band c l' /\ in_band c r' /\
    to_list l' ++ to_list r' = flat_map to_list cs ++ flat_map to_list cs2 /\
    h_id (hdr_of l') = h_id h /\ h_id (hdr_of r') = h_id h2 /\
    h_count (hdr_of l') + h_count (hdr_of r') = h_count h + h_count h2 /\
    last_next r' = last (map last_next cs2) 0.
Proof.
  intros Hl Hr Hb Hneed Hpos Hcan.
  apply wfn_AM_inv in Hl. destruct Hl as (d1 & [= <-] & Hw & Hbs & Hhs & Hsums & Hc & Hs).
  apply wfn_AM_inv in Hr. destruct Hr as (d2 & [= <-] & Hw2 & Hbs2 & Hhs2 & Hsums2 & Hc2 & Hs2).
  unfold in_band in Hb. cbn [hdr_of] in Hb.
  cbn [n_can_lend_to_left] in Hcan. unfold ceil_div in Hcan.
  destruct (HS * ((need + HS - 1) / HS) <=? h_size h2) eqn:H0; [|discriminate].
  assert (Hlen : length hs = length cs) by (subst hs; apply map_length).
  assert (Hlen2 : length hs2 = length cs2) by (subst hs2; apply map_length).
  cbn [n_borrow_from_right].
  set (lc := Nat.div2 (length hs + length hs2)).
  assert (Hlc : (lc = (length cs + length cs2) / 2)%nat) by (subst lc; rewrite div2_half, Hlen, Hlen2; reflexivity).
  rewrite Hlen.
  set (mv := (lc - length cs)%nat).
  assert (Hge : (length cs <= lc)%nat) by cfg_lia.
  assert (Hmv : (mv < length cs2)%nat) by (subst mv; cfg_lia).
  pose proof (sum_cnt_firstn_skipn mv hs2) as Hfs.
  do 2 eexists. split; [reflexivity|]. unfold in_band.
  cbn [hdr_of h_id h_size h_count to_list last_next].
  repeat split.
  - constructor; cbn [h_count h_size].
    + apply Forall_app. split; [exact Hw|apply Forall_firstn, Hw2].
    + apply Forall_app. split; [exact Hbs|apply Forall_firstn, Hbs2].
    + subst hs hs2. rewrite map_app, firstn_map. reflexivity.
    + subst sums. rewrite psums_app. f_equal. f_equal. lia.
    + rewrite sum_cnt_app. lia.
    + rewrite app_length, firstn_length_le by lia. subst mv. unfold_sizes; lia.
  - constructor; cbn [h_count h_size].
    + apply Forall_skipn, Hw2.
    + apply Forall_skipn, Hbs2.
    + subst hs2. apply skipn_map.
    + reflexivity.
    + reflexivity.
    + rewrite !skipn_length. lia.
  - cfg_lia.
  - cfg_lia.
  - rewrite skipn_length. subst mv. cfg_lia.
  - rewrite skipn_length. subst mv. cfg_lia.
  - rewrite flat_map_app, <- app_assoc, <- flat_map_app, firstn_skipn. reflexivity.
  - lia.
  - rewrite <- (firstn_skipn mv cs2) at 2. rewrite map_app. symmetry. apply last_app_nonempty.
    intros E. apply map_eq_nil in E. revert E. apply skipn_nonempty. exact Hmv.
Qed.

Lemma cannot_lend_index d h hs sums cs need hR :
  wfn c (S d) (AM h hs sums cs) -> in_band c (AM h hs sums cs) ->
  hR + need = cmin c -> 0 < need ->
  n_can_lend_to_right c (AM h hs sums cs) need = false ->
  h_size h + hR - PM <= cmax c.
Proof.
  intros Hl Hb Hneed Hpos Hcan.
  apply wfn_AM_inv in Hl. destruct Hl as (d1 & _ & Hw & Hbs & Hhs & Hsums & Hc & Hs).
  unfold in_band in Hb. cbn [hdr_of] in Hb.
  cbn [n_can_lend_to_right] in Hcan. unfold ceil_div in Hcan.
  destruct (HS * ((need + HS - 1) / HS) <=? h_size h) eqn:H0; cfg_lia.
Qed.

(** * L3 and L4 for both kinds of slab *)
Lemma lend_ok d l r need :
  wfn c d l -> wfn c d r -> in_band c l ->
  h_size (hdr_of r) + need = cmin c -> 0 < need ->
  n_can_lend_to_right c l need = true ->
  exists l' r', n_lend_to_right c l r = Ok (l', r') /\
    wfn c d l' /\ wfn c d r' /\ in_band c l' /\ in_band c r' /\
    to_list l' ++ to_list r' = to_list l ++ to_list r /\
    h_id (hdr_of l') = h_id (hdr_of l) /\ h_id (hdr_of r') = h_id (hdr_of r) /\
    h_count (hdr_of l') + h_count (hdr_of r') = h_count (hdr_of l) + h_count (hdr_of r) /\
    (PM < h_size (hdr_of r) -> last_next r' = last_next r).
Proof.
  intros Hl Hr Hb Hneed Hpos Hcan. destruct d as [|d].
  - destruct (wfn_0_inv _ _ Hl) as (h & nx & es & -> & _).
    destruct (wfn_0_inv _ _ Hr) as (h2 & nx2 & es2 & -> & _).
    destruct (lend_ok_data h nx es h2 nx2 es2 need Hl Hr Hb Hneed Hpos Hcan)
      as (l' & r' & H1 & H2 & H3 & H4 & H5 & H6 & H7 & H8 & H9 & H10).
    exists l', r'. cbn [to_list hdr_of last_next]. repeat (split; [solve [auto]|]); auto.
  - destruct (wfn_S_inv _ _ _ Hl) as (h & hs & sums & cs & -> & _).
    destruct (wfn_S_inv _ _ _ Hr) as (h2 & hs2 & sums2 & cs2 & -> & _).
    destruct (lend_ok_index d h hs sums cs h2 hs2 sums2 cs2 need Hl Hr Hb Hneed Hpos Hcan)
      as (l' & r' & H1 & H2 & H3 & H4 & H5 & H6 & H7 & H8 & H9 & H10).
    exists l', r'. cbn [to_list hdr_of last_next]. repeat (split; [solve [auto]|]); auto.
Qed.

Lemma borrow_ok d l r need :
  wfn c d l -> wfn c d r -> in_band c r ->
  h_size (hdr_of l) + need = cmin c -> 0 < need ->
  n_can_lend_to_left c r need = true ->
  exists l' r', n_borrow_from_right c l r = Ok (l', r') /\
    wfn c d l' /\ wfn c d r' /\ in_band c l' /\ in_band c r' /\
    to_list l' ++ to_list r' = to_list l ++ to_list r /\
    h_id (hdr_of l') = h_id (hdr_of l) /\ h_id (hdr_of r') = h_id (hdr_of r) /\
    h_count (hdr_of l') + h_count (hdr_of r') = h_count (hdr_of l) + h_count (hdr_of r) /\
    last_next r' = last_next r.
Proof.
  intros Hl Hr Hb Hneed Hpos Hcan. destruct d as [|d].
  - destruct (wfn_0_inv _ _ Hl) as (h & nx & es & -> & _).
    destruct (wfn_0_inv _ _ Hr) as (h2 & nx2 & es2 & -> & _).
    destruct (borrow_ok_data h nx es h2 nx2 es2 need Hl Hr Hb Hneed Hpos Hcan)
      as (l' & r' & H1 & H2 & H3 & H4 & H5 & H6 & H7 & H8 & H9 & H10).
    exists l', r'. cbn [to_list hdr_of last_next]. repeat (split; [solve [auto]|]); auto.
  - destruct (wfn_S_inv _ _ _ Hl) as (h & hs & sums & cs & -> & _).
    destruct (wfn_S_inv _ _ _ Hr) as (h2 & hs2 & sums2 & cs2 & -> & _).
    destruct (borrow_ok_index d h hs sums cs h2 hs2 sums2 cs2 need Hl Hr Hb Hneed Hpos Hcan)
      as (l' & r' & H1 & H2 & H3 & H4 & H5 & H6 & H7 & H8 & H9 & H10).
    exists l', r'. cbn [to_list hdr_of last_next]. repeat (split; [solve [auto]|]); auto.
Qed.

(* every well-formed slab is at least its prefix *)
Lemma wfn_size_ge_pfx d n : wfn c d n -> pfx_of n <= h_size (hdr_of n).
Proof. intros H. inversion H; subst; cbn [pfx_of is_data hdr_of]; lia. Qed.

Lemma cannot_lend_right_merge_le_max d l r need :
  wfn c d l -> wfn c d r -> in_band c l ->
  h_size (hdr_of r) + need = cmin c -> 0 < need ->
  n_can_lend_to_right c l need = false ->
  h_size (hdr_of l) + h_size (hdr_of r) <= cmax c + pfx_of l.
Proof.
  intros Hl Hr Hb Hneed Hpos Hcan. pose proof (wfn_size_ge_pfx _ _ Hr) as Hp. destruct d as [|d].
  - destruct (wfn_0_inv _ _ Hl) as (h & nx & es & -> & _).
    destruct (wfn_0_inv _ _ Hr) as (h2 & nx2 & es2 & -> & _).
    cbn [pfx_of is_data hdr_of] in *.
    pose proof (cannot_lend_right_data h nx es need (h_size h2) Hl Hb Hneed Hpos Hp Hcan). lia.
  - destruct (wfn_S_inv _ _ _ Hl) as (h & hs & sums & cs & -> & _).
    destruct (wfn_S_inv _ _ _ Hr) as (h2 & hs2 & sums2 & cs2 & -> & _).
    cbn [pfx_of is_data hdr_of] in *.
    pose proof (cannot_lend_index d h hs sums cs need (h_size h2) Hl Hb Hneed Hpos Hcan). lia.
Qed.

Lemma cannot_lend_left_merge_le_max d l r need :
  wfn c d l -> wfn c d r -> in_band c r ->
  h_size (hdr_of l) + need = cmin c -> 0 < need ->
  n_can_lend_to_left c r need = false ->
  h_size (hdr_of l) + h_size (hdr_of r) <= cmax c + pfx_of l.
Proof.
  intros Hl Hr Hb Hneed Hpos Hcan. pose proof (wfn_size_ge_pfx _ _ Hl) as Hp. destruct d as [|d].
  - destruct (wfn_0_inv _ _ Hl) as (h & nx & es & -> & _).
    destruct (wfn_0_inv _ _ Hr) as (h2 & nx2 & es2 & -> & _).
    cbn [pfx_of is_data hdr_of] in *.
    pose proof (cannot_lend_left_data h2 nx2 es2 need (h_size h) Hr Hb Hneed Hpos Hp Hcan). lia.
  - destruct (wfn_S_inv _ _ _ Hl) as (h & hs & sums & cs & -> & _).
    destruct (wfn_S_inv _ _ _ Hr) as (h2 & hs2 & sums2 & cs2 & -> & _).
    cbn [pfx_of is_data hdr_of] in *.
    rewrite <- can_lend_index_inv in Hcan.
    pose proof (cannot_lend_index d h2 hs2 sums2 cs2 need (h_size h) Hr Hb Hneed Hpos Hcan). lia.
Qed.

(* the merged slab is never below the minimum: the lender is in band, the other at least a prefix *)
Lemma merged_ge_min d l r :
  wfn c d l -> wfn c d r -> in_band c l \/ in_band c r ->
  cmin c + pfx_of l <= h_size (hdr_of l) + h_size (hdr_of r).
Proof.
  intros Hl Hr Hb. pose proof (wfn_size_ge_pfx _ _ Hl). pose proof (wfn_size_ge_pfx _ _ Hr).
  assert (pfx_of r = pfx_of l).
  { unfold pfx_of. rewrite (wfn_is_data _ _ _ Hl), (wfn_is_data _ _ _ Hr). reflexivity. }
  unfold in_band in Hb. lia.
Qed.

(** L5: how far a slab can leave the band in one step *)
(* a slab in band with more than a prefix: an in-band index slab has at least two children, an
   in-band data slab at least one element *)
Lemma in_band_index_two d h hs sums cs :
  wfn c (S d) (AM h hs sums cs) -> in_band c (AM h hs sums cs) -> (2 <= length cs)%nat.
Proof.
  intros Hw Hb. apply wfn_AM_inv in Hw. destruct Hw as (d1 & _ & _ & _ & _ & _ & _ & Hs).
  unfold in_band in Hb. cbn [hdr_of] in Hb. cfg_lia.
Qed.
Lemma in_band_data_nonempty h nx es :
  wfn c 0 (AD h nx es) -> in_band c (AD h nx es) -> (1 <= length es)%nat.
Proof.
  intros Hw Hb. apply wfn_AD_iff in Hw. destruct Hw as (_ & _ & _ & Hs).
  unfold in_band in Hb. cbn [hdr_of] in Hb. destruct es; cbn [sum_sz length] in *; [cfg_lia|lia].
Qed.

End WithT.
