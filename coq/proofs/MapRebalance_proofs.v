(* MapRebalance_proofs.v — slab-level facts about the map slabs (map_data_slab.go,
   map_metadata_slab.go, the slab operations of map_elements_hashkey.go) for EVERY legal slab size
   T (256..32768), every digest assignment and every element mix within the inline limit:
     split_ok                    Split keeps both halves well-formed and inside [min, max], loses
                                 nothing (keys and elements concatenate to the original), the left
                                 half keeps identity and firstKey, the right half's firstKey is its
                                 first digest,
     merge_ok                    Merge concatenates, sizes add up minus one prefix,
     lend_ok / borrow_ok         after CanLend... = true, LendToRight / BorrowFromRight leave both
                                 slabs well-formed and inside [min, max],
     cannot_lend_*_merge_le_max  if the sibling cannot lend, the merged slab is <= max,
   for data slabs (size-driven loops over the element costs) and index slabs (header counts).
   The map twin of Rebalance_proofs.v; the arithmetic of the loops is that of MapTree_proofs.v
   plus the BorrowFromRight loop proved here. *)
From Coq Require Import ZArith NArith List Bool Arith Lia ZifyBool ZifyN ZifyNat Sorted.
From AtreeGen Require Import Consts.
From AtreeModel Require Import Settings MapElems MapElemsInv MapTree MapTreeInv.
From AtreeProofs Require Import Settings_proofs ArrayList_lemmas MapElems_proofs MapTree_proofs.
Import ListNotations.
Local Open Scope N_scope.
Ltac Zify.zify_post_hook ::= Z.div_mod_to_equations.

(** the sibling link of the rightmost leaf of a subtree *)
Fixpoint last_next (n : mnode) : N :=
  match n with
  | MD _ nx _ => nx
  | MM _ _ cs => last (map last_next cs) 0
  end.

(** * Configuration facts *)
Lemma mcfg_facts T : valid_T T ->
  256 <= T /\ T <= 32768 /\ cmin (set_threshold T) = T / 2 /\ cmax (set_threshold T) = T + T / 2 /\
  cinl_melem (set_threshold T) = (T - 26) / 2 - 8 /\ Emax (set_threshold T) = (T - 26) / 2.
Proof. intros HT. unfold_mconsts. repeat split; lia. Qed.

Ltac unfold_msizes :=
  unfold P, RP, PM, HS, HP, c_mapDataSlabPrefixSize, c_mapRootDataSlabPrefixSize, c_hkeyElementsPrefixSize,
    c_mapMetaDataSlabPrefixSize, c_mapSlabHeaderSize, c_digestSize, c_slabIDStorableSize,
    c_externalCollisionGroupPrefixSize, c_inlineCollisionGroupPrefixSize, c_singleElementPrefixSize in *.
(* arithmetic over the thresholds: needs a hypothesis [valid_T T] in the context *)
Ltac mcfg_lia :=
  match goal with H : valid_T ?T |- _ => pose proof (mcfg_facts T H) as (?&?&?&?&?&?) end;
  unfold_msizes; lia.

(** * Lists *)
Lemma Nsum_firstn_skipn k l : Nsum (firstn k l) + Nsum (skipn k l) = Nsum l.
Proof. rewrite <- Nsum_app, firstn_skipn. reflexivity. Qed.
Lemma Nsum_rev l : Nsum (rev l) = Nsum l.
Proof.
  induction l as [|z r IH]; [reflexivity|]. cbn [rev]. rewrite Nsum_app, IH, !Nsum_cons.
  change (Nsum []) with 0. lia.
Qed.
Lemma mForall_firstn {A} (Q : A -> Prop) k l : Forall Q l -> Forall Q (firstn k l).
Proof. intros H. rewrite <- (firstn_skipn k l) in H. apply Forall_app in H. tauto. Qed.
Lemma mForall_skipn {A} (Q : A -> Prop) k l : Forall Q l -> Forall Q (skipn k l).
Proof. intros H. rewrite <- (firstn_skipn k l) in H. apply Forall_app in H. tauto. Qed.
Lemma Forall2_firstn {A B} (R : A -> B -> Prop) k l m : Forall2 R l m -> Forall2 R (firstn k l) (firstn k m).
Proof. intros H. revert k; induction H; intros [|k]; cbn [firstn]; constructor; auto. Qed.
Lemma Forall2_skipn {A B} (R : A -> B -> Prop) k l m : Forall2 R l m -> Forall2 R (skipn k l) (skipn k m).
Proof. intros H. revert k; induction H; intros [|k]; cbn [skipn]; try constructor; auto. Qed.
Lemma ssorted_firstn k l : ssorted l -> ssorted (firstn k l).
Proof. intros H. rewrite <- (firstn_skipn k l) in H. apply ssorted_app_inv2 in H. tauto. Qed.
Lemma ssorted_skipn k l : ssorted l -> ssorted (skipn k l).
Proof. intros H. rewrite <- (firstn_skipn k l) in H. apply ssorted_app_inv2 in H. tauto. Qed.
Lemma hd_firstn (l : list N) k : (0 < k)%nat -> hd 0 (firstn k l) = hd 0 l.
Proof. destruct k; [lia|]. destruct l; reflexivity. Qed.
Lemma firstn_nonempty {A} k (l : list A) : (0 < k)%nat -> l <> [] -> firstn k l <> [].
Proof. destruct k; [lia|]. destruct l; [congruence|discriminate]. Qed.
Lemma mskipn_nonempty {A} k (l : list A) : (k < length l)%nat -> skipn k l <> [].
Proof. intros H E. pose proof (skipn_length k l) as HL. rewrite E in HL. cbn in HL. lia. Qed.
Lemma hfirst_app hs1 hs2 : hs1 <> [] -> hfirst (hs1 ++ hs2) = hfirst hs1.
Proof. destruct hs1; [congruence|reflexivity]. Qed.
Lemma hfirst_firstn k hs : (0 < k)%nat -> hfirst (firstn k hs) = hfirst hs.
Proof. destruct k; [lia|]. destruct hs; reflexivity. Qed.
Lemma last_map_app {A} (f : A -> N) l1 x l2 : last (map f (l1 ++ x :: l2)) 0 = last (map f (x :: l2)) 0.
Proof. rewrite map_app. apply last_app_ne. discriminate. Qed.
Lemma last_map_app_ne {A} (f : A -> N) l1 l2 : l2 <> [] -> last (map f (l1 ++ l2)) 0 = last (map f l2) 0.
Proof. destruct l2 as [|x l2]; [congruence|]. intros _. apply last_map_app. Qed.

Lemma efirst_hd lv hks es sz : efirst (HKey lv hks es sz) = hd 0 hks.
Proof. destruct hks; reflexivity. Qed.

(** * The size-driven loops of hkeyElements, over the list of element costs *)
Definition zb (E : N) (z : N) : Prop := 0 < z <= E.

(* which elements LendToRight moves *)
Lemma mlend_loop_shape : forall rzs size mid m lc0 ls0 lc ls,
  lend_loop rzs size mid m lc0 ls0 = (lc, ls) ->
  exists done rest, rzs = done ++ rest /\ lc = (lc0 - length done)%nat /\ ls = ls0 - Nsum done.
Proof.
  induction rzs as [|z r IH]; intros size mid m lc0 ls0 lc ls H; cbn [lend_loop] in H.
  - injection H as <- <-. exists [], []. cbn. repeat split; lia.
  - destruct ((ls0 - z <? mid) && (m <=? size - ls0)) eqn:Hb.
    + injection H as <- <-. exists [], (z :: r). cbn. repeat split; lia.
    + apply IH in H. destruct H as (done & rest & -> & -> & ->).
      exists (z :: done), rest. cbn [app length]. rewrite Nsum_cons. repeat split; lia.
Qed.

Lemma mlend_loop_rev zs size mid m lc ls :
  lend_loop (rev zs) size mid m (length zs) (Nsum zs) = (lc, ls) ->
  (lc <= length zs)%nat /\ ls = Nsum (firstn lc zs).
Proof.
  intros H. apply mlend_loop_shape in H. destruct H as (done & rest & E & -> & ->).
  assert (Ez : zs = rev rest ++ rev done).
  { rewrite <- rev_app_distr, <- E, rev_involutive. reflexivity. }
  assert (Hl : length zs = (length rest + length done)%nat).
  { rewrite Ez, app_length, !rev_length. reflexivity. }
  split; [lia|].
  replace (length zs - length done)%nat with (length (rev rest)) by (rewrite rev_length; lia).
  rewrite Ez at 2. rewrite firstn_app, firstn_all, Nat.sub_diag. cbn [firstn]. rewrite app_nil_r.
  rewrite Ez, Nsum_app, !Nsum_rev. lia.
Qed.

(* which elements BorrowFromRight moves *)
Lemma mborrow_loop_shape : forall zs size mid m lc0 ls0 lc ls,
  borrow_loop zs size mid m lc0 ls0 = (lc, ls) ->
  exists done rest, zs = done ++ rest /\ lc = (lc0 + length done)%nat /\ ls = ls0 + Nsum done.
Proof.
  induction zs as [|z r IH]; intros size mid m lc0 ls0 lc ls H; cbn [borrow_loop] in H.
  - injection H as <- <-. exists [], []. cbn. repeat split; lia.
  - destruct (mid <? ls0 + z) eqn:H1.
    + destruct (m <=? size - ls0 - z) eqn:H2; injection H as <- <-.
      * exists [z], r. cbn. repeat split; lia.
      * exists [], (z :: r). cbn. repeat split; lia.
    + apply IH in H. destruct H as (done & rest & -> & -> & ->).
      exists (z :: done), rest. cbn [app length]. rewrite Nsum_cons. repeat split; lia.
Qed.

Lemma mborrow_loop_mv zs size mid m lc0 ls0 lc ls :
  borrow_loop zs size mid m lc0 ls0 = (lc, ls) ->
  let mv := (lc - lc0)%nat in (mv <= length zs)%nat /\ ls = ls0 + Nsum (firstn mv zs).
Proof.
  intros H. apply mborrow_loop_shape in H. destruct H as (done & rest & -> & -> & ->). cbv zeta.
  replace (lc0 + length done - lc0)%nat with (length done) by lia.
  rewrite firstn_app, firstn_all, Nat.sub_diag. cbn [firstn]. rewrite app_nil_r, app_length. split; [lia|reflexivity].
Qed.

Lemma mborrow_phase2 : forall zs size m E lc0 ls0,
  Forall (zb E) zs -> 2 * m <= size -> m <= ls0 -> ls0 <= (size + 1) / 2 ->
  let ls := snd (borrow_loop zs size ((size + 1) / 2) m lc0 ls0) in
  m <= ls /\ ls <= (size + 1) / 2 + E /\ m <= size - ls /\ ls0 <= ls.
Proof.
  induction zs as [|z r IH]; intros size m E lc0 ls0 HF H2m Hl Hmid; cbn [borrow_loop].
  - cbn [snd]. lia.
  - pose proof (Forall_inv HF) as Hz. pose proof (Forall_inv_tail HF) as HF'. unfold zb in Hz.
    destruct ((size + 1) / 2 <? ls0 + z) eqn:H1.
    + destruct (m <=? size - ls0 - z) eqn:H2; cbn [snd]; lia.
    + specialize (IH size m E (S lc0) (ls0 + z) HF' H2m ltac:(lia) ltac:(lia)).
      cbn zeta in IH. lia.
Qed.

(* phase 1 in lock step with CanLendToLeft; all quantities are data sizes *)
Lemma mborrow_phase1 : forall zs sL sR m E lend lc0,
  Forall (zb E) zs ->
  sL < m -> lend < m - sL -> 2 * m <= sL + sR ->
  can_lend_loop zs sR m (m - sL) lend = true ->
  let size := sL + sR in
  let ls := snd (borrow_loop zs size ((size + 1) / 2) m lc0 (sL + lend)) in
  m <= ls /\ ls <= (size + 1) / 2 + E /\ m <= size - ls.
Proof.
  induction zs as [|z r IH]; intros sL sR m E lend lc0 HF HL Hlend H2m Hcan size;
    cbn [can_lend_loop borrow_loop] in *.
  - discriminate.
  - pose proof (Forall_inv HF) as Hz. pose proof (Forall_inv_tail HF) as HF'. unfold zb in Hz.
    destruct (sR - (lend + z) <? m) eqn:H1; [discriminate|].
    destruct ((size + 1) / 2 <? sL + lend + z) eqn:H3.
    + assert (Hk : (m <=? size - (sL + lend) - z) = true) by (subst size; lia).
      rewrite Hk. cbn [snd]. subst size. lia.
    + destruct (m - sL <=? lend + z) eqn:H2.
      * pose proof (mborrow_phase2 r size m E (S lc0) (sL + lend + z) HF'
          ltac:(subst size; lia) ltac:(lia) ltac:(lia)) as H. cbn zeta in H. lia.
      * specialize (IH sL sR m E (lend + z) (S lc0) HF' HL ltac:(lia) H2m Hcan). cbn zeta in IH.
        replace (sL + (lend + z)) with (sL + lend + z) in IH by lia. exact IH.
Qed.

(* BorrowFromRight after CanLendToLeft said yes: both data slabs end inside [min, max].
   zs = element costs of the RIGHT (lending) slab, sL = sum of the element costs of the left
   (underflowing) slab. *)
Theorem map_borrow_keeps_bands : forall T zs sL lc0,
  valid_T T -> let c := set_threshold T in
  Forall (fun z => 0 < z <= Emax c) zs ->
  let sR := Nsum zs in
  P + HP + sR <= cmax c -> P + HP + sL < cmin c ->
  e_can_lend zs (HP + sR) (cmin c - P) (cmin c - (P + HP + sL)) = true ->
  let size := (HP + sL) + (HP + sR) - HP * 2 in
  let ls := snd (borrow_loop zs size ((size + 1) / 2) (cmin c - P - HP) lc0 (HP + sL - HP)) in
  cmin c <= P + HP + ls <= cmax c /\ cmin c <= P + HP + (size - ls) <= cmax c.
Proof.
  intros T zs sL lc0 HT c HF sR HX HL Hcan size.
  set (m0 := cmin c - P - HP).
  assert (Hm0 : 0 < m0 /\ cmin c = m0 + P + HP) by (subst m0 c; unfold_mconsts; lia).
  destruct Hm0 as [Hm0 Hmeq].
  unfold e_can_lend in Hcan.
  destruct (length zs <? 2)%nat; [discriminate|].
  destruct (HP + sR - (cmin c - (P + HP + sL)) <? cmin c - P) eqn:H0; [discriminate|].
  replace (cmin c - P) with (m0 + HP) in Hcan by lia.
  rewrite can_lend_loop_shift in Hcan by assumption.
  replace (cmin c - (P + HP + sL)) with (m0 - sL) in Hcan by lia.
  pose proof (mborrow_phase1 zs sL sR m0 (Emax c) 0 lc0 HF ltac:(lia) ltac:(lia) ltac:(lia) Hcan) as H.
  cbn zeta in H. replace (sL + 0) with sL in H by lia.
  replace size with (sL + sR) by (subst size; lia).
  replace (HP + sL - HP) with sL by lia.
  destruct (borrow_loop zs (sL + sR) ((sL + sR + 1) / 2) m0 lc0 sL) as [lc ls]. cbn [snd] in *.
  subst c m0. unfold_mconsts. lia.
Qed.

(** * Slab level, for every legal T *)
Section WithT.
Variable dg : N -> nat -> N.
Variable levels : nat.
Variable T : N.
Hypothesis HT : valid_T T.
Hypothesis Hlv : (0 < levels)%nat.
Local Notation c := (set_threshold T).
Local Notation mwfn := (mwfn dg levels c).
Local Notation in_band := (in_band c).
Local Notation ewf_e := (ewf_e dg levels).
Local Notation costs els := (map ecost els).

Lemma Hcmin : P + HP < cmin c.
Proof. apply valid_T_min, HT. Qed.

Lemma hkr_costs els : hk_recompute els = HP + Nsum (costs els).
Proof. rewrite hk_recompute_eq. reflexivity. Qed.

Lemma costs_bounded els : Forall (elem_ok c) els -> Forall (fun z => 0 < z <= Emax c) (costs els).
Proof.
  intros H. rewrite Forall_map. eapply Forall_impl; [|exact H]. cbn beta. intros e He.
  unfold elem_ok in He. unfold ecost, Emax, c_digestSize. lia.
Qed.

Lemma nfacts d n : mwfn d n -> node_facts c n.
Proof. apply (mwfn_facts dg levels c Hlv Hcmin). Qed.

Lemma kids_facts d cs : Forall (mwfn d) cs -> Forall (node_facts c) cs.
Proof. apply Forall_impl. intros a. apply nfacts. Qed.

Lemma in_band_nonempty d n : mwfn d n -> in_band n -> keys_of n <> [].
Proof. intros Hw Hb. destruct (nfacts d n Hw) as (_ & _ & _ & Hn). auto. Qed.

(** * Inversion / introduction of [mwfn] *)
Lemma mwfn_0_inv n : mwfn 0 n ->
  exists h nx hks els, n = MD h nx (HKey 0 hks els (hk_recompute els)) /\
    ssorted hks /\ Forall2 (ewf_e 0) hks els /\ Forall (elem_ok c) els /\
    mh_first h = hd 0 hks /\ mh_size h = P + hk_recompute els.
Proof.
  intros H. inversion H as [h nx hks els sz Hg He Hf Hs|]; subst.
  inversion Hg; subst. exists h, nx, hks, els. repeat split; assumption.
Qed.

Lemma mwfn_0_intro h nx hks els :
  ssorted hks -> Forall2 (ewf_e 0) hks els -> Forall (elem_ok c) els ->
  mh_first h = hd 0 hks -> mh_size h = P + hk_recompute els ->
  mwfn 0 (MD h nx (HKey 0 hks els (hk_recompute els))).
Proof. intros. constructor; auto. constructor; auto. Qed.

Definition kids_ok (d : nat) (l : list mnode) : Prop := Forall (mwfn d) l /\ Forall in_band l.

Lemma kids_ok_app d a b : kids_ok d (a ++ b) <-> kids_ok d a /\ kids_ok d b.
Proof. unfold kids_ok. rewrite !Forall_app. tauto. Qed.
Lemma kids_ok_cons d a b : kids_ok d (a :: b) <-> (mwfn d a /\ in_band a) /\ kids_ok d b.
Proof. unfold kids_ok. rewrite !Forall_cons_iff. tauto. Qed.
Lemma kids_ok_nil d : kids_ok d [].
Proof. split; constructor. Qed.
Lemma kids_ok_firstn d k l : kids_ok d l -> kids_ok d (firstn k l).
Proof. intros (A & B). split; apply mForall_firstn; assumption. Qed.
Lemma kids_ok_skipn d k l : kids_ok d l -> kids_ok d (skipn k l).
Proof. intros (A & B). split; apply mForall_skipn; assumption. Qed.

Lemma mwfn_S_inv d n : mwfn (S d) n ->
  exists h cs, n = MM h (map hdr_of cs) cs /\ kids_ok d cs /\ cs <> [] /\
    mh_size h = PM + N.of_nat (length cs) * HS /\ mh_first h = hfirst (map hdr_of cs) /\
    ssorted (flat_map keys_of cs).
Proof.
  intros H. pose proof (nfacts _ _ H) as (_ & HS' & _ & _).
  inversion H as [|d' h hs cs Hw Hb Hhs Hne Hsz Hf Hr]; subst.
  exists h, cs. unfold kids_ok. repeat split; auto.
Qed.

(* the key ranges of the children follow from the global order of the digests *)
Lemma ranges_ok_intro cs : Forall (node_facts c) cs -> Forall in_band cs ->
  ssorted (flat_map keys_of cs) -> ranges_ok cs.
Proof.
  induction cs as [|ch r IH]; intros HF HB HS'; [exact I|].
  pose proof (Forall_inv HF) as (L1 & S1 & F1 & N1).
  pose proof (Forall_inv_tail HF) as HF'. pose proof (Forall_inv HB) as B1. pose proof (Forall_inv_tail HB) as HB'.
  cbn [flat_map] in HS'. cbn [ranges_ok]. split; [|split].
  - rewrite Forall_forall. intros k Hk. rewrite F1. apply ssorted_hd_le; assumption.
  - destruct r as [|c2 r']; [exact I|]. rewrite Forall_forall. intros k Hk.
    destruct (Forall_inv HF') as (_ & _ & F2 & N2). specialize (N2 (Forall_inv HB')).
    rewrite F2. apply (ssorted_app_lt _ _ HS'); [assumption|]. cbn [flat_map]. apply in_or_app. left.
    apply hd_In; assumption.
  - apply IH; try assumption. apply ssorted_app_inv2 in HS'. tauto.
Qed.

Lemma mwfn_MM_intro d h cs : kids_ok d cs -> cs <> [] -> ssorted (flat_map keys_of cs) ->
  mh_size h = PM + N.of_nat (length cs) * HS -> mh_first h = hfirst (map hdr_of cs) ->
  mwfn (S d) (MM h (map hdr_of cs) cs).
Proof.
  intros (Hw & Hb) Hne HS' Hsz Hf. constructor; auto. apply ranges_ok_intro; auto.
  apply kids_facts with d; auto.
Qed.

Lemma mwfn_is_data d n : mwfn d n -> is_data n = match d with O => true | S _ => false end.
Proof. intros H. inversion H; reflexivity. Qed.

Definition slack (n : mnode) : N := if is_data n then Emax c else HS.
Definition pfx_of (n : mnode) : N := if is_data n then P + HP else PM.

(** * Data slabs *)
Lemma split_ok_data h nx hks els pfx newid :
  ssorted hks -> Forall2 (ewf_e 0) hks els -> Forall (elem_ok c) els -> mh_first h = hd 0 hks ->
  (pfx = P \/ pfx = RP) -> cmax c < pfx + hk_recompute els -> pfx + hk_recompute els <= cmax c + Emax c ->
  exists l r, n_split (MD h nx (HKey 0 hks els (hk_recompute els))) newid = TOk (l, r) /\
    mwfn 0 l /\ mwfn 0 r /\ in_band l /\ in_band r /\
    keys_of l ++ keys_of r = hks /\ elems_flat l ++ elems_flat r = els /\
    mh_id (hdr_of l) = mh_id h /\ mh_id (hdr_of r) = newid /\ mh_first (hdr_of l) = mh_first h /\
    last_next r = nx.
Proof.
  intros Hs HF He Hf Hp Hlo Hhi. rewrite hkr_costs in Hlo, Hhi.
  pose proof (map_split_both_halves_in_band T (costs els) pfx HT (costs_bounded _ He) Hp) as H. cbv zeta in H.
  specialize (H ltac:(lia) ltac:(lia)).
  cbn [n_split]. cbv zeta.
  replace (hk_recompute els - HP) with (Nsum (costs els)) by (rewrite hkr_costs; lia).
  revert H. destruct (split_point _ _ _ _ _) as [lc ls]. intros (B1 & B2 & Hlc & Hls).
  rewrite map_length in Hlc.
  replace (length els <? 2)%nat with false by (symmetry; apply Nat.ltb_ge; lia).
  assert (E1 : HP + ls = hk_recompute (firstn lc els)).
  { rewrite hkr_costs, Hls, firstn_map. reflexivity. }
  assert (E2 : Nsum (costs els) - ls + HP = hk_recompute (skipn lc els)).
  { rewrite hkr_costs, Hls, <- skipn_map. pose proof (Nsum_firstn_skipn lc (costs els)). lia. }
  rewrite E1, E2. cbn [msize].
  do 2 eexists. split; [reflexivity|].
  assert (Hlh : length hks = length els) by (eapply Forall2_len; eassumption).
  repeat split.
  - apply mwfn_0_intro; cbn [mh_first mh_size].
    + apply ssorted_firstn; assumption.
    + apply Forall2_firstn; assumption.
    + apply mForall_firstn; assumption.
    + rewrite hd_firstn by lia. assumption.
    + reflexivity.
  - apply mwfn_0_intro; cbn [mh_first mh_size].
    + apply ssorted_skipn; assumption.
    + apply Forall2_skipn; assumption.
    + apply mForall_skipn; assumption.
    + apply efirst_hd.
    + reflexivity.
  - cbn [hdr_of mh_size]. rewrite <- E1. lia.
  - cbn [hdr_of mh_size]. rewrite <- E1. lia.
  - cbn [hdr_of mh_size]. rewrite <- E2. lia.
  - cbn [hdr_of mh_size]. rewrite <- E2. lia.
  - cbn [keys_of g_hkeys]. apply firstn_skipn.
  - cbn [elems_flat g_elems]. apply firstn_skipn.
Qed.

Lemma merge_ok_data h nx hks els h2 nx2 hks2 els2 :
  ssorted (hks ++ hks2) -> Forall2 (ewf_e 0) hks els -> Forall2 (ewf_e 0) hks2 els2 ->
  Forall (elem_ok c) els -> Forall (elem_ok c) els2 ->
  exists m, n_merge (MD h nx (HKey 0 hks els (hk_recompute els))) (MD h2 nx2 (HKey 0 hks2 els2 (hk_recompute els2))) = TOk m /\
    mwfn 0 m /\ keys_of m = hks ++ hks2 /\ elems_flat m = els ++ els2 /\
    mh_id (hdr_of m) = mh_id h /\
    mh_size (hdr_of m) + HP = P + hk_recompute els + hk_recompute els2 /\
    last_next m = nx2.
Proof.
  intros Hs HF1 HF2 He1 He2. cbn [n_merge].
  assert (E : hk_recompute els + (hk_recompute els2 - HP) = hk_recompute (els ++ els2)).
  { rewrite !hkr_costs, map_app, Nsum_app. lia. }
  rewrite E. cbn [msize]. eexists. split; [reflexivity|].
  repeat split.
  - apply mwfn_0_intro; cbn [mh_first mh_size].
    + assumption.
    + apply Forall2_app; assumption.
    + apply Forall_app; split; assumption.
    + apply efirst_hd.
    + reflexivity.
  - cbn [hdr_of mh_size]. rewrite <- E. rewrite (hkr_costs els2). lia.
Qed.

Lemma lend_ok_data h nx hks els h2 nx2 hks2 els2 need :
  ssorted (hks ++ hks2) -> Forall2 (ewf_e 0) hks els -> Forall2 (ewf_e 0) hks2 els2 ->
  Forall (elem_ok c) els -> Forall (elem_ok c) els2 -> mh_first h = hd 0 hks ->
  P + hk_recompute els <= cmax c -> P + hk_recompute els2 + need = cmin c -> 0 < need ->
  e_can_lend (rev (costs els)) (hk_recompute els) (cmin c - P) need = true ->
  exists l' r', n_lend_to_right c (MD h nx (HKey 0 hks els (hk_recompute els)))
                                  (MD h2 nx2 (HKey 0 hks2 els2 (hk_recompute els2))) = TOk (l', r') /\
    mwfn 0 l' /\ mwfn 0 r' /\ in_band l' /\ in_band r' /\
    keys_of l' ++ keys_of r' = hks ++ hks2 /\ elems_flat l' ++ elems_flat r' = els ++ els2 /\
    mh_id (hdr_of l') = mh_id h /\ mh_id (hdr_of r') = mh_id h2 /\ mh_first (hdr_of l') = mh_first h /\
    last_next r' = nx2.
Proof.
  intros Hs HF1 HF2 He1 He2 Hf HX HR Hneed Hcan.
  pose proof (map_lend_keeps_bands T (costs els) (Nsum (costs els2)) HT (costs_bounded _ He1)) as H. cbv zeta in H.
  rewrite !hkr_costs in *.
  specialize (H ltac:(lia) ltac:(lia)).
  replace (cmin c - (P + HP + Nsum (costs els2))) with need in H by lia.
  specialize (H Hcan).
  cbn [n_lend_to_right]. cbn [Nat.eqb negb]. cbv zeta.
  rewrite map_length in H.
  revert H. destruct (lend_loop _ _ _ _ _ _) as [lc ls] eqn:EL. intros (B1 & B2).
  replace (HP + Nsum (costs els) + (HP + Nsum (costs els2)) - HP * 2) with (Nsum (costs els) + Nsum (costs els2)) in * by lia.
  replace (HP + Nsum (costs els) - HP) with (Nsum (costs els)) in EL by lia.
  rewrite <- (map_length ecost els) in EL.
  apply mlend_loop_rev in EL. destruct EL as (Hlc & Hls). rewrite map_length in Hlc.
  assert (Hlc0 : (0 < lc)%nat).
  { destruct lc; [|lia]. cbn in Hls. subst ls. mcfg_lia. }
  assert (E1 : HP + ls = hk_recompute (firstn lc els)).
  { rewrite hkr_costs, Hls, firstn_map. reflexivity. }
  assert (E2 : Nsum (costs els) + Nsum (costs els2) - ls + HP = hk_recompute (skipn lc els ++ els2)).
  { rewrite hkr_costs, Hls, map_app, Nsum_app, <- skipn_map. pose proof (Nsum_firstn_skipn lc (costs els)). lia. }
  rewrite E1, E2. cbn [msize].
  do 2 eexists. split; [reflexivity|].
  assert (Hsplit : hks ++ hks2 = firstn lc hks ++ (skipn lc hks ++ hks2)).
  { rewrite app_assoc, firstn_skipn. reflexivity. }
  repeat split.
  - apply mwfn_0_intro; cbn [mh_first mh_size].
    + apply ssorted_firstn. apply ssorted_app_inv2 in Hs. tauto.
    + apply Forall2_firstn; assumption.
    + apply mForall_firstn; assumption.
    + rewrite hd_firstn by lia. assumption.
    + reflexivity.
  - apply mwfn_0_intro; cbn [mh_first mh_size].
    + rewrite Hsplit in Hs. apply ssorted_app_inv2 in Hs. tauto.
    + apply Forall2_app; [apply Forall2_skipn|]; assumption.
    + apply Forall_app; split; [apply mForall_skipn|]; assumption.
    + apply efirst_hd.
    + reflexivity.
  - cbn [hdr_of mh_size]. rewrite <- E1. lia.
  - cbn [hdr_of mh_size]. rewrite <- E1. lia.
  - cbn [hdr_of mh_size]. rewrite <- E2. lia.
  - cbn [hdr_of mh_size]. rewrite <- E2. lia.
  - cbn [keys_of g_hkeys]. symmetry. exact Hsplit.
  - cbn [elems_flat g_elems]. rewrite app_assoc, firstn_skipn. reflexivity.
Qed.

Lemma borrow_ok_data h nx hks els h2 nx2 hks2 els2 need :
  ssorted (hks ++ hks2) -> Forall2 (ewf_e 0) hks els -> Forall2 (ewf_e 0) hks2 els2 ->
  Forall (elem_ok c) els -> Forall (elem_ok c) els2 ->
  P + hk_recompute els2 <= cmax c -> P + hk_recompute els + need = cmin c -> 0 < need ->
  e_can_lend (costs els2) (hk_recompute els2) (cmin c - P) need = true ->
  exists l' r', n_borrow_from_right c (MD h nx (HKey 0 hks els (hk_recompute els)))
                                      (MD h2 nx2 (HKey 0 hks2 els2 (hk_recompute els2))) = TOk (l', r') /\
    mwfn 0 l' /\ mwfn 0 r' /\ in_band l' /\ in_band r' /\
    keys_of l' ++ keys_of r' = hks ++ hks2 /\ elems_flat l' ++ elems_flat r' = els ++ els2 /\
    mh_id (hdr_of l') = mh_id h /\ mh_id (hdr_of r') = mh_id h2 /\
    last_next r' = nx2.
Proof.
  intros Hs HF1 HF2 He1 He2 HX HL Hneed Hcan.
  pose proof (map_borrow_keeps_bands T (costs els2) (Nsum (costs els)) (length els) HT (costs_bounded _ He2)) as H.
  cbv zeta in H. rewrite !hkr_costs in *.
  specialize (H ltac:(lia) ltac:(lia)).
  replace (cmin c - (P + HP + Nsum (costs els))) with need in H by lia.
  specialize (H Hcan).
  cbn [n_borrow_from_right]. cbn [Nat.eqb negb]. cbv zeta.
  revert H. destruct (borrow_loop _ _ _ _ _ _) as [lc ls] eqn:EL. cbn [snd]. intros (B1 & B2).
  replace (HP + Nsum (costs els) + (HP + Nsum (costs els2)) - HP * 2) with (Nsum (costs els) + Nsum (costs els2)) in * by lia.
  replace (HP + Nsum (costs els) - HP) with (Nsum (costs els)) in EL by lia.
  apply mborrow_loop_mv in EL. cbv zeta in EL. destruct EL as (Hmv & Hls). rewrite map_length in Hmv.
  set (mv := (lc - length els)%nat) in *.
  assert (E1 : ls + HP = hk_recompute (els ++ firstn mv els2)).
  { rewrite hkr_costs, Hls, map_app, Nsum_app, firstn_map. lia. }
  assert (E2 : Nsum (costs els) + Nsum (costs els2) - ls + HP = hk_recompute (skipn mv els2)).
  { rewrite hkr_costs, Hls, <- skipn_map. pose proof (Nsum_firstn_skipn mv (costs els2)). lia. }
  rewrite E1, E2. cbn [msize].
  do 2 eexists. split; [reflexivity|].
  assert (Hsplit : hks ++ hks2 = (hks ++ firstn mv hks2) ++ skipn mv hks2).
  { rewrite <- app_assoc, firstn_skipn. reflexivity. }
  repeat split.
  - apply mwfn_0_intro; cbn [mh_first mh_size].
    + rewrite Hsplit in Hs. apply ssorted_app_inv2 in Hs. tauto.
    + apply Forall2_app; [|apply Forall2_firstn]; assumption.
    + apply Forall_app; split; [|apply mForall_firstn]; assumption.
    + apply efirst_hd.
    + reflexivity.
  - apply mwfn_0_intro; cbn [mh_first mh_size].
    + rewrite Hsplit in Hs. apply ssorted_app_inv2 in Hs. tauto.
    + apply Forall2_skipn; assumption.
    + apply mForall_skipn; assumption.
    + apply efirst_hd.
    + reflexivity.
  - cbn [hdr_of mh_size]. rewrite <- E1. lia.
  - cbn [hdr_of mh_size]. rewrite <- E1. lia.
  - cbn [hdr_of mh_size]. rewrite <- E2. lia.
  - cbn [hdr_of mh_size]. rewrite <- E2. lia.
  - cbn [keys_of g_hkeys]. symmetry. exact Hsplit.
  - cbn [elems_flat g_elems]. rewrite <- app_assoc, firstn_skipn. reflexivity.
Qed.

Lemma cannot_lend_right_data els els2 need :
  Forall (elem_ok c) els -> cmin c <= P + hk_recompute els -> P + hk_recompute els <= cmax c ->
  P + hk_recompute els2 + need = cmin c -> 0 < need ->
  e_can_lend (rev (costs els)) (hk_recompute els) (cmin c - P) need = false ->
  P + hk_recompute els + hk_recompute els2 <= cmax c + HP.
Proof.
  intros He Hm HX HR Hneed Hcan. rewrite !hkr_costs in *.
  pose proof (map_merge_le_max T (rev (costs els)) (Nsum (costs els2)) HT) as H. cbv zeta in H.
  rewrite Nsum_rev in H. specialize (H ltac:(apply Forall_rev, costs_bounded, He) ltac:(lia) ltac:(lia) ltac:(lia)).
  replace (cmin c - (P + HP + Nsum (costs els2))) with need in H by lia.
  specialize (H Hcan). lia.
Qed.

Lemma cannot_lend_left_data els els2 need :
  Forall (elem_ok c) els2 -> cmin c <= P + hk_recompute els2 -> P + hk_recompute els2 <= cmax c ->
  P + hk_recompute els + need = cmin c -> 0 < need ->
  e_can_lend (costs els2) (hk_recompute els2) (cmin c - P) need = false ->
  P + hk_recompute els + hk_recompute els2 <= cmax c + HP.
Proof.
  intros He Hm HX HR Hneed Hcan. rewrite !hkr_costs in *.
  pose proof (map_merge_le_max T (costs els2) (Nsum (costs els)) HT) as H. cbv zeta in H.
  specialize (H ltac:(apply costs_bounded, He) ltac:(lia) ltac:(lia) ltac:(lia)).
  replace (cmin c - (P + HP + Nsum (costs els))) with need in H by lia.
  specialize (H Hcan). lia.
Qed.

(** * Index slabs *)
Lemma flat_keys_firstn_skipn k (cs : list mnode) :
  flat_map keys_of (firstn k cs) ++ flat_map keys_of (skipn k cs) = flat_map keys_of cs.
Proof. rewrite <- flat_map_app, firstn_skipn. reflexivity. Qed.
Lemma flat_elems_firstn_skipn k (cs : list mnode) :
  flat_map elems_flat (firstn k cs) ++ flat_map elems_flat (skipn k cs) = flat_map elems_flat cs.
Proof. rewrite <- flat_map_app, firstn_skipn. reflexivity. Qed.

Lemma m_can_lend_size h need : m_can_lend c h need = m_can_lend c (mkmhdr 0 (mh_size h) 0) need.
Proof. reflexivity. Qed.

Lemma split_ok_index d h cs newid :
  kids_ok d cs -> ssorted (flat_map keys_of cs) ->
  mh_size h = PM + N.of_nat (length cs) * HS -> mh_first h = hfirst (map hdr_of cs) ->
  cmax c < mh_size h -> mh_size h <= cmax c + HS ->
  exists l r, n_split (MM h (map hdr_of cs) cs) newid = TOk (l, r) /\
    mwfn (S d) l /\ mwfn (S d) r /\ in_band l /\ in_band r /\
    keys_of l ++ keys_of r = flat_map keys_of cs /\ elems_flat l ++ elems_flat r = flat_map elems_flat cs /\
    mh_id (hdr_of l) = mh_id h /\ mh_id (hdr_of r) = newid /\ mh_first (hdr_of l) = mh_first h /\
    last_next r = last (map last_next cs) 0.
Proof.
  intros Hk Hs Hsz Hf Hlo Hhi.
  pose proof (map_index_split_in_band T (N.of_nat (length cs)) HT) as H. cbv zeta in H.
  specialize (H ltac:(lia) ltac:(lia)). destruct H as (H2 & B1 & B2).
  cbn [n_split]. rewrite map_length.
  replace (length cs <? 2)%nat with false by (symmetry; apply Nat.ltb_ge; lia).
  cbv zeta. set (lc := Nat.div2 (S (length cs))).
  assert (Hlc : N.of_nat lc = (N.of_nat (length cs) + 1) / 2 /\ (0 < lc < length cs)%nat).
  { subst lc. rewrite Nat.div2_div. split; lia. }
  destruct Hlc as (Hlc & Hlc').
  rewrite firstn_map, skipn_map.
  do 2 eexists. split; [reflexivity|].
  pose proof (flat_keys_firstn_skipn lc cs) as EK. rewrite <- EK in Hs. apply ssorted_app_inv2 in Hs.
  assert (Hl1 : length (firstn lc cs) = lc) by (apply firstn_length_le; lia).
  assert (Hl2 : length (skipn lc cs) = (length cs - lc)%nat) by apply skipn_length.
  repeat split.
  - apply mwfn_MM_intro; cbn [mh_size mh_first].
    + apply kids_ok_firstn; assumption.
    + apply firstn_nonempty; [lia|]. destruct cs; [cbn in Hlc'; lia|discriminate].
    + tauto.
    + rewrite Hl1. reflexivity.
    + rewrite <- firstn_map, hfirst_firstn by lia. assumption.
  - apply mwfn_MM_intro; cbn [mh_size mh_first].
    + apply kids_ok_skipn; assumption.
    + apply mskipn_nonempty. lia.
    + tauto.
    + rewrite Hl2, Hsz. unfold_msizes. lia.
    + reflexivity.
  - cbn [hdr_of mh_size]. lia.
  - cbn [hdr_of mh_size]. lia.
  - cbn [hdr_of mh_size]. rewrite Hsz. lia.
  - cbn [hdr_of mh_size]. rewrite Hsz. lia.
  - cbn [keys_of]. exact EK.
  - cbn [elems_flat]. apply flat_elems_firstn_skipn.
  - cbn [last_next]. rewrite <- (firstn_skipn lc cs) at 2. rewrite last_map_app_ne; [reflexivity|].
    apply mskipn_nonempty. lia.
Qed.

Lemma merge_ok_index d h cs h2 cs2 :
  kids_ok d cs -> kids_ok d cs2 -> cs <> [] -> cs2 <> [] ->
  ssorted (flat_map keys_of cs ++ flat_map keys_of cs2) ->
  mh_size h = PM + N.of_nat (length cs) * HS -> mh_size h2 = PM + N.of_nat (length cs2) * HS ->
  mh_first h = hfirst (map hdr_of cs) ->
  exists m, n_merge (MM h (map hdr_of cs) cs) (MM h2 (map hdr_of cs2) cs2) = TOk m /\
    mwfn (S d) m /\ keys_of m = flat_map keys_of cs ++ flat_map keys_of cs2 /\
    elems_flat m = flat_map elems_flat cs ++ flat_map elems_flat cs2 /\
    mh_id (hdr_of m) = mh_id h /\ mh_size (hdr_of m) + PM = mh_size h + mh_size h2 /\
    last_next m = last (map last_next cs2) 0.
Proof.
  intros K1 K2 N1 N2 Hs S1 S2 Hf. cbn [n_merge]. rewrite <- map_app.
  eexists. split; [reflexivity|]. repeat split.
  - apply mwfn_MM_intro; cbn [mh_size mh_first].
    + apply kids_ok_app. split; assumption.
    + destruct cs; [congruence|discriminate].
    + rewrite flat_map_app. assumption.
    + rewrite app_length, S1, S2. unfold_msizes. lia.
    + rewrite map_app, hfirst_app; [assumption|]. destruct cs; [congruence|discriminate].
  - cbn [keys_of]. apply flat_map_app.
  - cbn [elems_flat]. apply flat_map_app.
  - cbn [hdr_of mh_size]. rewrite S2. unfold_msizes. lia.
  - cbn [last_next]. apply last_map_app_ne. assumption.
Qed.

Lemma div2_facts a b : (b < a)%nat ->
  let lc := Nat.div2 (a + b) in (b <= lc <= a)%nat /\ N.of_nat lc = (N.of_nat a + N.of_nat b) / 2.
Proof. intros H lc. subst lc. rewrite Nat.div2_div. split; lia. Qed.

Lemma lend_ok_index d h cs h2 cs2 need :
  kids_ok d cs -> kids_ok d cs2 -> cs <> [] ->
  ssorted (flat_map keys_of cs ++ flat_map keys_of cs2) ->
  mh_size h = PM + N.of_nat (length cs) * HS -> mh_size h2 = PM + N.of_nat (length cs2) * HS ->
  mh_first h = hfirst (map hdr_of cs) ->
  cmin c <= mh_size h -> mh_size h <= cmax c -> mh_size h2 + need = cmin c -> 0 < need ->
  m_can_lend c h need = true ->
  exists l' r', n_lend_to_right c (MM h (map hdr_of cs) cs) (MM h2 (map hdr_of cs2) cs2) = TOk (l', r') /\
    mwfn (S d) l' /\ mwfn (S d) r' /\ in_band l' /\ in_band r' /\
    keys_of l' ++ keys_of r' = flat_map keys_of cs ++ flat_map keys_of cs2 /\
    elems_flat l' ++ elems_flat r' = flat_map elems_flat cs ++ flat_map elems_flat cs2 /\
    mh_id (hdr_of l') = mh_id h /\ mh_id (hdr_of r') = mh_id h2 /\ mh_first (hdr_of l') = mh_first h /\
    last_next r' = last (map last_next (cs ++ cs2)) 0.
Proof.
  intros K1 K2 N1 Hs S1 S2 Hf Hm HX HR Hneed Hcan.
  rewrite m_can_lend_size, S1 in Hcan.
  pose proof (map_index_rebalance_in_band T (N.of_nat (length cs)) (N.of_nat (length cs2)) 0 0 HT) as H.
  cbv zeta in H. specialize (H ltac:(lia) ltac:(lia)).
  replace (cmin c - (PM + N.of_nat (length cs2) * HS)) with need in H by lia.
  specialize (H Hcan). destruct H as (B1 & B2).
  assert (Hlt : (length cs2 < length cs)%nat) by (unfold_msizes; nia).
  destruct (div2_facts _ _ Hlt) as (Hlc & HlcN). cbv zeta in Hlc, HlcN.
  cbn [n_lend_to_right]. rewrite !map_length. cbv zeta.
  set (lc := Nat.div2 (length cs + length cs2)) in *.
  replace (length cs <? lc)%nat with false by (symmetry; apply Nat.ltb_ge; lia).
  assert (Hlc0 : (0 < lc)%nat).
  { destruct lc; [|lia]. exfalso. rewrite <- HlcN in B1. mcfg_lia. }
  rewrite firstn_map, skipn_map, <- map_app.
  do 2 eexists. split; [reflexivity|].
  assert (EK : flat_map keys_of cs ++ flat_map keys_of cs2 =
               flat_map keys_of (firstn lc cs) ++ flat_map keys_of (skipn lc cs ++ cs2)).
  { rewrite (flat_map_app _ (skipn lc cs)), app_assoc, flat_keys_firstn_skipn. reflexivity. }
  rewrite EK in Hs. apply ssorted_app_inv2 in Hs.
  assert (Hl1 : length (firstn lc cs) = lc) by (apply firstn_length_le; lia).
  repeat split.
  - apply mwfn_MM_intro; cbn [mh_size mh_first].
    + apply kids_ok_firstn; assumption.
    + apply firstn_nonempty; [lia|assumption].
    + tauto.
    + rewrite Hl1. reflexivity.
    + rewrite <- firstn_map, hfirst_firstn by lia. assumption.
  - apply mwfn_MM_intro; cbn [mh_size mh_first].
    + apply kids_ok_app. split; [apply kids_ok_skipn|]; assumption.
    + intros E. apply app_eq_nil in E. destruct E as (E1 & E2).
      assert (length cs2 = 0%nat) by (rewrite E2; reflexivity).
      pose proof (skipn_length lc cs) as HL. rewrite E1 in HL. cbn in HL.
      rewrite <- HlcN in B2. mcfg_lia.
    + tauto.
    + rewrite app_length, skipn_length. f_equal. f_equal. lia.
    + reflexivity.
  - cbn [hdr_of mh_size]. rewrite <- HlcN in B1. lia.
  - cbn [hdr_of mh_size]. rewrite <- HlcN in B1. lia.
  - cbn [hdr_of mh_size]. rewrite <- HlcN in B2. lia.
  - cbn [hdr_of mh_size]. rewrite <- HlcN in B2. lia.
  - cbn [keys_of]. symmetry. exact EK.
  - cbn [elems_flat]. rewrite (flat_map_app _ (skipn lc cs)), app_assoc, flat_elems_firstn_skipn. reflexivity.
  - cbn [last_next]. rewrite <- (firstn_skipn lc cs) at 2. rewrite <- app_assoc.
    destruct (skipn lc cs ++ cs2) eqn:E; [|rewrite last_map_app_ne; [reflexivity|discriminate]].
    exfalso. apply app_eq_nil in E. destruct E as (E1 & E2).
    assert (length cs2 = 0%nat) by (rewrite E2; reflexivity).
    pose proof (skipn_length lc cs) as HL. rewrite E1 in HL. cbn in HL.
    rewrite <- HlcN in B2. mcfg_lia.
Qed.

Lemma borrow_ok_index d h cs h2 cs2 need :
  kids_ok d cs -> kids_ok d cs2 -> cs <> [] ->
  ssorted (flat_map keys_of cs ++ flat_map keys_of cs2) ->
  mh_size h = PM + N.of_nat (length cs) * HS -> mh_size h2 = PM + N.of_nat (length cs2) * HS ->
  mh_first h = hfirst (map hdr_of cs) ->
  cmin c <= mh_size h2 -> mh_size h2 <= cmax c -> mh_size h + need = cmin c -> 0 < need ->
  m_can_lend c h2 need = true ->
  exists l' r', n_borrow_from_right c (MM h (map hdr_of cs) cs) (MM h2 (map hdr_of cs2) cs2) = TOk (l', r') /\
    mwfn (S d) l' /\ mwfn (S d) r' /\ in_band l' /\ in_band r' /\
    keys_of l' ++ keys_of r' = flat_map keys_of cs ++ flat_map keys_of cs2 /\
    elems_flat l' ++ elems_flat r' = flat_map elems_flat cs ++ flat_map elems_flat cs2 /\
    mh_id (hdr_of l') = mh_id h /\ mh_id (hdr_of r') = mh_id h2 /\ mh_first (hdr_of l') = mh_first h /\
    last_next r' = last (map last_next cs2) 0.
Proof.
  intros K1 K2 N1 Hs S1 S2 Hf Hm HX HL Hneed Hcan.
  rewrite m_can_lend_size, S2 in Hcan.
  pose proof (map_index_rebalance_in_band T (N.of_nat (length cs2)) (N.of_nat (length cs)) 0 0 HT) as H.
  cbv zeta in H. specialize (H ltac:(lia) ltac:(lia)).
  replace (cmin c - (PM + N.of_nat (length cs) * HS)) with need in H by lia.
  specialize (H Hcan). destruct H as (B1 & B2).
  assert (Hlt : (length cs < length cs2)%nat) by (unfold_msizes; nia).
  destruct (div2_facts _ _ Hlt) as (Hlc & HlcN). cbv zeta in Hlc, HlcN.
  cbn [n_borrow_from_right]. rewrite !map_length. cbv zeta.
  rewrite (Nat.add_comm (length cs2)) in Hlc, HlcN.
  set (lc := Nat.div2 (length cs + length cs2)) in *.
  replace (lc <? length cs)%nat with false by (symmetry; apply Nat.ltb_ge; lia).
  set (mv := (lc - length cs)%nat).
  assert (Hmv : (mv < length cs2)%nat).
  { assert (lc < length cs + length cs2)%nat; [|lia].
    destruct (Nat.lt_ge_cases lc (length cs + length cs2)) as [|Hge]; [assumption|exfalso].
    assert (N.of_nat lc = N.of_nat (length cs) + N.of_nat (length cs2)) by lia. mcfg_lia. }
  rewrite firstn_map, skipn_map, <- map_app.
  do 2 eexists. split; [reflexivity|].
  assert (EK : flat_map keys_of cs ++ flat_map keys_of cs2 =
               flat_map keys_of (cs ++ firstn mv cs2) ++ flat_map keys_of (skipn mv cs2)).
  { rewrite (flat_map_app _ cs), <- app_assoc, flat_keys_firstn_skipn. reflexivity. }
  rewrite EK in Hs. apply ssorted_app_inv2 in Hs.
  assert (Hl1 : length (firstn mv cs2) = mv) by (apply firstn_length_le; lia).
  repeat split.
  - apply mwfn_MM_intro; cbn [mh_size mh_first].
    + apply kids_ok_app. split; [|apply kids_ok_firstn]; assumption.
    + destruct cs; [congruence|discriminate].
    + tauto.
    + rewrite app_length, Hl1. f_equal. f_equal. lia.
    + rewrite map_app, hfirst_app; [assumption|]. destruct cs; [congruence|discriminate].
  - apply mwfn_MM_intro; cbn [mh_size mh_first].
    + apply kids_ok_skipn; assumption.
    + apply mskipn_nonempty. assumption.
    + tauto.
    + rewrite skipn_length. f_equal. f_equal. lia.
    + reflexivity.
  - cbn [hdr_of mh_size]. rewrite HlcN. replace (N.of_nat (length cs) + N.of_nat (length cs2)) with (N.of_nat (length cs2) + N.of_nat (length cs)) by lia. lia.
  - cbn [hdr_of mh_size]. rewrite HlcN. replace (N.of_nat (length cs) + N.of_nat (length cs2)) with (N.of_nat (length cs2) + N.of_nat (length cs)) by lia. lia.
  - cbn [hdr_of mh_size]. replace (N.of_nat (length cs + length cs2 - lc)) with (N.of_nat (length cs2) + N.of_nat (length cs) - (N.of_nat (length cs2) + N.of_nat (length cs)) / 2) by lia. lia.
  - cbn [hdr_of mh_size]. replace (N.of_nat (length cs + length cs2 - lc)) with (N.of_nat (length cs2) + N.of_nat (length cs) - (N.of_nat (length cs2) + N.of_nat (length cs)) / 2) by lia. lia.
  - cbn [keys_of]. symmetry. exact EK.
  - cbn [elems_flat]. rewrite (flat_map_app _ cs), <- app_assoc, flat_elems_firstn_skipn. reflexivity.
  - cbn [last_next]. rewrite <- (firstn_skipn mv cs2) at 2. rewrite last_map_app_ne; [reflexivity|].
    apply mskipn_nonempty. assumption.
Qed.

Lemma cannot_lend_index h h2 n1 n2 need :
  mh_size h = PM + n1 * HS -> mh_size h2 = PM + n2 * HS ->
  cmin c <= mh_size h -> mh_size h <= cmax c -> mh_size h2 + need = cmin c -> 0 < need ->
  m_can_lend c h need = false -> mh_size h + mh_size h2 <= cmax c + PM.
Proof.
  intros S1 S2 Hm HX HR Hneed Hcan. rewrite m_can_lend_size, S1 in Hcan.
  pose proof (map_index_merge_le_max T n1 n2 0 0 HT) as H. cbv zeta in H.
  specialize (H ltac:(lia) ltac:(lia) ltac:(lia)).
  replace (cmin c - (PM + n2 * HS)) with need in H by lia.
  specialize (H Hcan). lia.
Qed.

(** * Generic statements: a subtree of height d *)
Lemma split_ok d n newid :
  mwfn d n -> cmax c < mh_size (hdr_of n) -> mh_size (hdr_of n) <= cmax c + slack n ->
  exists l r, n_split n newid = TOk (l, r) /\
    mwfn d l /\ mwfn d r /\ in_band l /\ in_band r /\
    keys_of l ++ keys_of r = keys_of n /\ elems_flat l ++ elems_flat r = elems_flat n /\
    mh_id (hdr_of l) = mh_id (hdr_of n) /\ mh_id (hdr_of r) = newid /\
    mh_first (hdr_of l) = mh_first (hdr_of n) /\ last_next r = last_next n.
Proof.
  intros Hw Hlo Hhi. destruct d as [|d].
  - destruct (mwfn_0_inv _ Hw) as (h & nx & hks & els & -> & Hs & HF & He & Hf & Hsz).
    cbn [hdr_of slack is_data] in *. rewrite Hsz in Hlo, Hhi.
    apply (split_ok_data h nx hks els P newid); auto.
  - destruct (mwfn_S_inv _ _ Hw) as (h & cs & -> & Hk & Hne & Hsz & Hf & Hs).
    cbn [hdr_of slack is_data] in *.
    apply (split_ok_index d h cs newid); auto.
Qed.

Lemma merge_ok d l r : mwfn d l -> mwfn d r -> ssorted (keys_of l ++ keys_of r) ->
  exists m, n_merge l r = TOk m /\ mwfn d m /\
    keys_of m = keys_of l ++ keys_of r /\ elems_flat m = elems_flat l ++ elems_flat r /\
    mh_id (hdr_of m) = mh_id (hdr_of l) /\
    mh_size (hdr_of m) + pfx_of l = mh_size (hdr_of l) + mh_size (hdr_of r) /\
    last_next m = last_next r.
Proof.
  intros Hl Hr Hs. destruct d as [|d].
  - destruct (mwfn_0_inv _ Hl) as (h & nx & hks & els & -> & S1 & F1 & E1 & Hf1 & Hz1).
    destruct (mwfn_0_inv _ Hr) as (h2 & nx2 & hks2 & els2 & -> & S2 & F2 & E2 & Hf2 & Hz2).
    cbn [keys_of g_hkeys elems_flat g_elems hdr_of pfx_of is_data last_next] in *.
    destruct (merge_ok_data h nx hks els h2 nx2 hks2 els2 Hs F1 F2 E1 E2) as (m & A1 & A2 & A3 & A4 & A5 & A6 & A7).
    exists m. repeat split; auto. rewrite Hz1, Hz2. lia.
  - destruct (mwfn_S_inv _ _ Hl) as (h & cs & -> & K1 & N1 & Z1 & Hf1 & S1).
    destruct (mwfn_S_inv _ _ Hr) as (h2 & cs2 & -> & K2 & N2 & Z2 & Hf2 & S2).
    cbn [keys_of elems_flat hdr_of pfx_of is_data last_next] in *.
    destruct (merge_ok_index d h cs h2 cs2 K1 K2 N1 N2 Hs Z1 Z2 Hf1) as (m & A1 & A2 & A3 & A4 & A5 & A6 & A7).
    exists m. repeat split; auto.
Qed.

Lemma lend_ok d l r need :
  mwfn d l -> mwfn d r -> in_band l -> mh_size (hdr_of r) + need = cmin c -> 0 < need ->
  ssorted (keys_of l ++ keys_of r) -> n_can_lend_to_right c l need = true ->
  exists l' r', n_lend_to_right c l r = TOk (l', r') /\
    mwfn d l' /\ mwfn d r' /\ in_band l' /\ in_band r' /\
    keys_of l' ++ keys_of r' = keys_of l ++ keys_of r /\
    elems_flat l' ++ elems_flat r' = elems_flat l ++ elems_flat r /\
    mh_id (hdr_of l') = mh_id (hdr_of l) /\ mh_id (hdr_of r') = mh_id (hdr_of r) /\
    mh_first (hdr_of l') = mh_first (hdr_of l) /\ last_next r' = last_next r.
Proof.
  intros Hl Hr (Bm & BX) HR Hneed Hs Hcan. destruct d as [|d].
  - destruct (mwfn_0_inv _ Hl) as (h & nx & hks & els & -> & S1 & F1 & E1 & Hf1 & Hz1).
    destruct (mwfn_0_inv _ Hr) as (h2 & nx2 & hks2 & els2 & -> & S2 & F2 & E2 & Hf2 & Hz2).
    cbn [keys_of g_hkeys elems_flat g_elems hdr_of last_next n_can_lend_to_right] in *.
    apply (lend_ok_data h nx hks els h2 nx2 hks2 els2 need); auto; lia.
  - destruct (mwfn_S_inv _ _ Hl) as (h & cs & -> & K1 & N1 & Z1 & Hf1 & S1).
    destruct (mwfn_S_inv _ _ Hr) as (h2 & cs2 & -> & K2 & N2 & Z2 & Hf2 & S2).
    cbn [keys_of elems_flat hdr_of last_next n_can_lend_to_right] in *.
    destruct (lend_ok_index d h cs h2 cs2 need K1 K2 N1 Hs Z1 Z2 Hf1 Bm BX HR Hneed Hcan)
      as (l' & r' & A1 & A2 & A3 & A4 & A5 & A6 & A7 & A8 & A9 & A10 & A11).
    exists l', r'. repeat split; auto; try apply A4; try apply A5.
    rewrite A11. apply last_map_app_ne. assumption.
Qed.

Lemma borrow_ok d l r need :
  mwfn d l -> mwfn d r -> in_band r -> mh_size (hdr_of l) + need = cmin c -> 0 < need ->
  ssorted (keys_of l ++ keys_of r) -> n_can_lend_to_left c r need = true ->
  exists l' r', n_borrow_from_right c l r = TOk (l', r') /\
    mwfn d l' /\ mwfn d r' /\ in_band l' /\ in_band r' /\
    keys_of l' ++ keys_of r' = keys_of l ++ keys_of r /\
    elems_flat l' ++ elems_flat r' = elems_flat l ++ elems_flat r /\
    mh_id (hdr_of l') = mh_id (hdr_of l) /\ mh_id (hdr_of r') = mh_id (hdr_of r) /\
    last_next r' = last_next r.
Proof.
  intros Hl Hr (Bm & BX) HL Hneed Hs Hcan. destruct d as [|d].
  - destruct (mwfn_0_inv _ Hl) as (h & nx & hks & els & -> & S1 & F1 & E1 & Hf1 & Hz1).
    destruct (mwfn_0_inv _ Hr) as (h2 & nx2 & hks2 & els2 & -> & S2 & F2 & E2 & Hf2 & Hz2).
    cbn [keys_of g_hkeys elems_flat g_elems hdr_of last_next n_can_lend_to_left] in *.
    apply (borrow_ok_data h nx hks els h2 nx2 hks2 els2 need); auto; lia.
  - destruct (mwfn_S_inv _ _ Hl) as (h & cs & -> & K1 & N1 & Z1 & Hf1 & S1).
    destruct (mwfn_S_inv _ _ Hr) as (h2 & cs2 & -> & K2 & N2 & Z2 & Hf2 & S2).
    cbn [keys_of elems_flat hdr_of last_next n_can_lend_to_left] in *.
    destruct (borrow_ok_index d h cs h2 cs2 need K1 K2 N1 Hs Z1 Z2 Hf1 Bm BX HL Hneed Hcan)
      as (l' & r' & A1 & A2 & A3 & A4 & A5 & A6 & A7 & A8 & A9 & A10 & A11).
    exists l', r'. repeat split; auto; try apply A4; try apply A5.
Qed.

(* the left sibling [l] cannot lend to the underflowing [r]: the merged slab fits *)
Lemma cannot_lend_right_merge_le_max d l r need :
  mwfn d l -> mwfn d r -> in_band l -> mh_size (hdr_of r) + need = cmin c -> 0 < need ->
  n_can_lend_to_right c l need = false ->
  mh_size (hdr_of l) + mh_size (hdr_of r) <= cmax c + pfx_of l.
Proof.
  intros Hl Hr (Bm & BX) HR Hneed Hcan. destruct d as [|d].
  - destruct (mwfn_0_inv _ Hl) as (h & nx & hks & els & -> & S1 & F1 & E1 & Hf1 & Hz1).
    destruct (mwfn_0_inv _ Hr) as (h2 & nx2 & hks2 & els2 & -> & S2 & F2 & E2 & Hf2 & Hz2).
    cbn [hdr_of pfx_of is_data n_can_lend_to_right] in *.
    pose proof (cannot_lend_right_data els els2 need E1 ltac:(lia) ltac:(lia) ltac:(lia) Hneed Hcan). lia.
  - destruct (mwfn_S_inv _ _ Hl) as (h & cs & -> & K1 & N1 & Z1 & Hf1 & S1).
    destruct (mwfn_S_inv _ _ Hr) as (h2 & cs2 & -> & K2 & N2 & Z2 & Hf2 & S2).
    cbn [hdr_of pfx_of is_data n_can_lend_to_right] in *.
    eapply cannot_lend_index; eauto.
Qed.

(* the right sibling [r] cannot lend to the underflowing [l] *)
Lemma cannot_lend_left_merge_le_max d l r need :
  mwfn d l -> mwfn d r -> in_band r -> mh_size (hdr_of l) + need = cmin c -> 0 < need ->
  n_can_lend_to_left c r need = false ->
  mh_size (hdr_of l) + mh_size (hdr_of r) <= cmax c + pfx_of l.
Proof.
  intros Hl Hr (Bm & BX) HL Hneed Hcan. destruct d as [|d].
  - destruct (mwfn_0_inv _ Hl) as (h & nx & hks & els & -> & S1 & F1 & E1 & Hf1 & Hz1).
    destruct (mwfn_0_inv _ Hr) as (h2 & nx2 & hks2 & els2 & -> & S2 & F2 & E2 & Hf2 & Hz2).
    cbn [hdr_of pfx_of is_data n_can_lend_to_left] in *.
    pose proof (cannot_lend_left_data els els2 need E2 ltac:(lia) ltac:(lia) ltac:(lia) Hneed Hcan). lia.
  - destruct (mwfn_S_inv _ _ Hl) as (h & cs & -> & K1 & N1 & Z1 & Hf1 & S1).
    destruct (mwfn_S_inv _ _ Hr) as (h2 & cs2 & -> & K2 & N2 & Z2 & Hf2 & S2).
    cbn [hdr_of pfx_of is_data n_can_lend_to_left] in *.
    pose proof (cannot_lend_index h2 h (N.of_nat (length cs2)) (N.of_nat (length cs)) need Z2 Z1 Bm BX HL Hneed Hcan). lia.
Qed.

Lemma mwfn_size_ge_pfx d n : mwfn d n -> pfx_of n <= mh_size (hdr_of n).
Proof.
  intros Hw. destruct d as [|d].
  - destruct (mwfn_0_inv _ Hw) as (h & nx & hks & els & -> & _ & _ & _ & _ & Hz).
    cbn [hdr_of pfx_of is_data]. rewrite Hz, hkr_costs. lia.
  - destruct (mwfn_S_inv _ _ Hw) as (h & cs & -> & _ & _ & Hz & _).
    cbn [hdr_of pfx_of is_data]. lia.
Qed.

Lemma pfx_of_eq d l r : mwfn d l -> mwfn d r -> pfx_of r = pfx_of l.
Proof. intros H1 H2. unfold pfx_of. rewrite (mwfn_is_data _ _ H1), (mwfn_is_data _ _ H2). reflexivity. Qed.
Lemma slack_eq d n n' : mwfn d n -> mwfn d n' -> slack n' = slack n.
Proof. intros H1 H2. unfold slack. rewrite (mwfn_is_data _ _ H1), (mwfn_is_data _ _ H2). reflexivity. Qed.

(* an index slab inside the band has at least two children *)
Lemma in_band_index_two d h hs cs : mwfn (S d) (MM h hs cs) -> in_band (MM h hs cs) -> (2 <= length cs)%nat.
Proof.
  intros Hw (Bm & _). destruct (mwfn_S_inv _ _ Hw) as (h' & cs' & E & _ & _ & Hz & _).
  injection E as <- _ <-. cbn [hdr_of] in Bm. rewrite Hz in Bm.
  destruct cs as [|a [|b r]]; cbn [length] in *; [exfalso; mcfg_lia|exfalso; mcfg_lia|lia].
Qed.

End WithT.

(* the key-range facts of a split, stated explicitly: every digest of the left part is smaller than
   every digest of the right part; both firstKeys are the first digests; neither part is empty *)
Lemma split_ranges dg levels T (HT : valid_T T) (Hlv : (0 < levels)%nat) d n newid l r :
  let c := set_threshold T in
  mwfn dg levels c d n -> cmax c < mh_size (hdr_of n) -> mh_size (hdr_of n) <= cmax c + slack T n ->
  n_split n newid = TOk (l, r) ->
  (forall x y, In x (keys_of l) -> In y (keys_of r) -> x < y) /\
  keys_of l <> [] /\ keys_of r <> [] /\
  mh_first (hdr_of l) = hd 0 (keys_of l) /\ mh_first (hdr_of r) = hd 0 (keys_of r).
Proof.
  intros c Hw Hlo Hhi E.
  destruct (split_ok dg levels T HT Hlv d n newid Hw Hlo Hhi)
    as (l' & r' & E' & Wl & Wr & Bl & Br & Ek & _).
  rewrite E in E'. injection E' as <- <-.
  destruct (nfacts dg levels T HT Hlv d n Hw) as (_ & Hs & _).
  destruct (nfacts dg levels T HT Hlv d l Wl) as (_ & _ & Fl & Nl).
  destruct (nfacts dg levels T HT Hlv d r Wr) as (_ & _ & Fr & Nr).
  rewrite <- Ek in Hs. split; [apply ssorted_app_lt; exact Hs|]. auto.
Qed.
