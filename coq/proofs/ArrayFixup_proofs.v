(* ArrayFixup_proofs.v — what an index slab does after one of its children has changed
   (ArrayMetaDataSlab.SplitChildSlab, MergeOrRebalanceChildSlab): the parent's header copies,
   running sums and children stay consistent, every child is back inside the size band, the
   sequence of elements is unchanged, and the "panic" cell of the decision table (no sibling)
   is unreachable for a slab with at least two children. *)
From Coq Require Import ZArith NArith List Bool Lia ZifyBool ZifyN ZifyNat.
From AtreeGen Require Import Consts.
From AtreeModel Require Import Settings ArrayTree ArrayInv.
From AtreeProofs Require Import Settings_proofs ArrayList_lemmas Rebalance_proofs ArrayRoute_proofs.
Import ListNotations.
Local Open Scope N_scope.
Ltac Zify.zify_post_hook ::= Z.div_mod_to_equations.

Section WithT.
Variable T : N.
Hypothesis HT : valid_T T.
Local Notation c := (set_threshold T).

Definition kids_ok (d : nat) (l : list anode) : Prop := Forall (wfn c d) l /\ Forall (in_band c) l.

Lemma kids_ok_app d a b : kids_ok d (a ++ b) <-> kids_ok d a /\ kids_ok d b.
Proof. unfold kids_ok. rewrite !Forall_app. tauto. Qed.
Lemma kids_ok_cons d a b : kids_ok d (a :: b) <-> (wfn c d a /\ in_band c a) /\ kids_ok d b.
Proof. unfold kids_ok. rewrite !Forall_cons_iff. tauto. Qed.
Lemma kids_ok_nil d : kids_ok d [].
Proof. split; constructor. Qed.

(* the result n' of a fix-up of parent header h over the (logical) children cs *)
Definition fix_good (d : nat) (h : hdr) (cs : list anode) (n' : anode) : Prop :=
  wfn c (S d) n' /\ to_list n' = flat_map to_list cs /\ h_id (hdr_of n') = h_id h /\
  h_count (hdr_of n') = h_count h /\ last_next n' = last (map last_next cs) 0.

Lemma wfn_AM_intro d h cs :
  kids_ok d cs -> h_count h = sum_cnt (map hdr_of cs) -> h_size h = PM + N.of_nat (length cs) * HS ->
  wfn c (S d) (AM h (map hdr_of cs) (psums 0 (map hdr_of cs)) cs).
Proof. intros (Hw & Hb) Hc Hs. constructor; auto. Qed.

(** * SplitChildSlab *)
Lemma split_child_ok d h pre ch post alloc :
  kids_ok d pre -> kids_ok d post -> wfn c d ch ->
  cmax c < h_size (hdr_of ch) -> h_size (hdr_of ch) <= cmax c + split_slack T ch ->
  let cs := pre ++ ch :: post in
  h_count h = sum_cnt (map hdr_of cs) -> h_size h = PM + N.of_nat (length cs) * HS ->
  exists n' lg,
    split_child h (map hdr_of cs) (psums 0 (map hdr_of cs)) cs (length pre) ch alloc = Ok (n', alloc + 1, lg) /\
    fix_good d h cs n' /\ h_size (hdr_of n') = h_size h + HS.
Proof.
  intros Hpre Hpost Hw Hlo Hhi cs Hc Hs.
  destruct (split_ok T HT d ch (alloc + 1) Hw Hlo Hhi)
    as (l & r & Hsp & Hwl & Hwr & Hbl & Hbr & Hto & Hidl & Hidr & Hcnt & Hln).
  unfold split_child. rewrite Hsp. cbv beta iota.
  subst cs. rewrite map_app in *. cbn [map] in *.
  assert (Hk : length pre = length (map hdr_of pre)) by (symmetry; apply map_length).
  pose proof (psums_split_mid 0 (map hdr_of pre) (hdr_of ch) (hdr_of l) (hdr_of r) (map hdr_of post)
                (length pre) Hk Hcnt) as Hsums. cbv zeta in Hsums.
  rewrite (replace_nth_at (length pre)) by exact Hk.
  rewrite (insert_nth_at_S (length pre)) by exact Hk.
  rewrite (replace_nth_at (length pre)) by reflexivity.
  rewrite (insert_nth_at_S (length pre)) by reflexivity.
  rewrite Hsums.
  do 2 eexists. split; [reflexivity|].
  assert (Hcs' : kids_ok d (pre ++ l :: r :: post)).
  { apply kids_ok_app. split; [exact Hpre|]. apply kids_ok_cons. split; [tauto|].
    apply kids_ok_cons. split; [tauto|exact Hpost]. }
  replace (map hdr_of pre ++ hdr_of l :: hdr_of r :: map hdr_of post)
    with (map hdr_of (pre ++ l :: r :: post)) by (rewrite map_app; reflexivity).
  split; [|reflexivity].
  unfold fix_good. cbn [hdr_of h_id h_count h_size to_list last_next].
  repeat split.
  - apply wfn_AM_intro; [exact Hcs'| |]; cbn [h_count h_size].
    + rewrite Hc, !map_app, !sum_cnt_app. cbn [map sum_cnt]. lia.
    + rewrite Hs, !app_length. cbn [length]. unfold_sizes; lia.
  - rewrite !to_list_mid. cbn [flat_map]. rewrite <- Hto, <- !app_assoc. reflexivity.
  - rewrite !map_app. cbn [map]. rewrite last_two, last_app_cons, Hln. reflexivity.
Qed.

(** * the two generic shapes: rebalance two neighbours, merge two neighbours *)
Lemma rebalance_children_generic d h pre l r post l' r' (borrow : bool) :
  kids_ok d pre -> kids_ok d post ->
  (if borrow then n_borrow_from_right c l r else n_lend_to_right c l r) = Ok (l', r') ->
  wfn c d l' -> wfn c d r' -> in_band c l' -> in_band c r' ->
  to_list l' ++ to_list r' = to_list l ++ to_list r ->
  h_count (hdr_of l') + h_count (hdr_of r') = h_count (hdr_of l) + h_count (hdr_of r) ->
  last_next r' = last_next r ->
  let cs := pre ++ l :: r :: post in
  h_count h = sum_cnt (map hdr_of cs) -> h_size h = PM + N.of_nat (length cs) * HS ->
  exists n' lg,
    rebalance_children c h (map hdr_of cs) (psums 0 (map hdr_of cs)) cs (length pre) l r borrow = Ok (n', lg) /\
    fix_good d h cs n' /\ h_size (hdr_of n') = h_size h.
Proof.
  intros Hpre Hpost Hop Hwl Hwr Hbl Hbr Hto Hcnt Hln cs Hc Hs.
  unfold rebalance_children. rewrite Hop. cbv beta iota.
  subst cs. rewrite map_app in *. cbn [map] in *.
  assert (Hk : length pre = length (map hdr_of pre)) by (symmetry; apply map_length).
  pose proof (psums_rebalance_mid 0 (map hdr_of pre) (hdr_of l) (hdr_of r) (hdr_of l') (hdr_of r')
                (map hdr_of post) (length pre) Hk Hcnt) as Hsums. cbv zeta in Hsums.
  rewrite (replace_nth_at (length pre)) by exact Hk.
  rewrite (replace_nth_at (length pre)) by reflexivity.
  change (hdr_of l' :: hdr_of r :: map hdr_of post) with ([hdr_of l'] ++ hdr_of r :: map hdr_of post).
  change (l' :: r :: post) with ([l'] ++ r :: post).
  rewrite !app_assoc.
  rewrite (replace_nth_at (S (length pre))) by (rewrite app_length, map_length; cbn; lia).
  rewrite (replace_nth_at (S (length pre))) by (rewrite app_length; cbn; lia).
  rewrite <- !app_assoc. cbn [app].
  rewrite Hsums.
  do 2 eexists. split; [reflexivity|].
  assert (Hcs' : kids_ok d (pre ++ l' :: r' :: post)).
  { apply kids_ok_app. split; [exact Hpre|]. apply kids_ok_cons. split; [tauto|].
    apply kids_ok_cons. split; [tauto|exact Hpost]. }
  replace (map hdr_of pre ++ hdr_of l' :: hdr_of r' :: map hdr_of post)
    with (map hdr_of (pre ++ l' :: r' :: post)) by (rewrite map_app; reflexivity).
  split; [|reflexivity].
  unfold fix_good. cbn [hdr_of to_list last_next].
  repeat split.
  - apply wfn_AM_intro; [exact Hcs'| |].
    + rewrite Hc, !map_app, !sum_cnt_app. cbn [map sum_cnt]. lia.
    + rewrite Hs, !app_length. cbn [length]. reflexivity.
  - rewrite !flat_map_app. cbn [flat_map]. rewrite !app_assoc. f_equal.
    rewrite <- !app_assoc. f_equal. exact Hto.
  - rewrite !map_app. cbn [map]. rewrite !last_two, Hln. reflexivity.
Qed.

Lemma merge_children_generic d h pre l r post m :
  kids_ok d pre -> kids_ok d post ->
  n_merge l r = Ok m -> wfn c d m -> in_band c m ->
  to_list m = to_list l ++ to_list r ->
  h_count (hdr_of m) = h_count (hdr_of l) + h_count (hdr_of r) ->
  last_next m = last_next r ->
  let cs := pre ++ l :: r :: post in
  h_count h = sum_cnt (map hdr_of cs) -> h_size h = PM + N.of_nat (length cs) * HS ->
  exists n' lg,
    merge_children h (map hdr_of cs) (psums 0 (map hdr_of cs)) cs (length pre) l r = Ok (n', lg) /\
    fix_good d h cs n' /\ h_size (hdr_of n') + HS = h_size h.
Proof.
  intros Hpre Hpost Hop Hwm Hbm Hto Hcnt Hln cs Hc Hs.
  unfold merge_children. rewrite Hop. cbv beta iota.
  subst cs. rewrite map_app in *. cbn [map] in *.
  assert (Hk : length pre = length (map hdr_of pre)) by (symmetry; apply map_length).
  pose proof (psums_merge_mid 0 (map hdr_of pre) (hdr_of l) (hdr_of r) (hdr_of m)
                (map hdr_of post) (length pre) Hk Hcnt) as Hsums. cbv zeta in Hsums.
  rewrite Hsums.
  rewrite (replace_nth_at (length pre)) by exact Hk.
  rewrite (replace_nth_at (length pre)) by reflexivity.
  rewrite (remove_nth_at_S (length pre)) by exact Hk.
  rewrite (remove_nth_at_S (length pre)) by reflexivity.
  do 2 eexists. split; [reflexivity|].
  assert (Hcs' : kids_ok d (pre ++ m :: post)).
  { apply kids_ok_app. split; [exact Hpre|]. apply kids_ok_cons. split; [tauto|exact Hpost]. }
  replace (map hdr_of pre ++ hdr_of m :: map hdr_of post)
    with (map hdr_of (pre ++ m :: post)) by (rewrite map_app; reflexivity).
  split.
  - unfold fix_good. cbn [hdr_of h_id h_count h_size to_list last_next].
    repeat split.
    + apply wfn_AM_intro; [exact Hcs'| |]; cbn [h_count h_size].
      * rewrite Hc, !map_app, !sum_cnt_app. cbn [map sum_cnt]. lia.
      * rewrite Hs, !app_length. cbn [length]. unfold_sizes; lia.
    + rewrite !flat_map_app. cbn [flat_map]. rewrite Hto, <- !app_assoc. reflexivity.
    + rewrite !map_app. cbn [map]. rewrite last_two, last_app_cons, Hln. reflexivity.
  - cbn [hdr_of h_size]. rewrite Hs, !app_length. cbn [length]. unfold_sizes; lia.
Qed.

(** * the four actions of MergeOrRebalanceChildSlab on an underflowing child [ch] *)
Section actions.
Variables (d : nat) (h : hdr) (ch : anode) (need : N).
Hypothesis Hwch : wfn c d ch.
Hypothesis Hneed : h_size (hdr_of ch) + need = cmin c.
Hypothesis Hpos : 0 < need.
Hypothesis Hne : PM < h_size (hdr_of ch).

Lemma borrow_right_ok pre rs post :
  kids_ok d pre -> kids_ok d (rs :: post) ->
  n_can_lend_to_left c rs need = true ->
  let cs := pre ++ ch :: rs :: post in
  h_count h = sum_cnt (map hdr_of cs) -> h_size h = PM + N.of_nat (length cs) * HS ->
  exists n' lg,
    rebalance_children c h (map hdr_of cs) (psums 0 (map hdr_of cs)) cs (length pre) ch rs true = Ok (n', lg) /\
    fix_good d h cs n' /\ h_size (hdr_of n') = h_size h.
Proof.
  intros Hpre Hpost Hcan. apply kids_ok_cons in Hpost. destruct Hpost as ((Hwrs & Hbrs) & Hpost).
  destruct (borrow_ok T HT d ch rs need Hwch Hwrs Hbrs Hneed Hpos Hcan)
    as (l' & r' & H1 & H2 & H3 & H4 & H5 & H6 & H7 & H8 & H9 & H10).
  apply (rebalance_children_generic d h pre ch rs post l' r' true); auto.
Qed.

Lemma lend_left_ok pre ls post :
  kids_ok d (pre ++ [ls]) -> kids_ok d post ->
  n_can_lend_to_right c ls need = true ->
  let cs := pre ++ ls :: ch :: post in
  h_count h = sum_cnt (map hdr_of cs) -> h_size h = PM + N.of_nat (length cs) * HS ->
  exists n' lg,
    rebalance_children c h (map hdr_of cs) (psums 0 (map hdr_of cs)) cs (length pre) ls ch false = Ok (n', lg) /\
    fix_good d h cs n' /\ h_size (hdr_of n') = h_size h.
Proof.
  intros Hpre Hpost Hcan. apply kids_ok_app in Hpre. destruct Hpre as (Hpre & Hls).
  apply kids_ok_cons in Hls. destruct Hls as ((Hwls & Hbls) & _).
  destruct (lend_ok T HT d ls ch need Hwls Hwch Hbls Hneed Hpos Hcan)
    as (l' & r' & H1 & H2 & H3 & H4 & H5 & H6 & H7 & H8 & H9 & H10).
  apply (rebalance_children_generic d h pre ls ch post l' r' false); auto.
Qed.

Lemma merge_right_ok pre rs post :
  kids_ok d pre -> kids_ok d (rs :: post) ->
  n_can_lend_to_left c rs need = false ->
  let cs := pre ++ ch :: rs :: post in
  h_count h = sum_cnt (map hdr_of cs) -> h_size h = PM + N.of_nat (length cs) * HS ->
  exists n' lg,
    merge_children h (map hdr_of cs) (psums 0 (map hdr_of cs)) cs (length pre) ch rs = Ok (n', lg) /\
    fix_good d h cs n' /\ h_size (hdr_of n') + HS = h_size h.
Proof.
  intros Hpre Hpost Hcan. apply kids_ok_cons in Hpost. destruct Hpost as ((Hwrs & Hbrs) & Hpost).
  destruct (merge_ok T d ch rs Hwch Hwrs) as (m & H1 & H2 & H3 & H4 & H5 & H6 & H7).
  pose proof (cannot_lend_left_merge_le_max T HT d ch rs need Hwch Hwrs Hbrs Hneed Hpos Hcan) as Hmax.
  pose proof (merged_ge_min T d ch rs Hwch Hwrs (or_intror Hbrs)) as Hmin.
  apply (merge_children_generic d h pre ch rs post m); auto.
  - unfold in_band. lia.
  - apply H7. unfold in_band in Hbrs. cfg_lia.
Qed.

Lemma merge_left_ok pre ls post :
  kids_ok d (pre ++ [ls]) -> kids_ok d post ->
  n_can_lend_to_right c ls need = false ->
  let cs := pre ++ ls :: ch :: post in
  h_count h = sum_cnt (map hdr_of cs) -> h_size h = PM + N.of_nat (length cs) * HS ->
  exists n' lg,
    merge_children h (map hdr_of cs) (psums 0 (map hdr_of cs)) cs (length pre) ls ch = Ok (n', lg) /\
    fix_good d h cs n' /\ h_size (hdr_of n') + HS = h_size h.
Proof.
  intros Hpre Hpost Hcan. apply kids_ok_app in Hpre. destruct Hpre as (Hpre & Hls).
  apply kids_ok_cons in Hls. destruct Hls as ((Hwls & Hbls) & _).
  destruct (merge_ok T d ls ch Hwls Hwch) as (m & H1 & H2 & H3 & H4 & H5 & H6 & H7).
  pose proof (cannot_lend_right_merge_le_max T HT d ls ch need Hwls Hwch Hbls Hneed Hpos Hcan) as Hmax.
  pose proof (merged_ge_min T d ls ch Hwls Hwch (or_introl Hbls)) as Hmin.
  apply (merge_children_generic d h pre ls ch post m); auto.
  unfold in_band. lia.
Qed.

(** * MergeOrRebalanceChildSlab: the decision table *)
Lemma merge_or_rebalance_ok pre post :
  kids_ok d pre -> kids_ok d post -> (pre <> [] \/ post <> []) ->
  let cs := pre ++ ch :: post in
  h_count h = sum_cnt (map hdr_of cs) -> h_size h = PM + N.of_nat (length cs) * HS ->
  exists n' lg,
    merge_or_rebalance c h (map hdr_of cs) (psums 0 (map hdr_of cs)) cs (length pre) ch need = Ok (n', lg) /\
    fix_good d h cs n' /\ (h_size (hdr_of n') = h_size h \/ h_size (hdr_of n') + HS = h_size h).
Proof.
  intros Hpre Hpost Hsib cs. subst cs. unfold merge_or_rebalance.
  assert (Hwrap : forall cs (x : res (anode * wlog)),
     (exists n' lg, x = Ok (n', lg) /\ fix_good d h cs n' /\ h_size (hdr_of n') = h_size h) \/
     (exists n' lg, x = Ok (n', lg) /\ fix_good d h cs n' /\ h_size (hdr_of n') + HS = h_size h) ->
     exists n' lg, x = Ok (n', lg) /\ fix_good d h cs n' /\
       (h_size (hdr_of n') = h_size h \/ h_size (hdr_of n') + HS = h_size h)).
  { intros cs x [(n' & lg & A & B & C)|(n' & lg & A & B & C)]; exists n', lg; auto. }
  destruct pre as [|p0 pre0].
  - (* no left sibling *)
    intros Hc Hs. apply Hwrap. clear Hwrap.
    destruct post as [|rs post]; [destruct Hsib; congruence|].
    cbn [length]. rewrite (nth_error_at_S 0 [] ch (rs :: post)) by reflexivity.
    cbn [nth_error orb].
    destruct (n_can_lend_to_left c rs need) eqn:Hr.
    + left. apply (borrow_right_ok [] rs post); auto.
    + right. apply (merge_right_ok [] rs post); auto.
  - (* a left sibling: the last element of pre *)
    assert (Hnn : p0 :: pre0 <> []) by discriminate.
    destruct (exists_last Hnn) as (pre & ls & Epre). rewrite Epre in *. clear Epre Hnn p0 pre0.
    rewrite (app_length pre [ls]). cbn [length]. rewrite Nat.add_1_r. cbv beta iota. cbn [pred].
    rewrite <- !app_assoc. cbn [app].
    intros Hc Hs. apply Hwrap. clear Hwrap.
    rewrite (nth_error_at (length pre) pre ls (ch :: post)) by reflexivity.
    change (ls :: ch :: post) with ([ls] ++ ch :: post). rewrite app_assoc.
    rewrite (nth_error_at_S (S (length pre)) (pre ++ [ls]) ch post) by (rewrite app_length; cbn; lia).
    rewrite <- !app_assoc. cbn [app].
    destruct post as [|rs post]; cbn [nth_error].
    + (* no right sibling *)
      rewrite orb_false_r.
      destruct (n_can_lend_to_right c ls need) eqn:Hl.
      * left. apply (lend_left_ok pre ls []); auto.
      * right. apply (merge_left_ok pre ls []); auto.
    + destruct (n_can_lend_to_right c ls need) eqn:Hl; destruct (n_can_lend_to_left c rs need) eqn:Hr;
        cbn [orb negb].
      * destruct (h_size (hdr_of rs) <? h_size (hdr_of ls)).
        -- left. apply (lend_left_ok pre ls (rs :: post)); auto.
        -- left. change (pre ++ ls :: ch :: rs :: post) with (pre ++ [ls] ++ ch :: rs :: post).
           rewrite app_assoc.
           replace (S (length pre)) with (length (pre ++ [ls])) by (rewrite app_length; cbn; lia).
           apply (borrow_right_ok (pre ++ [ls]) rs post); auto;
             rewrite <- app_assoc; assumption.
      * left. apply (lend_left_ok pre ls (rs :: post)); auto.
      * left. change (pre ++ ls :: ch :: rs :: post) with (pre ++ [ls] ++ ch :: rs :: post).
        rewrite app_assoc.
        replace (S (length pre)) with (length (pre ++ [ls])) by (rewrite app_length; cbn; lia).
        apply (borrow_right_ok (pre ++ [ls]) rs post); auto;
          rewrite <- app_assoc; assumption.
      * destruct (h_size (hdr_of ls) <? h_size (hdr_of rs)).
        -- right. apply (merge_left_ok pre ls (rs :: post)); auto.
        -- right. change (pre ++ ls :: ch :: rs :: post) with (pre ++ [ls] ++ ch :: rs :: post).
           rewrite app_assoc.
           replace (S (length pre)) with (length (pre ++ [ls])) by (rewrite app_length; cbn; lia).
           apply (merge_right_ok (pre ++ [ls]) rs post); auto;
             rewrite <- app_assoc; assumption.
Qed.

End actions.
End WithT.
