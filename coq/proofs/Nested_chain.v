(* Nested_chain.v — properties of the re-synchronisation chain: sizes restored, structure kept,
   frame (only ancestors change), the enclosing stored container is dirty. *)
From Coq Require Import ZArith NArith List Bool Lia Arith.
From AtreeGen Require Import Consts.
From AtreeModel Require Import Nested.
From AtreeProofs Require Import Nested_base Nested_resync.
Import ListNotations.
Local Open Scope N_scope.

Definition ovr (f : forest) (t z : N) : N -> N := fun v => if v =? t then z else child_size f v.

(* everything is synchronised except what depends on the size of t as an element, which the
   caches still see as z *)
Definition Zx (g : ncfg) (f : forest) (t z : N) : Prop :=
  (forall x c, fget f x = Some c -> c_csize c = base (c_kind c) + sum_w g (ovr f t z) (c_kind c) (c_slots c)) /\
  (forall v, v <> t -> inl_ok g f v) /\
  (forall ct, fget f t = Some ct -> c_inl ct = false -> z = c_slabIDStorableSize).

Definition sizes_all (g : ncfg) (f : forest) : Prop := csize_ok g f /\ forall v, inl_ok g f v.

Lemma In_edge f x c s v w : fget f x = Some c -> In s (c_slots c) -> s_val s = NChild v w -> exists i, edge f x i s v w.
Proof. intros Hc Hin Hv. destruct (In_nth_error _ _ Hin) as (i & Hn). exists i, c. auto. Qed.

Lemma Zx_no_holder g f t z : Zx g f t z -> ~ attached f t -> sizes_all g f.
Proof.
  intros (Hc & Hi & _) Hna. split.
  - intros x c Hx. rewrite (Hc x c Hx). unfold data_size. rewrite sum_slots_w. f_equal.
    apply sum_w_ext. intros s v w Hin Hv. unfold ovr. destruct (N.eqb_spec v t) as [->|]; auto.
    exfalso. apply Hna. destruct (In_edge _ _ _ _ _ _ Hx Hin Hv) as (i & E). now exists x, i, s, w.
  - intros v. destruct (N.eq_dec v t) as [->|Hne]; auto.
    intros p c i s w cv Hp Hn Hv _. exfalso. apply Hna. exists p, i, s, w, c. auto.
Qed.

Lemma Zx_same_size g f t z : Zx g f t z -> child_size f t = z -> csize_ok g f.
Proof.
  intros (Hc & _) Hz x c Hx. rewrite (Hc x c Hx). unfold data_size. rewrite sum_slots_w. f_equal.
  apply sum_w_ext. intros s v w _ _. unfold ovr. destruct (N.eqb_spec v t) as [->|]; auto.
Qed.

Lemma inl_ok_transfer g f f' v : same_struct f f' -> fget f' v = fget f v -> inl_ok g f v -> inl_ok g f' v.
Proof.
  intros Hs Hv H p c' i s w cv Hp Hn Hval Hcv.
  pose proof (Hs p) as Hsp. rewrite Hp in Hsp. destruct (fget f p) as [c|] eqn:Ec; [|contradiction].
  destruct Hsp as (Hk & Hsl & _). rewrite <- Hk. eapply (H p c i s w cv); eauto; congruence.
Qed.

Lemma clear_upd_same_sizes g f t : sizes_all g f -> sizes_all g (clear_upd f t).
Proof.
  intros (Hc & Hi).
  assert (Hcs : forall v, child_size (clear_upd f t) v = child_size f v).
  { intros v. unfold child_size. rewrite clear_upd_get. destruct (N.eqb_spec v t) as [->|]; auto.
    destruct (fget f t); auto. }
  assert (Hds : forall k l, data_size g (clear_upd f t) k l = data_size g f k l).
  { intros. unfold data_size. rewrite !sum_slots_w. f_equal. apply sum_w_ext. intros. apply Hcs. }
  split.
  - intros x c Hx. rewrite Hds. rewrite clear_upd_get in Hx. destruct (N.eqb_spec x t) as [->|].
    + destruct (fget f t) as [ct|] eqn:Et; [|discriminate]. injection Hx as <-. cbn. exact (Hc t ct Et).
    + exact (Hc x c Hx).
  - intros v p c i s w cv Hp Hn Hv Hcv.
    assert (exists c0, fget f p = Some c0 /\ c_kind c0 = c_kind c /\ c_slots c0 = c_slots c) as (c0 & Hp0 & Hk & Hsl).
    { rewrite clear_upd_get in Hp. destruct (N.eqb_spec p t) as [->|]; [|eauto].
      destruct (fget f t) as [ct|]; [|discriminate]. injection Hp as <-. eauto. }
    assert (exists cv0, fget f v = Some cv0 /\ c_inl cv0 = c_inl cv /\ inl_size cv0 = inl_size cv) as (cv0 & Hv0 & Hi0 & Hz0).
    { rewrite clear_upd_get in Hcv. destruct (N.eqb_spec v t) as [->|]; [|eauto].
      destruct (fget f t) as [ct|]; [|discriminate]. injection Hcv as <-. eauto. }
    rewrite <- Hk, <- Hi0, <- Hz0. eapply (Hi v p c0 i s w cv0); eauto. congruence.
Qed.

Lemma child_size_get f f' v : fget f' v = fget f v -> child_size f' v = child_size f v.
Proof. apply child_size_ext. Qed.

(* ---------- the chain restores the sizes ---------- *)
Lemma resync_sizes n g (lvl : N -> nat) :
  forall m f t z,
    fstruct n g f ->
    (forall p i s v w, edge f p i s v w -> (lvl p < lvl v)%nat) ->
    (lvl t < m)%nat ->
    Zx g f t z ->
    exists f', resync m g f t = (f', true) /\ sizes_all g f'.
Proof.
  induction m as [|m IH]; intros f t z HS Hl Hm HZ; [lia|].
  cbn [resync].
  destruct (fget f t) as [ct|] eqn:Ect.
  2:{ eexists. split; [reflexivity|]. eapply Zx_no_holder; eauto.
      intros (p & i & s & w & E). destruct (hooked_edge _ _ _ HS _ _ _ _ _ E) as (? & ? & _ & _ & Hcv & _). congruence. }
  destruct (c_upd ct) as [u|] eqn:Eu.
  2:{ eexists. split; [reflexivity|]. eapply Zx_no_holder; eauto.
      intros (p & i & s & w & E). destruct (hooked_edge _ _ _ HS _ _ _ _ _ E) as (? & ? & _ & _ & Hcv & Hu & _). congruence. }
  destruct (negb (c_inl ct) && negb (inl_size ct <=? u_lim u)) eqn:Eearly.
  { apply andb_true_iff in Eearly. destruct Eearly as [Hinl Hfit].
    apply negb_true_iff in Hinl. apply negb_true_iff in Hfit.
    eexists. split; [reflexivity|]. split.
    - eapply Zx_same_size; eauto. destruct HZ as (_ & _ & Hz). rewrite (Hz ct Ect Hinl).
      unfold child_size. now rewrite Ect, Hinl.
    - intros v. destruct (N.eq_dec v t) as [->|Hne]; [|now apply HZ].
      intros p c i s w cv Hp Hn Hv Hcv. rewrite Ect in Hcv. injection Hcv as <-.
      assert (E : edge f p i s t w) by (exists c; auto).
      destruct (hooked_lookup _ _ _ HS _ _ _ _ _ _ _ E Hp Ect) as (u' & Hu' & Heq & _).
      rewrite Eu in Hu'. injection Hu' as <-.
      assert (Hlim : u_lim u = slot_lim g (c_kind c) (s_ksz s) w) by (rewrite Heq; reflexivity).
      rewrite <- Hlim, Hinl. split; [discriminate|]. intros Hle. apply N.leb_le in Hle. congruence. }
  assert (Hpar : forall p i s w, edge f p i s t w ->
            exists c, fget f p = Some c /\ u = upd_for g p (c_kind c) s w /\ find_child c t u = Some i).
  { intros p i s w E.
    destruct (hooked_edge _ _ _ HS _ _ _ _ _ E) as (c & cv & Hp & Hn & Hcv & Hu & _).
    destruct (hooked_lookup _ _ _ HS _ _ _ _ _ _ _ E Hp Ect) as (u' & Hu' & Heq & Hfc).
    rewrite Eu in Hu'. injection Hu' as <-. exists c. auto. }
  destruct (fget f (u_par u)) as [pc|] eqn:Epc.
  2:{ eexists. split; [reflexivity|]. apply clear_upd_same_sizes. eapply Zx_no_holder; eauto.
      intros (p & i & s & w & E). destruct (Hpar _ _ _ _ E) as (c & Hp & Heq & _).
      rewrite Heq in Epc. cbn in Epc. congruence. }
  destruct (find_child pc t u) as [i|] eqn:Efc.
  2:{ eexists. split; [reflexivity|]. apply clear_upd_same_sizes. eapply Zx_no_holder; eauto.
      intros (p & i & s & w & E). destruct (Hpar _ _ _ _ E) as (c & Hp & Heq & Hfc).
      assert (u_par u = p) by (rewrite Heq; reflexivity). congruence. }
  (* found: one level up *)
  destruct (lookup_edge _ _ _ _ _ _ Epc Efc) as (s & w & E).
  set (p := u_par u) in *.
  destruct (hooked_lookup _ _ _ HS _ _ _ _ _ _ _ E Epc Ect) as (u' & Hu' & Heq & _).
  rewrite Eu in Hu'. injection Hu' as <-.
  assert (Hlim : u_lim u = slot_lim g (c_kind pc) (s_ksz s) w) by (rewrite Heq; reflexivity).
  assert (Hne : t <> p).
  { intros Heq'. rewrite <- Heq' in E. exact (no_self_edge _ _ _ HS _ _ _ _ E). }
  set (f1 := storable f t (u_lim u)).
  set (f2 := set_csize_log g f1 p).
  assert (Hs12 : same_struct f f2).
  { eapply same_struct_trans; [apply storable_same_struct|apply set_csize_log_same_struct]. }
  assert (HS2 : fstruct n g f2) by (eapply same_struct_fstruct; eauto).
  assert (Hl2 : forall p0 i0 s0 v0 w0, edge f2 p0 i0 s0 v0 w0 -> (lvl p0 < lvl v0)%nat).
  { intros. eapply Hl. eapply same_struct_edge; [apply same_struct_sym|]; eauto. }
  assert (Hlp : (lvl p < m)%nat) by (specialize (Hl _ _ _ _ _ E); lia).
  (* what f2 looks like *)
  assert (Hg2 : forall x, fget f2 x =
            if x =? p then Some (with_csize pc (data_size g f1 (c_kind pc) (c_slots pc)))
            else if x =? t then Some (with_inl ct (inl_size ct <=? u_lim u)) else fget f x).
  { intros x. unfold f2. rewrite set_csize_log_get. unfold f1. rewrite !storable_get.
    destruct (N.eqb_spec x p) as [->|Hxp].
    - destruct (N.eqb_spec p t); [congruence|]. now rewrite Epc.
    - destruct (N.eqb_spec x t) as [->|]; auto. now rewrite Ect. }
  assert (Hg1 : forall x, fget f1 x = if x =? t then Some (with_inl ct (inl_size ct <=? u_lim u)) else fget f x).
  { intros x. unfold f1. rewrite storable_get. destruct (N.eqb_spec x t) as [->|]; auto. now rewrite Ect. }
  apply (IH f2 p (child_size f p)); auto.
  destruct HZ as (HZc & HZi & HZz).
  split; [|split].
  - intros x c2 Hx. rewrite Hg2 in Hx.
    destruct (N.eqb_spec x p) as [->|Hxp].
    + injection Hx as <-. cbn [c_csize c_kind c_slots with_csize]. unfold data_size. rewrite sum_slots_w. f_equal.
      apply sum_w_ext. intros s0 v0 w0 Hin Hv0. unfold ovr.
      destruct (N.eqb_spec v0 p) as [->|Hv0p].
      { exfalso. destruct (In_edge _ _ _ _ _ _ Epc Hin Hv0) as (j & Ej). exact (no_self_edge _ _ _ HS _ _ _ _ Ej). }
      apply child_size_get. rewrite Hg2, Hg1. destruct (N.eqb_spec v0 p); [congruence|reflexivity].
    + assert (exists c, fget f x = Some c /\ c_csize c = c_csize c2 /\ c_kind c = c_kind c2 /\ c_slots c = c_slots c2)
        as (c & Hfx & Hcz & Hck & Hcsl).
      { destruct (N.eqb_spec x t) as [->|]; [|eauto]. injection Hx as <-. exists ct. auto. }
      rewrite <- Hcz, <- Hck, <- Hcsl, (HZc x c Hfx). f_equal.
      apply sum_w_ext. intros s0 v0 w0 Hin Hv0. unfold ovr.
      destruct (In_edge _ _ _ _ _ _ Hfx Hin Hv0) as (j & Ej).
      destruct (N.eqb_spec v0 t) as [->|Hv0t].
      { exfalso. destruct (edge_unique _ _ _ HS _ _ _ _ _ _ _ _ _ E Ej) as (Hpp & _). congruence. }
      destruct (N.eqb_spec v0 p) as [->|Hv0p]; auto.
      symmetry. apply child_size_get. rewrite Hg2.
      destruct (N.eqb_spec v0 p); [congruence|]. destruct (N.eqb_spec v0 t); [congruence|reflexivity].
  - intros v Hvp. destruct (N.eq_dec v t) as [->|Hvt].
    + intros p' c' i' s' w' cv' Hp' Hn' Hv' Hcv'.
      assert (E' : edge f p' i' s' t w').
      { eapply same_struct_edge; [apply same_struct_sym; eauto|]. exists c'. auto. }
      destruct (edge_unique _ _ _ HS _ _ _ _ _ _ _ _ _ E E') as (<- & <- & <- & <-).
      rewrite Hg2 in Hp'. rewrite N.eqb_refl in Hp'. injection Hp' as <-.
      rewrite Hg2 in Hcv'. destruct (N.eqb_spec t p); [congruence|]. rewrite N.eqb_refl in Hcv'. injection Hcv' as <-.
      cbn [c_kind with_csize]. rewrite <- Hlim.
      change (inl_size (with_inl ct (inl_size ct <=? u_lim u))) with (inl_size ct).
      cbn [c_inl with_inl]. rewrite N.leb_le. tauto.
    + eapply inl_ok_transfer; eauto.
      rewrite Hg2. destruct (N.eqb_spec v p); [congruence|]. destruct (N.eqb_spec v t); [congruence|reflexivity].
  - intros c2 Hp2 Hinl2. rewrite Hg2, N.eqb_refl in Hp2. injection Hp2 as <-. cbn in Hinl2.
    unfold child_size. now rewrite Epc, Hinl2.
Qed.

(* ---------- the chain keeps the structure ---------- *)
Definition same_struct_u (f f' : forest) : Prop :=
  forall x, match fget f x, fget f' x with
            | Some c, Some c' =>
              c_kind c = c_kind c' /\ c_slots c = c_slots c' /\ c_idx c = c_idx c' /\
              (c_upd c' = c_upd c \/ (c_upd c' = None /\ ~ attached f x))
            | None, None => True
            | _, _ => False
            end.

Lemma same_struct_su f f' : same_struct f f' -> same_struct_u f f'.
Proof.
  intros H x. specialize (H x). destruct (fget f x), (fget f' x); auto.
  destruct H as (?&?&?&?). repeat split; auto.
Qed.

Lemma su_edge f f' p i s v w : same_struct_u f f' -> (edge f p i s v w <-> edge f' p i s v w).
Proof.
  intros H. split; intros (c & Hc & Hn & Hv); specialize (H p); rewrite Hc in H.
  - destruct (fget f' p) as [c'|] eqn:E'; [|contradiction]. destruct H as (_ & Hs & _). exists c'. rewrite <- Hs. auto.
  - destruct (fget f p) as [c'|] eqn:E'; [|contradiction]. destruct H as (_ & Hs & _). exists c'. rewrite Hs. auto.
Qed.

Lemma su_attached f f' v : same_struct_u f f' -> (attached f v <-> attached f' v).
Proof.
  intros H. split; intros (p & i & s & w & E); exists p, i, s, w.
  - apply (su_edge f f' p i s v w H). exact E.
  - apply (su_edge f f' p i s v w H). exact E.
Qed.

Lemma su_trans f1 f2 f3 : same_struct_u f1 f2 -> same_struct_u f2 f3 -> same_struct_u f1 f3.
Proof.
  intros H1 H2 x. pose proof (H1 x) as A. pose proof (H2 x) as B.
  destruct (fget f1 x), (fget f2 x), (fget f3 x); try tauto.
  destruct A as (?&?&?&Ha), B as (?&?&?&Hb). repeat split; try congruence.
  destruct Hb as [Hb|(Hb & Hnb)].
  - destruct Ha as [Ha|(Ha & Hna)]; [left; congruence|right; split; [congruence|auto]].
  - right. split; auto. rewrite (su_attached f1 f2); auto.
Qed.

Lemma su_fstruct n g f f' : same_struct_u f f' -> fstruct n g f -> fstruct n g f'.
Proof.
  intros H [Hh Hk Hr]. split.
  - intros p c' i s v w Hc' Hn Hv.
    pose proof (H p) as Hp. rewrite Hc' in Hp. destruct (fget f p) as [c|] eqn:Ec; [|contradiction].
    destruct Hp as (Hkd & Hsl & Hix & _).
    destruct (Hh p c i s v w Ec) as (cv & Hcv & Hu & Hi); [congruence|auto|].
    pose proof (H v) as Hvv. rewrite Hcv in Hvv. destruct (fget f' v) as [cv'|] eqn:Ev; [|contradiction].
    destruct Hvv as (_ & _ & _ & Hup).
    exists cv'. split; auto. split.
    + destruct Hup as [Hup|(_ & Hna)]; [congruence|].
      exfalso. apply Hna. exists p, i, s, w, c. rewrite Hsl. auto.
    + intros Hka. rewrite <- Hix. apply Hi. congruence.
  - intros p c' Hc' Hkm. pose proof (H p) as Hp. rewrite Hc' in Hp.
    destruct (fget f p) as [c|] eqn:Ec; [|contradiction]. destruct Hp as (Hkd & Hsl & _).
    rewrite <- Hsl. eapply Hk; eauto. congruence.
  - destruct Hr as (lvl & Hl & Hb). exists lvl. split; auto.
    intros p i s v w He. eapply Hl. eapply su_edge; eauto.
Qed.

Lemma su_idx_ok f f' : same_struct_u f f' -> idx_ok f -> idx_ok f'.
Proof.
  intros H Hi p c' Hc'. pose proof (H p) as Hp. rewrite Hc' in Hp.
  destruct (fget f p) as [c|] eqn:Ec; [|contradiction]. destruct Hp as (Hkd & Hsl & Hix & _).
  destruct (Hi p c Ec) as [H1 H2]. rewrite <- Hsl, <- Hix, <- Hkd. split; auto.
Qed.

Lemma clear_upd_su f t : ~ attached f t -> same_struct_u f (clear_upd f t).
Proof.
  intros Hna x. rewrite clear_upd_get. destruct (N.eqb_spec x t) as [->|].
  - destruct (fget f t) as [c|]; cbn; auto; repeat split; auto.
  - destruct (fget f x); auto; repeat split; auto.
Qed.

Lemma lookup_fail_unattached n g f t ct u :
  fstruct n g f -> fget f t = Some ct -> c_upd ct = Some u ->
  (fget f (u_par u) = None \/ exists pc, fget f (u_par u) = Some pc /\ find_child pc t u = None) ->
  ~ attached f t.
Proof.
  intros HS Ect Eu Hcase (p & i & s & w & E).
  destruct (hooked_edge _ _ _ HS _ _ _ _ _ E) as (c & cv & Hp & Hn & Hcv & Hu & _).
  destruct (hooked_lookup _ _ _ HS _ _ _ _ _ _ _ E Hp Ect) as (u' & Hu' & Heq & Hfc).
  rewrite Eu in Hu'. injection Hu' as <-.
  assert (Hup : u_par u = p) by (rewrite Heq; reflexivity). rewrite Hup in Hcase.
  destruct Hcase as [Hnone|(pc & Hpc & Hnf)]; congruence.
Qed.

Lemma resync_su n g : forall m f t f' ok, fstruct n g f -> resync m g f t = (f', ok) -> same_struct_u f f'.
Proof.
  induction m as [|m IH]; intros f t f' ok HS; cbn [resync].
  { intros [= <- _]. apply same_struct_su, same_struct_refl. }
  destruct (fget f t) as [ct|] eqn:Ect; [|intros [= <- _]; apply same_struct_su, same_struct_refl].
  destruct (c_upd ct) as [u|] eqn:Eu; [|intros [= <- _]; apply same_struct_su, same_struct_refl].
  destruct (negb (c_inl ct) && negb (inl_size ct <=? u_lim u)); [intros [= <- _]; apply same_struct_su, same_struct_refl|].
  destruct (fget f (u_par u)) as [pc|] eqn:Epc.
  2:{ intros [= <- _]. apply clear_upd_su. eapply lookup_fail_unattached; eauto. }
  destruct (find_child pc t u) as [i|] eqn:Efc.
  2:{ intros [= <- _]. apply clear_upd_su. eapply lookup_fail_unattached; eauto. }
  intros Hr.
  assert (Hs12 : same_struct f (set_csize_log g (storable f t (u_lim u)) (u_par u))).
  { eapply same_struct_trans; [apply storable_same_struct|apply set_csize_log_same_struct]. }
  eapply su_trans; [apply same_struct_su; eauto|].
  eapply IH; eauto. eapply same_struct_fstruct; eauto.
Qed.

(* ---------- frame: only ancestors-or-self change ---------- *)
Inductive anc (f : forest) : N -> N -> Prop :=
| anc_refl x : anc f x x
| anc_up x p i s t w : edge f p i s t w -> anc f x p -> anc f x t.

Lemma anc_su f f' x t : same_struct_u f f' -> anc f' x t -> anc f x t.
Proof.
  intros H A. induction A; [constructor|]. econstructor; eauto. eapply su_edge; eauto.
Qed.

Lemma anc_lvl f (lvl : N -> nat) x t :
  (forall p i s v w, edge f p i s v w -> (lvl p < lvl v)%nat) -> anc f x t -> (lvl x <= lvl t)%nat.
Proof.
  intros Hl A. induction A; [lia|]. specialize (Hl _ _ _ _ _ H). lia.
Qed.

Lemma clear_upd_dirty f t x : dirty (clear_upd f t) x = dirty f x.
Proof. unfold clear_upd. destruct (fget f t); auto. Qed.

Lemma resync_frame n g : forall m f t f' ok, fstruct n g f -> resync m g f t = (f', ok) ->
  forall x, ~ anc f x t -> fget f' x = fget f x /\ dirty f' x = dirty f x.
Proof.
  induction m as [|m IH]; intros f t f' ok HS; cbn [resync].
  { intros [= <- _]; auto. }
  destruct (fget f t) as [ct|] eqn:Ect; [|intros [= <- _]; auto].
  destruct (c_upd ct) as [u|] eqn:Eu; [|intros [= <- _]; auto].
  destruct (negb (c_inl ct) && negb (inl_size ct <=? u_lim u)); [intros [= <- _]; auto|].
  assert (Hclr : forall x, ~ anc f x t -> fget (clear_upd f t) x = fget f x /\ dirty (clear_upd f t) x = dirty f x).
  { intros x Hx. rewrite clear_upd_get, clear_upd_dirty. destruct (N.eqb_spec x t) as [->|]; auto.
    exfalso. apply Hx. constructor. }
  destruct (fget f (u_par u)) as [pc|] eqn:Epc; [|intros [= <- _]; auto].
  destruct (find_child pc t u) as [i|] eqn:Efc; [|intros [= <- _]; auto].
  intros Hr x Hx.
  destruct (lookup_edge _ _ _ _ _ _ Epc Efc) as (s & w & E).
  set (f2 := set_csize_log g (storable f t (u_lim u)) (u_par u)) in *.
  assert (Hs12 : same_struct f f2).
  { eapply same_struct_trans; [apply storable_same_struct|apply set_csize_log_same_struct]. }
  assert (Hxt : x <> t) by (intros ->; apply Hx; constructor).
  assert (Hxp : x <> u_par u) by (intros ->; apply Hx; econstructor; [eauto|constructor]).
  assert (HS2 : fstruct n g f2) by (eapply same_struct_fstruct; eauto).
  assert (Hx2 : ~ anc f2 x (u_par u)).
  { intros A. apply Hx. econstructor; [exact E|]. eapply anc_su; [apply same_struct_su; exact Hs12|exact A]. }
  destruct (IH f2 (u_par u) f' ok HS2 Hr x Hx2) as [A B].
  rewrite A, B. unfold f2. rewrite set_csize_log_dirty_ne, storable_dirty_ne by auto.
  rewrite set_csize_log_get. destruct (N.eqb_spec x (u_par u)); [congruence|].
  rewrite storable_get. destruct (N.eqb_spec x t); [congruence|auto].
Qed.

(* an unattached container: the chain stops at once *)
Lemma resync_unattached n g m f t :
  fstruct n g f -> ~ attached f t ->
  (resync (S m) g f t = (f, true) /\
   forall ct, fget f t = Some ct ->
     c_upd ct = None \/ exists u, c_upd ct = Some u /\ c_inl ct = false /\ ~ inl_size ct <= u_lim u) \/
  (resync (S m) g f t = (clear_upd f t, true) /\
   exists ct u, fget f t = Some ct /\ c_upd ct = Some u /\ (c_inl ct = true \/ inl_size ct <= u_lim u)).
Proof.
  intros HS Hna. cbn [resync].
  destruct (fget f t) as [ct|] eqn:Ect; [|left; split; auto; discriminate].
  destruct (c_upd ct) as [u|] eqn:Eu; [|left; split; auto; intros ? [= <-]; auto].
  destruct (negb (c_inl ct) && negb (inl_size ct <=? u_lim u)) eqn:Ee.
  { left. split; auto. intros ? [= <-]. right. exists u. apply andb_true_iff in Ee. destruct Ee as [E1 E2].
    apply negb_true_iff in E1. apply negb_true_iff in E2. repeat split; auto. intros H. apply N.leb_le in H. congruence. }
  assert (Hcond : c_inl ct = true \/ inl_size ct <= u_lim u).
  { apply andb_false_iff in Ee. destruct Ee as [Ee|Ee]; apply negb_false_iff in Ee; auto.
    right. now apply N.leb_le. }
  destruct (fget f (u_par u)) as [pc|] eqn:Epc; [|right; split; eauto 8].
  destruct (find_child pc t u) as [i|] eqn:Efc; [|right; split; eauto 8].
  exfalso. apply Hna. destruct (lookup_edge _ _ _ _ _ _ Epc Efc) as (s & w & E). now exists (u_par u), i, s, w.
Qed.

(* ---------- the enclosing stored container is dirty ---------- *)
Lemma find_child_struct c c' v u :
  c_kind c = c_kind c' -> c_slots c = c_slots c' -> c_idx c = c_idx c' -> find_child c v u = find_child c' v u.
Proof. intros Hk Hs Hi. unfold find_child. now rewrite Hk, Hs, Hi. Qed.

Lemma storable_dirty_self f t ct lim :
  fget f t = Some ct -> (inl_size ct <=? lim) = false ->
  (c_inl ct = false -> dirty f t = Some true) -> dirty (storable f t lim) t = Some true.
Proof.
  intros Ect Hfit Hpre. unfold storable. rewrite Ect, Hfit. destruct (c_inl ct); auto. apply dirty_flog_eq.
Qed.

Lemma set_csize_log_dirty_self g f p c :
  fget f p = Some c -> c_inl c = false -> dirty (set_csize_log g f p) p = Some true.
Proof. intros Hc Hi. unfold set_csize_log. rewrite Hc, Hi. apply dirty_flog_eq. Qed.

Lemma resync_dirty n g (lvl : N -> nat) :
  forall m f t f',
    fstruct n g f ->
    (forall p i s v w, edge f p i s v w -> (lvl p < lvl v)%nat) ->
    (forall ct, fget f t = Some ct -> c_inl ct = false -> dirty f t = Some true) ->
    resync m g f t = (f', true) ->
    forall k s0, enclosing k f' t = Some s0 -> dirty f' s0 = Some true.
Proof.
  induction m as [|m IH]; intros f t f' HS Hl Hpre; cbn [resync]; [discriminate|].
  destruct (fget f t) as [ct|] eqn:Ect.
  2:{ intros [= <-] [|k] s0; cbn [enclosing]; [discriminate|]. now rewrite Ect. }
  destruct (c_upd ct) as [u|] eqn:Eu.
  2:{ intros [= <-] [|k] s0; cbn [enclosing]; [discriminate|]. rewrite Ect.
      destruct (c_inl ct) eqn:Ei.
      - unfold parent_of. rewrite Ect, Eu. discriminate.
      - intros [= <-]. eauto. }
  destruct (negb (c_inl ct) && negb (inl_size ct <=? u_lim u)) eqn:Ee.
  { apply andb_true_iff in Ee. destruct Ee as [Ei _]. apply negb_true_iff in Ei.
    intros [= <-] [|k] s0; cbn [enclosing]; [discriminate|]. rewrite Ect, Ei. intros [= <-]. eauto. }
  assert (Hclr : forall k s0, enclosing k (clear_upd f t) t = Some s0 -> dirty (clear_upd f t) s0 = Some true).
  { intros [|k] s0; cbn [enclosing]; [discriminate|].
    rewrite clear_upd_get, N.eqb_refl, Ect. cbn [option_map c_inl with_upd].
    destruct (c_inl ct) eqn:Ei.
    - unfold parent_of. rewrite clear_upd_get, N.eqb_refl, Ect. cbn. discriminate.
    - intros [= <-]. rewrite clear_upd_dirty. eauto. }
  destruct (fget f (u_par u)) as [pc|] eqn:Epc; [|intros [= <-]; auto].
  destruct (find_child pc t u) as [i|] eqn:Efc; [|intros [= <-]; auto].
  intros Hr [|k] s0; [discriminate|].
  destruct (lookup_edge _ _ _ _ _ _ Epc Efc) as (s & w & E).
  set (p := u_par u) in *.
  set (f1 := storable f t (u_lim u)) in *.
  set (f2 := set_csize_log g f1 p) in *.
  assert (Hne : t <> p).
  { intros Heq'. rewrite <- Heq' in E. exact (no_self_edge _ _ _ HS _ _ _ _ E). }
  assert (Hs12 : same_struct f f2).
  { eapply same_struct_trans; [apply storable_same_struct|apply set_csize_log_same_struct]. }
  assert (HS2 : fstruct n g f2) by (eapply same_struct_fstruct; eauto).
  assert (Hl2 : forall p0 i0 s0 v0 w0, edge f2 p0 i0 s0 v0 w0 -> (lvl p0 < lvl v0)%nat).
  { intros. eapply Hl. eapply same_struct_edge; [apply same_struct_sym|]; eauto. }
  assert (Hpc1 : fget f1 p = Some pc).
  { unfold f1. rewrite storable_get. destruct (N.eqb_spec p t); [congruence|auto]. }
  assert (Hpre2 : forall c2, fget f2 p = Some c2 -> c_inl c2 = false -> dirty f2 p = Some true).
  { intros c2 Hc2 Hi2. unfold f2 in Hc2. rewrite set_csize_log_get, N.eqb_refl, Hpc1 in Hc2. injection Hc2 as <-.
    eapply set_csize_log_dirty_self; eauto. }
  pose proof (IH f2 p f' HS2 Hl2 Hpre2 Hr) as HD.
  assert (Hnanc : ~ anc f2 t p).
  { intros A. pose proof (anc_lvl _ lvl _ _ Hl2 A). specialize (Hl _ _ _ _ _ E). lia. }
  destruct (resync_frame _ _ _ _ _ _ _ HS2 Hr t Hnanc) as [Ft Dt].
  assert (Ht2 : fget f2 t = Some (with_inl ct (inl_size ct <=? u_lim u))).
  { unfold f2. rewrite set_csize_log_get. destruct (N.eqb_spec t p); [congruence|].
    unfold f1. now rewrite storable_get, N.eqb_refl, Ect. }
  cbn [enclosing]. rewrite Ft, Ht2. cbn [c_inl with_inl].
  destruct (inl_size ct <=? u_lim u) eqn:Efit.
  - (* inlined: continue at the parent *)
    assert (Hpo : parent_of f' t = Some p).
    { unfold parent_of. rewrite Ft, Ht2. cbn [c_upd with_inl]. rewrite Eu. fold p.
      pose proof (resync_su _ _ _ _ _ _ _ HS2 Hr p) as Hsu.
      assert (Hp2 : fget f2 p = Some (with_csize pc (data_size g f1 (c_kind pc) (c_slots pc)))).
      { unfold f2. now rewrite set_csize_log_get, N.eqb_refl, Hpc1. }
      rewrite Hp2 in Hsu. destruct (fget f' p) as [pc'|]; [|contradiction].
      destruct Hsu as (Hk & Hsl & Hix & _). cbn in Hk, Hsl, Hix.
      rewrite <- (find_child_struct pc pc' t u Hk Hsl Hix), Efc. reflexivity. }
    rewrite Hpo. apply HD.
  - intros [= <-]. rewrite Dt. unfold f2. rewrite set_csize_log_dirty_ne by congruence.
    eapply storable_dirty_self; eauto.
Qed.
