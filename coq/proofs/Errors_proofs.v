(* Errors_proofs.v — lemmas for C18 (rejected requests are categorised and leave no trace). *)
From Coq Require Import String NArith ZArith List Bool Lia.
From AtreeGen Require Import Consts ErrCat.
From AtreeModel Require Settings ArrayTree ArrayInv MapElems MapElemsInv Storage.
From AtreeModel Require Import ErrSpec.
From AtreeProofs Require MapElems_proofs.
Import ListNotations.

(* ====================================================================== *)
(* 1. the generated category table                                        *)
(* ====================================================================== *)

Module Cat.
  Local Open Scope string_scope.

  Lemma ecat_eqb_eq a b : ecat_eqb a b = true -> a = b.
  Proof. destruct a, b; simpl; congruence. Qed.

  Lemma lookup_cat_In n t c : lookup_cat n t = Some c -> In (n, c) t.
  Proof.
    induction t as [|[m d] r IH]; simpl; [discriminate|].
    destruct (String.eqb m n) eqn:E.
    - intros H. injection H as ->. apply String.eqb_eq in E. subst. now left.
    - intros H. right. now apply IH.
  Qed.

  (* the finite generated tables are checked completely by computation *)
  Lemma table_rows_ok : forallb row_ok errcat_table = true.
  Proof. vm_compute. reflexivity. Qed.
  Lemma runtime_rows_ok : forallb row_ok errcat_runtime = true.
  Proof. vm_compute. reflexivity. Qed.
  Lemma table_names_present : names_present errcat_table = true.
  Proof. vm_compute. reflexivity. Qed.
  Lemma runtime_names_present : names_present errcat_runtime = true.
  Proof. vm_compute. reflexivity. Qed.

  Lemma rows_ok_spec t : forallb row_ok t = true ->
    forall r, In r t -> forall c, expected_category (fst r) = Some c -> snd r = c.
  Proof.
    intros H r Hin c Hc. pose proof (proj1 (forallb_forall _ _) H r Hin) as Hr.
    unfold row_ok in Hr. rewrite Hc in Hr. now apply ecat_eqb_eq.
  Qed.

  Lemma categories : forall r, In r errcat_table -> forall c, expected_category (fst r) = Some c -> snd r = c.
  Proof. exact (rows_ok_spec _ table_rows_ok). Qed.

  Lemma categories_runtime : forall r, In r errcat_runtime -> forall c, expected_category (fst r) = Some c -> snd r = c.
  Proof. exact (rows_ok_spec _ runtime_rows_ok). Qed.

  Lemma present_spec t : names_present t = true -> forallb row_ok t = true ->
    forall n c, expected_category n = Some c -> In (n, c) t.
  Proof.
    intros Hp Hr n c Hc. pose proof (lookup_cat_In _ _ _ Hc) as Hin.
    unfold names_present in Hp. pose proof (proj1 (forallb_forall _ _) Hp _ Hin) as Hex.
    apply existsb_exists in Hex. destruct Hex as [[m d] [Hm E]]. cbn [fst] in E.
    apply String.eqb_eq in E. subst m.
    pose proof (rows_ok_spec t Hr _ Hm c Hc) as Hd. cbn [snd] in Hd. now subst d.
  Qed.

  (* every (cause, category) of the specification is literally a row of the generated table *)
  Lemma expected_present : forall n c, expected_category n = Some c -> In (n, c) errcat_table.
  Proof. exact (present_spec _ table_names_present table_rows_ok). Qed.
  Lemma expected_present_runtime : forall n c, expected_category n = Some c -> In (n, c) errcat_runtime.
  Proof. exact (present_spec _ runtime_names_present runtime_rows_ok). Qed.

  (* parsed and observed columns agree, constructor by constructor *)
  Definition row_agree (r : string * string * ecat * option ecat) : bool :=
    match snd r with Some c => ecat_eqb c (snd (fst r)) | None => true end.
  Lemma rows_agree_ok : forallb row_agree errcat_rows = true.
  Proof. vm_compute. reflexivity. Qed.
  Lemma static_runtime_agree : forall ctor ty s r, In (ctor, ty, s, Some r) errcat_rows -> r = s.
  Proof.
    intros ctor ty s r Hin. pose proof (proj1 (forallb_forall _ _) rows_agree_ok _ Hin) as H.
    unfold row_agree in H. cbn [fst snd] in H. now apply ecat_eqb_eq.
  Qed.

  (* no constructor is left without a category *)
  Lemma all_categorised : forall r, In r errcat_table -> snd r <> Uncategorised.
  Proof.
    assert (H : forallb (fun r : string * ecat => negb (ecat_eqb (snd r) Uncategorised)) errcat_table = true)
      by (vm_compute; reflexivity).
    intros r Hin E. pose proof (proj1 (forallb_forall _ _) H r Hin) as Hr. cbn in Hr. rewrite E in Hr. discriminate.
  Qed.

  Definition mem_row (n : string) (c : ecat) (t : list (string * ecat)) : bool :=
    existsb (fun r : string * ecat => String.eqb (fst r) n && ecat_eqb (snd r) c) t.
  Lemma mem_row_In n c t : mem_row n c t = true -> In (n, c) t.
  Proof.
    unfold mem_row. intros H. apply existsb_exists in H. destruct H as [[m d] [Hin E]].
    cbn [fst snd] in E. apply andb_true_iff in E. destruct E as [E1 E2].
    apply String.eqb_eq in E1. apply ecat_eqb_eq in E2. now subst.
  Qed.

  (* the errors of the executable models, by Go name, carry in errors.go the category the models
     assume *)
  Lemma aerr_in_table : forall e, e <> ArrayTree.EPanic -> In (aerr_name e, aerr_category e) errcat_table.
  Proof. intros e He. apply mem_row_In. destruct e; try (vm_compute; reflexivity). now elim He. Qed.

  Lemma aerr_argument_user : forall e, aerr_is_argument e = true ->
    aerr_category e = User /\ expected_category (aerr_name e) = Some (aerr_category e).
  Proof. intros e He. destruct e; try discriminate; split; reflexivity. Qed.

  Lemma merr_in_table : forall e, In (merr_name e, merr_category e) errcat_table.
  Proof. intros e. apply mem_row_In. destruct e; vm_compute; reflexivity. Qed.

  Lemma merr_argument_expected : forall e, merr_is_argument e = true ->
    expected_category (merr_name e) = Some (merr_category e).
  Proof. intros e He. destruct e; try discriminate; reflexivity. Qed.

  Lemma slabid_in_table :
    In (slabid_err_name, slabid_err_category) errcat_table /\
    expected_category slabid_err_name = Some slabid_err_category.
  Proof. split; [apply mem_row_In; vm_compute; reflexivity|reflexivity]. Qed.
End Cat.

(* ====================================================================== *)
(* 2. arrays                                                              *)
(* ====================================================================== *)

Module Arr.
  Import Settings ArrayTree ArrayInv ErrSpec.ArrHist.
  Local Open Scope N_scope.

  (* --- every error path of the array model returns the input state and issues no call --- *)
  Lemma array_no_trace c a o e :
    snd (fst (a_step c a o)) = RErr e -> fst (fst (a_step c a o)) = a /\ snd (a_step c a o) = [].
  Proof.
    destruct o as [i|i x|i x|x|i| | | |t| |s t]; cbn [a_step]; try solve [cbn; intros; first [discriminate|auto]].
    - (* Set *)
      unfold a_set. destruct (n_set c RP (a_root a) i x (a_alloc a)) as [[[[r' old] al] lg]|err]; [|cbn; auto].
      destruct (if n_is_full c r' then split_root (mkarr r' al (a_type a)) else (Ok (mkarr r' al (a_type a)), [])) as [[a2|err] lg2];
        [|cbn; auto].
      destruct (promote_if_single a2) as [a3 lg3]. cbn. discriminate.
    - (* Insert *)
      unfold a_insert. destruct (a_count a =? max_count); [cbn; auto|].
      destruct (n_insert c (a_root a) i x (a_alloc a)) as [[[r' al] lg]|err]; [|cbn; auto].
      destruct (if n_is_full c r' then split_root (mkarr r' al (a_type a)) else (Ok (mkarr r' al (a_type a)), [])) as [[a2|err] lg2];
        cbn; [discriminate|auto].
    - (* Append *)
      unfold a_insert. destruct (a_count a =? max_count); [cbn; auto|].
      destruct (n_insert c (a_root a) (a_count a) x (a_alloc a)) as [[[r' al] lg]|err]; [|cbn; auto].
      destruct (if n_is_full c r' then split_root (mkarr r' al (a_type a)) else (Ok (mkarr r' al (a_type a)), [])) as [[a2|err] lg2];
        cbn; [discriminate|auto].
    - (* Remove *)
      unfold a_remove. destruct (n_remove c (a_root a) i) as [[[r' old] lg]|err]; [|cbn; auto].
      destruct (promote_if_single (mkarr r' (a_alloc a) (a_type a))) as [a2 lg2]. cbn. discriminate.
  Qed.

  (* --- which requests are rejected --- *)

  Lemma nth_N_none_iff {A} (l : list A) i : nth_N l i = None <-> N.of_nat (length l) <= i.
  Proof.
    unfold nth_N. destruct (N.of_nat (length l) <=? i) eqn:E.
    - apply N.leb_le in E. tauto.
    - apply N.leb_gt in E. split; [|lia]. intros H. apply nth_error_None in H. lia.
  Qed.

  (* the cached count of a data-slab root is the number of its elements *)
  Definition root_count_ok (a : arr) : Prop :=
    match a_root a with AD h _ es => h_count h = N.of_nat (length es) | AM _ _ _ _ => True end.

  Lemma awf_root_count_ok c a : awf c a -> root_count_ok a.
  Proof. intros [H _]. unfold root_count_ok. inversion H; subst; auto. Qed.

  Lemma get_rejects a i : root_count_ok a -> a_count a <= i -> a_get a i = RErr EIndexOOB.
  Proof.
    unfold root_count_ok, a_count, a_get. destruct (a_root a) as [h nx es|h hs sums cs]; cbn [hdr_of n_get]; intros Hc Hi.
    - rewrite (proj2 (nth_N_none_iff es i)) by lia. reflexivity.
    - rewrite (proj2 (N.leb_le _ _) Hi). reflexivity.
  Qed.

  Lemma set_rejects c a i e : root_count_ok a -> a_count a <= i -> a_set c a i e = (a, RErr EIndexOOB, []).
  Proof.
    unfold root_count_ok, a_count, a_set. destruct (a_root a) as [h nx es|h hs sums cs]; cbn [hdr_of n_set]; intros Hc Hi.
    - rewrite (proj2 (nth_N_none_iff es i)) by lia. reflexivity.
    - rewrite (proj2 (N.leb_le _ _) Hi). reflexivity.
  Qed.

  Lemma remove_rejects c a i : root_count_ok a -> a_count a <= i -> a_remove c a i = (a, RErr EIndexOOB, []).
  Proof.
    unfold root_count_ok, a_count, a_remove. destruct (a_root a) as [h nx es|h hs sums cs]; cbn [hdr_of n_remove]; intros Hc Hi.
    - rewrite (proj2 (nth_N_none_iff es i)) by lia. reflexivity.
    - rewrite (proj2 (N.leb_le _ _) Hi). reflexivity.
  Qed.

  Lemma insert_rejects c a i e : root_count_ok a -> a_count a <> max_count -> a_count a < i ->
    a_insert c a i e = (a, RErr EIndexOOB, []).
  Proof.
    unfold a_insert. intros Hc Hm Hi. rewrite (proj2 (N.eqb_neq _ _) Hm).
    revert Hc Hi. unfold root_count_ok, a_count. destruct (a_root a) as [h nx es|h hs sums cs]; cbn [hdr_of n_insert]; intros Hc Hi.
    - rewrite (proj2 (N.ltb_lt _ _)) by lia. reflexivity.
    - rewrite (proj2 (N.ltb_lt _ _) Hi). reflexivity.
  Qed.

  Lemma insert_full c a i e : a_count a = max_count -> a_insert c a i e = (a, RErr EMaxCount, []).
  Proof. unfold a_insert. intros H. rewrite (proj2 (N.eqb_eq _ _) H). reflexivity. Qed.

  (* all four in terms of a_step, with the invariant as hypothesis *)
  Lemma array_rejects c a : awf c a ->
    (forall i, a_count a <= i -> a_step c a (OGet i) = (a, RErr EIndexOOB, [])) /\
    (forall i e, a_count a <= i -> a_step c a (OSet i e) = (a, RErr EIndexOOB, [])) /\
    (forall i, a_count a <= i -> a_step c a (ORemove i) = (a, RErr EIndexOOB, [])) /\
    (forall i e, a_count a < i -> a_count a <> max_count -> a_step c a (OInsert i e) = (a, RErr EIndexOOB, [])) /\
    (forall i e, a_count a = max_count -> a_step c a (OInsert i e) = (a, RErr EMaxCount, []) /\
                                           a_step c a (OAppend e) = (a, RErr EMaxCount, [])).
  Proof.
    intros Hw. pose proof (awf_root_count_ok c a Hw) as Hc. cbn [a_step]. repeat split; intros.
    - now rewrite get_rejects.
    - now apply set_rejects.
    - now apply remove_rejects.
    - now apply insert_rejects.
    - now apply insert_full.
    - now apply insert_full.
  Qed.

  (* failures after the leaf was changed are never argument errors *)
  Lemma n_split_err n id e : n_split n id = Err e -> e = ESplit.
  Proof.
    destruct n as [h nx es|h hs sums cs]; cbn [n_split].
    - destruct (Nat.ltb (length es) 2); [congruence|]. destruct (split_point _ _ _ _ _). discriminate.
    - destruct (Nat.ltb (length hs) 2); [congruence|discriminate].
  Qed.

  Lemma split_root_err a e lg : split_root a = (Err e, lg) -> e = ESplit.
  Proof.
    unfold split_root. destruct (n_split _ _) as [[l r]|x] eqn:E; [discriminate|].
    intros H. injection H as -> _. now apply n_split_err in E.
  Qed.

  (* with a data-slab root the bound is exact: nothing else is rejected *)
  Lemma leaf_root_exact c a h nx es : a_root a = AD h nx es -> h_count h = N.of_nat (length es) ->
    (forall i, a_count a <= i <-> snd (fst (a_step c a (OGet i))) = RErr EIndexOOB) /\
    (forall i e, a_count a <= i <-> snd (fst (a_step c a (OSet i e))) = RErr EIndexOOB) /\
    (forall i, a_count a <= i <-> snd (fst (a_step c a (ORemove i))) = RErr EIndexOOB).
  Proof.
    intros Hr Hc. assert (Hrc : root_count_ok a) by (unfold root_count_ok; now rewrite Hr).
    assert (Hcnt : a_count a = N.of_nat (length es)) by (unfold a_count; now rewrite Hr).
    repeat split.
    - intros Hi. cbn [a_step fst snd]. now apply get_rejects.
    - cbn [a_step fst snd]. unfold a_get. rewrite Hr. cbn [n_get]. destruct (nth_N es i) eqn:E; [discriminate|].
      intros _. apply nth_N_none_iff in E. lia.
    - intros Hi. cbn [a_step]. now rewrite set_rejects.
    - cbn [a_step]. unfold a_set. rewrite Hr. cbn [n_set]. destruct (nth_N es i) as [old|] eqn:E.
      + destruct (externalise e (a_alloc a)) as [[e' al] lg].
        match goal with |- context [if ?b then split_root ?x else _] =>
          destruct b; [destruct (split_root x) as [[a2|err] lg2] eqn:S|] end.
        * destruct (promote_if_single a2). cbn. discriminate.
        * apply split_root_err in S. subst err. cbn. discriminate.
        * match goal with |- context [promote_if_single ?x] => destruct (promote_if_single x) end. cbn. discriminate.
      + intros _. apply nth_N_none_iff in E. lia.
    - intros Hi. cbn [a_step]. now rewrite remove_rejects.
    - cbn [a_step]. unfold a_remove. rewrite Hr. cbn [n_remove]. destruct (nth_N es i) as [old|] eqn:E.
      + match goal with |- context [promote_if_single ?x] => destruct (promote_if_single x) end. cbn. discriminate.
      + intros _. apply nth_N_none_iff in E. lia.
  Qed.

  (* --- ranges: Array.RangeIterator / ReadOnlyRangeIterator (array.go 1039-1049, 1091-1100) --- *)
  Lemma range_rejects a s e :
    (a_range a s e = RErr ESliceOOB <-> (a_count a < s \/ a_count a < e)) /\
    (a_range a s e = RErr EInvalidSlice <-> (s <= a_count a /\ e <= a_count a /\ e < s)) /\
    ((exists l, a_range a s e = RList l) <-> (s <= e /\ e <= a_count a)).
  Proof.
    unfold a_range.
    destruct (a_count a <? s) eqn:E1; destruct (a_count a <? e) eqn:E2; destruct (e <? s) eqn:E3;
      rewrite ?N.ltb_lt, ?N.ltb_ge in *;
      (split; [|split]); split;
      try (intros [l Hl]; discriminate Hl); try discriminate; try lia; try reflexivity;
      try (intros _; eexists; reflexivity).
  Qed.

  (* --- histories: leaving out the rejected requests changes nothing --- *)
  Lemma array_history c ops : forall a,
    a_run_full c a (a_filter c a ops) =
    let '(a1, xs, lg) := a_run_full c a ops in (a1, filter (fun x => negb (a_rejected x)) xs, lg).
  Proof.
    induction ops as [|o r IH]; intros a; [reflexivity|].
    cbn [a_run_full a_filter].
    pose proof (array_no_trace c a o) as NT.
    destruct (a_step c a o) as [[a1 x] l] eqn:E. cbn [fst snd] in NT.
    specialize (IH a1). destruct (a_run_full c a1 r) as [[a2 xs] lg].
    cbn [filter]. destruct (a_rejected x) eqn:R; cbn [negb].
    - destruct x; try discriminate R. destruct (NT _ eq_refl) as [-> ->]. rewrite IH. reflexivity.
    - cbn [a_run_full]. rewrite E, IH. reflexivity.
  Qed.

  (* --- the refusal is decided by a read-only walk: errors raised after a slab was changed are
         never argument errors --- *)
  Section anode_ind.
    Variable Q : anode -> Prop.
    Hypothesis HD : forall h nx es, Q (AD h nx es).
    Hypothesis HM : forall h hs sums cs, Forall Q cs -> Q (AM h hs sums cs).
    Fixpoint anode_ind' (n : anode) : Q n :=
      match n with
      | AD h nx es => HD h nx es
      | AM h hs sums cs =>
        HM h hs sums cs
           ((fix go (l : list anode) : Forall Q l :=
               match l with [] => @Forall_nil _ Q | x :: r => @Forall_cons _ Q x r (anode_ind' x) (go r) end) cs)
      end.
  End anode_ind.

  Lemma on_kth_nth {A B} (f : A -> B) l : forall k, on_kth f l k = option_map f (nth_error l k).
  Proof. induction l as [|x r IH]; intros [|k]; cbn; auto. Qed.

  Lemma split_child_err h hs sums cs k ch al e : split_child h hs sums cs k ch al = Err e -> e = ESplit.
  Proof.
    unfold split_child. destruct (n_split ch (al + 1)) as [[l r]|x] eqn:E; [discriminate|].
    intros H. injection H as ->. now apply n_split_err in E.
  Qed.

  Lemma n_merge_err l r e : n_merge l r = Err e -> e = EPanic.
  Proof. destruct l, r; cbn; congruence. Qed.
  Lemma n_lend_err c l r e : n_lend_to_right c l r = Err e -> e = EPanic.
  Proof. destruct l, r; cbn; try congruence. destruct (lend_loop _ _ _ _ _ _). discriminate. Qed.
  Lemma n_borrow_err c l r e : n_borrow_from_right c l r = Err e -> e = EPanic.
  Proof. destruct l, r; cbn; try congruence. destruct (borrow_loop _ _ _ _ _ _). discriminate. Qed.

  Lemma rebalance_err c h hs sums cs li l r b e : rebalance_children c h hs sums cs li l r b = Err e -> e = EPanic.
  Proof.
    unfold rebalance_children. destruct b.
    - destruct (n_borrow_from_right c l r) as [[l' r']|x] eqn:E; [discriminate|]. intros H. injection H as ->. now apply n_borrow_err in E.
    - destruct (n_lend_to_right c l r) as [[l' r']|x] eqn:E; [discriminate|]. intros H. injection H as ->. now apply n_lend_err in E.
  Qed.
  Lemma merge_children_err h hs sums cs li l r e : merge_children h hs sums cs li l r = Err e -> e = EPanic.
  Proof.
    unfold merge_children. destruct (n_merge l r) as [m|x] eqn:E; [discriminate|]. intros H. injection H as ->. now apply n_merge_err in E.
  Qed.

  Lemma mor_err c h hs sums cs k ch need e : merge_or_rebalance c h hs sums cs k ch need = Err e -> e = EPanic.
  Proof.
    unfold merge_or_rebalance.
    repeat match goal with
           | |- context [match ?x with _ => _ end] =>
             lazymatch x with
             | rebalance_children _ _ _ _ _ _ _ _ _ => fail
             | merge_children _ _ _ _ _ _ _ => fail
             | _ => destruct x
             end
           end;
      intros H; first [now apply rebalance_err in H | now apply merge_children_err in H | congruence].
  Qed.

  Lemma set_refusal_is_lookup c : forall n pfx i e al,
    n_set c pfx n i e al = Err EIndexOOB <-> n_get n i = Err EIndexOOB.
  Proof.
    induction n as [h nx es|h hs sums cs IH] using anode_ind'; intros pfx i e al; cbn [n_set n_get].
    - destruct (nth_N es i); [|tauto]. destruct (externalise e al) as [[e' al'] lg]. split; discriminate.
    - destruct (h_count h <=? i); [tauto|]. destruct (route hs sums i) as [[k j]|]; [|split; discriminate].
      rewrite !on_kth_nth. destruct (nth_error cs k) as [ch|] eqn:K; cbn [option_map]; [|split; discriminate].
      pose proof (proj1 (Forall_forall _ _) IH ch (nth_error_In _ _ K) P j e al) as IHc.
      destruct (n_set c P ch j e al) as [[[[ch' old] al'] lg]|x]; [|exact IHc].
      assert (NG : n_get ch j <> Err EIndexOOB) by (intros G; apply IHc in G; discriminate).
      split; [|tauto]. intros H. exfalso.
      destruct (n_is_full c ch').
      + destruct (split_child _ _ _ _ _ _ _) as [[[n' al''] lg']|x] eqn:S; [discriminate|].
        apply split_child_err in S. congruence.
      + destruct (n_underflow c ch'); [|discriminate].
        destruct (merge_or_rebalance _ _ _ _ _ _ _ _) as [[n' lg']|x] eqn:S; [discriminate|].
        apply mor_err in S. congruence.
  Qed.

  Lemma remove_refusal_is_lookup c : forall n i,
    n_remove c n i = Err EIndexOOB <-> n_get n i = Err EIndexOOB.
  Proof.
    induction n as [h nx es|h hs sums cs IH] using anode_ind'; intros i; cbn [n_remove n_get].
    - destruct (nth_N es i); [|tauto]. split; discriminate.
    - destruct (h_count h <=? i); [tauto|]. destruct (route hs sums i) as [[k j]|]; [|split; discriminate].
      rewrite !on_kth_nth. destruct (nth_error cs k) as [ch|] eqn:K; cbn [option_map]; [|split; discriminate].
      pose proof (proj1 (Forall_forall _ _) IH ch (nth_error_In _ _ K) j) as IHc.
      destruct (n_remove c ch j) as [[[ch' old] lg]|x]; [|exact IHc].
      assert (NG : n_get ch j <> Err EIndexOOB) by (intros G; apply IHc in G; discriminate).
      split; [|tauto]. intros H. exfalso.
      destruct (n_underflow c ch'); [|discriminate].
      destruct (merge_or_rebalance _ _ _ _ _ _ _ _) as [[n' lg']|x] eqn:S; [discriminate|].
      apply mor_err in S. congruence.
  Qed.

  Lemma insert_refusal_is_lookup c : forall n i e al,
    n_insert c n i e al = Err EIndexOOB <-> n_insert_refused n i = true.
  Proof.
    induction n as [h nx es|h hs sums cs IH] using anode_ind'; intros i e al; cbn [n_insert n_insert_refused].
    - destruct (N.of_nat (length es) <? i); [tauto|]. destruct (externalise e al) as [[e' al'] lg]. split; discriminate.
    - destruct (h_count h <? i); [tauto|].
      match goal with |- context [match ?t with Some _ => _ | None => Err EPanic end] => destruct t as [[k j]|] end;
        [|split; discriminate].
      rewrite !on_kth_nth. destruct (nth_error cs k) as [ch|] eqn:K; cbn [option_map]; [|split; discriminate].
      pose proof (proj1 (Forall_forall _ _) IH ch (nth_error_In _ _ K) j e al) as IHc.
      destruct (n_insert c ch j e al) as [[[ch' al'] lg]|x]; [|exact IHc].
      assert (NG : n_insert_refused ch j <> true) by (intros G; apply IHc in G; discriminate).
      split; [|tauto]. intros H. exfalso.
      destruct (n_is_full c ch'); [|discriminate].
      destruct (split_child _ _ _ _ _ _ _) as [[[n' al''] lg']|x] eqn:S; [discriminate|].
      apply split_child_err in S. congruence.
  Qed.

  (* the same at the level of requests *)
  Lemma refusal_is_lookup c a i :
    (forall e, snd (fst (a_step c a (OSet i e))) = RErr EIndexOOB <-> snd (fst (a_step c a (OGet i))) = RErr EIndexOOB) /\
    (snd (fst (a_step c a (ORemove i))) = RErr EIndexOOB <-> snd (fst (a_step c a (OGet i))) = RErr EIndexOOB) /\
    (forall e, snd (fst (a_step c a (OInsert i e))) = RErr EIndexOOB <->
               (a_count a <> max_count /\ n_insert_refused (a_root a) i = true)).
  Proof.
    assert (G : a_get a i = RErr EIndexOOB <-> n_get (a_root a) i = Err EIndexOOB).
    { unfold a_get. destruct (n_get (a_root a) i) as [x|x]; split; congruence. }
    cbn [a_step fst snd]. split; [|split].
    - intros e. rewrite G, <- (set_refusal_is_lookup c (a_root a) RP i e (a_alloc a)). unfold a_set.
      destruct (n_set c RP (a_root a) i e (a_alloc a)) as [[[[r' old] al] lg]|x]; [|cbn; split; congruence].
      split; [|discriminate]. intros H. exfalso. revert H.
      match goal with |- context [if ?b then split_root ?x else _] =>
        destruct b; [destruct (split_root x) as [[a2|err] lg2] eqn:S|] end.
      + destruct (promote_if_single a2). cbn. discriminate.
      + apply split_root_err in S. subst err. cbn. discriminate.
      + match goal with |- context [promote_if_single ?x] => destruct (promote_if_single x) end. cbn. discriminate.
    - rewrite G, <- (remove_refusal_is_lookup c (a_root a) i). unfold a_remove.
      destruct (n_remove c (a_root a) i) as [[[r' old] lg]|x]; [|cbn; split; congruence].
      split; [|discriminate]. match goal with |- context [promote_if_single ?x] => destruct (promote_if_single x) end. cbn. discriminate.
    - intros e. rewrite <- (insert_refusal_is_lookup c (a_root a) i e (a_alloc a)). unfold a_insert.
      destruct (a_count a =? max_count) eqn:M.
      + apply N.eqb_eq in M. cbn. split; [discriminate|]. intros [H _]. now elim H.
      + apply N.eqb_neq in M.
        destruct (n_insert c (a_root a) i e (a_alloc a)) as [[[r' al] lg]|x]; [|cbn; split; [intros H; split; congruence|intros [_ H]; congruence]].
        split; [|intros [_ H]; discriminate]. intros H. exfalso. revert H.
        match goal with |- context [if ?b then split_root ?x else _] =>
          destruct b; [destruct (split_root x) as [[a2|err] lg2] eqn:S|] end; cbn; try discriminate.
        apply split_root_err in S. subst err. discriminate.
  Qed.
End Arr.

(* ====================================================================== *)
(* 3. maps (element level)                                                *)
(* ====================================================================== *)

Module Mp.
  Import MapElems MapElemsInv MapElems_proofs ErrSpec.MapHist.
  Local Open Scope N_scope.

  Section elems.
    Variable dg : N -> nat -> N.
    Variable levels : nat.
    Variable max_inline_elem limit : N.

    Local Notation m_step := (m_step dg levels max_inline_elem limit).
    Local Notation mwf := (mwf dg levels).
    Local Notation m_run_full := (m_run_full dg levels max_inline_elem limit).
    Local Notation m_filter := (m_filter dg levels max_inline_elem limit).

    (* every error path of the map model returns the input state (root elements, count, allocator)
       and issues no storage call *)
    Lemma map_no_trace s o e :
      snd (fst (m_step s o)) = RErr e -> fst (fst (m_step s o)) = s /\ snd (m_step s o) = [].
    Proof.
      destruct o as [k v|k|k|k| | | |]; cbn [MapElems.m_step].
      - destruct (set_elems _ _ _ _ _ _ _ _ _ _) as [err|[[[g' prev] a'] evs]]; cbn; [auto|discriminate].
      - destruct (get_elems _ _ _ _ _ _) as [err|[k0 v]]; cbn; [auto|discriminate].
      - destruct (get_elems _ _ _ _ _ _) as [[]|]; cbn; first [auto|discriminate].
      - destruct (remove_elems _ _ _ _ _ _) as [err|[[g' [k0 v0]] evs]]; cbn; [auto|discriminate].
      - cbn. discriminate.
      - cbn. discriminate.
      - cbn. discriminate.
      - destruct (pop_list _). cbn. discriminate.
    Qed.

    (* answers of the structure = answers of the dictionary it represents *)
    Lemma out_is_dict s o : (1 <= levels)%nat -> mwf s ->
      snd (fst (m_step s o)) = snd (d_step dg levels limit (to_list (m_root s)) o).
    Proof.
      intros Hlv Hs. destruct (m_step_refines_all dg levels max_inline_elem limit s o Hlv Hs) as [E _].
      now rewrite E.
    Qed.

    (* on a well-formed map: Get and Remove are refused exactly for absent keys, with KeyNotFound;
       Has never fails; Set is refused only with the collision-limit error, only for absent keys,
       exactly when the dictionary-level criterion [refused] holds *)
    Lemma map_rejects_exactly s k : (1 <= levels)%nat -> mwf s ->
      let d := to_list (m_root s) in
      (d_get d k = None <-> snd (fst (m_step s (OGet k))) = RErr EKeyNotFound) /\
      (d_get d k = None <-> snd (fst (m_step s (ORemove k))) = RErr EKeyNotFound) /\
      (snd (fst (m_step s (OHas k))) = RBool (match d_get d k with Some _ => true | None => false end)) /\
      (forall e, snd (fst (m_step s (OGet k))) = RErr e -> e = EKeyNotFound) /\
      (forall e, snd (fst (m_step s (ORemove k))) = RErr e -> e = EKeyNotFound).
    Proof.
      intros Hlv Hs d. rewrite !out_is_dict by assumption. fold d. cbn [d_step].
      destruct (d_get d k) as [p|]; cbn [snd]; repeat split; intros; try discriminate; try congruence.
    Qed.

    Lemma set_rejects_exactly s k v : (1 <= levels)%nat -> mwf s ->
      let d := to_list (m_root s) in
      (refused dg levels limit d (kid k) = true <-> snd (fst (m_step s (OSet k v))) = RErr ECollisionLimit) /\
      (forall e, snd (fst (m_step s (OSet k v))) = RErr e -> e = ECollisionLimit /\ d_get d (kid k) = None).
    Proof.
      intros Hlv Hs d. rewrite !out_is_dict by assumption. fold d. cbn [d_step].
      destruct (refused dg levels limit d (kid k)) eqn:R; cbn [snd]; split; try (split; congruence).
      - intros e H. split; [congruence|]. unfold refused in R. destruct (d_get d (kid k)); [discriminate|reflexivity].
    Qed.

    (* hence on well-formed maps every error is an argument error *)
    Lemma map_errors_are_argument_errors s o e : (1 <= levels)%nat -> mwf s ->
      snd (fst (m_step s o)) = RErr e -> merr_is_argument e = true.
    Proof.
      intros Hlv Hs. rewrite out_is_dict by assumption.
      destruct o as [k v|k|k|k| | | |]; cbn [d_step].
      - destruct (refused _ _ _ _ _); cbn; intros H; [injection H as <-; reflexivity|discriminate].
      - destruct (d_get _ _); cbn; intros H; [discriminate|injection H as <-; reflexivity].
      - destruct (d_get _ _); cbn; discriminate.
      - destruct (d_get _ _); cbn; intros H; [discriminate|injection H as <-; reflexivity].
      - cbn. discriminate.
      - cbn. discriminate.
      - cbn. discriminate.
      - cbn. discriminate.
    Qed.

    Lemma map_history ops : forall s,
      m_run_full s (m_filter s ops) =
      let '(s1, xs, lg) := m_run_full s ops in (s1, filter (fun x => negb (m_rejected x)) xs, lg).
    Proof.
      induction ops as [|o r IH]; intros s; [reflexivity|].
      cbn [MapHist.m_run_full MapHist.m_filter].
      pose proof (map_no_trace s o) as NT.
      destruct (m_step s o) as [[s1 x] l] eqn:E. cbn [fst snd] in NT.
      specialize (IH s1). destruct (m_run_full s1 r) as [[s2 xs] lg].
      cbn [filter]. destruct (m_rejected x) eqn:R; cbn [negb].
      - destruct x; try discriminate R. destruct (NT _ eq_refl) as [-> ->]. rewrite IH. reflexivity.
      - cbn [MapHist.m_run_full]. rewrite E, IH. reflexivity.
    Qed.
  End elems.
End Mp.

(* ====================================================================== *)
(* 4. storage: the undefined identifier                                   *)
(* ====================================================================== *)

Module Sto.
  Import Storage.

  Lemma undefined_rejected s i v : is_undefined i = true ->
    step s (SStore i v) = (s, OErrSlabID) /\ step s (SRemove i) = (s, OErrSlabID).
  Proof. intros H. cbn [step]. rewrite H. auto. Qed.

  Lemma defined_accepted s i v : is_undefined i = false ->
    snd (step s (SStore i v)) = OOk /\ snd (step s (SRemove i)) = OOk.
  Proof. intros H. cbn [step]. rewrite H. auto. Qed.

  (* the slab-identifier error is raised for nothing else, and never changes the state *)
  Lemma slabid_error_only_undefined s o : snd (step s o) = OErrSlabID ->
    fst (step s o) = s /\ exists i, is_undefined i = true /\ (o = SRemove i \/ exists v, o = SStore i v).
  Proof.
    destruct o; cbn [step]; try (cbn; discriminate).
    - destruct (is_undefined i) eqn:U; cbn; [|discriminate]. intros _. split; [reflexivity|]. exists i. eauto.
    - destruct (is_undefined i) eqn:U; cbn; [|discriminate]. intros _. split; [reflexivity|]. exists i. eauto.
    - destruct (retrieve s i). cbn. discriminate.
    - destruct (retrieve_ignoring_deltas s i c). cbn. discriminate.
    - destruct (fast_commit s fail) as [[? ?] ?]. cbn. discriminate.
    - destruct (nondet_commit s order fail) as [[[? ?] ?]|]; cbn; discriminate.
  Qed.
End Sto.
