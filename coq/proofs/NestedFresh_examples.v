(* NestedFresh_examples.v — concrete forests for C10_fresh: non-vacuity of the hypotheses of the
   re-handle theorems, an index map whose representation changes, and why OFresh alone is not an
   operation of the history language (it breaks the invariant: lost update). *)
From Coq Require Import ZArith NArith List Bool Lia Arith.
From AtreeGen Require Import Consts.
From AtreeModel Require Import Nested NestedErr NestedFresh.
From AtreeProofs Require Import Nested_base Nested_resync Nested_proofs Nested_steps Nested_examples NestedFresh_proofs.
Import ListNotations.
Local Open Scope N_scope.

(* array 1 = [Some(array 2 = [10]), map 3 = {7: 11}]; 3 was inserted first, then 2 in front of it *)
Definition ops1 : list nop :=
  [ONew 1 KArr; ONew 2 KArr; ONew 3 KMap; OArrInsert 2 0 (sc 10); OMapSet 3 7 3 (sc 11);
   OArrInsert 1 0 (NChild 3 0); OArrInsert 1 0 (NChild 2 1); OCommit].
Definition fx : forest := fst (run 8 cfg1024 empty_forest ops1).

Ltac no_such_edge E :=
  let c := fresh "c" in let Hin := fresh "Hin" in let Hs := fresh "Hs" in let Hv := fresh "Hv" in
  destruct (edge_In2 _ _ _ _ _ _ E) as (c & Hin & Hs & Hv); vm_compute in Hin;
  repeat (destruct Hin as [Hin|Hin]); try contradiction;
  injection Hin as <- <-; cbn in Hs;
  repeat (destruct Hs as [Hs|Hs]); try contradiction;
  subst; cbn in Hv; discriminate.

Lemma reach_fx : reach 8 cfg1024 fx.
Proof.
  unfold fx, ops1. assert (H : reach 8 cfg1024 empty_forest) by constructor.
  reach_step ltac:(vm_compute; reflexivity).
  reach_step ltac:(vm_compute; reflexivity).
  reach_step ltac:(vm_compute; reflexivity).
  reach_step ltac:(ok_scalar_insert).
  reach_step ltac:(split; [eexists; split; [vm_compute; reflexivity|reflexivity]|exact I]).
  reach_step ltac:(idtac).
  { split; [eexists; split; [vm_compute; reflexivity|split; [reflexivity|cbn; lia]]|].
    split; [eexists; vm_compute; reflexivity|]. split.
    - intros (p & i & s & w & E). no_such_edge E.
    - exists (fun v => if v =? 1 then 0%nat else 1%nat). split; [|split].
      + intros x i s v' w' E. no_such_edge E.
      + cbn. lia.
      + intros x. destruct (x =? 1); lia. }
  reach_step ltac:(idtac).
  { split; [eexists; split; [vm_compute; reflexivity|split; [reflexivity|cbn; lia]]|].
    split; [eexists; vm_compute; reflexivity|]. split.
    - intros (p & i & s & w & E). no_such_edge E.
    - exists (fun v => if v =? 1 then 0%nat else 1%nat). split; [|split].
      + intros x i s v' w' E. edge_enum E. cbn. lia.
      + cbn. lia.
      + intros x. destruct (x =? 1); lia. }
  reach_step ltac:(exact I).
  exact H.
Qed.

Lemma fwf_fx : fwf 8 cfg1024 fx.
Proof. apply C10_reachable_l; [lia|apply reach_fx]. Qed.

Lemma not_attached_root n g f v c : fwf n g f -> fget f v = Some c -> c_upd c = None -> ~ attached f v.
Proof.
  intros Hwf Hc Hu (p & i & s & w & E).
  destruct (hooked_edge n g f (proj1 Hwf) _ _ _ _ _ E) as (c0 & cv & _ & _ & Hcv & Hu' & _). congruence.
Qed.

Lemma hop_ok_fx_root : hop_ok 8 fx (HRehandle 1 None).
Proof.
  split; [eexists; vm_compute; reflexivity|].
  eapply (not_attached_root 8 cfg1024 fx 1); [exact fwf_fx|vm_compute; reflexivity|reflexivity].
Qed.

Lemma hop_ok_f0_child : hop_ok 8 f0 (HRehandle 2 (Some (1, 0))).
Proof.
  split; [eexists; vm_compute; reflexivity|].
  exists 0%nat, (mkSlot 0 0 (NChild 2 0)), 0. eexists. split; [exact edge_f0|]. split; [vm_compute; reflexivity|reflexivity].
Qed.

(* reopen of fx: the ops emitted, the result, and what changed: the association list of the index
   map of array 1 is [(3,1);(2,0)] before and [(2,0);(3,1)] after *)
Lemma rehandle_fx :
  rehandle_ops 8 fx 1 None = [OFresh 1; OFresh 2; OGet 1 0; OFresh 3; OGet 1 1] /\
  snd (hstep 8 cfg1024 fx (HRehandle 1 None)) = true /\
  option_map c_idx (fget fx 1) = Some [(3, 1%nat); (2, 0%nat)] /\
  option_map c_idx (fget (fst (hstep 8 cfg1024 fx (HRehandle 1 None))) 1) = Some [(2, 0%nat); (3, 1%nat)] /\
  fst (hstep 8 cfg1024 fx (HRehandle 1 None)) <> fx.
Proof.
  repeat split. intros H.
  assert (E : option_map c_idx (fget (fst (hstep 8 cfg1024 fx (HRehandle 1 None))) 1) = option_map c_idx (fget fx 1)) by now rewrite H.
  vm_compute in E. discriminate.
Qed.

(* the wrapper of the child re-obtained from an iterator over f0, then used *)
Lemma rehandle_f0 :
  rehandle_ops 8 f0 2 (Some (1, 0)) = [OFresh 2; OGet 1 0] /\
  hstep 8 cfg1024 f0 (HRehandle 2 (Some (1, 0))) = (f0, true).
Proof. split; reflexivity. Qed.

(* OFresh alone: the new wrapper of the attached child has no callback, the invariant is broken,
   and an insert through it is a lost update: the parent's cached size stays 35 (its data is 38
   bytes now) and no slab is in the write set *)
Lemma fresh_alone :
  let f1 := fst (step 8 cfg1024 f0 (OFresh 2)) in
  ~ fwf 8 cfg1024 f1 /\
  (let f' := fst (child_step 8 cfg1024 f1 2 (CInsert 5 (sc 15))) in
   option_map (fun c => length (c_slots c)) (fget f' 2) = Some 6%nat /\
   option_map c_csize (fget f' 1) = Some 35 /\ dirty f' 1 = None /\ dirty f' 2 = None /\
   option_map (fun c => data_size cfg1024 f' (c_kind c) (c_slots c)) (fget f' 1) = Some 38).
Proof.
  cbv zeta. split; [|vm_compute; repeat split].
  intros (HS & _).
  pose proof (st_hooked _ _ _ HS 1) as H.
  specialize (H _ 0%nat (mkSlot 0 0 (NChild 2 0)) 2 0 ltac:(vm_compute; reflexivity) eq_refl eq_refl).
  destruct H as (cv & Hcv & Hu & _). vm_compute in Hcv. injection Hcv as <-. discriminate Hu.
Qed.
