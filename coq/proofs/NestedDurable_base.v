(* NestedDurable_base.v — lookup lemmas for [flatten] / [commit_ledger], the closure relation [ianc],
   extensionality of [flat], the round trip [load (flatten f) = unfold f]. *)
From Coq Require Import ZArith NArith List Bool Lia Arith.
From AtreeGen Require Import Consts.
From AtreeModel Require Import Nested NestedDurable.
From AtreeProofs Require Import Nested_base Nested_resync Nested_chain.
Import ListNotations.
Local Open Scope N_scope.

(* ---------- association lists ---------- *)
Lemma aget_none_existsb {A} (l : list (N * A)) v :
  existsb (fun p : N * A => fst p =? v) l = false -> aget l v = None.
Proof.
  induction l as [|[k x] r IH]; cbn; auto.
  destruct (k =? v); cbn; [discriminate|auto].
Qed.

Lemma aget_flatten n f v : aget (flatten n f) v = flat n f v.
Proof.
  unfold flatten.
  set (G := fun p : N * cstate => match flat n f (fst p) with Some r => [(fst p, r)] | None => [] end).
  assert (H : forall l, aget (flat_map G l) v =
                        if existsb (fun p : N * cstate => fst p =? v) l then flat n f v else None).
  { induction l as [|[k c] r IH]; cbn [flat_map existsb]; auto.
    unfold G at 1. cbn [fst]. destruct (N.eqb_spec k v) as [->|Hne]; cbn [orb].
    - destruct (flat n f v) as [r0|] eqn:E; cbn [app aget].
      + now rewrite N.eqb_refl.
      + rewrite IH. destruct (existsb _ r); auto.
    - destruct (flat n f k) as [r0|]; cbn [app aget]; auto.
      destruct (N.eqb_spec k v); [congruence|auto]. }
  rewrite H. destruct (existsb _ (f_cs f)) eqn:E; auto.
  unfold flat, fget. now rewrite (aget_none_existsb _ _ E).
Qed.

Lemma lookup_flatten n f v : lookup (flatten n f) v = flat n f v.
Proof. apply aget_flatten. Qed.

Definition commit_val n f (led : ledger) v : option reg :=
  match dirty f v with
  | Some true => match embed n f v with Some r => Some r | None => aget led v end
  | Some false => None
  | None => aget led v
  end.

Lemma lookup_commit n f led v :
  lookup (commit_ledger n f led) v =
  match dirty f v with
  | Some true => match embed n f v with Some r => Some r | None => lookup led v end
  | Some false => None
  | None => lookup led v
  end.
Proof.
  unfold commit_ledger, lookup. change (aget (fold_right (fun vb acc => wr n f (fst vb) acc) led (f_log f)) v = commit_val n f led v).
  assert (H : forall l, aget (fold_right (fun vb acc => wr n f (fst vb) acc) led l) v =
                        if existsb (fun p : N * bool => fst p =? v) l then commit_val n f led v else aget led v).
  { induction l as [|[k b] r IH]; cbn [fold_right existsb fst]; auto.
    set (acc := fold_right (fun vb acc => wr n f (fst vb) acc) led r) in *.
    unfold wr. destruct (N.eqb_spec k v) as [->|Hne]; cbn [orb].
    - destruct (dirty f v) as [[|]|] eqn:Ed.
      + destruct (embed n f v) as [r0|] eqn:Ee.
        * unfold commit_val. rewrite Ed, Ee. apply aget_aset_eq.
        * rewrite IH. destruct (existsb _ r); auto. unfold commit_val. now rewrite Ed, Ee.
      + unfold commit_val. rewrite Ed. apply aget_adel_eq.
      + rewrite IH. destruct (existsb _ r); auto. unfold commit_val. now rewrite Ed.
    - destruct (dirty f k) as [[|]|]; auto.
      + destruct (embed n f k); auto. now rewrite aget_aset_ne.
      + now rewrite aget_adel_ne. }
  rewrite H. destruct (existsb _ (f_log f)) eqn:E; auto.
  unfold commit_val, dirty. now rewrite (aget_none_existsb _ _ E).
Qed.

(* ---------- flags ---------- *)
Lemma flag_stored f v : stored f v <-> flag f v = Some false.
Proof.
  unfold stored, flag. split.
  - intros (c & -> & Hi). cbn. now rewrite Hi.
  - destruct (fget f v) as [c|]; cbn; [|discriminate]. intros [= H]. eauto.
Qed.
Lemma flag_inlined f v : inlined f v <-> flag f v = Some true.
Proof.
  unfold inlined, flag. split.
  - intros (c & -> & Hi). cbn. now rewrite Hi.
  - destruct (fget f v) as [c|]; cbn; [|discriminate]. intros [= H]. eauto.
Qed.
Lemma stored_not_inlined f v : stored f v -> inlined f v -> False.
Proof. intros (c & Hc & Hi) (c' & Hc' & Hi'). congruence. Qed.
Lemma flag_get f f' v : fget f' v = fget f v -> flag f' v = flag f v.
Proof. unfold flag. now intros ->. Qed.

(* ---------- the closure ---------- *)
Lemma ianc_top f x i s v w y : edge f x i s v w -> inlined f v -> ianc f v y -> ianc f x y.
Proof.
  intros E Hi A. induction A.
  - econstructor; eauto. constructor.
  - econstructor; eauto.
Qed.

Lemma ianc_anc f x y : ianc f x y -> anc f x y.
Proof. intros A. induction A; [constructor|econstructor; eauto]. Qed.

Lemma ianc_stored_eq f x y : ianc f x y -> stored f y -> x = y.
Proof. intros A Hs. destruct A; auto. exfalso. eapply stored_not_inlined; eauto. Qed.

Lemma ianc_unique n g f x x' y :
  fstruct n g f -> ianc f x y -> ianc f x' y -> stored f x -> stored f x' -> x = x'.
Proof.
  intros HS A. revert x'. induction A as [x|x p i s t w E Hi A IH]; intros x' A' Hs Hs'.
  - symmetry. eapply ianc_stored_eq; eauto.
  - inversion A' as [|? p' i' s' ? w' E' Hi' A'']; subst.
    + exfalso. eapply stored_not_inlined; eauto.
    + destruct (edge_unique _ _ _ HS _ _ _ _ _ _ _ _ _ E E') as (-> & _). auto.
Qed.

(* the closure only reads edges and inlined flags on the way *)
Lemma ianc_transport f f' x y :
  (forall z p i s w, anc f z y -> edge f p i s z w -> edge f' p i s z w) ->
  (forall z, anc f z y -> inlined f z -> inlined f' z) ->
  ianc f x y -> ianc f' x y.
Proof.
  intros He Hi A. induction A as [x|x p i s t w E Hit A IH]; [constructor|].
  econstructor.
  - eapply He; eauto. constructor.
  - apply Hi; auto. constructor.
  - apply IH.
    + intros z p0 i0 s0 w0 Az. apply He. econstructor; eauto.
    + intros z Az. apply Hi. econstructor; eauto.
Qed.

(* ---------- extensionality of the register content ---------- *)
Definition vsame (f f' : forest) (y : N) : Prop :=
  match fget f y, fget f' y with
  | Some c, Some c' => c_kind c = c_kind c' /\ c_slots c = c_slots c'
  | None, None => True
  | _, _ => False
  end.

(* nothing a reader of register x sees has changed *)
Definition cl_ok (f f' : forest) (x : N) : Prop :=
  forall y, ianc f x y -> vsame f f' y /\ forall i s c w, edge f y i s c w -> flag f c = flag f' c.

Lemma tslots_ext f f' : forall k x c,
  cl_ok f f' x -> fget f x = Some c -> tslots k f' (c_slots c) = tslots k f (c_slots c).
Proof.
  induction k as [|k IH]; intros x c Hcl Hc; unfold tslots; apply map_ext_in; intros s Hin;
    (destruct (s_val s) as [id sz|v w] eqn:Ev; [reflexivity|]);
    destruct (In_nth_error _ _ Hin) as (i & Hn);
    assert (E : edge f x i s v w) by (exists c; auto);
    destruct (Hcl x (ia_refl f x)) as (_ & Hfl); specialize (Hfl _ _ _ _ E);
    cbn [tv]; unfold flag in Hfl;
    destruct (fget f v) as [cv|] eqn:Ecv, (fget f' v) as [cv'|] eqn:Ecv'; cbn in Hfl; try discriminate; auto;
    injection Hfl as Hfl; rewrite <- Hfl; destruct (c_inl cv) eqn:Ei; auto;
    assert (Hiv : inlined f v) by (exists cv; auto);
    assert (Av : ianc f x v) by (econstructor; eauto; constructor);
    destruct (Hcl v Av) as (Hvs & _); unfold vsame in Hvs; rewrite Ecv, Ecv' in Hvs; destruct Hvs as (Hk & Hsl);
    rewrite <- Hk; do 2 f_equal.
  rewrite <- Hsl. apply (IH v cv); auto.
  intros y Ay. apply Hcl. eapply ianc_top; eauto.
Qed.

Lemma flat_ext n f f' x : cl_ok f f' x -> flag f x = flag f' x -> flat n f' x = flat n f x.
Proof.
  intros Hcl Hfl. unfold flat. destruct (Hcl x (ia_refl f x)) as (Hvs & _). unfold vsame in Hvs. unfold flag in Hfl.
  destruct (fget f x) as [c|] eqn:Ec, (fget f' x) as [c'|] eqn:Ec'; cbn in Hfl; try contradiction; auto.
  injection Hfl as Hfl. destruct Hvs as (Hk & Hsl). rewrite <- Hfl, <- Hk, <- Hsl.
  destruct (c_inl c); auto. f_equal. f_equal. eapply tslots_ext; eauto.
Qed.

(* a forest with the same containers (up to caches, callbacks and index maps) has the same registers *)
Lemma flat_same_views n f f' :
  (forall y, vsame f f' y /\ flag f y = flag f' y) -> forall x, flat n f' x = flat n f x.
Proof.
  intros H x. apply flat_ext; [|apply H]. intros y _. split; [apply H|]. intros. apply H.
Qed.

(* ---------- round trip ---------- *)
Lemma omap_map {A B C} (h : B -> option C) (g1 : A -> B) (g2 : A -> C) (l : list A) :
  (forall x, In x l -> h (g1 x) = Some (g2 x)) -> omap h (map g1 l) = Some (map g2 l).
Proof.
  induction l as [|x r IH]; intros H; cbn; auto.
  rewrite (H x) by now left. rewrite IH; auto. intros. apply H. now right.
Qed.

Section roundtrip.
  Variables (n : nat) (g : ncfg) (f : forest).
  Hypothesis HS : fstruct n g f.
  Variable lvl : N -> nat.
  Hypothesis Hl : forall p i s v w, edge f p i s v w -> (lvl p < lvl v)%nat.
  Hypothesis Hb : forall v, (lvl v < n)%nat.
  Let R := lookup (flatten n f).

  Lemma expand_tv : forall k j p c i s,
    fget f p = Some c -> nth_error (c_slots c) i = Some s ->
    (n <= k + S (lvl p))%nat -> (n <= j + S (lvl p))%nat ->
    expand k R (tv j f (s_val s)) = Some (unf k f (s_val s)).
  Proof.
    induction k as [|k IH]; intros j p c i s Hc Hn Hk Hj.
    - destruct (s_val s) as [id sz|v w] eqn:Ev; [destruct j; reflexivity|].
      assert (E : edge f p i s v w) by (exists c; auto).
      pose proof (Hl _ _ _ _ _ E). pose proof (Hb v). lia.
    - destruct (s_val s) as [id sz|v w] eqn:Ev; [destruct j; reflexivity|].
      assert (E : edge f p i s v w) by (exists c; auto).
      pose proof (Hl _ _ _ _ _ E) as Hlv.
      destruct (st_hooked _ _ _ HS p c i s v w Hc Hn Ev) as (cv & Hcv & _).
      assert (Hsub : forall j', (n <= j' + S (lvl v))%nat ->
                omap (on_slot (expand k R)) (tslots j' f (c_slots cv)) = Some (uslots k f (c_slots cv))).
      { intros j' Hj'. unfold tslots, uslots. apply omap_map. intros s1 Hin. unfold on_slot. cbn [fst snd].
        destruct (In_nth_error _ _ Hin) as (i1 & Hn1).
        rewrite (IH j' v cv i1 s1 Hcv Hn1); auto. lia. }
      destruct j as [|j]; [pose proof (Hb v); lia|].
      cbn [tv unf]. rewrite Hcv. destruct (c_inl cv) eqn:Ei.
      + cbn [expand]. fold (tslots j f (c_slots cv)). rewrite Hsub by lia. reflexivity.
      + cbn [expand]. unfold R at 1. rewrite lookup_flatten. unfold flat. rewrite Hcv, Ei.
        rewrite Hsub by (pose proof (Hb v); lia). reflexivity.
  Qed.

  Lemma load_flatten_l r : stored f r -> load n R r = unfold n f r.
  Proof.
    intros (c & Hc & Hi). unfold load, unfold, R. rewrite lookup_flatten. unfold flat. rewrite Hc, Hi.
    fold R. unfold tslots, uslots. erewrite omap_map; [reflexivity|].
    intros s Hin. unfold on_slot. cbn [fst snd]. destruct (In_nth_error _ _ Hin) as (i & Hn).
    rewrite (expand_tv n n r c i s Hc Hn); auto; lia.
  Qed.
End roundtrip.

Lemma load_flatten n g f r : fstruct n g f -> stored f r -> load n (lookup (flatten n f)) r = unfold n f r.
Proof.
  intros HS Hs. destruct (st_ranked _ _ _ HS) as (lvl & Hl & Hb). eapply load_flatten_l; eauto.
Qed.

(* the reader only depends on the registers it visits; in particular on the ledger as a function *)
Lemma expand_ext R R' : (forall v, R v = R' v) -> forall k t, expand k R t = expand k R' t.
Proof.
  intros H. induction k as [|k IH]; intros t; destruct t; cbn [expand]; auto.
  - rewrite <- H. destruct (R v) as [[kd l]|]; auto. f_equal.
    induction l as [|[[a b] t] r IHl]; cbn; auto. unfold on_slot at 1 3. cbn. rewrite IH, IHl. reflexivity.
  - f_equal. induction l as [|[[a b] t] r IHl]; cbn; auto. unfold on_slot at 1 3. cbn. rewrite IH, IHl. reflexivity.
Qed.

Lemma load_ext R R' k r : (forall v, R v = R' v) -> load k R r = load k R' r.
Proof.
  intros H. unfold load. rewrite <- H. destruct (R r) as [[kd l]|]; auto. f_equal.
  induction l as [|[[a b] t] r0 IHl]; cbn; auto. unfold on_slot at 1 3. cbn.
  rewrite (expand_ext R R' H), IHl. reflexivity.
Qed.

(* attached containers are decidable through the callback (fstruct: callback and slot agree) *)
Lemma parent_of_none n g f v : fstruct n g f -> parent_of f v = None -> ~ attached f v.
Proof.
  intros HS Hp (p & i & s & w & E).
  destruct (hooked_edge _ _ _ HS _ _ _ _ _ E) as (c & cv & Hc & Hn & Hcv & Hu & _).
  destruct (hooked_lookup _ _ _ HS _ _ _ _ _ _ _ E Hc Hcv) as (u & Hu' & Heq & Hfc).
  unfold parent_of in Hp. rewrite Hcv, Hu' in Hp.
  assert (Hup : u_par u = p) by (rewrite Heq; reflexivity). rewrite Hup, Hc, Hfc in Hp. discriminate.
Qed.

