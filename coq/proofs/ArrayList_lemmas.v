(* ArrayList_lemmas.v — list algebra used by the array-tree proofs: positional update functions of
   ArrayTree.v ([replace_nth], [insert_nth], [remove_nth], [nth_N], [on_kth]) against [app], [map],
   [nth_error]; the byte/count sums [sum_sz], [sum_cnt]; running sums [psums]. *)
From Coq Require Import ZArith NArith List Bool Lia ZifyBool ZifyN ZifyNat.
From AtreeGen Require Import Consts.
From AtreeModel Require Import Settings ArrayTree.
Import ListNotations.
Local Open Scope N_scope.
Ltac Zify.zify_post_hook ::= Z.div_mod_to_equations.

(** * on_kth *)
Lemma on_kth_spec {A B} (f : A -> B) l k : on_kth f l k = option_map f (nth_error l k).
Proof. revert k; induction l as [|a r IH]; intros [|k]; cbn; auto. Qed.

(** * sums *)
Lemma sum_sz_app a b : sum_sz (a ++ b) = sum_sz a + sum_sz b.
Proof. induction a as [|x a IH]; cbn [app sum_sz]; lia. Qed.
Lemma sum_sz_rev a : sum_sz (rev a) = sum_sz a.
Proof. induction a as [|x a IH]; cbn [rev sum_sz]; [reflexivity|]. rewrite sum_sz_app; cbn [sum_sz]; lia. Qed.
Lemma sum_cnt_app a b : sum_cnt (a ++ b) = sum_cnt a + sum_cnt b.
Proof. induction a as [|x a IH]; cbn [app sum_cnt]; lia. Qed.
Lemma sum_sz_firstn_skipn k l : sum_sz (firstn k l) + sum_sz (skipn k l) = sum_sz l.
Proof. rewrite <- sum_sz_app, firstn_skipn. reflexivity. Qed.
Lemma sum_cnt_firstn_skipn k l : sum_cnt (firstn k l) + sum_cnt (skipn k l) = sum_cnt l.
Proof. rewrite <- sum_cnt_app, firstn_skipn. reflexivity. Qed.

(** * psums *)
Lemma psums_length b l : length (psums b l) = length l.
Proof. revert b; induction l as [|h r IH]; intros b; cbn [psums length]; auto. Qed.
Lemma psums_app b l1 l2 : psums b (l1 ++ l2) = psums b l1 ++ psums (b + sum_cnt l1) l2.
Proof.
  revert b; induction l1 as [|h r IH]; intros b; cbn [app psums sum_cnt].
  - f_equal. lia.
  - f_equal. rewrite IH. f_equal. f_equal. lia.
Qed.
Lemma last_default_irrel {A} (l : list A) d d' : l <> [] -> last l d = last l d'.
Proof.
  induction l as [|a r IH]; intros H; [congruence|]. destruct r as [|b r]; [reflexivity|].
  cbn [last]. apply IH. discriminate.
Qed.
Lemma psums_last_ne l : forall b d, l <> [] -> last (psums b l) d = b + sum_cnt l.
Proof.
  induction l as [|h r IH]; intros b d Hne; [congruence|].
  destruct r as [|h2 r].
  - cbn. lia.
  - specialize (IH (b + h_count h) d ltac:(discriminate)).
    cbn [psums sum_cnt] in *. cbn [last] in *. rewrite IH. lia.
Qed.
Lemma psums_last b l : last (psums b l) b = b + sum_cnt l.
Proof. destruct l as [|h r]; [cbn; lia|]. apply psums_last_ne. discriminate. Qed.
Lemma psums_last0 l : last (psums 0 l) 0 = sum_cnt l.
Proof. rewrite psums_last. lia. Qed.
Lemma psums_firstn k b l : firstn k (psums b l) = psums b (firstn k l).
Proof.
  revert b l; induction k as [|k IH]; intros b [|h r]; cbn [firstn psums]; auto. f_equal. apply IH.
Qed.
Lemma psums_cons_app b pre x post :
  psums b (pre ++ x :: post) =
  psums b pre ++ (b + sum_cnt pre + h_count x) :: psums (b + sum_cnt pre + h_count x) post.
Proof. rewrite psums_app. cbn [psums]. reflexivity. Qed.
Lemma psums_map_incr b l : map (fun s => s + 1) (psums b l) = psums (b + 1) l.
Proof.
  revert b; induction l as [|h r IH]; intros b; cbn [psums map]; [reflexivity|].
  rewrite IH. f_equal; [lia|]. f_equal. lia.
Qed.
Lemma psums_map_decr b l : map (fun s => s - 1) (psums (b + 1) l) = psums b l.
Proof.
  revert b; induction l as [|h r IH]; intros b; cbn [psums map]; [reflexivity|].
  replace (b + 1 + h_count h) with (b + h_count h + 1) by lia.
  rewrite IH. f_equal. lia.
Qed.
Lemma psums_nth b l t : (t < length l)%nat -> nth t (psums b l) 0 = b + sum_cnt (firstn (S t) l).
Proof.
  revert b t; induction l as [|h r IH]; intros b t Ht; cbn [length] in Ht; [lia|].
  destruct t as [|t]; cbn [psums nth firstn sum_cnt].
  - lia.
  - rewrite IH by lia. cbn [firstn sum_cnt]. lia.
Qed.
Lemma psums_nth_error b l t s : nth_error (psums b l) t = Some s ->
  (t < length l)%nat /\ s = b + sum_cnt (firstn (S t) l).
Proof.
  intros H. assert (Ht : (t < length l)%nat).
  { rewrite <- (psums_length b). apply nth_error_Some. congruence. }
  split; [exact Ht|]. rewrite <- psums_nth by exact Ht.
  symmetry. apply nth_error_nth. exact H.
Qed.

(** * replace / insert / remove against a decomposition *)
Section upd.
Context {A : Type}.
Implicit Types (l pre post a b c : list A).

Lemma replace_nth_length k x l : length (replace_nth k x l) = length l.
Proof. revert k; induction l as [|a r IH]; intros [|k]; cbn [replace_nth length]; auto. Qed.
Lemma replace_nth_app_len pre y post x :
  replace_nth (length pre) x (pre ++ y :: post) = pre ++ x :: post.
Proof. induction pre as [|a r IH]; cbn [length app replace_nth]; [reflexivity|]. f_equal. exact IH. Qed.
Lemma insert_nth_app_len pre post x :
  insert_nth (length pre) x (pre ++ post) = pre ++ x :: post.
Proof. induction pre as [|a r IH]; cbn [length app insert_nth]; [destruct post; reflexivity|]. f_equal. exact IH. Qed.
Lemma insert_nth_app_S pre y post x :
  insert_nth (S (length pre)) x (pre ++ y :: post) = pre ++ y :: x :: post.
Proof.
  change (y :: post) with ([y] ++ post). rewrite app_assoc.
  replace (S (length pre)) with (length (pre ++ [y])) by (rewrite app_length; cbn; lia).
  rewrite insert_nth_app_len. rewrite <- app_assoc. reflexivity.
Qed.
Lemma remove_nth_app_len pre y post :
  remove_nth (length pre) (pre ++ y :: post) = pre ++ post.
Proof. induction pre as [|a r IH]; cbn [length app remove_nth]; [reflexivity|]. f_equal. exact IH. Qed.
Lemma remove_nth_app_S pre y z post :
  remove_nth (S (length pre)) (pre ++ y :: z :: post) = pre ++ y :: post.
Proof.
  change (y :: z :: post) with ([y] ++ z :: post). rewrite app_assoc.
  replace (S (length pre)) with (length (pre ++ [y])) by (rewrite app_length; cbn; lia).
  rewrite remove_nth_app_len. rewrite <- app_assoc. reflexivity.
Qed.

(* shifting an update into the middle block of  a ++ b ++ c *)
Lemma replace_nth_mid a b c j x : (j < length b)%nat ->
  replace_nth (length a + j) x (a ++ b ++ c) = a ++ replace_nth j x b ++ c.
Proof.
  intros Hj. induction a as [|y a IH]; cbn [length app replace_nth Nat.add].
  - revert j Hj; induction b as [|z b IHb]; intros j Hj; cbn [length] in Hj; [lia|].
    destruct j as [|j]; cbn [app replace_nth]; [reflexivity|]. f_equal. apply IHb. lia.
  - f_equal. exact IH.
Qed.
Lemma remove_nth_mid a b c j : (j < length b)%nat ->
  remove_nth (length a + j) (a ++ b ++ c) = a ++ remove_nth j b ++ c.
Proof.
  intros Hj. induction a as [|y a IH]; cbn [length app remove_nth Nat.add].
  - revert j Hj; induction b as [|z b IHb]; intros j Hj; cbn [length] in Hj; [lia|].
    destruct j as [|j]; cbn [app remove_nth]; [reflexivity|]. f_equal. apply IHb. lia.
  - f_equal. exact IH.
Qed.
Lemma insert_nth_mid a b c j x : (j <= length b)%nat ->
  insert_nth (length a + j) x (a ++ b ++ c) = a ++ insert_nth j x b ++ c.
Proof.
  intros Hj. induction a as [|y a IH]; cbn [length app Nat.add].
  - revert j Hj; induction b as [|z b IHb]; intros j Hj; cbn [length] in Hj.
    + assert (j = 0)%nat by lia. subst j. cbn. reflexivity.
    + destruct j as [|j]; cbn [app insert_nth]; [reflexivity|]. f_equal. apply IHb. lia.
  - cbn [insert_nth]. f_equal. exact IH.
Qed.
Lemma nth_error_mid a b c j : (j < length b)%nat ->
  nth_error (a ++ b ++ c) (length a + j) = nth_error b j.
Proof.
  intros Hj. rewrite nth_error_app2 by lia. replace (length a + j - length a)%nat with j by lia.
  apply nth_error_app1. exact Hj.
Qed.

Lemma insert_nth_end l x : insert_nth (length l) x l = l ++ [x].
Proof. induction l as [|a r IH]; cbn [length insert_nth app]; [reflexivity|]. f_equal. exact IH. Qed.

Lemma insert_nth_length k x l : (k <= length l)%nat -> length (insert_nth k x l) = S (length l).
Proof.
  revert l; induction k as [|k IH]; intros l Hk; [reflexivity|].
  destruct l as [|a r]; cbn [length] in Hk; [lia|]. cbn [insert_nth length]. f_equal. apply IH. lia.
Qed.
Lemma remove_nth_length k l : (k < length l)%nat -> S (length (remove_nth k l)) = length l.
Proof.
  revert k; induction l as [|a r IH]; intros k Hk; cbn [length] in Hk; [lia|].
  destruct k as [|k]; cbn [remove_nth length]; [reflexivity|]. f_equal. apply IH. lia.
Qed.

Lemma Forall_replace_nth (Q : A -> Prop) k x l : Forall Q l -> Q x -> Forall Q (replace_nth k x l).
Proof.
  intros H Hx. revert k; induction H as [|a r Ha Hr IH]; intros [|k]; cbn [replace_nth]; auto.
Qed.
Lemma Forall_insert_nth (Q : A -> Prop) k x l : Forall Q l -> Q x -> Forall Q (insert_nth k x l).
Proof.
  intros H Hx. revert l H; induction k as [|k IH]; intros l H; cbn [insert_nth]; [auto|].
  destruct H; auto.
Qed.
Lemma Forall_remove_nth (Q : A -> Prop) k l : Forall Q l -> Forall Q (remove_nth k l).
Proof.
  intros H. revert k; induction H as [|a r Ha Hr IH]; intros [|k]; cbn [remove_nth]; auto.
Qed.
End upd.

Lemma replace_nth_map {A B} (f : A -> B) k x l : replace_nth k (f x) (map f l) = map f (replace_nth k x l).
Proof. revert k; induction l as [|a r IH]; intros [|k]; cbn [replace_nth map]; auto. f_equal. apply IH. Qed.
Lemma insert_nth_map {A B} (f : A -> B) k x l : insert_nth k (f x) (map f l) = map f (insert_nth k x l).
Proof.
  revert l; induction k as [|k IH]; intros l; [reflexivity|].
  destruct l as [|a r]; cbn [insert_nth map]; [reflexivity|]. f_equal. apply IH.
Qed.
Lemma remove_nth_map {A B} (f : A -> B) k l : remove_nth k (map f l) = map f (remove_nth k l).
Proof. revert k; induction l as [|a r IH]; intros [|k]; cbn [remove_nth map]; auto. f_equal. apply IH. Qed.

(** sizes under a positional update *)
Lemma sum_sz_replace_nth k x l old : nth_error l k = Some old ->
  sum_sz (replace_nth k x l) + e_sz old = sum_sz l + e_sz x.
Proof.
  revert k; induction l as [|a r IH]; intros [|k] H; cbn [nth_error] in H; try discriminate.
  - injection H as ->. cbn [replace_nth sum_sz]. lia.
  - cbn [replace_nth sum_sz]. specialize (IH k H). lia.
Qed.
Lemma sum_sz_insert_nth k x l : sum_sz (insert_nth k x l) = sum_sz l + e_sz x.
Proof.
  revert l; induction k as [|k IH]; intros l; cbn [insert_nth sum_sz]; [lia|].
  destruct l as [|a r]; cbn [sum_sz]; [lia|]. rewrite IH. lia.
Qed.
Lemma sum_sz_remove_nth k l old : nth_error l k = Some old ->
  sum_sz (remove_nth k l) + e_sz old = sum_sz l.
Proof.
  revert k; induction l as [|a r IH]; intros [|k] H; cbn [nth_error] in H; try discriminate.
  - injection H as ->. cbn [remove_nth sum_sz]. lia.
  - cbn [remove_nth sum_sz]. specialize (IH k H). lia.
Qed.

(** * nth_N *)
Lemma nth_N_Some {A} (l : list A) i x : nth_N l i = Some x ->
  i < N.of_nat (length l) /\ nth_error l (N.to_nat i) = Some x.
Proof. unfold nth_N. destruct (N.of_nat (length l) <=? i) eqn:H; [discriminate|]. intros ->. split; [lia|reflexivity]. Qed.
Lemma nth_N_None {A} (l : list A) i : nth_N l i = None -> N.of_nat (length l) <= i.
Proof.
  unfold nth_N. destruct (N.of_nat (length l) <=? i) eqn:H; [lia|].
  intros H1. apply nth_error_None in H1. lia.
Qed.
Lemma nth_N_lt {A} (l : list A) i : i < N.of_nat (length l) -> nth_N l i = nth_error l (N.to_nat i).
Proof. intros H. unfold nth_N. destruct (N.of_nat (length l) <=? i) eqn:H1; [lia|reflexivity]. Qed.
Lemma nth_N_ge {A} (l : list A) i : N.of_nat (length l) <= i -> nth_N l i = None.
Proof. intros H. unfold nth_N. destruct (N.of_nat (length l) <=? i) eqn:H1; [reflexivity|lia]. Qed.
Lemma nth_N_map {A B} (f : A -> B) l i : nth_N (map f l) i = option_map f (nth_N l i).
Proof.
  unfold nth_N. rewrite map_length. destruct (N.of_nat (length l) <=? i); [reflexivity|].
  apply nth_error_map.
Qed.

(** * misc *)
Lemma last_app_cons {A} (l : list A) x r d : last (l ++ x :: r) d = last (x :: r) d.
Proof.
  induction l as [|a l IH]; [reflexivity|]. cbn [app]. rewrite <- IH.
  destruct (l ++ x :: r) eqn:E; [destruct l; discriminate|reflexivity].
Qed.
Lemma last_app_nonempty {A} (l r : list A) d : r <> [] -> last (l ++ r) d = last r d.
Proof. destruct r as [|x r]; [congruence|]. intros _. apply last_app_cons. Qed.

Lemma flat_map_length_sum {A B} (f : A -> list B) (g : A -> N) l :
  Forall (fun a => N.of_nat (length (f a)) = g a) l ->
  N.of_nat (length (flat_map f l)) = fold_right (fun a s => g a + s) 0 l.
Proof.
  induction 1 as [|a r Ha Hr IH]; cbn [flat_map fold_right length]; [reflexivity|].
  rewrite app_length. lia.
Qed.

Lemma skipn_nonempty {A} k (l : list A) : (k < length l)%nat -> skipn k l <> [].
Proof. intros H E. pose proof (skipn_length k l) as HL. rewrite E in HL. cbn in HL. lia. Qed.

Lemma div2_half n : Nat.div2 n = (n / 2)%nat.
Proof. apply Nat.div2_div. Qed.

(** * variants with an explicit index equation *)
Section upd_k.
Context {A : Type}.
Implicit Types (l pre post : list A).
Lemma replace_nth_at k pre y post x : k = length pre ->
  replace_nth k x (pre ++ y :: post) = pre ++ x :: post.
Proof. intros ->. apply replace_nth_app_len. Qed.
Lemma insert_nth_at_S k pre y post x : k = length pre ->
  insert_nth (S k) x (pre ++ y :: post) = pre ++ y :: x :: post.
Proof. intros ->. apply insert_nth_app_S. Qed.
Lemma remove_nth_at_S k pre y z post : k = length pre ->
  remove_nth (S k) (pre ++ y :: z :: post) = pre ++ y :: post.
Proof. intros ->. apply remove_nth_app_S. Qed.
Lemma nth_error_at k pre y post : k = length pre -> nth_error (pre ++ y :: post) k = Some y.
Proof. intros ->. rewrite nth_error_app2, Nat.sub_diag by lia. reflexivity. Qed.
Lemma nth_error_at_S k pre y post : k = length pre -> nth_error (pre ++ y :: post) (S k) = nth_error post 0.
Proof. intros ->. induction pre as [|a r IH]; cbn [app length nth_error]; [reflexivity|exact IH]. Qed.
Lemma nth_at k pre y post d : k = length pre -> nth k (pre ++ y :: post) d = y.
Proof. intros ->. rewrite app_nth2, Nat.sub_diag by lia. reflexivity. Qed.
Lemma nth_at_S k pre y z post d : k = length pre -> nth (S k) (pre ++ y :: z :: post) d = z.
Proof. intros ->. induction pre as [|a r IH]; cbn [app length nth]; [reflexivity|exact IH]. Qed.
Lemma last_two pre a b post d : last (pre ++ a :: b :: post) d = last (b :: post) d.
Proof.
  change (a :: b :: post) with ([a] ++ b :: post). rewrite app_assoc. apply last_app_cons.
Qed.
End upd_k.

(** * the running sums under the three fix-ups of an index slab *)
Lemma psums_split_mid b hpre hx hl hr hpost k :
  k = length hpre -> h_count hl + h_count hr = h_count hx ->
  let sums := psums b (hpre ++ hx :: hpost) in
  let base := nth k sums 0 - h_count hx in
  insert_nth (S k) (base + h_count hl + h_count hr) (replace_nth k (base + h_count hl) sums)
  = psums b (hpre ++ hl :: hr :: hpost).
Proof.
  intros Hk Hc. cbv zeta. rewrite !psums_cons_app.
  assert (Hk' : k = length (psums b hpre)) by (rewrite psums_length; exact Hk).
  rewrite (nth_at k) by exact Hk'.
  rewrite (replace_nth_at k) by exact Hk'. rewrite (insert_nth_at_S k) by exact Hk'.
  cbn [psums]. f_equal. f_equal; [lia|]. f_equal; [lia|]. f_equal. lia.
Qed.

Lemma psums_rebalance_mid b hpre hl hr hl' hr' hpost k :
  k = length hpre -> h_count hl' + h_count hr' = h_count hl + h_count hr ->
  let sums := psums b (hpre ++ hl :: hr :: hpost) in
  let base := nth k sums 0 - h_count hl in
  replace_nth k (base + h_count hl') sums = psums b (hpre ++ hl' :: hr' :: hpost).
Proof.
  intros Hk Hc. cbv zeta. rewrite !psums_cons_app.
  assert (Hk' : k = length (psums b hpre)) by (rewrite psums_length; exact Hk).
  rewrite (nth_at k) by exact Hk'.
  rewrite (replace_nth_at k) by exact Hk'.
  cbn [psums]. f_equal. f_equal; [lia|]. f_equal; [lia|]. f_equal. lia.
Qed.

Lemma psums_merge_mid b hpre hl hr hm hpost k :
  k = length hpre -> h_count hm = h_count hl + h_count hr ->
  let sums := psums b (hpre ++ hl :: hr :: hpost) in
  remove_nth (S k) (replace_nth k (nth (S k) sums 0) sums) = psums b (hpre ++ hm :: hpost).
Proof.
  intros Hk Hc. cbv zeta. rewrite !psums_cons_app.
  assert (Hk' : k = length (psums b hpre)) by (rewrite psums_length; exact Hk).
  cbn [psums]. rewrite (nth_at_S k) by exact Hk'.
  rewrite (replace_nth_at k) by exact Hk'. rewrite (remove_nth_at_S k) by exact Hk'.
  f_equal. f_equal; [lia|]. f_equal. lia.
Qed.

(* one child replaced by one with the same / one more / one less element *)
Lemma psums_same_count b hpre hx hx' hpost :
  h_count hx' = h_count hx -> psums b (hpre ++ hx' :: hpost) = psums b (hpre ++ hx :: hpost).
Proof. intros H. rewrite !psums_cons_app, H. reflexivity. Qed.
Lemma incr_from_psums b hpre hx hx' hpost k :
  k = length hpre -> h_count hx' = h_count hx + 1 ->
  incr_from k (psums b (hpre ++ hx :: hpost)) = psums b (hpre ++ hx' :: hpost).
Proof.
  intros Hk H. unfold incr_from. rewrite !psums_cons_app.
  assert (Hk' : k = length (psums b hpre)) by (rewrite psums_length; exact Hk).
  rewrite Hk'. rewrite firstn_app, firstn_all, Nat.sub_diag. cbn [firstn]. rewrite app_nil_r.
  rewrite skipn_app, skipn_all, Nat.sub_diag. cbn [skipn app map]. f_equal.
  rewrite psums_map_incr. f_equal; [lia|]. f_equal. lia.
Qed.
Lemma decr_from_psums b hpre hx hx' hpost k :
  k = length hpre -> h_count hx' + 1 = h_count hx ->
  decr_from k (psums b (hpre ++ hx :: hpost)) = psums b (hpre ++ hx' :: hpost).
Proof.
  intros Hk H. unfold decr_from. rewrite !psums_cons_app.
  assert (Hk' : k = length (psums b hpre)) by (rewrite psums_length; exact Hk).
  rewrite Hk'. rewrite firstn_app, firstn_all, Nat.sub_diag. cbn [firstn]. rewrite app_nil_r.
  rewrite skipn_app, skipn_all, Nat.sub_diag. cbn [skipn app map]. f_equal.
  replace (b + sum_cnt hpre + h_count hx) with (b + sum_cnt hpre + h_count hx' + 1) by lia.
  rewrite psums_map_decr. f_equal. lia.
Qed.
