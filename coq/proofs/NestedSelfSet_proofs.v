(* NestedSelfSet_proofs.v — writing a child container back into the slot that holds it
   (NestedSelfSet.v) never fails, preserves the forest invariant of C10, changes no container and
   marks the enclosing stored container dirty; the code before the repair (finding F4) does not. *)
From Coq Require Import ZArith NArith List Bool Lia Arith.
From AtreeGen Require Import Consts.
From AtreeModel Require Import Nested NestedErr NestedFresh NestedSelfSet.
From AtreeProofs Require Import Nested_base Nested_resync Nested_chain Nested_edit Nested_ops Nested_steps
     Nested_proofs NestedErr_proofs NestedFresh_proofs.
Import ListNotations.
Local Open Scope N_scope.

(* ---------- under the invariant the primitives of a re-synchronisation are idle ---------- *)
Lemma storable_id f v lim cv :
  fget f v = Some cv -> (c_inl cv = true <-> inl_size cv <= lim) -> storable f v lim = f.
Proof.
  intros Hc H. unfold storable. rewrite Hc.
  destruct (inl_size cv <=? lim) eqn:E, (c_inl cv) eqn:Ei; auto.
  - apply N.leb_le in E. apply H in E. congruence.
  - assert (E' : inl_size cv <= lim) by (apply H; reflexivity). apply N.leb_le in E'. congruence.
Qed.

Lemma with_csize_id c : with_csize c (c_csize c) = c.
Proof. destruct c; reflexivity. Qed.

Lemma set_csize_log_id g f p c :
  csize_ok g f -> fget f p = Some c -> set_csize_log g f p = if c_inl c then f else flog f p true.
Proof.
  intros Hcs Hc. unfold set_csize_log. rewrite Hc, <- (Hcs p c Hc), with_csize_id, (fset_same_id _ _ _ Hc). reflexivity.
Qed.

Lemma forest_eta f : f = mkF (f_cs f) (f_log f).
Proof. destruct f; reflexivity. Qed.

Lemma clear_upd_log f t : f_log (clear_upd f t) = f_log f.
Proof. unfold clear_upd. destruct (fget f t); reflexivity. Qed.

(* the forest after a chain of notifications: the container states of before (or of before with one
   stale callback of an unattached container dropped) and some store entries more *)
Definition quiet (f f' : forest) : Prop :=
  exists l, (forall e, In e l -> snd e = true) /\
    (f' = mkF (f_cs f) (l ++ f_log f) \/
     exists x, ~ attached f x /\ f' = mkF (f_cs (clear_upd f x)) (l ++ f_log f)).

Lemma quiet_refl f : quiet f f.
Proof. exists []. split; [intros ? []|left; apply forest_eta]. Qed.

Lemma quiet_clear f t : ~ attached f t -> quiet f (clear_upd f t).
Proof.
  intros Hna. exists []. split; [intros ? []|]. right. exists t. split; auto.
  rewrite (forest_eta (clear_upd f t)) at 1. now rewrite clear_upd_log.
Qed.

Lemma clear_upd_flog_cs f p b x : f_cs (clear_upd (flog f p b) x) = f_cs (clear_upd f x).
Proof. unfold clear_upd. change (fget (flog f p b) x) with (fget f x). destruct (fget f x); reflexivity. Qed.

Lemma quiet_flog_step f p f' : quiet (flog f p true) f' -> quiet f f'.
Proof.
  intros (l & Hl & H). exists (l ++ [(p, true)]). split.
  - intros e Hin. apply in_app_or in Hin. destruct Hin as [Hin|[<-|[]]]; auto.
  - destruct H as [->|(x & Hna & ->)].
    + left. cbn [flog f_cs f_log]. now rewrite <- app_assoc.
    + right. exists x. split; [exact Hna|]. rewrite clear_upd_flog_cs. cbn [flog f_log]. now rewrite <- app_assoc.
Qed.

Lemma resync_quiet n g : forall m f t f' ok, fwf n g f -> resync m g f t = (f', ok) -> quiet f f'.
Proof.
  induction m as [|m IH]; intros f t f' ok Hwf; cbn [resync].
  { intros [= <- _]. apply quiet_refl. }
  destruct (fwf_parts _ _ _ Hwf) as (HS & Hidx & Hcs & Hio).
  destruct (fget f t) as [ct|] eqn:Ect; [|intros [= <- _]; apply quiet_refl].
  destruct (c_upd ct) as [u|] eqn:Eu; [|intros [= <- _]; apply quiet_refl].
  destruct (negb (c_inl ct) && negb (inl_size ct <=? u_lim u)); [intros [= <- _]; apply quiet_refl|].
  destruct (fget f (u_par u)) as [pc|] eqn:Epc.
  2:{ intros [= <- _]. apply quiet_clear. eapply lookup_fail_unattached; eauto. }
  destruct (find_child pc t u) as [i|] eqn:Efc.
  2:{ intros [= <- _]. apply quiet_clear. eapply lookup_fail_unattached; eauto. }
  destruct (lookup_edge _ _ _ _ _ _ Epc Efc) as (s & w & E).
  destruct (hooked_lookup _ _ _ HS _ _ _ _ _ _ _ E Epc Ect) as (u' & Hu' & Heq & _).
  rewrite Eu in Hu'. injection Hu' as <-.
  assert (Hlim : u_lim u = slot_lim g (c_kind pc) (s_ksz s) w) by (rewrite Heq; reflexivity).
  destruct E as (c0 & Hc0 & Hn & Hv). rewrite Epc in Hc0. injection Hc0 as <-.
  rewrite (storable_id f t (u_lim u) ct Ect) by (rewrite Hlim; apply (Hio t (u_par u) pc i s w ct); auto).
  rewrite (set_csize_log_id g f (u_par u) pc Hcs Epc).
  destruct (c_inl pc); intros Hr.
  - eapply IH; eauto.
  - apply quiet_flog_step with (p := u_par u). eapply IH; [|exact Hr]. now apply flog_fwf.
Qed.

Lemma cs_equiv_refl f x c : cs_equiv f x c c.
Proof. repeat split; auto. Qed.

Lemma quiet_equiv f f' : quiet f f' -> selfset_equiv f f'.
Proof.
  intros (l & Hl & [->|(x & Hna & ->)]); (split; [exists l; auto|]); intros y.
  - change (fget (mkF (f_cs f) (l ++ f_log f)) y) with (fget f y).
    destruct (fget f y); auto. split; [apply cs_equiv_refl|reflexivity].
  - change (fget (mkF (f_cs (clear_upd f x)) (l ++ f_log f)) y) with (fget (clear_upd f x) y).
    rewrite clear_upd_get. destruct (N.eqb_spec y x) as [->|Hne].
    + destruct (fget f x) as [c|]; cbn [option_map]; auto. split; [|reflexivity].
      unfold cs_equiv. cbn. repeat split; auto.
    + destruct (fget f y); auto. split; [apply cs_equiv_refl|reflexivity].
Qed.

(* ---------- the write log: exactly one store entry, of the enclosing stored container ---------- *)
Lemma parent_of_lookup f t ct u pc i :
  fget f t = Some ct -> c_upd ct = Some u -> fget f (u_par u) = Some pc -> find_child pc t u = Some i ->
  parent_of f t = Some (u_par u).
Proof. intros H1 H2 H3 H4. unfold parent_of. now rewrite H1, H2, H3, H4. Qed.

Lemma resync_log n g (lvl : N -> nat) : forall m f t f' ok ct,
  fwf n g f -> (forall p i s v w, edge f p i s v w -> (lvl p < lvl v)%nat) -> (lvl t < m)%nat ->
  fget f t = Some ct -> resync m g f t = (f', ok) ->
  if c_inl ct then forall k e, enclosing k f t = Some e -> f_log f' = (e, true) :: f_log f
  else f_log f' = f_log f.
Proof.
  induction m as [|m IH]; intros f t f' ok ct Hwf Hl Hlt Ect; [lia|]. cbn [resync]. rewrite Ect.
  destruct (fwf_parts _ _ _ Hwf) as (HS & Hidx & Hcs & Hio).
  destruct (c_upd ct) as [u|] eqn:Eu.
  2:{ intros [= <- _]. destruct (c_inl ct) eqn:Ei; auto. intros [|k] e; cbn [enclosing]; [discriminate|].
      rewrite Ect, Ei. unfold parent_of. rewrite Ect, Eu. discriminate. }
  destruct (negb (c_inl ct) && negb (inl_size ct <=? u_lim u)) eqn:Ee.
  { intros [= <- _]. apply andb_true_iff in Ee. destruct Ee as [Ei _]. apply negb_true_iff in Ei. now rewrite Ei. }
  assert (Hclr : parent_of f t = None -> f' = clear_upd f t ->
                 if c_inl ct then forall k e, enclosing k f t = Some e -> f_log f' = (e, true) :: f_log f
                 else f_log f' = f_log f).
  { intros Hpo ->. destruct (c_inl ct) eqn:Ei; [|apply clear_upd_log].
    intros [|k] e; cbn [enclosing]; [discriminate|]. rewrite Ect, Ei, Hpo. discriminate. }
  destruct (fget f (u_par u)) as [pc|] eqn:Epc.
  2:{ intros [= <- _]. apply Hclr; auto. unfold parent_of. now rewrite Ect, Eu, Epc. }
  destruct (find_child pc t u) as [i|] eqn:Efc.
  2:{ intros [= <- _]. apply Hclr; auto. unfold parent_of. now rewrite Ect, Eu, Epc, Efc. }
  destruct (lookup_edge _ _ _ _ _ _ Epc Efc) as (s & w & E).
  destruct (hooked_lookup _ _ _ HS _ _ _ _ _ _ _ E Epc Ect) as (u' & Hu' & Heq & _).
  rewrite Eu in Hu'. injection Hu' as <-.
  assert (Hlim : u_lim u = slot_lim g (c_kind pc) (s_ksz s) w) by (rewrite Heq; reflexivity).
  pose proof (Hl _ _ _ _ _ E) as Hlv.
  destruct E as (c0 & Hc0 & Hn & Hv). rewrite Epc in Hc0. injection Hc0 as <-.
  assert (Hfit : c_inl ct = true <-> inl_size ct <= u_lim u).
  { rewrite Hlim. apply (Hio t (u_par u) pc i s w ct); auto. }
  rewrite (storable_id f t (u_lim u) ct Ect Hfit).
  rewrite (set_csize_log_id g f (u_par u) pc Hcs Epc).
  (* t is attached and passed the "stays a reference" test: it is inlined *)
  assert (Ei : c_inl ct = true).
  { apply andb_false_iff in Ee. destruct Ee as [Ee|Ee]; apply negb_false_iff in Ee; auto.
    apply Hfit. now apply N.leb_le. }
  rewrite Ei. pose proof (parent_of_lookup _ _ _ _ _ _ Ect Eu Epc Efc) as Hpo.
  destruct (c_inl pc) eqn:Eip; intros Hr.
  - pose proof (IH f (u_par u) f' ok pc Hwf Hl ltac:(lia) Epc Hr) as HI. rewrite Eip in HI.
    intros [|k] e; cbn [enclosing]; [discriminate|]. rewrite Ect, Ei, Hpo. apply HI.
  - assert (Hwf2 : fwf n g (flog f (u_par u) true)) by now apply flog_fwf.
    pose proof (IH (flog f (u_par u) true) (u_par u) f' ok pc Hwf2 Hl ltac:(lia) Epc Hr) as HI. rewrite Eip in HI.
    intros [|k] e; cbn [enclosing]; [discriminate|]. rewrite Ect, Ei, Hpo.
    destruct k as [|k]; cbn [enclosing]; [discriminate|]. rewrite Epc, Eip. intros [= <-]. exact HI.
Qed.

(* ---------- the step ---------- *)
Definition pre_notify (f : forest) (p : N) (c : cstate) : forest := if c_inl c then f else flog f p true.

Lemma pre_notify_fwf n g f p c : fwf n g f -> fwf n g (pre_notify f p c).
Proof. intros H. unfold pre_notify. destruct (c_inl c); auto. now apply flog_fwf. Qed.

(* under the invariant a self-set is: store the slab of par unless it is inlined, notify *)
Lemma self_set_unfold n g f p loc c i s v w :
  fwf n g f -> fget f p = Some c -> loc_index c loc = Some i -> nth_error (c_slots c) i = Some s -> s_val s = NChild v w ->
  self_set_full n g f p loc =
  (let '(f4, ok) := notify n g (pre_notify f p c) p in (f4, ok, Some (NChild v w))).
Proof.
  intros Hwf Hc Hi Hn Hv. destruct (fwf_parts _ _ _ Hwf) as (HS & Hidx & Hcs & Hio).
  unfold self_set_full. rewrite Hc, Hi, Hn, Hv. unfold cset_body. rewrite Hc, Hn. cbn [storable_elem].
  destruct (st_hooked _ _ _ HS p c i s v w Hc Hn Hv) as (cv & Hcv & _ & _).
  rewrite (storable_id f v _ cv Hcv) by (apply (Hio v p c i s w cv); auto).
  rewrite Hc, (slot_eta s (NChild v w) Hv), (replace_nth_same_id _ _ _ Hn), <- (Hcs p c Hc).
  assert (Hcommit : commit_slots f p c (c_slots c) (c_csize c) (c_idx c) = pre_notify f p c).
  { unfold commit_slots, pre_notify. now rewrite with_slots_id, (fset_same_id _ _ _ Hc). }
  rewrite Hcommit.
  assert (HS3 : fstruct n g (pre_notify f p c)) by (apply (pre_notify_fwf n g f p c Hwf)).
  assert (E3 : edge (pre_notify f p c) p i s v w).
  { unfold pre_notify. destruct (c_inl c); exists c; auto. }
  rewrite (set_callback_hooked _ _ _ _ _ _ _ _ HS3 E3), Hv. reflexivity.
Qed.

Theorem selfset_result n g f p loc :
  fwf n g f -> selfset_ok f p loc ->
  exists f' c i s v w,
    fget f p = Some c /\ loc_index c loc = Some i /\ nth_error (c_slots c) i = Some s /\ s_val s = NChild v w /\
    self_set_full n g f p loc = (f', true, Some (NChild v w)) /\
    fwf n g f' /\ selfset_equiv f f' /\
    (forall k s0, enclosing k f' p = Some s0 -> dirty f' s0 = Some true) /\
    (forall k e, enclosing k f p = Some e -> f_log f' = (e, true) :: f_log f).
Proof.
  intros Hwf (c & i & s & v & w & Hc & Hi & Hn & Hv).
  rewrite (self_set_unfold n g f p loc c i s v w Hwf Hc Hi Hn Hv).
  pose proof (pre_notify_fwf n g f p c Hwf) as Hwf3.
  destruct (fwf_parts _ _ _ Hwf3) as (HS3 & Hidx3 & Hcs3 & Hio3).
  destruct (notify n g (pre_notify f p c) p) as [f4 ok] eqn:Hnt.
  assert (Hc3 : fget (pre_notify f p c) p = Some c).
  { unfold pre_notify. destruct (c_inl c); exact Hc. }
  destruct (notify_finish n g _ p _ f4 ok HS3 (sizes_all_Zx g _ p (conj Hcs3 Hio3)) Hnt)
    as (-> & HS4 & (Hcs4 & Hio4) & Hsu & _ & Hd).
  exists f4, c, i, s, v, w. repeat (split; [assumption|]). split; [reflexivity|].
  rewrite (notify_resync n g n _ p HS3) in Hnt.
  pose proof (resync_quiet n g n _ p f4 true Hwf3 Hnt) as Hq.
  split; [|split; [|split]].
  - split; [exact HS4|]. split; [eapply su_idx_ok; eauto|]. split; auto.
  - unfold pre_notify in Hq. destruct (c_inl c); apply quiet_equiv; auto. eapply quiet_flog_step; eauto.
  - apply Hd. intros ct H3 Hinl. rewrite Hc3 in H3. injection H3 as <-.
    unfold pre_notify. rewrite Hinl. apply dirty_flog_eq.
  - destruct (st_ranked _ _ _ HS3) as (lvl & Hl & Hb).
    pose proof (resync_log n g lvl n _ p f4 true c Hwf3 Hl (Hb p) Hc3 Hnt) as HL.
    unfold pre_notify in *. destruct (c_inl c) eqn:Ei.
    + exact HL.
    + intros [|k] e; cbn [enclosing]; [discriminate|]. rewrite Hc, Ei. intros [= <-]. exact HL.
Qed.

(* the statement over the history language *)
Theorem selfset_fwf n g f p loc :
  fwf n g f -> hop2_ok n f (HSelfSet p loc) ->
  exists f', hstep2 n g f (HSelfSet p loc) = (f', true) /\ fwf n g f' /\ selfset_equiv f f' /\
    (forall k s0, enclosing k f' p = Some s0 -> dirty f' s0 = Some true).
Proof.
  intros Hwf Hok. destruct (selfset_result n g f p loc Hwf Hok) as (f' & c & i & s & v & w & _ & _ & _ & _ & Hs & A & B & C & _).
  exists f'. cbn [hstep2]. unfold self_set. rewrite Hs. auto.
Qed.

(* the element handed back is the child itself, as the slot holds it *)
Theorem selfset_returns n g f p loc :
  fwf n g f -> selfset_ok f p loc ->
  exists c i s v w, fget f p = Some c /\ loc_index c loc = Some i /\ nth_error (c_slots c) i = Some s /\
    s_val s = NChild v w /\ snd (self_set_full n g f p loc) = Some (NChild v w).
Proof.
  intros Hwf Hok. destruct (selfset_result n g f p loc Hwf Hok) as (f' & c & i & s & v & w & H1 & H2 & H3 & H4 & Hs & _).
  exists c, i, s, v, w. rewrite Hs. auto.
Qed.

Theorem selfset_log n g f p loc k e :
  fwf n g f -> selfset_ok f p loc -> enclosing k f p = Some e ->
  f_log (fst (self_set n g f p loc)) = (e, true) :: f_log f.
Proof.
  intros Hwf Hok He. destruct (selfset_result n g f p loc Hwf Hok) as (f' & c & i & s & v & w & _ & _ & _ & _ & Hs & _ & _ & _ & HL).
  unfold self_set. rewrite Hs. cbn [fst]. eauto.
Qed.

(* a request that is not a self-set of a child (no such container / slot, or the slot holds a scalar)
   is answered by an error and leaves no trace *)
Lemma selfset_reject_id n g f p loc : ~ selfset_ok f p loc -> self_set n g f p loc = (f, false).
Proof.
  intros H. unfold self_set, self_set_full.
  destruct (fget f p) as [c|] eqn:Hc; auto.
  destruct (loc_index c loc) as [i|] eqn:Hi; auto.
  destruct (nth_error (c_slots c) i) as [s|] eqn:Hn; auto.
  destruct (s_val s) as [|v w] eqn:Hv; auto.
  exfalso. apply H. exists c, i, s, v, w. auto.
Qed.

(* ---------- the larger history language ---------- *)
Lemma hstep2_fwf n g f h f' ok :
  fwf n g f -> hop2_ok n f h -> hstep2 n g f h = (f', ok) -> ok = true /\ fwf n g f'.
Proof.
  intros Hwf Hok Hstep. destruct h as [h|p loc].
  - eapply hstep_fwf; eauto.
  - destruct (selfset_fwf n g f p loc Hwf Hok) as (f2 & H2 & Hwf2 & _).
    rewrite H2 in Hstep. injection Hstep as <- <-. auto.
Qed.

Theorem reach2_fwf n g f : (0 < n)%nat -> reach2 n g f -> fwf n g f.
Proof.
  intros Hn H. induction H.
  - now apply empty_fwf.
  - destruct (hstep2_fwf _ _ _ _ _ _ IHreach2 H0 H1). auto.
Qed.

Lemma reach'_reach2 n g f : reach' n g f -> reach2 n g f.
Proof.
  intros H. induction H; [constructor|]. eapply (reach2_step n g f (H2 h)); eauto.
Qed.

Lemma reach_reach2 n g f : reach n g f -> reach2 n g f.
Proof. intros H. now apply reach'_reach2, reach_reach'. Qed.

(* ---------- the code before the repair is [arr_set] / [map_set] given the slot's own element ---------- *)
Lemma self_set_old_arr_set n g f p i c s v w :
  fget f p = Some c -> c_kind c = KArr -> nth_error (c_slots c) i = Some s -> s_val s = NChild v w ->
  self_set_old n g f p (N.of_nat i) = arr_set n g f p i (NChild v w).
Proof.
  intros Hc Hk Hn Hv. unfold self_set_old, self_set_full, arr_set, loc_index, is_arr.
  rewrite Hc, Hk, Nat2N.id, Hn, Hv. cbn [negb].
  unfold cset_body. rewrite Hc, Hn.
  destruct (fget (storable_elem g f (c_kind c) (s_ksz s) (NChild v w)) p) as [c1|]; [|reflexivity].
  destruct (notify n g _ p) as [f4 ok]. rewrite Hv. cbn [same_child]. now rewrite N.eqb_refl.
Qed.

Lemma self_set_old_map_set n g f p kid c i s v w :
  fget f p = Some c -> c_kind c = KMap -> find_key (c_slots c) kid = Some i -> nth_error (c_slots c) i = Some s ->
  s_val s = NChild v w ->
  self_set_old n g f p kid = map_set n g f p kid (s_ksz s) (NChild v w).
Proof.
  intros Hc Hk Hf Hn Hv. unfold self_set_old, self_set_full, map_set, loc_index, is_arr.
  rewrite Hc, Hk, Hf, Hn, Hv.
  unfold cset_body. rewrite Hc, Hn.
  destruct (fget (storable_elem g f (c_kind c) (s_ksz s) (NChild v w)) p) as [c1|]; [|reflexivity].
  destruct (notify n g _ p) as [f4 ok]. reflexivity.
Qed.

(* ---------- C10_visible_and_persisted in every state of the larger language ---------- *)
Theorem visible_and_persisted_selfset n g f h o f' ok p i s w :
  (0 < n)%nat -> reach2 n g f -> edge f p i s h w -> op_ok n f (cop_nop h o) -> child_step n g f h o = (f', ok) ->
  ok = true /\
  (exists c c', fget f h = Some c /\ fget f' h = Some c' /\ c_slots c' = slots_after o (c_slots c)) /\
  edge f' p i s h w /\
  fwf n g f' /\
  (forall k s0, enclosing k f' h = Some s0 -> dirty f' s0 = Some true).
Proof. intros Hn Hr. apply C10_visible_and_persisted_l. now apply reach2_fwf. Qed.

(* the self-set through the handle of an ATTACHED container: the slot of the parent still holds it *)
Theorem selfset_attached n g f h loc p i s w :
  fwf n g f -> edge f p i s h w -> selfset_ok f h loc ->
  exists f', self_set n g f h loc = (f', true) /\ edge f' p i s h w /\ fwf n g f' /\
    (forall k s0, enclosing k f' h = Some s0 -> dirty f' s0 = Some true).
Proof.
  intros Hwf (c & Hc & Hn & Hv) Hok.
  destruct (selfset_fwf n g f h loc Hwf Hok) as (f' & Hs & Hwf' & (_ & Heq) & Hd).
  exists f'. cbn [hstep2] in Hs. split; [exact Hs|]. split; [|auto].
  specialize (Heq p). rewrite Hc in Heq. destruct (fget f' p) as [c'|] eqn:Hc'; [|contradiction].
  destruct Heq as ((_ & Hsl & _) & _). exists c'. rewrite Hsl. auto.
Qed.
