(* Commit_proofs.v — facts about commits on the overlay specification and on the model:
   view preservation under any fault (C14), retry convergence (C14), determinism of the
   result w.r.t. every order the Go code leaves open (C04, C16), ledger untouched outside
   commits and never holding temporary-address slabs (C03). *)
From stdpp Require Import gmap sorting.
From Coq Require Import ZArith NArith Lia.
From AtreeModel Require Import Storage StorageSpec.
From AtreeProofs Require Import Storage_proofs.
Local Open Scope N_scope.

(** * sp_apply_one *)

Lemma sp_apply_one_view a i j : spec_view (sp_apply_one a i) j = spec_view a j.
Proof.
  unfold sp_apply_one, spec_view.
  destruct (pending a !! i) as [[v|]|] eqn:Hp; cbn; [| |reflexivity].
  - destruct (decide (j = i)) as [->|Hne].
    + rewrite lookup_delete, lookup_insert, Hp. reflexivity.
    + rewrite lookup_delete_ne, lookup_insert_ne by congruence. reflexivity.
  - destruct (decide (j = i)) as [->|Hne].
    + rewrite !lookup_delete, Hp. reflexivity.
    + rewrite !lookup_delete_ne by congruence. reflexivity.
Qed.

(* what one write-through does to an identifier j *)
Definition untouched (a a' : spec) (j : sid) : Prop :=
  pending a' !! j = pending a !! j /\ committed a' !! j = committed a !! j.
Definition flushed (a a' : spec) (j : sid) : Prop :=
  pending a !! j <> None /\ pending a' !! j = None /\ committed a' !! j = spec_view a j.

Lemma sp_apply_one_cases a i j :
  (j <> i \/ pending a !! i = None -> untouched a (sp_apply_one a i) j) /\
  (j = i -> pending a !! i <> None -> flushed a (sp_apply_one a i) j).
Proof.
  unfold sp_apply_one, untouched, flushed, spec_view.
  destruct (pending a !! i) as [[v|]|] eqn:Hp; cbn.
  - split.
    + intros [Hne|?]; [|discriminate]. rewrite lookup_delete_ne, lookup_insert_ne by congruence. auto.
    + intros -> _. rewrite lookup_delete, lookup_insert, Hp. auto.
  - split.
    + intros [Hne|?]; [|discriminate]. rewrite !lookup_delete_ne by congruence. auto.
    + intros -> _. rewrite !lookup_delete, Hp. auto.
  - split; [auto|]. intros _ H; congruence.
Qed.

(** * sp_apply_writes: accumulator, view, per-identifier effect *)

Lemma sp_apply_writes_log ids : forall fail a log,
  sp_apply_writes ids fail a log =
  let '(a', ok, l) := sp_apply_writes ids fail a [] in (a', ok, rev log ++ l).
Proof.
  induction ids as [|i r IH]; intros fail a log; cbn [sp_apply_writes].
  - cbn. rewrite app_nil_r. reflexivity.
  - destruct (sp_call_of a i) as [c|]; [|apply IH].
    destruct fail as [[|k]|].
    + cbn. reflexivity.
    + rewrite IH. rewrite (IH _ _ [c]).
      destruct (sp_apply_writes r (Some k) (sp_apply_one a i) []) as [[a' ok] l].
      cbn. rewrite <- app_assoc. reflexivity.
    + rewrite IH. rewrite (IH _ _ [c]).
      destruct (sp_apply_writes r None (sp_apply_one a i) []) as [[a' ok] l].
      cbn. rewrite <- app_assoc. reflexivity.
Qed.

Lemma sp_apply_writes_view ids : forall fail a log j,
  spec_view (fst (fst (sp_apply_writes ids fail a log))) j = spec_view a j.
Proof.
  induction ids as [|i r IH]; intros fail a log j; cbn [sp_apply_writes]; [reflexivity|].
  destruct (sp_call_of a i) as [c|]; [|apply IH].
  destruct fail as [[|k]|]; [reflexivity| |]; rewrite IH; apply sp_apply_one_view.
Qed.

Lemma sp_call_of_None a i : sp_call_of a i = None <-> pending a !! i = None.
Proof. unfold sp_call_of. destruct (pending a !! i) as [[?|]|]; split; congruence. Qed.

(* every identifier is either untouched, or was in [ids], had a pending change, and was flushed *)
Lemma sp_apply_writes_cases ids : forall fail a log j,
  let a' := fst (fst (sp_apply_writes ids fail a log)) in
  untouched a a' j \/ (j ∈ ids /\ flushed a a' j).
Proof.
  induction ids as [|i r IH]; intros fail a log j; cbn [sp_apply_writes].
  - left. split; reflexivity.
  - destruct (sp_call_of a i) as [c|] eqn:Hc.
    2:{ destruct (IH fail a log j) as [H|[H1 H2]]; [left; exact H|right; split; [right; exact H1|exact H2]]. }
    assert (Hp : pending a !! i <> None) by (intros H; apply sp_call_of_None in H; congruence).
    destruct fail as [[|k]|].
    + left. split; reflexivity.
    + set (a1 := sp_apply_one a i).
      destruct (sp_apply_one_cases a i j) as [Hu Hf]. fold a1 in Hu, Hf.
      destruct (IH (Some k) a1 (c :: log) j) as [[H1 H2]|[Hin (H1 & H2 & H3)]].
      * destruct (decide (j = i)) as [->|Hne].
        -- right. split; [left|]. destruct (Hf eq_refl Hp) as (F1 & F2 & F3).
           split; [exact F1|]. split; congruence.
        -- left. destruct (Hu (or_introl Hne)) as [U1 U2]. split; congruence.
      * right. split; [right; exact Hin|].
        destruct (decide (j = i)) as [->|Hne].
        -- destruct (Hf eq_refl Hp) as (F1 & F2 & F3). congruence.
        -- destruct (Hu (or_introl Hne)) as [U1 U2].
           split; [congruence|]. split; [exact H2|]. rewrite H3. apply sp_apply_one_view.
    + set (a1 := sp_apply_one a i).
      destruct (sp_apply_one_cases a i j) as [Hu Hf]. fold a1 in Hu, Hf.
      destruct (IH None a1 (c :: log) j) as [[H1 H2]|[Hin (H1 & H2 & H3)]].
      * destruct (decide (j = i)) as [->|Hne].
        -- right. split; [left|]. destruct (Hf eq_refl Hp) as (F1 & F2 & F3).
           split; [exact F1|]. split; congruence.
        -- left. destruct (Hu (or_introl Hne)) as [U1 U2]. split; congruence.
      * right. split; [right; exact Hin|].
        destruct (decide (j = i)) as [->|Hne].
        -- destruct (Hf eq_refl Hp) as (F1 & F2 & F3). congruence.
        -- destruct (Hu (or_introl Hne)) as [U1 U2].
           split; [congruence|]. split; [exact H2|]. rewrite H3. apply sp_apply_one_view.
Qed.

(* a commit that is not stopped by a fault leaves nothing of [ids] pending *)
Lemma sp_apply_writes_complete ids : forall a log j,
  j ∈ ids -> pending (fst (fst (sp_apply_writes ids None a log))) !! j = None.
Proof.
  induction ids as [|i r IH]; intros a log j Hj; [inversion Hj|].
  cbn [sp_apply_writes].
  destruct (decide (j ∈ r)) as [Hr|Hr].
  { destruct (sp_call_of a i); apply IH; exact Hr. }
  assert (j = i) as -> by (inversion Hj; subst; tauto).
  destruct (sp_call_of a i) as [c|] eqn:Hc.
  - destruct (sp_apply_writes_cases r None (sp_apply_one a i) (c :: log) i) as [[H1 _]|[Hin _]]; [|tauto].
    rewrite H1. assert (Hp : pending a !! i <> None) by (intros H; apply sp_call_of_None in H; congruence).
    destruct (sp_apply_one_cases a i i) as [_ Hf]. destruct (Hf eq_refl Hp) as (_ & F2 & _). exact F2.
  - apply sp_call_of_None in Hc.
    destruct (sp_apply_writes_cases r None a log i) as [[H1 _]|[Hin _]]; [|tauto]. congruence.
Qed.

Lemma sp_apply_writes_ok_nofail ids : forall a log, snd (fst (sp_apply_writes ids None a log)) = true.
Proof.
  induction ids as [|i r IH]; intros a log; cbn [sp_apply_writes]; [reflexivity|].
  destruct (sp_call_of a i); apply IH.
Qed.

(** * The state after a successful commit is determined pointwise (so all commits agree) *)

Definition committed_state_of (a a' : spec) : Prop :=
  forall j,
    (is_temp j = true -> pending a' !! j = pending a !! j /\ committed a' !! j = committed a !! j) /\
    (is_temp j = false -> pending a' !! j = None /\ committed a' !! j = spec_view a j).

Lemma committed_state_unique a a1 a2 :
  committed_state_of a a1 -> committed_state_of a a2 -> a1 = a2.
Proof.
  intros H1 H2. destruct a1 as [p1 c1], a2 as [p2 c2]. f_equal; apply map_eq; intros j;
    destruct (H1 j) as [T1 O1]; destruct (H2 j) as [T2 O2]; cbn in *;
    destruct (is_temp j) eqn:Ht;
    try (destruct (T1 eq_refl), (T2 eq_refl); congruence);
    destruct (O1 eq_refl), (O2 eq_refl); congruence.
Qed.

Lemma elem_of_sp_owned_keys a j :
  j ∈ sp_owned_keys a <-> is_temp j = false /\ pending a !! j <> None.
Proof.
  unfold sp_owned_keys. rewrite elem_of_list_filter, elem_of_list_fmap. split.
  - intros [Ht [[k x] [-> Hkx]]]. apply elem_of_map_to_list in Hkx. cbn. split; [exact Ht|congruence].
  - intros [Ht Hp]. split; [exact Ht|]. destruct (pending a !! j) as [x|] eqn:E; [|congruence].
    exists (j, x). split; [reflexivity|]. apply elem_of_map_to_list, E.
Qed.

Lemma NoDup_sp_owned_keys a : NoDup (sp_owned_keys a).
Proof. unfold sp_owned_keys. apply NoDup_filter, NoDup_fst_map_to_list. Qed.

(* any complete, fault-free pass over a list of owned identifiers covering the owned write set *)
Lemma full_commit_state a ids log :
  Forall (fun i => is_temp i = false) ids ->
  (forall j, j ∈ sp_owned_keys a -> j ∈ ids) ->
  committed_state_of a (fst (fst (sp_apply_writes ids None a log))).
Proof.
  intros Hown Hcov j.
  pose proof (sp_apply_writes_cases ids None a log j) as Hc. cbn zeta in Hc.
  split; intros Ht.
  - destruct Hc as [H|[Hin _]]; [exact H|].
    rewrite Forall_forall in Hown. rewrite (Hown j Hin) in Ht. discriminate.
  - destruct (pending a !! j) as [x|] eqn:Hp.
    + assert (Hin : j ∈ ids) by (apply Hcov, elem_of_sp_owned_keys; split; [exact Ht|congruence]).
      destruct Hc as [[H1 H2]|[_ (F1 & F2 & F3)]]; [|auto].
      rewrite sp_apply_writes_complete in H1 by exact Hin. congruence.
    + destruct Hc as [[H1 H2]|[_ (F1 & _)]]; [|congruence].
      split; [congruence|]. rewrite H2. unfold spec_view. rewrite Hp. reflexivity.
Qed.

(* temporary-address entries are never touched when all ids are owned *)
Lemma sp_apply_writes_temp ids fail a log j :
  Forall (fun i => is_temp i = false) ids -> is_temp j = true ->
  untouched a (fst (fst (sp_apply_writes ids fail a log))) j.
Proof.
  intros Hown Ht. destruct (sp_apply_writes_cases ids fail a log j) as [H|[Hin _]]; [exact H|].
  rewrite Forall_forall in Hown. rewrite (Hown j Hin) in Ht. discriminate.
Qed.

(** * Failed attempts followed by a successful commit (C14) *)

(* a commit attempt: any list of owned identifiers, any fault position (or none) *)
Definition attempt : Type := list sid * option nat.
Definition attempt_ok (t : attempt) : Prop := Forall (fun i => is_temp i = false) (fst t).
Definition do_attempt (a : spec) (t : attempt) : spec := fst (fst (sp_apply_writes (fst t) (snd t) a [])).

(* relation kept by attempts: views equal, temp entries equal, owned entries only move from pending to committed *)
Definition attempts_inv (a b : spec) : Prop :=
  (forall j, spec_view b j = spec_view a j) /\
  (forall j, is_temp j = true -> untouched a b j).

Lemma attempts_inv_refl a : attempts_inv a a.
Proof. split; [reflexivity|]. intros j _. split; reflexivity. Qed.

Lemma attempts_inv_step a b t : attempts_inv a b -> attempt_ok t -> attempts_inv a (do_attempt b t).
Proof.
  intros [Hv Ht] Hok. unfold do_attempt. split.
  - intros j. rewrite sp_apply_writes_view. apply Hv.
  - intros j Hj. destruct (sp_apply_writes_temp (fst t) (snd t) b [] j Hok Hj) as [U1 U2].
    destruct (Ht j Hj) as [V1 V2]. split; congruence.
Qed.

Lemma attempts_inv_fold ts : forall a b,
  attempts_inv a b -> Forall attempt_ok ts -> attempts_inv a (fold_left do_attempt ts b).
Proof.
  induction ts as [|t r IH]; intros a b Hab Hts; cbn [fold_left]; [exact Hab|].
  inversion Hts; subst. apply IH; [apply attempts_inv_step|]; assumption.
Qed.

Lemma committed_state_of_trans a b c :
  attempts_inv a b -> committed_state_of b c -> committed_state_of a c.
Proof.
  intros [Hv Ht] Hc j. destruct (Hc j) as [T O]. split; intros Hj.
  - destruct (T Hj) as [T1 T2]. destruct (Ht j Hj) as [U1 U2]. split; congruence.
  - destruct (O Hj) as [O1 O2]. split; [exact O1|]. rewrite O2. apply Hv.
Qed.

Theorem retry_converges a ts ids ids0 :
  Forall attempt_ok ts ->
  let b := fold_left do_attempt ts a in
  Forall (fun i => is_temp i = false) ids -> (forall j, j ∈ sp_owned_keys b -> j ∈ ids) ->
  Forall (fun i => is_temp i = false) ids0 -> (forall j, j ∈ sp_owned_keys a -> j ∈ ids0) ->
  fst (fst (sp_apply_writes ids None b [])) = fst (fst (sp_apply_writes ids0 None a [])).
Proof.
  intros Hts b Hown Hcov Hown0 Hcov0.
  apply (committed_state_unique a).
  - apply (committed_state_of_trans a b); [apply attempts_inv_fold; [apply attempts_inv_refl|exact Hts]|].
    apply full_commit_state; assumption.
  - apply full_commit_state; assumption.
Qed.

(** * Sorted keys: uniqueness, independence of map iteration order (C04) *)

Definition sid_lt (a b : sid) : Prop := sid_le a b /\ a <> b.

Lemma sorted_keys_unique (ks ks' : list sid) :
  ks ≡ₚ ks' -> merge_sort sid_le ks = merge_sort sid_le ks'.
Proof.
  intros Hp. apply (StronglySorted_unique sid_le); try apply StronglySorted_merge_sort; try apply _.
  rewrite !merge_sort_Permutation. exact Hp.
Qed.

Lemma sp_owned_sorted_cover a j :
  j ∈ sp_owned_keys a -> j ∈ merge_sort sid_le (sp_owned_keys a).
Proof. rewrite merge_sort_Permutation. auto. Qed.

Lemma sp_sorted_owned a : Forall (fun i => is_temp i = false) (merge_sort sid_le (sp_owned_keys a)).
Proof.
  rewrite merge_sort_Permutation. apply Forall_forall. intros i Hi.
  apply elem_of_sp_owned_keys in Hi. tauto.
Qed.

(* the log of a pass is a subsequence of the identifiers passed *)
Lemma sp_apply_writes_log_sublist ids : forall fail a,
  sublist (map snd (snd (sp_apply_writes ids fail a []))) ids.
Proof.
  induction ids as [|i r IH]; intros fail a; cbn [sp_apply_writes]; [constructor|].
  destruct (sp_call_of a i) as [c|] eqn:Hc.
  - assert (snd c = i) as Hi.
    { unfold sp_call_of in Hc. destruct (pending a !! i) as [[?|]|]; inversion Hc; reflexivity. }
    destruct fail as [[|k]|].
    + cbn. rewrite Hi. apply sublist_skip, sublist_nil_l.
    + rewrite sp_apply_writes_log. specialize (IH (Some k) (sp_apply_one a i)).
      destruct (sp_apply_writes r (Some k) (sp_apply_one a i) []) as [[a' ok] l]. cbn in *.
      rewrite Hi. apply sublist_skip, IH.
    + rewrite sp_apply_writes_log. specialize (IH None (sp_apply_one a i)).
      destruct (sp_apply_writes r None (sp_apply_one a i) []) as [[a' ok] l]. cbn in *.
      rewrite Hi. apply sublist_skip, IH.
  - apply sublist_cons, IH.
Qed.

Lemma StronglySorted_lt_of_le_NoDup (l : list sid) :
  StronglySorted sid_le l -> NoDup l -> StronglySorted sid_lt l.
Proof.
  induction 1 as [|x l Hs IH Hall]; intros Hnd; constructor.
  - apply IH. inversion Hnd; assumption.
  - inversion Hnd as [|? ? Hx Hl]; subst. rewrite Forall_forall in *. intros y Hy.
    split; [apply Hall, Hy|]. intros ->. apply Hx, Hy.
Qed.

Lemma StronglySorted_sublist_lt (l k : list sid) :
  sublist l k -> StronglySorted sid_lt k -> StronglySorted sid_lt l.
Proof.
  induction 1 as [|x l k Hs IH|x l k Hs IH]; intros Hk.
  - constructor.
  - inversion Hk as [|? ? Hk' Hall]; subst. constructor; [apply IH, Hk'|].
    rewrite Forall_forall in *. intros y Hy. apply Hall. eapply elem_of_submseteq; [exact Hy|apply sublist_submseteq, Hs].
  - inversion Hk; subst. apply IH. assumption.
Qed.

Theorem fast_commit_log_sorted a fail :
  StronglySorted sid_lt (map snd (snd (sp_apply_writes (merge_sort sid_le (sp_owned_keys a)) fail a []))).
Proof.
  eapply StronglySorted_sublist_lt; [apply sp_apply_writes_log_sublist|].
  apply StronglySorted_lt_of_le_NoDup; [apply StronglySorted_merge_sort; apply _|].
  rewrite merge_sort_Permutation. apply NoDup_sp_owned_keys.
Qed.

(** * Worker arrival order is irrelevant (C04 / C16) *)

Lemma apply_collected_eq enc ids : forall fail s log,
  NoDup ids ->
  (forall i, i ∈ ids -> deltas s !! i <> None /\ enc !! i = Some (match deltas s !! i with Some x => x | None => None end)) ->
  apply_collected enc ids fail s log = apply_writes ids fail s log.
Proof.
  induction ids as [|i r IH]; intros fail s log Hnd Henc; cbn [apply_collected apply_writes]; [reflexivity|].
  inversion Hnd as [|? ? Hi Hr]; subst.
  destruct (Henc i ltac:(left)) as [Hd He].
  unfold apply_collected_one, call_of. rewrite He.
  destruct (deltas s !! i) as [[v|]|] eqn:Hdi; [| |congruence].
  - destruct fail as [[|k]|]; [reflexivity| |];
      (unfold apply_one; rewrite Hdi; cbn [fst]; apply IH; [exact Hr|];
       intros j Hj; cbn; rewrite lookup_delete_ne by (intros ->; tauto); apply Henc; right; exact Hj).
  - destruct fail as [[|k]|]; [reflexivity| |];
      (unfold apply_one; rewrite Hdi; cbn [fst]; apply IH; [exact Hr|];
       intros j Hj; cbn; rewrite lookup_delete_ne by (intros ->; tauto); apply Henc; right; exact Hj).
Qed.

Lemma elem_of_owned_delta_keys s j :
  j ∈ owned_delta_keys s <-> is_temp j = false /\ deltas s !! j <> None.
Proof. apply (elem_of_sp_owned_keys (abs s)). Qed.

Theorem worker_arrival_order_irrelevant s arrivals fail :
  arrivals ≡ₚ map (encode_job s) (sorted_owned_delta_keys s) ->
  fast_commit_with arrivals s fail = fast_commit s fail.
Proof.
  intros Hp. unfold fast_commit_with, fast_commit.
  assert (Hnd : NoDup (sorted_owned_delta_keys s)).
  { unfold sorted_owned_delta_keys. rewrite merge_sort_Permutation. apply (NoDup_sp_owned_keys (abs s)). }
  assert (Hfst : map fst (map (encode_job s) (sorted_owned_delta_keys s)) = sorted_owned_delta_keys s).
  { rewrite map_map. cbn. apply map_id. }
  rewrite (list_to_map_proper arrivals (map (encode_job s) (sorted_owned_delta_keys s)));
    [|rewrite Hp; change (@fmap list _ _ _ fst) with (@map (sid * option val) sid fst); rewrite Hfst; exact Hnd | exact Hp].
  apply apply_collected_eq; [exact Hnd|].
  intros i Hi. split.
  - unfold sorted_owned_delta_keys in Hi. rewrite merge_sort_Permutation in Hi.
    apply elem_of_owned_delta_keys in Hi. tauto.
  - apply elem_of_list_to_map_1.
    + change (@fmap list _ _ _ fst) with (@map (sid * option val) sid fst). rewrite Hfst. exact Hnd.
    + apply elem_of_list_fmap. exists i. split; [reflexivity|exact Hi].
Qed.

(** * Preload arrival order is irrelevant (C16) *)

Lemma preload_one_comm s i j : preload_one (preload_one s i) j = preload_one (preload_one s j) i.
Proof.
  unfold preload_one.
  destruct (base s !! i) as [v|] eqn:Hi; destruct (base s !! j) as [w|] eqn:Hj; cbn; rewrite ?Hi, ?Hj; try reflexivity.
  destruct (decide (i = j)) as [->|Hne]; [congruence|].
  f_equal. apply insert_commute. congruence.
Qed.

Theorem preload_order_irrelevant s ids ids' : ids ≡ₚ ids' -> batch_preload s ids = batch_preload s ids'.
Proof.
  unfold batch_preload. intros Hp. revert s.
  induction Hp as [|x l l' Hp IH|x y l|l l' l'' H1 IH1 H2 IH2]; intros s; cbn [fold_left].
  - reflexivity.
  - apply IH.
  - rewrite preload_one_comm. reflexivity.
  - rewrite IH1. apply IH2.
Qed.

(** * Ledger writes happen only in commits; temporary slabs never reach the ledger (C03) *)

Definition is_commit (o : sop) : bool :=
  match o with SFastCommit _ | SNondetCommit _ _ => true | _ => false end.

Lemma batch_preload_base ids : forall s, base (batch_preload s ids) = base s.
Proof.
  unfold batch_preload. induction ids as [|i r IH]; intros s; cbn [fold_left]; [reflexivity|].
  rewrite IH. unfold preload_one. destruct (base s !! i); reflexivity.
Qed.

Theorem writes_only_in_commit s o : is_commit o = false -> base (fst (step s o)) = base s.
Proof.
  destruct o as [i v|i|i|i|i c|fail|order fail| | |ids| |a| |i]; cbn [is_commit step]; try discriminate; intros _;
    try reflexivity.
  - destruct (is_undefined i); reflexivity.
  - destruct (is_undefined i); reflexivity.
  - unfold retrieve, retrieve_ignoring_deltas.
    destruct (deltas s !! i); [reflexivity|]. destruct (cache s !! i); [reflexivity|].
    destruct (base s !! i); reflexivity.
  - unfold retrieve_ignoring_deltas. destruct (cache s !! i); [reflexivity|].
    destruct (base s !! i); [destruct c|]; reflexivity.
  - apply batch_preload_base.
Qed.

Theorem temp_never_in_ledger ops i :
  is_temp i = true -> base (fst (run st_init ops)) !! i = None.
Proof.
  intros Ht. pose proof (storage_refines_overlay ops) as H.
  destruct (run st_init ops) as [s ms]. destruct (spec_run spec_init ops) as [a sps].
  destruct H as ([_ Hb] & _). apply Hb, Ht.
Qed.
