(* NestedDurable_ops.v — every element-list operation of Nested.v has the shape
   "edit container t (pipe), notify, post steps" (the decomposition of Nested_steps.v, exported here
   as [op_shape]); for that shape: the write log stays consistent with the inlined flags and every
   register whose content changed is in the write set ([dur_step]). *)
From Coq Require Import ZArith NArith List Bool Lia Arith.
From AtreeGen Require Import Consts.
From AtreeModel Require Import Nested NestedDurable.
From AtreeProofs Require Import Nested_base Nested_resync Nested_chain Nested_edit Nested_ops Nested_steps
  NestedDurable_base NestedDurable_chain.
Import ListNotations.
Local Open Scope N_scope.

(* what one operation does to the registers and to the write log *)
Record dur_step (n : nat) (f f' : forest) : Prop := {
  ds_mono : dmono f f';
  ds_lok : lok f -> lok f';
  ds_flat : forall x, dirty f' x = None -> flat n f' x = flat n f x;
  ds_flip : forall x, flag f' x <> flag f x -> dirty f' x <> None;
  ds_keep : forall x, flag f x <> None -> flag f' x <> None
}.

Lemma flat_none n f x : flag f x <> Some false -> flat n f x = None.
Proof.
  unfold flag, flat. destruct (fget f x) as [c|]; cbn; auto. destruct (c_inl c); auto. congruence.
Qed.

(* a step that only touches caches, callbacks, index maps and the log *)
Lemma dur_step_views n f f' :
  dmono f f' -> (lok f -> lok f') -> (forall y, vsame f f' y /\ flag f y = flag f' y) -> dur_step n f f'.
Proof.
  intros Hm Hl Hv. split; auto.
  - intros x _. now apply flat_same_views.
  - intros x H. exfalso. apply H. symmetry. apply Hv.
  - intros x. destruct (Hv x) as (_ & ->). auto.
Qed.

(* ---------- flags under the primitive updates ---------- *)
Lemma fset_flag_same f v c c0 x : fget f v = Some c0 -> c_inl c = c_inl c0 -> flag (fset f v c) x = flag f x.
Proof.
  intros H Hi. unfold flag. rewrite fget_fset. destruct (N.eqb_spec v x) as [<-|]; auto. rewrite H. cbn. congruence.
Qed.

Lemma set_callback_flag g f p i s x : flag (set_callback g f p i s) x = flag f x.
Proof.
  unfold set_callback. destruct (s_val s) as [|v w]; auto. destruct (fget f p) as [c|] eqn:Ep; auto.
  set (f1 := match c_kind c with KArr => fset f p (with_idx c (aset (c_idx c) v i)) | KMap => f end).
  assert (H1 : forall y, flag f1 y = flag f y).
  { intros y. unfold f1. destruct (c_kind c); auto. eapply fset_flag_same; eauto. }
  destruct (fget f1 v) as [cv|] eqn:Ev; [|apply H1]. rewrite <- H1. eapply fset_flag_same; eauto.
Qed.

Lemma commit_slots_flag f t c l sz idx x : fget f t = Some c -> flag (commit_slots f t c l sz idx) x = flag f x.
Proof.
  intros Hc. unfold flag. rewrite commit_slots_get. destruct (N.eqb_spec t x) as [<-|]; auto. now rewrite Hc.
Qed.

Lemma commit_slots_dirty_all f t c l sz idx x :
  dirty (commit_slots f t c l sz idx) x = if negb (c_inl c) && (t =? x) then Some true else dirty f x.
Proof. unfold commit_slots. destruct (c_inl c); cbn [negb andb]; auto. Qed.

Lemma commit_slots_dmono f t c l sz idx : dmono f (commit_slots f t c l sz idx).
Proof. intros x. rewrite commit_slots_dirty_all. destruct (negb (c_inl c) && (t =? x)); [discriminate|auto]. Qed.

Lemma commit_slots_lok f t c l sz idx : fget f t = Some c -> lok f -> lok (commit_slots f t c l sz idx).
Proof.
  intros Hc H x b. rewrite commit_slots_dirty_all, (commit_slots_flag _ _ _ _ _ _ _ Hc).
  destruct (c_inl c) eqn:Ei; cbn [negb andb]; [apply H|]. destruct (N.eqb_spec t x) as [<-|]; [|apply H].
  intros [= <-]. unfold flag. rewrite Hc. cbn. now rewrite Ei.
Qed.

Lemma uninline_old_flag f v w x :
  flag (uninline_old f (NChild v w)) x = if x =? v then option_map (fun _ => false) (fget f v) else flag f x.
Proof.
  unfold flag. rewrite uninline_old_get. destruct (x =? v); auto. destruct (fget f v); auto.
Qed.

Lemma uninline_old_log f v w :
  uninline_old f (NChild v w) = f \/
  exists cv, fget f v = Some cv /\ c_inl cv = true /\
    forall x, dirty (uninline_old f (NChild v w)) x = if v =? x then Some true else dirty f x.
Proof.
  unfold uninline_old. destruct (fget f v) as [cv|] eqn:Ev; auto. destruct (c_inl cv) eqn:Ei; auto.
  right. exists cv. auto.
Qed.

Lemma del_idx_flag f p v x : flag (del_idx f p v) x = flag f x.
Proof.
  unfold flag. rewrite del_idx_get. destruct (N.eqb_spec x p) as [->|]; auto. destruct (fget f p); auto.
Qed.

(* ---------- the post steps ---------- *)
Lemma post_steps_facts f4 t od del :
  let f' := post_steps f4 t od del in
  dmono f4 f' /\ (lok f4 -> lok f') /\
  (forall x, flag f' x <> flag f4 x -> (exists w0, od = Some (x, w0)) /\ dirty f' x <> None) /\
  (forall y, vsame f4 f' y) /\ (forall x, flag f4 x <> None -> flag f' x <> None).
Proof.
  destruct od as [[v0 w0]|]; cbn [post_steps].
  2:{ repeat split; auto; try congruence. intros y. unfold vsame. destruct (fget f4 y); auto. }
  set (f5 := uninline_old f4 (NChild v0 w0)).
  set (f6 := if del then del_idx f5 t v0 else f5).
  assert (Hd6 : forall x, dirty f6 x = dirty f5 x) by (intros; unfold f6; destruct del; auto; apply dirty_del_idx).
  assert (Hf6 : forall x, flag f6 x = flag f5 x) by (intros; unfold f6; destruct del; auto; apply del_idx_flag).
  assert (Hv6 : forall y, vsame f4 f6 y).
  { intros y. unfold vsame.
    assert (H5 : match fget f4 y, fget f5 y with
                 | Some c, Some c' => c_kind c = c_kind c' /\ c_slots c = c_slots c'
                 | None, None => True | _, _ => False end).
    { pose proof (uninline_old_same_struct f4 (NChild v0 w0) y) as H. fold f5 in H.
      destruct (fget f4 y), (fget f5 y); auto. tauto. }
    unfold f6. destruct del; auto. rewrite del_idx_get. destruct (N.eqb_spec y t) as [->|]; auto.
    destruct (fget f4 t), (fget f5 t); cbn; auto. }
  change (post_steps f4 t (Some (v0, w0)) del) with f6. cbn zeta.
  destruct (uninline_old_log f4 v0 w0) as [Hsame|(cv & Hcv & Hi & Hd)]; fold f5 in Hsame || fold f5 in Hd.
  - split; [intros x; now rewrite Hd6, Hsame|]. split; [intros H x b; rewrite Hd6, Hf6, Hsame; apply H|].
    split; [intros x Hx; exfalso; apply Hx; now rewrite Hf6, Hsame|]. split; auto.
    intros x. now rewrite Hf6, Hsame.
  - split; [|split; [|split; [|split]]]; auto.
    + intros x. rewrite Hd6, Hd. destruct (v0 =? x); [discriminate|auto].
    + intros H x b. rewrite Hd6, Hf6, Hd. unfold f5. rewrite uninline_old_flag.
      rewrite (N.eqb_sym x v0). destruct (N.eqb_spec v0 x) as [<-|]; [|apply H].
      intros [= <-]. now rewrite Hcv.
    + intros x. rewrite Hf6. unfold f5 at 1. rewrite uninline_old_flag. destruct (N.eqb_spec x v0) as [->|]; [|congruence].
      intros _. split; [eauto|]. rewrite Hd6, Hd, N.eqb_refl. discriminate.
    + intros x. rewrite Hf6. unfold f5. rewrite uninline_old_flag. destruct (N.eqb_spec x v0) as [->|]; auto.
      unfold flag. destruct (fget f4 v0); cbn; congruence.
Qed.

(* ---------- the edit ---------- *)
Lemma pipe_facts n g f t c l' sz idx' i s' :
  fget f t = Some c -> elem_ok n f t (s_val s') ->
  let f3 := pipe g f t c l' sz idx' i s' in
  dmono f f3 /\ (lok f -> lok f3) /\
  (forall x, flag f3 x <> flag f x -> dirty f3 x <> None /\ exists w, s_val s' = NChild x w) /\
  (c_inl c = false -> dirty f3 t = Some true).
Proof.
  intros Hc Hok. cbn zeta. unfold pipe.
  set (f1 := storable_elem g f (c_kind c) (s_ksz s') (s_val s')).
  assert (H1t : fget f1 t = Some c) by (unfold f1; rewrite (storable_elem_get_t n g f t _ _ _ Hok); auto).
  set (f2 := commit_slots f1 t c l' sz idx').
  assert (Hd3 : forall x, dirty (set_callback g f2 t i s') x = dirty f2 x) by (intros; apply dirty_set_callback).
  assert (Hf3 : forall x, flag (set_callback g f2 t i s') x = flag f1 x).
  { intros x. rewrite set_callback_flag. unfold f2. now apply commit_slots_flag. }
  assert (Hm1 : dmono f f1) by (unfold f1; destruct (s_val s'); cbn [storable_elem]; [apply dmono_refl|apply storable_dmono]).
  assert (Hm2 : dmono f1 f2) by apply commit_slots_dmono.
  split; [|split; [|split]].
  - intros x. rewrite Hd3. intros H. auto.
  - intros H. assert (H1 : lok f1) by (unfold f1; destruct (s_val s'); cbn [storable_elem]; auto; now apply storable_lok).
    assert (H2 : lok f2) by (unfold f2; apply commit_slots_lok; auto).
    intros x b. rewrite Hd3, Hf3. intros Hd. rewrite <- (commit_slots_flag f1 t c l' sz idx' x H1t). now apply H2.
  - intros x. rewrite Hf3, Hd3. unfold f1 at 1. destruct (s_val s') as [|v w] eqn:Ev; cbn [storable_elem]; [congruence|].
    intros Hx. destruct (storable_flip _ _ _ _ Hx) as (-> & Hd). split; [|eauto].
    apply (dmono_not_none f1 f2 v Hm2). unfold f1. try rewrite Ev. cbn [storable_elem]. exact Hd.
  - intros Hi. rewrite Hd3. unfold f2. now apply commit_slots_dirty.
Qed.

(* ---------- the shape of an element-list operation on container t ---------- *)
(* [pop]: the operation is PopIterate; every other operation keeps each child slot of t or displaces
   it as [od] (the element handed back to the caller) *)
Definition op_shape (n : nat) (g : ncfg) (pop : bool) (f f' : forest) (t : N) : Prop :=
  exists c l' sz idx' i s' f4 od del,
    fget f t = Some c /\
    elem_ok n f t (s_val s') /\
    ectx n g f (pipe g f t c l' sz idx' i s') t c l' (idx3_of c idx' i s') (nc_of i s') /\
    notify n g (pipe g f t c l' sz idx' i s') t = (f4, true) /\
    f' = post_steps f4 t od del /\
    (forall v0 w0, od = Some (v0, w0) ->
       (exists j s, nth_error (c_slots c) j = Some s /\ s_val s = NChild v0 w0) /\
       (forall s w, In s l' -> s_val s <> NChild v0 w)) /\
    (pop = false -> forall j s v w, nth_error (c_slots c) j = Some s -> s_val s = NChild v w ->
                    In s l' \/ od = Some (v, w)).

Lemma vsame_trans f1 f2 f3 y : vsame f1 f2 y -> vsame f2 f3 y -> vsame f1 f3 y.
Proof.
  unfold vsame. destruct (fget f1 y), (fget f2 y), (fget f3 y); try tauto.
  intros (?&?) (?&?). split; congruence.
Qed.

Lemma ksi_vsame f f' y : ksi_eq (fget f y) (fget f' y) -> vsame f f' y.
Proof. unfold ksi_eq, vsame. destruct (fget f y), (fget f' y); tauto. Qed.

Lemma shape_dur n g pop f f' t : fwf n g f -> op_shape n g pop f f' t -> dur_step n f f'.
Proof.
  intros Hwf (c & l' & sz & idx' & i & s' & f4 & od & del & Hct & Hok & X & Hn & -> & Hod & _).
  set (f3 := pipe g f t c l' sz idx' i s') in *.
  set (nc := nc_of i s') in *. set (idx3 := idx3_of c idx' i s') in *.
  destruct (pipe_facts n g f t c l' sz idx' i s' Hct Hok) as (Hm03 & Hlok03 & Hfl03 & Hd3t). fold f3 in Hm03, Hlok03, Hfl03, Hd3t.
  destruct (edit_core _ _ _ _ _ _ _ _ _ _ _ X Hwf Hn) as (_ & HS4 & _ & Hsu & Hksi & (ct4 & Ht4 & Hk4 & Hsl4 & _) & _ & _).
  pose proof (edited_struct _ _ _ _ _ _ _ _ _ X) as HS3.
  destruct (ctx_lvl _ _ _ _ _ _ _ _ _ X) as (lvl & Hlf & Hl3 & Hb).
  pose proof X as X'. ectx_intro X'.
  rewrite (notify_resync n g n f3 t HS3) in Hn.
  destruct (resync_log n g lvl n f3 t f4 HS3 Hl3 Hn) as (Hm34 & Hlok34 & Hfl34 & Hup34).
  destruct (post_steps_facts f4 t od del) as (Hm4 & Hlok4 & Hfl4 & Hv4 & Hkeep4).
  set (f' := post_steps f4 t od del) in *. cbn zeta in Hm4, Hlok4, Hfl4, Hv4, Hkeep4.
  assert (Hm : dmono f f') by (eapply dmono_trans; [exact Hm03|eapply dmono_trans; eauto]).
  (* the new child lies below t *)
  assert (Hnew : forall v w i0 s0, nc = Some (v, w, i0, s0) -> (lvl t < lvl v)%nat /\ ~ attached f v).
  { intros v w i0 s0 Hnc. destruct (HN _ _ _ _ Hnc) as (Hna & _). split; auto.
    destruct HE as (_ & _ & Hm0). rewrite Hnc in Hm0. destruct Hm0 as (_ & Hv & Hn0 & _).
    apply (Hl3 t i0 s0 v w). eexists. split; [exact Et|]. cbn. auto. }
  (* flags of everything but the new child survive the edit *)
  assert (Hflag3 : forall z, (forall v w i0 s0, nc = Some (v, w, i0, s0) -> z <> v) -> flag f3 z = flag f z).
  { intros z Hz. unfold flag. destruct (N.eq_dec z t) as [->|Hzt].
    - rewrite Et, Hc. reflexivity.
    - rewrite Eo; auto. }
  assert (Hget3 : forall z, z <> t -> (forall v w i0 s0, nc = Some (v, w, i0, s0) -> z <> v) -> fget f3 z = fget f z).
  { intros. apply Eo; auto. }
  (* the closure above t is the same before and after the edit *)
  assert (Htrans : forall x y, ianc f x y -> (lvl y <= lvl t)%nat -> ianc f3 x y).
  { intros x y A Hy. eapply ianc_transport; [| |exact A].
    - intros z p0 i0 s0 w0 Az (c0 & Hc0 & Hn0 & Hv0).
      pose proof (anc_lvl _ lvl _ _ Hlf Az) as Hlz.
      assert (E0 : edge f p0 i0 s0 z w0) by (exists c0; auto).
      pose proof (Hlf _ _ _ _ _ E0) as Hlp.
      exists c0. split; auto. rewrite Hget3; auto.
      + intros ->. lia.
      + intros v w i1 s1 Hnc ->. destruct (Hnew _ _ _ _ Hnc). lia.
    - intros z Az Hiz. pose proof (anc_lvl _ lvl _ _ Hlf Az) as Hlz.
      eapply inlined_flag_eq; [apply Hflag3|auto].
      intros v w i1 s1 Hnc ->. destruct (Hnew _ _ _ _ Hnc). lia. }
  assert (Hstored3 : forall x, stored f x -> (lvl x <= lvl t)%nat -> stored f3 x).
  { intros x Hs Hx. eapply stored_flag_eq; [apply Hflag3|auto].
    intros v w i1 s1 Hnc ->. destruct (Hnew _ _ _ _ Hnc). lia. }
  (* F1: a register that embeds t is logged *)
  assert (F1 : forall x, stored f x -> ianc f x t -> dirty f' x <> None).
  { intros x Hs A. destruct (N.eq_dec x t) as [->|Hxt].
    - destruct Hs as (c0 & Hc0 & Hi0). rewrite Hc in Hc0. injection Hc0 as <-.
      apply (dmono_not_none f3 f' t); [eapply dmono_trans; eauto|]. rewrite (Hd3t Hi0). discriminate.
    - pose proof (anc_lvl _ lvl _ _ Hlf (ianc_anc _ _ _ A)) as Hlx.
      apply (dmono_not_none f4 f' x Hm4). apply Hup34; auto. }
  (* F2: a register that embeds the parent of a container whose flag changed is logged *)
  assert (F2 : forall x y i0 s0 c0 w0, stored f x -> ianc f x y -> edge f y i0 s0 c0 w0 ->
                 flag f' c0 <> flag f c0 -> dirty f' x <> None).
  { intros x y i0 s0 c0 w0 Hs A E0 Hfl.
    assert (Hc0new : forall v w i1 s1, nc = Some (v, w, i1, s1) -> c0 <> v).
    { intros v w i1 s1 Hnc ->. destruct (Hnew _ _ _ _ Hnc) as (_ & Hna). apply Hna. now exists y, i0, s0, w0. }
    rewrite <- (Hflag3 c0 Hc0new) in Hfl.
    destruct (optb_dec (flag f4 c0) (flag f3 c0)) as [Heq|Hneq].
    - (* changed by the post steps: c0 is the displaced child, a child of t *)
      rewrite <- Heq in Hfl. destruct (Hfl4 c0 Hfl) as ((w1 & Hodc) & _).
      destruct (Hod _ _ Hodc) as ((j & s1 & Hj & Hs1) & _).
      assert (E1 : edge f t j s1 c0 w1) by (exists c; auto).
      destruct (edge_unique _ _ _ HS _ _ _ _ _ _ _ _ _ E0 E1) as (-> & _). now apply F1.
    - (* flipped by the chain *)
      destruct (Hfl34 c0 Hneq) as (_ & Ac & p & i1 & s1 & w1 & E3 & Hlog).
      assert (Hpy : p = y).
      { destruct (N.eq_dec p t) as [->|Hpt].
        - destruct (ed_edge_t _ _ _ _ _ _ _ _ _ X _ _ _ _ E3) as (_ & [Hnc|(j0 & E1)]).
          + exfalso. eapply Hc0new; eauto.
          + destruct (edge_unique _ _ _ HS _ _ _ _ _ _ _ _ _ E0 E1) as (-> & _). reflexivity.
        - pose proof (ed_edge_other _ _ _ _ _ _ _ _ _ X _ _ _ _ _ Hpt E3) as E1.
          destruct (edge_unique _ _ _ HS _ _ _ _ _ _ _ _ _ E0 E1) as (-> & _). reflexivity. }
      subst p.
      pose proof (anc_lvl _ lvl _ _ Hl3 Ac) as Hlc. pose proof (Hl3 _ _ _ _ _ E3) as Hly.
      pose proof (anc_lvl _ lvl _ _ Hlf (ianc_anc _ _ _ A)) as Hlx.
      apply (dmono_not_none f4 f' x Hm4). apply Hlog; [apply Hstored3; auto; lia|apply Htrans; auto; lia]. }
  (* flags: whatever changed is logged *)
  assert (Hflip : forall x, flag f' x <> flag f x -> dirty f' x <> None).
  { intros x Hx. destruct (optb_dec (flag f' x) (flag f4 x)) as [E1|N1].
    - destruct (optb_dec (flag f4 x) (flag f3 x)) as [E2|N2].
      + apply (dmono_not_none f3 f' x); [eapply dmono_trans; eauto|]. apply Hfl03. congruence.
      + apply (dmono_not_none f4 f' x Hm4). now destruct (Hfl34 x N2).
    - now destruct (Hfl4 x N1). }
  assert (Hvs : forall y, y <> t -> vsame f f' y).
  { intros y Hy. eapply vsame_trans; [apply ksi_vsame, Hksi; auto|apply Hv4]. }
  split; [exact Hm|intros H; apply Hlok4, Hlok34, Hlok03, H| |exact Hflip|].
  - intros x Hd.
    destruct (optb_dec (flag f' x) (flag f x)) as [Hfx|Hfx]; [|exfalso; now apply (Hflip x Hfx)].
    destruct (optb_dec (flag f x) (Some false)) as [Hst|Hst].
    2:{ rewrite !flat_none; auto. congruence. }
    assert (Hs : stored f x) by now apply flag_stored.
    apply flat_ext; auto. intros y A. split.
    + apply Hvs. intros ->. now apply (F1 x Hs A).
    + intros i0 s0 c0 w0 E0. destruct (optb_dec (flag f' c0) (flag f c0)) as [|Hne]; auto.
      exfalso. exact (F2 _ _ _ _ _ _ Hs A E0 Hne Hd).
  - intros x Hx. apply Hkeep4. pose proof (Hsu x) as H3. unfold flag in *.
    assert (H03 : fget f3 x <> None).
    { destruct (N.eq_dec x t) as [->|Hxt]; [rewrite Et; discriminate|].
      pose proof (edited_ksi g f f3 t c l' idx3 nc x HE Hxt) as Hk. destruct (fget f x), (fget f3 x); cbn in *; try congruence; tauto. }
    destruct (fget f3 x), (fget f4 x); cbn; try congruence; tauto.
Qed.
