(* IterMutation_proofs.v — C13, mutation DURING mutable iteration.

   Go: the mutable array iterator (array_iterator.go 51-79) holds an index, fixes the bound at
   creation (lastIndex = Count()) and calls Array.Get(nextIndex); the mutable map iterator
   (map_iterator.go 72-129, map.go 542-626) holds the NEXT KEY: getElementAndNextKey(key) returns the
   entry of [key] and the key that follows it in canonical order, computed BEFORE the caller's code
   runs; the next step looks that key up again from the root.  The caller may overwrite the element
   it was just handed (Array.Set(i, ..) / OrderedMap.Set(k, ..)) — with a value of any size within
   the Storable contract, so slabs split / merge / rebalance, the root is split or promoted, inline
   collision groups spill to their own slab — between two steps of the iterator.

   This file defines these loops over the executable models ([ArrMut.iter_mut] over ArrayTree,
   [MapMut.miter_mut] over MapElems, [MapMut.mtiter_mut] over the slab tree MapTree) with an
   arbitrary overwrite decision [f], and proves for every legal slab size, every well-formed state
   and every [f] within the contract: the loop yields exactly the ORIGINAL sequence (every element
   once, in order), the final contents are the original with exactly the overwritten positions /
   values replaced, and the invariant is preserved. *)
From Coq Require Import ZArith NArith List Bool Arith Lia ZifyBool ZifyN ZifyNat Sorted.
From AtreeGen Require Import Consts.
From AtreeModel Require Import Settings.
From AtreeModel Require ArrayTree ArrayInv MapElems MapElemsInv MapTree MapTreeInv.
From AtreeProofs Require Import Settings_proofs.
From AtreeProofs Require ArrayList_lemmas Rebalance_proofs ArrayRoute_proofs Array_proofs.
From AtreeProofs Require MapElems_proofs MapTree_proofs MapRebalance_proofs MapFixup_proofs
  MapTreeOps_proofs MapTreeIter_proofs Map_proofs.
Import ListNotations.

(* ====================================================================== *)
(** * Arrays                                                               *)
(* ====================================================================== *)
Module ArrMut.
Import ArrayTree ArrayInv ArrayList_lemmas ArrayRoute_proofs Array_proofs.
Local Open Scope N_scope.

(* the loop of the mutable iterator with the caller's overwrite in its body: [fuel] = remaining
   steps (lastIndex - nextIndex), [i] = nextIndex.  [f i e = Some e'] : the caller overwrites the
   element it was handed with e'. *)
Fixpoint iter_mut_from (c : cfg) (f : N -> elem -> option elem) (fuel : nat) (i : N) (a : arr)
  : arr * list elem :=
  match fuel with
  | O => (a, [])
  | S n =>
    match snd (fst (a_step c a (OGet i))) with
    | RElem e =>
      let a1 := match f i e with
                | Some e' => fst (fst (a_step c a (OSet i e')))
                | None => a
                end in
      let '(a2, ys) := iter_mut_from c f n (i + 1) a1 in (a2, e :: ys)
    | _ => (a, [])                       (* Get failed: the iteration stops with the error *)
    end
  end.

Definition iter_mut (c : cfg) (a : arr) (f : N -> elem -> option elem) : arr * list elem :=
  iter_mut_from c f (N.to_nat (a_count a)) 0 a.

(* what position i holds afterwards (as the plain sequence sees it), given the element yielded *)
Definition upd (f : N -> elem -> option elem) (i : N) (e : elem) : elem :=
  match f i e with Some e' => e' | None => strip e end.

Fixpoint upd_from (f : N -> elem -> option elem) (i : N) (ys : list elem) : list elem :=
  match ys with [] => [] | e :: r => upd f i e :: upd_from f (i + 1) r end.

(* the same in map / combine form: position k of the result is [upd f k (k-th yielded element)] *)
Lemma upd_from_combine f : forall ys i,
  upd_from f i ys =
  map (fun p => upd f (fst p) (snd p)) (combine (map N.of_nat (seq (N.to_nat i) (length ys))) ys).
Proof.
  induction ys as [|e r IH]; intros i; [reflexivity|].
  cbn [upd_from length seq map combine fst snd]. rewrite N2Nat.id. f_equal.
  rewrite IH. replace (N.to_nat (i + 1)) with (S (N.to_nat i)) by lia. reflexivity.
Qed.

Lemma upd_from_length f : forall ys i, length (upd_from f i ys) = length ys.
Proof. induction ys as [|e r IH]; intros i; cbn [upd_from length]; [reflexivity|]. now rewrite IH. Qed.

Lemma upd_from_nth f : forall ys i k e, nth_error ys k = Some e ->
  nth_error (upd_from f i ys) k = Some (upd f (i + N.of_nat k) e).
Proof.
  induction ys as [|y r IH]; intros i k e H; [destruct k; discriminate|].
  destruct k as [|k]; cbn [nth_error upd_from] in *.
  - inversion H; subst. now rewrite N.add_0_r.
  - rewrite (IH (i + 1) k e H). do 2 f_equal. lia.
Qed.

(* if the decision does not look at WHERE a large value is stored, the result is a function of the
   original plain sequence *)
Lemma upd_from_strip f : (forall i e, f i (strip e) = f i e) -> forall ys i,
  upd_from f i ys = upd_from f i (map strip ys).
Proof.
  intros Hs. induction ys as [|e r IH]; intros i; [reflexivity|]. cbn [upd_from map]. rewrite IH. f_equal.
  unfold upd. rewrite Hs, strip_idem. reflexivity.
Qed.

Section WithT.
Variable T : N.
Hypothesis HT : valid_T T.
Local Notation c := (set_threshold T).
Variable f : N -> elem -> option elem.
(* the caller's contract on the new elements (the one of C01: aop_ok) *)
Hypothesis Hf : forall i e e', f i e = Some e' -> elem_ok c e' /\ strip e' = e'.

Lemma nth_N_mid (A : list elem) b B : nth_N (A ++ b :: B) (N.of_nat (length A)) = Some b.
Proof.
  rewrite nth_N_eq, Nat2N.id, nth_error_app2 by lia. rewrite Nat.sub_diag. reflexivity.
Qed.

Lemma iter_mut_from_ok : forall B A a,
  awfl c a -> abs_list (a_root a) = A ++ B ->
  let r := iter_mut_from c f (length B) (N.of_nat (length A)) a in
  map strip (snd r) = B /\
  abs_list (a_root (fst r)) = A ++ upd_from f (N.of_nat (length A)) (snd r) /\
  awfl c (fst r) /\ a_rootid (fst r) = a_rootid a /\ a_type (fst r) = a_type a.
Proof.
  induction B as [|b B IH]; intros A a Ha Habs; cbv zeta.
  - cbn [length iter_mut_from fst snd map upd_from]. auto.
  - cbn [length iter_mut_from].
    set (i := N.of_nat (length A)).
    (* the Get *)
    destruct (a_step_ok T HT a (OGet i) Ha I) as (_ & _ & G & _).
    cbn [a_step fst snd seq_step abs_arr s_elems] in G |- *. rewrite Habs in G.
    unfold i in G at 2. rewrite nth_N_mid in G.
    destruct (a_get a i) as [e| | | | |] eqn:Eg; cbn [strip_out] in G; try discriminate.
    injection G as G.
    (* the overwrite *)
    assert (H1 : exists a1, a1 = match f i e with Some e' => fst (fst (a_set c a i e')) | None => a end /\
                   awfl c a1 /\ a_rootid a1 = a_rootid a /\ a_type a1 = a_type a /\
                   abs_list (a_root a1) = (A ++ [upd f i e]) ++ B).
    { eexists. split; [reflexivity|]. unfold upd. destruct (f i e) as [e'|] eqn:Ef.
      - destruct (Hf _ _ _ Ef) as (Hok & Hst).
        destruct (a_step_ok T HT a (OSet i e') Ha (conj Hok Hst)) as (W & Id & _ & Ab).
        cbn [a_step seq_step abs_arr s_elems s_type] in W, Id, Ab. rewrite Habs in Ab.
        unfold i in Ab at 2 3. rewrite nth_N_mid in Ab. cbn [fst] in Ab. rewrite Nat2N.id in Ab.
        rewrite replace_nth_app_len in Ab.
        split; [exact W|]. split; [exact Id|].
        split; [exact (f_equal s_type Ab)|].
        rewrite <- app_assoc. exact (f_equal s_elems Ab).
      - split; [exact Ha|]. split; [reflexivity|]. split; [reflexivity|].
        rewrite <- app_assoc, G. exact Habs. }
    destruct H1 as (a1 & E1 & W1 & Id1 & Ty1 & Ab1). rewrite <- E1.
    specialize (IH (A ++ [upd f i e]) a1 W1 Ab1). cbv zeta in IH.
    replace (N.of_nat (length (A ++ [upd f i e]))) with (i + 1) in IH
      by (rewrite app_length; cbn [length]; lia).
    destruct (iter_mut_from c f (length B) (i + 1) a1) as [a2 ys]. cbn [fst snd] in IH |- *.
    destruct IH as (I1 & I2 & I3 & I4 & I5).
    cbn [map upd_from]. split; [congruence|]. split; [rewrite I2, <- app_assoc; reflexivity|].
    split; [exact I3|]. split; congruence.
Qed.

(* the statement of C13_array_mutation_during_iteration *)
Theorem array_mutation_during_iteration a : awfl c a ->
  let r := iter_mut c a f in
  map strip (snd r) = abs_list (a_root a) /\
  N.of_nat (length (snd r)) = a_count a /\
  abs_list (a_root (fst r)) = upd_from f 0 (snd r) /\
  abs_list (a_root (fst r)) =
    map (fun p => upd f (fst p) (snd p)) (combine (map N.of_nat (seq 0 (length (snd r)))) (snd r)) /\
  awfl c (fst r) /\ a_rootid (fst r) = a_rootid a /\ a_count (fst r) = a_count a.
Proof.
  intros Ha. cbv zeta. unfold iter_mut.
  pose proof (abs_len T a Ha) as Hlen.
  replace (N.to_nat (a_count a)) with (length (abs_list (a_root a))) by lia.
  pose proof (iter_mut_from_ok (abs_list (a_root a)) [] a Ha eq_refl) as H. cbv zeta in H.
  cbn [length N.of_nat app] in H.
  destruct (iter_mut_from c f (length (abs_list (a_root a))) 0 a) as [a2 ys]. cbn [fst snd] in *.
  destruct H as (H1 & H2 & H3 & H4 & H5).
  assert (Hl : N.of_nat (length ys) = a_count a).
  { rewrite <- Hlen, <- H1, map_length. reflexivity. }
  split; [exact H1|]. split; [exact Hl|]. split; [exact H2|].
  split; [rewrite H2; apply (upd_from_combine f ys 0)|].
  split; [exact H3|]. split; [exact H4|].
  rewrite <- (abs_len T a2 H3), H2, upd_from_length. exact Hl.
Qed.

(* decisions that do not depend on the storage location: final contents from the ORIGINAL sequence *)
Corollary array_mutation_final_of_original a : awfl c a ->
  (forall i e, f i (strip e) = f i e) ->
  abs_list (a_root (fst (iter_mut c a f))) = upd_from f 0 (abs_list (a_root a)).
Proof.
  intros Ha Hs. destruct (array_mutation_during_iteration a Ha) as (H1 & _ & H2 & _).
  rewrite H2, <- H1. apply upd_from_strip, Hs.
Qed.

(* positions: the k-th yielded element is the k-th original element, and afterwards position k holds
   the replacement chosen for it (or still that element) *)
Corollary array_mutation_pointwise a k x : awfl c a ->
  nth_error (abs_list (a_root a)) k = Some x ->
  exists e, nth_error (snd (iter_mut c a f)) k = Some e /\ strip e = x /\
    nth_error (abs_list (a_root (fst (iter_mut c a f)))) k =
      Some (match f (N.of_nat k) e with Some e' => e' | None => x end).
Proof.
  intros Ha Hk. destruct (array_mutation_during_iteration a Ha) as (H1 & _ & H2 & _).
  rewrite <- H1, nth_error_map in Hk.
  destruct (nth_error (snd (iter_mut c a f)) k) as [e|] eqn:E; [|discriminate].
  cbn [option_map] in Hk. injection Hk as Hk.
  exists e. split; [reflexivity|]. split; [exact Hk|].
  rewrite H2. rewrite (upd_from_nth f _ 0 k e E). unfold upd. cbn [N.add].
  destruct (f (N.of_nat k) e); congruence.
Qed.

End WithT.
End ArrMut.

(* ====================================================================== *)
(** * Maps                                                                 *)
(* ====================================================================== *)
Module MapMut.
Import MapElems MapElemsInv MapElems_proofs.
Local Open Scope N_scope.

(** ** dictionary facts: an update of a present key keeps the key sequence *)

(* the entry after the caller's decision *)
Definition upd (f : kv -> kv -> option kv) (p : kv * kv) : kv * kv :=
  (fst p, match f (fst p) (snd p) with Some v' => v' | None => snd p end).

(* the final dictionary as a fold of [d_replace] over the visited entries *)
Definition fold_upd (f : kv -> kv -> option kv) (visited : dict) (d : dict) : dict :=
  fold_left (fun d p => match f (fst p) (snd p) with
                        | Some v' => d_replace d (kid (fst p)) v'
                        | None => d
                        end) visited d.

(* KEY FACT: the key storables, hence the key sequence, are untouched by an update *)
Lemma d_replace_fst d k v : map fst (d_replace d k v) = map fst d.
Proof.
  induction d as [|p d IH]; [reflexivity|]. cbn [d_replace]. destruct (kid (fst p) =? k); cbn [map fst]; congruence.
Qed.

Lemma d_next_fst : forall d d' k, map fst d = map fst d' -> d_next d k = d_next d' k.
Proof.
  induction d as [|p d IH]; intros [|p' d'] k H; try discriminate; [reflexivity|].
  cbn [map] in H. injection H as Hp Hd. cbn [d_next]. rewrite Hp.
  destruct (kid (fst p') =? k); [|apply IH, Hd].
  destruct d, d'; try discriminate; [reflexivity|]. cbn in Hd |- *. congruence.
Qed.

(* … hence the successor of EVERY key *)
Lemma d_next_replace d k v k' : d_next (d_replace d k v) k' = d_next d k'.
Proof. apply d_next_fst, d_replace_fst. Qed.

Lemma first_replace d k v : option_map fst (hd_error (d_replace d k v)) = option_map fst (hd_error d).
Proof. destruct d as [|p d]; [reflexivity|]. cbn [d_replace]. destruct (kid (fst p) =? k); reflexivity. Qed.

Lemma dkeys_upd f A : dkeys (map (upd f) A) = dkeys A.
Proof. unfold dkeys. rewrite map_map. reflexivity. Qed.

Lemma upd_none f p : f (fst p) (snd p) = None -> upd f p = p.
Proof. unfold upd. intros ->. destruct p; reflexivity. Qed.

Lemma upd_some f p v' : f (fst p) (snd p) = Some v' -> upd f p = (fst p, v').
Proof. unfold upd. intros ->. reflexivity. Qed.

(* the dictionary in the middle of the loop: the entries before the cursor carry their new values,
   the cursor entry p and the entries after it are the original ones *)
Lemma step_dict f A p B : NoDup (dkeys (A ++ p :: B)) ->
  let d := map (upd f) A ++ p :: B in
  d_get d (kid (fst p)) = Some p /\
  next_res d (kid (fst p)) = inr (fst p, snd p, option_map fst (hd_error B)) /\
  forall v', d_replace d (kid (fst p)) v' = map (upd f) A ++ (fst p, v') :: B.
Proof.
  intros Hnd. cbv zeta.
  assert (G : d_get (map (upd f) A) (kid (fst p)) = None).
  { apply d_get_none_iff. rewrite dkeys_upd. intros Hin. rewrite dkeys_app in Hnd. cbn in Hnd.
    apply NoDup_remove_2 in Hnd. apply Hnd. apply in_or_app. now left. }
  assert (D : d_get (map (upd f) A ++ p :: B) (kid (fst p)) = Some p) by (apply d_get_mid; auto).
  split; [exact D|]. split.
  - unfold next_res. rewrite D, (d_next_app_l _ _ _ G). cbn [d_next]. rewrite N.eqb_refl. reflexivity.
  - intros v'. rewrite d_replace_app, G. cbn [d_replace]. rewrite N.eqb_refl. reflexivity.
Qed.

Lemma fold_upd_map f : forall B A, NoDup (dkeys (A ++ B)) ->
  fold_upd f B (map (upd f) A ++ B) = map (upd f) (A ++ B).
Proof.
  induction B as [|p B IH]; intros A Hnd; [cbn; now rewrite !app_nil_r|].
  unfold fold_upd. cbn [fold_left]. fold (fold_upd f B).
  destruct (step_dict f A p B Hnd) as (_ & _ & R).
  replace (A ++ p :: B) with ((A ++ [p]) ++ B) in Hnd |- * by (now rewrite <- app_assoc).
  rewrite <- (IH (A ++ [p]) Hnd). f_equal. rewrite map_app, <- app_assoc. cbn [map app].
  destruct (f (fst p) (snd p)) as [v'|] eqn:Ef.
  - rewrite R, (upd_some _ _ _ Ef). reflexivity.
  - rewrite (upd_none _ _ Ef). reflexivity.
Qed.

(** ** element level (one logical hkeyElements; groups inline / external) *)
Section elems.
Variable dg : N -> nat -> N.
Variable levels : nat.
Variable max_inline_elem limit : N.
Variable f : kv -> kv -> option kv.
Hypothesis Hlv : (1 <= levels)%nat.
Local Notation mwf := (mwf dg levels).
Local Notation m_step := (m_step dg levels max_inline_elem limit).

(* mutableMapIterator.Next with the caller's Set of the key just handed out in between *)
Fixpoint miter_mut (fuel : nat) (s : mstate) (cur : option kv) : mstate * dict :=
  match fuel, cur with
  | S n, Some k =>
    match next_elems dg levels (op_fuel levels) (m_root s) 0 (kid k) with
    | inr (k0, v0, nk) =>
      let s1 := match f k0 v0 with
                | Some v' => fst (fst (m_step s (OSet k0 v')))
                | None => s
                end in
      let '(s2, ys) := miter_mut n s1 nk in (s2, (k0, v0) :: ys)
    | inl _ => (s, [])
    end
  | _, _ => (s, [])
  end.

Lemma miter_mut_gen : forall B A fuel s,
  NoDup (dkeys (A ++ B)) -> (length B < fuel)%nat -> mwf s ->
  to_list (m_root s) = map (upd f) A ++ B ->
  let r := miter_mut fuel s (option_map fst (hd_error B)) in
  snd r = B /\ to_list (m_root (fst r)) = map (upd f) (A ++ B) /\ mwf (fst r).
Proof.
  induction B as [|p B IH]; intros A fuel s Hnd Hfu Hs Hl; cbv zeta.
  - destruct fuel; cbn [miter_mut hd_error option_map fst snd]; rewrite Hl, !app_nil_r; auto.
  - destruct fuel as [|fuel]; [cbn in Hfu; lia|]. cbn [miter_mut hd_error option_map].
    destruct (next_spec dg levels (op_fuel levels)) as [_ NS].
    rewrite (NS (m_root s) 0%nat (kid (fst p))); [|unfold op_fuel; lia|apply Hs].
    rewrite Hl. destruct (step_dict f A p B Hnd) as (D & Nx & R). rewrite Nx.
    assert (H1 : exists s1, s1 = match f (fst p) (snd p) with
                                 | Some v' => fst (fst (m_step s (OSet (fst p) v')))
                                 | None => s end /\
                   mwf s1 /\ to_list (m_root s1) = map (upd f) (A ++ [p]) ++ B).
    { eexists. split; [reflexivity|]. rewrite map_app, <- app_assoc. cbn [map app].
      destruct (f (fst p) (snd p)) as [v'|] eqn:Ef.
      - rewrite <- Hl in D.
        destruct (updates_accepted dg levels max_inline_elem limit s (fst p) v' p Hlv Hs D) as (_ & E & W).
        split; [exact W|]. rewrite E, Hl, R, (upd_some _ _ _ Ef). reflexivity.
      - split; [exact Hs|]. rewrite (upd_none _ _ Ef). exact Hl. }
    destruct H1 as (s1 & E1 & W1 & L1). rewrite <- E1.
    replace (A ++ p :: B) with ((A ++ [p]) ++ B) in Hnd |- * by (now rewrite <- app_assoc).
    specialize (IH (A ++ [p]) fuel s1 Hnd ltac:(cbn in Hfu; lia) W1 L1). cbv zeta in IH.
    destruct (miter_mut fuel s1 (option_map fst (hd_error B))) as [s2 ys]. cbn [fst snd] in *.
    destruct IH as (I1 & I2 & I3). split; [destruct p; cbn [fst snd]; congruence|]. split; assumption.
Qed.

(* the statement of C13_map_mutation_during_iteration (element level) *)
Theorem map_mutation_during_iteration_elems s : mwf s ->
  let l := to_list (m_root s) in
  let r := miter_mut (S (length l)) s (first_key (m_root s)) in
  snd r = l /\ map fst (snd r) = map fst l /\ NoDup (dkeys l) /\
  to_list (m_root (fst r)) = map (upd f) l /\
  to_list (m_root (fst r)) = fold_upd f l l /\
  mwf (fst r).
Proof.
  intros Hs. cbv zeta. destruct (first_key_spec dg levels) as [_ FK]. rewrite (FK _ _ (proj1 Hs)).
  destruct (order_spec dg levels 0) as [_ O]. destruct (O _ 0%nat (proj1 Hs)) as [_ Hnd].
  pose proof (miter_mut_gen (to_list (m_root s)) [] (S (length (to_list (m_root s)))) s Hnd
                ltac:(lia) Hs eq_refl) as H. cbv zeta in H. cbn [app] in H.
  destruct H as (H1 & H2 & H3). split; [exact H1|]. split; [now rewrite H1|]. split; [exact Hnd|]. split; [exact H2|].
  split; [|exact H3]. rewrite H2. symmetry. apply (fold_upd_map f _ []). exact Hnd.
Qed.

End elems.

(** ** slab-tree level (data slabs, index slabs, root split / promotion) *)
Import MapTree MapTreeInv MapTree_proofs MapTreeOps_proofs MapTreeIter_proofs Map_proofs.

Section tree.
Variable dg : N -> nat -> N.
Variable levels : nat.
Variable T : N.
Hypothesis HT : valid_T T.
Hypothesis Hlv : (0 < levels)%nat.
Variable limit : N.
Variable ks : N -> N.
Variable f : kv -> kv -> option kv.
Local Notation c := (set_threshold T).
Local Notation M := (cinl_melem (set_threshold T)).
Local Notation minv := (minv dg levels T ks).
Local Notation mt_step := (mt_step dg levels M limit c).

Fixpoint mtiter_mut (fuel : nat) (t : mtree) (cur : option kv) : mtree * dict :=
  match fuel, cur with
  | S n, Some k =>
    match n_next dg levels (t_root t) (kid k) with
    | inr (k0, v0, nk) =>
      let t1 := match f k0 v0 with
                | Some v' => fst (fst (mt_step t (OSet k0 v')))
                | None => t
                end in
      let '(t2, ys) := mtiter_mut n t1 nk in (t2, (k0, v0) :: ys)
    | inl _ => (t, [])
    end
  | _, _ => (t, [])
  end.

(* getElementAndNextKey from the root slab = the element level on the logical hkeyElements *)
Lemma root_next r : mwf_root dg levels c r -> forall k,
  n_next dg levels r k = next_res (to_list_tree r) k.
Proof.
  intros Hr k. destruct (root_gtree dg levels T HT Hlv limit ks r Hr) as (_ & Wg & Etl).
  destruct (next_spec dg levels (op_fuel levels)) as [_ NS].
  rewrite Etl, <- (NS (gtree r) 0%nat k); [|unfold op_fuel; lia|exact Wg].
  destruct (mwf_root_cases dg levels T r Hr)
    as [(h & hks & els & -> & _)|(d & h & hs & cs & -> & Hw & _)].
  - reflexivity.
  - apply (n_next_ok dg levels T HT Hlv _ _ k Hw).
Qed.

(* one accepted update of a present key, at the tree level *)
Lemma tree_update t k v p : minv t -> d_get (to_list_tree (t_root t)) (kid k) = Some p ->
  pair_ok T ks (k, v) ->
  let t1 := fst (fst (mt_step t (OSet k v))) in
  minv t1 /\ t_rootid t1 = t_rootid t /\
  to_list_tree (t_root t1) = d_replace (to_list_tree (t_root t)) (kid k) v.
Proof.
  intros Hi D Hok. cbv zeta.
  pose proof (mt_step_ok dg levels T HT Hlv limit ks t (OSet k v) Hi Hok) as St.
  destruct (minv_state dg levels T HT Hlv limit ks t Hi) as (Hw & _).
  rewrite <- (minv_list dg levels T HT Hlv limit ks t Hi) in D |- *.
  destruct (updates_accepted dg levels M limit (mstate_of_tree t) k v p Hlv Hw D) as (_ & E & _).
  destruct (mt_step t (OSet k v)) as [[t1 x] lg].
  destruct (m_step dg levels M limit (mstate_of_tree t) (OSet k v)) as [[s1 y] evs].
  cbn [fst snd] in *. destruct St as (_ & Er & _ & Hi1 & Id1).
  split; [exact Hi1|]. split; [exact Id1|].
  rewrite <- (minv_list dg levels T HT Hlv limit ks t1 Hi1). unfold mstate_of_tree at 1. cbn [m_root].
  rewrite <- Er. exact E.
Qed.

Lemma mtiter_mut_gen : forall B A fuel t,
  NoDup (dkeys (A ++ B)) -> (length B < fuel)%nat -> minv t ->
  to_list_tree (t_root t) = map (upd f) A ++ B ->
  (forall p v', In p B -> f (fst p) (snd p) = Some v' -> ssize (fst p) v' <= M) ->
  let r := mtiter_mut fuel t (option_map fst (hd_error B)) in
  snd r = B /\ to_list_tree (t_root (fst r)) = map (upd f) (A ++ B) /\ minv (fst r) /\
  t_rootid (fst r) = t_rootid t.
Proof.
  induction B as [|p B IH]; intros A fuel t Hnd Hfu Hi Hl Hf; cbv zeta.
  - destruct fuel; cbn [mtiter_mut hd_error option_map fst snd]; rewrite Hl, !app_nil_r; auto.
  - destruct fuel as [|fuel]; [cbn in Hfu; lia|]. cbn [mtiter_mut hd_error option_map].
    rewrite (root_next _ (proj1 (proj1 Hi))). rewrite Hl.
    destruct (step_dict f A p B Hnd) as (D & Nx & R). rewrite Nx.
    assert (H1 : exists t1, t1 = match f (fst p) (snd p) with
                                 | Some v' => fst (fst (mt_step t (OSet (fst p) v')))
                                 | None => t end /\
                   minv t1 /\ t_rootid t1 = t_rootid t /\
                   to_list_tree (t_root t1) = map (upd f) (A ++ [p]) ++ B).
    { eexists. split; [reflexivity|]. rewrite map_app, <- app_assoc. cbn [map app].
      destruct (f (fst p) (snd p)) as [v'|] eqn:Ef.
      - rewrite <- Hl in D.
        assert (Hok : pair_ok T ks (fst p, v')).
        { split; cbn [fst snd]; [|apply (Hf p v'); [now left|exact Ef]].
          destruct Hi as (_ & _ & Hp). rewrite Hl in Hp. unfold pairs_ok in Hp.
          apply Forall_app in Hp. destruct Hp as (_ & Hp). apply Forall_inv in Hp. apply Hp. }
        destruct (tree_update t (fst p) v' p Hi D Hok) as (W & Id & E).
        split; [exact W|]. split; [exact Id|]. rewrite E, Hl, R, (upd_some _ _ _ Ef). reflexivity.
      - split; [exact Hi|]. split; [reflexivity|]. rewrite (upd_none _ _ Ef). exact Hl. }
    destruct H1 as (t1 & E1 & W1 & Id1 & L1). rewrite <- E1.
    replace (A ++ p :: B) with ((A ++ [p]) ++ B) in Hnd |- * by (now rewrite <- app_assoc).
    specialize (IH (A ++ [p]) fuel t1 Hnd ltac:(cbn in Hfu; lia) W1 L1
                   (fun q v' Hq => Hf q v' (or_intror Hq))). cbv zeta in IH.
    destruct (mtiter_mut fuel t1 (option_map fst (hd_error B))) as [t2 ys]. cbn [fst snd] in *.
    destruct IH as (I1 & I2 & I3 & I4).
    split; [destruct p; cbn [fst snd]; congruence|]. split; [assumption|]. split; [assumption|congruence].
Qed.

(* the statement of C13_map_mutation_during_iteration (slab tree) *)
Theorem map_mutation_during_iteration_tree t : minv t ->
  (forall k v v', In (k, v) (to_list_tree (t_root t)) -> f k v = Some v' -> ssize k v' <= M) ->
  let l := to_list_tree (t_root t) in
  let r := mtiter_mut (S (length l)) t (first_key_tree (t_root t)) in
  snd r = l /\ map fst (snd r) = map fst l /\ NoDup (dkeys l) /\
  to_list_tree (t_root (fst r)) = map (upd f) l /\
  to_list_tree (t_root (fst r)) = fold_upd f l l /\
  minv (fst r) /\ t_rootid (fst r) = t_rootid t /\ t_count (fst r) = t_count t.
Proof.
  intros Hi Hf. cbv zeta.
  pose proof (proj1 (proj1 Hi)) as Hr.
  destruct (root_gtree dg levels T HT Hlv limit ks _ Hr) as (_ & Wg & Etl).
  destruct (root_iter dg levels T HT Hlv _ Hr) as (Fk & _). rewrite Fk.
  destruct (first_key_spec dg levels) as [_ FK]. rewrite (FK _ _ Wg), <- Etl.
  destruct (order_spec dg levels 0) as [_ O]. destruct (O _ 0%nat Wg) as [_ Hnd]. rewrite <- Etl in Hnd.
  pose proof (mtiter_mut_gen (to_list_tree (t_root t)) [] (S (length (to_list_tree (t_root t)))) t Hnd
                ltac:(lia) Hi eq_refl) as H. cbv zeta in H. cbn [app] in H.
  destruct H as (H1 & H2 & H3 & H4).
  { intros [k v] v' Hin. cbn [fst snd]. apply Hf, Hin. }
  split; [exact H1|]. split; [now rewrite H1|]. split; [exact Hnd|]. split; [exact H2|].
  split; [rewrite H2; symmetry; apply (fold_upd_map f _ []); exact Hnd|].
  split; [exact H3|]. split; [exact H4|].
  destruct H3 as ((_ & C2) & _). destruct Hi as ((_ & C1) & _).
  rewrite C1, C2, H2, map_length. reflexivity.
Qed.

End tree.
End MapMut.
