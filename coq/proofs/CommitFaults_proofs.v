(* CommitFaults_proofs.v — the two directions of "the commit reports an error" (C14) that
   StorageProps_proofs.failed_commit_reports leaves open, and the map analogue of
   DurableFaults_proofs.retry_converges_arr.

   A. [apply_writes] over a duplicate-free list of identifiers that all have a pending change
      (the sorted owned keys of the deterministic commit; every COMPLETE admissible order of the
      order-relaxed commit) issues exactly one ledger call per identifier.  Hence with
      n := length (owned_delta_keys s):
        k <  n : the fault at position k fires: the commit answers failure, its log is the first
                 k+1 calls of the fault-free log (k successful calls and the failing one), the
                 first k calls are applied (pending change gone, register = the visible value) and
                 every other identifier is untouched (still pending, register unchanged)
                 ([fault_fires_is_reported]);
        n <= k : the fault does not fire: the commit step (state AND answer) equals the fault-free
                 one ([fault_beyond_calls_is_fault_free]).
      Both are stated for a commit kind [cm : option nat -> sop] that is either [SFastCommit] or
      [SNondetCommit order] with [order_ok s order true = true], i.e. an admissible order that is a
      permutation of the owned dirty keys ([order_ok_complete_perm]).  NOTE: [nondet_commit] with
      [fail = Some k] also accepts INCOMPLETE orders (a superset of the behaviours of the Go code);
      for those the number of calls is the length of the order, not n — the generic lemmas
      [aw_fail_fires] / [aw_fail_beyond] cover them, the theorems are stated for complete orders.
   B. [mretry_converges]: maps, any tail of commit attempts followed by a fault-free commit. *)
From stdpp Require Import gmap sorting.
From Coq Require Import ZArith NArith List Bool Lia ZifyBool ZifyN ZifyNat Permutation.
From AtreeGen Require Import Consts.
From AtreeModel Require Import Storage StorageSpec Settings ArrayTree ArrayInv Durable.
From AtreeProofs Require Import Storage_proofs Commit_proofs StorageProps_proofs Cache_proofs
  ArrayFrame_proofs Settings_proofs Array_proofs Durable_proofs DurableFaults_proofs.
From AtreeModel Require Import MapElems MapElemsInv MapTree MapTreeInv DurableMap.
From AtreeProofs Require Import MapFrame_proofs Map_proofs DurableMap_proofs.
Local Open Scope N_scope.

(** * A. One call per identifier *)

(* the state after the loop iterations for [l] *)
Definition pass (s : st) (l : list sid) : st := fold_left (fun s i => fst (apply_one s i)) l s.

(* the calls the loop issues for [l] when every identifier of [l] has a pending change *)
Definition calls_of (s : st) (l : list sid) : Storage.wlog := map (fun i => (is_mod s i, i)) l.

Lemma call_of_pending s i : deltas s !! i <> None -> call_of s i = Some (is_mod s i, i).
Proof. unfold call_of, is_mod. destruct (deltas s !! i) as [[v|]|]; congruence. Qed.

Lemma apply_one_other s i j : j <> i ->
  deltas (fst (apply_one s i)) !! j = deltas s !! j /\
  cache (fst (apply_one s i)) !! j = cache s !! j /\
  base (fst (apply_one s i)) !! j = base s !! j.
Proof.
  intros Hne. unfold apply_one. destruct (deltas s !! i) as [[v|]|]; cbn [fst deltas cache base];
    rewrite ?lookup_delete_ne, ?lookup_insert_ne by congruence; auto.
Qed.

Lemma apply_one_self s i : deltas s !! i <> None ->
  deltas (fst (apply_one s i)) !! i = None /\ base (fst (apply_one s i)) !! i = view s i.
Proof.
  intros Hp. unfold apply_one, view. destruct (deltas s !! i) as [[v|]|]; [| |congruence];
    cbn [fst deltas cache base]; rewrite ?lookup_delete, ?lookup_insert; auto.
Qed.

(* write-through never changes what is visible (no condition on the state) *)
Lemma apply_one_view s i j : view (fst (apply_one s i)) j = view s j.
Proof.
  destruct (decide (j = i)) as [->|Hne].
  - unfold apply_one, view. destruct (deltas s !! i) as [[v|]|] eqn:E; cbn [fst deltas cache base];
      rewrite ?lookup_delete, ?lookup_insert, ?E; reflexivity.
  - destruct (apply_one_other s i j Hne) as (D & C & B). unfold view. rewrite D, C, B. reflexivity.
Qed.

Lemma pass_view l : forall s j, view (pass s l) j = view s j.
Proof.
  induction l as [|i r IH]; intros s j; [reflexivity|].
  change (pass s (i :: r)) with (pass (fst (apply_one s i)) r). rewrite IH. apply apply_one_view.
Qed.

Lemma pass_notin l : forall s j, j ∉ l ->
  deltas (pass s l) !! j = deltas s !! j /\ cache (pass s l) !! j = cache s !! j /\
  base (pass s l) !! j = base s !! j.
Proof.
  induction l as [|i r IH]; intros s j Hj; [cbn; auto|].
  apply not_elem_of_cons in Hj as [Hne Hr]. cbn [pass fold_left].
  destruct (IH (fst (apply_one s i)) j Hr) as (D & C & B). fold (pass (fst (apply_one s i)) r).
  destruct (apply_one_other s i j Hne) as (D1 & C1 & B1).
  unfold pass in *. rewrite D, C, B. auto.
Qed.

Lemma pass_in l : base.NoDup l -> forall s j, j ∈ l -> deltas s !! j <> None ->
  deltas (pass s l) !! j = None /\ base (pass s l) !! j = view s j.
Proof.
  induction 1 as [|i r Hi Hnd IH]; intros s j Hj Hp; [inversion Hj|].
  change (pass s (i :: r)) with (pass (fst (apply_one s i)) r).
  destruct (decide (j = i)) as [->|Hne].
  - destruct (pass_notin r (fst (apply_one s i)) i Hi) as (D & _ & B). rewrite D, B.
    apply apply_one_self, Hp.
  - assert (Hr : j ∈ r) by (apply elem_of_cons in Hj as [?|?]; [congruence|assumption]).
    destruct (apply_one_other s i j Hne) as (D1 & C1 & B1).
    destruct (IH (fst (apply_one s i)) j Hr) as (D & B); [congruence|].
    split; [exact D|]. rewrite B. unfold view. rewrite D1, C1, B1. reflexivity.
Qed.

Lemma calls_of_apply_one s i r : i ∉ r -> calls_of (fst (apply_one s i)) r = calls_of s r.
Proof.
  intros Hi. unfold calls_of. apply map_ext_in. intros j Hj. f_equal.
  unfold is_mod. destruct (apply_one_other s i j) as (D & _); [|rewrite D; reflexivity].
  intros ->. apply Hi, elem_of_list_In, Hj.
Qed.

Lemma pending_apply_one s i r : i ∉ r -> (forall j, j ∈ i :: r -> deltas s !! j <> None) ->
  forall j, j ∈ r -> deltas (fst (apply_one s i)) !! j <> None.
Proof.
  intros Hi Hp j Hj. destruct (apply_one_other s i j) as (D & _); [intros ->; tauto|].
  rewrite D. apply Hp. right. exact Hj.
Qed.

(* no fault: one call per identifier, all of them applied *)
Lemma aw_nofail ids : base.NoDup ids -> forall s log, (forall i, i ∈ ids -> deltas s !! i <> None) ->
  apply_writes ids None s log = (pass s ids, true, rev log ++ calls_of s ids).
Proof.
  induction 1 as [|i r Hi Hnd IH]; intros s log Hp; cbn [apply_writes].
  - cbn. rewrite app_nil_r. reflexivity.
  - rewrite (call_of_pending s i) by (apply Hp; left).
    rewrite IH by (apply pending_apply_one; assumption).
    rewrite calls_of_apply_one by exact Hi. cbn [rev calls_of map]. rewrite <- app_assoc. reflexivity.
Qed.

(* the fault fires: k successful calls and the failing one; the first k are applied *)
Lemma aw_fail_fires ids : base.NoDup ids -> forall k s log, (forall i, i ∈ ids -> deltas s !! i <> None) ->
  (k < length ids)%nat ->
  apply_writes ids (Some k) s log =
  (pass s (firstn k ids), false, rev log ++ firstn (S k) (calls_of s ids)).
Proof.
  induction 1 as [|i r Hi Hnd IH]; intros k s log Hp Hk; [cbn in Hk; lia|].
  cbn [apply_writes]. rewrite (call_of_pending s i) by (apply Hp; left).
  destruct k as [|k].
  - cbn. reflexivity.
  - rewrite IH; [|apply pending_apply_one; assumption|cbn in Hk; lia].
    rewrite calls_of_apply_one by exact Hi.
    change (calls_of s (i :: r)) with ((is_mod s i, i) :: calls_of s r).
    cbn [rev firstn pass fold_left]. rewrite <- app_assoc. reflexivity.
Qed.

(* the fault position lies beyond the calls of this commit: nothing fails *)
Lemma aw_fail_beyond ids : base.NoDup ids -> forall k s log, (forall i, i ∈ ids -> deltas s !! i <> None) ->
  (length ids <= k)%nat ->
  apply_writes ids (Some k) s log = apply_writes ids None s log.
Proof.
  induction 1 as [|i r Hi Hnd IH]; intros k s log Hp Hk; [reflexivity|].
  cbn [apply_writes]. rewrite (call_of_pending s i) by (apply Hp; left).
  destruct k as [|k]; [cbn in Hk; lia|].
  apply IH; [apply pending_apply_one; assumption|cbn in Hk; lia].
Qed.

(** ** the two commit kinds *)

Lemma sorted_owned_NoDup s : base.NoDup (sorted_owned_delta_keys s).
Proof. unfold sorted_owned_delta_keys. rewrite merge_sort_Permutation. apply (NoDup_sp_owned_keys (abs s)). Qed.

Lemma sorted_owned_perm s : sorted_owned_delta_keys s ≡ₚ owned_delta_keys s.
Proof. unfold sorted_owned_delta_keys. apply merge_sort_Permutation. Qed.

(* a complete admissible order is a permutation of the owned dirty keys *)
Lemma order_ok_complete_perm s order :
  order_ok s order true = true -> base.NoDup order /\ order ≡ₚ owned_delta_keys s.
Proof.
  unfold order_ok. intros H.
  apply andb_prop in H; destruct H as [H Hlen].
  apply andb_prop in H; destruct H as [H _].
  apply andb_prop in H; destruct H as [Hnd Hsub].
  apply Nat.eqb_eq in Hlen. unfold nodupb in Hnd. apply bool_decide_eq_true in Hnd.
  split; [exact Hnd|].
  apply submseteq_Permutation_length_eq; [lia|].
  apply NoDup_submseteq; [exact Hnd|]. intros x Hx. rewrite forallb_forall in Hsub.
  specialize (Hsub x (proj1 (elem_of_list_In _ _) Hx)). apply bool_decide_eq_true in Hsub. exact Hsub.
Qed.

Lemma order_ok_complete_incomplete s order :
  order_ok s order true = true -> order_ok s order false = true.
Proof.
  unfold order_ok. intros H. apply andb_prop in H; destruct H as [H _]. rewrite H. reflexivity.
Qed.

(* the kinds of commit the theorems speak about: the deterministic commit, or the order-relaxed
   commit with an admissible COMPLETE processing order (a permutation of the owned dirty keys) *)
Definition commit_kind (s : st) (cm : option nat -> sop) : Prop :=
  cm = SFastCommit \/ exists order, cm = SNondetCommit order /\ order_ok s order true = true.

(* the identifiers a commit kind processes, in processing order *)
Lemma commit_kind_ids s cm : commit_kind s cm ->
  exists ids, base.NoDup ids /\ ids ≡ₚ owned_delta_keys s /\
    forall fail, step s (cm fail) =
      (fst (fst (apply_writes ids fail s [])),
       OCommit (snd (fst (apply_writes ids fail s []))) (snd (apply_writes ids fail s []))).
Proof.
  intros [->|(order & -> & Hok)].
  - exists (sorted_owned_delta_keys s). split; [apply sorted_owned_NoDup|]. split; [apply sorted_owned_perm|].
    intros fail. cbn [step]. unfold fast_commit.
    destruct (apply_writes (sorted_owned_delta_keys s) fail s []) as [[s' ok] log]. reflexivity.
  - destruct (order_ok_complete_perm s order Hok) as [Hnd Hperm].
    exists order. split; [exact Hnd|]. split; [exact Hperm|].
    intros fail. cbn [step]. unfold nondet_commit.
    assert (E : order_ok s order match fail with Some _ => false | None => true end = true).
    { destruct fail; [apply order_ok_complete_incomplete|]; exact Hok. }
    rewrite E. destruct (apply_writes order fail s []) as [[s' ok] log]. reflexivity.
Qed.

Lemma perm_owned_pending s ids : ids ≡ₚ owned_delta_keys s -> forall i, i ∈ ids -> deltas s !! i <> None.
Proof. intros Hp i Hi. rewrite Hp in Hi. apply elem_of_owned_delta_keys in Hi. tauto. Qed.

Lemma map_snd_calls_of s l : map snd (calls_of s l) = l.
Proof. unfold calls_of. rewrite map_map. cbn. apply map_id. Qed.

Lemma firstn_map_snd k (l : Storage.wlog) : map snd (firstn k l) = firstn k (map snd l).
Proof. symmetry. apply firstn_map. Qed.

(** C14, "the commit reports an error", the missing direction.  n = number of owned dirty slabs =
    number of ledger calls of the fault-free commit (one per slab, [map snd log0] is a permutation
    of the owned dirty keys).  If k < n, the commit with a fault at call k answers FAILURE, its
    log is exactly the first k+1 calls of the fault-free log, the identifiers of the first k calls
    are written through (no longer pending, register = the value that was visible), and every
    other identifier is untouched (pending change and register as before). *)
Theorem fault_fires_is_reported s cm k : commit_kind s cm ->
  let n := length (owned_delta_keys s) in
  exists s0 log0,
    step s (cm None) = (s0, OCommit true log0) /\ length log0 = n /\
    map snd log0 ≡ₚ owned_delta_keys s /\
    ((k < n)%nat ->
     exists s', step s (cm (Some k)) = (s', OCommit false (firstn (S k) log0)) /\
       length (firstn (S k) log0) = S k /\
       (forall j, j ∈ map snd (firstn k log0) ->
          deltas s !! j <> None /\ deltas s' !! j = None /\ base s' !! j = view s j) /\
       (forall j, j ∉ map snd (firstn k log0) ->
          deltas s' !! j = deltas s !! j /\ base s' !! j = base s !! j) /\
       (forall j, view s' j = view s j)).
Proof.
  intros Hk n. destruct (commit_kind_ids s cm Hk) as (ids & Hnd & Hperm & Hstep).
  pose proof (perm_owned_pending s ids Hperm) as Hp.
  assert (Hlen : length ids = n) by (unfold n; rewrite Hperm; reflexivity).
  exists (pass s ids), (calls_of s ids).
  split; [rewrite Hstep, aw_nofail by assumption; reflexivity|].
  split; [unfold calls_of; rewrite map_length; exact Hlen|].
  split; [rewrite map_snd_calls_of; exact Hperm|].
  intros Hlt. exists (pass s (firstn k ids)).
  split; [rewrite Hstep, aw_fail_fires by (try assumption; lia); reflexivity|].
  split; [unfold calls_of; rewrite firstn_length, map_length; lia|].
  rewrite firstn_map_snd, map_snd_calls_of.
  assert (Hnd' : base.NoDup (firstn k ids)).
  { rewrite <- (firstn_skipn k ids) in Hnd. apply list.NoDup_app in Hnd. tauto. }
  assert (Hsub : forall j, j ∈ firstn k ids -> j ∈ ids).
  { intros j Hj. rewrite <- (firstn_skipn k ids). apply elem_of_app. left. exact Hj. }
  split; [|split].
  - intros j Hj. pose proof (Hp j (Hsub j Hj)) as Hpj.
    split; [exact Hpj|]. apply pass_in; assumption.
  - intros j Hj. destruct (pass_notin (firstn k ids) s j Hj) as (D & _ & B). auto.
  - intros j. apply pass_view.
Qed.

(** ... and the converse: a fault position at or beyond the number of calls does not fire; the
    commit step (resulting state and answer, i.e. success flag and call log) is the fault-free one *)
Theorem fault_beyond_calls_is_fault_free s cm k : commit_kind s cm ->
  (length (owned_delta_keys s) <= k)%nat ->
  step s (cm (Some k)) = step s (cm None) /\
  exists s0 log0, step s (cm None) = (s0, OCommit true log0) /\ length log0 = length (owned_delta_keys s).
Proof.
  intros Hk Hle. destruct (commit_kind_ids s cm Hk) as (ids & Hnd & Hperm & Hstep).
  pose proof (perm_owned_pending s ids Hperm) as Hp.
  assert (Hlen : length ids = length (owned_delta_keys s)) by (rewrite Hperm; reflexivity).
  split.
  - rewrite !Hstep, aw_fail_beyond by (try assumption; lia). reflexivity.
  - exists (pass s ids), (calls_of s ids).
    split; [rewrite Hstep, aw_nofail by assumption; reflexivity|].
    unfold calls_of. rewrite map_length. exact Hlen.
Qed.

(** * B. Ordered maps: retry convergence *)

Section map_retry_def.
  Variable dg : N -> nat -> N.
  Variable levels : nat.
  Variable max_inline_elem : N.
  Variable limit : N.
  Variable c : cfg.
  Notation mfrun := (mfrun dg levels max_inline_elem limit c).

  Lemma mfrun_app K addr : forall l1 l2 t s,
    mfrun K addr t s (l1 ++ l2) = mfrun K addr (fst (mfrun K addr t s l1)) (snd (mfrun K addr t s l1)) l2.
  Proof.
    induction l1 as [|[o|cm] r IH]; intros l2 t s; [reflexivity| |]; cbn [app DurableFaults_proofs.mfrun].
    - destruct (mt_step dg levels max_inline_elem limit c t o) as [[t1 x] lg]. apply IH.
    - apply IH.
  Qed.

  Lemma mfrun_tries K addr cs : forall t s,
    mfrun K addr t s (map MFTry cs) = (t, fst (run s cs)).
  Proof.
    induction cs as [|cm r IH]; intros t s; [reflexivity|].
    cbn [map DurableFaults_proofs.mfrun]. rewrite IH, run_cons. reflexivity.
  Qed.
End map_retry_def.

Section map_retry.
  Variable K : mslab_codec.
  Variable T : N.
  Variable dg : N -> nat -> N.
  Variable levels : nat.
  Variable limit : N.
  Variable addr rootid : N.
  Hypothesis Ha : addr <> 0.
  Hypothesis Hr : 0 < rootid.
  Variable s0 : st.
  Hypothesis Hs0 : reachable s0.
  Hypothesis Hfresh : forall id, view s0 (addr, id) = None.
  Notation c := (set_threshold T).
  Notation M := (cinl_melem (set_threshold T)).
  Notation mfrun := (mfrun dg levels M limit c).
  Notation t0 := (fst (mt_init rootid)).
  Notation sc := (fst (run s0 (minit_sops K addr rootid))).

  (** any tail of commit attempts [cs] followed by the fault-free commit is equivalent to ONE
      fault-free deterministic commit issued instead of them (maps) *)
  Theorem mretry_converges l cs final :
    mtries_ok l = true -> forallb is_commit cs = true ->
    let st := mfrun K addr t0 sc l in
    let st' := mfrun K addr t0 sc (l ++ map MFTry cs) in
    final_ok (snd st') final ->
    fst st' = fst st /\ snd st' = fst (run (snd st) cs) /\
    base (fst (step (snd st') final)) = base (fst (step (snd st) (SFastCommit None))) /\
    deltas (fst (step (snd st') final)) = deltas (fst (step (snd st) (SFastCommit None))).
  Proof.
    intros Hl Hcs st st' Hfin.
    assert (E : st' = (fst st, fst (run (snd st) cs))).
    { unfold st'. rewrite mfrun_app. fold st. apply mfrun_tries. }
    rewrite E in *. cbn [fst snd] in *. split; [reflexivity|]. split; [reflexivity|].
    pose proof (reachable_coherent _ Hs0) as Hc0.
    destruct (mfrun_inv dg levels M limit c K addr Ha l t0 sc Hl (finv_init dg levels M rootid Hr)
                (coherent_run _ _ Hc0) (mholds_create dg levels K addr rootid s0 Ha Hc0 Hfresh)) as (_ & C1 & _).
    fold st in C1.
    destruct (retry_converges_model (snd st) cs final C1 Hcs Hfin) as (B & D & _). auto.
  Qed.
End map_retry.
