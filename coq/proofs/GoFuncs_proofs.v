(* GoFuncs_proofs.v — the Gallina transcriptions of Go functions that `harness gen-go` regenerates from
   the library's SOURCE TEXT on every run (gen/GoFuncs.v) are extensionally equal to the hand-written
   model functions the property theorems are stated about (Codec.v, DecodeSafe.v, Settings.v, Nested.v,
   and the rebalancing decisions of ArrayTree.v / MapTree.v).
   An edit of such a Go function changes GoFuncs.v and makes the matching lemma below fail.

   Domains: every lemma is for ALL arguments unless a hypothesis restricts it to the range of the Go
   parameter type (bytes < 256, uint32 < 2^32) or to the function's precondition (valid slab size).
   No sampling: the proofs are by unfolding and linear arithmetic / case analysis. *)
From Coq Require Import NArith ZArith List Bool Lia ZifyBool ZifyN.
From AtreeGen Require Import Consts CodecConsts.
From AtreeGen Require GoFuncs.
From AtreeModel Require Codec Settings DecodeSafe Nested ArrayTree MapTree.
Import ListNotations.
Local Open Scope N_scope.
Ltac Zify.zify_post_hook ::= Z.div_mod_to_equations.

(* ------------------------------------------------------------------------------------------ *)
(* constants: parsed from the source text (GoFuncs.k_NAME) = observed at run time (Consts.c_NAME)     *)
(* ------------------------------------------------------------------------------------------ *)

Definition gen_size_consts : list (N * N) := [
  (GoFuncs.k_defaultSlabSize, c_defaultSlabSize); (GoFuncs.k_minSlabSize, c_minSlabSize);
  (GoFuncs.k_maxSlabSize, c_maxSlabSize); (GoFuncs.k_minElementCountInSlab, c_minElementCountInSlab);
  (GoFuncs.k_versionAndFlagSize, c_versionAndFlagSize); (GoFuncs.k_SlabAddressLength, c_slabAddressLength);
  (GoFuncs.k_SlabIndexLength, c_slabIndexLength); (GoFuncs.k_SlabIDLength, c_slabIDLength);
  (GoFuncs.k_arraySlabHeaderSize, c_arraySlabHeaderSize);
  (GoFuncs.k_arrayMetaDataSlabPrefixSize, c_arrayMetaDataSlabPrefixSize);
  (GoFuncs.k_arrayDataSlabElementHeadSize, c_arrayDataSlabElementHeadSize);
  (GoFuncs.k_arrayDataSlabPrefixSize, c_arrayDataSlabPrefixSize);
  (GoFuncs.k_arrayRootDataSlabPrefixSize, c_arrayRootDataSlabPrefixSize);
  (GoFuncs.k_inlinedArrayDataSlabPrefixSize, c_inlinedArrayDataSlabPrefixSize);
  (GoFuncs.k_maxInlinedExtraDataIndex, c_maxInlinedExtraDataIndex);
  (GoFuncs.k_digestSize, c_digestSize); (GoFuncs.k_singleElementPrefixSize, c_singleElementPrefixSize);
  (GoFuncs.k_inlineCollisionGroupPrefixSize, c_inlineCollisionGroupPrefixSize);
  (GoFuncs.k_externalCollisionGroupPrefixSize, c_externalCollisionGroupPrefixSize);
  (GoFuncs.k_digestPrefixSize, c_digestPrefixSize); (GoFuncs.k_elementPrefixSize, c_elementPrefixSize);
  (GoFuncs.k_hkeyElementsPrefixSize, c_hkeyElementsPrefixSize);
  (GoFuncs.k_singleElementsPrefixSize, c_singleElementsPrefixSize);
  (GoFuncs.k_mapSlabHeaderSize, c_mapSlabHeaderSize);
  (GoFuncs.k_mapMetaDataSlabPrefixSize, c_mapMetaDataSlabPrefixSize);
  (GoFuncs.k_mapDataSlabPrefixSize, c_mapDataSlabPrefixSize);
  (GoFuncs.k_mapRootDataSlabPrefixSize, c_mapRootDataSlabPrefixSize);
  (GoFuncs.k_maxDigestLevel, c_maxDigestLevel);
  (GoFuncs.k_inlinedMapDataSlabPrefixSize, c_inlinedMapDataSlabPrefixSize) ].

Definition gen_codec_consts : list (N * N) := [
  (GoFuncs.k_maskVersion, c_maskVersion); (GoFuncs.k_maskHasNextSlabID, c_maskHasNextSlabID);
  (GoFuncs.k_maskHasInlinedSlabs, c_maskHasInlinedSlabs); (GoFuncs.k_maskSlabRoot, c_maskSlabRoot);
  (GoFuncs.k_maskSlabHasPointers, c_maskSlabHasPointers); (GoFuncs.k_maskSlabAnySize, c_maskSlabAnySize);
  (GoFuncs.k_maskArrayData, c_maskArrayData); (GoFuncs.k_maskArrayMeta, c_maskArrayMeta);
  (GoFuncs.k_maskMapData, c_maskMapData); (GoFuncs.k_maskMapMeta, c_maskMapMeta);
  (GoFuncs.k_maskCollisionGroup, c_maskCollisionGroup); (GoFuncs.k_maskStorable, c_maskStorable);
  (GoFuncs.k_maxVersion, c_maxVersion);
  (GoFuncs.k_minInternalCBORTagNumber, c_minInternalCBORTagNumber);
  (GoFuncs.k_maxInternalCBORTagNumber, c_maxInternalCBORTagNumber) ].

Lemma gen_size_consts_eq : forall p, In p gen_size_consts -> fst p = snd p.
Proof. apply Forall_forall. unfold gen_size_consts. repeat constructor. Qed.

Lemma gen_codec_consts_eq : forall p, In p gen_codec_consts -> fst p = snd p.
Proof. apply Forall_forall. unfold gen_codec_consts. repeat constructor. Qed.

(* the enumeration constants of flag.go, as DecodeSafe.v's inductive types number them *)
Definition slabType_code (t : DecodeSafe.slabType) : Z :=
  match t with
  | DecodeSafe.slabTypeUndefined => GoFuncs.k_slabTypeUndefined | DecodeSafe.slabArray => GoFuncs.k_slabArray
  | DecodeSafe.slabMap => GoFuncs.k_slabMap | DecodeSafe.slabStorable => GoFuncs.k_slabStorable
  end.
Definition slabArrayType_code (t : DecodeSafe.slabArrayType) : Z :=
  match t with
  | DecodeSafe.slabArrayUndefined => GoFuncs.k_slabArrayUndefined | DecodeSafe.slabArrayData => GoFuncs.k_slabArrayData
  | DecodeSafe.slabArrayMeta => GoFuncs.k_slabArrayMeta
  | DecodeSafe.slabLargeImmutableArray => GoFuncs.k_slabLargeImmutableArray
  end.
Definition slabMapType_code (t : DecodeSafe.slabMapType) : Z :=
  match t with
  | DecodeSafe.slabMapUndefined => GoFuncs.k_slabMapUndefined | DecodeSafe.slabMapData => GoFuncs.k_slabMapData
  | DecodeSafe.slabMapMeta => GoFuncs.k_slabMapMeta | DecodeSafe.slabMapLargeEntry => GoFuncs.k_slabMapLargeEntry
  | DecodeSafe.slabMapCollisionGroup => GoFuncs.k_slabMapCollisionGroup
  end.

(* the codes are pairwise different, so the coding loses nothing *)
Lemma slabType_code_inj : forall a b, slabType_code a = slabType_code b -> a = b.
Proof. intros [] []; vm_compute; intros H; try reflexivity; discriminate H. Qed.
Lemma slabArrayType_code_inj : forall a b, slabArrayType_code a = slabArrayType_code b -> a = b.
Proof. intros [] []; vm_compute; intros H; try reflexivity; discriminate H. Qed.
Lemma slabMapType_code_inj : forall a b, slabMapType_code a = slabMapType_code b -> a = b.
Proof. intros [] []; vm_compute; intros H; try reflexivity; discriminate H. Qed.

(* ------------------------------------------------------------------------------------------ *)
(* encode.go: GetUintCBORSize                                                                  *)
(* ------------------------------------------------------------------------------------------ *)

Lemma gen_GetUintCBORSize_eq : forall n, GoFuncs.GetUintCBORSize n = Codec.cbor_head_len n.
Proof.
  intros n. unfold GoFuncs.GetUintCBORSize, Codec.cbor_head_len,
    GoFuncs.k_math_MaxUint8, GoFuncs.k_math_MaxUint16, GoFuncs.k_math_MaxUint32.
  destruct (n <=? 23) eqn:E1; destruct (n <? 24) eqn:F1; try lia; try reflexivity.
  destruct (n <=? 255) eqn:E2; destruct (n <? 256) eqn:F2; try lia; try reflexivity.
  destruct (n <=? 65535) eqn:E3; destruct (n <? 65536) eqn:F3; try lia; try reflexivity.
  destruct (n <=? 4294967295) eqn:E4; destruct (n <? 4294967296) eqn:F4; try lia; reflexivity.
Qed.

(* the size is the length of the head the encoder writes (Codec.cbor_head), for every major type *)
Lemma gen_GetUintCBORSize_is_head_length :
  forall mt n, n < Codec.two64 -> Codec.lenN (Codec.cbor_head mt n) = GoFuncs.GetUintCBORSize n.
Proof.
  intros mt n _. rewrite gen_GetUintCBORSize_eq. unfold Codec.cbor_head, Codec.cbor_head_len.
  destruct (n <? 24); [reflexivity|]. destruct (n <? 256); [reflexivity|].
  destruct (n <? 65536); [reflexivity|]. destruct (n <? 4294967296); reflexivity.
Qed.

(* ------------------------------------------------------------------------------------------ *)
(* math_utils.go                                                                               *)
(* ------------------------------------------------------------------------------------------ *)

Definition safe_add_result (o : option N) : N * bool :=
  match o with Some s => (s, true) | None => (0, false) end.

Lemma gen_safeAdd2Uint32_eq :
  forall a b, GoFuncs.safeAdd2Uint32 a b = safe_add_result (DecodeSafe.safeAdd2Uint32 a b).
Proof.
  intros a b. unfold GoFuncs.safeAdd2Uint32, DecodeSafe.safeAdd2Uint32, DecodeSafe.maxUint32,
    GoFuncs.k_math_MaxUint32, safe_add_result. cbv zeta.
  destruct (4294967295 <? a + b) eqn:E; [reflexivity|].
  rewrite N.mod_small by lia. reflexivity.
Qed.

Lemma gen_safeAdd3Uint32_eq :
  forall a b c, GoFuncs.safeAdd3Uint32 a b c = safe_add_result (DecodeSafe.safeAdd3Uint32 a b c).
Proof.
  intros a b c. unfold GoFuncs.safeAdd3Uint32, DecodeSafe.safeAdd3Uint32, DecodeSafe.maxUint32,
    GoFuncs.k_math_MaxUint32, safe_add_result. cbv zeta.
  destruct (4294967295 <? a + b + c) eqn:E; [reflexivity|].
  rewrite N.mod_small by lia. reflexivity.
Qed.

(* ------------------------------------------------------------------------------------------ *)
(* flag.go: getters and setters — for every pair (h0, h1), not only bytes                      *)
(* ------------------------------------------------------------------------------------------ *)

Lemma gen_head_version_eq : forall h, GoFuncs.head_version h = Codec.h_version h.
Proof. reflexivity. Qed.
Lemma gen_head_isRoot_eq : forall h, GoFuncs.head_isRoot h = Codec.h_is_root h.
Proof. reflexivity. Qed.
Lemma gen_head_hasPointers_eq : forall h, GoFuncs.head_hasPointers h = Codec.h_has_pointers h.
Proof. reflexivity. Qed.
Lemma gen_head_hasSizeLimit_eq : forall h, GoFuncs.head_hasSizeLimit h = Codec.h_has_size_limit h.
Proof. reflexivity. Qed.
Lemma gen_head_hasInlinedSlabs_eq : forall h, GoFuncs.head_hasInlinedSlabs h = Codec.h_has_inlined_slabs h.
Proof. reflexivity. Qed.
Lemma gen_head_hasNextSlabID_eq : forall h, GoFuncs.head_hasNextSlabID h = Codec.h_has_next_slab_id h.
Proof. reflexivity. Qed.

Lemma gen_head_setRoot_eq : forall h, GoFuncs.head_setRoot h = Codec.set_root h.
Proof. reflexivity. Qed.
Lemma gen_head_setHasPointers_eq : forall h, GoFuncs.head_setHasPointers h = Codec.set_has_pointers h.
Proof. reflexivity. Qed.
Lemma gen_head_setNoSizeLimit_eq : forall h, GoFuncs.head_setNoSizeLimit h = Codec.set_no_size_limit h.
Proof. reflexivity. Qed.
Lemma gen_head_setHasInlinedSlabs_eq : forall h, GoFuncs.head_setHasInlinedSlabs h = Codec.set_has_inlined_slabs h.
Proof. reflexivity. Qed.
Lemma gen_head_setHasNextSlabID_eq : forall h, GoFuncs.head_setHasNextSlabID h = Codec.set_has_next_slab_id h.
Proof. reflexivity. Qed.

(* the same getters as DecodeSafe.v writes them (with literal masks) *)
Lemma gen_ds_version_eq : forall h, GoFuncs.head_version h = DecodeSafe.h_version h.
Proof. reflexivity. Qed.
Lemma gen_ds_isRoot_eq : forall h, GoFuncs.head_isRoot h = DecodeSafe.h_isRoot h.
Proof. reflexivity. Qed.
Lemma gen_ds_hasPointers_eq : forall h, GoFuncs.head_hasPointers h = DecodeSafe.h_hasPointers h.
Proof. reflexivity. Qed.
Lemma gen_ds_hasSizeLimit_eq : forall h, GoFuncs.head_hasSizeLimit h = DecodeSafe.h_hasSizeLimit h.
Proof. reflexivity. Qed.
Lemma gen_ds_hasInlinedSlabs_eq : forall h, GoFuncs.head_hasInlinedSlabs h = DecodeSafe.h_hasInlinedSlabs h.
Proof. reflexivity. Qed.
Lemma gen_ds_hasNextSlabID_eq : forall h, GoFuncs.head_hasNextSlabID h = DecodeSafe.h_hasNextSlabID h.
Proof. reflexivity. Qed.

(* ------------------------------------------------------------------------------------------ *)
(* flag.go: slab type dispatch                                                                 *)
(* ------------------------------------------------------------------------------------------ *)

(* Codec.decode_slab dispatches on the numbers h_slab_type / h_sub_type; these are the enumeration
   values getSlabType / getSlabArrayType / getSlabMapType return for them *)
Definition codec_slab_type (h : Codec.head) : Z :=
  let t := Codec.h_slab_type h in
  if t =? 0 then GoFuncs.k_slabArray else if t =? 1 then GoFuncs.k_slabMap
  else if t =? 3 then GoFuncs.k_slabStorable else GoFuncs.k_slabTypeUndefined.
Definition codec_array_type (h : Codec.head) : Z :=
  if Codec.h_slab_type h =? 0 then
    let st := Codec.h_sub_type h in
    if st =? 0 then GoFuncs.k_slabArrayData else if st =? 1 then GoFuncs.k_slabArrayMeta
    else if st =? 2 then GoFuncs.k_slabLargeImmutableArray else GoFuncs.k_slabArrayUndefined
  else GoFuncs.k_slabArrayUndefined.
Definition codec_map_type (h : Codec.head) : Z :=
  if Codec.h_slab_type h =? 1 then
    let st := Codec.h_sub_type h in
    if st =? 0 then GoFuncs.k_slabMapData else if st =? 1 then GoFuncs.k_slabMapMeta
    else if st =? 2 then GoFuncs.k_slabMapLargeEntry
    else if st =? 3 then GoFuncs.k_slabMapCollisionGroup else GoFuncs.k_slabMapUndefined
  else GoFuncs.k_slabMapUndefined.

Lemma gen_head_getSlabType_eq : forall h, GoFuncs.head_getSlabType h = codec_slab_type h.
Proof. reflexivity. Qed.

Lemma gen_head_getSlabArrayType_eq : forall h, GoFuncs.head_getSlabArrayType h = codec_array_type h.
Proof.
  intros h. unfold GoFuncs.head_getSlabArrayType, codec_array_type. rewrite gen_head_getSlabType_eq.
  unfold codec_slab_type, Codec.h_sub_type. cbv zeta.
  destruct (Codec.h_slab_type h =? 0); [reflexivity|].
  destruct (Codec.h_slab_type h =? 1); [reflexivity|].
  destruct (Codec.h_slab_type h =? 3); reflexivity.
Qed.

Lemma gen_head_getSlabMapType_eq : forall h, GoFuncs.head_getSlabMapType h = codec_map_type h.
Proof.
  intros h. unfold GoFuncs.head_getSlabMapType, codec_map_type. rewrite gen_head_getSlabType_eq.
  unfold codec_slab_type, Codec.h_sub_type. cbv zeta.
  destruct (Codec.h_slab_type h =? 0) eqn:E0.
  - apply N.eqb_eq in E0. rewrite E0. reflexivity.
  - destruct (Codec.h_slab_type h =? 1); [reflexivity|].
    destruct (Codec.h_slab_type h =? 3); reflexivity.
Qed.

Lemma gen_ds_getSlabType_eq : forall h, GoFuncs.head_getSlabType h = slabType_code (DecodeSafe.getSlabType h).
Proof.
  intros h. unfold GoFuncs.head_getSlabType, DecodeSafe.getSlabType. cbv zeta.
  destruct (N.shiftr (N.land (snd h) 24) 3 =? 0); [reflexivity|].
  destruct (N.shiftr (N.land (snd h) 24) 3 =? 1); [reflexivity|].
  destruct (N.shiftr (N.land (snd h) 24) 3 =? 3); reflexivity.
Qed.

Lemma gen_ds_getSlabArrayType_eq :
  forall h, GoFuncs.head_getSlabArrayType h = slabArrayType_code (DecodeSafe.getSlabArrayType h).
Proof.
  intros h. unfold GoFuncs.head_getSlabArrayType, DecodeSafe.getSlabArrayType. rewrite gen_ds_getSlabType_eq.
  cbv zeta. destruct (DecodeSafe.getSlabType h); try reflexivity.
  change (negb (slabType_code DecodeSafe.slabArray =? GoFuncs.k_slabArray)%Z) with false. cbv iota.
  destruct (N.land (snd h) 7 =? 0); [reflexivity|].
  destruct (N.land (snd h) 7 =? 1); [reflexivity|].
  destruct (N.land (snd h) 7 =? 2); reflexivity.
Qed.

Lemma gen_ds_getSlabMapType_eq :
  forall h, GoFuncs.head_getSlabMapType h = slabMapType_code (DecodeSafe.getSlabMapType h).
Proof.
  intros h. unfold GoFuncs.head_getSlabMapType, DecodeSafe.getSlabMapType. rewrite gen_ds_getSlabType_eq.
  cbv zeta. destruct (DecodeSafe.getSlabType h); try reflexivity.
  change (negb (slabType_code DecodeSafe.slabMap =? GoFuncs.k_slabMap)%Z) with false. cbv iota.
  destruct (N.land (snd h) 7 =? 0); [reflexivity|].
  destruct (N.land (snd h) 7 =? 1); [reflexivity|].
  destruct (N.land (snd h) 7 =? 2); [reflexivity|].
  destruct (N.land (snd h) 7 =? 3); reflexivity.
Qed.

(* ------------------------------------------------------------------------------------------ *)
(* flag.go: head constructors                                                                  *)
(* ------------------------------------------------------------------------------------------ *)

Lemma shl4_byte : forall v, v <= 15 -> N.shiftl v 4 mod 256 = N.shiftl v 4.
Proof. intros v H. rewrite N.shiftl_mul_pow2. apply N.mod_small. change (2 ^ 4) with 16. lia. Qed.

(* what the three constructors compute, in terms of the model's new_head *)
Definition array_head_spec (v : N) (t : Z) : option Codec.head :=
  if c_maxVersion <? v then None
  else if (t =? GoFuncs.k_slabArrayData)%Z then Some (Codec.new_head v c_maskArrayData)
  else if (t =? GoFuncs.k_slabArrayMeta)%Z then Some (Codec.new_head v c_maskArrayMeta)
  else None.
Definition map_head_spec (v : N) (t : Z) : option Codec.head :=
  if c_maxVersion <? v then None
  else if (t =? GoFuncs.k_slabMapData)%Z then Some (Codec.new_head v c_maskMapData)
  else if (t =? GoFuncs.k_slabMapMeta)%Z then Some (Codec.new_head v c_maskMapMeta)
  else if (t =? GoFuncs.k_slabMapCollisionGroup)%Z then Some (Codec.new_head v c_maskCollisionGroup)
  else None.
Definition storable_head_spec (v : N) : option Codec.head :=
  if c_maxVersion <? v then None else Some (Codec.new_head v c_maskStorable).

Lemma gen_newArraySlabHead_eq : forall v t, GoFuncs.newArraySlabHead v t = array_head_spec v t.
Proof.
  intros v t. unfold GoFuncs.newArraySlabHead, array_head_spec, Codec.new_head.
  change GoFuncs.k_maxVersion with 15. change c_maxVersion with 15.
  destruct (15 <? v) eqn:E; [reflexivity|]. cbv zeta. cbn [fst snd].
  rewrite shl4_byte by lia.
  destruct (t =? GoFuncs.k_slabArrayData)%Z; [reflexivity|].
  destruct (t =? GoFuncs.k_slabArrayMeta)%Z; reflexivity.
Qed.

Lemma gen_newMapSlabHead_eq : forall v t, GoFuncs.newMapSlabHead v t = map_head_spec v t.
Proof.
  intros v t. unfold GoFuncs.newMapSlabHead, map_head_spec, Codec.new_head.
  change GoFuncs.k_maxVersion with 15. change c_maxVersion with 15.
  destruct (15 <? v) eqn:E; [reflexivity|]. cbv zeta. cbn [fst snd].
  rewrite shl4_byte by lia.
  destruct (t =? GoFuncs.k_slabMapData)%Z; [reflexivity|].
  destruct (t =? GoFuncs.k_slabMapMeta)%Z; [reflexivity|].
  destruct (t =? GoFuncs.k_slabMapCollisionGroup)%Z; reflexivity.
Qed.

Lemma gen_newStorableSlabHead_eq : forall v, GoFuncs.newStorableSlabHead v = storable_head_spec v.
Proof.
  intros v. unfold GoFuncs.newStorableSlabHead, storable_head_spec, Codec.new_head.
  change GoFuncs.k_maxVersion with 15. change c_maxVersion with 15.
  destruct (15 <? v) eqn:E; [reflexivity|]. cbv zeta. cbn [fst snd].
  rewrite shl4_byte by lia. reflexivity.
Qed.

(* Codec.mk_head = the version-1 constructor followed by the generated setters, i.e. exactly the
   sequence of flag.go calls the encoders make *)
Lemma gen_mk_head_eq :
  forall typ ptr hasnext anysize root hasinl,
    Codec.mk_head typ ptr hasnext anysize root hasinl =
    let h := Codec.new_head 1 typ in
    let h := Codec.cond ptr GoFuncs.head_setHasPointers h in
    let h := Codec.cond hasnext GoFuncs.head_setHasNextSlabID h in
    let h := Codec.cond anysize GoFuncs.head_setNoSizeLimit h in
    let h := Codec.cond root GoFuncs.head_setRoot h in
    let h := Codec.cond hasinl GoFuncs.head_setHasInlinedSlabs h in
    [fst h; snd h].
Proof. reflexivity. Qed.

(* ------------------------------------------------------------------------------------------ *)
(* settings.go: setThreshold, for EVERY slab size (the table check of Settings_proofs.v covers    *)
(* the sizes listed in gen/SettingsTable.v only)                                               *)
(* ------------------------------------------------------------------------------------------ *)

Definition settings_result (c : Settings.cfg) : (N * N * N * N) * (N * N * N * N * N * N) :=
  ((Settings.cmin c, Settings.cmax c, Settings.cinl_arr c, Settings.cinl_mkey c),
   (Settings.cT c, Settings.cmin c, Settings.cmax c, Settings.cinl_arr c, Settings.cinl_melem c, Settings.cinl_mkey c)).

Lemma wrap_sub32 : forall a b, b <= a -> a < 4294967296 -> (a + 4294967296 - b) mod 4294967296 = a - b.
Proof. intros a b H1 H2. lia. Qed.

Lemma gen_setThreshold_eq :
  forall T, Settings.valid_T T -> GoFuncs.setThreshold T = Some (settings_result (Settings.set_threshold T)).
Proof.
  intros T [H1 H2]. unfold c_minSlabSize, c_maxSlabSize in *.
  unfold GoFuncs.setThreshold, settings_result, Settings.set_threshold.
  unfold GoFuncs.k_minSlabSize, GoFuncs.k_maxSlabSize, GoFuncs.k_math_MaxUint32,
    GoFuncs.k_arrayDataSlabPrefixSize, GoFuncs.k_minElementCountInSlab, GoFuncs.k_mapDataSlabPrefixSize,
    GoFuncs.k_hkeyElementsPrefixSize, GoFuncs.k_digestSize, GoFuncs.k_singleElementPrefixSize,
    c_mapDataSlabPrefixSize, c_hkeyElementsPrefixSize, c_minElementCountInSlab, c_digestSize,
    c_arrayDataSlabPrefixSize, c_singleElementPrefixSize.
  cbn [Settings.cT Settings.cmin Settings.cmax Settings.cinl_arr Settings.cinl_melem Settings.cinl_mkey].
  destruct (T <? 256) eqn:E1; [lia|]. destruct (32768 <? T) eqn:E2; [lia|]. cbv zeta.
  destruct (4294967295 * 2 <? 3 * T) eqn:E3; [lia|].
  destruct (3 * T / 2 <? 4294967296) eqn:E4; [|lia].
  rewrite (wrap_sub32 T 21) by lia. rewrite (wrap_sub32 T 18) by lia.
  rewrite (wrap_sub32 (T - 18) 8) by lia.
  rewrite (wrap_sub32 ((T - 18 - 8) / 2) 8) by lia.
  rewrite (wrap_sub32 ((T - 18 - 8) / 2 - 8) 1) by lia.
  replace (3 * T / 2) with (T + T / 2) by lia.
  reflexivity.
Qed.

Lemma gen_setThreshold_refuses :
  forall T, ~ Settings.valid_T T -> GoFuncs.setThreshold T = None.
Proof.
  intros T H. unfold Settings.valid_T, c_minSlabSize, c_maxSlabSize in H.
  unfold GoFuncs.setThreshold, GoFuncs.k_minSlabSize, GoFuncs.k_maxSlabSize.
  destruct (T <? 256) eqn:E1; [reflexivity|]. destruct (32768 <? T) eqn:E2; [reflexivity|]. lia.
Qed.

(* maxInlineMapValueSize(keySize), given the package variable it reads: the uint32 subtraction does not
   wrap when the key respects the key limit; Nested.v's [slot_lim] uses the same expression *)
Lemma gen_maxInlineMapValueSize_eq :
  forall E k, E < 4294967296 -> k + c_singleElementPrefixSize <= E ->
    GoFuncs.maxInlineMapValueSize E k = E - k - c_singleElementPrefixSize.
Proof.
  intros E k H1 H2. unfold c_singleElementPrefixSize in *.
  unfold GoFuncs.maxInlineMapValueSize, GoFuncs.k_singleElementPrefixSize.
  rewrite (wrap_sub32 E k) by lia. rewrite (wrap_sub32 (E - k) 1) by lia. reflexivity.
Qed.

Lemma gen_maxInlineMapValueSize_settings :
  forall T k, Settings.valid_T T -> k <= Settings.cinl_mkey (Settings.set_threshold T) ->
    let c := Settings.set_threshold T in
    GoFuncs.maxInlineMapValueSize (Settings.cinl_melem c) k = Settings.cinl_melem c - k - c_singleElementPrefixSize
    /\ k <= GoFuncs.maxInlineMapValueSize (Settings.cinl_melem c) k.
Proof.
  intros T k [H1 H2] Hk c. subst c. unfold c_minSlabSize, c_maxSlabSize in *.
  unfold Settings.set_threshold in *.
  cbn [Settings.cT Settings.cmin Settings.cmax Settings.cinl_arr Settings.cinl_melem Settings.cinl_mkey] in *.
  unfold c_mapDataSlabPrefixSize, c_hkeyElementsPrefixSize, c_minElementCountInSlab, c_digestSize,
    c_singleElementPrefixSize in *.
  set (E := (T - 18 - 8) / 2 - 8) in *.
  assert (HE : E < 4294967296) by (subst E; lia).
  assert (Hk2 : k + 1 <= E) by (subst E; lia).
  rewrite (gen_maxInlineMapValueSize_eq E k HE) by (unfold c_singleElementPrefixSize; lia).
  unfold c_singleElementPrefixSize. split; [reflexivity|]. subst E. lia.
Qed.

(* ------------------------------------------------------------------------------------------ *)
(* rebalancing decision predicates of the slab trees (array_data_slab.go, array_metadata_slab.go, *)
(* map_data_slab.go, map_metadata_slab.go): IsFull / IsUnderflow / CanLendToLeft / CanLendToRight *)
(*                                                                                            *)
(* The translator replaces the struct receiver by the scalar fields the method reads          *)
(* (a.header.size -> a_header_size, m.anySize -> m_anySize) and passes the package variables   *)
(* minThreshold / maxThreshold as leading parameters.  The model functions ArrayTree.n_is_full, *)
(* n_underflow, n_can_lend_to_left/right (index slabs) and the MapTree ones are the decisions   *)
(* the C05 theorems (props/C05.v, C05_map.v, C05_maptree.v) are about.                          *)
(* Domains: the models use unbounded N and truncated subtraction; the Go code uint32.  The     *)
(* hypotheses below are exactly what excludes uint32 wrap-around: the threshold and the cached *)
(* size are uint32 values, and for CanLendTo* the requested size plus one child header fits in *)
(* uint32 (the caller passes an underflow deficit, which is below minThreshold <= 16384).      *)
(* ------------------------------------------------------------------------------------------ *)

Definition two32 : N := 4294967296.

(* -- uintN(math.Ceil(float64(u) / c)) is emitted as (u + (c - 1)) / c : the integer side of the     *)
(*    exactness argument of harness/gengo_expr.go                                                    *)

Lemma gen_ceil_div_eq : forall u c, 0 < c -> (u + (c - 1)) / c = ArrayTree.ceil_div u c.
Proof. intros u c H. unfold ArrayTree.ceil_div. f_equal. lia. Qed.

(* it IS the ceiling of the rational u/c: the least n with u <= n * c *)
Lemma gen_ceil_div_is_ceiling :
  forall u c, 0 < c ->
    u <= (u + (c - 1)) / c * c /\ (forall n, u <= n * c -> (u + (c - 1)) / c <= n).
Proof.
  intros u c H.
  pose proof (N.div_mod (u + (c - 1)) c ltac:(lia)) as D.
  pose proof (N.mod_lt (u + (c - 1)) c ltac:(lia)) as M.
  set (q := (u + (c - 1)) / c) in *. set (r := (u + (c - 1)) mod c) in *.
  split; [lia|]. intros n Hn.
  destruct (N.le_gt_cases q n) as [L|G]; [exact L|exfalso].
  assert (n + 1 <= q) as Q by lia.
  assert (c * (n + 1) <= c * q) as Q2 by (apply N.mul_le_mono_l; exact Q). lia.
Qed.

(* when c divides u the float64 quotient is the exact integer u/c; otherwise u/c is at least 1/c >= 2^-20
   away from the two neighbouring integers q = u/c (floor) and q+1, which is more than the rounding error
   (at most 2^-22 below 2^32) of the float64 division, and the ceiling is q+1 *)
Lemma gen_ceil_div_exact_case :
  forall u c, 0 < c -> u mod c = 0 -> (u + (c - 1)) / c = u / c /\ u = u / c * c.
Proof.
  intros u c H Hm. pose proof (N.div_mod u c ltac:(lia)) as D. rewrite Hm in D.
  split; [|lia]. symmetry. apply N.div_unique with (r := c - 1); lia.
Qed.

Lemma gen_ceil_div_gap :
  forall u c, 0 < c -> c <= 1048576 -> u mod c <> 0 ->
    let q := u / c in
    c <= (u - q * c) * 1048576 /\ c <= ((q + 1) * c - u) * 1048576 /\ (u + (c - 1)) / c = q + 1.
Proof.
  intros u c H Hc Hm q. subst q.
  pose proof (N.div_mod u c ltac:(lia)) as D. pose proof (N.mod_lt u c ltac:(lia)) as M.
  set (q := u / c) in *. set (r := u mod c) in *.
  repeat split; try lia.
  symmetry. apply N.div_unique with (r := r - 1); lia.
Qed.

(* -- the results of IsUnderflow: (deficit, true) / (0, false) *)
Definition underflow_result (o : option N) : N * bool :=
  match o with Some d => (d, true) | None => (0, false) end.

Lemma gen_underflow_aux :
  forall mn sz, mn < two32 ->
    (if sz <? mn then ((mn + 4294967296 - sz) mod 4294967296, true) else (0, false))
    = underflow_result (if sz <? mn then Some (mn - sz) else None).
Proof.
  intros mn sz H. unfold two32 in H. destruct (sz <? mn) eqn:E; [|reflexivity].
  cbn [underflow_result]. rewrite (wrap_sub32 mn sz) by lia. reflexivity.
Qed.

(* what both index slab kinds compute for CanLendToLeft / CanLendToRight with header size hs *)
Lemma gen_can_lend_aux :
  forall hs mn sz need, 0 < hs -> sz < two32 -> need + hs <= two32 ->
    (let n := (need + (hs - 1)) / hs in
     if (hs * n) mod 4294967296 <=? sz
     then mn <? (sz + 4294967296 - (hs * n) mod 4294967296) mod 4294967296 else false)
    = (let k := ArrayTree.ceil_div need hs in
       if hs * k <=? sz then mn <? sz - hs * k else false).
Proof.
  intros hs mn sz need Hh Hs Hn. unfold two32 in *. cbv zeta.
  rewrite (gen_ceil_div_eq need hs Hh).
  destruct (gen_ceil_div_is_ceiling need hs Hh) as [_ Hleast].
  rewrite (gen_ceil_div_eq need hs Hh) in Hleast.
  set (k := ArrayTree.ceil_div need hs) in *.
  (* hs * k < need + hs: k is the LEAST multiple count covering need *)
  assert (Hk : hs * k < need + hs).
  { destruct (N.eq_dec k 0) as [->|Hk0]; [lia|].
    destruct (N.le_gt_cases (need + hs) (hs * k)) as [L|G]; [exfalso|exact G].
    assert (need <= (k - 1) * hs) as Hc by (rewrite N.mul_sub_distr_r; lia).
    specialize (Hleast (k - 1) Hc). lia. }
  rewrite (N.mod_small (hs * k)) by lia.
  destruct (hs * k <=? sz) eqn:E; [|reflexivity].
  rewrite (wrap_sub32 sz (hs * k)) by lia. reflexivity.
Qed.

Lemma pos14 : 0 < 14. Proof. reflexivity. Qed.
Lemma pos18 : 0 < 18. Proof. reflexivity. Qed.

(* -- arrays -------------------------------------------------------------------------------- *)

Lemma gen_ArrayDataSlab_IsFull_eq :
  forall c h nx es,
    GoFuncs.ArrayDataSlab_IsFull (Settings.cmax c) (ArrayTree.h_size h) = ArrayTree.n_is_full c (ArrayTree.AD h nx es).
Proof. reflexivity. Qed.

Lemma gen_ArrayMetaDataSlab_IsFull_eq :
  forall c h hs sums cs,
    GoFuncs.ArrayMetaDataSlab_IsFull (Settings.cmax c) (ArrayTree.h_size h) = ArrayTree.n_is_full c (ArrayTree.AM h hs sums cs).
Proof. reflexivity. Qed.

Lemma gen_ArrayDataSlab_IsUnderflow_eq :
  forall c h nx es, Settings.cmin c < two32 ->
    GoFuncs.ArrayDataSlab_IsUnderflow (Settings.cmin c) (ArrayTree.h_size h)
    = underflow_result (ArrayTree.n_underflow c (ArrayTree.AD h nx es)).
Proof. intros c h nx es H. exact (gen_underflow_aux (Settings.cmin c) (ArrayTree.h_size h) H). Qed.

Lemma gen_ArrayMetaDataSlab_IsUnderflow_eq :
  forall c h hs sums cs, Settings.cmin c < two32 ->
    GoFuncs.ArrayMetaDataSlab_IsUnderflow (Settings.cmin c) (ArrayTree.h_size h)
    = underflow_result (ArrayTree.n_underflow c (ArrayTree.AM h hs sums cs)).
Proof. intros c h hs sums cs H. exact (gen_underflow_aux (Settings.cmin c) (ArrayTree.h_size h) H). Qed.

Lemma gen_ArrayMetaDataSlab_CanLendToLeft_eq :
  forall c h hs sums cs need, ArrayTree.h_size h < two32 -> need + c_arraySlabHeaderSize <= two32 ->
    GoFuncs.ArrayMetaDataSlab_CanLendToLeft (Settings.cmin c) (ArrayTree.h_size h) need
    = ArrayTree.n_can_lend_to_left c (ArrayTree.AM h hs sums cs) need.
Proof.
  intros c h hs sums cs need H1 H2.
  exact (gen_can_lend_aux 14 (Settings.cmin c) (ArrayTree.h_size h) need pos14 H1 H2).
Qed.

Lemma gen_ArrayMetaDataSlab_CanLendToRight_eq :
  forall c h hs sums cs need, ArrayTree.h_size h < two32 -> need + c_arraySlabHeaderSize <= two32 ->
    GoFuncs.ArrayMetaDataSlab_CanLendToRight (Settings.cmin c) (ArrayTree.h_size h) need
    = ArrayTree.n_can_lend_to_right c (ArrayTree.AM h hs sums cs) need.
Proof.
  intros c h hs sums cs need H1 H2.
  exact (gen_can_lend_aux 14 (Settings.cmin c) (ArrayTree.h_size h) need pos14 H1 H2).
Qed.

(* -- maps.  A data slab of the tree (root or child of an index slab) has anySize = false: the flag is
      set only on external collision-group slabs, which are not nodes of MapTree.v; for those
      IsFull / IsUnderflow answer "no" whatever the size. ------------------------------------ *)

Lemma gen_MapDataSlab_IsFull_eq :
  forall c h nx es,
    GoFuncs.MapDataSlab_IsFull (Settings.cmax c) (MapTree.mh_size h) false = MapTree.n_is_full c (MapTree.MD h nx es).
Proof. reflexivity. Qed.

Lemma gen_MapDataSlab_IsFull_anysize : forall mx sz, GoFuncs.MapDataSlab_IsFull mx sz true = false.
Proof. reflexivity. Qed.

Lemma gen_MapMetaDataSlab_IsFull_eq :
  forall c h hs cs,
    GoFuncs.MapMetaDataSlab_IsFull (Settings.cmax c) (MapTree.mh_size h) = MapTree.n_is_full c (MapTree.MM h hs cs).
Proof. reflexivity. Qed.

Lemma gen_MapDataSlab_IsUnderflow_eq :
  forall c h nx es, Settings.cmin c < two32 ->
    GoFuncs.MapDataSlab_IsUnderflow (Settings.cmin c) (MapTree.mh_size h) false
    = underflow_result (MapTree.n_underflow c (MapTree.MD h nx es)).
Proof. intros c h nx es H. exact (gen_underflow_aux (Settings.cmin c) (MapTree.mh_size h) H). Qed.

Lemma gen_MapDataSlab_IsUnderflow_anysize : forall mn sz, GoFuncs.MapDataSlab_IsUnderflow mn sz true = (0, false).
Proof. reflexivity. Qed.

Lemma gen_MapMetaDataSlab_IsUnderflow_eq :
  forall c h hs cs, Settings.cmin c < two32 ->
    GoFuncs.MapMetaDataSlab_IsUnderflow (Settings.cmin c) (MapTree.mh_size h)
    = underflow_result (MapTree.n_underflow c (MapTree.MM h hs cs)).
Proof. intros c h hs cs H. exact (gen_underflow_aux (Settings.cmin c) (MapTree.mh_size h) H). Qed.

Lemma gen_MapMetaDataSlab_CanLendToLeft_eq :
  forall c h hs cs need, MapTree.mh_size h < two32 -> need + c_mapSlabHeaderSize <= two32 ->
    GoFuncs.MapMetaDataSlab_CanLendToLeft (Settings.cmin c) (MapTree.mh_size h) need
    = MapTree.n_can_lend_to_left c (MapTree.MM h hs cs) need.
Proof.
  intros c h hs cs need H1 H2.
  exact (gen_can_lend_aux 18 (Settings.cmin c) (MapTree.mh_size h) need pos18 H1 H2).
Qed.

Lemma gen_MapMetaDataSlab_CanLendToRight_eq :
  forall c h hs cs need, MapTree.mh_size h < two32 -> need + c_mapSlabHeaderSize <= two32 ->
    GoFuncs.MapMetaDataSlab_CanLendToRight (Settings.cmin c) (MapTree.mh_size h) need
    = MapTree.n_can_lend_to_right c (MapTree.MM h hs cs) need.
Proof.
  intros c h hs cs need H1 H2.
  exact (gen_can_lend_aux 18 (Settings.cmin c) (MapTree.mh_size h) need pos18 H1 H2).
Qed.

(* -- the hypotheses hold for every configuration setThreshold can produce, and for every request an
      underflowing sibling can make (its deficit is at most minThreshold) *)
Lemma gen_predicate_domain :
  forall T need, Settings.valid_T T -> need <= Settings.cmin (Settings.set_threshold T) ->
    Settings.cmin (Settings.set_threshold T) < two32
    /\ need + c_arraySlabHeaderSize <= two32 /\ need + c_mapSlabHeaderSize <= two32.
Proof.
  intros T need [H1 H2] Hn. unfold c_minSlabSize, c_maxSlabSize in *.
  unfold Settings.set_threshold in *. cbn [Settings.cmin] in *.
  unfold two32, c_arraySlabHeaderSize, c_mapSlabHeaderSize. lia.
Qed.

(* -- all predicates of one container kind at once (stated in props/C05_gen.v) *)
Lemma gen_array_predicates_eq :
  forall c h nx es hs sums cs need,
    Settings.cmin c < two32 -> ArrayTree.h_size h < two32 -> need + c_arraySlabHeaderSize <= two32 ->
    let d := ArrayTree.AD h nx es in
    let m := ArrayTree.AM h hs sums cs in
    GoFuncs.ArrayDataSlab_IsFull (Settings.cmax c) (ArrayTree.h_size h) = ArrayTree.n_is_full c d /\
    GoFuncs.ArrayDataSlab_IsUnderflow (Settings.cmin c) (ArrayTree.h_size h) = underflow_result (ArrayTree.n_underflow c d) /\
    GoFuncs.ArrayMetaDataSlab_IsFull (Settings.cmax c) (ArrayTree.h_size h) = ArrayTree.n_is_full c m /\
    GoFuncs.ArrayMetaDataSlab_IsUnderflow (Settings.cmin c) (ArrayTree.h_size h) = underflow_result (ArrayTree.n_underflow c m) /\
    GoFuncs.ArrayMetaDataSlab_CanLendToLeft (Settings.cmin c) (ArrayTree.h_size h) need = ArrayTree.n_can_lend_to_left c m need /\
    GoFuncs.ArrayMetaDataSlab_CanLendToRight (Settings.cmin c) (ArrayTree.h_size h) need = ArrayTree.n_can_lend_to_right c m need.
Proof.
  intros c h nx es hs sums cs need H1 H2 H3 d m.
  exact (conj (gen_ArrayDataSlab_IsFull_eq c h nx es)
        (conj (gen_ArrayDataSlab_IsUnderflow_eq c h nx es H1)
        (conj (gen_ArrayMetaDataSlab_IsFull_eq c h hs sums cs)
        (conj (gen_ArrayMetaDataSlab_IsUnderflow_eq c h hs sums cs H1)
        (conj (gen_ArrayMetaDataSlab_CanLendToLeft_eq c h hs sums cs need H2 H3)
              (gen_ArrayMetaDataSlab_CanLendToRight_eq c h hs sums cs need H2 H3)))))).
Qed.

Lemma gen_map_predicates_eq :
  forall c h nx es hs cs need,
    Settings.cmin c < two32 -> MapTree.mh_size h < two32 -> need + c_mapSlabHeaderSize <= two32 ->
    let d := MapTree.MD h nx es in
    let m := MapTree.MM h hs cs in
    GoFuncs.MapDataSlab_IsFull (Settings.cmax c) (MapTree.mh_size h) false = MapTree.n_is_full c d /\
    GoFuncs.MapDataSlab_IsUnderflow (Settings.cmin c) (MapTree.mh_size h) false = underflow_result (MapTree.n_underflow c d) /\
    (forall mx mn sz, GoFuncs.MapDataSlab_IsFull mx sz true = false /\ GoFuncs.MapDataSlab_IsUnderflow mn sz true = (0, false)) /\
    GoFuncs.MapMetaDataSlab_IsFull (Settings.cmax c) (MapTree.mh_size h) = MapTree.n_is_full c m /\
    GoFuncs.MapMetaDataSlab_IsUnderflow (Settings.cmin c) (MapTree.mh_size h) = underflow_result (MapTree.n_underflow c m) /\
    GoFuncs.MapMetaDataSlab_CanLendToLeft (Settings.cmin c) (MapTree.mh_size h) need = MapTree.n_can_lend_to_left c m need /\
    GoFuncs.MapMetaDataSlab_CanLendToRight (Settings.cmin c) (MapTree.mh_size h) need = MapTree.n_can_lend_to_right c m need.
Proof.
  intros c h nx es hs cs need H1 H2 H3 d m.
  exact (conj (gen_MapDataSlab_IsFull_eq c h nx es)
        (conj (gen_MapDataSlab_IsUnderflow_eq c h nx es H1)
        (conj (fun mx mn sz => conj (gen_MapDataSlab_IsFull_anysize mx sz) (gen_MapDataSlab_IsUnderflow_anysize mn sz))
        (conj (gen_MapMetaDataSlab_IsFull_eq c h hs cs)
        (conj (gen_MapMetaDataSlab_IsUnderflow_eq c h hs cs H1)
        (conj (gen_MapMetaDataSlab_CanLendToLeft_eq c h hs cs need H2 H3)
              (gen_MapMetaDataSlab_CanLendToRight_eq c h hs cs need H2 H3))))))).
Qed.

(* the uint32 hypothesis on the request is needed: a request within 13 of 2^32 makes 14 * n wrap to a small
   number in the Go code, which then answers "can lend" where the unbounded model says no.  Unreachable:
   the only caller passes an underflow deficit (< minThreshold). *)
Example gen_can_lend_wraps_outside_domain :
  let c := Settings.set_threshold 1024 in
  let h := ArrayTree.mkhdr 7 1000 50 in
  GoFuncs.ArrayMetaDataSlab_CanLendToLeft (Settings.cmin c) (ArrayTree.h_size h) 4294967295 = true /\
  ArrayTree.n_can_lend_to_left c (ArrayTree.AM h [] [] []) 4294967295 = false.
Proof. vm_compute. split; reflexivity. Qed.

(* cbor_tag_nums.go *)
Lemma gen_ReservedCBORTagNumberRange_eq :
  GoFuncs.ReservedCBORTagNumberRange = (c_minInternalCBORTagNumber, c_maxInternalCBORTagNumber).
Proof. reflexivity. Qed.

(* array_data_slab.go / array_metadata_slab.go: Inlinable.  The nested-container model (Nested.v) decides
   inlining by [inl_prefix k + c_csize c <=? limit], where c_csize is header.size minus the prefix the root
   currently carries.  The transcribed Go method computes exactly that from header.size in both states of the
   slab (stand-alone root: prefix 5; already inlined: prefix 17); a slab without extra data (a non-root data
   slab) and an index slab are never inlinable — the slab-tree fact Nested.v's header comment relies on. *)
Lemma gen_ArrayDataSlab_Inlinable_eq :
  forall csize lim, c_inlinedArrayDataSlabPrefixSize + csize < 4294967296 ->
    GoFuncs.ArrayDataSlab_Inlinable (c_arrayRootDataSlabPrefixSize + csize) false false lim
      = (Nested.inl_prefix Nested.KArr + csize <=? lim) /\
    GoFuncs.ArrayDataSlab_Inlinable (c_inlinedArrayDataSlabPrefixSize + csize) false true lim
      = (Nested.inl_prefix Nested.KArr + csize <=? lim).
Proof.
  intros csize lim H. unfold GoFuncs.ArrayDataSlab_Inlinable, Nested.inl_prefix,
    GoFuncs.k_arrayRootDataSlabPrefixSize, GoFuncs.k_inlinedArrayDataSlabPrefixSize,
    c_arrayRootDataSlabPrefixSize, c_inlinedArrayDataSlabPrefixSize in *.
  cbn [negb]. split; [|reflexivity].
  replace ((((5 + csize + 4294967296 - 5) mod 4294967296) + 17) mod 4294967296) with (17 + csize); [reflexivity|].
  lia.
Qed.

Lemma gen_Inlinable_never :
  forall h i lim, GoFuncs.ArrayDataSlab_Inlinable h true i lim = false /\
                  GoFuncs.ArrayMetaDataSlab_Inlinable lim = false.
Proof. intros. split; reflexivity. Qed.

Example gen_example_inlinable :
  GoFuncs.ArrayDataSlab_Inlinable 105 false false 117 = true /\
  GoFuncs.ArrayDataSlab_Inlinable 106 false false 117 = false /\
  GoFuncs.ArrayDataSlab_Inlinable 117 false true 117 = true /\
  GoFuncs.ArrayDataSlab_Inlinable 118 false true 117 = false /\
  GoFuncs.ArrayDataSlab_Inlinable 30 true false 117 = false.
Proof. vm_compute. repeat split. Qed.

(* IsCBORTagNumberRangeAvailable: the answer the application gets when it asks whether it may use the CBOR
   tag numbers lo..hi for its own values.  Specification: error exactly for an empty (reversed) range;
   otherwise "available" exactly when NO number of the range lies in the reserved interval, and then in
   particular none of the ten tags the slab codec writes (246..255) can be confused with an application tag
   — the "self-describing" half of C07 at the boundary with the application's own encoding. *)
Definition internal_codec_tags : list N :=
  [ c_CBORTagTypeInfoRef; c_CBORTagInlinedArrayExtraData; c_CBORTagInlinedMapExtraData;
    c_CBORTagInlinedCompactMapExtraData; c_CBORTagInlinedArray; c_CBORTagInlinedMap;
    c_CBORTagInlinedCompactMap; c_CBORTagInlineCollisionGroup; c_CBORTagExternalCollisionGroup;
    c_CBORTagSlabID ].

Lemma internal_codec_tags_reserved :
  forall t, In t internal_codec_tags -> c_minInternalCBORTagNumber <= t <= c_maxInternalCBORTagNumber.
Proof.
  intros t Ht. unfold internal_codec_tags in Ht. cbn [In] in Ht.
  unfold c_minInternalCBORTagNumber, c_maxInternalCBORTagNumber.
  repeat (destruct Ht as [Ht | Ht]; [subst t; vm_compute; split; discriminate|]). contradiction.
Qed.

Lemma gen_IsCBORTagNumberRangeAvailable_error :
  forall lo hi, GoFuncs.IsCBORTagNumberRangeAvailable lo hi = None <-> hi < lo.
Proof.
  intros lo hi. unfold GoFuncs.IsCBORTagNumberRangeAvailable.
  destruct (hi <? lo) eqn:E; split; intro H; try discriminate; try reflexivity; lia.
Qed.

Lemma gen_IsCBORTagNumberRangeAvailable_spec :
  forall lo hi, lo <= hi ->
    exists b, GoFuncs.IsCBORTagNumberRangeAvailable lo hi = Some b /\
      (b = true <-> forall t, lo <= t <= hi ->
                      ~ (c_minInternalCBORTagNumber <= t <= c_maxInternalCBORTagNumber)).
Proof.
  intros lo hi Hle. unfold GoFuncs.IsCBORTagNumberRangeAvailable.
  destruct (hi <? lo) eqn:E; [lia|].
  eexists; split; [reflexivity|].
  unfold GoFuncs.k_minInternalCBORTagNumber, GoFuncs.k_maxInternalCBORTagNumber,
         c_minInternalCBORTagNumber, c_maxInternalCBORTagNumber.
  split.
  - intros Hb t Ht Hr.
    destruct (hi <? 240) eqn:E1; destruct (255 <? lo) eqn:E2; cbn [orb] in Hb; try discriminate; lia.
  - intro Hall.
    destruct (hi <? 240) eqn:E1; destruct (255 <? lo) eqn:E2; cbn [orb]; try reflexivity.
    exfalso.
    destruct (lo <? 240) eqn:E3.
    + apply (Hall 240); lia.
    + apply (Hall lo); lia.
Qed.

Lemma gen_available_range_excludes_codec_tags :
  forall lo hi, GoFuncs.IsCBORTagNumberRangeAvailable lo hi = Some true ->
    forall t, In t internal_codec_tags -> ~ (lo <= t <= hi).
Proof.
  intros lo hi H t Ht Hin.
  assert (Hle : lo <= hi) by lia.
  destruct (gen_IsCBORTagNumberRangeAvailable_spec lo hi Hle) as [b [Hb Hspec]].
  rewrite H in Hb. injection Hb as <-.
  apply (proj1 Hspec eq_refl t Hin). apply internal_codec_tags_reserved. exact Ht.
Qed.

Example gen_example_tag_ranges :
  GoFuncs.IsCBORTagNumberRangeAvailable 128 239 = Some true /\
  GoFuncs.IsCBORTagNumberRangeAvailable 128 240 = Some false /\
  GoFuncs.IsCBORTagNumberRangeAvailable 255 300 = Some false /\
  GoFuncs.IsCBORTagNumberRangeAvailable 256 300 = Some true /\
  GoFuncs.IsCBORTagNumberRangeAvailable 100 600 = Some false /\
  GoFuncs.IsCBORTagNumberRangeAvailable 5 4 = None.
Proof. vm_compute. repeat split. Qed.

(* ------------------------------------------------------------------------------------------ *)
(* non-vacuity: concrete values on both sides                                                  *)
(* ------------------------------------------------------------------------------------------ *)

Example gen_example_uint_size : map GoFuncs.GetUintCBORSize [0; 23; 24; 255; 256; 65535; 65536; 4294967295; 4294967296]
  = [1; 1; 2; 2; 3; 3; 5; 5; 9].
Proof. reflexivity. Qed.
Example gen_example_settings_1024 :
  GoFuncs.setThreshold 1024 = Some ((512, 1536, 501, 245), (1024, 512, 1536, 501, 491, 245)).
Proof. reflexivity. Qed.
Example gen_example_settings_valid : Settings.valid_T 1024.
Proof. unfold Settings.valid_T. vm_compute. split; discriminate. Qed.
Example gen_example_head : GoFuncs.newMapSlabHead 1 GoFuncs.k_slabMapCollisionGroup = Some (16, 11).
Proof. reflexivity. Qed.
Example gen_example_head_flags :
  let h := GoFuncs.head_setRoot (GoFuncs.head_setHasPointers (16, 8)) in
  h = (16, 200) /\ GoFuncs.head_isRoot h = true /\ GoFuncs.head_hasPointers h = true
  /\ GoFuncs.head_hasSizeLimit h = true /\ GoFuncs.head_getSlabMapType h = GoFuncs.k_slabMapData.
Proof. vm_compute. repeat split. Qed.
Example gen_example_safe_add :
  GoFuncs.safeAdd2Uint32 4294967295 1 = (0, false) /\ GoFuncs.safeAdd2Uint32 4294967294 1 = (4294967295, true).
Proof. split; reflexivity. Qed.

(* rebalancing predicates at the default slab size: both answers occur on both sides *)
Example gen_example_predicates :
  let c := Settings.set_threshold 1024 in
  Settings.cmin c = 512 /\ Settings.cmax c = 1536 /\
  map (GoFuncs.ArrayDataSlab_IsFull (Settings.cmax c)) [1536; 1537] = [false; true] /\
  map (GoFuncs.MapMetaDataSlab_IsUnderflow (Settings.cmin c)) [511; 512] = [(1, true); (0, false)] /\
  (* an index slab of 12 + 14*40 = 572 bytes asked for 56 bytes gives up 4 headers: 516 > 512;
     asked for 57 bytes it would give up 5: 502 is not > 512 *)
  map (GoFuncs.ArrayMetaDataSlab_CanLendToLeft (Settings.cmin c) 572) [40; 56; 57; 60] = [true; true; false; false] /\
  map (ArrayTree.n_can_lend_to_left c (ArrayTree.AM (ArrayTree.mkhdr 1 572 0) [] [] [])) [40; 56; 57; 60] = [true; true; false; false] /\
  map (GoFuncs.MapMetaDataSlab_CanLendToRight (Settings.cmin c) 570) [54; 55] = [true; false] /\
  map (MapTree.n_can_lend_to_right c (MapTree.MM (MapTree.mkmhdr 1 570 0) [] [])) [54; 55] = [true; false].
Proof. vm_compute. repeat split. Qed.
Example gen_example_predicate_domain :
  let c := Settings.set_threshold 1024 in
  Settings.cmin c < two32 /\ 572 < two32 /\ 60 + c_arraySlabHeaderSize <= two32.
Proof. vm_compute. repeat split; discriminate. Qed.
