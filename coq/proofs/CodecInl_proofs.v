(* CodecInl_proofs.v — lemmas about the model of data slabs with inlined children (theories/CodecInl.v).
   Part 0: byte strings, sorting, the duplicate scan
   Part 1: the shared table (extension order, add_array / add_map)
   Part 2: SomeStorable prefixes, the inlined-child head
   Part 3: generic round trip ("decoder consumes exactly what pass 1 wrote, for every final table
           extending the table at that point") for lists, pairs, elements
   Part 4: round trip of xstorable (any nesting depth), the section, slabs
   Part 5: sizes, flags
   Part 6: compact maps: the size equation with the exact hoisted amount *)
From Coq Require Import ZArith NArith List Bool Lia ZifyBool ZifyN ZifyNat.
From AtreeGen Require Import Consts CodecConsts.
From AtreeModel Require Import Codec CodecInl.
From AtreeProofs Require Import Codec_proofs.
Import ListNotations.
Local Open Scope N_scope.
Ltac Zify.zify_post_hook ::= Z.div_mod_to_equations.

(* ====================================================================== *)
(* Part 0: byte strings                                                   *)
(* ====================================================================== *)

Lemma bytes_eqb_eq a b : bytes_eqb a b = true <-> a = b.
Proof.
  revert b. induction a as [|x a IH]; intros [|y b]; cbn [bytes_eqb]; split; intros H; try reflexivity; try discriminate.
  - apply andb_true_iff in H as [H1 H2]. apply N.eqb_eq in H1. apply IH in H2. congruence.
  - inversion H; subst. rewrite N.eqb_refl. cbn. apply IH. reflexivity.
Qed.
Lemma bytes_eqb_refl a : bytes_eqb a a = true.
Proof. apply bytes_eqb_eq. reflexivity. Qed.

Lemma In_insert_sorted x y l : In y (insert_sorted x l) <-> y = x \/ In y l.
Proof.
  induction l as [|z l IH]; cbn [insert_sorted].
  - cbn. intuition.
  - destruct (bytes_ltb z x); cbn [In]; [rewrite IH|]; intuition.
Qed.
Lemma In_sort_bytes y l : In y (sort_bytes l) <-> In y l.
Proof.
  induction l as [|x l IH]; cbn [sort_bytes fold_right]; [tauto|].
  fold (sort_bytes l). rewrite In_insert_sorted, IH. cbn [In]. intuition.
Qed.
Lemma length_insert_sorted x l : length (insert_sorted x l) = S (length l).
Proof. induction l as [|z l IH]; cbn [insert_sorted]; [reflexivity|]. destruct (bytes_ltb z x); cbn [length]; [rewrite IH|]; reflexivity. Qed.
Lemma length_sort_bytes l : length (sort_bytes l) = length l.
Proof. induction l as [|x l IH]; cbn [sort_bytes fold_right]; [reflexivity|]. fold (sort_bytes l). rewrite length_insert_sorted, IH. reflexivity. Qed.

Lemma In_dup_scan y l : forall last, In y (dup_scan last l) -> In y l.
Proof.
  induction l as [|a t IH]; intros last H; cbn [dup_scan] in H; [contradiction|].
  destruct t as [|b t']; [contradiction|].
  destruct (bytes_eqb a b).
  - destruct last as [x|].
    + destruct (bytes_eqb x a).
      * right. eapply IH. exact H.
      * destruct H as [<-|H]; [left; reflexivity|]. right. eapply IH. exact H.
    + destruct H as [<-|H]; [left; reflexivity|]. right. eapply IH. exact H.
  - right. eapply IH. exact H.
Qed.
Lemma length_dup_scan l : forall last, (length (dup_scan last l) <= length l)%nat.
Proof.
  induction l as [|a t IH]; intros last; cbn [dup_scan]; [cbn; lia|].
  destruct t as [|b t']; [cbn; lia|].
  destruct (bytes_eqb a b).
  - destruct last as [x|]; [destruct (bytes_eqb x a)|]; cbn [length]; try (specialize (IH (Some a)); cbn [length] in IH; lia);
      specialize (IH (Some x)); cbn [length] in IH; lia.
  - specialize (IH last). cbn [length] in *. lia.
Qed.

Lemma hoisted_in h t : In h (hoisted t) -> exists e, In e t /\ h = enc_ti (entry_ti e).
Proof.
  unfold hoisted. intros H. apply In_dup_scan in H. apply (proj1 (In_sort_bytes _ _)) in H. apply in_map_iff in H as [e [<- He]].
  exists e. split; [exact He|reflexivity].
Qed.
Lemma hoisted_len t : lenN (hoisted t) <= lenN t.
Proof.
  unfold hoisted, lenN. pose proof (length_dup_scan (sort_bytes (map (fun e => enc_ti (entry_ti e)) t)) None) as H.
  rewrite length_sort_bytes, map_length in H. lia.
Qed.

Lemma index_of_spec x l : forall i j, index_of x l i = Some j ->
  exists k, j = i + N.of_nat k /\ nth_error l k = Some x.
Proof.
  induction l as [|y l IH]; intros i j H; cbn [index_of] in H; [discriminate|].
  destruct (bytes_eqb y x) eqn:E.
  - inversion H; subst. apply bytes_eqb_eq in E. subst. exists 0%nat. split; [lia|reflexivity].
  - destruct (IH _ _ H) as (k & -> & Hk). exists (S k). split; [lia|exact Hk].
Qed.

(* ====================================================================== *)
(* Part 1: the shared table                                               *)
(* ====================================================================== *)

Definition ext (t t' : table) : Prop := exists e, t' = t ++ e.
Lemma ext_refl t : ext t t. Proof. exists []. rewrite app_nil_r. reflexivity. Qed.
Lemma ext_trans a b c : ext a b -> ext b c -> ext a c.
Proof. intros [e ->] [f ->]. exists (e ++ f). rewrite app_assoc. reflexivity. Qed.
Lemma ext_app t e : ext t (t ++ e). Proof. exists e. reflexivity. Qed.
Lemma ext_nth t F k e : ext t F -> nth_error t k = Some e -> nth_error F k = Some e.
Proof.
  intros [x ->] H. rewrite nth_error_app1; [exact H|]. apply nth_error_Some. congruence.
Qed.
Lemma ext_len t F : ext t F -> lenN t <= lenN F.
Proof. intros [x ->]. rewrite lenN_app. lia. Qed.

Definition tbl_ok (t : table) : Prop := forallb entry_ok t = true.
Lemma tbl_ok_nil : tbl_ok []. Proof. reflexivity. Qed.
Lemma tbl_ok_app t e : tbl_ok t -> entry_ok e = true -> tbl_ok (t ++ [e]).
Proof. unfold tbl_ok. intros H1 H2. rewrite forallb_app, H1. cbn. rewrite H2. reflexivity. Qed.
Lemma tbl_ok_nth t k e : tbl_ok t -> nth_error t k = Some e -> entry_ok e = true.
Proof. unfold tbl_ok. intros H Hk. rewrite forallb_forall in H. apply H. eapply nth_error_In. exact Hk. Qed.

Lemma ti_ok_swf t : ti_ok t = true -> ti_swf t = true.
Proof. unfold ti_ok. intros H. apply andb_true_iff in H. tauto. Qed.

Lemma enc_ti_inj t1 t2 : ti_swf t1 = true -> ti_swf t2 = true -> enc_ti t1 = enc_ti t2 -> t1 = t2.
Proof.
  intros H1 H2 E. pose proof (dec_ti_enc t1 [] H1) as D1. pose proof (dec_ti_enc t2 [] H2) as D2.
  rewrite E in D1. rewrite D1 in D2. congruence.
Qed.

Lemma find_array_spec key t : forall i j, find_array key t i = Some j ->
  exists k ti, j = i + N.of_nat k /\ nth_error t k = Some (XDArray ti) /\ enc_ti ti = key /\ (k < length t)%nat.
Proof.
  induction t as [|e t IH]; intros i j H; cbn [find_array] in H; [discriminate|].
  destruct e as [ti|mx|mx hk ks|].
  - destruct (bytes_eqb (enc_ti ti) key) eqn:E.
    + inversion H; subst. apply bytes_eqb_eq in E. exists 0%nat, ti. cbn. repeat split; try lia; assumption.
    + destruct (IH _ _ H) as (k & ti' & -> & Hk & He & Hl). exists (S k), ti'. cbn. repeat split; try lia; assumption.
  - destruct (IH _ _ H) as (k & ti' & -> & Hk & He & Hl). exists (S k), ti'. cbn. repeat split; try lia; assumption.
  - destruct (IH _ _ H) as (k & ti' & -> & Hk & He & Hl). exists (S k), ti'. cbn. repeat split; try lia; assumption.
  - destruct (IH _ _ H) as (k & ti' & -> & Hk & He & Hl). exists (S k), ti'. cbn. repeat split; try lia; assumption.
Qed.

Lemma nth_error_last {A} (l : list A) (x : A) : nth_error (l ++ [x]) (length l) = Some x.
Proof. rewrite nth_error_app2 by lia. rewrite Nat.sub_diag. reflexivity. Qed.

Lemma add_array_spec t ti i t' : tbl_ok t -> ti_ok ti = true -> add_array t ti = (i, t') ->
  ext t t' /\ tbl_ok t' /\ i < lenN t' /\ nth_error t' (N.to_nat i) = Some (XDArray ti).
Proof.
  intros Hok Hti. unfold add_array. destruct (find_array (enc_ti ti) t 0) as [j|] eqn:E; intros H; inversion H; subst; clear H.
  - destruct (find_array_spec _ _ _ _ E) as (k & ti' & -> & Hk & He & Hl).
    assert (ti' = ti) as ->.
    { apply enc_ti_inj; [|apply ti_ok_swf; exact Hti|exact He].
      pose proof (tbl_ok_nth _ _ _ Hok Hk) as Hx. cbn [entry_ok] in Hx. apply ti_ok_swf. exact Hx. }
    split; [apply ext_refl|]. split; [exact Hok|]. split; [unfold lenN; lia|].
    replace (N.to_nat (0 + N.of_nat k)) with k by lia. exact Hk.
  - split; [apply ext_app|]. split; [apply tbl_ok_app; assumption|]. split; [rewrite lenN_app, lenN_cons, lenN_nil; lia|].
    rewrite to_nat_lenN. apply nth_error_last.
Qed.

Lemma add_map_spec t mx i t' : tbl_ok t -> mx_ok mx = true -> add_map t mx = (i, t') ->
  ext t t' /\ tbl_ok t' /\ i < lenN t' /\ nth_error t' (N.to_nat i) = Some (XDMap mx).
Proof.
  intros Hok Hmx. unfold add_map. intros H; inversion H; subst; clear H.
  split; [apply ext_app|]. split; [apply tbl_ok_app; assumption|]. split; [rewrite lenN_app, lenN_cons, lenN_nil; lia|].
  rewrite to_nat_lenN. apply nth_error_last.
Qed.

(* ====================================================================== *)
(* Part 2: one-step computation rules of dec_x; wrappers; the child head  *)
(* ====================================================================== *)

Lemma dec_x_uint f F w r : dec_x (S f) F (tag8 (width_tag w) ++ r) = dec_xuint w r.
Proof. destruct w; reflexivity. Qed.
Lemma dec_x_slabid f F r :
  dec_x (S f) F (tag8 c_CBORTagSlabID ++ r) =
  match rd_bstr r with
  | Some (b, r') => match rd_sid b with Some (a, i, _) => Some (XSlabID a i, r') | None => None end
  | None => None
  end.
Proof. reflexivity. Qed.
Lemma dec_x_some f F r :
  dec_x (S f) F (tag8 tag_some ++ r) =
  match dec_x f F r with Some (s, r') => Some (XSome s, r') | None => None end.
Proof. reflexivity. Qed.
Lemma dec_x_nested f F r :
  dec_x (S f) F (tag8 tag_some_nested ++ r) =
  match rd_typed 4 r with
  | Some (c, r1) =>
    if c =? 2 then
      match rd_typed 0 r1 with
      | Some (lv, r2) =>
        if lv <=? 1 then None
        else match dec_x f F r2 with Some (s, r3) => Some (N.iter lv XSome s, r3) | None => None end
      | None => None
      end
    else None
  | None => None
  end.
Proof. reflexivity. Qed.
Lemma dec_x_string f F bs n r :
  rd_head bs = Some (3, n, r) ->
  dec_x (S f) F bs = match take n r with Some (s, r') => Some (XString s, r') | None => None end.
Proof. intros H. cbn [dec_x]. rewrite H. reflexivity. Qed.
Lemma dec_x_inl_array f F r :
  dec_x (S f) F (tag8 c_CBORTagInlinedArray ++ r) =
  match dec_inl_head F r with
  | Some (XDArray ti, vid, r2) =>
    match rd_typed 4 r2 with
    | Some (cnt, r3) =>
      if c_maxArrayElementCount <? cnt then None
      else match dec_seq (dec_x f F) (N.to_nat cnt) r3 with
           | Some (es, r4) => Some (XInlArray ti vid es, r4)
           | None => None
           end
    | None => None
    end
  | _ => None
  end.
Proof. reflexivity. Qed.
Lemma dec_x_inl_map f F r :
  dec_x (S f) F (tag8 c_CBORTagInlinedMap ++ r) =
  match dec_inl_head F r with
  | Some (XDMap mx, vid, r2) =>
    match dec_xelements_with (dec_x f F) (dec_xelement (dec_x f F) f) r2 with
    | Some (els, r3) => Some (XInlMap mx vid els, r3)
    | None => None
    end
  | _ => None
  end.
Proof. reflexivity. Qed.
Lemma dec_x_inl_compact f F r :
  dec_x (S f) F (tag8 c_CBORTagInlinedCompactMap ++ r) =
  match dec_inl_head F r with
  | Some (XDCompact mx hk ks, vid, r2) =>
    match rd_typed 4 r2 with
    | Some (cnt, r3) =>
      if cnt =? lenN ks then
        match dec_seq (dec_x f F) (N.to_nat cnt) r3 with
        | Some (vs, r4) => Some (XInlMap mx vid (compact_elements hk ks vs), r4)
        | None => None
        end
      else None
    | None => None
    end
  | _ => None
  end.
Proof. reflexivity. Qed.

Lemma iter_succ_r {A} (f : A -> A) n x : N.iter (n + 1) f x = N.iter n f (f x).
Proof. replace (n + 1) with (N.succ n) by lia. apply N.iter_succ_r. Qed.

(* SomeStorable around an already decodable storable *)
Lemma dec_x_wrap lv F bb r s : lv < two64 ->
  (forall fuel, (length bb <= fuel)%nat -> dec_x fuel F (bb ++ r) = Some (s, r)) ->
  forall fuel, (length (some_prefix lv ++ bb) <= fuel)%nat ->
    dec_x fuel F ((some_prefix lv ++ bb) ++ r) = Some (N.iter lv XSome s, r).
Proof.
  unfold two64. intros Hlv Hbb fuel Hf. unfold some_prefix in *.
  destruct (lv =? 0) eqn:E0.
  { replace lv with 0 by lia. cbn [app N.iter]. apply Hbb. exact Hf. }
  destruct (lv =? 1) eqn:E1.
  { replace lv with 1 by lia. rewrite app_length in Hf. cbn [tag8 length] in Hf.
    destruct fuel as [|f]; [lia|]. rewrite <- app_assoc. rewrite dec_x_some. rewrite Hbb by lia. reflexivity. }
  rewrite !app_length in Hf. cbn [tag8 length] in Hf. destruct fuel as [|f]; [lia|].
  repeat rewrite <- app_assoc. rewrite dec_x_nested. cbn [app].
  change (rd_typed 4 (130 :: ?x)) with (Some (2, x)). cbn [N.eqb Pos.eqb].
  rewrite rd_typed_cbor_head by lia. replace (lv <=? 1) with false by lia.
  rewrite Hbb by lia. reflexivity.
Qed.

Lemma rd64_be64' n : n < two64 -> rd64 (be64 n) = Some (n, []).
Proof. intros H. rewrite <- (app_nil_r (be64 n)). apply rd64_be64. exact H. Qed.

Lemma dec_inl_head_enc F idx vid e rest : idx < lenN F -> nth_error F (N.to_nat idx) = Some e -> vid < two64 ->
  dec_inl_head F ([131] ++ uint8_fixed idx ++ cbor_head 2 c_slabIndexLength ++ be64 vid ++ rest) = Some (e, vid, rest).
Proof.
  intros Hi Hn Hv. unfold dec_inl_head. cbn [app].
  change (rd_typed 4 (131 :: ?x)) with (Some (3, x)). cbn [N.eqb Pos.eqb].
  unfold rd_typed at 1. change (24 :: idx :: ?x) with (uint8_fixed idx ++ x). rewrite rd_head_uint8_fixed.
  cbn [N.eqb]. replace (idx <? lenN F) with true by lia. rewrite Hn.
  unfold rd_bstr. change (cbor_head 2 c_slabIndexLength) with [72].
  change (rd_typed 2 ([72] ++ ?x)) with (Some (8, x)). cbv beta iota.
  rewrite (take_app' 8 (be64 vid) rest) by reflexivity. change (lenN (be64 vid) =? c_slabIndexLength) with true. cbv iota.
  rewrite rd64_be64' by exact Hv. reflexivity.
Qed.

(* ====================================================================== *)
(* Part 3: generic round trip                                             *)
(* ====================================================================== *)

(* [enc] started in any well-formed table t extends it to t', and the decoder, given ANY final
   table F extending t' and fuel at least the number of bytes written, reads back [a] and leaves
   the rest.  f1 = fuel of the value decoder, f2 = fuel of the element decoder. *)
Definition rt_prop {A} (enc : table -> bytes * table)
           (dec : nat -> nat -> table -> bytes -> option (A * bytes)) (a : A) : Prop :=
  forall t b t', tbl_ok t -> enc t = (b, t') ->
    ext t t' /\ tbl_ok t' /\
    forall F r f1 f2, ext t' F -> (length b <= f1)%nat -> (length b <= f2)%nat ->
      dec f1 f2 F (b ++ r) = Some (a, r).

Lemma rt_list {A} (enc : table -> A -> bytes * table) dec (l : list A) :
  Forall (fun a => rt_prop (fun t => enc t a) dec a) l ->
  rt_prop (fun t => st_flat enc t l) (fun f1 f2 F => dec_seq (dec f1 f2 F) (length l)) l.
Proof.
  induction l as [|a l IH]; intros HF t b t' Hok H.
  - cbn [st_flat] in H. inversion H; subst. split; [apply ext_refl|]. split; [exact Hok|]. intros. reflexivity.
  - inversion HF as [|? ? Ha Hl]; subst. cbn [st_flat] in H.
    destruct (enc t a) as [b1 t1] eqn:E1. destruct (st_flat enc t1 l) as [b2 t2] eqn:E2. inversion H; subst; clear H.
    destruct (Ha t b1 t1 Hok E1) as (X1 & O1 & D1). destruct (IH Hl t1 b2 t' O1 E2) as (X2 & O2 & D2).
    split; [eapply ext_trans; eassumption|]. split; [exact O2|].
    intros F r f1 f2 HX L1 L2. rewrite app_length in L1, L2. cbn [length dec_seq]. rewrite <- app_assoc.
    rewrite D1; [|eapply ext_trans; eassumption|lia|lia]. rewrite D2; [reflexivity|exact HX|lia|lia].
Qed.

Section generic.
  Context {V : Type} (encV : table -> V -> bytes * table) (decV : nat -> table -> bytes -> option (V * bytes)).
  Context (wfV : V -> bool).

  Definition rtV (v : V) : Prop := rt_prop (fun t => encV t v) (fun f1 _ F => decV f1 F) v.

  Lemma rt_pair k v : storable_swf k = true -> rtV v ->
    rt_prop (fun t => enc_xpair encV t (k, v)) (fun f1 _ F => dec_xpair (decV f1 F)) (k, v).
  Proof.
    intros Hk Hv t b t' Hok H. unfold enc_xpair in H. cbn [fst snd] in H.
    destruct (encV t v) as [bv tv] eqn:E. apply pair_equal_spec in H as [Hb Ht]; subst b; subst t'.
    destruct (Hv t bv tv Hok E) as (X & O & D). split; [exact X|]. split; [exact O|].
    intros F r f1 f2 HX L1 L2. cbn [length] in L1. rewrite app_length in L1.
    unfold dec_xpair. cbn [app]. change (rd_typed 4 (130 :: ?x)) with (Some (2, x)). cbn [N.eqb Pos.eqb].
    rewrite <- app_assoc. rewrite dec_storable_top_enc by exact Hk. rewrite (D F r f1 f1) by (try exact HX; lia). reflexivity.
  Qed.

  Lemma xpair_wf_split (p : storable * V) : xpair_wf wfV p = true -> storable_swf (fst p) = true /\ wfV (snd p) = true.
  Proof. unfold xpair_wf. intros H. apply andb_true_iff in H. exact H. Qed.

  Lemma rt_pairs ps : Forall (fun p => wfV (snd p) = true -> rtV (snd p)) ps -> forallb (xpair_wf wfV) ps = true ->
    rt_prop (fun t => st_flat (enc_xpair encV) t ps) (fun f1 f2 F => dec_seq (dec_xpair (decV f1 F)) (length ps)) ps.
  Proof.
    intros HF Hwf. apply (rt_list (enc_xpair encV) (fun f1 _ F => dec_xpair (decV f1 F)) ps).
    rewrite Forall_forall in *. rewrite forallb_forall in Hwf. intros [k v] Hin.
    destruct (xpair_wf_split _ (Hwf _ Hin)) as [Hk Hv]. cbn [fst snd] in *.
    apply rt_pair; [exact Hk|]. apply (HF _ Hin). exact Hv.
  Qed.
End generic.

(* ---------- induction over nested elements ---------- *)

Section xelement_ind.
  Context {V : Type} (P : xelement V -> Prop).
  Hypothesis HS : forall k v, P (XESingle k v).
  Hypothesis HH : forall l hk es, Forall P es -> P (XEGroupH l hk es).
  Hypothesis HG : forall l ps, P (XEGroupS l ps).
  Hypothesis HE : forall a i, P (XEExt a i).
  Fixpoint xelement_ind' (e : xelement V) : P e :=
    match e with
    | XESingle k v => HS k v
    | XEGroupH l hk es =>
      HH l hk es ((fix go (l : list (xelement V)) : Forall P l :=
                     match l with [] => Forall_nil _ | x :: r => Forall_cons x (xelement_ind' x) (go r) end) es)
    | XEGroupS l ps => HG l ps
    | XEExt a i => HE a i
    end.
End xelement_ind.

(* "every value stored in the element (at any group depth) satisfies Q" *)
Inductive xel_all {V} (Q : V -> Prop) : xelement V -> Prop :=
| xa_single k v : Q v -> xel_all Q (XESingle k v)
| xa_grouph l hk es : Forall (xel_all Q) es -> xel_all Q (XEGroupH l hk es)
| xa_groups l ps : Forall (fun p => Q (snd p)) ps -> xel_all Q (XEGroupS l ps)
| xa_ext a i : xel_all Q (XEExt a i).
Definition xels_all {V} (Q : V -> Prop) (els : xelements V) : Prop :=
  match els with
  | XHkeyElems _ _ es => Forall (xel_all Q) es
  | XSingleElems _ ps => Forall (fun p => Q (snd p)) ps
  end.

Section xall_intro.
  Context {V : Type} (Q : V -> Prop) (f : forall v, Q v).
  Definition pairs_all_intro : forall ps : list (storable * V), Forall (fun p => Q (snd p)) ps :=
    fix go ps := match ps with [] => Forall_nil _ | p :: r => Forall_cons p (f (snd p)) (go r) end.
  Fixpoint xel_all_intro (e : xelement V) : xel_all Q e :=
    match e with
    | XESingle k v => xa_single Q k v (f v)
    | XEGroupH l hk es =>
      xa_grouph Q l hk es ((fix go (l : list (xelement V)) : Forall (xel_all Q) l :=
                              match l with [] => Forall_nil _ | x :: r => Forall_cons x (xel_all_intro x) (go r) end) es)
    | XEGroupS l ps => xa_groups Q l ps (pairs_all_intro ps)
    | XEExt a i => xa_ext Q a i
    end.
  Definition xels_all_intro (els : xelements V) : xels_all Q els :=
    match els with
    | XHkeyElems _ _ es =>
      (fix go (l : list (xelement V)) : Forall (xel_all Q) l :=
         match l with [] => Forall_nil _ | x :: r => Forall_cons x (xel_all_intro x) (go r) end) es
    | XSingleElems _ ps => pairs_all_intro ps
    end.
End xall_intro.

Section generic_elements.
  Context {V : Type} (encV : table -> V -> bytes * table) (decV : nat -> table -> bytes -> option (V * bytes)).
  Context (wfV : V -> bool).
  Notation rtV := (rtV encV decV).

  Lemma xel_wf_H l hk es : xel_wf wfV (XEGroupH l hk es) = true ->
    l <= c_maxDigestLevel /\ lenN hk = lenN es /\ c_digestSize * lenN hk < two16 /\ lenN es < two16 /\
    forallb (fun h => h <? two64) hk = true /\ forallb (xel_wf wfV) es = true.
  Proof.
    cbn [xel_wf]. intros H. repeat (apply andb_true_iff in H as [H ?]). repeat split; try assumption; lia.
  Qed.
  Lemma xel_wf_S l ps : xel_wf wfV (XEGroupS l ps) = true ->
    l <= c_maxDigestLevel /\ 0 < lenN ps /\ lenN ps < two16 /\ forallb (xpair_wf wfV) ps = true.
  Proof.
    cbn [xel_wf]. intros H. repeat (apply andb_true_iff in H as [H ?]). repeat split; try assumption; lia.
  Qed.

  Lemma dec_xelements_with_hkey (dv : bytes -> option (V * bytes)) de l hk (es : list (xelement V)) b r :
    l <= c_maxDigestLevel -> lenN hk = lenN es -> c_digestSize * lenN hk < two16 -> lenN es < two16 ->
    forallb (fun h => h <? two64) hk = true ->
    dec_seq de (length es) (b ++ r) = Some (es, r) ->
    dec_xelements_with dv de (enc_hkey_head l hk (lenN es) ++ b ++ r) = Some (XHkeyElems l hk es, r).
  Proof.
    unfold c_maxDigestLevel, c_digestSize, two16. intros Hl Hlen Hhk Hes Hh Hde.
    unfold dec_xelements_with, enc_hkey_head. repeat rewrite <- app_assoc. cbn [app].
    change (rd_typed 4 (131 :: ?x)) with (Some (3, x)). cbn [N.eqb Pos.eqb].
    rewrite rd_typed_small by lia.
    unfold rd_bstr. unfold c_digestSize. rewrite rd_typed_bstr16 by lia.
    rewrite (take_app' _ (flat_map be64 hk)) by (rewrite lenN_flat_be64; reflexivity).
    rewrite lenN_flat_be64. cbv zeta.
    replace (8 * lenN hk mod 8 =? 0) with true by lia.
    replace (8 * lenN hk / 8) with (lenN hk) by lia.
    rewrite to_nat_lenN. rewrite <- (app_nil_r (flat_map be64 hk)). rewrite rd_hkeys_enc by exact Hh.
    rewrite rd_typed_arr16 by lia.
    unfold c_maxArrayElementCount. replace (4294967295 <? lenN es) with false by lia.
    replace (negb (lenN hk =? 0) && negb (lenN hk =? lenN es)) with false by lia.
    replace ((lenN hk =? 0) && (0 <? lenN es)) with false by lia.
    rewrite to_nat_lenN. rewrite Hde. reflexivity.
  Qed.

  Lemma dec_xelements_with_singles (dv : bytes -> option (V * bytes)) de l (ps : list (storable * V)) b r :
    l <= c_maxDigestLevel -> 0 < lenN ps -> lenN ps < two16 ->
    dec_seq (dec_xpair dv) (length ps) (b ++ r) = Some (ps, r) ->
    dec_xelements_with dv de (enc_singles_head l (lenN ps) ++ b ++ r) = Some (XSingleElems l ps, r).
  Proof.
    unfold c_maxDigestLevel, two16. intros Hl Hpos Hps Hde.
    unfold dec_xelements_with, enc_singles_head. repeat rewrite <- app_assoc. cbn [app].
    change (rd_typed 4 (131 :: ?x)) with (Some (3, x)). cbn [N.eqb Pos.eqb].
    rewrite rd_typed_small by lia.
    unfold rd_bstr. change (rd_typed 2 (64 :: ?x)) with (Some (0, x)). cbv beta iota. rewrite take_0.
    change (lenN (@nil N)) with 0. cbv zeta. change (0 mod c_digestSize =? 0) with true. change (0 / c_digestSize) with 0.
    cbn [N.to_nat rd_hkeys]. rewrite rd_typed_arr16 by lia.
    unfold c_maxArrayElementCount. replace (4294967295 <? lenN ps) with false by lia.
    cbn [N.eqb negb andb]. replace (0 <? lenN ps) with true by lia.
    rewrite to_nat_lenN. rewrite Hde. reflexivity.
  Qed.

  (* one-step computation rules of the element decoder *)
  Lemma dec_xel_single (dv : bytes -> option (V * bytes)) f bs n r : rd_head bs = Some (4, n, r) ->
    dec_xelement dv (S f) bs = match dec_xpair dv bs with Some (p, r') => Some (XESingle (fst p) (snd p), r') | None => None end.
  Proof. intros H. cbn [dec_xelement]. rewrite H. reflexivity. Qed.
  Lemma dec_xel_group (dv : bytes -> option (V * bytes)) f r :
    dec_xelement dv (S f) (tag8 c_CBORTagInlineCollisionGroup ++ r) =
    match dec_xelements_with dv (dec_xelement dv f) r with
    | Some (XHkeyElems l hk es, r') => Some (XEGroupH l hk es, r')
    | Some (XSingleElems l ps, r') => Some (XEGroupS l ps, r')
    | None => None
    end.
  Proof. reflexivity. Qed.
  Lemma dec_xel_ext (dv : bytes -> option (V * bytes)) f r :
    dec_xelement dv (S f) (tag8 c_CBORTagExternalCollisionGroup ++ r) =
    match dec_storable_top r with
    | Some (SSlabID a i, r') => Some (XEExt a i, r')
    | _ => None
    end.
  Proof. reflexivity. Qed.

  Definition Qv (v : V) : Prop := wfV v = true -> rtV v.

  Lemma rt_element e : xel_all Qv e -> xel_wf wfV e = true ->
    rt_prop (fun t => enc_xelement encV t e) (fun f1 f2 F => dec_xelement (decV f1 F) f2) e.
  Proof.
    induction e as [k v|l hk es IH|l ps|a i] using xelement_ind'; intros Hall Hwf t b t' Hok H.
    - inversion Hall as [? ? Hq| | |]; subst. cbn [xel_wf] in Hwf. destruct (xpair_wf_split _ _ Hwf) as [Hk Hv]. cbn [fst snd] in *.
      cbn [enc_xelement] in H.
      destruct (rt_pair encV decV wfV k v Hk (Hq Hv) t b t' Hok H) as (X & O & D). split; [exact X|]. split; [exact O|].
      intros F r f1 f2 HX L1 L2.
      assert (exists b', b = 130 :: b') as [b' ->].
      { unfold enc_xpair in H. destruct (encV t (snd (k, v))). inversion H. eexists. reflexivity. }
      cbn [length] in L2. destruct f2 as [|f2]; [lia|].
      erewrite dec_xel_single by (cbn [app]; reflexivity). rewrite (D F r f1 f1) by (try exact HX; lia). reflexivity.
    - inversion Hall as [|? ? ? Hq| |]; subst.
      destruct (xel_wf_H _ _ _ Hwf) as (Hl & Hlen & Hhk & Hes & Hh & Hwfs).
      cbn [enc_xelement] in H. destruct (st_flat (enc_xelement encV) t es) as [bs ts] eqn:E. apply pair_equal_spec in H as [Hb Ht]; subst b; subst t'.
      assert (HF : Forall (fun e => rt_prop (fun t => enc_xelement encV t e) (fun f1 f2 F => dec_xelement (decV f1 F) f2) e) es).
      { rewrite Forall_forall in *. rewrite forallb_forall in Hwfs. intros e He. apply IH; auto. }
      destruct (rt_list _ _ _ HF t bs ts Hok E) as (X & O & D). split; [exact X|]. split; [exact O|].
      intros F r f1 f2 HX L1 L2. cbn [tag8 app length] in L1, L2; rewrite ?app_length in L1, L2.
      destruct f2 as [|f2]; [lia|]. repeat rewrite <- app_assoc. rewrite dec_xel_group.
      rewrite dec_xelements_with_hkey; try assumption; [reflexivity|].
      apply D; [exact HX|lia|lia].
    - inversion Hall as [| |? ? Hq|]; subst.
      destruct (xel_wf_S _ _ Hwf) as (Hl & Hpos & Hps & Hwfs).
      cbn [enc_xelement] in H. destruct (st_flat (enc_xpair encV) t ps) as [bs ts] eqn:E. apply pair_equal_spec in H as [Hb Ht]; subst b; subst t'.
      destruct (rt_pairs encV decV wfV ps Hq Hwfs t bs ts Hok E) as (X & O & D). split; [exact X|]. split; [exact O|].
      intros F r f1 f2 HX L1 L2. cbn [tag8 app length] in L1, L2; rewrite ?app_length in L1, L2.
      destruct f2 as [|f2]; [lia|]. repeat rewrite <- app_assoc. rewrite dec_xel_group.
      rewrite dec_xelements_with_singles; try assumption; [reflexivity|].
      apply (D F r f1 f1); [exact HX|lia|lia].
    - cbn [enc_xelement] in H. apply pair_equal_spec in H as [Hb Ht]; subst b; subst t'. split; [apply ext_refl|]. split; [exact Hok|].
      intros F r f1 f2 HX L1 L2. cbn [tag8 app length] in L2; rewrite ?app_length in L2. destruct f2 as [|f2]; [lia|].
      cbn [xel_wf] in Hwf. rewrite <- app_assoc. rewrite dec_xel_ext.
      rewrite dec_storable_top_enc; [reflexivity|]. unfold storable_swf. cbn [storable_wf some_levels]. rewrite Hwf. reflexivity.
  Qed.

  Lemma xels_wf_H l hk es : xels_wf wfV (XHkeyElems l hk es) = true ->
    l <= c_maxDigestLevel /\ lenN hk = lenN es /\ c_digestSize * lenN hk < two16 /\ lenN es < two16 /\
    forallb (fun h => h <? two64) hk = true /\ forallb (xel_wf wfV) es = true.
  Proof. apply xel_wf_H. Qed.
  Lemma xels_wf_S l ps : xels_wf wfV (XSingleElems l ps) = true ->
    l <= c_maxDigestLevel /\ 0 < lenN ps /\ lenN ps < two16 /\ forallb (xpair_wf wfV) ps = true.
  Proof. apply xel_wf_S. Qed.

  Lemma rt_elements els : xels_all Qv els -> xels_wf wfV els = true ->
    rt_prop (fun t => enc_xelements encV t els)
            (fun f1 f2 F => dec_xelements_with (decV f1 F) (dec_xelement (decV f1 F) f2)) els.
  Proof.
    intros Hall Hwf t b t' Hok H. destruct els as [l hk es|l ps]; cbn [xels_all enc_xelements] in *.
    - destruct (xels_wf_H _ _ _ Hwf) as (Hl & Hlen & Hhk & Hes & Hh & Hwfs).
      destruct (st_flat (enc_xelement encV) t es) as [bs ts] eqn:E. apply pair_equal_spec in H as [Hb Ht]; subst b; subst t'.
      assert (HF : Forall (fun e => rt_prop (fun t => enc_xelement encV t e) (fun f1 f2 F => dec_xelement (decV f1 F) f2) e) es).
      { rewrite Forall_forall in *. rewrite forallb_forall in Hwfs. intros e He. apply rt_element; auto. }
      destruct (rt_list _ _ _ HF t bs ts Hok E) as (X & O & D). split; [exact X|]. split; [exact O|].
      intros F r f1 f2 HX L1 L2. rewrite ?app_length in L1, L2. rewrite <- app_assoc.
      apply dec_xelements_with_hkey; try assumption. apply D; [exact HX|lia|lia].
    - destruct (xels_wf_S _ _ Hwf) as (Hl & Hpos & Hps & Hwfs).
      destruct (st_flat (enc_xpair encV) t ps) as [bs ts] eqn:E. apply pair_equal_spec in H as [Hb Ht]; subst b; subst t'.
      destruct (rt_pairs encV decV wfV ps Hall Hwfs t bs ts Hok E) as (X & O & D). split; [exact X|]. split; [exact O|].
      intros F r f1 f2 HX L1 L2. rewrite ?app_length in L1, L2. rewrite <- app_assoc.
      apply dec_xelements_with_singles; try assumption. apply (D F r f1 f1); [exact HX|lia|lia].
  Qed.
End generic_elements.

Lemma xel_all_impl {V} (P Q : V -> Prop) (HPQ : forall v, P v -> Q v) e : xel_all P e -> xel_all Q e.
Proof.
  induction e as [k v|l hk es IH|l ps|a i] using xelement_ind'; intros H; inversion H; subst; constructor.
  - auto.
  - rewrite Forall_forall in *. auto.
  - rewrite Forall_forall in *. auto.
Qed.
Lemma xels_all_impl {V} (P Q : V -> Prop) (HPQ : forall v, P v -> Q v) els : xels_all P els -> xels_all Q els.
Proof.
  destruct els as [l hk es|l ps]; cbn [xels_all]; intros H; rewrite Forall_forall in *; intros x Hx.
  - eapply xel_all_impl; eauto.
  - auto.
Qed.

(* ====================================================================== *)
(* Part 4: round trip of xstorable, the section, slabs                    *)
(* ====================================================================== *)

Section xstorable_ind.
  Variable P : xstorable -> Prop.
  Hypothesis HU : forall w n, P (XUint w n).
  Hypothesis HSt : forall s, P (XString s).
  Hypothesis HI : forall a i, P (XSlabID a i).
  Hypothesis HSo : forall s, P s -> P (XSome s).
  Hypothesis HA : forall ti vid es, Forall P es -> P (XInlArray ti vid es).
  Hypothesis HM : forall mx vid els, xels_all P els -> P (XInlMap mx vid els).
  Fixpoint xstorable_ind' (s : xstorable) : P s :=
    match s with
    | XUint w n => HU w n
    | XString b => HSt b
    | XSlabID a i => HI a i
    | XSome s' => HSo s' (xstorable_ind' s')
    | XInlArray ti vid es =>
      HA ti vid es ((fix go (l : list xstorable) : Forall P l :=
                       match l with [] => Forall_nil _ | x :: r => Forall_cons x (xstorable_ind' x) (go r) end) es)
    | XInlMap mx vid els => HM mx vid els (xels_all_intro P xstorable_ind' els)
    end.
End xstorable_ind.

Definition decx : nat -> nat -> table -> bytes -> option (xstorable * bytes) := fun f1 _ F => dec_x f1 F.

Lemma rt_prop_ext {A} (e1 e2 : table -> bytes * table) dec (a : A) :
  (forall t, e1 t = e2 t) -> rt_prop e1 dec a -> rt_prop e2 dec a.
Proof. intros He H t b t' Hok E. rewrite <- He in E. exact (H t b t' Hok E). Qed.

Definition wrap_some (lv : N) (base : table -> bytes * table) (t : table) : bytes * table :=
  let (bb, t') := base t in (some_prefix lv ++ bb, t').

Lemma rt_wrap lv s base : lv < two64 -> rt_prop base decx s -> rt_prop (wrap_some lv base) decx (N.iter lv XSome s).
Proof.
  intros Hlv Hb t b t' Hok H. unfold wrap_some in H. destruct (base t) as [bb tb] eqn:E.
  apply pair_equal_spec in H as [Hb' Ht]; subst b; subst t'.
  destruct (Hb t bb tb Hok E) as (X & O & D). split; [exact X|]. split; [exact O|].
  intros F r f1 f2 HX L1 L2. unfold decx. apply dec_x_wrap; [exact Hlv| |exact L1].
  intros fuel Hf. apply (D F r fuel fuel HX Hf Hf).
Qed.

Definition base_uint (w : width) (n : N) (t : table) : bytes * table := (tag8 (width_tag w) ++ cbor_head 0 n, t).
Definition base_string (bs : bytes) (t : table) : bytes * table := (cbor_head 3 (lenN bs) ++ bs, t).
Definition base_slabid (a i : N) (t : table) : bytes * table :=
  (tag8 c_CBORTagSlabID ++ cbor_head 2 c_slabIDLength ++ enc_sid a i, t).
Definition base_array (ti : typeinfo) (vid : N) (es : list xstorable) (t : table) : bytes * table :=
  let (idx, t1) := add_array t ti in
  let (b, t2) := st_flat (enc_x 0) t1 es in
  (enc_inl_head c_CBORTagInlinedArray idx vid ++ arr16_head (lenN es) ++ b, t2).
Definition base_map (mx : mextra) (vid : N) (els : xelements xstorable) (t : table) : bytes * table :=
  let (idx, t1) := add_map t mx in
  let (b, t2) := enc_xelements (enc_x 0) t1 els in
  (enc_inl_head c_CBORTagInlinedMap idx vid ++ b, t2).

Lemma rt_base_uint w n : n <= width_max w -> rt_prop (base_uint w n) decx (XUint w n).
Proof.
  intros Hn t b t' Hok H. unfold base_uint in H. apply pair_equal_spec in H as [Hb Ht]; subst b; subst t'.
  split; [apply ext_refl|]. split; [exact Hok|]. intros F r f1 f2 HX L1 L2. unfold decx.
  rewrite app_length in L1. cbn [tag8 length] in L1. destruct f1 as [|f]; [lia|].
  rewrite <- app_assoc, dec_x_uint. unfold dec_xuint. rewrite rd_typed_cbor_head by (destruct w; cbn in Hn; lia).
  replace (width_max w <? n) with false by lia. reflexivity.
Qed.
Lemma rt_base_string bs : lenN bs < two64 -> rt_prop (base_string bs) decx (XString bs).
Proof.
  unfold two64. intros Hn t b t' Hok H. unfold base_string in H. apply pair_equal_spec in H as [Hb Ht]; subst b; subst t'.
  split; [apply ext_refl|]. split; [exact Hok|]. intros F r f1 f2 HX L1 L2. unfold decx.
  assert (1 <= length (cbor_head 3 (lenN bs)))%nat by (unfold cbor_head; repeat destruct (_ <? _); cbn [length]; lia).
  rewrite app_length in L1. destruct f1 as [|f]; [lia|].
  rewrite <- app_assoc. erewrite dec_x_string by (apply rd_head_cbor_head; lia). rewrite take_app. reflexivity.
Qed.
Lemma rt_base_slabid a i : a < two64 -> i < two64 -> rt_prop (base_slabid a i) decx (XSlabID a i).
Proof.
  intros Ha Hi t b t' Hok H. unfold base_slabid in H. apply pair_equal_spec in H as [Hb Ht]; subst b; subst t'.
  split; [apply ext_refl|]. split; [exact Hok|]. intros F r f1 f2 HX L1 L2. unfold decx.
  rewrite app_length in L1. cbn [tag8 length] in L1. destruct f1 as [|f]; [lia|].
  rewrite <- app_assoc, dec_x_slabid. unfold rd_bstr. rewrite <- app_assoc.
  rewrite rd_typed_cbor_head by (vm_compute; reflexivity).
  rewrite (take_app' _ (enc_sid a i) r) by reflexivity.
  rewrite <- (app_nil_r (enc_sid a i)). rewrite rd_sid_enc by assumption. reflexivity.
Qed.

Lemma compact_pairs_map {V W} (f : V -> W) (es : list (xelement V)) :
  compact_pairs (map (xel_map f) es) = option_map (map (fun kv => (fst kv, f (snd kv)))) (compact_pairs es).
Proof.
  induction es as [|e es IH]; [reflexivity|]. cbn [map].
  destruct e as [k v|l hk es'|l ps|a i]; cbn [xel_map compact_pairs]; try reflexivity.
  destruct k; try reflexivity. rewrite IH. destruct (compact_pairs es); reflexivity.
Qed.
Lemma compact_kvs_map {V W} (f : V -> W) mx (els : xelements V) :
  compact_kvs mx (xels_map f els) =
  option_map (fun x => (fst x, map (fun kv => (fst kv, f (snd kv))) (snd x))) (compact_kvs mx els).
Proof.
  unfold compact_kvs. destruct (is_composite (mx_ti mx)); [|reflexivity].
  destruct els as [l hk es|l ps]; cbn [xels_map]; [|reflexivity].
  rewrite compact_pairs_map. destruct (compact_pairs es); reflexivity.
Qed.

Lemma enc_x_array lv t ti vid es : enc_x lv t (XInlArray ti vid es) = wrap_some lv (base_array ti vid es) t.
Proof.
  unfold wrap_some, base_array. cbn [enc_x]. destruct (add_array t ti) as [idx t1].
  destruct (st_flat (enc_x 0) t1 es) as [b t2]. reflexivity.
Qed.
Lemma enc_x_map lv t mx vid els : is_compact_map mx els = false ->
  enc_x lv t (XInlMap mx vid els) = wrap_some lv (base_map mx vid els) t.
Proof.
  intros Hc. unfold wrap_some, base_map. cbn [enc_x]. rewrite compact_kvs_map.
  unfold is_compact_map in Hc. destruct (compact_kvs mx els) as [x|]; [discriminate|]. cbn [option_map].
  destruct (add_map t mx) as [idx t1]. destruct (enc_xelements (enc_x 0) t1 els) as [b t2]. reflexivity.
Qed.

Definition Px (s : xstorable) : Prop :=
  forall lv, x_wf true lv s = true -> rt_prop (fun t => enc_x lv t s) decx (N.iter lv XSome s).

Lemma enc_inl_head_len tag idx vid : length (enc_inl_head tag idx vid) = 14%nat.
Proof. reflexivity. Qed.

Lemma rt_base_array ti vid es : ti_ok ti = true -> vid < two64 -> lenN es < two16 ->
  forallb (x_wf true 0) es = true -> Forall Px es ->
  rt_prop (base_array ti vid es) decx (XInlArray ti vid es).
Proof.
  intros Hti Hvid Hn Hwf HP t b t' Hok H. unfold base_array in H.
  destruct (add_array t ti) as [idx t1] eqn:E1. destruct (st_flat (enc_x 0) t1 es) as [bs t2] eqn:E2.
  apply pair_equal_spec in H as [Hb Ht]; subst b; subst t'.
  destruct (add_array_spec _ _ _ _ Hok Hti E1) as (X1 & O1 & Hi & Hnth).
  assert (HF : Forall (fun a => rt_prop (fun t => enc_x 0 t a) decx a) es).
  { rewrite Forall_forall in *. rewrite forallb_forall in Hwf. intros a Ha. apply (HP a Ha 0). apply Hwf. exact Ha. }
  destruct (rt_list (enc_x 0) decx es HF t1 bs t2 O1 E2) as (X2 & O2 & D2).
  split; [eapply ext_trans; eassumption|]. split; [exact O2|].
  intros F r f1 f2 HX L1 L2. unfold decx. rewrite !app_length, enc_inl_head_len in L1.
  destruct f1 as [|f]; [lia|]. unfold enc_inl_head. repeat rewrite <- app_assoc. rewrite dec_x_inl_array.
  assert (HX1 : ext t1 F) by (eapply ext_trans; eassumption).
  rewrite (dec_inl_head_enc F idx vid (XDArray ti)); [|pose proof (ext_len _ _ HX1); lia|eapply ext_nth; eassumption|exact Hvid].
  unfold two16 in Hn. rewrite rd_typed_arr16 by lia.
  replace (c_maxArrayElementCount <? lenN es) with false by (unfold c_maxArrayElementCount; lia).
  rewrite to_nat_lenN. unfold decx in D2. rewrite (D2 F r f f HX) by lia. reflexivity.
Qed.

Lemma mx_ok_split mx : mx_ok mx = true -> ti_ok (mx_ti mx) = true /\ mx_count mx < two64 /\ mx_seed mx < two64.
Proof. unfold mx_ok. intros H. apply andb_true_iff in H as [H H3]. apply andb_true_iff in H as [H1 H2]. repeat split; [exact H1|lia|lia]. Qed.

Lemma rt_base_map mx vid els : mx_ok mx = true -> vid < two64 ->
  xels_wf (x_wf true 0) els = true -> xels_all Px els ->
  rt_prop (base_map mx vid els) decx (XInlMap mx vid els).
Proof.
  intros Hmx Hvid Hwf HP t b t' Hok H. unfold base_map in H.
  destruct (add_map t mx) as [idx t1] eqn:E1. destruct (enc_xelements (enc_x 0) t1 els) as [bs t2] eqn:E2.
  apply pair_equal_spec in H as [Hb Ht]; subst b; subst t'.
  destruct (add_map_spec _ _ _ _ Hok Hmx E1) as (X1 & O1 & Hi & Hnth).
  assert (HQ : xels_all (Qv (enc_x 0) dec_x (x_wf true 0)) els).
  { eapply xels_all_impl; [|exact HP]. intros v Hv Hw. exact (Hv 0 Hw). }
  destruct (rt_elements (enc_x 0) dec_x (x_wf true 0) els HQ Hwf t1 bs t2 O1 E2) as (X2 & O2 & D2).
  split; [eapply ext_trans; eassumption|]. split; [exact O2|].
  intros F r f1 f2 HX L1 L2. unfold decx. rewrite !app_length, enc_inl_head_len in L1.
  destruct f1 as [|f]; [lia|]. unfold enc_inl_head. repeat rewrite <- app_assoc. rewrite dec_x_inl_map.
  assert (HX1 : ext t1 F) by (eapply ext_trans; eassumption).
  rewrite (dec_inl_head_enc F idx vid (XDMap mx)); [|pose proof (ext_len _ _ HX1); lia|eapply ext_nth; eassumption|exact Hvid].
  rewrite (D2 F r f f HX) by lia. reflexivity.
Qed.

Lemma rt_x s : Px s.
Proof.
  induction s as [w n|bs|a i|s IH|ti vid es IH|mx vid els IH] using xstorable_ind'; intros lv Hwf; cbn [x_wf] in Hwf.
  - apply andb_true_iff in Hwf as [Hlv Hn].
    apply (rt_prop_ext (wrap_some lv (base_uint w n))); [reflexivity|]. apply rt_wrap; [lia|]. apply rt_base_uint. lia.
  - apply andb_true_iff in Hwf as [Hwf Hn]. apply andb_true_iff in Hwf as [Hlv _].
    apply (rt_prop_ext (wrap_some lv (base_string bs))); [reflexivity|]. apply rt_wrap; [lia|]. apply rt_base_string. lia.
  - apply andb_true_iff in Hwf as [Hwf Hi]. apply andb_true_iff in Hwf as [Hlv Ha].
    apply (rt_prop_ext (wrap_some lv (base_slabid a i))); [reflexivity|]. apply rt_wrap; [lia|]. apply rt_base_slabid; lia.
  - rewrite <- iter_succ_r. apply (rt_prop_ext (fun t => enc_x (lv + 1) t s)); [reflexivity|]. apply IH. exact Hwf.
  - repeat (apply andb_true_iff in Hwf as [Hwf ?]).
    apply (rt_prop_ext (wrap_some lv (base_array ti vid es))); [intros t; symmetry; apply enc_x_array|].
    apply rt_wrap; [lia|]. apply rt_base_array; try assumption; lia.
  - repeat (apply andb_true_iff in Hwf as [Hwf ?]).
    assert (Hc : is_compact_map mx els = false) by (destruct (is_compact_map mx els); [discriminate|reflexivity]).
    apply (rt_prop_ext (wrap_some lv (base_map mx vid els))); [intros t; symmetry; apply enc_x_map; exact Hc|].
    apply rt_wrap; [lia|]. apply rt_base_map; try assumption; lia.
Qed.

(* the slab decoders call the storable decoder with fuel = number of bytes left *)
Definition decx_top : nat -> nat -> table -> bytes -> option (xstorable * bytes) := fun _ _ F => dec_x_top F.

Lemma rt_x_top s : x_wf true 0 s = true -> rt_prop (fun t => enc_x 0 t s) decx_top s.
Proof.
  intros Hwf t b t' Hok H. destruct (rt_x s 0 Hwf t b t' Hok H) as (X & O & D). split; [exact X|]. split; [exact O|].
  intros F r f1 f2 HX _ _. unfold decx_top, dec_x_top. apply (D F r (length (b ++ r)) (length (b ++ r)) HX); rewrite app_length; lia.
Qed.

(* ---------- the section ---------- *)

Lemma entry_ok_ti e : entry_ok e = true -> ti_ok (entry_ti e) = true.
Proof.
  destruct e as [ti|mx|mx hk ks|]; cbn [entry_ok entry_ti]; intros H.
  - exact H.
  - apply mx_ok_split in H. tauto.
  - do 4 (apply andb_true_iff in H as [H ?]). apply mx_ok_split in H. tauto.
  - discriminate.
Qed.

Lemma all_enc_ti (hs : list bytes) : Forall (fun h => exists ti, ti_ok ti = true /\ h = enc_ti ti) hs ->
  exists his, hs = map enc_ti his /\ Forall (fun x => ti_ok x = true) his.
Proof.
  induction hs as [|h hs IH]; intros H.
  - exists []. split; [reflexivity|constructor].
  - inversion H as [|? ? (ti & Hok & ->) Hr]; subst. destruct (IH Hr) as (his & -> & Hall).
    exists (ti :: his). split; [reflexivity|]. constructor; assumption.
Qed.

Lemma hoisted_decodable t : tbl_ok t -> exists his, hoisted t = map enc_ti his /\ Forall (fun x => ti_ok x = true) his.
Proof.
  intros Hok. apply all_enc_ti. apply Forall_forall. intros h Hh. destruct (hoisted_in _ _ Hh) as (e & He & ->).
  exists (entry_ti e). split; [|reflexivity]. apply entry_ok_ti. unfold tbl_ok in Hok. rewrite forallb_forall in Hok. apply Hok. exact He.
Qed.

Lemma dec_tis_enc his r : Forall (fun x => ti_ok x = true) his ->
  dec_seq dec_ti (length his) (concat (map enc_ti his) ++ r) = Some (his, r).
Proof.
  induction his as [|t his IH]; intros H; [reflexivity|]. inversion H; subst.
  cbn [length map concat dec_seq]. rewrite <- app_assoc. rewrite dec_ti_enc by (apply ti_ok_swf; assumption).
  rewrite IH by assumption. reflexivity.
Qed.

Lemma nth_error_map' {A B} (f : A -> B) l k y : nth_error (map f l) k = Some y -> exists x, nth_error l k = Some x /\ f x = y.
Proof.
  revert k. induction l as [|a l IH]; intros [|k] H; cbn in H; try discriminate.
  - inversion H. exists a. split; reflexivity.
  - apply IH. exact H.
Qed.

Lemma cbor_head_cons mt n : exists ai rest, cbor_head mt n = (mt * 32 + ai) :: rest /\ ai < 28 /\ (ai = 24 -> rest = [n]).
Proof.
  unfold cbor_head. destruct (n <? 24) eqn:E1. { exists n, []. repeat split; lia. }
  destruct (n <? 256). { exists 24, [n]. repeat split; lia. }
  destruct (n <? 65536). { exists 25, (be16 n). repeat split; lia. }
  destruct (n <? 4294967296). { exists 26, (be32 n). repeat split; lia. }
  exists 27, (be64 n). repeat split; lia.
Qed.

Lemma enc_ti_first2 ti r a b l : ti_ok ti = true -> enc_ti ti ++ r = a :: b :: l -> a <> 216 \/ b <> c_CBORTagTypeInfoRef.
Proof.
  unfold ti_ok. intros Hok E. apply andb_true_iff in Hok as [_ Hok]. destruct ti as [n|tag n]; unfold enc_ti in E.
  - destruct (cbor_head_cons 0 n) as (ai & rest & Hc & Hai & _). rewrite Hc in E.
    apply (f_equal (fun l => nth 0 l 0)) in E. cbn [nth app] in E. left. lia.
  - destruct (cbor_head_cons 6 tag) as (ai & rest & Hc & Hai & H24). rewrite Hc in E. rewrite <- app_assoc in E.
    pose proof (f_equal (fun l => nth 0 l 0) E) as E0. cbn [nth app] in E0.
    destruct (N.eq_dec ai 24) as [->|Hne]; [|left; lia].
    rewrite (H24 eq_refl) in E. pose proof (f_equal (fun l => nth 1 l 0) E) as E1. cbn [nth app] in E1.
    right. lia.
Qed.

Lemma dec_ti_ref_enc his ti r : Forall (fun x => ti_ok x = true) his -> lenN his < two64 -> ti_ok ti = true ->
  dec_ti_ref his (enc_ti_ref (map enc_ti his) ti ++ r) = Some (ti, r).
Proof.
  intros Hall Hlen Hti. unfold enc_ti_ref. destruct (index_of (enc_ti ti) (map enc_ti his) 0) as [i|] eqn:E.
  - destruct (index_of_spec _ _ _ _ E) as (k & -> & Hk). destruct (nth_error_map' _ _ _ _ Hk) as (ti' & Hk' & He).
    assert (ti' = ti) as ->.
    { apply enc_ti_inj; [|apply ti_ok_swf; exact Hti|exact He]. apply ti_ok_swf. rewrite Forall_forall in Hall. apply Hall.
      eapply nth_error_In. exact Hk'. }
    assert (Hkl : (k < length his)%nat) by (apply nth_error_Some; congruence).
    unfold dec_ti_ref. destruct his as [|h0 his']; [cbn in Hkl; lia|]. set (his := h0 :: his') in *.
    rewrite <- app_assoc. cbn [tag8 app]. change ((216 =? 216) && (c_CBORTagTypeInfoRef =? c_CBORTagTypeInfoRef)) with true. cbv iota.
    unfold two64 in Hlen. unfold lenN in Hlen. rewrite rd_typed_cbor_head by lia.
    replace (0 + N.of_nat k <? lenN his) with true by (unfold lenN; lia).
    replace (N.to_nat (0 + N.of_nat k)) with k by lia. rewrite Hk'. reflexivity.
  - unfold dec_ti_ref. destruct his as [|h0 his']; [apply dec_ti_enc, ti_ok_swf, Hti|].
    destruct (enc_ti ti ++ r) as [|a [|b l]] eqn:El; try (rewrite <- El; apply dec_ti_enc, ti_ok_swf, Hti).
    destruct (enc_ti_first2 _ _ _ _ _ Hti El) as [Ha|Hb].
    + replace (a =? 216) with false by lia. cbn [andb]. rewrite <- El. apply dec_ti_enc, ti_ok_swf, Hti.
    + replace (b =? c_CBORTagTypeInfoRef) with false by lia. rewrite andb_false_r. rewrite <- El. apply dec_ti_enc, ti_ok_swf, Hti.
Qed.

Lemma dec_xmap_ref_enc his mx r : Forall (fun x => ti_ok x = true) his -> lenN his < two64 -> mx_ok mx = true ->
  dec_xmap_with (dec_ti_ref his) (enc_xmap_ref (map enc_ti his) mx ++ r) = Some (mx, r).
Proof.
  intros Hall Hlen Hmx. destruct (mx_ok_split _ Hmx) as (Ht & Hc & Hs). unfold two64 in *.
  unfold dec_xmap_with, enc_xmap_ref. repeat rewrite <- app_assoc.
  rewrite rd_typed_cbor_head by (vm_compute; reflexivity). rewrite N.eqb_refl.
  rewrite dec_ti_ref_enc by assumption. rewrite rd_typed_cbor_head by lia. rewrite rd_typed_cbor_head by lia.
  destruct mx; reflexivity.
Qed.

Lemma dec_key_enc k r : storable_swf (SString k) = true -> dec_key (enc_key k ++ r) = Some (k, r).
Proof. intros H. unfold dec_key, enc_key. rewrite dec_storable_top_enc by exact H. reflexivity. Qed.

Lemma dec_entry_enc his e r : Forall (fun x => ti_ok x = true) his -> lenN his < two64 -> entry_ok e = true ->
  dec_entry his (enc_entry (map enc_ti his) e ++ r) = Some (e, r).
Proof.
  intros Hall Hlen He. unfold dec_entry. destruct e as [ti|mx|mx hk ks|]; [| | |discriminate]; cbn [enc_entry entry_ok] in *; repeat rewrite <- app_assoc;
    rewrite rd_typed_cbor_head by (vm_compute; reflexivity).
  - change (c_CBORTagInlinedArrayExtraData =? c_CBORTagInlinedArrayExtraData) with true. cbv iota.
    unfold dec_xarray_with. rewrite rd_typed_cbor_head by (vm_compute; reflexivity). rewrite N.eqb_refl.
    rewrite dec_ti_ref_enc by assumption. reflexivity.
  - change (c_CBORTagInlinedMapExtraData =? c_CBORTagInlinedArrayExtraData) with false.
    change (c_CBORTagInlinedMapExtraData =? c_CBORTagInlinedMapExtraData) with true. cbv iota.
    rewrite dec_xmap_ref_enc by assumption. reflexivity.
  - change (c_CBORTagInlinedCompactMapExtraData =? c_CBORTagInlinedArrayExtraData) with false.
    change (c_CBORTagInlinedCompactMapExtraData =? c_CBORTagInlinedMapExtraData) with false.
    change (c_CBORTagInlinedCompactMapExtraData =? c_CBORTagInlinedCompactMapExtraData) with true. cbv iota.
    do 4 (apply andb_true_iff in He as [He ?]).
    rewrite rd_typed_cbor_head by (vm_compute; reflexivity). rewrite N.eqb_refl.
    rewrite dec_xmap_ref_enc by assumption.
    unfold c_maxArrayElementCount, c_digestSize, two64 in *.
    unfold rd_bstr. rewrite rd_typed_cbor_head by lia.
    rewrite (take_app' _ (flat_map be64 hk)) by (rewrite lenN_flat_be64; reflexivity).
    rewrite lenN_flat_be64. cbv zeta.
    replace (8 * lenN hk mod 8 =? 0) with true by lia.
    replace (8 * lenN hk / 8) with (lenN hk) by lia.
    replace (4294967295 <? lenN hk) with false by lia.
    rewrite rd_typed_cbor_head by lia. replace (lenN ks =? lenN hk) with true by lia.
    rewrite to_nat_lenN. rewrite <- (app_nil_r (flat_map be64 hk)). rewrite rd_hkeys_enc by assumption.
    rewrite to_nat_lenN. rewrite (dec_seq_enc dec_key enc_key ks r); [reflexivity|].
    intros k Hk r'. apply dec_key_enc. match goal with Hf : forallb _ ks = true |- _ => rewrite forallb_forall in Hf; apply Hf; exact Hk end.
Qed.

Lemma lenN_map {A B} (f : A -> B) l : lenN (map f l) = lenN l.
Proof. unfold lenN. rewrite map_length. reflexivity. Qed.

Lemma dec_section_enc t r : tbl_ok t -> t <> [] -> lenN t < two64 -> dec_section (enc_section t ++ r) = Some (t, r).
Proof.
  intros Hok Hne Hlen. destruct (hoisted_decodable t Hok) as (his & Hh & Hall).
  pose proof (hoisted_len t) as Hhl. rewrite Hh, lenN_map in Hhl.
  unfold dec_section, enc_section. cbv zeta. rewrite Hh, lenN_map. repeat rewrite <- app_assoc.
  rewrite rd_typed_cbor_head by (vm_compute; reflexivity). rewrite N.eqb_refl.
  unfold two64 in *. rewrite rd_typed_cbor_head by lia.
  rewrite to_nat_lenN. rewrite dec_tis_enc by exact Hall.
  rewrite rd_typed_cbor_head by lia.
  destruct (lenN t =? 0) eqn:E0. { destruct t; [congruence|]. rewrite lenN_cons in E0. lia. }
  rewrite to_nat_lenN. apply dec_seq_enc. intros e He r'. apply dec_entry_enc; [exact Hall|unfold two64; lia|].
  unfold tbl_ok in Hok. rewrite forallb_forall in Hok. apply Hok. exact He.
Qed.

Lemma dec_section_opt_enc t r : tbl_ok t -> lenN t < two64 ->
  dec_section_opt (nonempty t) (enc_section_opt t ++ r) = Some (t, r).
Proof.
  intros Hok Hlen. unfold dec_section_opt, enc_section_opt. destruct t as [|e t]; [reflexivity|]. cbn [nonempty].
  apply dec_section_enc; [exact Hok|discriminate|exact Hlen].
Qed.

(* ---------- slabs ---------- *)

Lemma decode_encode_xarray_data a i x na ni es : xswf true (XArrayData a i x na ni es) = true ->
  decode_xslab (a, i) (encode_xslab (XArrayData a i x na ni es)) = Some (XArrayData a i x na ni es).
Proof.
  intros H. unfold xswf in H. split_swf H. unfold two16 in *.
  unfold xslab_table, xslab_pass1 in Hw. unfold encode_xslab, xslab_pass1.
  destruct (st_flat (enc_x 0) [] es) as [eb T] eqn:E. cbn [snd] in Hw.
  assert (HF : Forall (fun s => rt_prop (fun t => enc_x 0 t s) decx_top s) es).
  { apply Forall_forall. intros s Hs. apply rt_x_top. rewrite forallb_forall in Hw0. apply Hw0. exact Hs. }
  destruct (rt_list (enc_x 0) decx_top es HF [] eb T tbl_ok_nil E) as (_ & OT & D).
  unfold decode_xslab. rewrite rd_headbytes_mk.
  destruct (head_getters c_maskArrayData (xslab_has_ptr (XArrayData a i x na ni es)) (has_next na ni) false (is_some x) (nonempty T) typ_ok_AD)
    as (Hv & Hr & _ & _ & Hi & Hn & Ht & Hs).
  cbv zeta. rewrite Ht, Hs, Hv.
  change (N.shiftr (N.land c_maskArrayData 24) 3 =? 0) with true. change (N.land c_maskArrayData 7 =? 0) with true.
  change (1 =? 1) with true. cbv beta iota.
  unfold dec_xarray_data. rewrite dec_xa_enc by assumption. rewrite Hi, Hn.
  unfold c_maxInlinedExtraDataIndex in Hw.
  rewrite dec_section_opt_enc by (try exact OT; unfold two64; lia).
  rewrite dec_next_enc by lia.
  rewrite lenN_app, arr16_len. unfold c_arrayDataSlabElementHeadSize.
  replace (3 + lenN eb <? 3) with false by lia.
  rewrite rd_typed_arr16 by lia.
  replace (c_maxArrayElementCount <? lenN es) with false by (unfold c_maxArrayElementCount; lia).
  rewrite to_nat_lenN. rewrite <- (app_nil_r eb).
  unfold decx_top in D. rewrite (D T [] (length eb) (length eb) (ext_refl T)) by lia. reflexivity.
Qed.

Lemma decode_encode_xmap_data a i x na ni anys cg els : xswf true (XMapData a i x na ni anys cg els) = true ->
  decode_xslab (a, i) (encode_xslab (XMapData a i x na ni anys cg els)) = Some (XMapData a i x na ni anys cg els).
Proof.
  intros H. unfold xswf in H. split_swf H.
  unfold xslab_table, xslab_pass1 in Hw. unfold encode_xslab, xslab_pass1.
  destruct (enc_xelements (enc_x 0) [] els) as [eb T] eqn:E. cbn [snd] in Hw.
  assert (HQ : xels_all (Qv (enc_x 0) (fun _ F => dec_x_top F) (x_wf true 0)) els).
  { apply xels_all_intro. intros v Hv. apply rt_x_top. exact Hv. }
  destruct (rt_elements (enc_x 0) (fun _ F => dec_x_top F) (x_wf true 0) els HQ Hw0 [] eb T tbl_ok_nil E) as (_ & OT & D).
  unfold decode_xslab. rewrite rd_headbytes_mk.
  assert (Htyp : typ_ok (if cg then c_maskCollisionGroup else c_maskMapData)) by (destruct cg; [apply typ_ok_CG|apply typ_ok_MD]).
  destruct (head_getters _ (xslab_has_ptr (XMapData a i x na ni anys cg els)) (has_next na ni) anys (is_some x) (nonempty T) Htyp)
    as (Hv & Hr & _ & Hl & Hi & Hn & Ht & Hs).
  cbv zeta. rewrite Ht, Hs, Hv.
  assert (E1 : N.shiftr (N.land (if cg then c_maskCollisionGroup else c_maskMapData) 24) 3 = 1) by (destruct cg; reflexivity).
  assert (E2 : ((N.land (if cg then c_maskCollisionGroup else c_maskMapData) 7 =? 0)
                || (N.land (if cg then c_maskCollisionGroup else c_maskMapData) 7 =? 3)) = true) by (destruct cg; reflexivity).
  assert (E3 : (N.land (if cg then c_maskCollisionGroup else c_maskMapData) 7 =? 3) = cg) by (destruct cg; reflexivity).
  rewrite E1, E2. change (1 =? 1) with true. change (1 =? 0) with false. cbv beta iota.
  unfold dec_xmap_data. rewrite dec_xm_enc by assumption. rewrite Hi, Hn, Hl, Hs, E3.
  unfold c_maxInlinedExtraDataIndex in Hw.
  rewrite dec_section_opt_enc by (try exact OT; unfold two64; lia).
  rewrite dec_next_enc by lia.
  unfold dec_xelements_top. rewrite <- (app_nil_r eb).
  rewrite (D T [] (length (eb ++ [])) (length (eb ++ [])) (ext_refl T)) by (rewrite app_length; lia).
  rewrite negb_involutive. reflexivity.
Qed.

Lemma xdecode_encode s : xswf true s = true -> decode_xslab (xsid s) (encode_xslab s) = Some s.
Proof.
  destruct s; cbn [xsid].
  - apply decode_encode_xarray_data.
  - apply decode_encode_xmap_data.
Qed.

Lemma xreencode s : xswf true s = true ->
  option_map encode_xslab (decode_xslab (xsid s) (encode_xslab s)) = Some (encode_xslab s).
Proof. intros H. rewrite xdecode_encode by exact H. reflexivity. Qed.

(* ====================================================================== *)
(* Part 5: sizes, flags                                                   *)
(* ====================================================================== *)

Lemma st_flat_len {T A} (enc : T -> A -> bytes * T) (size : A -> N) l :
  Forall (fun a => forall t, lenN (fst (enc t a)) = size a) l ->
  forall t, lenN (fst (st_flat enc t l)) = sumN (map size l).
Proof.
  induction l as [|a l IH]; intros HF t; [reflexivity|]. inversion HF as [|? ? Ha Hl]; subst.
  cbn [st_flat map sumN fold_right]. fold (sumN (map size l)).
  specialize (Ha t). destruct (enc t a) as [b t1]. specialize (IH Hl t1). destruct (st_flat enc t1 l) as [b' t2].
  cbn [fst] in *. rewrite lenN_app, Ha, IH. reflexivity.
Qed.

Section generic_len.
  Context {V : Type} (encV : table -> V -> bytes * table) (sizeV : V -> N) (wfV : V -> bool).
  Definition Lv (v : V) : Prop := forall t, lenN (fst (encV t v)) = sizeV v.

  Lemma xpair_len p : Lv (snd p) -> forall t, lenN (fst (enc_xpair encV t p)) = xpair_size sizeV p.
  Proof.
    intros H t. unfold enc_xpair, xpair_size. specialize (H t). destruct (encV t (snd p)) as [b t']. cbn [fst] in *.
    rewrite lenN_cons, lenN_app, enc_storable_len, H. unfold c_singleElementPrefixSize. lia.
  Qed.

  Lemma xpairs_len ps : Forall (fun p => wfV (snd p) = true -> Lv (snd p)) ps -> forallb (xpair_wf wfV) ps = true ->
    forall t, lenN (fst (st_flat (enc_xpair encV) t ps)) = sumN (map (xpair_size sizeV) ps).
  Proof.
    intros HF Hwf. apply st_flat_len. rewrite Forall_forall in *. rewrite forallb_forall in Hwf.
    intros p Hp. apply xpair_len. apply HF; [exact Hp|]. apply (xpair_wf_split wfV p). apply Hwf. exact Hp.
  Qed.

  Lemma xel_len e : xel_all (fun v => wfV v = true -> Lv v) e -> xel_wf wfV e = true ->
    forall t, lenN (fst (enc_xelement encV t e)) = xel_size sizeV e.
  Proof.
    induction e as [k v|l hk es IH|l ps|a i] using xelement_ind'; intros Hall Hwf t; cbn [enc_xelement xel_size].
    - inversion Hall; subst. cbn [xel_wf] in Hwf. apply xpair_len. cbn [snd]. apply H0. apply (xpair_wf_split wfV (k, v)). exact Hwf.
    - inversion Hall as [|? ? ? Hq| |]; subst. destruct (xel_wf_H wfV _ _ _ Hwf) as (Hl & Hlen & Hhk & Hes & Hh & Hwfs).
      assert (HF : Forall (fun e => forall t, lenN (fst (enc_xelement encV t e)) = xel_size sizeV e) es).
      { rewrite Forall_forall in *. rewrite forallb_forall in Hwfs. intros e He. apply IH; auto. }
      pose proof (st_flat_len (enc_xelement encV) (xel_size sizeV) es HF t) as Hs.
      destruct (st_flat (enc_xelement encV) t es) as [b t']. cbn [fst] in *.
      rewrite !lenN_app, enc_hkey_head_len, Hs. rewrite sumN_map_add. rewrite Hlen.
      change (lenN (tag8 c_CBORTagInlineCollisionGroup)) with 2. unfold c_inlineCollisionGroupPrefixSize. lia.
    - inversion Hall as [| |? ? Hq|]; subst. destruct (xel_wf_S wfV _ _ Hwf) as (Hl & Hpos & Hps & Hwfs).
      pose proof (xpairs_len ps Hq Hwfs t) as Hs. destruct (st_flat (enc_xpair encV) t ps) as [b t']. cbn [fst] in *.
      rewrite !lenN_app, enc_singles_head_len, Hs.
      change (lenN (tag8 c_CBORTagInlineCollisionGroup)) with 2. unfold c_inlineCollisionGroupPrefixSize. lia.
    - cbn [fst]. rewrite lenN_app, enc_storable_len. reflexivity.
  Qed.

  Lemma xels_len els : xels_all (fun v => wfV v = true -> Lv v) els -> xels_wf wfV els = true ->
    forall t, lenN (fst (enc_xelements encV t els)) = xels_size sizeV els.
  Proof.
    intros Hall Hwf t. destruct els as [l hk es|l ps]; cbn [xels_all enc_xelements xels_size] in *.
    - destruct (xels_wf_H wfV _ _ _ Hwf) as (Hl & Hlen & Hhk & Hes & Hh & Hwfs).
      assert (HF : Forall (fun e => forall t, lenN (fst (enc_xelement encV t e)) = xel_size sizeV e) es).
      { rewrite Forall_forall in *. rewrite forallb_forall in Hwfs. intros e He. apply xel_len; auto. }
      pose proof (st_flat_len (enc_xelement encV) (xel_size sizeV) es HF t) as Hs.
      destruct (st_flat (enc_xelement encV) t es) as [b t']. cbn [fst] in *.
      rewrite lenN_app, enc_hkey_head_len, Hs, sumN_map_add, Hlen. lia.
    - destruct (xels_wf_S wfV _ _ Hwf) as (Hl & Hpos & Hps & Hwfs).
      pose proof (xpairs_len ps Hall Hwfs t) as Hs. destruct (st_flat (enc_xpair encV) t ps) as [b t']. cbn [fst] in *.
      rewrite lenN_app, enc_singles_head_len, Hs. reflexivity.
  Qed.
End generic_len.

Lemma some_prefix_length lv : lenN (some_prefix lv) = some_prefix_len lv.
Proof.
  unfold some_prefix, some_prefix_len, some_prefix_size. destruct (lv =? 0); [reflexivity|].
  destruct (lv =? 1); [reflexivity|]. rewrite !lenN_app, cbor_head_length.
  change (lenN (tag8 tag_some_nested)) with 2. change (lenN [130]) with 1. lia.
Qed.

Lemma wrap_some_len lv base t : lenN (fst (wrap_some lv base t)) = some_prefix_len lv + lenN (fst (base t)).
Proof. unfold wrap_some. destruct (base t) as [bb t']. cbn [fst]. rewrite lenN_app, some_prefix_length. reflexivity. Qed.

Lemma x_len s : forall lv, x_wf true lv s = true -> forall t, lenN (fst (enc_x lv t s)) = x_size_lv lv s.
Proof.
  induction s as [w n|bs|a i|s IH|ti vid es IH|mx vid els IH] using xstorable_ind'; intros lv Hwf t; cbn [x_wf] in Hwf.
  - cbn [enc_x x_size_lv fst]. rewrite !lenN_app, some_prefix_length, cbor_head_length. reflexivity.
  - cbn [enc_x x_size_lv fst]. rewrite !lenN_app, some_prefix_length, cbor_head_length. reflexivity.
  - cbn [enc_x x_size_lv fst]. rewrite lenN_app, some_prefix_length. reflexivity.
  - cbn [enc_x x_size_lv]. apply IH. exact Hwf.
  - repeat (apply andb_true_iff in Hwf as [Hwf ?]).
    rewrite enc_x_array, wrap_some_len. cbn [x_size_lv]. f_equal. unfold base_array.
    destruct (add_array t ti) as [idx t1].
    assert (HF : Forall (fun a => forall t, lenN (fst (enc_x 0 t a)) = x_size_lv 0 a) es).
    { rewrite Forall_forall in *. intros a Ha. apply (IH a Ha 0). match goal with Hf : forallb _ es = true |- _ => rewrite forallb_forall in Hf; apply Hf; exact Ha end. }
    pose proof (st_flat_len (enc_x 0) (x_size_lv 0) es HF t1) as Hs.
    destruct (st_flat (enc_x 0) t1 es) as [b t2]. cbn [fst] in *.
    rewrite !lenN_app, Hs, arr16_len. change (lenN (enc_inl_head c_CBORTagInlinedArray idx vid)) with 14.
    unfold c_inlinedArrayDataSlabPrefixSize. lia.
  - repeat (apply andb_true_iff in Hwf as [Hwf ?]).
    assert (Hc : is_compact_map mx els = false) by (destruct (is_compact_map mx els); [discriminate|reflexivity]).
    rewrite enc_x_map by exact Hc. rewrite wrap_some_len. cbn [x_size_lv]. f_equal. unfold base_map.
    destruct (add_map t mx) as [idx t1].
    assert (HQ : xels_all (fun v => x_wf true 0 v = true -> Lv (enc_x 0) (x_size_lv 0) v) els).
    { eapply xels_all_impl; [|exact IH]. intros v Hv Hw t'. apply Hv. exact Hw. }
    pose proof (xels_len (enc_x 0) (x_size_lv 0) (x_wf true 0) els HQ ltac:(assumption) t1) as Hs.
    destruct (enc_xelements (enc_x 0) t1 els) as [b t2]. cbn [fst] in *.
    rewrite lenN_app, Hs. change (lenN (enc_inl_head c_CBORTagInlinedMap idx vid)) with 14.
    unfold c_inlinedMapDataSlabPrefixSize. lia.
Qed.

Lemma xsize_is_encoded_length s : xswf true s = true ->
  lenN (encode_xslab s) + xomitted_next s = xslab_size s + lenN (encode_xextra s) + lenN (encode_xsection s).
Proof.
  intros H. unfold encode_xsection, xslab_table.
  destruct s as [a i x na ni es|a i x na ni anys cg els]; unfold xswf in H; split_swf H;
    unfold encode_xslab; cbn [xslab_pass1 xomitted_next xslab_size encode_xextra].
  - assert (HF : Forall (fun a => forall t, lenN (fst (enc_x 0 t a)) = x_size a) es).
    { apply Forall_forall. intros s Hs. apply x_len. rewrite forallb_forall in Hw0. apply Hw0. exact Hs. }
    pose proof (st_flat_len (enc_x 0) x_size es HF []) as Hs.
    destruct (st_flat (enc_x 0) [] es) as [eb T]. cbn [fst snd] in *.
    rewrite !lenN_app, mk_head_len, arr16_len, enc_next_len, Hs.
    unfold c_arrayRootDataSlabPrefixSize, c_arrayDataSlabPrefixSize, c_slabIDLength.
    destruct (is_some x), (has_next na ni); cbn [negb andb orb] in *; try discriminate; lia.
  - assert (HQ : xels_all (fun v => x_wf true 0 v = true -> Lv (enc_x 0) x_size v) els).
    { apply xels_all_intro. intros v Hv t. apply x_len. exact Hv. }
    pose proof (xels_len (enc_x 0) x_size (x_wf true 0) els HQ Hw0 []) as Hs.
    destruct (enc_xelements (enc_x 0) [] els) as [eb T]. cbn [fst snd] in *.
    rewrite !lenN_app, mk_head_len, enc_next_len, Hs.
    unfold c_mapRootDataSlabPrefixSize, c_mapDataSlabPrefixSize, c_slabIDLength.
    destruct (is_some x), (has_next na ni); cbn [negb andb orb] in *; try discriminate; lia.
Qed.

Lemma xdecoded_size_eq s : xdecoded_size s = xslab_size s.
Proof.
  destruct s as [a i x na ni es|a i x na ni anys cg els]; cbn [xdecoded_size xslab_size].
  - apply fold_left_add_sum.
  - unfold c_versionAndFlagSize, c_slabIDLength, c_mapRootDataSlabPrefixSize, c_mapDataSlabPrefixSize.
    destruct (is_some x); lia.
Qed.

Lemma xdecoded_size_ok s : xswf true s = true ->
  option_map snd (decode_xslab_with_size (xsid s) (encode_xslab s)) = Some (xslab_size s).
Proof.
  intros H. unfold decode_xslab_with_size. rewrite xdecode_encode by exact H. cbn [option_map snd].
  rewrite xdecoded_size_eq. reflexivity.
Qed.

(* ---------- flags ---------- *)

Lemma nonempty_app {A} (a b : list A) : nonempty (a ++ b) = nonempty a || nonempty b.
Proof. destruct a; reflexivity. Qed.
Lemma existsb_flat_map' {A B} (p : A -> bool) (f : A -> list B) l :
  (forall a, In a l -> p a = nonempty (f a)) -> existsb p l = nonempty (flat_map f l).
Proof.
  induction l as [|a l IH]; intros H; [reflexivity|].
  cbn [existsb flat_map]. rewrite nonempty_app, H by (left; reflexivity). rewrite IH; [reflexivity|].
  intros b Hb. apply H. right. exact Hb.
Qed.

Section generic_ptr.
  Context {V : Type} (ptrV : V -> bool) (refsV : V -> list (N * N)).
  Definition Rv (v : V) : Prop := ptrV v = nonempty (refsV v).

  Lemma xpair_ptr p : Rv (snd p) -> xpair_has_ptr ptrV p = nonempty (xpair_refs refsV p).
  Proof.
    intros H. unfold xpair_has_ptr, xpair_refs. rewrite nonempty_app, H.
    rewrite storable_has_ptr_nonnil. reflexivity.
  Qed.
  Lemma xel_ptr e : xel_all Rv e -> xel_has_ptr ptrV e = nonempty (xel_refs refsV e).
  Proof.
    induction e as [k v|l hk es IH|l ps|a i] using xelement_ind'; intros Hall; cbn [xel_has_ptr xel_refs].
    - inversion Hall; subst. apply xpair_ptr. assumption.
    - inversion Hall as [|? ? ? Hq| |]; subst. apply existsb_flat_map'. rewrite Forall_forall in *. intros e He. auto.
    - inversion Hall as [| |? ? Hq|]; subst. apply existsb_flat_map'. rewrite Forall_forall in *. intros p Hp. apply xpair_ptr. auto.
    - reflexivity.
  Qed.
  Lemma xels_ptr els : xels_all Rv els -> xels_has_ptr ptrV els = nonempty (xels_refs refsV els).
  Proof.
    destruct els as [l hk es|l ps]; cbn [xels_all xels_has_ptr xels_refs]; intros Hall; apply existsb_flat_map';
      rewrite Forall_forall in Hall; intros x Hx.
    - apply xel_ptr. auto.
    - apply xpair_ptr. auto.
  Qed.
End generic_ptr.

Lemma x_has_ptr_refs s : x_has_ptr s = nonempty (x_refs s).
Proof.
  induction s as [w n|bs|a i|s IH|ti vid es IH|mx vid els IH] using xstorable_ind'; cbn [x_has_ptr x_refs]; try reflexivity.
  - exact IH.
  - apply existsb_flat_map'. rewrite Forall_forall in IH. exact IH.
  - apply xels_ptr. exact IH.
Qed.

Lemma xslab_has_ptr_refs s : xslab_has_ptr s = xholds_slab_refs s.
Proof.
  unfold xholds_slab_refs. destruct s as [a i x na ni es|a i x na ni anys cg els]; cbn [xslab_has_ptr xslab_refs].
  - apply existsb_flat_map'. intros s _. apply x_has_ptr_refs.
  - apply xels_ptr. apply xels_all_intro. exact x_has_ptr_refs.
Qed.

Definition raw_has_inlined (b : bytes) : option bool := option_map (fun x => h_has_inlined_slabs (fst x)) (rd_headbytes b).

Lemma xflags_describe_content s :
  raw_is_root (encode_xslab s) = Some (xis_root s) /\
  raw_has_pointers (encode_xslab s) = Some (xholds_slab_refs s) /\
  raw_has_size_limit (encode_xslab s) = Some (negb (xany_size s)) /\
  raw_has_inlined (encode_xslab s) = Some (xslab_inlined s).
Proof.
  unfold raw_is_root, raw_has_pointers, raw_has_size_limit, raw_has_inlined, xslab_inlined, xslab_table.
  rewrite <- xslab_has_ptr_refs. unfold encode_xslab.
  destruct s as [a i x na ni es|a i x na ni anys cg els]; destruct (xslab_pass1 _) as [eb T]; cbn [snd xis_root xany_size];
    rewrite rd_headbytes_mk; cbn [option_map fst].
  - destruct (head_getters c_maskArrayData (xslab_has_ptr (XArrayData a i x na ni es)) (has_next na ni) false (is_some x) (nonempty T) typ_ok_AD)
      as (_ & Hr & Hp & Hl & Hi & _).
    rewrite Hr, Hp, Hl, Hi. repeat split; reflexivity.
  - assert (Htyp : typ_ok (if cg then c_maskCollisionGroup else c_maskMapData)) by (destruct cg; [apply typ_ok_CG|apply typ_ok_MD]).
    destruct (head_getters _ (xslab_has_ptr (XMapData a i x na ni anys cg els)) (has_next na ni) anys (is_some x) (nonempty T) Htyp)
      as (_ & Hr & Hp & Hl & Hi & _).
    rewrite Hr, Hp, Hl, Hi. repeat split; reflexivity.
Qed.

(* ====================================================================== *)
(* Part 6: compact maps — the size equation with the exact hoisted amount *)
(* ====================================================================== *)

Lemma tbl_ok_prefix t t' : ext t t' -> tbl_ok t' -> tbl_ok t.
Proof. intros [e ->]. unfold tbl_ok. rewrite forallb_app. intros H. apply andb_true_iff in H. tauto. Qed.
Lemma tbl_ok_no_error t : ~ tbl_ok (t ++ [XDError]).
Proof. unfold tbl_ok. rewrite forallb_app. cbn. rewrite andb_false_r. discriminate. Qed.

(* --- the compact branch of enc_x, in terms of values instead of closures --- *)

Lemma take_key_map {V W} (f : V -> W) k (pool : list (bytes * V)) :
  take_key k (map (fun kv => (fst kv, f (snd kv))) pool) =
  option_map (fun x => (f (fst x), map (fun kv => (fst kv, f (snd kv))) (snd x))) (take_key k pool).
Proof.
  induction pool as [|[k' v] pool IH]; [reflexivity|]. cbn [map take_key fst snd].
  destruct (bytes_eqb k' k); [reflexivity|]. rewrite IH. destruct (take_key k pool) as [[x r]|]; reflexivity.
Qed.
Lemma pick_values_map {V W} (f : V -> W) cached : forall (pool : list (bytes * V)),
  pick_values cached (map (fun kv => (fst kv, f (snd kv))) pool) = option_map (map f) (pick_values cached pool).
Proof.
  induction cached as [|k c IH]; intros pool; [reflexivity|]. cbn [pick_values]. rewrite take_key_map.
  destruct (take_key k pool) as [[v pool']|]; [|reflexivity]. cbn [option_map fst snd]. rewrite IH.
  destruct (pick_values c pool'); reflexivity.
Qed.
Lemma st_flat_run_closure t vs :
  st_flat run_closure t (map (fun v t' => enc_x 0 t' v) vs) = st_flat (enc_x 0) t vs.
Proof.
  revert t. induction vs as [|v vs IH]; intros t; [reflexivity|]. cbn [map st_flat]. unfold run_closure at 1.
  destruct (enc_x 0 t v) as [b t1]. rewrite IH. reflexivity.
Qed.

Definition compact_branch (lv : N) (mx : mextra) (vid : N) (hk : list N) (kvs : list (bytes * xstorable)) (t : table)
  : bytes * table :=
  let '(idx, cached, t1) := add_compact t mx hk (map fst kvs) in
  if lenN cached =? lenN kvs then
    match pick_values cached kvs with
    | Some vs =>
      let (b, t2) := st_flat (enc_x 0) t1 vs in
      (some_prefix lv ++ enc_inl_head c_CBORTagInlinedCompactMap idx vid ++ cbor_head 4 (lenN cached) ++ b, t2)
    | None => ([], t1 ++ [XDError])
    end
  else ([], t1 ++ [XDError]).

Lemma enc_x_compact lv t mx vid els hk kvs : compact_kvs mx els = Some (hk, kvs) ->
  enc_x lv t (XInlMap mx vid els) = compact_branch lv mx vid hk kvs t.
Proof.
  intros H. cbn [enc_x]. set (f := fun (v : xstorable) (t' : table) => enc_x 0 t' v).
  rewrite compact_kvs_map, H. cbn [option_map fst snd]. unfold compact_branch.
  rewrite map_map. cbn [fst]. destruct (add_compact t mx hk (map fst kvs)) as [[idx cached] t1].
  rewrite lenN_map. destruct (lenN cached =? lenN kvs); [|reflexivity].
  rewrite pick_values_map. destruct (pick_values cached kvs) as [vs|]; [|reflexivity]. cbn [option_map].
  subst f. rewrite st_flat_run_closure. reflexivity.
Qed.

Lemma add_compact_ext t mx hk ks i c t' : add_compact t mx hk ks = (i, c, t') -> ext t t'.
Proof.
  unfold add_compact. destruct (find_compact _ t 0) as [[j ks']|]; intros H; inversion H; subst; [apply ext_refl|apply ext_app].
Qed.
Lemma add_array_ext t ti i t' : add_array t ti = (i, t') -> ext t t'.
Proof. unfold add_array. destruct (find_array _ t 0); intros H; inversion H; subst; [apply ext_refl|apply ext_app]. Qed.
Lemma add_map_ext t mx i t' : add_map t mx = (i, t') -> ext t t'.
Proof. unfold add_map. intros H; inversion H; subst. apply ext_app. Qed.

(* --- picking values --- *)

Lemma take_key_sum {V} (g : V -> N) k (pool : list (bytes * V)) v pool' : take_key k pool = Some (v, pool') ->
  sumN (map (fun kv => g (snd kv)) pool) = g v + sumN (map (fun kv => g (snd kv)) pool') /\
  length pool = S (length pool') /\ (exists k', In (k', v) pool) /\ (forall x, In x pool' -> In x pool).
Proof.
  revert v pool'. induction pool as [|[k' v'] pool IH]; intros v pool' H; [discriminate|]. cbn [take_key] in H.
  destruct (bytes_eqb k' k).
  - inversion H; subst. cbn [map sumN fold_right snd length]. repeat split; try reflexivity.
    + exists k'. left. reflexivity.
    + intros x Hx. right. exact Hx.
  - destruct (take_key k pool) as [[x r]|] eqn:E; [|discriminate]. inversion H; subst.
    destruct (IH _ _ eq_refl) as (Hs & Hl & (k2 & Hin) & Hsub). cbn [map sumN fold_right snd length].
    fold (sumN (map (fun kv => g (snd kv)) pool)). fold (sumN (map (fun kv => g (snd kv)) r)). repeat split.
    + lia.
    + lia.
    + exists k2. right. exact Hin.
    + intros y [<-|Hy]; [left; reflexivity|right; apply Hsub; exact Hy].
Qed.

Lemma pick_values_spec {V} (g : V -> N) cached : forall (pool : list (bytes * V)) vs,
  pick_values cached pool = Some vs -> length cached = length pool ->
  sumN (map g vs) = sumN (map (fun kv => g (snd kv)) pool) /\ (forall v, In v vs -> exists k, In (k, v) pool).
Proof.
  induction cached as [|k c IH]; intros pool vs H Hl; cbn [pick_values] in H.
  - inversion H; subst. destruct pool; [|discriminate]. split; [reflexivity|intros v []].
  - destruct (take_key k pool) as [[v pool']|] eqn:E; [|discriminate].
    destruct (pick_values c pool') as [t|] eqn:E2; [|discriminate]. inversion H; subst.
    destruct (take_key_sum g _ _ _ _ E) as (Hs & Hlen & (k' & Hin) & Hsub). cbn [length] in Hl.
    destruct (IH pool' t E2 ltac:(lia)) as (Hs2 & Hin2). split.
    + cbn [map sumN fold_right]. fold (sumN (map g t)). rewrite Hs2, Hs. reflexivity.
    + intros x [<-|Hx]; [exists k'; exact Hin|]. destruct (Hin2 x Hx) as (k2 & Hk2). exists k2. apply Hsub. exact Hk2.
Qed.

Lemma compact_pairs_spec {V} (es : list (xelement V)) kvs : compact_pairs es = Some kvs ->
  es = map (fun kv => XESingle (SString (fst kv)) (snd kv)) kvs.
Proof.
  revert kvs. induction es as [|e es IH]; intros kvs H; cbn [compact_pairs] in H.
  - inversion H. reflexivity.
  - destruct e as [k v|? ? ?|? ?|? ?]; try discriminate. destruct k; try discriminate.
    destruct (compact_pairs es) as [t|]; [|discriminate]. inversion H; subst. cbn [map fst snd]. rewrite (IH t eq_refl). reflexivity.
Qed.

Lemma compact_kvs_spec {V} mx (els : xelements V) hk kvs : compact_kvs mx els = Some (hk, kvs) ->
  exists l, els = XHkeyElems l hk (map (fun kv => XESingle (SString (fst kv)) (snd kv)) kvs).
Proof.
  unfold compact_kvs. destruct (is_composite (mx_ti mx)); [|discriminate]. destruct els as [l hk' es|l ps]; [|discriminate].
  destruct (compact_pairs es) as [t|] eqn:E; [|discriminate]. intros H; inversion H; subst. exists l. rewrite (compact_pairs_spec _ _ E). reflexivity.
Qed.

(* --- extension (unconditional) and length (given a table without the error marker) --- *)

Definition Ev {A} (enc : table -> A -> bytes * table) (a : A) : Prop := forall t, ext t (snd (enc t a)).
Definition Gv {A} (enc : table -> A -> bytes * table) (sav size : A -> N) (a : A) : Prop :=
  forall t, tbl_ok (snd (enc t a)) -> lenN (fst (enc t a)) + sav a = size a.

Lemma st_flat_ext {A} (enc : table -> A -> bytes * table) l : Forall (Ev enc) l -> Ev (st_flat enc) l.
Proof.
  induction l as [|a l IH]; intros HF t; [apply ext_refl|]. inversion HF as [|? ? Ha Hl]; subst. cbn [st_flat].
  specialize (Ha t). destruct (enc t a) as [b t1]. specialize (IH Hl t1). destruct (st_flat enc t1 l) as [b' t2].
  cbn [snd] in *. eapply ext_trans; eassumption.
Qed.

Lemma st_flat_len2 {A} (enc : table -> A -> bytes * table) (sav size : A -> N) l :
  Forall (Ev enc) l -> Forall (Gv enc sav size) l -> Gv (st_flat enc) (fun l => sumN (map sav l)) (fun l => sumN (map size l)) l.
Proof.
  induction l as [|a l IH]; intros HE HG t Hok; [reflexivity|].
  inversion HE as [|? ? Ea El]; subst. inversion HG as [|? ? Ga Gl]; subst.
  cbn [st_flat map sumN fold_right] in *. fold (sumN (map sav l)). fold (sumN (map size l)).
  specialize (Ga t). pose proof (st_flat_ext enc l El) as Ex. specialize (IH El Gl).
  destruct (enc t a) as [b t1]. specialize (IH t1). specialize (Ex t1). destruct (st_flat enc t1 l) as [b' t2].
  cbn [fst snd] in *. rewrite lenN_app. specialize (IH Hok). specialize (Ga (tbl_ok_prefix _ _ Ex Hok)). lia.
Qed.

Section generic_len2.
  Context {V : Type} (encV : table -> V -> bytes * table) (savV sizeV : V -> N) (wfV : V -> bool).
  Definition Q2 (v : V) : Prop := Ev encV v /\ (wfV v = true -> Gv encV savV sizeV v).

  Lemma xpair_len2 (p : storable * V) : Q2 (snd p) ->
    Ev (enc_xpair encV) p /\ (wfV (snd p) = true -> Gv (enc_xpair encV) (fun p => savV (snd p)) (xpair_size sizeV) p).
  Proof.
    intros [He Hg]. split.
    - intros t. unfold enc_xpair. specialize (He t). destruct (encV t (snd p)). exact He.
    - intros Hw t. specialize (Hg Hw t). unfold enc_xpair, xpair_size. destruct (encV t (snd p)) as [b t']. cbn [fst snd] in *.
      intros Hok. specialize (Hg Hok). rewrite lenN_cons, lenN_app, enc_storable_len. unfold c_singleElementPrefixSize. lia.
  Qed.

  Lemma xpairs_len2 ps : Forall (fun p => Q2 (snd p)) ps ->
    Ev (st_flat (enc_xpair encV)) ps /\
    (forallb (xpair_wf wfV) ps = true ->
     Gv (st_flat (enc_xpair encV)) (fun l => sumN (map (fun p => savV (snd p)) l)) (fun l => sumN (map (xpair_size sizeV) l)) ps).
  Proof.
    intros HF. assert (HE : Forall (Ev (enc_xpair encV)) ps).
    { rewrite Forall_forall in *. intros p Hp. apply xpair_len2. auto. }
    split; [apply st_flat_ext; exact HE|]. intros Hwf. apply st_flat_len2; [exact HE|].
    rewrite Forall_forall in *. rewrite forallb_forall in Hwf. intros p Hp.
    apply xpair_len2; [auto|]. apply (xpair_wf_split wfV p). auto.
  Qed.

  Lemma xel_len2 e : xel_all Q2 e ->
    Ev (enc_xelement encV) e /\ (xel_wf wfV e = true -> Gv (enc_xelement encV) (xel_sum savV) (xel_size sizeV) e).
  Proof.
    induction e as [k v|l hk es IH|l ps|a i] using xelement_ind'; intros Hall.
    - inversion Hall; subst. destruct (xpair_len2 (k, v) ltac:(assumption)) as [He Hg]. split; [exact He|].
      intros Hwf. cbn [xel_wf] in Hwf. apply Hg. apply (xpair_wf_split wfV (k, v)). exact Hwf.
    - inversion Hall as [|? ? ? Hq| |]; subst.
      assert (HE : Forall (Ev (enc_xelement encV)) es).
      { rewrite Forall_forall in *. intros e He. apply IH; auto. }
      split.
      + intros t. cbn [enc_xelement]. pose proof (st_flat_ext _ _ HE t) as Hx.
        destruct (st_flat (enc_xelement encV) t es). exact Hx.
      + intros Hwf t. destruct (xel_wf_H wfV _ _ _ Hwf) as (Hl & Hlen & Hhk & Hes & Hh & Hwfs).
        assert (HG : Forall (Gv (enc_xelement encV) (xel_sum savV) (xel_size sizeV)) es).
        { rewrite Forall_forall in *. rewrite forallb_forall in Hwfs. intros e He. apply IH; auto. }
        pose proof (st_flat_len2 _ _ _ _ HE HG t) as Hs. cbn [enc_xelement xel_sum xel_size].
        destruct (st_flat (enc_xelement encV) t es) as [b t']. cbn [fst snd] in *. intros Hok. specialize (Hs Hok).
        rewrite !lenN_app, enc_hkey_head_len. rewrite sumN_map_add. rewrite Hlen.
        change (lenN (tag8 c_CBORTagInlineCollisionGroup)) with 2. unfold c_inlineCollisionGroupPrefixSize. lia.
    - inversion Hall as [| |? ? Hq|]; subst. destruct (xpairs_len2 ps Hq) as [He Hg]. split.
      + intros t. cbn [enc_xelement]. specialize (He t). destruct (st_flat (enc_xpair encV) t ps). exact He.
      + intros Hwf t. destruct (xel_wf_S wfV _ _ Hwf) as (Hl & Hpos & Hps & Hwfs). specialize (Hg Hwfs t).
        cbn [enc_xelement xel_sum xel_size]. destruct (st_flat (enc_xpair encV) t ps) as [b t']. cbn [fst snd] in *.
        intros Hok. specialize (Hg Hok). rewrite !lenN_app, enc_singles_head_len.
        change (lenN (tag8 c_CBORTagInlineCollisionGroup)) with 2. unfold c_inlineCollisionGroupPrefixSize. lia.
    - split; [intros t; apply ext_refl|]. intros _ t _. cbn [enc_xelement xel_sum xel_size fst].
      rewrite lenN_app, enc_storable_len. reflexivity.
  Qed.

  Lemma xels_len2 els : xels_all Q2 els ->
    Ev (enc_xelements encV) els /\ (xels_wf wfV els = true -> Gv (enc_xelements encV) (xels_sum savV) (xels_size sizeV) els).
  Proof.
    intros Hall. destruct els as [l hk es|l ps]; cbn [xels_all] in Hall.
    - assert (HE : Forall (Ev (enc_xelement encV)) es).
      { rewrite Forall_forall in *. intros e He. apply xel_len2; auto. }
      split.
      + intros t. cbn [enc_xelements]. pose proof (st_flat_ext _ _ HE t) as Hx.
        destruct (st_flat (enc_xelement encV) t es). exact Hx.
      + intros Hwf t. destruct (xels_wf_H wfV _ _ _ Hwf) as (Hl & Hlen & Hhk & Hes & Hh & Hwfs).
        assert (HG : Forall (Gv (enc_xelement encV) (xel_sum savV) (xel_size sizeV)) es).
        { rewrite Forall_forall in *. rewrite forallb_forall in Hwfs. intros e He. apply xel_len2; auto. }
        pose proof (st_flat_len2 _ _ _ _ HE HG t) as Hs. cbn [enc_xelements xels_sum xels_size].
        destruct (st_flat (enc_xelement encV) t es) as [b t']. cbn [fst snd] in *. intros Hok. specialize (Hs Hok).
        rewrite lenN_app, enc_hkey_head_len, sumN_map_add, Hlen. lia.
    - destruct (xpairs_len2 ps Hall) as [He Hg]. split.
      + intros t. cbn [enc_xelements]. specialize (He t). destruct (st_flat (enc_xpair encV) t ps). exact He.
      + intros Hwf t. destruct (xels_wf_S wfV _ _ Hwf) as (Hl & Hpos & Hps & Hwfs). specialize (Hg Hwfs t).
        cbn [enc_xelements xels_sum xels_size]. destruct (st_flat (enc_xpair encV) t ps) as [b t']. cbn [fst snd] in *.
        intros Hok. specialize (Hg Hok). rewrite lenN_app, enc_singles_head_len. lia.
  Qed.
End generic_len2.

Lemma wrap_some_snd lv base t : snd (wrap_some lv base t) = snd (base t).
Proof. unfold wrap_some. destruct (base t). reflexivity. Qed.

Lemma lenN_length_eq {A B} (a : list A) (b : list B) : lenN a = lenN b -> length a = length b.
Proof. unfold lenN. lia. Qed.

Lemma sumN_ext {A} (f g : A -> N) l : (forall a, f a = g a) -> sumN (map f l) = sumN (map g l).
Proof. intros H. induction l as [|a l IH]; [reflexivity|]. cbn [map sumN fold_right]. fold (sumN (map f l)). fold (sumN (map g l)). rewrite H, IH. reflexivity. Qed.

Lemma cbor_head_len_small n : n < 65536 -> cbor_head_len n <= 3.
Proof.
  intros H. unfold cbor_head_len. destruct (n <? 24); [lia|]. destruct (n <? 256); [lia|].
  destruct (n <? 65536) eqn:E; lia.
Qed.

Lemma compact_sum_eq {V} (sz : V -> N) (kvs : list (bytes * V)) :
  sumN (map (fun x => c_digestSize + xpair_size sz (SString (fst x), snd x)) kvs) =
  sumN (map (fun kv => c_digestSize + c_singleElementPrefixSize + storable_size (SString (fst kv))) kvs)
  + sumN (map (fun kv => sz (snd kv)) kvs).
Proof.
  induction kvs as [|kv kvs IH]; [reflexivity|]. cbn [map sumN fold_right].
  fold (sumN (map (fun x => c_digestSize + xpair_size sz (SString (fst x), snd x)) kvs)).
  fold (sumN (map (fun kv => c_digestSize + c_singleElementPrefixSize + storable_size (SString (fst kv))) kvs)).
  fold (sumN (map (fun kv => sz (snd kv)) kvs)). rewrite IH. unfold xpair_size. cbn [fst snd]. lia.
Qed.

Definition P2 (s : xstorable) : Prop :=
  forall lv, Ev (enc_x lv) s /\ (x_wf false lv s = true -> Gv (enc_x lv) x_saving (x_size_lv lv) s).

Lemma x_len2 s : P2 s.
Proof.
  induction s as [w n|bs|a i|s IH|ti vid es IH|mx vid els IH] using xstorable_ind'; intros lv.
  - split; [intros t; apply ext_refl|]. intros _ t _. cbn [enc_x x_size_lv x_saving fst].
    rewrite !lenN_app, some_prefix_length, cbor_head_length. change (lenN (tag8 (width_tag w))) with 2. lia.
  - split; [intros t; apply ext_refl|]. intros _ t _. cbn [enc_x x_size_lv x_saving fst].
    rewrite !lenN_app, some_prefix_length, cbor_head_length. lia.
  - split; [intros t; apply ext_refl|]. intros _ t _. cbn [enc_x x_size_lv x_saving fst].
    rewrite lenN_app, some_prefix_length.
    change (lenN (tag8 c_CBORTagSlabID ++ cbor_head 2 c_slabIDLength ++ enc_sid a i)) with c_slabIDStorableSize. lia.
  - destruct (IH (lv + 1)) as [He Hg]. split; [exact He|]. intros Hwf. cbn [x_wf] in Hwf. exact (Hg Hwf).
  - assert (HE : Forall (Ev (enc_x 0)) es) by (rewrite Forall_forall in *; intros a Ha; apply (IH a Ha 0)).
    split.
    + intros t. rewrite enc_x_array, wrap_some_snd. unfold base_array.
      destruct (add_array t ti) as [idx t1] eqn:E1. pose proof (st_flat_ext _ _ HE t1) as Hx.
      destruct (st_flat (enc_x 0) t1 es) as [b t2]. cbn [snd] in *.
      eapply ext_trans; [eapply add_array_ext; exact E1|exact Hx].
    + intros Hwf t. cbn [x_wf] in Hwf. repeat (apply andb_true_iff in Hwf as [Hwf ?]).
      rewrite enc_x_array, wrap_some_snd, wrap_some_len. cbn [x_size_lv x_saving]. unfold base_array.
      destruct (add_array t ti) as [idx t1].
      assert (HG : Forall (Gv (enc_x 0) x_saving (x_size_lv 0)) es).
      { rewrite Forall_forall in *. intros a Ha. apply (IH a Ha 0).
        match goal with Hf : forallb _ es = true |- _ => rewrite forallb_forall in Hf; apply Hf; exact Ha end. }
      pose proof (st_flat_len2 _ _ _ _ HE HG t1) as Hs.
      destruct (st_flat (enc_x 0) t1 es) as [b t2]. cbn [fst snd] in *. intros Hok. specialize (Hs Hok).
      rewrite !lenN_app, arr16_len. change (lenN (enc_inl_head c_CBORTagInlinedArray idx vid)) with 14.
      unfold c_inlinedArrayDataSlabPrefixSize. lia.
  - assert (HQ : xels_all (Q2 (enc_x 0) x_saving (x_size_lv 0) (x_wf false 0)) els).
    { eapply xels_all_impl; [|exact IH]. intros v Hv. exact (Hv 0). }
    destruct (xels_len2 (enc_x 0) x_saving (x_size_lv 0) (x_wf false 0) els HQ) as [HEe HGe].
    destruct (compact_kvs mx els) as [[hk kvs]|] eqn:Ec.
    + (* compact form *)
      destruct (compact_kvs_spec _ _ _ _ Ec) as [l Hels].
      assert (Hvals : forall v, (exists k, In (k, v) kvs) -> P2 v).
      { intros v [k Hk]. subst els. cbn [xels_all] in IH. rewrite Forall_forall in IH.
        specialize (IH (XESingle (SString k) v)). assert (Hin : In (XESingle (SString k) v) (map (fun kv => XESingle (SString (fst kv)) (snd kv)) kvs)).
        { apply in_map_iff. exists (k, v). split; [reflexivity|exact Hk]. }
        specialize (IH Hin). inversion IH; subst. assumption. }
      split.
      * intros t. rewrite (enc_x_compact _ _ _ _ _ _ _ Ec). unfold compact_branch.
        destruct (add_compact t mx hk (map fst kvs)) as [[idx cached] t1] eqn:E1. pose proof (add_compact_ext _ _ _ _ _ _ _ E1) as X1.
        destruct (lenN cached =? lenN kvs) eqn:El; [|cbn [snd]; eapply ext_trans; [exact X1|apply ext_app]].
        destruct (pick_values cached kvs) as [vs|] eqn:Ep; [|cbn [snd]; eapply ext_trans; [exact X1|apply ext_app]].
        assert (Hlen : length cached = length kvs) by (apply lenN_length_eq; lia).
        destruct (pick_values_spec x_saving cached kvs vs Ep Hlen) as (_ & Hin).
        assert (HE : Forall (Ev (enc_x 0)) vs) by (apply Forall_forall; intros v Hv; apply (Hvals v (Hin v Hv) 0)).
        pose proof (st_flat_ext _ _ HE t1) as Hx. destruct (st_flat (enc_x 0) t1 vs) as [b t2]. cbn [snd] in *.
        eapply ext_trans; eassumption.
      * intros Hwf t. cbn [x_wf] in Hwf. repeat (apply andb_true_iff in Hwf as [Hwf ?]).
        rewrite (enc_x_compact _ _ _ _ _ _ _ Ec). unfold compact_branch.
        destruct (add_compact t mx hk (map fst kvs)) as [[idx cached] t1] eqn:E1.
        destruct (lenN cached =? lenN kvs) eqn:El; [|cbn [snd]; intros Hok; exfalso; exact (tbl_ok_no_error _ Hok)].
        destruct (pick_values cached kvs) as [vs|] eqn:Ep; [|cbn [snd]; intros Hok; exfalso; exact (tbl_ok_no_error _ Hok)].
        assert (Hlen : length cached = length kvs) by (apply lenN_length_eq; lia).
        destruct (pick_values_spec x_saving cached kvs vs Ep Hlen) as (Hsav & Hin).
        destruct (pick_values_spec (x_size_lv 0) cached kvs vs Ep Hlen) as (Hsz & _).
        assert (Hwfs : forall k v, In (k, v) kvs -> x_wf false 0 v = true).
        { intros k v Hk. subst els. match goal with Hx : xels_wf _ _ = true |- _ => destruct (xels_wf_H _ _ _ _ Hx) as (_ & _ & _ & _ & _ & Hall) end.
          rewrite forallb_forall in Hall. specialize (Hall (XESingle (SString k) v)).
          assert (Hin' : In (XESingle (SString k) v) (map (fun kv => XESingle (SString (fst kv)) (snd kv)) kvs)).
          { apply in_map_iff. exists (k, v). split; [reflexivity|exact Hk]. }
          specialize (Hall Hin'). cbn [xel_wf] in Hall. apply (xpair_wf_split (x_wf false 0) (SString k, v)). exact Hall. }
        assert (HE : Forall (Ev (enc_x 0)) vs) by (apply Forall_forall; intros v Hv; apply (Hvals v (Hin v Hv) 0)).
        assert (HG : Forall (Gv (enc_x 0) x_saving (x_size_lv 0)) vs).
        { apply Forall_forall. intros v Hv. destruct (Hin v Hv) as [k Hk]. apply (Hvals v (Hin v Hv) 0). eapply Hwfs. exact Hk. }
        pose proof (st_flat_len2 _ _ _ _ HE HG t1) as Hs.
        destruct (st_flat (enc_x 0) t1 vs) as [b t2]. cbn [fst snd] in *. intros Hok. specialize (Hs Hok).
        rewrite Hsav, Hsz in Hs.
        (* sizes of the in-memory form *)
        cbn [x_size_lv x_saving]. rewrite Ec. subst els. cbn [xels_size xels_sum]. rewrite !map_map. cbn [xel_size xel_sum xpair_size fst snd].
        match goal with Hx : xels_wf _ _ = true |- _ => destruct (xels_wf_H _ _ _ _ Hx) as (_ & _ & _ & Hn16 & _ & _) end.
        rewrite lenN_map in Hn16. unfold two16 in Hn16.
        rewrite !lenN_app, some_prefix_length, cbor_head_length. change (lenN (enc_inl_head c_CBORTagInlinedCompactMap idx vid)) with 14.
        unfold compact_saving. replace (lenN cached) with (lenN kvs) by lia.
        pose proof (cbor_head_len_small (lenN kvs) Hn16) as Hh.
        rewrite (compact_sum_eq (x_size_lv 0) kvs).
        unfold c_hkeyElementsPrefixSize, c_inlinedMapDataSlabPrefixSize in *.
        set (A := sumN (map (fun kv : bytes * xstorable => c_digestSize + c_singleElementPrefixSize + storable_size (SString (fst kv))) kvs)) in *.
        set (B := sumN (map (fun kv : bytes * xstorable => x_size_lv 0 (snd kv)) kvs)) in *.
        set (C := sumN (map (fun kv : bytes * xstorable => x_saving (snd kv)) kvs)) in *.
        clearbody A B C. clear - Hs Hh. lia.
    + (* ordinary form *)
      assert (Hc : is_compact_map mx els = false) by (unfold is_compact_map; rewrite Ec; reflexivity).
      split.
      * intros t. rewrite (enc_x_map _ _ _ _ _ Hc), wrap_some_snd. unfold base_map.
        destruct (add_map t mx) as [idx t1] eqn:E1. specialize (HEe t1).
        destruct (enc_xelements (enc_x 0) t1 els) as [b t2]. cbn [snd] in *.
        eapply ext_trans; [eapply add_map_ext; exact E1|exact HEe].
      * intros Hwf t. cbn [x_wf] in Hwf. repeat (apply andb_true_iff in Hwf as [Hwf ?]).
        rewrite (enc_x_map _ _ _ _ _ Hc), wrap_some_snd, wrap_some_len. cbn [x_size_lv x_saving]. rewrite Ec. unfold base_map.
        destruct (add_map t mx) as [idx t1]. specialize (HGe ltac:(assumption) t1).
        destruct (enc_xelements (enc_x 0) t1 els) as [b t2]. cbn [fst snd] in *. intros Hok. specialize (HGe Hok).
        rewrite lenN_app. change (lenN (enc_inl_head c_CBORTagInlinedMap idx vid)) with 14.
        unfold c_inlinedMapDataSlabPrefixSize. lia.
Qed.

Lemma xsize_compact s : xswf false s = true ->
  lenN (encode_xslab s) + xomitted_next s + xslab_saving s
  = xslab_size s + lenN (encode_xextra s) + lenN (encode_xsection s).
Proof.
  intros H. unfold encode_xsection.
  destruct s as [a i x na ni es|a i x na ni anys cg els]; unfold xswf in H; split_swf H;
    unfold xslab_table in *; unfold encode_xslab; cbn [xslab_pass1 xomitted_next xslab_size xslab_saving encode_xextra] in *.
  - assert (HE : Forall (Ev (enc_x 0)) es) by (apply Forall_forall; intros s _; apply (x_len2 s 0)).
    assert (HG : Forall (Gv (enc_x 0) x_saving x_size) es).
    { apply Forall_forall. intros s Hs. apply (x_len2 s 0). rewrite forallb_forall in Hw0. apply Hw0. exact Hs. }
    pose proof (st_flat_len2 _ _ _ _ HE HG []) as Hs.
    destruct (st_flat (enc_x 0) [] es) as [eb T]. cbn [fst snd] in *. specialize (Hs H).
    rewrite !lenN_app, mk_head_len, arr16_len, enc_next_len.
    unfold c_arrayRootDataSlabPrefixSize, c_arrayDataSlabPrefixSize, c_slabIDLength.
    destruct (is_some x), (has_next na ni); cbn [negb andb orb] in *; try discriminate; lia.
  - assert (HQ : xels_all (Q2 (enc_x 0) x_saving x_size (x_wf false 0)) els).
    { apply xels_all_intro. intros v. exact (x_len2 v 0). }
    destruct (xels_len2 (enc_x 0) x_saving x_size (x_wf false 0) els HQ) as [_ HGe]. specialize (HGe Hw0 []).
    destruct (enc_xelements (enc_x 0) [] els) as [eb T]. cbn [fst snd] in *. specialize (HGe H).
    rewrite !lenN_app, mk_head_len, enc_next_len.
    unfold c_mapRootDataSlabPrefixSize, c_mapDataSlabPrefixSize, c_slabIDLength.
    destruct (is_some x), (has_next na ni); cbn [negb andb orb] in *; try discriminate; lia.
Qed.

Lemma xwritten_le_reported s : xswf false s = true ->
  lenN (encode_xslab s) + xomitted_next s <= xslab_size s + lenN (encode_xextra s) + lenN (encode_xsection s).
Proof. intros H. pose proof (xsize_compact s H). lia. Qed.
