(* NestedDurable_proofs.v — C03 / C09 for nested containers over histories of the forest model. *)
From Coq Require Import ZArith NArith List Bool Lia Arith.
From AtreeGen Require Import Consts.
From AtreeModel Require Import Nested NestedDurable.
From AtreeProofs Require Import Nested_base Nested_resync Nested_chain Nested_edit Nested_ops Nested_steps Nested_proofs
  NestedDurable_base NestedDurable_chain NestedDurable_ops NestedDurable_steps.
Import ListNotations.
Local Open Scope N_scope.

(* ---------- commit ---------- *)
Lemma flat_commit n f v : flat n (commit f) v = flat n f v.
Proof.
  apply flat_same_views. intros y. split; [|reflexivity]. unfold vsame.
  change (fget (commit f) y) with (fget f y). destruct (fget f y); auto.
Qed.

Lemma commit_exact n f led :
  log_ok f -> clean_ok n f led -> forall v, lookup (commit_ledger n f led) v = flat n f v.
Proof.
  intros Hl Hc v. rewrite lookup_commit. destruct (dirty f v) as [[|]|] eqn:Ed.
  - destruct (Hl v true Ed) as (c & Hcv & Hi). unfold embed, flat. rewrite Hcv. cbn in Hi. now rewrite Hi.
  - destruct (Hl v false Ed) as (c & Hcv & Hi). unfold flat. rewrite Hcv. cbn in Hi. now rewrite Hi.
  - now apply Hc.
Qed.

(* ---------- the invariant of histories ---------- *)
Definition dinv (n : nat) (g : ncfg) (d : dstate) : Prop :=
  fwf n g (d_f d) /\ log_ok (d_f d) /\ clean_ok n (d_f d) (d_led d).

Lemma dinv_init n g : (0 < n)%nat -> dinv n g dinit.
Proof.
  intros Hn. split; [now apply empty_fwf|]. split.
  - intros v b H. discriminate.
  - intros v _. reflexivity.
Qed.

Lemma dstep_forest n g d o d' ok : dstep n g d o = (d', ok) -> step n g (d_f d) o = (d_f d', ok).
Proof. unfold dstep. destruct (step n g (d_f d) o) as [f' ok']. now intros [= <- <-]. Qed.

Lemma dstep_ledger n g d o d' ok :
  dstep n g d o = (d', ok) -> d_led d' = if is_commit o then commit_ledger n (d_f d) (d_led d) else d_led d.
Proof. unfold dstep. destruct (step n g (d_f d) o) as [f' ok']. now intros [= <- _]. Qed.

Lemma dinv_step n g d o d' :
  dinv n g d -> op_ok n (d_f d) o -> dstep n g d o = (d', true) -> dinv n g d'.
Proof.
  intros (Hwf & Hl & Hc) Hok Hs.
  pose proof (dstep_forest _ _ _ _ _ _ Hs) as Hf. pose proof (dstep_ledger _ _ _ _ _ _ Hs) as Hled.
  destruct (step_fwf _ _ _ _ _ _ Hwf Hok Hf) as (_ & Hwf').
  split; auto. destruct (is_commit o) eqn:Eo.
  - destruct o; try discriminate. cbn [step] in Hf. injection Hf as Hf. rewrite <- Hf, Hled. split.
    + intros v b H. discriminate.
    + intros v _. rewrite flat_commit. now apply commit_exact.
  - destruct (step_dur n g _ o _ Hwf Hok Eo Hf) as [Hm Hlk Hfl _ _].
    split; [apply log_ok_lok, Hlk, log_ok_lok, Hl|].
    intros v Hd. rewrite Hled, (Hfl v Hd). apply Hc. now apply Hm.
Qed.

Lemma dreach_dinv n g d : (0 < n)%nat -> dreach n g d -> dinv n g d.
Proof.
  intros Hn H. induction H; [now apply dinv_init|]. eapply dinv_step; eauto.
Qed.

Lemma dreach_reach n g d : dreach n g d -> reach n g (d_f d).
Proof.
  intros H. induction H; [constructor|]. econstructor; eauto. eapply dstep_forest; eauto.
Qed.

(* ---------- C03 ---------- *)
Theorem C03_nested_commit_durable_l n g d :
  (0 < n)%nat -> dreach n g d ->
  log_ok (d_f d) /\
  (forall v, dirty (d_f d) v = None -> lookup (d_led d) v = flat n (d_f d) v) /\
  (forall v, lookup (commit_ledger n (d_f d) (d_led d)) v = lookup (flatten n (d_f d)) v).
Proof.
  intros Hn H. destruct (dreach_dinv _ _ _ Hn H) as (_ & Hl & Hc). split; auto. split; auto.
  intros v. rewrite lookup_flatten. now apply commit_exact.
Qed.

Lemma uncommitted_ledger n g d d' : uncommitted n g d d' -> d_led d' = d_led d.
Proof.
  intros H. induction H; auto. rewrite (dstep_ledger _ _ _ _ _ _ H2), H0. exact IHuncommitted.
Qed.

Lemma uncommitted_dreach n g d d' : dreach n g d -> uncommitted n g d d' -> dreach n g d'.
Proof. intros Hd H. induction H; auto. econstructor; eauto. Qed.

Theorem C03_nested_last_commit_l n g d0 d1 d2 :
  (0 < n)%nat -> dreach n g d0 -> dstep n g d0 OCommit = (d1, true) -> uncommitted n g d1 d2 ->
  (forall v, view (d_f d1) v = view (d_f d0) v) /\
  (forall v, lookup (d_led d2) v = lookup (flatten n (d_f d0)) v) /\
  (forall r, stored (d_f d0) r -> load n (lookup (d_led d2)) r = unfold n (d_f d0) r).
Proof.
  intros Hn Hd Hs Hu.
  destruct (C03_nested_commit_durable_l n g d0 Hn Hd) as (_ & _ & Hc).
  pose proof (dstep_forest _ _ _ _ _ _ Hs) as Hf. cbn [step] in Hf. injection Hf as Hf.
  pose proof (dstep_ledger _ _ _ _ _ _ Hs) as Hled. cbn [is_commit] in Hled.
  assert (Hl2 : forall v, lookup (d_led d2) v = lookup (flatten n (d_f d0)) v).
  { intros v. rewrite (uncommitted_ledger _ _ _ _ Hu), Hled. apply Hc. }
  split; [intros v; now rewrite <- Hf|]. split; auto.
  intros r Hr. rewrite (load_ext _ _ n r Hl2). destruct (dreach_dinv _ _ _ Hn Hd) as ((HS & _) & _).
  eapply load_flatten; eauto.
Qed.

Theorem C03_nested_roundtrip_l n g f r :
  fwf n g f -> stored f r -> load n (lookup (flatten n f)) r = unfold n f r /\ unfold n f r <> None.
Proof.
  intros (HS & _) Hr. split; [eapply load_flatten; eauto|].
  destruct Hr as (c & Hc & _). unfold unfold. rewrite Hc. discriminate.
Qed.

(* ---------- [unfold] is the forest restricted to what the root reaches ---------- *)
Lemma unf_inj_elem k f f' e e' : unf k f e = unf k f' e' -> e = e'.
Proof.
  destruct k; destruct e as [id sz|v w], e' as [id' sz'|v' w']; cbn [unf];
    try (now intros [= -> ->]); try (destruct (fget f' v'); discriminate); try (destruct (fget f v); discriminate);
    destruct (fget f v), (fget f' v'); now intros [= -> ->].
Qed.

Lemma uslots_inj k f f' l l' :
  uslots k f l = uslots k f' l' -> l = l' /\ forall s, In s l -> unf k f (s_val s) = unf k f' (s_val s).
Proof.
  unfold uslots. revert l'. induction l as [|s r IH]; intros [|s' r']; cbn [map]; try discriminate.
  - split; auto. intros s [].
  - intros Heq. injection Heq as Hk Hz Hu Hr. destruct (IH _ Hr) as (-> & Hall).
    pose proof (unf_inj_elem _ _ _ _ _ Hu) as He.
    assert (s = s') as <- by (destruct s, s'; cbn in *; congruence).
    split; auto. intros s0 [<-|Hin]; auto.
Qed.

Lemma unfold_faithful n g f f' r :
  fstruct n g f -> fstruct n g f' -> unfold n f r = unfold n f' r -> unfold n f r <> None ->
  forall y, anc f r y -> vsame f f' y /\ (y <> r -> flag f y = flag f' y).
Proof.
  intros HS HS' Heq Hne.
  destruct (st_ranked _ _ _ HS) as (lvl & Hl & Hb).
  (* what the equality of the subtrees at a child says *)
  assert (Hnode : forall k y w, (n <= S k + lvl y)%nat -> fget f y <> None -> fget f' y <> None ->
            unf (S k) f (NChild y w) = unf (S k) f' (NChild y w) ->
            vsame f f' y /\ flag f y = flag f' y /\
            forall c, fget f y = Some c -> forall s, In s (c_slots c) -> unf k f (s_val s) = unf k f' (s_val s)).
  { intros k y w _ Hex0 Hex. cbn [unf]. unfold vsame, flag.
    destruct (fget f y) as [c|] eqn:Ec, (fget f' y) as [c'|] eqn:Ec'; try congruence.
    intros [= Hk Hi Hs]. destruct (uslots_inj _ _ _ _ _ Hs) as (Hsl & Hall).
    cbn. repeat split; try congruence. intros c0 [= <-]. exact Hall. }
  assert (Hroot : exists c c', fget f r = Some c /\ fget f' r = Some c' /\ c_kind c = c_kind c' /\ c_slots c = c_slots c' /\
                               forall s, In s (c_slots c) -> unf n f (s_val s) = unf n f' (s_val s)).
  { unfold unfold in *. destruct (fget f r) as [c|]; [|congruence]. destruct (fget f' r) as [c'|]; [|discriminate].
    injection Heq as Hk Hs. destruct (uslots_inj _ _ _ _ _ Hs) as (Hsl & Hall). exists c, c'. auto. }
  destruct Hroot as (cr & cr' & Hcr & Hcr' & Hkr & Hslr & Hallr).
  assert (Hcarry : forall y, anc f r y ->
            (y = r \/ exists k w, (n <= S k + lvl y)%nat /\ unf (S k) f (NChild y w) = unf (S k) f' (NChild y w)) /\
            fget f' y <> None /\ vsame f f' y /\ (y <> r -> flag f y = flag f' y)).
  { intros y A. induction A as [r|r p i s t w E A IH].
    - split; auto. split; [congruence|]. split; [|congruence]. unfold vsame. rewrite Hcr, Hcr'. auto.
    - repeat match type of IH with ?P -> _ => let H := fresh in assert (H : P) by assumption; specialize (IH H); clear H end.
      destruct IH as (Hq & Hexp & Hvsp & _).
      pose proof (Hl _ _ _ _ _ E) as Hlt. pose proof (Hb t) as Hbt.
      destruct E as (cp & Hcp & Hn & Hv).
      assert (Hin : In s (c_slots cp)) by (eapply nth_error_In; eauto).
      (* the subtrees at t agree, with some fuel j *)
      assert (Hsub : exists j, (n <= j + lvl t)%nat /\ unf j f (NChild t w) = unf j f' (NChild t w)).
      { destruct Hq as [->|(k & w0 & Hk & Hu)].
        - exists n. split; [lia|]. rewrite Hcr in Hcp. injection Hcp as <-. rewrite <- Hv. now apply Hallr.
        - destruct (Hnode k p w0 Hk ltac:(congruence) Hexp Hu) as (_ & _ & Hall). exists k. split; [lia|]. rewrite <- Hv. eapply Hall; eauto. }
      destruct Hsub as (j & Hj & Hu). destruct j as [|j]; [lia|].
      (* t exists in f' : it is a child of p there too *)
      assert (Hext : fget f' t <> None).
      { unfold vsame in Hvsp. rewrite Hcp in Hvsp. destruct (fget f' p) as [cp'|] eqn:Ecp'; [|contradiction].
        destruct Hvsp as (_ & Hsl). rewrite Hsl in Hn.
        destruct (st_hooked _ _ _ HS' p cp' i s t w Ecp' Hn Hv) as (cv & Hcv & _). congruence. }
      assert (Hext0 : fget f t <> None).
      { destruct (st_hooked _ _ _ HS p cp i s t w Hcp Hn Hv) as (cv & Hcv & _). congruence. }
      destruct (Hnode j t w ltac:(lia) Hext0 Hext Hu) as (Hvs & Hfl & _).
      split; [right; exists j, w; split; [lia|auto]|]. auto. }
  intros y A. now destruct (Hcarry y A) as (_ & _ & Hv & Hfl).
Qed.

Lemma reaches_anc f r y : reaches f r y -> anc f r y.
Proof. intros H. induction H; [constructor|econstructor; eauto]. Qed.

Theorem unfold_faithful_views n g f f' r :
  fstruct n g f -> fstruct n g f' -> unfold n f r = unfold n f' r -> unfold n f r <> None ->
  forall y, reaches f r y -> content f y = content f' y /\ (y <> r -> view f y = view f' y).
Proof.
  intros HS HS' Heq Hne y Hy. destruct (unfold_faithful n g f f' r HS HS' Heq Hne y (reaches_anc _ _ _ Hy)) as (Hv & Hf).
  unfold vsame in Hv. unfold content, view, flag in *.
  destruct (fget f y) as [c|], (fget f' y) as [c'|]; try contradiction; auto.
  destruct Hv as (-> & ->). split; auto. intros Hyr. specialize (Hf Hyr). cbn in Hf. injection Hf as ->. reflexivity.
Qed.

(* ---------- C09: which registers exist, who references them ---------- *)
Lemma In_map_fst_aget {A} (l : list (N * A)) v : In v (map fst l) <-> aget l v <> None.
Proof.
  induction l as [|[k x] r IH]; cbn; [tauto|]. destruct (N.eqb_spec k v) as [->|Hne].
  - split; [discriminate|auto].
  - rewrite <- IH. split; [intros [?|?]; [congruence|auto]|auto].
Qed.

Lemma stored_ids_spec n f v : In v (stored_ids n f) <-> stored f v.
Proof.
  unfold stored_ids. rewrite In_map_fst_aget, aget_flatten. unfold flat, stored.
  destruct (fget f v) as [c|]; [destruct (c_inl c) eqn:Ei|].
  - split; [congruence|]. intros (c0 & [= <-] & H). congruence.
  - split; [eauto|discriminate].
  - split; [congruence|]. intros (c0 & H & _). discriminate.
Qed.

Section occ.
  Variables (n : nat) (g : ncfg) (f : forest).
  Hypothesis HS : fstruct n g f.

  (* every identifier in the encoding of x's slots is a child of a container embedded in x *)
  Lemma tslots_occ : forall k x c, fget f x = Some c -> forall v,
    (In v (flat_map (fun s : tslot => tv_refs (snd s)) (tslots k f (c_slots c))) ->
       stored f v /\ exists y i s w, ianc f x y /\ edge f y i s v w) /\
    (In v (flat_map (fun s : tslot => tv_inls (snd s)) (tslots k f (c_slots c))) ->
       inlined f v /\ exists y i s w, ianc f x y /\ edge f y i s v w).
  Proof.
    induction k as [|k IH]; intros x c Hc v.
    all: split; intros Hin; apply in_flat_map in Hin; destruct Hin as (ts & Hts & Hv);
      unfold tslots in Hts; apply in_map_iff in Hts; destruct Hts as (s & <- & Hs); cbn [snd] in Hv;
      destruct (In_nth_error _ _ Hs) as (i & Hn); destruct (s_val s) as [id sz|v' w'] eqn:Ev;
      cbn [tv tv_refs tv_inls] in Hv; try (destruct Hv; fail);
      destruct (st_hooked _ _ _ HS x c i s v' w' Hc Hn Ev) as (cv & Hcv & _);
      assert (E : edge f x i s v' w') by (exists c; auto);
      rewrite Hcv in Hv; destruct (c_inl cv) eqn:Ei; cbn [tv_refs tv_inls flat_map] in Hv; try (destruct Hv; fail).
    - destruct Hv as [<-|[]]. split; [exists cv; auto|]. exists x, i, s, w'. split; [constructor|auto].
    - destruct Hv as [<-|[]]. split; [exists cv; auto|]. exists x, i, s, w'. split; [constructor|auto].
    - assert (Hiv : inlined f v') by (exists cv; auto).
      fold (tslots k f (c_slots cv)) in Hv. destruct (proj1 (IH v' cv Hcv v) Hv) as (Hst & y & i1 & s1 & w1 & A & E1).
      split; auto. exists y, i1, s1, w1. split; auto. eapply ianc_top; eauto.
    - destruct Hv as [<-|[]]. split; [exists cv; auto|]. exists x, i, s, w'. split; [constructor|auto].
    - assert (Hiv : inlined f v') by (exists cv; auto).
      destruct Hv as [<-|Hv]; [split; auto; exists x, i, s, w'; split; [constructor|auto]|].
      fold (tslots k f (c_slots cv)) in Hv. destruct (proj2 (IH v' cv Hcv v) Hv) as (Hst & y & i1 & s1 & w1 & A & E1).
      split; auto. exists y, i1, s1, w1. split; auto. eapply ianc_top; eauto.
  Qed.

  Lemma reg_occ x r v :
    lookup (flatten n f) x = Some r ->
    (In v (reg_refs r) -> stored f v /\ exists y i s w, ianc f x y /\ edge f y i s v w) /\
    (In v (reg_inls r) -> inlined f v /\ exists y i s w, ianc f x y /\ edge f y i s v w).
  Proof.
    rewrite lookup_flatten. unfold flat. destruct (fget f x) as [c|] eqn:Hc; [|discriminate].
    destruct (c_inl c); [discriminate|]. intros [= <-]. unfold reg_refs, reg_inls. cbn [snd]. eapply tslots_occ; eauto.
  Qed.

  (* one owner: an identifier occurs in at most one register *)
  Lemma reg_owner_unique x x' r r' v :
    lookup (flatten n f) x = Some r -> lookup (flatten n f) x' = Some r' ->
    In v (reg_refs r ++ reg_inls r) -> In v (reg_refs r' ++ reg_inls r') -> x = x'.
  Proof.
    intros Hr Hr' Hin Hin'.
    assert (Hsx : stored f x) by (apply (stored_ids_spec n); unfold stored_ids; apply In_map_fst_aget; unfold lookup in Hr; congruence).
    assert (Hsx' : stored f x') by (apply (stored_ids_spec n); unfold stored_ids; apply In_map_fst_aget; unfold lookup in Hr'; congruence).
    assert (H1 : exists y i s w, ianc f x y /\ edge f y i s v w).
    { apply in_app_or in Hin. destruct Hin as [H|H]; [apply (reg_occ x r v Hr) in H|apply (reg_occ x r v Hr) in H]; tauto. }
    assert (H2 : exists y i s w, ianc f x' y /\ edge f y i s v w).
    { apply in_app_or in Hin'. destruct Hin' as [H|H]; [apply (reg_occ x' r' v Hr') in H|apply (reg_occ x' r' v Hr') in H]; tauto. }
    destruct H1 as (y & i & s & w & A & E), H2 as (y' & i' & s' & w' & A' & E').
    destruct (edge_unique _ _ _ HS _ _ _ _ _ _ _ _ _ E E') as (-> & _).
    eapply ianc_unique; eauto.
  Qed.

  (* the closure, read from the top *)
  Lemma ianc_top_inv x y : ianc f x y -> x = y \/ exists i s v w, edge f x i s v w /\ inlined f v /\ ianc f v y.
  Proof.
    intros A. induction A as [|x p i s t w E Hi A IH]; auto. right.
    destruct IH as [->|(i0 & s0 & v & w0 & E0 & Hi0 & A0)].
    - exists i, s, t, w. split; auto. split; auto. constructor.
    - exists i0, s0, v, w0. split; auto. split; auto. econstructor; eauto.
  Qed.

  Variable lvl : N -> nat.
  Hypothesis Hl : forall p i s v w, edge f p i s v w -> (lvl p < lvl v)%nat.
  Hypothesis Hb : forall v, (lvl v < n)%nat.

  (* conversely: every child of a container embedded in x occurs in x's encoding *)
  Lemma tslots_occ_conv : forall k x c, fget f x = Some c -> (n <= k + S (lvl x))%nat ->
    forall y, ianc f x y -> forall i s v w, edge f y i s v w ->
    (stored f v -> In v (flat_map (fun s : tslot => tv_refs (snd s)) (tslots k f (c_slots c)))) /\
    (inlined f v -> In v (flat_map (fun s : tslot => tv_inls (snd s)) (tslots k f (c_slots c)))).
  Proof.
    induction k as [|k IH]; intros x c Hc Hk y A i s v w E.
    - (* no fuel: x has no container children at all *)
      destruct (ianc_top_inv _ _ A) as [->|(i0 & s0 & v0 & w0 & E0 & _)].
      + pose proof (Hl _ _ _ _ _ E). pose proof (Hb v). lia.
      + pose proof (Hl _ _ _ _ _ E0). pose proof (Hb v0). lia.
    - destruct (ianc_top_inv _ _ A) as [->|(i0 & s0 & v0 & w0 & E0 & Hi0 & A0)].
      + destruct E as (c0 & Hc0 & Hn & Hv). rewrite Hc in Hc0. injection Hc0 as <-.
        assert (Hin : In (s_kid s, s_ksz s, tv (S k) f (s_val s)) (tslots (S k) f (c_slots c))).
        { unfold tslots. apply in_map_iff. exists s. split; auto. eapply nth_error_In; eauto. }
        split; intros Hsv; apply in_flat_map; eexists; (split; [exact Hin|]); cbn [snd]; rewrite Hv; cbn [tv].
        * destruct Hsv as (cv & -> & ->). now left.
        * destruct Hsv as (cv & -> & ->). now left.
      + pose proof (Hl _ _ _ _ _ E0) as Hl0.
        destruct E0 as (c0 & Hc0 & Hn & Hv). rewrite Hc in Hc0. injection Hc0 as <-.
        assert (Hin : In (s_kid s0, s_ksz s0, tv (S k) f (s_val s0)) (tslots (S k) f (c_slots c))).
        { unfold tslots. apply in_map_iff. exists s0. split; auto. eapply nth_error_In; eauto. }
        destruct Hi0 as (cv0 & Hcv0 & Hinl0).
        destruct (IH v0 cv0 Hcv0 ltac:(lia) y A0 i s v w E) as (H1 & H2).
        split; intros Hsv; apply in_flat_map; eexists; (split; [exact Hin|]); cbn [snd]; rewrite Hv; cbn [tv];
          rewrite Hcv0, Hinl0; cbn [tv_refs tv_inls]; fold (tslots k f (c_slots cv0)); [auto|right; auto].
  Qed.
End occ.

(* every container is embedded in a register, or in a container dropped by PopIterate *)
Lemma owner_exists n g f p :
  fstruct n g f -> fget f p <> None -> exists x, ianc f x p /\ (stored f x \/ popped f x).
Proof.
  intros HS. destruct (st_ranked _ _ _ HS) as (lvl & Hl & Hb).
  remember (lvl p) as m eqn:Hm. revert p Hm. induction m as [m IH] using lt_wf_ind. intros p Hm Hex.
  destruct (fget f p) as [c|] eqn:Hc; [|congruence]. destruct (c_inl c) eqn:Hi.
  - destruct (parent_of f p) as [q|] eqn:Hq.
    + destruct (parent_of_edge _ _ _ Hq) as (i & s & w & E).
      pose proof (Hl _ _ _ _ _ E) as Hlt.
      destruct (IH (lvl q) ltac:(lia) q eq_refl) as (x & A & Hx).
      { destruct E as (cq & -> & _). discriminate. }
      exists x. split; auto. econstructor; eauto. exists c. auto.
    + exists p. split; [constructor|]. right. split; [exists c; auto|]. eapply parent_of_none; eauto.
  - exists p. split; [constructor|]. left. exists c. auto.
Qed.

Theorem C09_nested_static_l n g f :
  fwf n g f ->
  (* the registers are exactly the stored containers *)
  (forall v, In v (stored_ids n f) <-> stored f v) /\
  (* no dangling reference, and references only to stored containers *)
  (forall x r v, lookup (flatten n f) x = Some r -> In v (reg_refs r) -> In v (stored_ids n f)) /\
  (* an embedded container has no register of its own *)
  (forall x r v, lookup (flatten n f) x = Some r -> In v (reg_inls r) -> inlined f v /\ ~ In v (stored_ids n f)) /\
  (* one owner *)
  (forall x x' r r' v, lookup (flatten n f) x = Some r -> lookup (flatten n f) x' = Some r' ->
     In v (reg_refs r ++ reg_inls r) -> In v (reg_refs r' ++ reg_inls r') -> x = x') /\
  (* no leak: a stored container is in no slot (a root or a detached container: the caller owns it), or the
     register that embeds its parent references it, or its parent lies in a container dropped by PopIterate *)
  (forall v, stored f v ->
     ~ attached f v \/
     (exists x r, lookup (flatten n f) x = Some r /\ In v (reg_refs r)) \/
     (exists p i s w q, edge f p i s v w /\ ianc f q p /\ popped f q)).
Proof.
  intros Hwf. pose proof (proj1 Hwf) as HS. split; [apply stored_ids_spec|]. split; [|split; [|split]].
  - intros x r v Hr Hin. apply stored_ids_spec. now destruct (proj1 (reg_occ n g f HS x r v Hr) Hin).
  - intros x r v Hr Hin. destruct (proj2 (reg_occ n g f HS x r v Hr) Hin) as (Hi & _). split; auto.
    rewrite stored_ids_spec. intros Hs. eapply stored_not_inlined; eauto.
  - intros. eapply reg_owner_unique; eauto.
  - intros v Hs. destruct (parent_of f v) as [p|] eqn:Hp; [|left; eapply parent_of_none; eauto].
    right. destruct (parent_of_edge _ _ _ Hp) as (i & s & w & E).
    destruct (owner_exists n g f p HS) as (x & A & [Hx|Hx]).
    { destruct E as (cp & -> & _). discriminate. }
    + left. destruct Hx as (cx & Hcx & Hix). exists x, (c_kind cx, tslots n f (c_slots cx)).
      split; [rewrite lookup_flatten; unfold flat; now rewrite Hcx, Hix|].
      destruct (st_ranked _ _ _ HS) as (lvl & Hl & Hb).
      unfold reg_refs. cbn [snd].
      apply (proj1 (tslots_occ_conv n f lvl Hl Hb n x cx Hcx ltac:(lia) p A i s v w E)). exact Hs.
    + right. exists p, i, s, w, x. auto.
Qed.

(* ---------- C09: what one operation does to the set of registers ---------- *)
Lemma flat_some_stored n f v : flat n f v <> None <-> stored f v.
Proof.
  unfold flat, stored. destruct (fget f v) as [c|]; [destruct (c_inl c) eqn:Ei|].
  - split; [congruence|]. intros (c0 & [= <-] & H). congruence.
  - split; [eauto|discriminate].
  - split; [congruence|]. intros (c0 & H & _). discriminate.
Qed.

Theorem C09_nested_step_l n g d o d' :
  (0 < n)%nat -> dreach n g d -> op_ok n (d_f d) o -> dstep n g d o = (d', true) ->
  let f := d_f d in let f' := d_f d' in
  (forall v, fget f v <> None -> fget f' v <> None) /\
  (forall v, fget f v = None -> fget f' v <> None ->
     (exists k, o = ONew v k) /\ stored f' v /\ dirty f' v = Some true) /\
  (forall v, stored f v -> ~ stored f' v -> inlined f' v /\ dirty f' v = Some false) /\
  (forall v, inlined f v -> stored f' v -> dirty f' v = Some true) /\
  (forall v, popped f' v -> popped f v \/ exists p i s w, o = OPop p /\ inlined f v /\ edge f p i s v w) /\
  (is_commit o = true -> forall v, In v (map fst (d_led d')) <-> stored f' v).
Proof.
  intros Hn Hd Hok Hs f f'. destruct (dreach_dinv _ _ _ Hn Hd) as (Hwf & Hl & Hc). fold f in Hwf, Hl, Hc, Hok.
  pose proof (dstep_forest _ _ _ _ _ _ Hs) as Hf. pose proof (dstep_ledger _ _ _ _ _ _ Hs) as Hled. fold f f' in Hf, Hled.
  destruct (step_extra n g f o f' Hwf Hok Hf) as (Hborn & Hpop).
  assert (Hfl_none : forall h v, fget h v = None <-> flag h v = None).
  { intros h v. unfold flag. destruct (fget h v); cbn; split; congruence. }
  destruct (is_commit o) eqn:Eo.
  - destruct o; try discriminate. cbn [step] in Hf. injection Hf as Hf.
    assert (Hg : forall y, fget f' y = fget f y) by (intros; now rewrite <- Hf).
    split; [intros v; now rewrite Hg|]. split; [intros v H1 H2; rewrite Hg in H2; contradiction|].
    split; [intros v (c & Hcv & Hi) H; exfalso; apply H; exists c; rewrite Hg; auto|].
    split; [intros v (c & Hcv & Hi) (c' & Hcv' & Hi'); rewrite Hg in Hcv'; congruence|].
    split; auto. intros _ v. rewrite Hled, In_map_fst_aget.
    change (aget (commit_ledger n f (d_led d)) v) with (lookup (commit_ledger n f (d_led d)) v).
    rewrite (commit_exact n f (d_led d) Hl Hc v), flat_some_stored. unfold stored. now rewrite Hg.
  - destruct (step_dur n g f o f' Hwf Hok Eo Hf) as [Hm Hlk Hflat Hflip Hkeep].
    assert (Hlk' : lok f') by (apply Hlk, log_ok_lok, Hl).
    assert (Hlogged : forall v b, flag f' v = Some b -> flag f' v <> flag f v -> dirty f' v = Some (negb b)).
    { intros v b Hb Hne. destruct (dirty f' v) as [b0|] eqn:Edv; [|now destruct (Hflip v Hne)].
      pose proof (Hlk' v b0 Edv) as H. rewrite Hb in H. injection H as ->. now rewrite negb_involutive. }
    split; [|split; [|split; [|split; [|split]]]]; auto; try discriminate.
    + intros v Hv H0. apply (Hkeep v); [|now apply Hfl_none]. intros H1. apply Hv. now apply Hfl_none.
    + intros v H1 H2. destruct (Hborn v) as (k & ->); [now apply Hfl_none|intros H0; apply H2; now apply Hfl_none|].
      split; [eauto|]. cbn [step] in Hf. injection Hf as Hf. rewrite <- Hf. split.
      * eexists. split; [unfold new_container; rewrite fget_flog; apply fget_fset_eq|reflexivity].
      * unfold new_container. apply dirty_flog_eq.
    + intros v Hsv Hnsv. apply flag_stored in Hsv.
      assert (Hfv' : flag f' v = Some true).
      { destruct (flag f' v) as [[|]|] eqn:E; auto.
        - exfalso. apply Hnsv. now apply flag_stored.
        - exfalso. apply (Hkeep v); congruence. }
      split; [now apply flag_inlined|]. apply (Hlogged v true); congruence.
    + intros v Hiv Hsv. apply flag_inlined in Hiv. apply flag_stored in Hsv. apply (Hlogged v false); congruence.
Qed.
