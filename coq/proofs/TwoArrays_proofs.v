(* TwoArrays_proofs.v — C17 "independent": two arrays in one slab store with one identifier counter
   (theories/TwoArrays.v).  Built on the per-operation theorems of ArrayFrame_proofs.v (exact
   identifier accounting [a_step_astage] / [ids_step], frame [frame_step], [fresh_ids_stored]) and
   the refinement step [a_step_ok] of Array_proofs.v. *)
From Coq Require Import NArith ZArith List Bool Lia ZifyBool ZifyN ZifyNat Permutation.
From AtreeGen Require Import Consts.
From AtreeModel Require Import Settings ArrayTree ArrayInv Batch TwoArrays.
From AtreeProofs Require Import ArrayFrame_proofs Array_proofs.
From AtreeProofs Require Batch_proofs.
Import ListNotations.
Local Open Scope N_scope.

(** * 1. [find_slab] is [node_at] *)
Definition conv (s : shallow) : sval :=
  match s with SD h nx es => VData h nx es | SM h hs sums => VMeta h hs sums end.

Fixpoint find_slabs (l : list anode) (id : N) : option sval :=
  match l with
  | [] => None
  | c :: r => match find_slab c id with Some s => Some s | None => find_slabs r id end
  end.

Lemma find_slab_AM h hs sums cs id :
  find_slab (AM h hs sums cs) id = if h_id h =? id then Some (VMeta h hs sums) else find_slabs cs id.
Proof.
  cbn [find_slab]. destruct (h_id h =? id); [reflexivity|].
  induction cs as [|c r IH]; [reflexivity|]. cbn [find_slabs]. rewrite IH. reflexivity.
Qed.

Lemma find_slab_node_at n id : find_slab n id = option_map conv (node_at n id).
Proof.
  induction n as [h nx es|h hs sums cs IH] using anode_ind'.
  - cbn [find_slab node_at]. destruct (h_id h =? id); reflexivity.
  - rewrite find_slab_AM, node_at_AM. destruct (h_id h =? id); [reflexivity|].
    induction IH as [|c r Hc _ IHr]; [reflexivity|].
    cbn [find_slabs nodes_at]. rewrite Hc. destruct (node_at c id); [reflexivity|exact IHr].
Qed.

(** * 2. The store after a log *)
Lemma apply_log_last a' : forall lg st id,
  apply_log a' st lg id =
  match last_ev lg id with
  | None => st id
  | Some EvStore => Some (reg_of a' id)
  | Some EvRemove => None
  end.
Proof.
  induction lg as [|[i|i] r IH]; intros st id; cbn [apply_log last_ev]; [reflexivity| |].
  - rewrite IH. destruct (last_ev r id) as [[|]|]; try reflexivity.
    unfold st_set. rewrite N.eqb_sym. destruct (N.eqb_spec i id) as [->|]; reflexivity.
  - rewrite IH. destruct (last_ev r id) as [[|]|]; try reflexivity.
    unfold st_set. rewrite N.eqb_sym. destruct (N.eqb_spec i id); reflexivity.
Qed.

Lemma apply_log_untouched a' lg st id : ~ touched lg id -> apply_log a' st lg id = st id.
Proof. intros H. apply last_ev_untouched in H. now rewrite apply_log_last, H. Qed.

(** * 3. What one operation touches *)
Lemma ids_ok_with_alloc a : ids_ok (with_alloc a (a_alloc a)) <-> ids_ok a.
Proof. reflexivity. Qed.

Lemma touched_owned c a o a' out lg id :
  a_step c a o = (a', out, lg) -> touched lg id ->
  In id (slab_ids (a_root a)) \/ a_alloc a < id <= a_alloc a'.
Proof.
  intros H Ht. apply a_step_astage in H as [S _].
  destruct (st_acct _ _ _ _ _ _ S) as (k & E & P & _).
  assert (Hin : In id (slab_ids (a_root a') ++ removed lg ++ back_of o out)).
  { destruct Ht as [Hs|Hr].
    - apply in_stored in Hs. apply (st_stored _ _ _ _ _ _ S) in Hs as [Hs|Hs].
      + apply in_or_app. now left.
      + apply in_or_app. right. apply in_or_app. now left.
    - apply in_removed in Hr. apply in_or_app. right. apply in_or_app. now left. }
  eapply Permutation_in in Hin; [|exact P]. apply in_app_or in Hin as [Hin|Hin]; [now left|].
  right. apply in_nseq in Hin. lia.
Qed.

Lemma new_ids_owned c a o a' out lg id :
  a_step c a o = (a', out, lg) -> In id (slab_ids (a_root a')) ->
  In id (slab_ids (a_root a)) \/ a_alloc a < id <= a_alloc a'.
Proof.
  intros H Hi. apply a_step_astage in H as [S _].
  destruct (st_acct _ _ _ _ _ _ S) as (k & E & P & _).
  assert (Hin : In id (slab_ids (a_root a') ++ removed lg ++ back_of o out)) by (apply in_or_app; now left).
  eapply Permutation_in in Hin; [|exact P]. apply in_app_or in Hin as [Hin|Hin]; [now left|].
  right. apply in_nseq in Hin. lia.
Qed.

Lemma split_root_type a a2 lg : split_root a = (Ok a2, lg) -> a_type a2 = a_type a.
Proof.
  intros H. apply split_root_inv in H as (h1 & hr & hs2 & sums2 & l & r & _ & _ & _ & _ & -> & _). reflexivity.
Qed.
Lemma promote_type a a3 lg : promote_if_single a = (a3, lg) -> a_type a3 = a_type a.
Proof.
  intros H. apply promote_inv in H as [[-> _]|(h & h1 & sums & ch & h' & _ & -> & _)]; reflexivity.
Qed.

(* the type information changes only by SetType, which stores the root slab *)
Lemma a_step_type c a o a' out lg :
  a_step c a o = (a', out, lg) -> a_type a' = a_type a \/ In (WStore (a_rootid a)) lg.
Proof.
  assert (Hins : forall i e, a_insert c a i e = (a', out, lg) -> a_type a' = a_type a).
  { intros i e. unfold a_insert. destruct (a_count a =? max_count); [intros [= <- _ _]; reflexivity|].
    destruct (n_insert c (a_root a) i e (a_alloc a)) as [[[r' alloc'] lg1]|]; [|intros [= <- _ _]; reflexivity].
    destruct (if n_is_full c r' then split_root _ else _) as [ra2 lg2] eqn:E2.
    destruct ra2 as [a2|x]; [|intros [= <- _ _]; reflexivity]. intros [= <- _ _].
    destruct (n_is_full c r'); [apply split_root_type in E2; exact E2|injection E2 as <- _; reflexivity]. }
  destruct o; cbn [a_step]; try (intros [= <- _ _]; now left).
  - unfold a_set. destruct (n_set c RP (a_root a) i e (a_alloc a)) as [[[[r' old] alloc'] lg1]|]; [|intros [= <- _ _]; now left].
    destruct (if n_is_full c r' then split_root _ else _) as [ra2 lg2] eqn:E2.
    destruct ra2 as [a2|x]; [|intros [= <- _ _]; now left].
    destruct (promote_if_single a2) as [a3 lg3] eqn:E3. intros [= <- _ _]. left.
    rewrite (promote_type _ _ _ E3).
    destruct (n_is_full c r'); [apply split_root_type in E2; exact E2|injection E2 as <- _; reflexivity].
  - intros H. left. eapply Hins; eauto.
  - intros H. left. eapply Hins; eauto.
  - unfold a_remove. destruct (n_remove c (a_root a) i) as [[[r' old] lg1]|]; [|intros [= <- _ _]; now left].
    destruct (promote_if_single _) as [a3 lg3] eqn:E3. intros [= <- _ _]. left.
    rewrite (promote_type _ _ _ E3). reflexivity.
  - intros [= _ _ <-]. right. now left.
Qed.

(** * 4. One operation on one of two arrays *)
Lemma disjoint_sym a b : disjoint_ids a b -> disjoint_ids b a.
Proof. intros H i Hb Ha. exact (H i Ha Hb). Qed.

Lemma reg_of_with_alloc a n id : reg_of (with_alloc a n) id = reg_of a id.
Proof. reflexivity. Qed.

Lemma core_step c a b alloc st o a' out lg :
  ids_ok (with_alloc a alloc) -> ids_ok (with_alloc b alloc) -> disjoint_ids a b ->
  a_step c (with_alloc a alloc) o = (a', out, lg) ->
  ids_ok a' /\ ids_ok (with_alloc b (a_alloc a')) /\ disjoint_ids a' b /\ alloc <= a_alloc a' /\
  (forall i, In i (slab_ids (a_root b)) -> ~ touched lg i) /\
  ((forall i, In i (slab_ids (a_root a)) -> st i = Some (reg_of a i)) ->
   forall i, In i (slab_ids (a_root a')) -> apply_log a' st lg i = Some (reg_of a' i)).
Proof.
  intros Ha Hb Hd H. set (a0 := with_alloc a alloc) in *.
  destruct (ids_step _ _ _ _ _ _ Ha H) as (Ha' & Hle & Hrid & _).
  change (a_alloc a0) with alloc in Hle.
  destruct Hb as [HbN HbB]. cbn [with_alloc a_root a_alloc] in HbN, HbB.
  assert (Hbb : forall i, In i (slab_ids (a_root b)) -> i <= alloc).
  { intros i Hi. rewrite Forall_forall in HbB. now apply HbB. }
  split; [exact Ha'|]. split.
  { split; [exact HbN|]. cbn [with_alloc a_root a_alloc]. eapply Forall_impl; [|exact HbB]. cbn beta. intros; lia. }
  split.
  { intros i Hi Hib. destruct (new_ids_owned _ _ _ _ _ _ _ H Hi) as [Hi'|Hi'].
    - exact (Hd i Hi' Hib).
    - change (a_alloc a0) with alloc in Hi'. specialize (Hbb i Hib). lia. }
  split; [exact Hle|]. split.
  { intros i Hib Ht. destruct (touched_owned _ _ _ _ _ _ _ H Ht) as [Hi'|Hi'].
    - exact (Hd i Hi' Hib).
    - change (a_alloc a0) with alloc in Hi'. specialize (Hbb i Hib). lia. }
  intros Hst i Hi. rewrite apply_log_last.
  destruct (frame_step _ _ _ _ _ _ Ha H i) as (F1 & _ & F3 & _).
  destruct (last_ev lg i) as [[|]|] eqn:El.
  - reflexivity.
  - destruct (F3 eq_refl) as [_ Hn]. contradiction.
  - apply last_ev_untouched in El. specialize (F1 El).
    assert (Hia : In i (slab_ids (a_root a))).
    { destruct (new_ids_owned _ _ _ _ _ _ _ H Hi) as [Hi'|Hi']; [exact Hi'|].
      exfalso. apply El. left. eapply fresh_ids_stored; eauto. }
    rewrite (Hst i Hia). f_equal. unfold reg_of. rewrite !find_slab_node_at, F1.
    change (a_root a0) with (a_root a).
    destruct (option_map conv (node_at (a_root a) i)); [|reflexivity]. f_equal.
    change (a_rootid a) with (a_rootid a0). rewrite Hrid.
    destruct (N.eqb_spec i (a_rootid a0)) as [->|]; [|reflexivity]. f_equal.
    destruct (a_step_type _ _ _ _ _ _ H) as [Ht|Ht]; [symmetry; exact Ht|].
    exfalso. apply El. now left.
Qed.

Lemma w_get_other_SA w a' n st : w_get (mkW a' (w_b w) n st) SB = w_b w. Proof. reflexivity. Qed.

Theorem wstep_inv c w X o w' out :
  winv w -> wstep c w X o = (w', out) ->
  winv w' /\ untouched w w' (other X) /\ w_alloc w <= w_alloc w' /\
  (store_ok w X -> store_ok w' X) /\ (store_ok w (other X) -> store_ok w' (other X)).
Proof.
  intros (Ia & Ib & Id) H. unfold wstep in H.
  destruct (a_step c (with_alloc (w_get w X) (w_alloc w)) o) as [[a' out'] lg] eqn:E.
  destruct X; cbn [w_get] in E; injection H as <- <-.
  - destruct (core_step c (w_a w) (w_b w) (w_alloc w) (w_store w) o a' out' lg Ia Ib Id E)
      as (Ha' & Hb' & Hd' & Hle & Hfr & Hst).
    split; [split; [exact Ha'|split; [exact Hb'|exact Hd']]|].
    split; [split; [reflexivity|split; [reflexivity|]]|split; [exact Hle|split]].
    + intros i Hi. cbn [w_store other w_get]. apply apply_log_untouched. now apply Hfr.
    + intros Hok i Hi. cbn [w_store w_get w_a] in *. apply Hst; auto.
    + intros Hok i Hi. cbn [w_store w_get w_b other] in *. rewrite apply_log_untouched by now apply Hfr. now apply Hok.
  - destruct (core_step c (w_b w) (w_a w) (w_alloc w) (w_store w) o a' out' lg Ib Ia (disjoint_sym _ _ Id) E)
      as (Ha' & Hb' & Hd' & Hle & Hfr & Hst).
    split; [split; [exact Hb'|split; [exact Ha'|apply disjoint_sym; exact Hd']]|].
    split; [split; [reflexivity|split; [reflexivity|]]|split; [exact Hle|split]].
    + intros i Hi. cbn [w_store other w_get]. apply apply_log_untouched. now apply Hfr.
    + intros Hok i Hi. cbn [w_store w_get w_b] in *. apply Hst; auto.
    + intros Hok i Hi. cbn [w_store w_get w_a other] in *. rewrite apply_log_untouched by now apply Hfr. now apply Hok.
Qed.

(** * 5. Histories *)
Lemma untouched_refl w X : untouched w w X.
Proof. repeat split; auto. Qed.

Lemma untouched_trans w1 w2 w3 X : untouched w1 w2 X -> untouched w2 w3 X -> untouched w1 w3 X.
Proof.
  intros (R1 & T1 & S1) (R2 & T2 & S2). split; [congruence|]. split; [congruence|].
  intros i Hi. rewrite S2, S1; auto. now rewrite R1.
Qed.

Lemma side_cases X Y : Y = X \/ Y = other X.
Proof. destruct X, Y; auto. Qed.

Theorem wrun_inv c : forall ops w, winv w ->
  winv (fst (wrun c w ops)) /\ w_alloc w <= w_alloc (fst (wrun c w ops)) /\
  forall X, store_ok w X -> store_ok (fst (wrun c w ops)) X.
Proof.
  induction ops as [|[X o] r IH]; intros w Hw; cbn [wrun].
  - cbn [fst]. split; [exact Hw|]. split; [lia|auto].
  - destruct (wstep c w X o) as [w1 x] eqn:E1.
    destruct (wstep_inv _ _ _ _ _ _ Hw E1) as (Hw1 & _ & Hle & Hs1 & Hs2).
    destruct (IH w1 Hw1) as (Hw2 & Hle2 & Hs). destruct (wrun c w1 r) as [w2 xs]. cbn [fst] in *.
    split; [exact Hw2|]. split; [lia|]. intros Y HY. apply Hs.
    destruct (side_cases X Y) as [->| ->]; auto.
Qed.

(* a history addressed to X only: the other array is untouched *)
Theorem wrun_one_side c X : forall ops w, winv w -> Forall (fun p : side * aop => fst p = X) ops ->
  untouched w (fst (wrun c w ops)) (other X).
Proof.
  induction ops as [|[Y o] r IH]; intros w Hw Hall; cbn [wrun].
  - apply untouched_refl.
  - inversion Hall as [|? ? HY Hr]; subst. cbn [fst] in *.
    destruct (wstep c w Y o) as [w1 x] eqn:E1.
    destruct (wstep_inv _ _ _ _ _ _ Hw E1) as (Hw1 & Hu & _).
    specialize (IH w1 Hw1 Hr). destruct (wrun c w1 r) as [w2 xs]. cbn [fst] in *.
    eapply untouched_trans; eauto.
Qed.

(* interleaved histories: whatever came before, a request to X leaves the other array untouched *)
Theorem wrun_each_step c ops w X o :
  winv w ->
  let w1 := fst (wrun c w ops) in
  let w2 := fst (wstep c w1 X o) in
  winv w1 /\ winv w2 /\ untouched w1 w2 (other X).
Proof.
  intros Hw w1 w2. destruct (wrun_inv c ops w Hw) as (Hw1 & _). fold w1 in Hw1.
  subst w2. destruct (wstep c w1 X o) as [w2 x] eqn:E.
  destruct (wstep_inv _ _ _ _ _ _ Hw1 E) as (Hw2 & Hu & _). auto.
Qed.

(** * 6. Each array refines its own sequence (C01) *)
Section refine.
  Variable T : N.
  Hypothesis HT : valid_T T.
  Local Notation c := (set_threshold T).

  Definition wwf (w : world) : Prop := awfl c (w_a w) /\ awfl c (w_b w).

  Lemma awfl_with_alloc a n : awfl c (with_alloc a n) <-> awfl c a.
  Proof. unfold awfl, awf, a_count, with_alloc. cbn [a_root]. tauto. Qed.

  Lemma wstep_refines w X o : wwf w -> aop_ok c o ->
    wwf (fst (wstep c w X o)) /\
    abs_arr (w_get (fst (wstep c w X o)) X) = fst (seq_step (abs_arr (w_get w X)) o) /\
    strip_out (snd (wstep c w X o)) = snd (seq_step (abs_arr (w_get w X)) o) /\
    w_get (fst (wstep c w X o)) (other X) = w_get w (other X) /\
    a_rootid (w_get (fst (wstep c w X o)) X) = a_rootid (w_get w X).
  Proof.
    intros [Ha Hb] Ho. unfold wstep.
    assert (Hx : awfl c (with_alloc (w_get w X) (w_alloc w))) by (apply awfl_with_alloc; destruct X; assumption).
    pose proof (a_step_ok T HT _ o Hx Ho) as (H1 & H2 & H3 & H4).
    destruct (a_step c (with_alloc (w_get w X) (w_alloc w)) o) as [[a' out] lg]. cbn [fst snd] in *.
    unfold wwf. destruct X; cbn [fst snd w_get w_a w_b other]; (split; [split; assumption|]); (split; [exact H4|]); (split; [exact H3|]); (split; [reflexivity|exact H2]).
  Qed.

  Theorem wrun_refines : forall ops w, wwf w -> Forall (fun p : side * aop => aop_ok c (snd p)) ops ->
    wwf (fst (wrun c w ops)) /\
    forall X,
      abs_arr (w_get (fst (wrun c w ops)) X) = fst (seq_run (abs_arr (w_get w X)) (proj X ops)) /\
      map strip_out (proj_out X ops (snd (wrun c w ops))) = snd (seq_run (abs_arr (w_get w X)) (proj X ops)) /\
      a_rootid (w_get (fst (wrun c w ops)) X) = a_rootid (w_get w X).
  Proof.
    induction ops as [|[Y o] r IH]; intros w Hw Hall; cbn [wrun].
    - cbn. split; auto.
    - inversion Hall as [|? ? Ho Hr]; subst. cbn [snd] in Ho.
      destruct (wstep_refines w Y o Hw Ho) as (Hw1 & Habs & Hout & Hoth & Hrid).
      destruct (wstep c w Y o) as [w1 x] eqn:E1. cbn [fst snd] in *.
      destruct (IH w1 Hw1 Hr) as (Hw2 & Hall2).
      destruct (wrun c w1 r) as [w2 xs] eqn:E2. cbn [fst snd] in *.
      split; [exact Hw2|]. intros X. destruct (Hall2 X) as (A & B & C).
      destruct X, Y; cbn [proj flat_map fst snd app proj_out other w_get] in *;
        fold (proj SA r) in *; fold (proj SB r) in *.
      + cbn [seq_run]. destruct (seq_step (abs_arr (w_a w)) o) as [s1 x1]. cbn [fst snd w_get] in *. subst s1.
        destruct (seq_run (abs_arr (w_a w1)) (proj SA r)) as [s2 xs2]. cbn [fst snd map] in *.
        repeat split; congruence.
      + rewrite Hoth in *. auto.
      + rewrite Hoth in *. auto.
      + cbn [seq_run]. destruct (seq_step (abs_arr (w_b w)) o) as [s1 x1]. cbn [fst snd w_get] in *. subst s1.
        destruct (seq_run (abs_arr (w_b w1)) (proj SB r)) as [s2 xs2]. cbn [fst snd map] in *.
        repeat split; congruence.
  Qed.
End refine.

(** * 7. NewArrayFromBatchData stores every slab of its result *)
Lemma sub_ids_AD h nx es : sub_ids (AD h nx es) = ext_ids es. Proof. reflexivity. Qed.
Lemma sub_ids_AM h hs sums cs : sub_ids (AM h hs sums cs) = flat_map slab_ids cs. Proof. reflexivity. Qed.

Lemma fix_pair_sub c l r out : fix_pair c l r = Ok out ->
  forall i, In i (flat_map sub_ids out) -> In i (sub_ids l ++ sub_ids r).
Proof.
  unfold fix_pair. destruct (n_underflow c r) as [need|].
  2:{ intros [= <-] i. cbn [flat_map]. now rewrite app_nil_r. }
  destruct (n_can_lend_to_right c l need).
  - destruct (n_lend_to_right c l r) as [[l' r']|] eqn:E; [|discriminate]. intros [= <-] i.
    cbn [flat_map]. rewrite app_nil_r.
    destruct (pair_inv c false l r l' r' E) as
      [(h & nx & es & h2 & nx2 & es2 & hl & hr & esl & esr & -> & -> & -> & -> & Ee & _)|
       (h & hs & sums & cs & h2 & hs2 & sums2 & cs2 & hl & hsl & sl & csl & hr & hsr & sr & csr & -> & -> & -> & -> & Ee & _)].
    + rewrite !sub_ids_AD, <- !ext_ids_app, Ee. auto.
    + rewrite !sub_ids_AM, <- !flat_map_app, Ee. auto.
  - destruct (n_merge l r) as [m|] eqn:E; [|discriminate]. intros [= <-] i.
    cbn [flat_map]. rewrite app_nil_r.
    destruct (n_merge_inv l r m E) as
      [(h & nx & es & h2 & nx2 & es2 & hm & -> & -> & -> & _)|
       (h & hs & sums & cs & h2 & hs2 & sums2 & cs2 & hm & sm & -> & -> & -> & _)].
    + rewrite !sub_ids_AD, ext_ids_app. auto.
    + rewrite !sub_ids_AM, flat_map_app. auto.
Qed.

Lemma tail_fix_sub c : forall slabs out, tail_fix c slabs = Ok out ->
  forall i, In i (flat_map sub_ids out) -> In i (flat_map sub_ids slabs).
Proof.
  induction slabs as [|x rest IH]; intros out; cbn [tail_fix].
  - intros [= <-]. auto.
  - destruct rest as [|y rest2]; [intros [= <-]; auto|].
    destruct rest2 as [|z rest3].
    + intros H i Hi. apply (fix_pair_sub c x y out H) in Hi. cbn [flat_map]. now rewrite app_nil_r.
    + destruct (tail_fix c (y :: z :: rest3)) as [rest'|] eqn:E; [|discriminate].
      intros [= <-] i. cbn [flat_map]. rewrite !in_app_iff. intros [Hi|Hi]; [now left|].
      right. apply (IH rest' eq_refl i) in Hi. cbn [flat_map] in Hi. now rewrite !in_app_iff in Hi.
Qed.

Lemma next_level_go_sub maxn : forall slabs m alloc out alloc',
  next_level_go maxn slabs m alloc = (out, alloc') ->
  forall i, In i (flat_map sub_ids out) ->
    In i (flat_map slab_ids (rev (ma_cs m))) \/ In i (flat_map slab_ids slabs).
Proof.
  induction slabs as [|s r IH]; intros m alloc out alloc'; cbn [next_level_go].
  - intros [= <- _] i. cbn [flat_map]. unfold ma_close. rewrite app_nil_r, sub_ids_AM. auto.
  - destruct (Nat.eqb (ma_k m) maxn).
    + destruct (next_level_go maxn r (ma_add (ma_new (alloc + 1)) s) (alloc + 1)) as [rest a] eqn:E.
      intros [= <- _] i. cbn [flat_map]. rewrite in_app_iff. intros [Hi|Hi].
      * left. exact Hi.
      * right. destruct (IH _ _ _ _ E i Hi) as [H|H].
        -- cbn [ma_add ma_new ma_cs rev app flat_map] in H. rewrite app_nil_r in H. apply in_or_app. now left.
        -- apply in_or_app. now right.
    + intros H i Hi. destruct (IH _ _ _ _ H i Hi) as [H1|H1].
      * cbn [ma_add ma_cs rev] in H1. rewrite flat_map_app in H1. apply in_app_or in H1 as [H1|H1]; [now left|].
        right. cbn [flat_map] in *. rewrite app_nil_r in H1. apply in_or_app. now left.
      * right. cbn [flat_map]. apply in_or_app. now right.
Qed.

Lemma in_slab_ids_top_sub s i : In i (slab_ids s) -> i = nid s \/ In i (sub_ids s).
Proof. rewrite slab_ids_nid. cbn [In]. intuition. Qed.

Lemma levels_sub : forall fuel c slabs alloc lg root alloc' lg',
  levels fuel c slabs alloc lg = Ok (root, alloc', lg') ->
  (forall i, In i (flat_map sub_ids slabs) -> In (WStore i) lg) ->
  forall i, In i (sub_ids root) -> In (WStore i) lg'.
Proof.
  induction fuel as [|f IH]; intros c slabs alloc lg root alloc' lg'; cbn [levels]; [discriminate|].
  destruct slabs as [|x [|y rest]]; [discriminate| |].
  - intros [= <- _ <-] Hs i Hi. apply Hs. cbn [flat_map]. apply in_or_app. now left.
  - destruct (tail_fix c (x :: y :: rest)) as [out|] eqn:Et; [|discriminate].
    pose proof (tail_fix_sub c _ _ Et) as Hsub.
    destruct out as [|r1 [|r2 rest']]; [discriminate| |].
    + intros [= <- _ <-] Hs i Hi. apply Hs, Hsub. cbn [flat_map]. apply in_or_app. now left.
    + destruct (next_level c (r1 :: r2 :: rest') alloc) as [next a1] eqn:En.
      intros H Hs. eapply IH; [exact H|].
      intros i Hi. unfold next_level in En.
      destruct (next_level_go_sub _ _ _ _ _ _ En i Hi) as [H1|H1]; [cbn in H1; contradiction|].
      apply in_flat_map in H1 as (s & Hs1 & Hs2). apply in_or_app.
      destruct (in_slab_ids_top_sub s i Hs2) as [->|Hsb].
      * right. unfold store_all. apply in_map_iff. exists s. auto.
      * left. apply Hs, Hsub. apply in_flat_map. eauto.
Qed.

Lemma externalise_stored e alloc e' alloc' lg :
  externalise e alloc = (e', alloc', lg) -> forall i, In i (ext1 e') -> In (WStore i) lg.
Proof.
  unfold externalise, ext1. destruct (e_ext e =? 0) eqn:E0; intros [= <- _ <-] i.
  - rewrite E0. intros [].
  - cbn [e_ext]. destruct (alloc + 1 =? 0); [intros []|]. intros [<-|[]]. now left.
Qed.

Lemma in_ext_ids_rev l i : In i (ext_ids (rev l)) <-> In i (ext_ids l).
Proof. split; apply Permutation_in; [|symmetry]; apply ext_ids_rev. Qed.

Lemma fill_sub c : forall es id size count acc alloc leaves alloc' lg,
  fill c es id size count acc alloc = (leaves, alloc', lg) ->
  forall i, In i (flat_map sub_ids leaves) -> In i (ext_ids acc) \/ In (WStore i) lg.
Proof.
  induction es as [|e r IH]; intros id size count acc alloc leaves alloc' lg; cbn [fill].
  - intros [= <- _ <-] i. cbn [flat_map]. rewrite app_nil_r, sub_ids_AD, in_ext_ids_rev. auto.
  - destruct (cT c <=? size).
    + destruct (externalise e (alloc + 1)) as [[e' a1] lg1] eqn:Ex.
      destruct (fill c r (alloc + 1) (P + e_sz e') 1 [e'] a1) as [[rest a2] lg2] eqn:Ef.
      intros [= <- _ <-] i. cbn [flat_map]. rewrite in_app_iff, sub_ids_AD, in_ext_ids_rev.
      intros [Hi|Hi]; [now left|]. right. apply in_or_app.
      destruct (IH _ _ _ _ _ _ _ _ Ef i Hi) as [H|H]; [|now right].
      left. rewrite ext_ids_cons in H. change (ext_ids []) with (@nil N) in H. rewrite app_nil_r in H.
      eapply externalise_stored; eauto.
    + destruct (externalise e alloc) as [[e' a1] lg1] eqn:Ex.
      destruct (fill c r id (size + e_sz e') (count + 1) (e' :: acc) a1) as [[rest a2] lg2] eqn:Ef.
      intros [= <- _ <-] i Hi.
      destruct (IH _ _ _ _ _ _ _ _ Ef i Hi) as [H|H]; [|right; apply in_or_app; now right].
      rewrite ext_ids_cons in H. apply in_app_or in H as [H|H]; [|now left].
      right. apply in_or_app. left. eapply externalise_stored; eauto.
Qed.

Theorem batch_all_stored c alloc ti es a lg :
  array_from_batch_res c alloc ti es = Ok (a, lg) ->
  forall i, In i (slab_ids (a_root a)) -> In (WStore i) lg.
Proof.
  unfold array_from_batch_res.
  destruct (fill c es (alloc + 1) P 0 [] (alloc + 1)) as [[leaves a1] lg1] eqn:Ef.
  destruct (levels (length es + 2) c leaves a1 lg1) as [[[root a2] lg2]|] eqn:El; [|discriminate].
  intros [= <- <-] i. cbn [a_root].
  destruct (Batch_proofs.rebase_root_facts root) as (_ & -> & _).
  assert (Hid : h_id (hdr_of (rebase_root root)) = nid root) by (destruct root; reflexivity).
  rewrite Hid. intros Hi. apply in_or_app.
  destruct (in_slab_ids_top_sub root i Hi) as [->|Hs]; [right; now left|]. left.
  eapply levels_sub; [exact El| |exact Hs].
  intros j Hj. destruct (fill_sub c _ _ _ _ _ _ _ _ _ Ef j Hj) as [[]|H]. exact H.
Qed.

(** * 8. The worlds of the statements *)
Lemma ids_ok_mono a n m : ids_ok (with_alloc a n) -> n <= m -> ids_ok (with_alloc a m).
Proof.
  intros [HN HB] Hle. split; [exact HN|]. cbn [with_alloc a_root a_alloc] in *.
  eapply Forall_impl; [|exact HB]. cbn beta. intros; lia.
Qed.

Lemma w_new2_ok alloc ta tb :
  let w := w_new2 alloc ta tb in
  winv w /\ store_ok w SA /\ store_ok w SB /\ w_alloc w = alloc + 2 /\
  a_rootid (w_a w) = alloc + 1 /\ a_rootid (w_b w) = alloc + 2.
Proof.
  unfold w_new2, arr_init. cbn beta iota zeta. split; [split; [|split]|split; [|split]].
  - split; cbn; [repeat constructor; intros []|repeat constructor; lia].
  - split; cbn; [repeat constructor; intros []|repeat constructor; lia].
  - intros i. cbn. intros [<-|[]] [H|[]]. lia.
  - intros i. cbn [w_get w_a a_root slab_ids ext_ids w_store In]. intros [<-|[]].
    cbn [apply_log h_id]. unfold st_set. replace (alloc + 1 =? alloc + 2) with false by lia.
    now rewrite N.eqb_refl.
  - intros i. cbn [w_get w_b a_root slab_ids ext_ids w_store In]. intros [<-|[]].
    cbn [apply_log h_id]. unfold st_set. now rewrite N.eqb_refl.
  - auto.
Qed.

Lemma no_removes_last lg hi lo i :
  Forall (fun w => exists j, w = WStore j /\ lo < j /\ j <= hi) lg ->
  (touched lg i -> lo < i) /\ (In (WStore i) lg -> last_ev lg i = Some EvStore).
Proof.
  intros H. rewrite Forall_forall in H. split.
  - intros [Ht|Ht]; destruct (H _ Ht) as (j & Hj & ? & ?); [injection Hj as ->; auto|discriminate].
  - intros Hs. destruct (last_ev lg i) as [[|]|] eqn:El; [reflexivity| |].
    + apply last_ev_remove, in_removed in El. destruct (H _ El) as (j & Hj & _). discriminate.
    + apply last_ev_untouched in El. exfalso. apply El. now left.
Qed.

Lemma w_batch_ok T alloc ti es a st : valid_T T -> let c := set_threshold T in
  Forall (elem_ok c) es -> ids_ok (with_alloc a alloc) ->
  let w := w_batch c a alloc st ti es in
  w_a w = a /\ w_b w = fst (array_from_batch c alloc ti es) /\ winv w /\ alloc < w_alloc w /\
  (forall i, In i (slab_ids (a_root a)) -> w_store w i = st i) /\
  store_ok w SB /\
  ((forall i, In i (slab_ids (a_root a)) -> st i = Some (reg_of a i)) -> store_ok w SA).
Proof.
  intros HT c Hes Ha w. subst w. unfold w_batch.
  pose proof (Batch_proofs.c17_array_batch_fresh T alloc ti es HT Hes) as Hfresh.
  pose proof (Batch_proofs.c17_array_batch_frame T alloc ti es HT Hes) as Hframe.
  pose proof (Batch_proofs.c17_array_batch_ok T alloc ti es HT Hes) as Hres.
  fold c in Hfresh, Hframe, Hres.
  destruct (array_from_batch c alloc ti es) as [b lg] eqn:E. cbn [fst] in Hfresh. cbn zeta in Hfresh.
  destruct Hfresh as (HB & HN & Hlt).
  pose proof (batch_all_stored c alloc ti es b lg Hres) as Hall.
  assert (HaB : forall i, In i (slab_ids (a_root a)) -> i <= alloc).
  { destruct Ha as [_ H]. cbn [with_alloc a_root a_alloc] in H. rewrite Forall_forall in H. intros i Hi. now apply H. }
  assert (Hun : forall i, In i (slab_ids (a_root a)) -> ~ touched lg i).
  { intros i Hi Ht. apply (proj1 (no_removes_last lg (a_alloc b) alloc i Hframe)) in Ht. specialize (HaB i Hi). lia. }
  cbn [w_a w_b w_alloc w_store fst].
  split; [reflexivity|]. split; [reflexivity|]. split; [split; [|split]|].
  - cbn [w_a w_alloc]. eapply ids_ok_mono; [exact Ha|lia].
  - cbn [w_b w_alloc]. split; [exact HN|]. cbn [with_alloc a_root a_alloc].
    eapply Forall_impl; [|exact HB]. cbn beta. intros; lia.
  - intros i Hi Hb. cbn [w_a w_b] in *. rewrite Forall_forall in HB. specialize (HB i Hb). specialize (HaB i Hi). lia.
  - split; [exact Hlt|]. split; [|split].
    + intros i Hi. apply apply_log_untouched. now apply Hun.
    + intros i Hi. cbn [w_get w_b w_store] in *. rewrite apply_log_last.
      now rewrite (proj2 (no_removes_last lg (a_alloc b) alloc i Hframe) (Hall i Hi)).
    + intros Hst i Hi. cbn [w_get w_a w_store] in *. rewrite apply_log_untouched by now apply Hun. now apply Hst.
Qed.

Lemma w_copy_ok pl a alloc st ti w :
  ids_ok (with_alloc a alloc) -> w_copy pl a alloc st ti = Some w ->
  w_a w = a /\ winv w /\ w_alloc w = alloc + 1 /\
  to_list (a_root (w_b w)) = to_list (a_root a) /\ a_type (w_b w) = ti /\ slab_ids (a_root (w_b w)) = [alloc + 1] /\
  (forall i, In i (slab_ids (a_root a)) -> w_store w i = st i) /\
  store_ok w SB /\
  ((forall i, In i (slab_ids (a_root a)) -> st i = Some (reg_of a i)) -> store_ok w SA).
Proof.
  intros Ha. unfold w_copy, copy_array.
  destruct (a_root a) as [h nx es|h hs sums cs] eqn:Er; [|discriminate].
  destruct (negb (nx =? 0)); [discriminate|].
  destruct (forallb (elem_plain pl) es) eqn:Ep; [|discriminate]. cbn [negb].
  intros [= <-]. cbn [w_a w_b w_alloc w_store a_root a_type to_list].
  assert (Hids : slab_ids (AD (mkhdr (alloc + 1) (h_size h) (h_count h)) 0 es) = [alloc + 1]).
  { cbn [slab_ids h_id]. now rewrite (Batch_proofs.plain_no_ext pl es Ep). }
  assert (HaB : forall i, In i (slab_ids (a_root a)) -> i <= alloc).
  { destruct Ha as [_ H]. cbn [with_alloc a_root a_alloc] in H. rewrite Forall_forall in H. intros i Hi. now apply H. }
  assert (Hset : forall X i, In i (slab_ids (a_root a)) -> st_set st (alloc + 1) X i = st i).
  { intros X i Hi. unfold st_set. destruct (N.eqb_spec i (alloc + 1)) as [->|]; [|reflexivity].
    specialize (HaB _ Hi). lia. }
  split; [reflexivity|]. split; [split; [|split]|].
  - cbn [w_a w_alloc]. eapply ids_ok_mono; [exact Ha|lia].
  - cbn [w_b w_alloc]. split; cbn [with_alloc a_root a_alloc]; rewrite Hids; repeat constructor; [intros []|lia|lia].
  - intros i Hi. cbn [w_a w_b a_root]. rewrite Hids. intros [<-|[]]. specialize (HaB _ Hi). lia.
  - split; [reflexivity|]. split; [reflexivity|]. split; [reflexivity|]. split; [exact Hids|]. split; [|split].
    + intros i Hi. rewrite <- Er in Hi. cbn [apply_log]. now apply Hset.
    + intros i. cbn [w_get w_b w_store a_root]. rewrite Hids. intros [<-|[]].
      cbn [apply_log]. unfold st_set. now rewrite N.eqb_refl.
    + intros Hst i Hi. rewrite <- Er in Hst. cbn [w_get w_a w_store apply_log] in *. rewrite Hset by exact Hi. now apply Hst.
Qed.

Section wwf_worlds.
  Variable T : N.
  Hypothesis HT : valid_T T.
  Local Notation c := (set_threshold T).

  Lemma w_new2_wwf alloc ta tb : wwf T (w_new2 alloc ta tb).
  Proof. split; apply (awfl_empty T HT). Qed.

  Lemma w_batch_wwf alloc ti es a st :
    Forall (elem_ok c) es -> N.of_nat (length es) <= max_count -> awfl c a ->
    wwf T (w_batch c a alloc st ti es).
  Proof.
    intros Hes Hn Ha. unfold w_batch.
    pose proof (Batch_proofs.c17_array_batch_full T alloc ti es HT Hes Hn) as Hf.
    destruct (array_from_batch c alloc ti es) as [b lg]. cbn [fst] in Hf.
    split; [exact Ha|]. cbn [w_b]. now apply (awf_full_awfl T HT).
  Qed.

  Lemma w_copy_wwf pl a alloc st ti w :
    awfl c a -> w_copy pl a alloc st ti = Some w -> wwf T w.
  Proof.
    intros Ha. unfold w_copy, copy_array.
    destruct (a_root a) as [h nx es|h hs sums cs] eqn:Er; [|discriminate].
    destruct (negb (nx =? 0)); [discriminate|].
    destruct (forallb (elem_plain pl) es); [|discriminate]. cbn [negb].
    intros [= <-]. split; [exact Ha|]. cbn [w_b].
    destruct Ha as ((Hr & Hc) & _). rewrite Er in Hr. unfold a_count in Hc. rewrite Er in Hc.
    inversion Hr; subst. split; [split|reflexivity]; cbn [a_root].
    - constructor; cbn [h_count h_size]; auto.
    - exact Hc.
  Qed.
End wwf_worlds.

(** * 9. The statement of C17 "independent", in one piece *)
Theorem two_arrays_main T : valid_T T -> let c := set_threshold T in
  forall w, winv w -> wwf T w ->
  forall ops, Forall (fun p : side * aop => aop_ok c (snd p)) ops ->
  let w' := fst (wrun c w ops) in
  winv w' /\ wwf T w' /\ w_alloc w <= w_alloc w' /\
  (forall X, store_ok w X -> store_ok w' X) /\
  (forall X, Forall (fun p : side * aop => fst p = X) ops -> untouched w w' (other X)) /\
  (forall ops1 X o ops2, ops = ops1 ++ (X, o) :: ops2 ->
     untouched (fst (wrun c w ops1)) (fst (wstep c (fst (wrun c w ops1)) X o)) (other X)) /\
  (forall X,
     abs_arr (w_get w' X) = fst (seq_run (abs_arr (w_get w X)) (proj X ops)) /\
     map strip_out (proj_out X ops (snd (wrun c w ops))) = snd (seq_run (abs_arr (w_get w X)) (proj X ops)) /\
     a_rootid (w_get w' X) = a_rootid (w_get w X)).
Proof.
  intros HT c w Hw Hwf ops Hops w'.
  destruct (wrun_inv c ops w Hw) as (H1 & H2 & H3).
  destruct (wrun_refines T HT ops w Hwf Hops) as (H4 & H5).
  split; [exact H1|]. split; [exact H4|]. split; [exact H2|]. split; [exact H3|].
  split; [intros X HX; now apply wrun_one_side|]. split; [|exact H5].
  intros ops1 X o ops2 _. now destruct (wrun_each_step c ops1 w X o Hw) as (_ & _ & H).
Qed.
