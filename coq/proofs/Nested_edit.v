(* Nested_edit.v — a local edit of one container's element list (all mutating operations have this
   shape before they notify the parent): the structural invariant survives and the sizes are
   synchronised except for what depends on the edited container's own size. *)
From Coq Require Import ZArith NArith List Bool Lia Arith.
From AtreeGen Require Import Consts.
From AtreeModel Require Import Nested.
From AtreeProofs Require Import Nested_base Nested_resync Nested_chain.
Import ListNotations.
Local Open Scope N_scope.

(* f3 is f with container t (state c in f) given the element list l' and index map idx3, and,
   if nc = Some (v, w, i, s'), the so far unattached container v placed in slot i = s' of t:
   v's inline flag decided for that slot and v's callback installed. *)
Definition edited (g : ncfg) (f f3 : forest) (t : N) (c : cstate) (l' : list slot) (idx3 : list (N * nat))
           (nc : option (N * N * nat * slot)) : Prop :=
  fget f3 t = Some (mkC (c_kind c) l' (c_inl c) (data_size g f3 (c_kind c) l') (c_upd c) idx3) /\
  (forall x, x <> t -> (forall v w i s', nc = Some (v, w, i, s') -> x <> v) -> fget f3 x = fget f x) /\
  match nc with
  | Some (v, w, i, s') =>
    v <> t /\ s_val s' = NChild v w /\ nth_error l' i = Some s' /\
    exists cv, fget f v = Some cv /\
      fget f3 v = Some (mkC (c_kind cv) (c_slots cv) (inl_size cv <=? slot_lim g (c_kind c) (s_ksz s') w)
                            (c_csize cv) (Some (upd_for g t (c_kind c) s' w)) (c_idx cv))
  | None => True
  end.

(* where the child slots of the new list come from *)
Definition slots_from (c : cstate) (l' : list slot) (idx3 : list (N * nat)) (nc : option (N * N * nat * slot)) : Prop :=
  forall j s v' w', nth_error l' j = Some s -> s_val s = NChild v' w' ->
    (c_kind c = KArr -> aget idx3 v' = Some j) /\
    (nc = Some (v', w', j, s) \/ exists j0, nth_error (c_slots c) j0 = Some s).

Record ectx (n : nat) (g : ncfg) (f f3 : forest) (t : N) (c : cstate) (l' : list slot)
            (idx3 : list (N * nat)) (nc : option (N * N * nat * slot)) : Prop := {
  ec_S : fstruct n g f;
  ec_c : fget f t = Some c;
  ec_E : edited g f f3 t c l' idx3 nc;
  ec_F : slots_from c l' idx3 nc;
  ec_K : c_kind c = KMap -> NoDup (map s_kid l');
  (* the new child was unattached, and a ranking exists with it below t *)
  ec_N : forall v w i s', nc = Some (v, w, i, s') ->
      ~ attached f v /\
      exists lvl : N -> nat,
        (forall x i0 s0 v0 w0, edge f x i0 s0 v0 w0 -> (lvl x < lvl v0)%nat) /\ (lvl t < lvl v)%nat /\ forall x, (lvl x < n)%nat
}.

Ltac ectx_intro X :=
  destruct X as [HS Hc HE HF HK HN];
  pose proof (proj1 HE) as Et; pose proof (proj1 (proj2 HE)) as Eo.

Section edit.
  Variables (n : nat) (g : ncfg).
  Notation CTX := (ectx n g).

  Lemma ed_new_not_old f f3 t c l' idx3 nc (X : CTX f f3 t c l' idx3 nc) v w i s' j s w' :
    nc = Some (v, w, i, s') -> nth_error (c_slots c) j = Some s -> s_val s = NChild v w' -> False.
  Proof.
    ectx_intro X. intros Hnc Hn Hv. destruct (HN _ _ _ _ Hnc) as (Hna & _). apply Hna. exists t, j, s, w', c. auto.
  Qed.

  (* the state of a container other than t in f3, in terms of f *)
  Lemma ed_other_state f f3 t c l' idx3 nc (X : CTX f f3 t c l' idx3 nc) x c3 :
    x <> t -> fget f3 x = Some c3 ->
    exists c0, fget f x = Some c0 /\ c_kind c3 = c_kind c0 /\ c_slots c3 = c_slots c0 /\ c_idx c3 = c_idx c0 /\
               c_csize c3 = c_csize c0 /\
               ((c_inl c3 = c_inl c0 /\ c_upd c3 = c_upd c0 /\ forall v w i s', nc = Some (v, w, i, s') -> x <> v) \/
                (exists w i s', nc = Some (x, w, i, s') /\
                   c_inl c3 = (inl_size c0 <=? slot_lim g (c_kind c) (s_ksz s') w) /\
                   c_upd c3 = Some (upd_for g t (c_kind c) s' w))).
  Proof.
    ectx_intro X. intros Hxt H3. destruct nc as [[[[v w] i] s']|] eqn:Enc.
    - destruct (N.eq_dec x v) as [->|Hxv].
      + destruct HE as (_ & _ & _ & _ & _ & cv & Hcv & Hv3). rewrite Hv3 in H3. injection H3 as <-.
        exists cv. cbn. repeat split; auto. right. exists w, i, s'. auto.
      + rewrite Eo in H3; auto.
        * exists c3. repeat split; auto. left. repeat split; auto. intros ? ? ? ? [= <- _ _ _]. auto.
        * intros ? ? ? ? [= <- _ _ _]. auto.
    - rewrite Eo in H3; auto; [|discriminate]. exists c3. repeat split; auto. left. repeat split; auto. discriminate.
  Qed.

  Lemma ed_edge_t f f3 t c l' idx3 nc (X : CTX f f3 t c l' idx3 nc) j s v' w' :
    edge f3 t j s v' w' ->
    (c_kind c = KArr -> aget idx3 v' = Some j) /\
    (nc = Some (v', w', j, s) \/ exists j0, edge f t j0 s v' w').
  Proof.
    ectx_intro X. intros (c3 & H3 & Hn & Hv). rewrite Et in H3. injection H3 as <-. cbn in Hn.
    destruct (HF j s v' w' Hn Hv) as (Hi & [Hnew|(j0 & Hj0)]); split; auto.
    right. exists j0, c. auto.
  Qed.

  Lemma ed_edge_other f f3 t c l' idx3 nc (X : CTX f f3 t c l' idx3 nc) x j s v' w' : x <> t -> edge f3 x j s v' w' -> edge f x j s v' w'.
  Proof.
    intros Hxt (c3 & H3 & Hn & Hv). destruct (ed_other_state _ _ _ _ _ _ _ X x c3 Hxt H3) as (c0 & H0 & _ & Hsl & _).
    exists c0. rewrite <- Hsl. auto.
  Qed.

  Lemma ed_new_unattached3 f f3 t c l' idx3 nc (X : CTX f f3 t c l' idx3 nc) v w i s' x j s w' :
    nc = Some (v, w, i, s') -> edge f3 x j s v w' -> x = t /\ j = i /\ s = s' /\ w' = w.
  Proof.
    intros Hnc E. pose proof X as X'. ectx_intro X'. destruct (HN _ _ _ _ Hnc) as (Hna & _).
    destruct (N.eq_dec x t) as [->|Hxt].
    - destruct (ed_edge_t _ _ _ _ _ _ _ X _ _ _ _ E) as (_ & [Hnew|(j0 & E0)]).
      + rewrite Hnc in Hnew. injection Hnew as <- <- <-. auto.
      + exfalso. apply Hna. now exists t, j0, s, w'.
    - exfalso. apply Hna. exists x, j, s, w'. eapply ed_edge_other; eauto.
  Qed.

  Lemma edited_ranked f f3 t c l' idx3 nc (X : CTX f f3 t c l' idx3 nc) : ranked n f3.
  Proof.
    pose proof X as X'. ectx_intro X'. destruct nc as [[[[v w] i] s']|] eqn:Enc.
    - destruct (HN _ _ _ _ eq_refl) as (_ & lvl & Hl & Hlt & Hb). exists lvl. split; auto.
      intros p j s v' w' E. destruct (N.eq_dec p t) as [->|Hpt].
      + destruct (ed_edge_t _ _ _ _ _ _ _ X _ _ _ _ E) as (_ & [Hnew|(j0 & E0)]); [|eauto].
        injection Hnew as <- _ _ _. auto.
      + eapply Hl. eapply ed_edge_other; eauto.
    - destruct (st_ranked _ _ _ HS) as (lvl & Hl & Hb). exists lvl. split; auto.
      intros p j s v' w' E. destruct (N.eq_dec p t) as [->|Hpt].
      + destruct (ed_edge_t _ _ _ _ _ _ _ X _ _ _ _ E) as (_ & [Hnew|(j0 & E0)]); [discriminate|eauto].
      + eapply Hl. eapply ed_edge_other; eauto.
  Qed.

  Lemma edited_struct f f3 t c l' idx3 nc (X : CTX f f3 t c l' idx3 nc) : fstruct n g f3.
  Proof.
    pose proof X as X'. ectx_intro X'. split; [| |eapply edited_ranked; eauto].
    - intros p c3 j s v' w' Hp Hn Hv.
      assert (E : edge f3 p j s v' w') by (exists c3; auto).
      destruct (N.eq_dec p t) as [->|Hpt].
      + rewrite Et in Hp. injection Hp as <-. cbn [c_kind c_idx].
        destruct (ed_edge_t _ _ _ _ _ _ _ X _ _ _ _ E) as (Hi & [Hnew|(j0 & E0)]).
        * destruct HE as (_ & _ & Hm). rewrite Hnew in Hm. destruct Hm as (_ & _ & _ & cv & Hcv & Hv3).
          eexists. split; [exact Hv3|]. cbn. auto.
        * destruct (hooked_edge _ _ _ HS _ _ _ _ _ E0) as (c0 & cv & Hp0 & Hn0 & Hcv & Hu & _).
          rewrite Hc in Hp0. injection Hp0 as <-.
          assert (Hvt : v' <> t) by (intros ->; exact (no_self_edge _ _ _ HS _ _ _ _ E0)).
          assert (H3 : fget f3 v' = Some cv).
          { rewrite Eo; auto. intros v w i s' Hnc ->.
            destruct (HN _ _ _ _ Hnc) as (Hna & _). apply Hna. now exists t, j0, s, w'. }
          exists cv. auto.
      + destruct (ed_other_state _ _ _ _ _ _ _ X p c3 Hpt Hp) as (c0 & H0 & Hk & Hsl & Hix & _).
        assert (E0 : edge f p j s v' w') by (exists c0; rewrite <- Hsl; auto).
        destruct (hooked_edge _ _ _ HS _ _ _ _ _ E0) as (c0' & cv & Hp0 & Hn0 & Hcv & Hu & Hi).
        rewrite H0 in Hp0. injection Hp0 as <-.
        rewrite Hk, Hix.
        destruct (N.eq_dec v' t) as [->|Hvt].
        * rewrite Hc in Hcv. injection Hcv as <-. eexists. split; [exact Et|]. cbn. auto.
        * assert (H3 : fget f3 v' = Some cv).
          { rewrite Eo; auto. intros v w i s' Hnc ->. destruct (HN _ _ _ _ Hnc) as (Hna & _). apply Hna. now exists p, j, s, w'. }
          exists cv. auto.
    - intros p c3 Hp Hkm. destruct (N.eq_dec p t) as [->|Hpt].
      + rewrite Et in Hp. injection Hp as <-. cbn in *. auto.
      + destruct (ed_other_state _ _ _ _ _ _ _ X p c3 Hpt Hp) as (c0 & H0 & Hk & Hsl & _). rewrite Hsl. eapply st_keys; eauto. congruence.
  Qed.

  Lemma edited_Zx f f3 t c l' idx3 nc (X : CTX f f3 t c l' idx3 nc) :
    csize_ok g f -> (forall v, inl_ok g f v) -> Zx g f3 t (child_size f t).
  Proof.
    intros Hcs Hio. pose proof X as X'. ectx_intro X'.
    assert (Hsame : forall x, attached f x -> x <> t -> fget f3 x = fget f x).
    { intros x Ha Hxt. apply Eo; auto. intros v w i s' Hnc ->. destruct (HN _ _ _ _ Hnc) as (Hna & _). auto. }
    split; [|split].
    - intros x c3 H3. destruct (N.eq_dec x t) as [->|Hxt].
      + rewrite Et in H3. injection H3 as <-. cbn [c_csize c_kind c_slots]. unfold data_size. rewrite sum_slots_w. f_equal.
        apply sum_w_ext. intros s v'' w'' Hin Hv. unfold ovr.
        destruct (N.eqb_spec v'' t) as [->|]; auto. exfalso.
        destruct (In_nth_error _ _ Hin) as (j & Hj).
        destruct (HF j s t w'' Hj Hv) as (_ & [Hnew|(j0 & Hj0)]).
        * destruct HE as (_ & _ & Hm). rewrite Hnew in Hm. destruct Hm as (Hne & _). congruence.
        * apply (no_self_edge _ _ _ HS t j0 s w''). exists c. auto.
      + destruct (ed_other_state _ _ _ _ _ _ _ X x c3 Hxt H3) as (c0 & H0 & Hk & Hsl & _ & Hcz & _).
        rewrite Hcz, Hk, Hsl, (Hcs x c0 H0). unfold data_size. rewrite sum_slots_w. f_equal.
        apply sum_w_ext. intros s v'' w'' Hin Hv. unfold ovr.
        destruct (N.eqb_spec v'' t) as [->|Hvt]; auto.
        destruct (In_edge _ _ _ _ _ _ H0 Hin Hv) as (j & Ej).
        symmetry. apply child_size_get. apply Hsame; auto. now exists x, j, s, w''.
    - intros v0 Hv0t p c3 i s w cv3 Hp Hn Hv Hcv3.
      assert (E3 : edge f3 p i s v0 w) by (exists c3; auto).
      assert (Hdec : (exists w0 i0 s0, nc = Some (v0, w0, i0, s0)) \/ (forall v w i s', nc = Some (v, w, i, s') -> v0 <> v)).
      { destruct nc as [[[[v w0] i0] s0]|]; [|right; discriminate].
        destruct (N.eq_dec v0 v) as [->|]; [left; eauto|right]. intros ? ? ? ? [= <- _ _ _]. auto. }
      destruct Hdec as [(w0 & i0 & s0 & Hnc)|Hnot].
      + destruct (ed_new_unattached3 _ _ _ _ _ _ _ X _ _ _ _ _ _ _ _ Hnc E3) as (-> & -> & -> & ->).
        rewrite Et in Hp. injection Hp as <-. cbn [c_kind].
        destruct HE as (_ & _ & Hm). rewrite Hnc in Hm. destruct Hm as (_ & _ & _ & cv & Hcv & Hv3).
        rewrite Hv3 in Hcv3. injection Hcv3 as <-. cbn [c_inl]. rewrite N.leb_le. reflexivity.
      + assert (H0 : fget f3 v0 = fget f v0) by (apply Eo; auto).
        rewrite H0 in Hcv3.
        destruct (N.eq_dec p t) as [->|Hpt].
        * destruct (ed_edge_t _ _ _ _ _ _ _ X _ _ _ _ E3) as (_ & [Hnew|(j0 & E0)]).
          { exfalso. eapply Hnot; eauto. }
          rewrite Et in Hp. injection Hp as <-. cbn [c_kind].
          destruct E0 as (c0 & Hc0 & Hn0 & Hv0). rewrite Hc in Hc0. injection Hc0 as <-.
          eapply (Hio v0 t c j0 s w cv3); eauto.
        * destruct (ed_other_state _ _ _ _ _ _ _ X p c3 Hpt Hp) as (c0 & Hp0 & Hk & Hsl & _).
          rewrite Hk. eapply (Hio v0 p c0 i s w cv3); eauto. congruence.
    - intros ct3 H3 Hinl. rewrite Et in H3. injection H3 as <-. cbn in Hinl.
      unfold child_size. now rewrite Hc, Hinl.
  Qed.
End edit.
