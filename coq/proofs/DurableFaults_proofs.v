(* DurableFaults_proofs.v — container-level durability under FAILED commits (C14) and under
   arbitrary schedules (C08); builds on Durable_proofs.v (arrays) and DurableMap_proofs.v (maps).

   Part I (arrays)
     F. histories of array operations and commit ATTEMPTS of either kind with arbitrary fault
        positions ([fop], [frun]): the storage's VIEW under the array's address always holds
        exactly the current array ([frun_inv], [failed_commit_keeps_view]); a final fault-free
        commit of either kind and a re-creation leave a ledger that holds exactly the array after
        ALL operations that precede it ([retry_durable]); any tail of attempts is equivalent to one
        fault-free deterministic commit ([retry_converges_arr]).
     S. schedules: inserting fault-free commits of either kind, cache drops, preloads,
        cache-bypassing reads and re-creations (when nothing is pending) anywhere between the
        storage calls of an array history changes neither the ledger a final commit leaves under
        the array's address nor the loaded tree ([schedule_same_ledger]).
   Part II (maps): F for ordered maps ([mfrun_inv], [mfailed_commit_keeps_view], [mretry_durable])
   and S for ordered maps ([mschedule_same_ledger]). *)
From stdpp Require Import gmap sorting.
From Coq Require Import ZArith NArith List Bool Lia ZifyBool ZifyN ZifyNat Permutation.
From AtreeGen Require Import Consts.
From AtreeModel Require Import Storage StorageSpec Settings ArrayTree ArrayInv Durable.
From AtreeProofs Require Import Storage_proofs Commit_proofs StorageProps_proofs Cache_proofs
  ArrayFrame_proofs Settings_proofs Array_proofs Durable_proofs.
Local Open Scope N_scope.

(** * Part I. Arrays *)

(** ** F. Failed commits *)

(* one item of a history: an array operation, or a commit attempt — ANY commit step of the storage
   model: [SFastCommit fail] / [SNondetCommit order fail], [fail = Some k]: the k-th ledger call of
   the attempt fails *)
Inductive fop : Type := FOp (o : aop) | FTry (cm : sop).

Definition tries_ok (l : list fop) : bool :=
  forallb (fun f => match f with FOp _ => true | FTry cm => is_commit cm end) l.
Definition faops_of (l : list fop) : list aop :=
  flat_map (fun f => match f with FOp o => [o] | FTry _ => [] end) l.

Fixpoint frun (K : slab_codec) (addr : N) (c : cfg) (a : arr) (s : st) (l : list fop) : arr * st :=
  match l with
  | [] => (a, s)
  | FOp o :: r =>
    match a_step c a o with
    | (a1, _, lg) => frun K addr c a1 (fst (run s (sops addr (sval K a1) lg))) r
    end
  | FTry cm :: r => frun K addr c a (fst (step s cm)) r
  end.

(* the final, fault-free commit of either kind *)
Definition final_ok (s : st) (final : sop) : Prop :=
  final = SFastCommit None \/ exists order, final = SNondetCommit order None /\ order_ok s order true = true.

Lemma tries_ok_app l1 l2 : tries_ok (l1 ++ l2) = tries_ok l1 && tries_ok l2.
Proof. apply forallb_app. Qed.

Lemma faops_of_app l1 l2 : faops_of (l1 ++ l2) = faops_of l1 ++ faops_of l2.
Proof. apply flat_map_app. Qed.

Lemma frun_app K addr c : forall l1 l2 a s,
  frun K addr c a s (l1 ++ l2) = frun K addr c (fst (frun K addr c a s l1)) (snd (frun K addr c a s l1)) l2.
Proof.
  induction l1 as [|[o|cm] r IH]; intros l2 a s; [reflexivity| |]; cbn [app frun].
  - destruct (a_step c a o) as [[a1 x] lg]. apply IH.
  - apply IH.
Qed.

Lemma frun_tries K addr c cs : forall a s,
  frun K addr c a s (map FTry cs) = (a, fst (run s cs)).
Proof.
  induction cs as [|cm r IH]; intros a s; [reflexivity|].
  cbn [map frun]. rewrite IH, run_cons. reflexivity.
Qed.

Lemma tries_ok_map_FTry cs : tries_ok (map FTry cs) = forallb is_commit cs.
Proof. induction cs as [|cm r IH]; [reflexivity|]. cbn. rewrite <- IH. reflexivity. Qed.

Lemma faops_of_map_FTry cs : faops_of (map FTry cs) = [].
Proof. induction cs; cbn; auto. Qed.

(* a commit attempt of either kind, failed or not, or refused for its order: the storage stays
   coherent and shows the same slab under every identifier *)
Lemma try_keeps_view s cm : coherent s -> is_commit cm = true ->
  coherent (fst (step s cm)) /\ forall i, view (fst (step s cm)) i = view s i.
Proof. intros Hs Hc. destruct (commit_step_effect s cm (0, 0) Hs Hc) as (H1 & H2 & _). auto. Qed.

(** the storage's view follows the array through operations and commit attempts *)
Theorem frun_inv K Q addr c : Qstep Q -> addr <> 0 -> forall l a s,
  tries_ok l = true -> ainv a -> coherent s -> vrel K Q (view_map s addr) a ->
  ainv (fst (frun K addr c a s l)) /\ coherent (snd (frun K addr c a s l)) /\
  vrel K Q (view_map (snd (frun K addr c a s l)) addr) (fst (frun K addr c a s l)) /\
  fst (frun K addr c a s l) = fst (a_run c a (faops_of l)).
Proof.
  intros HQ Ha. induction l as [|[o|cm] r IH]; intros a s Hl Hinv Hs Hv.
  - cbn. auto.
  - change (faops_of (FOp o :: r)) with (o :: faops_of r). rewrite a_run_cons. cbn [frun fst].
    destruct (a_step c a o) as [[a1 x] lg] eqn:E. cbn [fst].
    destruct (ainv_step _ _ _ _ _ _ Hinv E) as [Hinv1 _].
    apply IH; [exact Hl|exact Hinv1|apply coherent_run, Hs|].
    eapply vrel_step; eauto. apply Hinv.
  - change (faops_of (FTry cm :: r)) with (faops_of r). cbn [frun].
    cbn [tries_ok forallb] in Hl. apply andb_prop in Hl as [Hcm Hl].
    destruct (try_keeps_view s cm Hs Hcm) as [Hc Hvw].
    apply IH; [exact Hl|exact Hinv|exact Hc|].
    eapply vrel_ext; [|exact Hv]. intros id. unfold view_map. symmetry. apply Hvw.
Qed.

(* a fault-free commit of either kind *)
Lemma final_commit_props s final : coherent s -> final_ok s final ->
  coherent (fst (step s final)) /\ (forall i, view (fst (step s final)) i = view s i) /\
  (forall i, is_temp i = false -> base (fst (step s final)) !! i = view s i) /\
  owned_delta_keys (fst (step s final)) = [].
Proof.
  intros Hs [->|(order & -> & Hok)].
  - pose proof (fast_commit_state s Hs) as H. cbn [step].
    destruct (fast_commit s None) as [[s' ok] log]. cbn [fst].
    destruct H as (_ & Hc & Hb & _ & Hv & Ho). split; [exact Hc|]. split; [exact Hv|]. split; [|exact Ho].
    intros i Hi. apply Hb, Hi.
  - pose proof (nondet_commit_state s order Hs Hok) as H. cbn [step]. unfold nondet_commit. rewrite Hok.
    destruct (apply_writes order None s []) as [[s' ok] log]. cbn [fst].
    destruct H as (_ & Hc & Hb & _ & Hv & Ho). split; [exact Hc|]. split; [exact Hv|]. split; [|exact Ho].
    intros i Hi. apply Hb, Hi.
Qed.

Lemma holds_exactly_ext K M1 M2 a : (forall id, M1 id = M2 id) -> holds_exactly K M1 a -> holds_exactly K M2 a.
Proof.
  intros H (H1 & H2 & H3). split; [|split].
  - intros id s Hs. rewrite <- H. eauto.
  - intros id Hx. rewrite <- H. eauto.
  - intros id Hn. rewrite <- !H. eauto.
Qed.

Section arr_faults.
  Variable K : slab_codec.
  Variable T : N.
  Hypothesis HT : valid_T T.
  Variable addr rootid ti : N.
  Hypothesis Ha : addr <> 0.
  Hypothesis Hr : 0 < rootid.
  Variable s0 : st.
  Hypothesis Hs0 : reachable s0.
  Hypothesis Hfresh : forall id, view s0 (addr, id) = None.
  Notation c := (set_threshold T).
  Notation a0 := (fst (arr_init rootid ti)).
  Notation sc := (fst (run s0 (init_sops K addr rootid ti))).

  Lemma frun_from_create l : tries_ok l = true ->
    ainv (fst (frun K addr c a0 sc l)) /\ coherent (snd (frun K addr c a0 sc l)) /\
    vrel K rep_tight (view_map (snd (frun K addr c a0 sc l)) addr) (fst (frun K addr c a0 sc l)) /\
    fst (frun K addr c a0 sc l) = fst (a_run c a0 (faops_of l)).
  Proof.
    intros Hl. pose proof (reachable_coherent _ Hs0) as Hc0.
    apply (frun_inv K rep_tight addr c Qstep_rep_tight Ha l a0 _ Hl (ainv_init rootid ti Hr)).
    - apply coherent_run, Hc0.
    - exact (vrel_create K addr rootid ti s0 Ha Hc0 Hfresh).
  Qed.

  (** C14, view: after ANY history of operations and commit attempts (in particular directly after
      a failed commit) the storage's view under the address holds exactly the current array: a
      reader going through this storage instance gets the tree after all operations, and every
      Retrieve returns the view *)
  Theorem failed_commit_keeps_view l :
    tries_ok l = true -> Forall (aop_ok c) (faops_of l) ->
    let a := fst (a_run c a0 (faops_of l)) in
    let st := frun K addr c a0 sc l in
    fst st = a /\ coherent (snd st) /\
    holds_exactly K (view_map (snd st) addr) a /\
    (forall fuel, (length (tree_ids (a_root a)) < fuel)%nat ->
       load_arr fuel (decode_map K (view_map (snd st) addr)) rootid = Some (a_root a, a_type a)) /\
    (forall id, snd (step (snd st) (SRetrieve (addr, id))) = ORet (view_map (snd st) addr id)).
  Proof.
    intros Hl Hops a st. destruct (frun_from_create l Hl) as (I1 & C1 & V1 & E1).
    fold st in I1, C1, V1, E1. fold a in E1. rewrite E1 in V1.
    split; [exact E1|]. split; [exact C1|]. split; [|split].
    - apply vrel_holds; [apply reach_nodup, Hr|exact V1].
    - intros fuel Hf.
      destruct (reach_load_facts T rootid ti (faops_of l) HT Hr Hops) as (_ & Hid & HN & Hh).
      fold a in Hid, HN, Hh. rewrite <- Hid. apply vrel_load; auto.
      eapply vrel_weaken; [|exact V1]. intros m [R _]. exact R.
    - intros id. apply (retrieve_returns_view (snd st) (addr, id) C1).
  Qed.

  (** C14, durability: a final fault-free commit of either kind, then a brand-new storage: the
      ledger holds exactly the array after all operations of the history, whatever commit attempts
      failed in between *)
  Theorem retry_durable l final :
    tries_ok l = true -> Forall (aop_ok c) (faops_of l) ->
    let a := fst (a_run c a0 (faops_of l)) in
    let st := frun K addr c a0 sc l in
    final_ok (snd st) final ->
    let s2 := fst (step (snd st) final) in
    let s' := fst (step s2 SRecreate) in
    owned_delta_keys s2 = [] /\
    deltas s' = ∅ /\ cache s' = ∅ /\
    (forall id, view s' (addr, id) = base s' !! (addr, id)) /\
    holds_exactly K (ledger_map s' addr) a /\
    forall fuel, (length (tree_ids (a_root a)) < fuel)%nat ->
      load_arr fuel (decode_map K (ledger_map s' addr)) rootid = Some (a_root a, a_type a).
  Proof.
    intros Hl Hops a st Hfin s2 s'.
    destruct (failed_commit_keeps_view l Hl Hops) as (E1 & C1 & H1 & L1 & _). fold a st in E1, C1, H1, L1.
    destruct (final_commit_props (snd st) final C1 Hfin) as (C2 & V2 & B2 & O2). fold s2 in C2, V2, B2, O2.
    destruct (reopen_props s2) as (R1 & R2 & R3 & R4). change (reopen s2) with s' in R1, R2, R3, R4.
    assert (E : forall id, view_map (snd st) addr id = ledger_map s' addr id).
    { intros id. unfold view_map, ledger_map. rewrite R3. symmetry. apply B2. apply not_temp, Ha. }
    split; [exact O2|]. split; [exact R1|]. split; [exact R2|].
    split; [intros id; rewrite R4, R3; reflexivity|]. split.
    - eapply holds_exactly_ext; [exact E|exact H1].
    - intros fuel Hf. rewrite <- (L1 fuel Hf). unfold load_arr, decode_map.
      rewrite <- (E rootid).
      rewrite (load_ext fuel _ (fun id => match match view_map (snd st) addr id with Some v => dec K v | None => None end
                                              with Some x => Some (fst x) | None => None end)); [reflexivity|].
      intros j. rewrite <- (E j). reflexivity.
  Qed.

  (** any tail of commit attempts [cs] followed by the fault-free commit is equivalent to ONE
      fault-free deterministic commit issued instead of them *)
  Theorem retry_converges_arr l cs final :
    tries_ok l = true -> forallb is_commit cs = true ->
    let st := frun K addr c a0 sc l in
    let st' := frun K addr c a0 sc (l ++ map FTry cs) in
    final_ok (snd st') final ->
    fst st' = fst st /\ snd st' = fst (run (snd st) cs) /\
    base (fst (step (snd st') final)) = base (fst (step (snd st) (SFastCommit None))) /\
    deltas (fst (step (snd st') final)) = deltas (fst (step (snd st) (SFastCommit None))).
  Proof.
    intros Hl Hcs st st' Hfin.
    assert (E : st' = (fst st, fst (run (snd st) cs))).
    { unfold st'. rewrite frun_app. fold st. apply frun_tries. }
    rewrite E in *. cbn [fst snd] in *. split; [reflexivity|]. split; [reflexivity|].
    destruct (frun_from_create l Hl) as (_ & C1 & _). fold st in C1.
    destruct (retry_converges_model (snd st) cs final C1 Hcs Hfin) as (B & D & _). auto.
  Qed.
End arr_faults.

(** ** S. Schedules *)

(* an executable check of Cache_proofs.scheduled (for examples) *)
Global Instance sop_eq_dec : EqDecision sop.
Proof. solve_decision. Defined.

Fixpoint schedb (s : st) (cl sch : list sop) : bool :=
  match sch with
  | [] => match cl with [] => true | _ => false end
  | o :: sr =>
    if is_client o then
      match cl with
      | o' :: cr => bool_decide (o = o') && schedb (fst (step s o)) cr sr
      | [] => false
      end
    else is_sched s o && schedb (fst (step s o)) cl sr
  end.

Lemma schedb_sound : forall sch s cl, schedb s cl sch = true -> scheduled s cl sch.
Proof.
  induction sch as [|o sr IH]; intros s cl H.
  - destruct cl; [constructor|discriminate].
  - cbn [schedb] in H. destruct (is_client o) eqn:Ec.
    + destruct cl as [|o' cr]; [discriminate|]. apply andb_prop in H as [H1 H2].
      apply bool_decide_eq_true in H1. subst o'. apply sch_client; [exact Ec|apply IH, H2].
    + apply andb_prop in H as [H1 H2]. apply sch_sched; [exact H1|apply IH, H2].
Qed.

Lemma sops_client addr cont lg : forallb is_client (sops addr cont lg) = true.
Proof. induction lg as [|[i|i] r IH]; cbn; auto. Qed.

Lemma hist_sops_client K addr c : forall ops a, forallb is_client (hist_sops K addr c a ops) = true.
Proof.
  induction ops as [|o r IH]; intros a; [reflexivity|]. cbn [hist_sops].
  destruct (a_step c a o) as [[a1 x] lg]. rewrite forallb_app, sops_client, IH. reflexivity.
Qed.

(* the unscheduled history is a schedule of itself *)
Lemma scheduled_refl : forall cl s, forallb is_client cl = true -> scheduled s cl cl.
Proof.
  induction cl as [|o r IH]; intros s H; [constructor|].
  cbn [forallb] in H. apply andb_prop in H as [H1 H2]. apply sch_client; [exact H1|apply IH, H2].
Qed.

Lemma same_view_refl s : coherent s -> same_view s s.
Proof. intros H. split; [exact H|]. split; [exact H|]. reflexivity. Qed.

(* a fault-free commit of either kind after two histories that leave the same view: same registers
   under every owned address *)
Lemma same_view_final_registers s1 s2 f1 f2 :
  same_view s1 s2 -> final_ok s1 f1 -> final_ok s2 f2 ->
  forall i, is_temp i = false -> base (fst (step s1 f1)) !! i = base (fst (step s2 f2)) !! i.
Proof.
  intros (H1 & H2 & Hv) F1 F2 i Hi.
  destruct (final_commit_props s1 f1 H1 F1) as (_ & _ & B1 & _).
  destruct (final_commit_props s2 f2 H2 F2) as (_ & _ & B2 & _).
  rewrite (B1 i Hi), (B2 i Hi). apply Hv.
Qed.

Section arr_sched.
  Variable K : slab_codec.
  Variable T : N.
  Hypothesis HT : valid_T T.
  Variable addr rootid ti : N.
  Hypothesis Ha : addr <> 0.
  Hypothesis Hr : 0 < rootid.
  Variable s0 : st.
  Hypothesis Hs0 : reachable s0.
  Hypothesis Hfresh : forall id, view s0 (addr, id) = None.
  Notation c := (set_threshold T).
  Notation a0 := (fst (arr_init rootid ti)).

  (** C08, container level.  [cl]: the storage calls of NewArray and of the array history [ops];
      [sch]: the same calls with fault-free commits of either kind, DropCache, BatchPreload,
      cache-bypassing reads and re-creations (only when nothing is pending) inserted at arbitrary
      positions.  A final fault-free commit (of either kind, on either side) leaves the same
      registers under the array's address, they hold exactly the array, and a brand-new storage
      loads the same tree; the answers to the client's calls are the same too. *)
  Theorem schedule_same_ledger ops sch f1 f2 :
    Forall (aop_ok c) ops ->
    let a := fst (a_run c a0 ops) in
    let cl := init_sops K addr rootid ti ++ hist_sops K addr c a0 ops in
    scheduled s0 cl sch ->
    final_ok (fst (run s0 cl)) f1 -> final_ok (fst (run s0 sch)) f2 ->
    let s1 := fst (step (fst (run s0 cl)) f1) in
    let s2 := fst (step (fst (run s0 sch)) f2) in
    client_outs cl (snd (run s0 cl)) = client_outs sch (snd (run s0 sch)) /\
    (forall i, is_temp i = false -> base s1 !! i = base s2 !! i) /\
    (forall id, ledger_map s1 addr id = ledger_map s2 addr id) /\
    holds_exactly K (ledger_map s2 addr) a /\
    forall fuel, (length (tree_ids (a_root a)) < fuel)%nat ->
      load_arr fuel (decode_map K (ledger_map (fst (step s1 SRecreate)) addr)) rootid = Some (a_root a, a_type a) /\
      load_arr fuel (decode_map K (ledger_map (fst (step s2 SRecreate)) addr)) rootid = Some (a_root a, a_type a).
  Proof.
    intros Hops a cl Hsch F1 F2 s1 s2.
    pose proof (reachable_coherent _ Hs0) as Hc0.
    destruct (schedule_transparent s0 cl sch Hsch s0 (same_view_refl s0 Hc0)) as [Hout Hsv].
    pose proof (same_view_final_registers _ _ f1 f2 Hsv F1 F2) as Hreg. fold s1 s2 in Hreg.
    assert (E : forall id, ledger_map s1 addr id = ledger_map s2 addr id).
    { intros id. unfold ledger_map. apply Hreg. apply not_temp, Ha. }
    (* the unscheduled side: [retry_durable] with a history without attempts *)
    pose proof (retry_durable K T HT addr rootid ti Ha Hr s0 Hs0 Hfresh (map FOp ops) f1) as D.
    assert (Eops : faops_of (map FOp ops) = ops).
    { clear. induction ops as [|o r IH]; cbn; [reflexivity|]. f_equal. exact IH. }
    assert (Etr : tries_ok (map FOp ops) = true) by (clear; induction ops; cbn; auto).
    assert (Erun : forall l a1 s, frun K addr c a1 s (map FOp l) = (fst (a_run c a1 l), fst (run s (hist_sops K addr c a1 l)))).
    { clear. induction l as [|o r IH]; intros a1 s; [reflexivity|].
      rewrite a_run_cons. cbn [map frun hist_sops fst].
      destruct (a_step c a1 o) as [[a2 x] lg]. cbn [fst]. rewrite IH, run_app_fst. reflexivity. }
    rewrite Eops in D. specialize (D Etr Hops). cbv zeta in D. rewrite Erun in D. cbn [fst snd] in D.
    rewrite <- run_app_fst in D. fold cl in D. specialize (D F1). fold s1 in D.
    destruct D as (_ & _ & _ & _ & D1 & D2). fold a in D1, D2.
    assert (B1 : forall id, ledger_map (fst (step s1 SRecreate)) addr id = ledger_map s1 addr id) by reflexivity.
    assert (B2 : forall id, ledger_map (fst (step s2 SRecreate)) addr id = ledger_map s2 addr id) by reflexivity.
    split; [exact Hout|]. split; [exact Hreg|]. split; [exact E|]. split.
    - eapply holds_exactly_ext; [|exact D1]. intros id. rewrite B1. apply E.
    - intros fuel Hf. split; [apply D2, Hf|]. rewrite <- (D2 fuel Hf).
      unfold load_arr, decode_map. rewrite B2, B1, <- (E rootid).
      rewrite (load_ext fuel _ (fun id => match match ledger_map (fst (step s1 SRecreate)) addr id with Some v => dec K v | None => None end
                                              with Some x => Some (fst x) | None => None end)); [reflexivity|].
      intros j. rewrite B2, B1, <- (E j). reflexivity.
  Qed.
End arr_sched.

(** * Part II. Ordered maps: failed commits *)
From AtreeModel Require Import MapElems MapElemsInv MapTree MapTreeInv DurableMap.
From AtreeProofs Require Import MapFrame_proofs Map_proofs DurableMap_proofs.

Inductive mfop : Type := MFOp (o : mop) | MFTry (cm : sop).

Definition mtries_ok (l : list mfop) : bool :=
  forallb (fun f => match f with MFOp _ => true | MFTry cm => is_commit cm end) l.
Definition mfops_of (l : list mfop) : list mop :=
  flat_map (fun f => match f with MFOp o => [o] | MFTry _ => [] end) l.

Section map_faults_def.
  Variable dg : N -> nat -> N.
  Variable levels : nat.
  Variable max_inline_elem : N.
  Variable limit : N.
  Variable c : cfg.

  Fixpoint mfrun (K : mslab_codec) (addr : N) (t : mtree) (s : st) (l : list mfop) : mtree * st :=
    match l with
    | [] => (t, s)
    | MFOp o :: r =>
      match mt_step dg levels max_inline_elem limit c t o with
      | (t1, _, lg) => mfrun K addr t1 (fst (run s (msops addr (msval K t1) lg))) r
      end
    | MFTry cm :: r => mfrun K addr t (fst (step s cm)) r
    end.

  Notation mt_run := (mt_run dg levels max_inline_elem limit c).

  Theorem mfrun_inv K addr : addr <> 0 -> forall l t s,
    mtries_ok l = true -> finv t -> coherent s -> mholds_exactly K (view_map s addr) t ->
    finv (fst (mfrun K addr t s l)) /\ coherent (snd (mfrun K addr t s l)) /\
    mholds_exactly K (view_map (snd (mfrun K addr t s l)) addr) (fst (mfrun K addr t s l)) /\
    fst (mfrun K addr t s l) = fst (mt_run t (mfops_of l)).
  Proof.
    intros Ha. induction l as [|[o|cm] r IH]; intros t s Hl Hinv Hs Hv.
    - cbn. auto.
    - change (mfops_of (MFOp o :: r)) with (o :: mfops_of r). rewrite mt_run_cons. cbn [mfrun fst].
      destruct (mt_step dg levels max_inline_elem limit c t o) as [[t1 x] lg] eqn:E. cbn [fst].
      destruct (finv_step _ _ _ _ _ _ _ _ _ _ Hinv E) as [Hinv1 _].
      apply IH; [exact Hl|exact Hinv1|apply coherent_run, Hs|].
      destruct Hinv as (Hok & Sh & _). eapply mholds_step; eauto.
    - change (mfops_of (MFTry cm :: r)) with (mfops_of r). cbn [mfrun].
      cbn [mtries_ok forallb] in Hl. apply andb_prop in Hl as [Hcm Hl].
      destruct (try_keeps_view s cm Hs Hcm) as [Hc Hvw].
      apply IH; [exact Hl|exact Hinv|exact Hc|].
      eapply mholds_ext; [|exact Hv]. intros id. unfold Durable.view_map. symmetry. apply Hvw.
  Qed.
End map_faults_def.

Section map_faults.
  Variable K : mslab_codec.
  Variable T : N.
  Hypothesis HT : valid_T T.
  Variable dg : N -> nat -> N.
  Variable levels : nat.
  Hypothesis Hlv : (1 <= levels)%nat.
  Variable limit : N.
  Variable ks : N -> N.
  Variable addr rootid : N.
  Hypothesis Ha : addr <> 0.
  Hypothesis Hr : 0 < rootid.
  Variable s0 : st.
  Hypothesis Hs0 : reachable s0.
  Hypothesis Hfresh : forall id, view s0 (addr, id) = None.
  Notation c := (set_threshold T).
  Notation M := (cinl_melem (set_threshold T)).
  Notation mt_run := (mt_run dg levels M limit c).
  Notation mfrun := (mfrun dg levels M limit c).
  Notation t0 := (fst (mt_init rootid)).
  Notation sc := (fst (run s0 (minit_sops K addr rootid))).

  (** C14 for maps, view *)
  Theorem mfailed_commit_keeps_view l :
    mtries_ok l = true -> Forall (mop_ok T ks) (mfops_of l) ->
    let t := fst (mt_run t0 (mfops_of l)) in
    let st := mfrun K addr t0 sc l in
    fst st = t /\ coherent (snd st) /\
    mholds_exactly K (view_map (snd st) addr) t /\
    (forall fuel, (mdepth (t_root t) <= fuel)%nat ->
       mload_map fuel (mdecode_map K (view_map (snd st) addr)) rootid = Some (t_root t, t_count t)) /\
    (forall id, snd (step (snd st) (SRetrieve (addr, id))) = ORet (view_map (snd st) addr id)) /\
    to_list_tree (t_root t) = fst (d_run dg levels limit [] (mfops_of l)).
  Proof.
    intros Hl Hops t st. pose proof (reachable_coherent _ Hs0) as Hc0.
    destruct (mfrun_inv dg levels M limit c K addr Ha l t0 sc Hl (finv_init dg levels M rootid Hr)
                (coherent_run _ _ Hc0) (mholds_create dg levels K addr rootid s0 Ha Hc0 Hfresh)) as (I1 & C1 & V1 & E1).
    fold st in I1, C1, V1, E1. fold t in E1. rewrite E1 in V1.
    destruct (mreach_load_facts T dg levels limit ks rootid (mfops_of l) HT Hlv Hr Hops)
      as (_ & Hid & HN & Hh & Hd & _).
    fold t in Hid, HN, Hh, Hd.
    split; [exact E1|]. split; [exact C1|]. split; [exact V1|]. split; [|split; [|exact Hd]].
    - intros fuel Hf. rewrite <- Hid. apply mholds_load; assumption.
    - intros id. apply (retrieve_returns_view (snd st) (addr, id) C1).
  Qed.

  (** C14 for maps, durability *)
  Theorem mretry_durable l final :
    mtries_ok l = true -> Forall (mop_ok T ks) (mfops_of l) ->
    let t := fst (mt_run t0 (mfops_of l)) in
    let st := mfrun K addr t0 sc l in
    final_ok (snd st) final ->
    let s2 := fst (step (snd st) final) in
    let s' := fst (step s2 SRecreate) in
    owned_delta_keys s2 = [] /\
    deltas s' = ∅ /\ cache s' = ∅ /\
    (forall id, view s' (addr, id) = base s' !! (addr, id)) /\
    mholds_exactly K (ledger_map s' addr) t /\
    (forall fuel, (mdepth (t_root t) <= fuel)%nat ->
       mload_map fuel (mdecode_map K (ledger_map s' addr)) rootid = Some (t_root t, t_count t)) /\
    to_list_tree (t_root t) = fst (d_run dg levels limit [] (mfops_of l)).
  Proof.
    intros Hl Hops t st Hfin s2 s'.
    destruct (mfailed_commit_keeps_view l Hl Hops) as (E1 & C1 & H1 & _ & _ & Hd). fold t st in E1, C1, H1, Hd.
    destruct (final_commit_props (snd st) final C1 Hfin) as (C2 & V2 & B2 & O2). fold s2 in C2, V2, B2, O2.
    destruct (reopen_props s2) as (R1 & R2 & R3 & R4). change (reopen s2) with s' in R1, R2, R3, R4.
    assert (HL : mholds_exactly K (ledger_map s' addr) t).
    { eapply mholds_ext; [|exact H1]. intros id. unfold Durable.view_map, Durable.ledger_map.
      rewrite R3. symmetry. apply B2. apply not_temp, Ha. }
    split; [exact O2|]. split; [exact R1|]. split; [exact R2|].
    split; [intros id; rewrite R4, R3; reflexivity|]. split; [exact HL|]. split; [|exact Hd].
    intros fuel Hf.
    destruct (mreach_load_facts T dg levels limit ks rootid (mfops_of l) HT Hlv Hr Hops)
      as (_ & Hid & HN & Hh & _).
    fold t in Hid, HN, Hh. rewrite <- Hid. apply mholds_load; assumption.
  Qed.
End map_faults.

(** ** Ordered maps: schedules *)

Lemma msops_client addr cont lg : forallb is_client (msops addr cont lg) = true.
Proof. induction lg as [|[i|i] r IH]; cbn; auto. Qed.

Lemma mhist_sops_client dg levels mie limit c K addr : forall ops t,
  forallb is_client (mhist_sops dg levels mie limit c K addr t ops) = true.
Proof.
  induction ops as [|o r IH]; intros t; [reflexivity|]. cbn [mhist_sops].
  destruct (mt_step dg levels mie limit c t o) as [[t1 x] lg]. rewrite forallb_app, msops_client, IH. reflexivity.
Qed.

Lemma mfrun_plain dg levels mie limit c K addr : forall ops t s,
  mfrun dg levels mie limit c K addr t s (map MFOp ops) =
  (fst (mt_run dg levels mie limit c t ops), fst (run s (mhist_sops dg levels mie limit c K addr t ops))).
Proof.
  induction ops as [|o r IH]; intros t s; [reflexivity|].
  rewrite mt_run_cons. cbn [map mfrun mhist_sops fst].
  destruct (mt_step dg levels mie limit c t o) as [[t1 x] lg]. cbn [fst]. rewrite IH, run_app_fst. reflexivity.
Qed.

Section map_sched.
  Variable K : mslab_codec.
  Variable T : N.
  Hypothesis HT : valid_T T.
  Variable dg : N -> nat -> N.
  Variable levels : nat.
  Hypothesis Hlv : (1 <= levels)%nat.
  Variable limit : N.
  Variable ks : N -> N.
  Variable addr rootid : N.
  Hypothesis Ha : addr <> 0.
  Hypothesis Hr : 0 < rootid.
  Variable s0 : st.
  Hypothesis Hs0 : reachable s0.
  Hypothesis Hfresh : forall id, view s0 (addr, id) = None.
  Notation c := (set_threshold T).
  Notation M := (cinl_melem (set_threshold T)).
  Notation t0 := (fst (mt_init rootid)).

  (** C08 for maps *)
  Theorem mschedule_same_ledger ops sch f1 f2 :
    Forall (mop_ok T ks) ops ->
    let t := fst (mt_run dg levels M limit c t0 ops) in
    let cl := minit_sops K addr rootid ++ mhist_sops dg levels M limit c K addr t0 ops in
    scheduled s0 cl sch ->
    final_ok (fst (run s0 cl)) f1 -> final_ok (fst (run s0 sch)) f2 ->
    let s1 := fst (step (fst (run s0 cl)) f1) in
    let s2 := fst (step (fst (run s0 sch)) f2) in
    client_outs cl (snd (run s0 cl)) = client_outs sch (snd (run s0 sch)) /\
    (forall i, is_temp i = false -> base s1 !! i = base s2 !! i) /\
    (forall id, ledger_map s1 addr id = ledger_map s2 addr id) /\
    mholds_exactly K (ledger_map s2 addr) t /\
    (forall fuel, (mdepth (t_root t) <= fuel)%nat ->
       mload_map fuel (mdecode_map K (ledger_map (fst (step s2 SRecreate)) addr)) rootid = Some (t_root t, t_count t)) /\
    to_list_tree (t_root t) = fst (d_run dg levels limit [] ops).
  Proof.
    intros Hops t cl Hsch F1 F2 s1 s2.
    pose proof (reachable_coherent _ Hs0) as Hc0.
    destruct (schedule_transparent s0 cl sch Hsch s0 (same_view_refl s0 Hc0)) as [Hout Hsv].
    pose proof (same_view_final_registers _ _ f1 f2 Hsv F1 F2) as Hreg. fold s1 s2 in Hreg.
    assert (E : forall id, ledger_map s1 addr id = ledger_map s2 addr id).
    { intros id. unfold Durable.ledger_map. apply Hreg. apply not_temp, Ha. }
    pose proof (mretry_durable K T HT dg levels Hlv limit ks addr rootid Ha Hr s0 Hs0 Hfresh (map MFOp ops) f1) as D.
    assert (Eops : mfops_of (map MFOp ops) = ops).
    { clear. induction ops as [|o r IH]; cbn; [reflexivity|]. f_equal. exact IH. }
    assert (Etr : mtries_ok (map MFOp ops) = true) by (clear; induction ops; cbn; auto).
    rewrite Eops in D. specialize (D Etr Hops). cbv zeta in D. rewrite mfrun_plain in D. cbn [fst snd] in D.
    rewrite <- run_app_fst in D. fold cl in D. specialize (D F1). fold s1 in D.
    destruct D as (_ & _ & _ & _ & D1 & _ & D3). fold t in D1, D3.
    assert (HL : mholds_exactly K (ledger_map s2 addr) t).
    { eapply mholds_ext; [|exact D1]. intros id. exact (E id). }
    split; [exact Hout|]. split; [exact Hreg|]. split; [exact E|]. split; [exact HL|]. split; [|exact D3].
    intros fuel Hf.
    destruct (mreach_load_facts T dg levels limit ks rootid ops HT Hlv Hr Hops) as (_ & Hid & HN & Hh & _).
    fold t in Hid, HN, Hh. rewrite <- Hid. apply mholds_load; assumption.
  Qed.
End map_sched.
