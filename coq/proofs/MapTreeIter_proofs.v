(* MapTreeIter_proofs.v — iteration across the slabs of an OrderedMap (M5, the map half of C13):
   the read-only sequence [to_list_tree] (leaves left to right) is the element level's sequence on
   the one logical hkeyElements; PopIterate (children from the last to the first, each leaf
   backwards) visits exactly the reverse; the first key of the tree and the next-key hand-off of
   the mutable iterator THROUGH the index slabs ([n_next]: routed child, and when the entry is the
   last of its leaf, the first key of the next sibling subtree) are those of the element level. *)
From Coq Require Import ZArith NArith List Bool Arith Lia ZifyBool ZifyN ZifyNat Sorted.
From AtreeGen Require Import Consts.
From AtreeModel Require Import Settings MapElems MapElemsInv MapTree MapTreeInv.
From AtreeProofs Require Import Settings_proofs ArrayList_lemmas MapElems_proofs MapTree_proofs
  MapRebalance_proofs MapFixup_proofs MapTreeOps_proofs.
Import ListNotations.
Local Open Scope N_scope.
Ltac Zify.zify_post_hook ::= Z.div_mod_to_equations.

(* PopIterate visits the entries in exactly the reverse order of Iterate (no invariant needed) *)
Lemma n_pop_rev : forall n, fst (n_pop n) = rev (to_list_tree n).
Proof.
  induction n as [h nx es|h hs cs IH] using mnode_ind'; cbn [n_pop to_list_tree].
  - apply pop_list_rev.
  - assert (G : forall acc : dict * wlog,
       fst (fold_left (fun (acc : dict * wlog) ch => let '(d, evs) := n_pop ch in
                         (d ++ fst acc, (evs ++ [WRemove (mh_id (hdr_of ch))]) ++ snd acc)) cs acc)
       = rev (flat_map to_list_tree cs) ++ fst acc).
    { induction IH as [|ch r Hch _ IHr]; intros acc; cbn [fold_left flat_map]; [reflexivity|].
      rewrite IHr. destruct (n_pop ch) as [d evs] eqn:E. cbn [fst] in *. rewrite Hch, rev_app_distr, app_assoc. reflexivity. }
    rewrite G. cbn [fst]. apply app_nil_r.
Qed.

Lemma split_len' {A} (els : list A) n m : length els = (n + m)%nat ->
  exists E1 E3, els = E1 ++ E3 /\ length E1 = n /\ length E3 = m.
Proof.
  intros H. exists (firstn n els), (skipn n els). split; [symmetry; apply firstn_skipn|].
  rewrite firstn_length, skipn_length. lia.
Qed.

Lemma sorted_block' A hks B : ssorted (A ++ hks ++ B) -> ssorted hks.
Proof. intros Hs. apply ssorted_app_inv2 in Hs. destruct Hs as (_ & Hs). apply ssorted_app_inv2 in Hs. tauto. Qed.

Section WithT.
Variable dg : N -> nat -> N.
Variable levels : nat.
Variable T : N.
Hypothesis HT : valid_T T.
Hypothesis Hlv : (0 < levels)%nat.
Local Notation c := (set_threshold T).
Local Notation mwfn := (mwfn dg levels c).
Local Notation in_band := (in_band c).
Local Notation kids_ok := (kids_ok dg levels T).
Local Notation ewf_e := (ewf_e dg levels).
Local Notation next_elems := (next_elems dg levels).
Local Notation next_elem := (next_elem dg levels).
Local Notation n_next := (n_next dg levels).
Local Notation nfacts := (nfacts dg levels T HT Hlv).
Local Notation mwfn_0_inv := (mwfn_0_inv dg levels T).
Local Notation mwfn_S_inv := (mwfn_S_inv dg levels T HT Hlv).

Definition hd_key (es : list melem) : option kv := match es with e :: _ => first_key_e e | [] => None end.

Lemma first_key_gtree n : first_key (gtree n) = hd_key (elems_flat n).
Proof. reflexivity. Qed.

Lemma band_elems_nonempty d n : mwfn d n -> in_band n -> elems_flat n <> [].
Proof.
  intros Hw Hb E. destruct (nfacts d n Hw) as (Hl & _ & _ & Hn). specialize (Hn Hb).
  rewrite E in Hl. destruct (keys_of n); [congruence|discriminate].
Qed.

Lemma hd_key_app a b : a <> [] -> hd_key (a ++ b) = hd_key a.
Proof. destruct a; [congruence|reflexivity]. Qed.

(* firstKeyInMapSlab = first key of the logical hkeyElements *)
Lemma first_key_tree_ok : forall d n, mwfn d n -> first_key_tree n = first_key (gtree n).
Proof.
  induction d as [|d IH]; intros n Hw; rewrite first_key_gtree.
  - destruct (mwfn_0_inv _ Hw) as (h & nx & hks & els & -> & _). reflexivity.
  - destruct (mwfn_S_inv _ _ Hw) as (h & cs & -> & (Hws & Hbs) & Hne & _).
    destruct cs as [|c0 r]; [congruence|]. cbn [first_key_tree elems_flat flat_map].
    rewrite (IH c0 (Forall_inv Hws)), first_key_gtree.
    symmetry. apply hd_key_app. eapply band_elems_nonempty; [exact (Forall_inv Hws)|exact (Forall_inv Hbs)].
Qed.

Lemma wf_first_key hks els : Forall2 (ewf_e 0) hks els -> Forall (fun e => first_key_e e <> None) els.
Proof.
  induction 1 as [|h e hks els He _ IH]; constructor; [|exact IH].
  destruct (first_key_spec dg levels) as [FK _]. rewrite (FK _ _ _ He).
  pose proof (ewf_e_nonempty _ _ _ _ _ He). destruct (to_list_e e); cbn in *; [lia|discriminate].
Qed.

(* locality of getElementAndNextKey on a sorted hkeyElements, with the hand-off to the block
   on the right when the entry is the last of its own block *)
Lemma next_elems_local f A hks B EA els EB k sz sz' :
  ssorted (A ++ hks ++ B) -> length EA = length A -> length els = length hks -> length EB = length B ->
  Forall (fun y => y < dg k 0) A -> Forall (fun y => dg k 0 < y) B ->
  Forall (fun e => first_key_e e <> None) els ->
  next_elems (S f) (HKey 0 (A ++ hks ++ B) (EA ++ els ++ EB) sz) 0 k =
  match next_elems (S f) (HKey 0 hks els sz') 0 k with
  | inl e => inl e
  | inr (k0, v0, Some nk) => inr (k0, v0, Some nk)
  | inr (k0, v0, None) => inr (k0, v0, hd_key EB)
  end.
Proof.
  intros Hs LA Le LB FA FB Hfk. set (h := dg k 0) in *.
  pose proof (sorted_block' _ _ _ Hs) as Hs'.
  destruct (hks_split h hks Hs') as [(H1 & H3 & ->)|(H1 & H3 & -> & F1 & F3)].
  - destruct (split_len' els (length H1) (S (length H3))) as (E1 & E3' & -> & L1 & L3).
    { rewrite Le, app_length. reflexivity. }
    destruct E3' as [|e E3]; [discriminate|].
    replace (A ++ (H1 ++ h :: H3) ++ B) with ((A ++ H1) ++ h :: (H3 ++ B)) in * by (rewrite <- !app_assoc; reflexivity).
    replace (EA ++ (E1 ++ e :: E3) ++ EB) with ((EA ++ E1) ++ e :: (E3 ++ EB)) by (rewrite <- !app_assoc; reflexivity).
    rewrite (next_HKey_found dg levels f 0 (A ++ H1) h (H3 ++ B) (EA ++ E1) e (E3 ++ EB));
      [|assumption|assumption|rewrite !app_length; lia|reflexivity].
    rewrite (next_HKey_found dg levels f 0 H1 h H3 E1 e E3); [|assumption|assumption|assumption|reflexivity].
    destruct (next_elem f e 0 k) as [|[[k0 v0] [nk|]]]; try reflexivity.
    destruct E3 as [|e2 E3]; [reflexivity|]. cbn [app].
    apply Forall_app in Hfk. destruct Hfk as (_ & Hfk). apply Forall_inv_tail, Forall_inv in Hfk.
    destruct (first_key_e e2); [reflexivity|congruence].
  - replace (A ++ (H1 ++ H3) ++ B) with ((A ++ H1) ++ (H3 ++ B)) in * by (rewrite <- !app_assoc; reflexivity).
    rewrite (next_HKey_notfound dg levels f 0 (A ++ H1) (H3 ++ B));
      [|assumption|assumption|apply Forall_app; split; assumption|apply Forall_app; split; assumption].
    rewrite (next_HKey_notfound dg levels f 0 H1 H3); try assumption. reflexivity.
Qed.

Lemma n_next_MM h hs cs k :
  n_next (MM h hs cs) k =
  match route_get hs (dg k 0) with
  | None => inl EKeyNotFound
  | Some i =>
    match on_kth (fun ch => n_next ch k) cs i with
    | None => inl EInternal
    | Some (inl e) => inl e
    | Some (inr (k0, v0, Some nk)) => inr (k0, v0, Some nk)
    | Some (inr (k0, v0, None)) =>
      match nth_error cs (S i) with
      | Some c2 => inr (k0, v0, first_key_tree c2)
      | None => inr (k0, v0, None)
      end
    end
  end.
Proof. reflexivity. Qed.

(* getElementAndNextKey through the index slabs = the element level on the logical hkeyElements *)
Theorem n_next_ok : forall d n k, mwfn d n ->
  n_next n k = next_elems (op_fuel levels) (gtree n) 0 k.
Proof.
  induction d as [|d IH]; intros n k Hw.
  - destruct (mwfn_0_inv _ Hw) as (h & nx & hks & els & -> & _). reflexivity.
  - destruct (mwfn_S_inv _ _ Hw) as (h & cs & -> & Hk & Hne & Hsz & Hf & Hs).
    rewrite n_next_MM. unfold gtree. cbn [keys_of elems_flat]. rewrite op_fuel_S'.
    destruct (route_split dg levels T HT Hlv d cs (dg k 0) Hk Hne Hs)
      as (pre & ch & post & -> & Hr & FA & FB & [Hg|(Hg & -> & Fch)]).
    + rewrite Hg, on_kth_app.
      destruct Hk as (Hws & Hbs).
      destruct (kids_split dg levels T d pre ch post Hws Hbs) as (Kpre & Wch & Bch & Kpost).
      rewrite (IH ch k Wch). unfold gtree. rewrite op_fuel_S'.
      rewrite !flat_mid1 in *.
      destruct (nfacts d ch Wch) as (Lch & _).
      destruct (mwfn_flat dg levels T HT Hlv d ch Wch) as (HF2 & _).
      rewrite (next_elems_local (3 * levels + 3) (flat_map keys_of pre) (keys_of ch) (flat_map keys_of post)
                 (flat_map elems_flat pre) (elems_flat ch) (flat_map elems_flat post) k _
                 (hk_recompute (elems_flat ch)) Hs
                 (eq_sym (flat_len dg levels T HT Hlv d pre (proj1 Kpre))) (eq_sym Lch)
                 (eq_sym (flat_len dg levels T HT Hlv d post (proj1 Kpost))) FA FB (wf_first_key _ _ HF2)).
      destruct (MapElems.next_elems dg levels (S (3 * levels + 3)) (HKey 0 (keys_of ch) (elems_flat ch) (hk_recompute (elems_flat ch))) 0 k)
        as [e|[[k0 v0] [nk|]]]; try reflexivity.
      rewrite (nth_error_at_S (length pre) pre ch post) by reflexivity.
      destruct post as [|c2 post']; [reflexivity|]. cbn [nth_error flat_map].
      destruct Kpost as (Wp & Bp).
      rewrite (first_key_tree_ok d c2 (Forall_inv Wp)), first_key_gtree.
      rewrite hd_key_app; [reflexivity|].
      eapply band_elems_nonempty; [exact (Forall_inv Wp)|exact (Forall_inv Bp)].
    + rewrite Hg. symmetry. apply (next_HKey_notfound dg levels _ 0 []); auto.
      cbn [app flat_map] in *. apply Forall_app. split; assumption.
Qed.

Lemma iter_next_tree_eq n :
  (forall k, n_next n k = next_elems (op_fuel levels) (gtree n) 0 k) -> forall fuel cur,
  iter_next_tree dg levels fuel n cur = iter_next dg levels fuel (gtree n) cur.
Proof.
  intros Hn. induction fuel as [|f IH]; intros [k|]; try reflexivity.
  cbn [iter_next_tree iter_next]. rewrite (Hn (kid k)).
  destruct (next_elems (op_fuel levels) (gtree n) 0 (kid k)) as [|[[k0 v0] nk]]; [reflexivity|].
  rewrite IH. reflexivity.
Qed.

Theorem iter_next_tree_ok d n : mwfn d n -> forall fuel cur,
  iter_next_tree dg levels fuel n cur = iter_next dg levels fuel (gtree n) cur.
Proof.
  intros Hw. induction fuel as [|f IH]; intros [k|]; try reflexivity.
  cbn [iter_next_tree iter_next]. rewrite (n_next_ok d n (kid k) Hw).
  destruct (next_elems (op_fuel levels) (gtree n) 0 (kid k)) as [|[[k0 v0] nk]]; [reflexivity|].
  rewrite IH. reflexivity.
Qed.

End WithT.
