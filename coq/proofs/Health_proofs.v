(* Health_proofs.v — the health check (model Health.v) accepts exactly the healthy graphs. *)
From stdpp Require Import gmap sorting.
From Coq Require Import ZArith NArith Lia.
From AtreeModel Require Import Storage Health.

(** * Graph vocabulary *)

(* [edge g p c]: the slab p is present and holds a reference to c *)
Definition edge (g : graph) (p c : sid) : Prop := exists rs, g !! p = Some rs /\ c ∈ rs.

Definition present (g : graph) (x : sid) : Prop := is_Some (g !! x).

Definition no_dangling (g : graph) : Prop := forall p c, edge g p c -> present g c.
(* a slab is referenced at most once: never from two slabs, never twice from one slab *)
Definition single_parent (g : graph) : Prop :=
  (forall p1 p2 c, edge g p1 c -> edge g p2 c -> p1 = p2) /\
  (forall p rs, g !! p = Some rs -> NoDup rs).
Definition same_owner (g : graph) : Prop := forall p c, edge g p c -> owner c = owner p.
Definition unreferenced (g : graph) (x : sid) : Prop := forall p, ~ edge g p x.
Definition roots_are_unreferenced (g : graph) (roots : list sid) : Prop :=
  NoDup roots /\ forall r, r ∈ roots <-> present g r /\ unreferenced g r.
(* every slab hangs below a root: finite depth, in particular no cycle *)
Definition rooted (g : graph) (roots : list sid) : Prop :=
  forall x, present g x -> exists r, r ∈ roots /\ rtc (edge g) r x.

Record healthy (g : graph) (roots : list sid) : Prop := mk_healthy {
  h_nodangling : no_dangling g;
  h_single : single_parent g;
  h_owner : same_owner g;
  h_roots : roots_are_unreferenced g roots;
  h_rooted : rooted g roots
}.

Lemma edge_refs_of g p c : edge g p c <-> c ∈ refs_of g p.
Proof.
  unfold edge, refs_of. split.
  - intros (rs & -> & H). exact H.
  - destruct (g !! p) as [rs|]; cbn; [eauto|]. intros H. inversion H.
Qed.

(** * The scan loop *)

Lemma scan_refs_spec id rs : forall par par',
  scan_refs id rs par = Some par' ->
  NoDup rs /\ (forall c, c ∈ rs -> par !! c = None) /\
  (forall c, par' !! c = if decide (c ∈ rs) then Some id else par !! c).
Proof.
  induction rs as [|c rs IH]; intros par par' H; cbn in H.
  - inversion H; subst. split; [constructor|]. split; [intros c Hc; inversion Hc|].
    intros c. destruct (decide (c ∈ [])) as [Hc|]; [inversion Hc|reflexivity].
  - destruct (par !! c) eqn:Hc; [discriminate|].
    apply IH in H as (Hnd & Hnone & Hl).
    assert (c ∉ rs) as Hcn.
    { intros Hin. apply Hnone in Hin. rewrite lookup_insert in Hin. discriminate. }
    split; [constructor; assumption|]. split.
    + intros x Hx. apply elem_of_cons in Hx as [->|Hx]; [exact Hc|].
      specialize (Hnone x Hx). destruct (decide (x = c)) as [->|Hne]; [exact Hc|].
      rewrite lookup_insert_ne in Hnone by congruence. exact Hnone.
    + intros x. rewrite Hl. destruct (decide (x ∈ rs)) as [Hx|Hx].
      * rewrite decide_True by (apply elem_of_cons; auto). reflexivity.
      * destruct (decide (x = c)) as [->|Hne].
        -- rewrite decide_True by (apply elem_of_cons; auto). apply lookup_insert.
        -- rewrite decide_False by (rewrite elem_of_cons; tauto).
           apply lookup_insert_ne. congruence.
Qed.

Lemma scan_refs_complete id rs : forall par,
  NoDup rs -> (forall c, c ∈ rs -> par !! c = None) -> is_Some (scan_refs id rs par).
Proof.
  induction rs as [|c rs IH]; intros par Hnd Hnone; cbn; [eauto|].
  apply NoDup_cons in Hnd as [Hc Hnd].
  rewrite (Hnone c) by (apply elem_of_cons; auto).
  apply IH; [assumption|]. intros x Hx.
  rewrite lookup_insert_ne by (intros ->; contradiction).
  apply Hnone, elem_of_cons; auto.
Qed.

(* what the three variables of the scan loop hold after the slabs [done] *)
Record scan_inv (g : graph) (done : list sid) (s : scan_st) : Prop := mk_scan_inv {
  si_nodup : NoDup done;
  si_slabs : forall x, x ∈ sc_slabs s <-> x ∈ done;
  si_par : forall c p, sc_par s !! c = Some p <-> p ∈ done /\ c ∈ refs_of g p;
  si_refs_nodup : forall p, p ∈ done -> NoDup (refs_of g p);
  si_leaves : sc_leaves s = filter (fun x => refs_of g x = []) done
}.

Lemma scan_inv_init g : scan_inv g [] scan_init.
Proof.
  split; cbn.
  - constructor.
  - intros x. rewrite elem_of_nil. set_solver.
  - intros c p. rewrite lookup_empty, elem_of_nil. split; [discriminate|tauto].
  - intros p Hp. inversion Hp.
  - reflexivity.
Qed.

Lemma leaves_step (rs : list sid) (ls : list sid) (id : sid) :
  match rs with [] => ls ++ [id] | _ => ls end =
  ls ++ (if decide (rs = []) then [id] else []).
Proof. destruct rs; cbn; [reflexivity|]. rewrite app_nil_r. reflexivity. Qed.

Lemma scan_sound g order : forall s done s',
  scan_inv g done s -> scan g order s = inr s' -> scan_inv g (done ++ order) s'.
Proof.
  induction order as [|id rest IH]; intros s done s' Hinv H; cbn in H.
  - inversion H; subst. rewrite app_nil_r. exact Hinv.
  - destruct (decide (id ∈ sc_slabs s)) as [|Hid]; [discriminate|].
    destruct (scan_refs id (refs_of g id) (sc_par s)) as [par'|] eqn:Hsr; [|discriminate].
    apply scan_refs_spec in Hsr as (Hnd & Hnone & Hl).
    destruct Hinv as [I1 I2 I3 I4 I5].
    rewrite (cons_middle id done rest), app_assoc.
    eapply IH; [|exact H]. clear IH H.
    assert (id ∉ done) as Hid' by (rewrite <- I2; exact Hid).
    split; cbn.
    + apply NoDup_app. split; [exact I1|]. split; [|apply NoDup_singleton].
      intros x Hx Hx'. apply elem_of_list_singleton in Hx'. subst. contradiction.
    + intros x. rewrite elem_of_union, elem_of_singleton, elem_of_app, elem_of_list_singleton, I2. tauto.
    + intros c p. rewrite Hl, elem_of_app, elem_of_list_singleton.
      destruct (decide (c ∈ refs_of g id)) as [Hc|Hc].
      * split.
        -- intros [= <-]. auto.
        -- intros [[Hp| ->] Hcp]; [|reflexivity].
           assert (sc_par s !! c = Some p) as E by (apply I3; auto).
           rewrite (Hnone c Hc) in E. discriminate.
      * rewrite I3. split; [tauto|]. intros [[Hp| ->] Hcp]; [auto|contradiction].
    + intros p Hp. apply elem_of_app in Hp as [Hp|Hp]; [auto|].
      apply elem_of_list_singleton in Hp. subst. exact Hnd.
    + rewrite leaves_step, I5, filter_app. f_equal.
Qed.

Lemma scan_complete g order : forall s done,
  scan_inv g done s -> NoDup (done ++ order) ->
  (forall p, p ∈ order -> NoDup (refs_of g p)) ->
  (forall p1 p2 c, p1 ∈ done ++ order -> p2 ∈ done ++ order ->
                   c ∈ refs_of g p1 -> c ∈ refs_of g p2 -> p1 = p2) ->
  exists s', scan g order s = inr s'.
Proof.
  induction order as [|id rest IH]; intros s done Hinv Hnd Hrs Huniq; cbn; [eauto|].
  assert (id ∉ done) as Hid.
  { apply NoDup_app in Hnd as (_ & Hd & _). intros Hin. apply (Hd id Hin), elem_of_cons; auto. }
  rewrite decide_False by (rewrite (si_slabs _ _ _ Hinv); exact Hid).
  destruct (scan_refs_complete id (refs_of g id) (sc_par s)) as [par' Hsr].
  { apply Hrs, elem_of_cons; auto. }
  { intros c Hc. destruct (sc_par s !! c) as [p|] eqn:E; [|reflexivity].
    apply (si_par _ _ _ Hinv) in E as [Hp Hcp].
    assert (p = id) as ->; [|contradiction].
    apply (Huniq p id c); [apply elem_of_app; auto|apply elem_of_app; right; apply elem_of_cons; auto|assumption..]. }
  rewrite Hsr.
  pose proof (scan_sound g [id] s done) as Hstep. cbn in Hstep.
  rewrite decide_False in Hstep by (rewrite (si_slabs _ _ _ Hinv); exact Hid).
  rewrite Hsr in Hstep. specialize (Hstep _ Hinv eq_refl).
  rewrite (cons_middle id done rest), app_assoc in Hnd, Huniq.
  eapply IH; [exact Hstep|exact Hnd| |exact Huniq].
  intros p Hp. apply Hrs, elem_of_cons; auto.
Qed.

(** * Small set facts *)

Lemma gset_subseteq_size_eq (X Y : gset sid) : X ⊆ Y -> size X = size Y -> forall y, y ∈ Y -> y ∈ X.
Proof.
  intros Hsub Hsz y Hy. destruct (decide (y ∈ X)) as [|Hn]; [assumption|exfalso].
  assert (X ⊆ Y ∖ {[y]}) as H1 by set_solver.
  apply subseteq_size in H1. rewrite size_difference in H1 by set_solver.
  rewrite size_singleton in H1.
  assert (size Y ≠ 0) by (apply size_non_empty_iff; set_solver). lia.
Qed.

Lemma size_elements_length (X : gset sid) : length (elements X) = size X.
Proof. reflexivity. Qed.

(** * The walk from a leaf to a root *)

Section walk.
  Context (g : graph) (par : gmap sid sid).

  (* [upc x k r]: following k parent links from x arrives at r, which has no parent; every
     link passes the checks of the Go loop (both ends retrievable, same owner) *)
  Inductive upc : sid -> nat -> sid -> Prop :=
  | upc0 x : par !! x = None -> upc x 0 x
  | upcS x p k r : par !! x = Some p -> present g x -> present g p -> owner x = owner p ->
                   upc p k r -> upc x (S k) r.

  (* [anc y x]: y is x or one of its ancestors *)
  Inductive anc : sid -> sid -> Prop :=
  | anc_refl x : anc x x
  | anc_step y x p : par !! x = Some p -> anc y p -> anc y x.

  Lemma upc_fun x k r : upc x k r -> forall k' r', upc x k' r' -> k = k' /\ r = r'.
  Proof.
    induction 1 as [x Hx|x p k r Hx _ _ _ _ IH]; intros k' r' H'; inversion H'; subst; try congruence; auto.
    match goal with H1 : par !! x = Some ?q, H2 : upc ?q _ _ |- _ =>
      assert (q = p) by congruence; subst; destruct (IH _ _ H2) as [-> ->]; auto end.
  Qed.

  Lemma upc_root x k r : upc x k r -> par !! r = None.
  Proof. induction 1; assumption. Qed.

  Lemma upc_present x k r : upc x k r -> present g x -> present g r.
  Proof. induction 1; auto. Qed.

  Lemma anc_upc y x : anc y x -> forall k r, upc x k r -> exists j, j <= k /\ upc y j r.
  Proof.
    induction 1 as [x|y x p Hx _ IH]; intros k r Hu; [exists k; auto|].
    inversion Hu; subst; [congruence|].
    match goal with H1 : par !! x = Some ?q, H2 : upc ?q _ _ |- _ =>
      assert (q = p) by congruence; subst; destruct (IH _ _ H2) as (j & Hj & Hy) end.
    exists j. split; [lia|assumption].
  Qed.

  Lemma anc_trans z y x : anc y x -> anc z y -> anc z x.
  Proof. induction 1; intros Hz; [assumption|]. eapply anc_step; eauto. Qed.

  Lemma anc_inv y x : anc y x -> y = x \/ exists c, par !! c = Some y.
  Proof.
    induction 1 as [x|y x p Hx H IH]; [auto|]. right.
    destruct IH as [->|IH]; [eauto|assumption].
  Qed.

  Lemma anc_root y x : par !! x = None -> anc y x -> y = x.
  Proof. intros Hx H. inversion H; subst; [reflexivity|congruence]. Qed.

  Lemma walk_up_sound fuel : forall x vis v' r,
    walk_up fuel g par x vis = inr (v', r) -> x ∈ vis ->
    exists k, k < fuel /\ upc x k r /\ forall y, y ∈ v' <-> y ∈ vis \/ anc y x.
  Proof.
    induction fuel as [|f IH]; intros x vis v' r H Hx; cbn in H; [discriminate|].
    destruct (par !! x) as [p|] eqn:Hp.
    - destruct (g !! x) as [rx|] eqn:Hgx; [|discriminate].
      destruct (g !! p) as [rp|] eqn:Hgp; [|discriminate].
      destruct (N.eqb (owner x) (owner p)) eqn:Ho; [|discriminate].
      apply N.eqb_eq in Ho.
      apply IH in H as (k & Hk & Hu & Hv); [|set_solver].
      exists (S k). split; [lia|]. split.
      + eapply upcS; eauto; red; eauto.
      + intros y. rewrite Hv, elem_of_union, elem_of_singleton. split.
        * intros [[->|Hy]|Hy]; [right|auto|right].
          -- eapply anc_step; [exact Hp|apply anc_refl].
          -- eapply anc_step; eauto.
        * intros [Hy|Hy]; [auto|]. inversion Hy; subst; [auto|].
          simplify_eq. auto.
    - inversion H; subst. exists 0. split; [lia|]. split; [apply upc0; exact Hp|].
      intros y. split; [auto|]. intros [Hy|Hy]; [assumption|].
      apply (anc_root _ _ Hp) in Hy. subst. assumption.
  Qed.

  Lemma walk_up_complete fuel : forall x vis k r,
    upc x k r -> k < fuel -> exists res, walk_up fuel g par x vis = inr res.
  Proof.
    induction fuel as [|f IH]; intros x vis k r Hu Hk; [lia|]. cbn.
    destruct Hu as [x Hx|x p k r Hx [rx Hgx] [rp Hgp] Ho Hu].
    - rewrite Hx. eauto.
    - rewrite Hx, Hgx, Hgp, (proj2 (N.eqb_eq _ _) Ho). eapply IH; [eassumption|lia].
  Qed.

  Lemma walk_leaves_sound fuel : forall ls vis roots v' roots',
    walk_leaves fuel g par ls vis roots = inr (v', roots') ->
    (forall l, l ∈ ls -> exists k r, k < fuel /\ upc l k r) /\
    (forall y, y ∈ v' <-> y ∈ vis \/ exists l, l ∈ ls /\ anc y l) /\
    (forall r, r ∈ roots' <-> r ∈ roots \/ exists l k, l ∈ ls /\ upc l k r).
  Proof.
    induction ls as [|l ls IH]; intros vis roots v' roots' H; cbn in H.
    - inversion H; subst. split; [intros l Hl; inversion Hl|].
      split; intros y; (split; [auto|]); intros [Hy|Hy]; auto.
      + destruct Hy as (l & Hl & _). inversion Hl.
      + destruct Hy as (l & k & Hl & _). inversion Hl.
    - destruct (decide (l ∈ vis)) as [|Hl]; [discriminate|].
      destruct (walk_up fuel g par l ({[l]} ∪ vis)) as [e|[v1 r1]] eqn:Hw; [discriminate|].
      apply walk_up_sound in Hw as (k & Hk & Hu & Hv1); [|set_solver].
      apply IH in H as (H1 & H2 & H3).
      split; [|split].
      + intros x Hx. apply elem_of_cons in Hx as [->|Hx]; eauto.
      + intros y. rewrite H2, Hv1, elem_of_union, elem_of_singleton. split.
        * intros [[[->|Hy]|Hy]|(x & Hx & Hy)]; [right|auto|right|right].
          -- exists l. split; [apply elem_of_cons; auto|apply anc_refl].
          -- exists l. split; [apply elem_of_cons; auto|assumption].
          -- exists x. split; [apply elem_of_cons; auto|assumption].
        * intros [Hy|(x & Hx & Hy)]; [auto|].
          apply elem_of_cons in Hx as [->|Hx]; [auto|]. right. eauto.
      + intros r. rewrite H3, elem_of_union, elem_of_singleton. split.
        * intros [[->|Hr]|(x & j & Hx & Hr)]; [right|auto|right].
          -- exists l, k. split; [apply elem_of_cons; auto|assumption].
          -- exists x, j. split; [apply elem_of_cons; auto|assumption].
        * intros [Hr|(x & j & Hx & Hr)]; [auto|].
          apply elem_of_cons in Hx as [->|Hx]; [|right; eauto].
          left. left. destruct (upc_fun _ _ _ Hu _ _ Hr) as [_ ->]. reflexivity.
  Qed.

  Lemma walk_leaves_complete fuel : forall ls vis roots,
    NoDup ls -> (forall l, l ∈ ls -> exists k r, k < fuel /\ upc l k r) ->
    (forall l, l ∈ ls -> l ∉ vis) ->
    (forall l l', l ∈ ls -> l' ∈ ls -> anc l l' -> l = l') ->
    exists res, walk_leaves fuel g par ls vis roots = inr res.
  Proof.
    induction ls as [|l ls IH]; intros vis roots Hnd Hup Hvis Hanc; cbn; [eauto|].
    apply NoDup_cons in Hnd as [Hl Hnd].
    rewrite decide_False by (apply Hvis, elem_of_cons; auto).
    destruct (Hup l) as (k & r & Hk & Hu); [apply elem_of_cons; auto|].
    destruct (walk_up_complete fuel l ({[l]} ∪ vis) k r Hu Hk) as [[v1 r1] Hw].
    rewrite Hw. apply walk_up_sound in Hw as (_ & _ & _ & Hv1); [|set_solver].
    apply IH; [assumption| | |].
    - intros x Hx. apply Hup, elem_of_cons; auto.
    - intros x Hx. rewrite Hv1, elem_of_union, elem_of_singleton.
      intros [[->|Hx']|Hx'].
      + contradiction.
      + apply (Hvis x); [apply elem_of_cons; auto|assumption].
      + assert (x = l) as ->; [|contradiction].
        apply Hanc; [apply elem_of_cons; auto|apply elem_of_cons; auto|assumption].
    - intros x x' Hx Hx'. apply Hanc; apply elem_of_cons; auto.
  Qed.

  (** depth bound: the ancestors of a slab at depth k are k+1 distinct slabs *)
  Lemma upc_chain_set x k r : upc x k r -> present g x ->
    exists X : gset sid, size X = S k /\
      forall y, y ∈ X -> present g y /\ exists j r', j <= k /\ upc y j r'.
  Proof.
    induction 1 as [x Hx|x p k r Hx Hgx Hgp Ho Hu IH]; intros Hpx.
    - exists {[x]}. split; [apply size_singleton|].
      intros y Hy. apply elem_of_singleton in Hy. subst. split; [assumption|].
      exists 0, x. split; [lia|apply upc0; assumption].
    - destruct (IH Hgp) as (X & Hsz & HX).
      assert (x ∉ X) as Hnx.
      { intros Hin. destruct (HX x Hin) as (_ & j & r' & Hj & Hu').
        assert (upc x (S k) r) as Hu2 by (eapply upcS; eauto).
        destruct (upc_fun _ _ _ Hu2 _ _ Hu'). lia. }
      exists ({[x]} ∪ X). split.
      + rewrite size_union by set_solver. rewrite size_singleton, Hsz. reflexivity.
      + intros y Hy. apply elem_of_union in Hy as [Hy|Hy].
        * apply elem_of_singleton in Hy. subst. split; [assumption|].
          exists (S k), r. split; [lia|eapply upcS; eauto].
        * destruct (HX y Hy) as (Hpy & j & r' & Hj & Hu'). split; [assumption|].
          exists j, r'. split; [lia|assumption].
  Qed.

  Lemma upc_bound x k r : upc x k r -> present g x -> k < size (dom g).
  Proof.
    intros Hu Hx. destruct (upc_chain_set x k r Hu Hx) as (X & Hsz & HX).
    assert (X ⊆ dom g) as Hsub.
    { intros y Hy. apply elem_of_dom. apply (HX y Hy). }
    apply subseteq_size in Hsub. lia.
  Qed.
End walk.

(** * After a successful scan *)

Definition slabs (g : graph) : list sid := elements (dom g).

Lemma slabs_spec g x : x ∈ slabs g <-> present g x.
Proof. unfold slabs, present. rewrite elem_of_elements. apply elem_of_dom. Qed.

Lemma slabs_NoDup g : NoDup (slabs g).
Proof. unfold slabs. apply NoDup_elements. Qed.

Lemma missing_ref_spec (sl : gset sid) (par : gmap sid sid) :
  missing_ref sl par = false <-> forall c p, par !! c = Some p -> c ∈ sl.
Proof.
  unfold missing_ref. rewrite <- not_true_iff_false, existsb_exists. split.
  - intros Hn c p Hcp. destruct (decide (c ∈ sl)) as [|Hc]; [assumption|]. exfalso. apply Hn.
    exists c. split.
    + apply in_map_iff. exists (c, p). split; [reflexivity|].
      apply elem_of_list_In, elem_of_map_to_list. exact Hcp.
    + rewrite bool_decide_eq_false_2 by exact Hc. reflexivity.
  - intros H (c & Hin & Hb). apply in_map_iff in Hin as ([c' p] & E & Hin). cbn in E. subst c'.
    apply elem_of_list_In, elem_of_map_to_list in Hin.
    rewrite bool_decide_eq_true_2 in Hb by (eapply H; eauto). discriminate.
Qed.

Section after_scan.
  Context (g : graph) (order : list sid) (s : scan_st).
  Context (Hperm : order ≡ₚ slabs g) (Hinv : scan_inv g order s).

  Lemma order_present x : x ∈ order <-> present g x.
  Proof. rewrite Hperm. apply slabs_spec. Qed.

  Lemma par_edge c p : sc_par s !! c = Some p <-> edge g p c.
  Proof.
    rewrite (si_par _ _ _ Hinv), <- edge_refs_of, order_present. split; [tauto|].
    intros H. split; [|assumption]. destruct H as (rs & H & _). red. eauto.
  Qed.

  Lemma par_none x : sc_par s !! x = None <-> unreferenced g x.
  Proof.
    split.
    - intros H p He. apply par_edge in He. congruence.
    - intros H. destruct (sc_par s !! x) as [p|] eqn:E; [|reflexivity].
      apply par_edge in E. destruct (H _ E).
  Qed.

  Lemma slabs_present x : x ∈ sc_slabs s <-> present g x.
  Proof. rewrite (si_slabs _ _ _ Hinv). apply order_present. Qed.

  Lemma slabs_eq : sc_slabs s = dom g.
  Proof. apply set_eq. intros x. rewrite slabs_present. symmetry. apply elem_of_dom. Qed.

  Lemma leaves_spec l : l ∈ sc_leaves s <-> g !! l = Some [].
  Proof.
    rewrite (si_leaves _ _ _ Hinv), elem_of_list_filter, order_present.
    unfold refs_of, present. destruct (g !! l) as [rs|]; cbn.
    - split; [intros [-> _]; reflexivity|]. intros [= ->]. split; [reflexivity|eauto].
    - split; [intros [_ [? H]]; discriminate|discriminate].
  Qed.

  Lemma leaves_NoDup : NoDup (sc_leaves s).
  Proof. rewrite (si_leaves _ _ _ Hinv). apply NoDup_filter, (si_nodup _ _ _ Hinv). Qed.

  Lemma single_parent_scan : single_parent g.
  Proof.
    split.
    - intros p1 p2 c H1 H2. apply par_edge in H1, H2. congruence.
    - intros p rs Hp. assert (p ∈ order) as Hin by (apply order_present; red; eauto).
      apply (si_refs_nodup _ _ _ Hinv) in Hin. unfold refs_of in Hin. rewrite Hp in Hin. exact Hin.
  Qed.

  Lemma anc_present y l : present g l -> anc (sc_par s) y l -> present g y.
  Proof.
    intros Hl Ha. apply anc_inv in Ha as [->|(c & Hc)]; [assumption|].
    apply par_edge in Hc as (rs & Hy & _). red. eauto.
  Qed.

  Lemma upc_rtc x k r : upc g (sc_par s) x k r -> rtc (edge g) r x.
  Proof.
    induction 1 as [x Hx|x p k r Hx _ _ _ _ IH]; [apply rtc_refl|].
    eapply rtc_r; [exact IH|]. apply par_edge. exact Hx.
  Qed.

  (** the walks *)
  Context (fuel : nat) (vis roots : gset sid).
  Context (Hwalk : walk_leaves fuel g (sc_par s) (sc_leaves s) ∅ ∅ = inr (vis, roots)).

  Lemma vis_spec y : y ∈ vis <-> exists l, l ∈ sc_leaves s /\ anc (sc_par s) y l.
  Proof.
    destruct (walk_leaves_sound _ _ _ _ _ _ _ _ Hwalk) as (_ & H & _).
    rewrite H. split; [intros [Hy|Hy]; [set_solver|assumption]|auto].
  Qed.

  Lemma roots_spec r : r ∈ roots <-> exists l k, l ∈ sc_leaves s /\ upc g (sc_par s) l k r.
  Proof.
    destruct (walk_leaves_sound _ _ _ _ _ _ _ _ Hwalk) as (_ & _ & H).
    rewrite H. split; [intros [Hy|Hy]; [set_solver|assumption]|auto].
  Qed.

  Lemma vis_present y : y ∈ vis -> present g y.
  Proof.
    intros (l & Hl & Ha)%vis_spec. eapply anc_present; [|exact Ha].
    apply leaves_spec in Hl. red. eauto.
  Qed.

  Lemma roots_sound r : r ∈ roots -> present g r /\ unreferenced g r.
  Proof.
    intros (l & k & Hl & Hu)%roots_spec. split.
    - eapply upc_present; [exact Hu|]. apply leaves_spec in Hl. red. eauto.
    - apply par_none. eapply upc_root. exact Hu.
  Qed.

  Lemma vis_upc y : y ∈ vis -> exists j r, upc g (sc_par s) y j r /\ r ∈ roots.
  Proof.
    intros (l & Hl & Ha)%vis_spec.
    destruct (walk_leaves_sound _ _ _ _ _ _ _ _ Hwalk) as (H & _ & _).
    destruct (H l Hl) as (k & r & _ & Hu).
    destruct (anc_upc _ _ _ _ Ha _ _ Hu) as (j & _ & Hy).
    exists j, r. split; [assumption|]. apply roots_spec. eauto.
  Qed.

  (** ... and the two final tests *)
  Context (Hmiss : missing_ref (sc_slabs s) (sc_par s) = false).
  Context (Hsize : size vis = size (sc_slabs s)).

  Lemma no_dangling_scan : no_dangling g.
  Proof.
    intros p c He. apply par_edge in He.
    apply slabs_present. eapply missing_ref_spec; eauto.
  Qed.

  Lemma all_visited x : present g x -> x ∈ vis.
  Proof.
    intros Hx. apply (gset_subseteq_size_eq vis (sc_slabs s)); [|exact Hsize|apply slabs_present, Hx].
    intros y Hy. apply slabs_present, vis_present, Hy.
  Qed.

  Lemma healthy_scan : healthy g (elements roots).
  Proof.
    split.
    - exact no_dangling_scan.
    - exact single_parent_scan.
    - intros p c He. pose proof (no_dangling_scan _ _ He) as Hc.
      apply all_visited, vis_upc in Hc as (j & r & Hu & _).
      apply par_edge in He. inversion Hu; subst; [congruence|].
      match goal with H : sc_par s !! c = Some ?q |- _ => rewrite He in H; injection H as <- end.
      assumption.
    - split; [apply NoDup_elements|]. intros r. rewrite elem_of_elements. split; [apply roots_sound|].
      intros [Hr Hun]. apply all_visited, vis_upc in Hr as (j & r' & Hu & Hr').
      apply par_none in Hun. inversion Hu; subst; [assumption|congruence].
    - intros x Hx. apply all_visited, vis_upc in Hx as (j & r & Hu & Hr).
      exists r. rewrite elem_of_elements. split; [assumption|]. eapply upc_rtc, Hu.
  Qed.
End after_scan.

(** * Soundness: success implies health *)

Theorem check_health_sound g order n rs :
  order ≡ₚ slabs g -> check_health order g n = Ok rs ->
  healthy g rs /\ forall k, n = Some k -> length rs = k.
Proof.
  intros Hperm H. unfold check_health, check_health_gen in H.
  destruct (scan g order scan_init) as [e|s] eqn:Hscan; [discriminate|].
  pose proof (scan_sound g order scan_init [] s (scan_inv_init g) Hscan) as Hinv. cbn in Hinv.
  destruct (missing_ref (sc_slabs s) (sc_par s)) eqn:Hmiss; [discriminate|]. cbn in H.
  destruct (walk_leaves _ g (sc_par s) (sc_leaves s) ∅ ∅) as [e|[vis roots]] eqn:Hwalk; [discriminate|].
  destruct (Nat.eqb (size vis) (size (sc_slabs s))) eqn:Hsz; [|discriminate]. cbn in H.
  apply Nat.eqb_eq in Hsz.
  pose proof (healthy_scan g order s Hperm Hinv _ vis roots Hwalk Hmiss Hsz) as Hh.
  destruct n as [k|].
  - destruct (Nat.eqb (size roots) k) eqn:Hk; [|discriminate].
    apply Nat.eqb_eq in Hk. inversion H; subst. split; [assumption|].
    intros k' [= <-]. apply size_elements_length.
  - inversion H; subst. split; [assumption|]. intros k [=].
Qed.

(** * Completeness: health implies success with the true roots *)

Section complete.
  Context (g : graph) (roots0 : list sid) (order : list sid) (s : scan_st).
  Context (Hh : healthy g roots0) (Hperm : order ≡ₚ slabs g) (Hinv : scan_inv g order s).
  Let par := sc_par s.

  Lemma edge_upc p c k r : edge g p c -> upc g par p k r -> upc g par c (S k) r.
  Proof.
    intros He Hu. eapply upcS; [|..|exact Hu].
    - apply (par_edge g order s Hperm Hinv). exact He.
    - eapply h_nodangling; eauto.
    - destruct He as (rs & Hp & _). red. eauto.
    - eapply h_owner; eauto.
  Qed.

  Lemma rooted_upc x : present g x -> exists k r, upc g par x k r /\ r ∈ roots0.
  Proof.
    intros Hx. destruct (h_rooted _ _ Hh x Hx) as (r & Hr & Hrtc).
    assert (exists k, upc g par x k r) as [k Hk]; [|eauto].
    revert x Hrtc Hx. refine (rtc_ind_r (fun z => present g z -> exists k, upc g par z k r) r _ _).
    - intros _. exists 0. apply upc0. apply (par_none g order s Hperm Hinv).
      apply (proj2 (h_roots _ _ Hh)) in Hr. apply Hr.
    - intros y z Hry Hyz IH _. destruct IH as [k Hk]; [destruct Hyz as (rs & Hy & _); red; eauto|].
      exists (S k). eapply edge_upc; eauto.
  Qed.

  Lemma leaf_below n : forall x k r, upc g par x k r -> present g x -> size (dom g) - k <= n ->
    exists l, g !! l = Some [] /\ anc par x l.
  Proof.
    induction n as [|n IH]; intros x k r Hu Hx Hn.
    - pose proof (upc_bound _ _ _ _ _ Hu Hx). lia.
    - destruct Hx as [rs Hrs]. destruct rs as [|c rs].
      + exists x. split; [assumption|apply anc_refl].
      + assert (edge g x c) as He by (exists (c :: rs); split; [assumption|apply elem_of_cons; auto]).
        pose proof (edge_upc _ _ _ _ He Hu) as Hc.
        assert (present g c) as Hpc by (eapply h_nodangling; eauto).
        pose proof (upc_bound _ _ _ _ _ Hc Hpc).
        destruct (IH c (S k) r Hc Hpc) as (l & Hl & Ha); [lia|].
        exists l. split; [assumption|]. eapply anc_trans; [exact Ha|].
        eapply anc_step; [|apply anc_refl]. apply (par_edge g order s Hperm Hinv). exact He.
  Qed.

  Lemma leaf_not_parent l c : g !! l = Some [] -> par !! c = Some l -> False.
  Proof.
    intros Hl Hc. apply (par_edge g order s Hperm Hinv) in Hc as (rs & Hrs & Hin).
    rewrite Hl in Hrs. injection Hrs as <-. inversion Hin.
  Qed.

  Lemma walks_succeed :
    exists vis roots, walk_leaves (S (size (sc_slabs s))) g par (sc_leaves s) ∅ ∅ = inr (vis, roots).
  Proof.
    destruct (walk_leaves_complete g par (S (size (sc_slabs s))) (sc_leaves s) ∅ ∅) as [[vis roots] H].
    - apply (leaves_NoDup g order s Hinv).
    - intros l Hl. apply (leaves_spec g order s Hperm Hinv) in Hl.
      assert (present g l) as Hpl by (red; eauto).
      destruct (rooted_upc l Hpl) as (k & r & Hu & _). exists k, r. split; [|assumption].
      pose proof (upc_bound _ _ _ _ _ Hu Hpl). rewrite (slabs_eq g order s Hperm Hinv). lia.
    - intros l _. set_solver.
    - intros l l' Hl Hl' Ha. apply anc_inv in Ha as [->|(c & Hc)]; [reflexivity|].
      apply (leaves_spec g order s Hperm Hinv) in Hl. destruct (leaf_not_parent _ _ Hl Hc).
    - eauto.
  Qed.

  Context (vis roots : gset sid).
  Context (Hwalk : walk_leaves (S (size (sc_slabs s))) g par (sc_leaves s) ∅ ∅ = inr (vis, roots)).

  Lemma complete_all_visited : size vis = size (sc_slabs s).
  Proof.
    f_equal. apply set_eq. intros x. rewrite (slabs_present g order s Hperm Hinv). split.
    - apply (vis_present g order s Hperm Hinv _ vis roots Hwalk).
    - intros Hx. destruct (rooted_upc x Hx) as (k & r & Hu & _).
      destruct (leaf_below _ x k r Hu Hx (Nat.le_refl _)) as (l & Hl & Ha).
      apply (vis_spec g order s Hperm Hinv _ vis roots Hwalk). exists l. split; [|assumption].
      apply (leaves_spec g order s Hperm Hinv). assumption.
  Qed.

  Lemma complete_roots : elements roots ≡ₚ roots0.
  Proof.
    destruct (h_roots _ _ Hh) as [Hnd Hr0].
    apply NoDup_Permutation; [apply NoDup_elements|assumption|].
    intros r. rewrite elem_of_elements, Hr0. split.
    - apply (roots_sound g order s Hperm Hinv _ vis roots Hwalk).
    - intros [Hr Hun].
      assert (par !! r = None) as Hpr by (apply (par_none g order s Hperm Hinv); assumption).
      destruct (leaf_below _ r 0 r (upc0 _ _ _ Hpr) Hr (Nat.le_refl _)) as (l & Hl & Ha).
      assert (present g l) as Hpl by (red; eauto).
      destruct (rooted_upc l Hpl) as (k & r' & Hu & _).
      destruct (anc_upc _ _ _ _ Ha _ _ Hu) as (j & _ & Hur).
      assert (r' = r) as -> by (inversion Hur; subst; [reflexivity|congruence]).
      apply (roots_spec g order s Hperm Hinv _ vis roots Hwalk). exists l, k. split; [|assumption].
      apply (leaves_spec g order s Hperm Hinv). assumption.
  Qed.
End complete.

Theorem check_health_complete g roots order n :
  healthy g roots -> order ≡ₚ slabs g -> n = None \/ n = Some (length roots) ->
  exists rs, check_health order g n = Ok rs /\ rs ≡ₚ roots.
Proof.
  intros Hh Hperm Hn.
  assert (NoDup order) as Hnd by (rewrite Hperm; apply slabs_NoDup).
  assert (forall x, x ∈ order <-> present g x) as Hord by (intros x; rewrite Hperm; apply slabs_spec).
  destruct (scan_complete g order scan_init [] (scan_inv_init g)) as [s Hscan].
  - exact Hnd.
  - intros p Hp. apply Hord in Hp as [rs Hp]. unfold refs_of. rewrite Hp. cbn.
    eapply (proj2 (h_single _ _ Hh)); eauto.
  - cbn. intros p1 p2 c _ _ H1 H2. apply edge_refs_of in H1, H2.
    eapply (proj1 (h_single _ _ Hh)); eauto.
  - pose proof (scan_sound g order scan_init [] s (scan_inv_init g) Hscan) as Hinv. cbn in Hinv.
    assert (missing_ref (sc_slabs s) (sc_par s) = false) as Hmiss.
    { apply missing_ref_spec. intros c p Hcp. apply (slabs_present g order s Hperm Hinv).
      apply (par_edge g order s Hperm Hinv) in Hcp. eapply h_nodangling; eauto. }
    destruct (walks_succeed g roots order s Hh Hperm Hinv) as (vis & rts & Hwalk).
    pose proof (complete_all_visited g roots order s Hh Hperm Hinv vis rts Hwalk) as Hsz.
    pose proof (complete_roots g roots order s Hh Hperm Hinv vis rts Hwalk) as Hroots.
    exists (elements rts). split; [|assumption].
    unfold check_health, check_health_gen. rewrite Hscan, Hmiss. cbn [andb].
    rewrite Hwalk, (proj2 (Nat.eqb_eq _ _) Hsz). cbn [negb].
    destruct Hn as [->| ->]; [reflexivity|].
    rewrite <- size_elements_length, (Permutation_length Hroots), Nat.eqb_refl. reflexivity.
Qed.

(** * The four single corruptions *)

Lemma healthy_no_self_edge g roots c : healthy g roots -> ~ edge g c c.
Proof.
  intros Hh Hcc.
  assert (present g c) as Hc by (destruct Hcc as (rs & H & _); red; eauto).
  destruct (h_rooted _ _ Hh c Hc) as (r & Hr & Hrtc).
  assert (forall z, rtc (edge g) r z -> z <> c) as Hne; [|exact (Hne c Hrtc eq_refl)].
  refine (rtc_ind_r (fun z => z <> c) r _ _).
  - intros ->. apply (proj2 (h_roots _ _ Hh)) in Hr as [_ Hun]. exact (Hun c Hcc).
  - intros y z _ Hyz Hy ->. apply Hy. exact (proj1 (h_single _ _ Hh) _ _ _ Hyz Hcc).
Qed.

Inductive single_corruption (g : graph) : graph -> Prop :=
(* (a) a referenced slab is deleted *)
| corrupt_delete p c : edge g p c -> single_corruption g (delete c g)
(* (b) a slab that nobody references is added (the expected root count stays) *)
| corrupt_add x : g !! x = None -> single_corruption g (<[x := []]> g)
(* (c) a second reference to an already referenced slab c is put into some slab q *)
| corrupt_double p c q l1 l2 : edge g p c -> g !! q = Some (l1 ++ l2) ->
    single_corruption g (<[q := l1 ++ c :: l2]> g)
(* (d) a slab q references a (new) slab y owned by a different address *)
| corrupt_owner q l1 l2 y : g !! q = Some (l1 ++ l2) -> g !! y = None -> owner y <> owner q ->
    single_corruption g (<[y := []]> (<[q := l1 ++ y :: l2]> g))
(* (d') a referenced slab c changes its owner: it becomes c' everywhere *)
| corrupt_reown p l1 l2 c c' rs : g !! p = Some (l1 ++ c :: l2) -> g !! c = Some rs ->
    g !! c' = None -> owner c' <> owner c ->
    single_corruption g (<[c' := rs]> (delete c (<[p := l1 ++ c' :: l2]> g))).

Lemma corruption_unhealthy g roots g' rs :
  healthy g roots -> single_corruption g g' -> healthy g' rs -> length rs <> length roots.
Proof.
  intros Hh Hc Hh'. destruct Hc as [p c He|x Hx|p c q l1 l2 He Hq|q l1 l2 y Hq Hy Ho|p l1 l2 c c' rs' Hp Hc Hc' Ho].
  - (* delete *) exfalso.
    assert (p <> c) as Hne by (intros ->; exact (healthy_no_self_edge _ _ _ Hh He)).
    assert (edge (delete c g) p c) as He'.
    { destruct He as (rs0 & H & Hin). exists rs0. rewrite lookup_delete_ne by congruence. auto. }
    apply (h_nodangling _ _ Hh') in He' as [? H]. rewrite lookup_delete in H. discriminate.
  - (* add *)
    assert (forall p c, edge (<[x:=[]]> g) p c <-> edge g p c) as Hedge.
    { intros p c. unfold edge. destruct (decide (p = x)) as [->|Hne].
      - rewrite lookup_insert, Hx. split; intros (rs0 & H & Hin); [|discriminate].
        injection H as <-. inversion Hin.
      - rewrite lookup_insert_ne by congruence. reflexivity. }
    assert (rs ≡ₚ x :: roots) as Hperm; [|rewrite Hperm; cbn; lia].
    destruct (h_roots _ _ Hh) as [Hnd Hr]. destruct (h_roots _ _ Hh') as [Hnd' Hr'].
    assert (unreferenced g x) as Hux.
    { intros p He. apply (h_nodangling _ _ Hh) in He as [? H]. congruence. }
    apply NoDup_Permutation; [assumption| |].
    + constructor; [|assumption]. rewrite Hr. intros [[? H] _]. congruence.
    + intros r. rewrite Hr', elem_of_cons, Hr. unfold unreferenced, present.
      destruct (decide (r = x)) as [->|Hne].
      * rewrite lookup_insert. split; [auto|]. intros _. split; [eauto|].
        intros p He. apply Hedge in He. exact (Hux _ He).
      * rewrite lookup_insert_ne by congruence. split.
        -- intros [H1 H2]. right. split; [assumption|]. intros p He. apply (H2 p), Hedge, He.
        -- intros [?|[H1 H2]]; [contradiction|]. split; [assumption|].
           intros p He. apply Hedge in He. exact (H2 _ He).
  - (* double reference *) exfalso.
    assert (edge (<[q:=l1 ++ c :: l2]> g) q c) as Hqc.
    { exists (l1 ++ c :: l2). rewrite lookup_insert. split; [reflexivity|].
      apply elem_of_app. right. apply elem_of_cons. auto. }
    destruct (decide (p = q)) as [->|Hne].
    + destruct He as (rs0 & H & Hin). rewrite Hq in H. injection H as <-.
      assert (NoDup (l1 ++ c :: l2)) as Hnd.
      { apply (proj2 (h_single _ _ Hh') q). apply lookup_insert. }
      apply NoDup_app in Hnd as (_ & H1 & H2). apply NoDup_cons in H2 as [H2 _].
      apply elem_of_app in Hin as [Hin|Hin]; [|contradiction].
      apply (H1 c Hin), elem_of_cons. auto.
    + assert (edge (<[q:=l1 ++ c :: l2]> g) p c) as Hpc.
      { destruct He as (rs0 & H & Hin). exists rs0. rewrite lookup_insert_ne by congruence. auto. }
      exact (Hne (proj1 (h_single _ _ Hh') _ _ _ Hpc Hqc)).
  - (* foreign owner *) exfalso.
    assert (q <> y) as Hne by (intros ->; congruence).
    assert (edge (<[y:=[]]> (<[q:=l1 ++ y :: l2]> g)) q y) as He.
    { exists (l1 ++ y :: l2). rewrite lookup_insert_ne by congruence. rewrite lookup_insert.
      split; [reflexivity|]. apply elem_of_app. right. apply elem_of_cons. auto. }
    exact (Ho (h_owner _ _ Hh' _ _ He)).
  - (* re-owned *) exfalso.
    assert (edge g p c) as He.
    { exists (l1 ++ c :: l2). split; [assumption|]. apply elem_of_app. right. apply elem_of_cons. auto. }
    assert (p <> c) as Hne by (intros ->; exact (healthy_no_self_edge _ _ _ Hh He)).
    assert (p <> c') as Hne' by (intros ->; congruence).
    assert (edge (<[c':=rs']> (delete c (<[p:=l1 ++ c' :: l2]> g))) p c') as He'.
    { exists (l1 ++ c' :: l2). rewrite lookup_insert_ne by congruence.
      rewrite lookup_delete_ne by congruence. rewrite lookup_insert.
      split; [reflexivity|]. apply elem_of_app. right. apply elem_of_cons. auto. }
    apply (h_owner _ _ Hh') in He'. apply (h_owner _ _ Hh) in He. congruence.
Qed.

Theorem check_health_corruptions g roots g' :
  healthy g roots -> single_corruption g g' ->
  forall order, order ≡ₚ slabs g' -> exists e, check_health order g' (Some (length roots)) = Err e.
Proof.
  intros Hh Hc order Hperm.
  destruct (check_health order g' (Some (length roots))) as [rs|e] eqn:H; [|eauto].
  exfalso. apply check_health_sound in H as [Hh' Hlen]; [|assumption].
  exact (corruption_unhealthy _ _ _ _ Hh Hc Hh' (Hlen _ eq_refl)).
Qed.

(* the general form: whatever violates one of the four conditions is rejected *)
Theorem check_health_rejects g order n :
  order ≡ₚ slabs g ->
  (exists p c, edge g p c /\ ~ present g c) \/
  (exists p1 p2 c, p1 <> p2 /\ edge g p1 c /\ edge g p2 c) \/
  (exists p rs, g !! p = Some rs /\ ~ NoDup rs) \/
  (exists p c, edge g p c /\ owner c <> owner p) \/
  (exists k, n = Some k /\ forall rs, roots_are_unreferenced g rs -> length rs <> k) ->
  exists e, check_health order g n = Err e.
Proof.
  intros Hperm Hbad.
  destruct (check_health order g n) as [rs|e] eqn:H; [|eauto].
  exfalso. apply check_health_sound in H as [Hh Hlen]; [|assumption].
  destruct Hbad as [(p & c & He & Hn)|[(p1 & p2 & c & Hne & H1 & H2)|[(p & rs0 & Hp & Hn)|[(p & c & He & Hn)|(k & -> & Hk)]]]].
  - exact (Hn (h_nodangling _ _ Hh _ _ He)).
  - exact (Hne (proj1 (h_single _ _ Hh) _ _ _ H1 H2)).
  - exact (Hn (proj2 (h_single _ _ Hh) _ _ Hp)).
  - exact (Hn (h_owner _ _ Hh _ _ He)).
  - exact (Hk rs (h_roots _ _ Hh) (Hlen _ eq_refl)).
Qed.

(** * The algorithm before the repair accepts a dangling reference *)

Definition old_witness : graph := graph_of [((1, 1), [(1, 2); (1, 3)]); ((1, 2), [])]%N.

Lemma check_health_old_unsound :
  exists g order n rs p c,
    order ≡ₚ slabs g /\ check_health_old order g n = Ok rs /\ edge g p c /\ ~ present g c /\
    check_health order g n = Err EMissingRef.
Proof.
  exists old_witness, (slabs old_witness), (Some 1), [(1, 1)%N], (1, 1)%N, (1, 3)%N.
  split; [reflexivity|]. split; [vm_compute; reflexivity|]. split; [|split].
  - exists [(1, 2); (1, 3)]%N. split; [vm_compute; reflexivity|].
    apply elem_of_cons. right. apply elem_of_cons. auto.
  - intros [? H]. vm_compute in H. discriminate.
  - vm_compute. reflexivity.
Qed.

(** * GetAllChildReferences *)

(* x is reachable from id through at least one reference; the slabs passed on the way
   (all but the last) are present because only a present slab has references *)
Definition reachable (g : graph) (id x : sid) : Prop := exists c, edge g id c /\ rtc (edge g) c x.
Definition reachable_present (g : graph) (id x : sid) : Prop := reachable g id x /\ present g x.
Definition reachable_broken (g : graph) (id x : sid) : Prop := reachable g id x /\ ~ present g x.

Lemma gacr_level_spec g level : forall refs broken next,
  gacr_level g level refs broken next =
  (refs ++ filter (fun c => is_Some (g !! c)) level,
   broken ++ filter (fun c => g !! c = None) level,
   next ++ flat_map (refs_of g) level).
Proof.
  induction level as [|c level IH]; intros refs broken next; cbn [gacr_level flat_map].
  - rewrite !app_nil_r. reflexivity.
  - unfold refs_of at 1. destruct (g !! c) as [rs|] eqn:Hc; rewrite IH.
    + rewrite filter_cons_True by (rewrite Hc; eauto).
      rewrite filter_cons_False by (rewrite Hc; discriminate).
      cbn [default from_option id]. rewrite <- !app_assoc. reflexivity.
    + rewrite filter_cons_False by (rewrite Hc; intros [? ?]; discriminate).
      rewrite filter_cons_True by exact Hc.
      cbn [default from_option id]. rewrite <- !app_assoc. reflexivity.
Qed.

Lemma below_level_step g level x :
  (exists l, l ∈ level /\ rtc (edge g) l x) <->
  x ∈ level \/ exists l, l ∈ flat_map (refs_of g) level /\ rtc (edge g) l x.
Proof.
  split.
  - intros (l & Hl & Hr). apply rtc_inv in Hr as [->|(y & Hly & Hr)]; [auto|]. right.
    exists y. split; [|assumption]. apply elem_of_list_In, in_flat_map. exists l.
    split; apply elem_of_list_In; [assumption|]. apply edge_refs_of. assumption.
  - intros [Hx|(l & Hl & Hr)]; [exists x; split; [assumption|apply rtc_refl]|].
    apply elem_of_list_In, in_flat_map in Hl as (l0 & Hl0 & Hl).
    apply elem_of_list_In in Hl0, Hl. exists l0. split; [assumption|].
    eapply rtc_l; [|exact Hr]. apply edge_refs_of. assumption.
Qed.

Lemma gacr_spec g fuel : forall level refs broken R B,
  gacr fuel g level refs broken = GOk R B ->
  forall x,
    (x ∈ R <-> x ∈ refs \/ ((exists l, l ∈ level /\ rtc (edge g) l x) /\ present g x)) /\
    (x ∈ B <-> x ∈ broken \/ ((exists l, l ∈ level /\ rtc (edge g) l x) /\ ~ present g x)).
Proof.
  induction fuel as [|f IH]; intros level refs broken R B H x.
  - destruct level as [|c level]; cbn in H; [|discriminate]. inversion H; subst.
    split; (split; [auto|]); intros [?|[(l & Hl & _) _]]; auto; inversion Hl.
  - destruct level as [|c level]; [cbn in H; inversion H; subst|].
    { split; (split; [auto|]); intros [?|[(l & Hl & _) _]]; auto; inversion Hl. }
    cbn [gacr] in H. rewrite gacr_level_spec in H. cbn [app] in H.
    pose proof (IH _ _ _ _ _ H x) as Hx. clear H IH. destruct Hx as [HR HB].
    rewrite HR, HB, !elem_of_app, !elem_of_list_filter, (below_level_step g (c :: level) x).
    unfold present. split; split.
    + intros [[?|[? ?]]|[? ?]]; [auto|right; split; [left|]; assumption|right; split; [right|]; assumption].
    + intros [?|[[?|?] ?]]; [auto|left; right; split; assumption|right; split; assumption].
    + intros [[?|[Hn ?]]|[? ?]]; [auto|right; split; [left; assumption|]|right; split; [right|]; assumption].
      rewrite Hn. intros [? ?]; discriminate.
    + intros [?|[[?|?] Hn]]; [auto|left; right; split; [|assumption]|right; split; assumption].
      destruct (g !! x); [exfalso; apply Hn; eauto|reflexivity].
Qed.

Lemma gacr_found g fuel : forall level refs broken, gacr fuel g level refs broken <> GNotFound.
Proof.
  induction fuel as [|f IH]; intros [|c level] refs broken; cbn [gacr]; try discriminate.
  rewrite gacr_level_spec. apply IH.
Qed.

Theorem get_all_child_refs_spec g fuel id R B :
  get_all_child_refs_fuel fuel g id = GOk R B ->
  present g id /\
  (forall x, x ∈ R <-> reachable_present g id x) /\
  (forall x, x ∈ B <-> reachable_broken g id x).
Proof.
  unfold get_all_child_refs_fuel. destruct (g !! id) as [rs|] eqn:Hid; [|discriminate].
  intros H. split; [red; eauto|].
  assert (forall x, (exists l, l ∈ rs /\ rtc (edge g) l x) <-> reachable g id x) as Hreach.
  { intros x. unfold reachable. split; intros (c & Hc & Hr); exists c; (split; [|assumption]).
    - exists rs. auto.
    - destruct Hc as (rs' & E & Hin). rewrite Hid in E. injection E as <-. assumption. }
  split; intros x; destruct (gacr_spec g fuel rs [] [] R B H x) as [HR HB].
  - rewrite HR, Hreach. unfold reachable_present. split; [intros [Hx|?]; [inversion Hx|assumption]|auto].
  - rewrite HB, Hreach. unfold reachable_broken. split; [intros [Hx|?]; [inversion Hx|assumption]|auto].
Qed.

Theorem get_all_child_refs_absent g fuel id : g !! id = None -> get_all_child_refs_fuel fuel g id = GNotFound.
Proof. unfold get_all_child_refs_fuel. intros ->. reflexivity. Qed.

(* termination: a rank that decreases along every reference bounds the number of levels *)
Lemma gacr_terminates g (rank : sid -> nat) :
  (forall p c, edge g p c -> rank c < rank p) ->
  forall fuel level refs broken, (forall l, l ∈ level -> rank l < fuel) ->
  gacr fuel g level refs broken <> GFuel.
Proof.
  intros Hrank. induction fuel as [|f IH]; intros level refs broken Hl.
  - destruct level as [|c level]; [discriminate|]. specialize (Hl c (elem_of_list_here _ _)). lia.
  - destruct level as [|c level]; [discriminate|].
    cbn [gacr]. rewrite gacr_level_spec. cbn [app]. apply IH.
    intros l Hin. apply elem_of_list_In, in_flat_map in Hin as (l0 & Hl0 & Hin).
    apply elem_of_list_In in Hl0, Hin. apply edge_refs_of, Hrank in Hin.
    specialize (Hl l0 Hl0). lia.
Qed.

Theorem get_all_child_refs_terminates g (rank : sid -> nat) fuel id :
  (forall p c, edge g p c -> rank c < rank p) -> rank id <= fuel ->
  get_all_child_refs_fuel fuel g id <> GFuel.
Proof.
  intros Hrank Hid. unfold get_all_child_refs_fuel. destruct (g !! id) as [rs|] eqn:E; [|discriminate].
  apply (gacr_terminates g rank Hrank). intros l Hl.
  assert (edge g id l) as He by (exists rs; auto). apply Hrank in He. lia.
Qed.

(* on a healthy storage the default fuel is enough *)
Section gacr_healthy.
  Context (g : graph) (roots0 : list sid) (order : list sid) (s : scan_st).
  Context (Hh : healthy g roots0) (Hperm : order ≡ₚ slabs g) (Hinv : scan_inv g order s).

  Lemma gacr_healthy_terminates : forall fuel d level refs broken,
    (forall l, l ∈ level -> present g l /\ exists k r, upc g (sc_par s) l k r /\ d <= k) ->
    size (dom g) <= fuel + d ->
    gacr fuel g level refs broken <> GFuel.
  Proof.
    induction fuel as [|f IH]; intros d level refs broken Hl Hsz.
    - destruct level as [|c level]; [discriminate|].
      destruct (Hl c (elem_of_list_here _ _)) as (Hc & k & r & Hu & Hd).
      pose proof (upc_bound _ _ _ _ _ Hu Hc). lia.
    - destruct level as [|c level]; [discriminate|].
      cbn [gacr]. rewrite gacr_level_spec. cbn [app]. apply (IH (S d)); [|lia].
      intros l Hin. apply elem_of_list_In, in_flat_map in Hin as (l0 & Hl0 & Hin).
      apply elem_of_list_In in Hl0, Hin. apply edge_refs_of in Hin.
      destruct (Hl l0 Hl0) as (_ & k & r & Hu & Hd).
      split; [eapply h_nodangling; eauto|]. exists (S k), r. split; [|lia].
      eapply edge_upc; eauto.
  Qed.
End gacr_healthy.

Lemma healthy_scan_exists g roots : healthy g roots -> exists s, scan_inv g (slabs g) s.
Proof.
  intros Hh.
  destruct (scan_complete g (slabs g) scan_init [] (scan_inv_init g)) as [s Hscan].
  - apply slabs_NoDup.
  - intros p Hp. apply slabs_spec in Hp as [rs Hp]. unfold refs_of. rewrite Hp. cbn.
    eapply (proj2 (h_single _ _ Hh)); eauto.
  - cbn. intros p1 p2 c _ _ H1 H2. apply edge_refs_of in H1, H2.
    eapply (proj1 (h_single _ _ Hh)); eauto.
  - exists s. exact (scan_sound g (slabs g) scan_init [] s (scan_inv_init g) Hscan).
Qed.

Theorem get_all_child_refs_healthy g roots id :
  healthy g roots -> present g id ->
  exists R B, get_all_child_refs g id = GOk R B /\
    (forall x, x ∈ R <-> reachable_present g id x) /\ (forall x, x ∈ B <-> False).
Proof.
  intros Hh Hid. destruct (healthy_scan_exists g roots Hh) as [s Hinv].
  destruct (get_all_child_refs g id) as [R B| |] eqn:H.
  - exists R, B. split; [reflexivity|].
    apply get_all_child_refs_spec in H as (_ & HR & HB). split; [assumption|].
    intros x. rewrite HB. split; [|tauto]. intros [(c & He & Hr) Hn]. apply Hn.
    clear Hn. revert x Hr. refine (rtc_ind_r (fun z => present g z) c _ _).
    + eapply h_nodangling; eauto.
    + intros y z _ Hyz _. eapply h_nodangling; eauto.
  - exfalso. unfold get_all_child_refs, get_all_child_refs_fuel in H.
    destruct Hid as [rs Hid]. rewrite Hid in H. exact (gacr_found _ _ _ _ _ H).
  - exfalso. unfold get_all_child_refs, get_all_child_refs_fuel in H.
    destruct Hid as [rs Hid]. rewrite Hid in H. revert H.
    apply (gacr_healthy_terminates g roots (slabs g) s Hh (Permutation_refl _) Hinv _ 0); [|lia].
    intros l Hl. assert (edge g id l) as He by (exists rs; auto).
    assert (present g l) as Hpl by (eapply h_nodangling; eauto).
    split; [assumption|].
    destruct (rooted_upc g roots (slabs g) s Hh (Permutation_refl _) Hinv l Hpl) as (k & r & Hu & _).
    exists k, r. split; [assumption|lia].
Qed.
