(* Nested_ops.v — every operation of Nested.v preserves the forest invariant. *)
From Coq Require Import ZArith NArith List Bool Lia Arith.
From AtreeGen Require Import Consts.
From AtreeModel Require Import Nested.
From AtreeProofs Require Import Nested_base Nested_resync Nested_chain Nested_edit.
Import ListNotations.
Local Open Scope N_scope.

(* ---------- sizes of edited lists ---------- *)
Lemma data_size_ext g f f' k l :
  (forall s v w, In s l -> s_val s = NChild v w -> child_size f' v = child_size f v) ->
  data_size g f' k l = data_size g f k l.
Proof.
  intros H. unfold data_size. rewrite !sum_slots_w. f_equal. apply sum_w_ext. intros. eapply H; eauto.
Qed.

Lemma slot_size_ext g f f' k s :
  (forall v w, s_val s = NChild v w -> child_size f' v = child_size f v) -> slot_size g f' k s = slot_size g f k s.
Proof. intros H. rewrite !slot_size_eq_w. apply slot_size_w_ext. auto. Qed.

Lemma sum_slots_insert g f k i s l :
  (i <= length l)%nat -> sum_slots g f k (insert_nth i s l) = slot_size g f k s + sum_slots g f k l.
Proof.
  revert l; induction i; intros [|y l] H; cbn in *; try lia; auto.
  rewrite IHi by lia. lia.
Qed.

Lemma sum_slots_remove g f k i s l :
  nth_error l i = Some s -> sum_slots g f k l = slot_size g f k s + sum_slots g f k (remove_nth i l).
Proof.
  revert i; induction l as [|y l IH]; intros [|i] H; cbn in *; try discriminate.
  - now injection H as ->.
  - rewrite (IH i H). lia.
Qed.

Lemma sum_slots_app g f k l s : sum_slots g f k (l ++ [s]) = sum_slots g f k l + slot_size g f k s.
Proof. induction l; cbn; [lia|]. rewrite IHl. lia. Qed.

Lemma In_replace_nth {A} i (x : A) l y : In y (replace_nth i x l) -> y = x \/ In y l.
Proof.
  revert i; induction l as [|z l IH]; intros [|i]; cbn; auto.
  - intros [<-|H]; auto.
  - intros [<-|H]; auto. destruct (IH i H); auto.
Qed.

Lemma In_insert_nth {A} i (x : A) l y : In y (insert_nth i x l) -> y = x \/ In y l.
Proof.
  revert l; induction i; intros [|z l]; cbn; auto.
  - intros [<-|H]; auto.
  - intros [<-|H]; auto.
  - intros [<-|[]]; auto.
  - intros [<-|H]; auto. destruct (IHi l H); auto.
Qed.

Lemma In_remove_nth {A} i (l : list A) y : In y (remove_nth i l) -> In y l.
Proof.
  revert i; induction l as [|z l IH]; intros [|i]; cbn; auto.
  intros [<-|H]; auto. right. eapply IH; eauto.
Qed.

Lemma map_kid_replace i s' l s :
  nth_error l i = Some s -> s_kid s' = s_kid s -> map s_kid (replace_nth i s' l) = map s_kid l.
Proof.
  revert i; induction l as [|y l IH]; intros [|i] H Hk; cbn in *; try discriminate.
  - injection H as ->. now rewrite Hk.
  - now rewrite (IH i H Hk).
Qed.

Lemma NoDup_remove_nth i (l : list slot) : NoDup (map s_kid l) -> NoDup (map s_kid (remove_nth i l)).
Proof.
  revert i; induction l as [|y l IH]; intros [|i] H; cbn in *; auto.
  - now inversion H.
  - inversion H as [|? ? Hn Hd]; subst. constructor; auto.
    intros Hin. apply Hn. apply in_map_iff in Hin. destruct Hin as (x & Hx & Hin).
    apply in_map_iff. exists x. split; auto. eapply In_remove_nth; eauto.
Qed.

Lemma NoDup_app_key (l : list slot) s :
  NoDup (map s_kid l) -> find_key l (s_kid s) = None -> NoDup (map s_kid (l ++ [s])).
Proof.
  intros Hnd Hf. rewrite map_app. cbn.
  assert (Hnotin : ~ In (s_kid s) (map s_kid l)).
  { intros Hin. apply in_map_iff in Hin. destruct Hin as (x & Hx & Hin). eapply find_key_none; eauto. }
  clear Hf. induction (map s_kid l) as [|k r IH]; cbn.
  - constructor; [intros []|constructor].
  - inversion Hnd; subst. constructor.
    + intros Hin. apply in_app_or in Hin. destruct Hin as [Hin|[Hin|[]]]; auto. apply Hnotin. now left.
    + apply IH; auto. intros Hin. apply Hnotin. now right.
Qed.

(* ---------- building [edited] from the model's statements ---------- *)
Lemma commit_slots_get f t c l sz idx x :
  fget (commit_slots f t c l sz idx) x = if t =? x then Some (with_slots c l sz idx) else fget f x.
Proof. unfold commit_slots. destruct (c_inl c); rewrite ?fget_flog; apply fget_fset. Qed.

Lemma commit_slots_dirty f t c l sz idx : c_inl c = false -> dirty (commit_slots f t c l sz idx) t = Some true.
Proof. intros H. unfold commit_slots. rewrite H. apply dirty_flog_eq. Qed.

Lemma commit_slots_dirty_ne f t c l sz idx x : x <> t -> dirty (commit_slots f t c l sz idx) x = dirty f x.
Proof.
  intros H. unfold commit_slots. destruct (c_inl c); [apply dirty_fset|].
  rewrite dirty_flog_ne by congruence. apply dirty_fset.
Qed.

Lemma build_edit_none g f t c l' sz idx' :
  fget f t = Some c -> sz = data_size g f (c_kind c) l' ->
  (forall s v w, In s l' -> s_val s = NChild v w -> v <> t) ->
  edited g f (commit_slots f t c l' sz idx') t c l' idx' None.
Proof.
  intros Hc Hsz Hnt. split; [|split; [|exact I]].
  - rewrite commit_slots_get, N.eqb_refl. unfold with_slots. do 2 f_equal. rewrite Hsz. symmetry.
    apply data_size_ext. intros s v w Hin Hv. apply child_size_get. rewrite commit_slots_get.
    destruct (N.eqb_spec t v) as [->|]; auto. exfalso. eapply Hnt; eauto.
  - intros x Hxt _. rewrite commit_slots_get. destruct (N.eqb_spec t x); [congruence|auto].
Qed.

Lemma set_callback_scalar g f p i s id sz : s_val s = NScalar id sz -> set_callback g f p i s = f.
Proof. intros H. unfold set_callback. now rewrite H. Qed.

Definition idx_with (c : cstate) (idx' : list (N * nat)) (v : N) (i : nat) : list (N * nat) :=
  match c_kind c with KArr => aset idx' v i | KMap => idx' end.

Lemma build_edit_child g f t c l' sz idx' i s' v w cv :
  fget f t = Some c -> s_val s' = NChild v w -> v <> t -> fget f v = Some cv -> nth_error l' i = Some s' ->
  sz = data_size g (storable f v (slot_lim g (c_kind c) (s_ksz s') w)) (c_kind c) l' ->
  (forall s v0 w0, In s l' -> s_val s = NChild v0 w0 -> v0 <> t) ->
  edited g f (set_callback g (commit_slots (storable f v (slot_lim g (c_kind c) (s_ksz s') w)) t c l' sz idx') t i s')
         t c l' (idx_with c idx' v i) (Some (v, w, i, s')).
Proof.
  intros Hc Hv Hvt Hcv Hn Hsz Hnt.
  set (lim := slot_lim g (c_kind c) (s_ksz s') w) in *.
  set (f1 := storable f v lim) in *.
  set (f2 := commit_slots f1 t c l' sz idx').
  assert (H2t : fget f2 t = Some (with_slots c l' sz idx')).
  { unfold f2. now rewrite commit_slots_get, N.eqb_refl. }
  assert (H2v : fget f2 v = Some (with_inl cv (inl_size cv <=? lim))).
  { unfold f2. rewrite commit_slots_get. destruct (N.eqb_spec t v); [congruence|].
    unfold f1. now rewrite storable_get, N.eqb_refl, Hcv. }
  assert (H2o : forall x, x <> t -> x <> v -> fget f2 x = fget f x).
  { intros x Hxt Hxv. unfold f2. rewrite commit_slots_get. destruct (N.eqb_spec t x); [congruence|].
    unfold f1. rewrite storable_get. destruct (N.eqb_spec x v); [congruence|auto]. }
  (* the forest after set_callback *)
  set (c2 := with_slots c l' sz idx') in *.
  set (f2' := match c_kind c2 with KArr => fset f2 t (with_idx c2 (aset (c_idx c2) v i)) | KMap => f2 end).
  assert (H2't : fget f2' t = Some (mkC (c_kind c) l' (c_inl c) sz (c_upd c) (idx_with c idx' v i))).
  { unfold f2', idx_with. cbn [c_kind c2 with_slots]. destruct (c_kind c) eqn:Ek.
    - rewrite fget_fset_eq. unfold with_idx, c2, with_slots. cbn. now rewrite Ek.
    - rewrite H2t. unfold c2, with_slots. now rewrite Ek. }
  assert (H2'o : forall x, x <> t -> fget f2' x = fget f2 x).
  { intros x Hxt. unfold f2'. destruct (c_kind c2); auto. apply fget_fset_ne. congruence. }
  assert (Hsc : set_callback g f2 t i s' =
                fset f2' v (with_upd (with_inl cv (inl_size cv <=? lim)) (Some (mkUpd t (s_kid s') (slot_lim g (c_kind c2) (s_ksz s') w) w)))).
  { unfold set_callback. rewrite Hv, H2t. fold c2. fold f2'. rewrite H2'o by auto. now rewrite H2v. }
  rewrite Hsc.
  assert (Hsz3 : forall f3, (forall x, x <> t -> child_size f3 x = child_size f1 x) -> sz = data_size g f3 (c_kind c) l').
  { intros f3 H3. rewrite Hsz. symmetry. apply data_size_ext. intros s v0 w0 Hin Hv0. apply H3. eapply Hnt; eauto. }
  split; [|split].
  - rewrite fget_fset_ne by auto. rewrite H2't. do 2 f_equal. apply Hsz3.
    intros x Hxt. unfold child_size. rewrite fget_fset. destruct (N.eqb_spec v x) as [<-|Hvx].
    + unfold f1. rewrite storable_get, N.eqb_refl, Hcv. reflexivity.
    + rewrite H2'o by auto. unfold f2. rewrite commit_slots_get. destruct (N.eqb_spec t x); [congruence|reflexivity].
  - intros x Hxt Hxv. specialize (Hxv v w i s' eq_refl). rewrite fget_fset_ne by auto. rewrite H2'o by auto. now apply H2o.
  - repeat split; auto. exists cv. split; auto. rewrite fget_fset_eq. reflexivity.
Qed.

(* ---------- edit, then notify ---------- *)
Lemma sizes_all_Zx g f t : sizes_all g f -> Zx g f t (child_size f t).
Proof.
  intros (Hc & Hi). split; [|split]; auto.
  - intros x c Hx. rewrite (Hc x c Hx). unfold data_size. rewrite sum_slots_w. f_equal.
    apply sum_w_ext. intros s v w _ _. unfold ovr. destruct (N.eqb_spec v t) as [->|]; auto.
  - intros ct Ht Hinl. unfold child_size. now rewrite Ht, Hinl.
Qed.

Lemma notify_finish n g f3 t z f4 ok :
  fstruct n g f3 -> Zx g f3 t z -> notify n g f3 t = (f4, ok) ->
  ok = true /\ fstruct n g f4 /\ sizes_all g f4 /\ same_struct_u f3 f4 /\
  (forall x, ~ anc f3 x t -> fget f4 x = fget f3 x /\ dirty f4 x = dirty f3 x) /\
  ((forall ct, fget f3 t = Some ct -> c_inl ct = false -> dirty f3 t = Some true) ->
   forall k s0, enclosing k f4 t = Some s0 -> dirty f4 s0 = Some true).
Proof.
  intros HS HZ Hn. rewrite (notify_resync n g n f3 t HS) in Hn.
  destruct (st_ranked _ _ _ HS) as (lvl & Hl & Hb).
  destruct (resync_sizes n g lvl n f3 t z HS Hl (Hb t) HZ) as (f4' & Hr & Hsz).
  rewrite Hr in Hn. injection Hn as <- <-.
  pose proof (resync_su _ _ _ _ _ _ _ HS Hr) as Hsu.
  split; [reflexivity|]. split; [eapply su_fstruct; eauto|]. split; [exact Hsz|]. split; [exact Hsu|].
  split; [eapply resync_frame; eauto|]. intros Hpre. eapply resync_dirty; eauto.
Qed.

(* ---------- post steps ---------- *)
Lemma uninline_old_get f v w x :
  fget (uninline_old f (NChild v w)) x =
  if x =? v then option_map (fun c => with_inl c false) (fget f v) else fget f x.
Proof.
  unfold uninline_old. destruct (fget f v) as [cv|] eqn:Ev.
  - cbn [option_map]. rewrite (N.eqb_sym x v). destruct (c_inl cv) eqn:Ei.
    + rewrite fget_flog. apply fget_fset.
    + destruct (N.eqb_spec v x) as [<-|]; auto. rewrite Ev, with_inl_id; auto.
  - destruct (N.eqb_spec x v) as [->|]; [now rewrite Ev|auto].
Qed.

Lemma uninline_old_same_struct f e : same_struct f (uninline_old f e).
Proof.
  destruct e as [|v w]; [apply same_struct_refl|].
  intros x. rewrite uninline_old_get. destruct (N.eqb_spec x v) as [->|].
  - destruct (fget f v); cbn; auto.
  - destruct (fget f x); auto.
Qed.

Lemma uninline_old_dirty_ne f v w x : x <> v -> dirty (uninline_old f (NChild v w)) x = dirty f x.
Proof.
  intros H. unfold uninline_old. destruct (fget f v) as [cv|]; auto. destruct (c_inl cv); auto.
  rewrite dirty_flog_ne by congruence. apply dirty_fset.
Qed.

Lemma uninline_old_sizes g f e :
  (forall v w, e = NChild v w -> ~ attached f v) -> sizes_all g f -> sizes_all g (uninline_old f e).
Proof.
  intros Hna (Hc & Hi). destruct e as [|v w]; [split; auto|]. specialize (Hna v w eq_refl).
  set (f' := uninline_old f (NChild v w)).
  assert (Hss : same_struct f f') by apply uninline_old_same_struct.
  assert (Hcs : forall x, x <> v -> child_size f' x = child_size f x).
  { intros x Hx. apply child_size_get. unfold f'. rewrite uninline_old_get. destruct (N.eqb_spec x v); [congruence|auto]. }
  split.
  - intros x c' Hx'. pose proof (Hss x) as Hsx. rewrite Hx' in Hsx. destruct (fget f x) as [c0|] eqn:E0; [|contradiction].
    destruct Hsx as (Hk & Hsl & _).
    assert (Hcz : c_csize c' = c_csize c0).
    { unfold f' in Hx'. rewrite uninline_old_get in Hx'. destruct (N.eqb_spec x v) as [->|].
      - rewrite E0 in Hx'. injection Hx' as <-. reflexivity.
      - congruence. }
    rewrite Hcz, <- Hk, <- Hsl, (Hc x c0 E0). symmetry. apply data_size_ext.
    intros s v0 w0 Hin Hv0. apply Hcs. intros ->. apply Hna.
    destruct (In_edge _ _ _ _ _ _ E0 Hin Hv0) as (i & E). now exists x, i, s, w0.
  - intros v0. destruct (N.eq_dec v0 v) as [->|Hne].
    + intros p c i s w0 cv Hp Hn Hv _. exfalso. apply Hna.
      exists p, i, s, w0. eapply same_struct_edge; [apply same_struct_sym; eauto|]. exists c. auto.
    + eapply inl_ok_transfer; eauto. unfold f'. rewrite uninline_old_get. destruct (N.eqb_spec v0 v); [congruence|auto].
Qed.

Lemma del_idx_get f p v x :
  fget (del_idx f p v) x = if x =? p then option_map (fun c => with_idx c (adel (c_idx c) v)) (fget f p) else fget f x.
Proof.
  unfold del_idx. destruct (fget f p) as [c|] eqn:Ec.
  - rewrite fget_fset, (N.eqb_sym x p). destruct (p =? x); auto.
  - destruct (N.eqb_spec x p) as [->|]; [now rewrite Ec|auto].
Qed.

Lemma del_idx_edge f p v x i s v' w : edge (del_idx f p v) x i s v' w <-> edge f x i s v' w.
Proof.
  unfold edge. rewrite del_idx_get. destruct (N.eqb_spec x p) as [->|]; [|tauto].
  destruct (fget f p) as [c|]; cbn.
  - split; intros (c' & Hc' & H).
    + injection Hc' as <-. exists c. auto.
    + injection Hc' as <-. eexists. split; [reflexivity|]. auto.
  - split; intros (c' & Hc' & _); discriminate.
Qed.

Lemma del_idx_struct n g f p v : fstruct n g f -> ~ attached f v -> fstruct n g (del_idx f p v).
Proof.
  intros HS Hna. split.
  - intros x c' i s v' w Hx Hn Hv.
    assert (E : edge f x i s v' w) by (apply (del_idx_edge f p v); exists c'; auto).
    destruct (hooked_edge _ _ _ HS _ _ _ _ _ E) as (c & cv & Hc & _ & Hcv & Hu & Hi).
    assert (Hvv : v' <> v) by (intros ->; apply Hna; now exists x, i, s, w).
    rewrite del_idx_get in Hx. destruct (N.eqb_spec x p) as [->|Hxp].
    + rewrite Hc in Hx. injection Hx as <-. cbn [c_kind c_idx with_idx].
      rewrite del_idx_get. destruct (N.eqb_spec v' p) as [->|].
      * rewrite Hc in Hcv. injection Hcv as <-. eexists. split; [rewrite Hc; reflexivity|]. cbn. split; auto.
        intros Hk. rewrite aget_adel_ne by congruence. auto.
      * exists cv. repeat split; auto. intros Hk. rewrite aget_adel_ne by congruence. auto.
    + rewrite Hc in Hx. injection Hx as <-.
      rewrite del_idx_get. destruct (N.eqb_spec v' p) as [->|].
      * rewrite Hcv. eexists. split; [reflexivity|]. cbn. auto.
      * exists cv. auto.
  - intros x c' Hx Hk. rewrite del_idx_get in Hx. destruct (N.eqb_spec x p) as [->|].
    + destruct (fget f p) as [c|] eqn:Ec; [|discriminate]. injection Hx as <-. cbn in *. eapply st_keys; eauto.
    + eapply st_keys; eauto.
  - destruct (st_ranked _ _ _ HS) as (lvl & Hl & Hb). exists lvl. split; auto.
    intros x i s v' w E. eapply Hl. apply (del_idx_edge f p v). eauto.
Qed.

Lemma del_idx_sizes g f p v : sizes_all g f -> sizes_all g (del_idx f p v).
Proof.
  intros (Hc & Hi).
  assert (Hcs : forall x, child_size (del_idx f p v) x = child_size f x).
  { intros x. unfold child_size. rewrite del_idx_get. destruct (N.eqb_spec x p) as [->|]; auto.
    destruct (fget f p); auto. }
  split.
  - intros x c' Hx. rewrite del_idx_get in Hx.
    assert (exists c0, fget f x = Some c0 /\ c_csize c' = c_csize c0 /\ c_kind c' = c_kind c0 /\ c_slots c' = c_slots c0)
      as (c0 & H0 & Hz & Hk & Hsl).
    { destruct (N.eqb_spec x p) as [->|]; [|eauto]. destruct (fget f p) as [c|]; [|discriminate]. injection Hx as <-. eauto. }
    rewrite Hz, Hk, Hsl, (Hc x c0 H0). symmetry. apply data_size_ext. intros. apply Hcs.
  - intros v0 p0 c' i s w cv' Hp Hn Hv Hcv.
    rewrite del_idx_get in Hp, Hcv.
    assert (exists c0, fget f p0 = Some c0 /\ c_kind c' = c_kind c0 /\ c_slots c' = c_slots c0) as (c0 & H0 & Hk & Hsl).
    { destruct (N.eqb_spec p0 p) as [->|]; [|eauto]. destruct (fget f p) as [c|]; [|discriminate]. injection Hp as <-. eauto. }
    assert (exists cv0, fget f v0 = Some cv0 /\ c_inl cv' = c_inl cv0 /\ inl_size cv' = inl_size cv0) as (cv0 & Hv0 & Hi0 & Hz0).
    { destruct (N.eqb_spec v0 p) as [->|]; [|eauto]. destruct (fget f p) as [c|]; [|discriminate]. injection Hcv as <-. eauto. }
    rewrite Hk, Hi0, Hz0. eapply (Hi v0 p0 c0 i s w cv0); eauto. congruence.
Qed.

(* ---------- kind / slots / index map preserved ---------- *)
Definition ksi_eq (o1 o2 : option cstate) : Prop :=
  match o1, o2 with
  | Some c1, Some c2 => c_kind c1 = c_kind c2 /\ c_slots c1 = c_slots c2 /\ c_idx c1 = c_idx c2
  | None, None => True
  | _, _ => False
  end.

Lemma ksi_refl o : ksi_eq o o.
Proof. destruct o; cbn; auto. Qed.
Lemma ksi_trans a b c : ksi_eq a b -> ksi_eq b c -> ksi_eq a c.
Proof. destruct a, b, c; cbn; try tauto. intros (?&?&?) (?&?&?). repeat split; congruence. Qed.
Lemma ksi_of_eq a b : a = b -> ksi_eq a b.
Proof. intros ->. apply ksi_refl. Qed.

Lemma su_ksi f f' x : same_struct_u f f' -> ksi_eq (fget f x) (fget f' x).
Proof. intros H. specialize (H x). destruct (fget f x), (fget f' x); cbn; auto. tauto. Qed.
Lemma ss_ksi f f' x : same_struct f f' -> ksi_eq (fget f x) (fget f' x).
Proof. intros H. specialize (H x). destruct (fget f x), (fget f' x); cbn; auto. tauto. Qed.

Lemma edited_ksi g f f3 t c l' idx3 nc x : edited g f f3 t c l' idx3 nc -> x <> t -> ksi_eq (fget f x) (fget f3 x).
Proof.
  intros (Et & Eo & Hm) Hxt. destruct nc as [[[[v w] i] s']|].
  - destruct (N.eq_dec x v) as [->|Hxv].
    + destruct Hm as (_ & _ & _ & cv & Hcv & Hv3). rewrite Hcv, Hv3. cbn. auto.
    + apply ksi_of_eq. symmetry. apply Eo; auto. intros ? ? ? ? [= <- _ _ _]. auto.
  - apply ksi_of_eq. symmetry. apply Eo; auto. discriminate.
Qed.

Lemma idx_ok_final f f' t ct' :
  idx_ok f -> (forall x, x <> t -> ksi_eq (fget f x) (fget f' x)) -> fget f' t = Some ct' ->
  (forall v j, In (v, j) (c_idx ct') -> exists s w, nth_error (c_slots ct') j = Some s /\ s_val s = NChild v w) ->
  (c_kind ct' = KMap -> c_idx ct' = []) -> idx_ok f'.
Proof.
  intros Hi Hk Ht H1 H2 x c' Hx. destruct (N.eq_dec x t) as [->|Hxt].
  - rewrite Ht in Hx. injection Hx as <-. auto.
  - specialize (Hk x Hxt). rewrite Hx in Hk. destruct (fget f x) as [c0|] eqn:E0; [|contradiction].
    destruct Hk as (Hkd & Hsl & Hix). rewrite <- Hkd, <- Hsl, <- Hix. exact (Hi x c0 E0).
Qed.

(* ---------- assembling the edit context ---------- *)
Definition nc_of (i : nat) (s' : slot) : option (N * N * nat * slot) :=
  match s_val s' with NChild v w => Some (v, w, i, s') | NScalar _ _ => None end.
Definition idx3_of (c : cstate) (idx' : list (N * nat)) (i : nat) (s' : slot) : list (N * nat) :=
  match s_val s' with NChild v _ => idx_with c idx' v i | NScalar _ _ => idx' end.
Definition pipe g f t c l' sz idx' (i : nat) (s' : slot) : forest :=
  set_callback g (commit_slots (storable_elem g f (c_kind c) (s_ksz s') (s_val s')) t c l' sz idx') t i s'.

Lemma children_not_t n g f t c l' idx3 nc :
  fstruct n g f -> fget f t = Some c -> slots_from c l' idx3 nc ->
  (forall v w i s', nc = Some (v, w, i, s') -> v <> t) ->
  forall s v w, In s l' -> s_val s = NChild v w -> v <> t.
Proof.
  intros HS Hc HF Hnew s v w Hin Hv. destruct (In_nth_error _ _ Hin) as (j & Hj).
  destruct (HF j s v w Hj Hv) as (_ & [Hn|(j0 & Hj0)]); [eauto|].
  intros ->. apply (no_self_edge _ _ _ HS t j0 s w). exists c. auto.
Qed.

Lemma elem_ok_child n f t v w :
  elem_ok n f t (NChild v w) ->
  v <> t /\ (exists cv, fget f v = Some cv) /\ ~ attached f v /\
  exists lvl : N -> nat,
    (forall x i0 s0 v0 w0, edge f x i0 s0 v0 w0 -> (lvl x < lvl v0)%nat) /\ (lvl t < lvl v)%nat /\ forall x, (lvl x < n)%nat.
Proof.
  intros (Hex & Hna & lvl & Hl & Hlt & Hb). repeat split; auto; [|eauto]. intros ->. lia.
Qed.

Lemma mk_ctx n g f t c l' sz idx' i s' :
  fwf n g f -> fget f t = Some c -> elem_ok n f t (s_val s') -> nth_error l' i = Some s' ->
  sz = data_size g (storable_elem g f (c_kind c) (s_ksz s') (s_val s')) (c_kind c) l' ->
  slots_from c l' (idx3_of c idx' i s') (nc_of i s') ->
  (c_kind c = KMap -> NoDup (map s_kid l')) ->
  ectx n g f (pipe g f t c l' sz idx' i s') t c l' (idx3_of c idx' i s') (nc_of i s').
Proof.
  intros (HS & _) Hc Hok Hn Hsz HF HK.
  assert (Hnew : forall v w i0 s0, nc_of i s' = Some (v, w, i0, s0) -> s_val s' = NChild v w /\ i0 = i /\ s0 = s').
  { unfold nc_of. destruct (s_val s'); [discriminate|]. intros ? ? ? ? [= <- <- <- <-]. auto. }
  assert (Hnt : forall s v w, In s l' -> s_val s = NChild v w -> v <> t).
  { eapply children_not_t; eauto. intros v w i0 s0 Hnc. destruct (Hnew _ _ _ _ Hnc) as (Hv & _).
    rewrite Hv in Hok. now destruct (elem_ok_child _ _ _ _ _ Hok). }
  split; auto.
  - unfold pipe, nc_of, idx3_of in *. destruct (s_val s') as [id z|v w] eqn:Ev.
    + cbn [storable_elem] in *. rewrite (set_callback_scalar _ _ _ _ _ id z Ev). apply build_edit_none; auto.
    + cbn [storable_elem] in *. destruct (elem_ok_child _ _ _ _ _ Hok) as (Hvt & (cv & Hcv) & _).
      eapply build_edit_child; eauto.
  - intros v w i0 s0 Hnc. destruct (Hnew _ _ _ _ Hnc) as (Hv & _ & _). rewrite Hv in Hok.
    destruct (elem_ok_child _ _ _ _ _ Hok) as (_ & _ & Hna & Hl). auto.
Qed.

Lemma mk_ctx0 n g f t c l' sz idx' :
  fwf n g f -> fget f t = Some c -> sz = data_size g f (c_kind c) l' ->
  slots_from c l' idx' None -> (c_kind c = KMap -> NoDup (map s_kid l')) ->
  ectx n g f (commit_slots f t c l' sz idx') t c l' idx' None.
Proof.
  intros (HS & _) Hc Hsz HF HK. split; auto; [|discriminate].
  apply build_edit_none; auto. eapply children_not_t; eauto. discriminate.
Qed.

(* ---------- the common core: edit, notify ---------- *)
Lemma edit_core n g f f3 t c l' idx3 nc f4 ok :
  ectx n g f f3 t c l' idx3 nc -> fwf n g f -> notify n g f3 t = (f4, ok) ->
  ok = true /\ fstruct n g f4 /\ sizes_all g f4 /\ same_struct_u f3 f4 /\
  (forall x, x <> t -> ksi_eq (fget f x) (fget f4 x)) /\
  (exists ct4, fget f4 t = Some ct4 /\ c_kind ct4 = c_kind c /\ c_slots ct4 = l' /\ c_idx ct4 = idx3) /\
  ((c_inl c = false -> dirty f3 t = Some true) -> forall k s0, enclosing k f4 t = Some s0 -> dirty f4 s0 = Some true) /\
  (~ attached f t ->
   (f4 = f3 /\ forall ct3, fget f3 t = Some ct3 ->
        c_upd ct3 = None \/ exists u, c_upd ct3 = Some u /\ c_inl ct3 = false /\ ~ inl_size ct3 <= u_lim u) \/
   f4 = clear_upd f3 t).
Proof.
  intros X (HSf & Hidx & Hcs & Hio) Hn.
  pose proof (edited_struct _ _ _ _ _ _ _ _ _ X) as HS3.
  pose proof (edited_Zx _ _ _ _ _ _ _ _ _ X Hcs Hio) as HZ3.
  destruct (notify_finish _ _ _ _ _ _ _ HS3 HZ3 Hn) as (-> & HS4 & Hsz4 & Hsu & _ & Hd).
  pose proof X as X'. ectx_intro X'.
  split; auto. split; auto. split; auto. split; auto. split; [|split; [|split]].
  - intros x Hxt. eapply ksi_trans; [eapply edited_ksi; eauto|apply su_ksi; auto].
  - pose proof (Hsu t) as Ht. rewrite Et in Ht. destruct (fget f4 t) as [ct4|]; [|contradiction].
    destruct Ht as (Hk & Hsl & Hix & _). cbn in Hk, Hsl, Hix. exists ct4. auto.
  - intros Hpre. apply Hd. intros ct H3 Hinl. rewrite Et in H3. injection H3 as <-. cbn in Hinl. auto.
  - intros Hna.
    assert (Hna3 : ~ attached f3 t).
    { intros (p & i & s & w & E). destruct (N.eq_dec p t) as [->|Hpt].
      - exact (no_self_edge _ _ _ HS3 _ _ _ _ E).
      - apply Hna. exists p, i, s, w. eapply ed_edge_other; eauto. }
    rewrite (notify_resync n g n f3 t HS3) in Hn.
    destruct (st_ranked _ _ _ HS3) as (lvl & _ & Hb). specialize (Hb t).
    destruct n as [|m]; [lia|].
    destruct (resync_unattached _ _ m _ _ HS3 Hna3) as [(Hr & Hwhy)|(Hr & _)]; rewrite Hr in Hn; injection Hn as <-; auto.
Qed.

(* ---------- enclosing / parent_of under the post steps ---------- *)
Lemma parent_of_edge f x p : parent_of f x = Some p -> exists i s w, edge f p i s x w.
Proof.
  unfold parent_of. destruct (fget f x) as [c|]; [|discriminate]. destruct (c_upd c) as [u|]; [|discriminate].
  destruct (fget f (u_par u)) as [pc|] eqn:Epc; [|discriminate].
  destruct (find_child pc x u) as [i|] eqn:Efc; [|discriminate]. intros [= <-].
  destruct (lookup_edge _ _ _ _ _ _ Epc Efc) as (s & w & E). eauto.
Qed.

Lemma enclosing_ext (P : N -> Prop) f f' :
  (forall x, P x -> match fget f x, fget f' x with
                    | Some c, Some c' => c_inl c = c_inl c'
                    | None, None => True
                    | _, _ => False
                    end /\ parent_of f' x = parent_of f x) ->
  (forall x p, P x -> parent_of f x = Some p -> P p) ->
  forall k x, P x -> enclosing k f' x = enclosing k f x.
Proof.
  intros H1 H2. induction k as [|k IH]; intros x Px; cbn [enclosing]; auto.
  destruct (H1 x Px) as (Hi & Hp). rewrite Hp.
  destruct (fget f x) as [c|], (fget f' x) as [c'|]; try tauto. rewrite <- Hi.
  destruct (c_inl c); auto. destruct (parent_of f x) as [p|] eqn:Ep; auto.
  apply IH. eapply H2; eauto.
Qed.

Lemma enclosing_P (P : N -> Prop) f :
  (forall x p, P x -> parent_of f x = Some p -> P p) ->
  forall k x s0, P x -> enclosing k f x = Some s0 -> P s0.
Proof.
  intros H2. induction k as [|k IH]; intros x s0 Px; cbn [enclosing]; [discriminate|].
  destruct (fget f x) as [c|]; [|discriminate]. destruct (c_inl c).
  - destruct (parent_of f x) as [p|] eqn:Ep; [|discriminate]. apply IH. eauto.
  - intros [= <-]. auto.
Qed.

Definition post_rel (f4 f6 : forest) (t v0 : N) : Prop :=
  forall y, match fget f4 y, fget f6 y with
            | Some c, Some c' =>
              c_kind c = c_kind c' /\ c_slots c = c_slots c' /\ c_upd c = c_upd c' /\ c_csize c = c_csize c' /\
              (y <> v0 -> c_inl c = c_inl c') /\
              (c_idx c' = c_idx c \/ (y = t /\ c_idx c' = adel (c_idx c) v0))
            | None, None => True
            | _, _ => False
            end.

Lemma find_child_post pc pc' x u v0 :
  c_kind pc = c_kind pc' -> c_slots pc = c_slots pc' -> (c_idx pc' = c_idx pc \/ c_idx pc' = adel (c_idx pc) v0) ->
  x <> v0 -> find_child pc' x u = find_child pc x u.
Proof.
  intros Hk Hs Hi Hx. unfold find_child. rewrite <- Hk, <- Hs.
  destruct Hi as [->| ->]; auto. rewrite aget_adel_ne by congruence. reflexivity.
Qed.

Lemma post_rel_parent f4 f6 t v0 x : post_rel f4 f6 t v0 -> x <> v0 -> parent_of f6 x = parent_of f4 x.
Proof.
  intros H Hx. unfold parent_of. pose proof (H x) as Hxx.
  destruct (fget f4 x) as [c|], (fget f6 x) as [c'|]; try tauto.
  destruct Hxx as (_ & _ & Hu & _). rewrite <- Hu. destruct (c_upd c) as [u|]; auto.
  pose proof (H (u_par u)) as Hp. destruct (fget f4 (u_par u)) as [pc|], (fget f6 (u_par u)) as [pc'|]; try tauto.
  destruct Hp as (Hk & Hs & _ & _ & _ & Hi).
  rewrite (find_child_post pc pc' x u v0); auto. destruct Hi as [Hi|(_ & Hi)]; auto.
Qed.

Lemma post_rel_edge f4 f6 t v0 p i s v w : post_rel f4 f6 t v0 -> (edge f4 p i s v w <-> edge f6 p i s v w).
Proof.
  intros H. split; intros (c & Hc & Hn & Hv); specialize (H p); rewrite Hc in H.
  - destruct (fget f6 p) as [c'|] eqn:E'; [|contradiction]. destruct H as (_ & Hs & _). exists c'. rewrite <- Hs. auto.
  - destruct (fget f4 p) as [c'|] eqn:E'; [|contradiction]. destruct H as (_ & Hs & _). exists c'. rewrite Hs. auto.
Qed.

(* a ranking that covers the edges before and after the edit *)
Lemma ctx_lvl n g f f3 t c l' idx3 nc :
  ectx n g f f3 t c l' idx3 nc ->
  exists lvl : N -> nat,
    (forall p i s v w, edge f p i s v w -> (lvl p < lvl v)%nat) /\
    (forall p i s v w, edge f3 p i s v w -> (lvl p < lvl v)%nat) /\ forall v, (lvl v < n)%nat.
Proof.
  intros X. pose proof X as X'. ectx_intro X'.
  assert (Hgen : forall lvl : N -> nat,
             (forall p i s v w, edge f p i s v w -> (lvl p < lvl v)%nat) ->
             (forall v w i s', nc = Some (v, w, i, s') -> (lvl t < lvl v)%nat) ->
             forall p i s v w, edge f3 p i s v w -> (lvl p < lvl v)%nat).
  { intros lvl Hl Hnew p j s v' w' E. destruct (N.eq_dec p t) as [->|Hpt].
    - destruct (ed_edge_t _ _ _ _ _ _ _ _ _ X _ _ _ _ E) as (_ & [Hn|(j0 & E0)]); eauto.
    - eapply Hl. eapply ed_edge_other; eauto. }
  destruct nc as [[[[v w] i] s']|] eqn:Enc.
  - destruct (HN _ _ _ _ eq_refl) as (_ & lvl & Hl & Hlt & Hb). exists lvl. repeat split; auto.
    apply Hgen; auto. intros ? ? ? ? [= <- _ _ _]. auto.
  - destruct (st_ranked _ _ _ HS) as (lvl & Hl & Hb). exists lvl. repeat split; auto.
    apply Hgen; auto. discriminate.
Qed.

(* ---------- what every element-list operation on t achieves ---------- *)
Definition op_result n g (f f' : forest) (t : N) (l' : list slot) (touched : N -> Prop) : Prop :=
  fwf n g f' /\
  (exists c', fget f' t = Some c' /\ c_slots c' = l') /\
  (forall q j s w, edge f q j s t w <-> edge f' q j s t w) /\
  (forall k s0, enclosing k f' t = Some s0 -> dirty f' s0 = Some true) /\
  (~ attached f t ->
     (forall x, x <> t -> ~ touched x -> fget f' x = fget f x /\ dirty f' x = dirty f x) /\
     (forall ct ct', fget f t = Some ct -> fget f' t = Some ct' ->
        c_inl ct' = c_inl ct /\
        (c_upd ct' = None \/
         exists u, c_upd ct' = Some u /\ c_upd ct = Some u /\ c_inl ct' = false /\ ~ inl_size ct' <= u_lim u))).

Definition post_steps (f4 : forest) (t : N) (od : option (N * N)) (del : bool) : forest :=
  match od with
  | Some (v0, w0) => let f5 := uninline_old f4 (NChild v0 w0) in if del then del_idx f5 t v0 else f5
  | None => f4
  end.
Definition idx_fin (idx3 : list (N * nat)) (od : option (N * N)) (del : bool) : list (N * nat) :=
  match od with Some (v0, _) => if del then adel idx3 v0 else idx3 | None => idx3 end.
Definition touched_by (nc : option (N * N * nat * slot)) (od : option (N * N)) (x : N) : Prop :=
  (exists w i s', nc = Some (x, w, i, s')) \/ (exists w0, od = Some (x, w0)).

Lemma dirty_del_idx f p v x : dirty (del_idx f p v) x = dirty f x.
Proof. unfold del_idx. destruct (fget f p); auto. Qed.

Lemma clear_upd_get_ne f t x : x <> t -> fget (clear_upd f t) x = fget f x.
Proof. intros H. rewrite clear_upd_get. destruct (N.eqb_spec x t); [congruence|auto]. Qed.

Lemma edit_master n g f f3 t c l' idx3 nc f4 ok od del :
  ectx n g f f3 t c l' idx3 nc -> fwf n g f -> notify n g f3 t = (f4, ok) ->
  (c_inl c = false -> dirty f3 t = Some true) ->
  (forall x, x <> t -> ~ touched_by nc od x -> fget f3 x = fget f x /\ dirty f3 x = dirty f x) ->
  (forall v0 w0, od = Some (v0, w0) ->
     (exists j s, nth_error (c_slots c) j = Some s /\ s_val s = NChild v0 w0) /\
     (forall s w, In s l' -> s_val s <> NChild v0 w)) ->
  (forall v j, In (v, j) (idx_fin idx3 od del) -> exists s w, nth_error l' j = Some s /\ s_val s = NChild v w) ->
  (c_kind c = KMap -> idx_fin idx3 od del = []) ->
  ok = true /\ op_result n g f (post_steps f4 t od del) t l' (touched_by nc od) /\
  (forall v0 w0, od = Some (v0, w0) -> detached (post_steps f4 t od del) v0).
Proof.
  intros X Hwf Hn Hd3 Hfr3 Hod Hidx Hmap.
  destruct (edit_core _ _ _ _ _ _ _ _ _ _ _ X Hwf Hn) as (-> & HS4 & Hsz4 & Hsu & Hksi & (ct4 & Ht4 & Hk4 & Hsl4 & Hix4) & Hd4 & Hun).
  specialize (Hd4 Hd3). split; auto.
  pose proof X as X'. ectx_intro X'.
  destruct Hwf as (_ & Hidxok & _).
  assert (Hnself : forall q j s w, edge f q j s t w -> q <> t).
  { intros q j s w E ->. exact (no_self_edge _ _ _ HS _ _ _ _ E). }
  (* facts about the unattached case, before the post steps *)
  assert (Hun4 : ~ attached f t ->
     (forall x, x <> t -> ~ touched_by nc od x -> fget f4 x = fget f x /\ dirty f4 x = dirty f x) /\
     (c_inl ct4 = c_inl c /\
      (c_upd ct4 = None \/ exists u, c_upd ct4 = Some u /\ c_upd c = Some u /\ c_inl ct4 = false /\ ~ inl_size ct4 <= u_lim u))).
  { intros Hna. destruct (Hun Hna) as [(-> & Hwhy)| ->].
    - split; [auto|]. rewrite Et in Ht4. injection Ht4 as <-. cbn [c_inl c_upd]. split; auto.
      destruct (Hwhy _ Et) as [Hnone|(u & Hu & Hi & Hf)]; [left; exact Hnone|right]. exists u. cbn in Hu. auto.
    - split.
      + intros x Hxt Hnt. rewrite clear_upd_get_ne, clear_upd_dirty by auto. auto.
      + rewrite clear_upd_get, N.eqb_refl, Et in Ht4. injection Ht4 as <-. cbn. auto. }
  assert (Hedge4 : forall q j s w, edge f q j s t w <-> edge f4 q j s t w).
  { intros q j s w. split; intros E.
    - pose proof (Hksi q (Hnself _ _ _ _ E)) as Hq. destruct E as (cq & Hcq & Hn' & Hv').
      rewrite Hcq in Hq. destruct (fget f4 q) as [cq'|] eqn:E'; [|contradiction]. destruct Hq as (_ & Hs & _).
      exists cq'. rewrite <- Hs. auto.
    - assert (Hqt : q <> t) by (intros ->; exact (no_self_edge _ _ _ HS4 _ _ _ _ E)).
      pose proof (Hksi q Hqt) as Hq. destruct E as (cq & Hcq & Hn' & Hv').
      rewrite Hcq in Hq. destruct (fget f q) as [cq'|] eqn:E'; [|contradiction]. destruct Hq as (_ & Hs & _).
      exists cq'. rewrite Hs. auto. }
  destruct od as [[v0 w0]|] eqn:Eod; cbn [post_steps idx_fin] in *.
  2:{ (* nothing displaced *)
    split; [|discriminate].
    split; [|split; [|split; [|split]]].
    - split; [auto|split; [|exact Hsz4]].
      eapply idx_ok_final; eauto.
      + rewrite Hsl4, Hix4. auto.
      + rewrite Hk4, Hix4. auto.
    - eauto.
    - exact Hedge4.
    - exact Hd4.
    - intros Hna. destruct (Hun4 Hna) as (Hfr & Hi & Hu). split; auto.
      intros ct ct' Hct Hct'. rewrite Hc in Hct. injection Hct as <-. rewrite Ht4 in Hct'. injection Hct' as <-. auto. }
  (* a child v0 was displaced *)
  destruct (Hod v0 w0 eq_refl) as ((j0 & s0 & Hj0 & Hs0) & Hnotin).
  assert (E0 : edge f t j0 s0 v0 w0) by (exists c; auto).
  assert (Hv0t : v0 <> t) by (intros ->; exact (no_self_edge _ _ _ HS _ _ _ _ E0)).
  assert (Hna3 : ~ attached f3 v0).
  { intros (p & i & s & w & E). destruct (N.eq_dec p t) as [->|Hpt].
    - destruct E as (c3 & H3 & Hn3 & Hv3). rewrite Et in H3. injection H3 as <-. cbn in Hn3.
      eapply Hnotin; eauto. eapply nth_error_In; eauto.
    - pose proof (ed_edge_other _ _ _ _ _ _ _ _ _ X _ _ _ _ _ Hpt E) as E'.
      destruct (edge_unique _ _ _ HS _ _ _ _ _ _ _ _ _ E0 E') as (Hp & _). congruence. }
  assert (Hna4 : ~ attached f4 v0) by (rewrite <- (su_attached f3 f4); auto).
  set (f5 := uninline_old f4 (NChild v0 w0)).
  assert (Hss5 : same_struct f4 f5) by apply uninline_old_same_struct.
  assert (HS5 : fstruct n g f5) by (eapply same_struct_fstruct; eauto).
  assert (Hsz5 : sizes_all g f5).
  { apply uninline_old_sizes; auto. intros ? ? [= <- <-]. auto. }
  assert (Hna5 : ~ attached f5 v0).
  { intros (p & i & s & w & E). apply Hna4. exists p, i, s, w.
    eapply same_struct_edge; [apply same_struct_sym; eauto|eauto]. }
  set (f6 := if del then del_idx f5 t v0 else f5).
  assert (HS6 : fstruct n g f6) by (unfold f6; destruct del; auto; apply del_idx_struct; auto).
  assert (Hsz6 : sizes_all g f6) by (unfold f6; destruct del; auto; apply del_idx_sizes; auto).
  assert (H5get : forall x, fget f5 x = if x =? v0 then option_map (fun c => with_inl c false) (fget f4 v0) else fget f4 x).
  { intros x. unfold f5. apply uninline_old_get. }
  assert (H6get : forall x, fget f6 x = if del && (x =? t) then option_map (fun c => with_idx c (adel (c_idx c) v0)) (fget f5 t) else fget f5 x).
  { intros x. unfold f6. destruct del; cbn; auto. apply del_idx_get. }
  assert (H5t : fget f5 t = Some ct4).
  { rewrite H5get. destruct (N.eqb_spec t v0); [congruence|auto]. }
  assert (Hpost : post_rel f4 f6 t v0).
  { intros y. rewrite H6get. destruct (N.eqb_spec y t) as [->|Hyt].
    - rewrite andb_true_r, H5t, Ht4. destruct del; cbn; repeat split; auto.
    - rewrite andb_false_r, H5get. destruct (N.eqb_spec y v0) as [->|Hyv].
      + destruct (fget f4 v0); cbn; auto. repeat split; auto. congruence.
      + destruct (fget f4 y); auto. repeat split; auto. }
  assert (H6t : exists ct6, fget f6 t = Some ct6 /\ c_kind ct6 = c_kind c /\ c_slots ct6 = l' /\
                            c_idx ct6 = (if del then adel idx3 v0 else idx3) /\ c_inl ct6 = c_inl ct4 /\ c_upd ct6 = c_upd ct4).
  { rewrite H6get, N.eqb_refl, andb_true_r, H5t. destruct del; cbn.
    - eexists. split; [reflexivity|]. cbn. rewrite Hix4. repeat split; auto.
    - exists ct4. repeat split; auto. }
  destruct H6t as (ct6 & Ht6 & Hk6 & Hsl6 & Hix6 & Hinl6 & Hupd6).
  assert (Hother6 : forall x, x <> t -> x <> v0 -> fget f6 x = fget f4 x).
  { intros x Hxt Hxv. rewrite H6get. destruct (N.eqb_spec x t); [congruence|]. rewrite andb_false_r, H5get.
    destruct (N.eqb_spec x v0); [congruence|auto]. }
  assert (Hdirty6 : forall x, x <> v0 -> dirty f6 x = dirty f4 x).
  { intros x Hx. unfold f6. destruct del; rewrite ?dirty_del_idx; unfold f5; apply uninline_old_dirty_ne; auto. }
  split.
  2:{ intros v1 w1 [= <- <-]. split.
      - assert (exists cv4, fget f4 v0 = Some cv4) as (cv4 & Hcv4).
        { destruct (hooked_edge _ _ _ HS _ _ _ _ _ E0) as (_ & cv & _ & _ & Hcv & _).
          pose proof (Hksi v0 Hv0t) as Hq. rewrite Hcv in Hq. destruct (fget f4 v0); [eauto|contradiction]. }
        exists (with_inl cv4 false). split; auto.
        rewrite H6get. destruct (N.eqb_spec v0 t); [congruence|]. rewrite andb_false_r, H5get, N.eqb_refl, Hcv4. reflexivity.
      - intros (q & i & s & w & E). apply Hna4. exists q, i, s, w.
        apply (post_rel_edge f4 f6 t v0 q i s v0 w Hpost). exact E. }
  split; [|split; [|split; [|split]]].
  - split; [auto|split; [|exact Hsz6]].
    eapply (idx_ok_final f f6 t ct6); eauto.
    + intros x Hxt. eapply ksi_trans; [apply Hksi; auto|].
      pose proof (Hpost x) as Hp. destruct (fget f4 x), (fget f6 x); cbn; try tauto.
      destruct Hp as (? & ? & _ & _ & _ & [Hi|(Hyt & _)]); [auto|congruence].
    + rewrite Hsl6, Hix6. auto.
    + rewrite Hk6, Hix6. auto.
  - eauto.
  - intros q j s w. rewrite Hedge4. apply (post_rel_edge f4 f6 t v0 q j s t w Hpost).
  - destruct (ctx_lvl _ _ _ _ _ _ _ _ _ X) as (lvl & Hlf & Hl3 & _).
    assert (Hl4 : forall p i s v w, edge f4 p i s v w -> (lvl p < lvl v)%nat).
    { intros p i s v w E. eapply Hl3. apply (su_edge f3 f4 p i s v w Hsu). exact E. }
    set (P := fun x => ~ anc f4 v0 x).
    assert (Pclosed : forall x p, P x -> parent_of f4 x = Some p -> P p).
    { intros x p Px Hp A. apply Px. destruct (parent_of_edge _ _ _ Hp) as (i & s & w & E). econstructor; eauto. }
    assert (Pt : P t).
    { intros A. pose proof (anc_lvl _ lvl _ _ Hl4 A). specialize (Hlf _ _ _ _ _ E0). lia. }
    assert (Pne : forall x, P x -> x <> v0) by (intros x Px ->; apply Px; constructor).
    intros k s1 Henc.
    rewrite (enclosing_ext P f4 f6) in Henc; auto.
    + rewrite Hdirty6; [eauto|]. apply Pne. eapply enclosing_P; eauto.
    + intros x Px. split; [|apply (post_rel_parent f4 f6 t v0); auto].
      pose proof (Hpost x) as Hp. destruct (fget f4 x), (fget f6 x); try tauto.
      destruct Hp as (_ & _ & _ & _ & Hi & _). auto.
  - intros Hna. destruct (Hun4 Hna) as (Hfr & Hi & Hu). split.
    + intros x Hxt Hnt.
      assert (Hxv : x <> v0) by (intros ->; apply Hnt; right; eauto).
      rewrite Hother6, Hdirty6 by auto. auto.
    + intros ct ct' Hct Hct'. rewrite Hc in Hct. injection Hct as <-. rewrite Ht6 in Hct'. injection Hct' as <-.
      rewrite Hinl6, Hupd6. split; auto. destruct Hu as [Hu|(u & H1 & H2 & H3 & H4)]; auto.
      right. exists u. repeat split; auto.
      assert (inl_size ct6 = inl_size ct4) as ->; auto.
      pose proof (Hpost t) as Hp. rewrite Ht4, Ht6 in Hp. destruct Hp as (Hk & _ & _ & Hz & _).
      unfold inl_size. now rewrite Hk, Hz.
Qed.

Lemma edit_master2 n g f f3 t c l' idx3 nc f4 ok od del :
  ectx n g f f3 t c l' idx3 nc -> fwf n g f -> notify n g f3 t = (f4, ok) ->
  (c_inl c = false -> dirty f3 t = Some true) ->
  (forall x, x <> t -> ~ touched_by nc od x -> fget f3 x = fget f x /\ dirty f3 x = dirty f x) ->
  (forall v0 w0, od = Some (v0, w0) ->
     (exists j s, nth_error (c_slots c) j = Some s /\ s_val s = NChild v0 w0) /\
     (forall s w, In s l' -> s_val s <> NChild v0 w)) ->
  (forall v j, In (v, j) (idx_fin idx3 od del) -> exists s w, nth_error l' j = Some s /\ s_val s = NChild v w) ->
  (c_kind c = KMap -> idx_fin idx3 od del = []) ->
  ok = true /\ op_result n g f (post_steps f4 t od del) t l' (touched_by nc od).
Proof.
  intros X Hwf Hn H1 H2 H3 H4 H5.
  destruct (edit_master n g f f3 t c l' idx3 nc f4 ok od del X Hwf Hn H1 H2 H3 H4 H5) as (A & B & _). auto.
Qed.
