(* Settings_proofs.v — (1) the model of setThreshold equals the Go function on the generated table
   (a finite domain enumerated by calling the real function: proof by computation);
   (2) the symbolic consequences used by the tree invariants, for every legal slab size. *)
From Coq Require Import ZArith NArith List Bool Lia ZifyBool ZifyN ZifyNat.
From AtreeGen Require Import Consts SettingsTable.
From AtreeModel Require Import Settings.
Import ListNotations.
Local Open Scope N_scope.
Ltac Zify.zify_post_hook ::= Z.div_mod_to_equations.

Lemma settings_model_eq_code_sample : table_ok SettingsTable = true.
Proof. vm_compute. reflexivity. Qed.

Lemma settings_rows_ok : forall ch r, In ch SettingsTable -> In r ch -> row_ok r = true.
Proof.
  intros ch r Hch Hr. pose proof settings_model_eq_code_sample as H.
  unfold table_ok in H. rewrite forallb_forall in H. specialize (H ch Hch).
  rewrite forallb_forall in H. exact (H r Hr).
Qed.

Ltac unfold_consts := unfold valid_T, set_threshold, c_minSlabSize, c_maxSlabSize, c_arrayDataSlabPrefixSize,
  c_mapDataSlabPrefixSize, c_hkeyElementsPrefixSize, c_minElementCountInSlab, c_digestSize,
  c_singleElementPrefixSize, c_arrayMetaDataSlabPrefixSize, c_arraySlabHeaderSize,
  c_mapMetaDataSlabPrefixSize, c_mapSlabHeaderSize, c_arrayRootDataSlabPrefixSize in *; cbn [cT cmin cmax cinl_arr cinl_melem cinl_mkey] in *.

(* "half" is floor(T/2), "1.5x" is floor(1.5 T); two maximal array elements and the prefix fit the
   target size, so a slab above the maximum holds at least two elements; likewise for map elements
   (each with its 8-byte digest); a maximal key and value fit one map element. *)
Theorem settings_facts : forall T, valid_T T ->
  let c := set_threshold T in
  cmin c = T / 2 /\ cmax c = T + T / 2 /\
  2 * cinl_arr c + c_arrayDataSlabPrefixSize <= T /\
  2 * (cinl_melem c + c_digestSize) + c_mapDataSlabPrefixSize + c_hkeyElementsPrefixSize <= T /\
  2 * cinl_mkey c + c_singleElementPrefixSize <= cinl_melem c /\
  0 < cinl_arr c /\ 0 < cinl_mkey c /\ cmin c <= cT c <= cmax c.
Proof. intros T HT. unfold_consts. repeat split; lia. Qed.
