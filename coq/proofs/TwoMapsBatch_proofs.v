(* TwoMapsBatch_proofs.v — the world in which map B is built by NewMapFromBatchData (MapBatch.v)
   next to an existing map A satisfies the hypotheses of C17_map_independent, and building B left
   every register of A as it was. *)
From Coq Require Import NArith ZArith List Bool Lia ZifyBool ZifyN ZifyNat Permutation.
From AtreeGen Require Import Consts.
From AtreeModel Require Import Settings MapElems MapElemsInv MapTree MapTreeInv MapBatch TwoMaps.
From AtreeProofs Require Import MapFrame_proofs TwoMaps_proofs.
From AtreeProofs Require Map_proofs MapBatch_proofs.
Import ListNotations.
Local Open Scope N_scope.

Lemma mno_removes lg hi lo i :
  Forall (fun w => exists j, w = WStore j /\ lo < j /\ j <= hi) lg -> touched lg i -> lo < i.
Proof.
  intros H. rewrite Forall_forall in H.
  intros [Ht|Ht]; destruct (H _ Ht) as (j & Hj & ? & ?); [injection Hj as ->; auto|discriminate].
Qed.

Theorem mw_batch_ok T dg limit levels ks alloc seed stream a (st : mstore mreg) :
  valid_T T -> (1 <= levels)%nat -> seed <> 0 -> MapBatch_proofs.stream_ok dg T ks stream ->
  let c := set_threshold T in
  finv (mwith_alloc a alloc) ->
  let w := mw_batch mreg mreg_of dg levels (cinl_melem c) limit c a alloc st seed stream in
  mw_a w = a /\ mw_b w = fst (map_from_batch dg levels (cinl_melem c) limit c alloc seed stream) /\
  mwinv w /\ alloc < mw_alloc w /\
  (forall i, In i (mslab_ids (t_root a)) -> mw_store w i = st i) /\
  ((forall i, In i (mslab_ids (t_root a)) -> st i = Some (mreg_of a i)) -> mstore_ok w MA) /\
  (Map_proofs.minv dg levels T ks a -> mwwf dg levels T ks w).
Proof.
  intros HT Hlv Hseed Hst c Ha w. subst w. unfold mw_batch.
  pose proof (MapBatch_proofs.c17_map_batch_fresh T dg limit levels ks alloc seed stream HT Hlv Hseed Hst) as Hfresh.
  pose proof (MapBatch_proofs.c17_map_batch_frame T dg limit levels ks alloc seed stream HT Hlv Hseed Hst) as Hframe.
  pose proof (MapBatch_proofs.c17_map_batch_wf T dg limit levels ks alloc seed stream HT Hlv Hseed Hst) as Hwf.
  fold c in Hfresh, Hframe, Hwf. cbv zeta in Hfresh, Hframe, Hwf.
  destruct (map_from_batch dg levels (cinl_melem c) limit c alloc seed stream) as [b lg] eqn:E.
  cbn [fst] in Hfresh, Hwf. destruct Hfresh as (HB & HN & Hlt). destruct Hwf as (Hminv & _ & Hfull).
  destruct (mtwf_full_finv dg levels c b Hfull) as (Hfb & Hids). rewrite <- Hids in HB, HN.
  assert (HaB : forall i, In i (mslab_ids (t_root a)) -> i <= alloc).
  { destruct Ha as ((_ & H) & _). cbn [mwith_alloc t_root t_alloc] in H. unfold bnd in H.
    rewrite Forall_forall in H. intros i Hi. now apply H. }
  assert (Hun : forall i, In i (mslab_ids (t_root a)) -> ~ touched lg i).
  { intros i Hi Ht. apply (mno_removes lg (t_alloc b) alloc i Hframe) in Ht. specialize (HaB i Hi). lia. }
  cbn [mw_a mw_b mw_alloc mw_store fst].
  split; [reflexivity|]. split; [reflexivity|]. split; [split; [|split]|].
  - cbn [mw_a mw_alloc]. eapply (finv_mono dg levels); [exact Ha|lia].
  - cbn [mw_b mw_alloc]. exact Hfb.
  - intros i Hi Hb. cbn [mw_a mw_b] in *. rewrite Forall_forall in HB. specialize (HB i Hb). specialize (HaB i Hi). lia.
  - split; [exact Hlt|]. split; [|split].
    + intros i Hi. apply mapply_log_untouched. now apply Hun.
    + intros Hs i Hi. cbn [mw_get mw_a mw_store] in *. rewrite mapply_log_untouched by now apply Hun. now apply Hs.
    + intros Hma. split; [exact Hma|exact Hminv].
Qed.
