(* TwoMaps_proofs.v — C17 "independent" for maps (theories/TwoMaps.v), from the per-operation
   theorems of MapFrame_proofs.v ([mids_step], [mframe_step], [mfresh_ids_stored], [finv_step]) and
   the dictionary refinement of Map_proofs.v ([mt_run_refines]). *)
From Coq Require Import NArith ZArith List Bool Lia ZifyBool ZifyN ZifyNat Permutation.
From AtreeGen Require Import Consts.
From AtreeModel Require Import Settings MapElems MapElemsInv MapTree MapTreeInv TwoMaps.
From AtreeProofs Require Import MapFrame_proofs.
From AtreeProofs Require Map_proofs.
Import ListNotations.
Local Open Scope N_scope.

(** * Vocabulary *)

(* the register: the slab's own content *)
Definition mreg : Type := option shallow.
Definition mreg_of (t : mtree) (id : N) : mreg := mnode_at (t_root t) id.

Definition mdisjoint_ids (a b : mtree) : Prop :=
  forall i, In i (mslab_ids (t_root a)) -> ~ In i (mslab_ids (t_root b)).

(* both maps satisfy the identifier invariant of C09_map w.r.t. the world's counter (pairwise distinct,
   positive identifiers at most the counter; shape; sibling links), and share no identifier *)
Definition mwinv (w : mworld mreg) : Prop :=
  finv (mwith_alloc (mw_a w) (mw_alloc w)) /\ finv (mwith_alloc (mw_b w) (mw_alloc w)) /\
  mdisjoint_ids (mw_a w) (mw_b w).

Definition mstore_ok (w : mworld mreg) (X : mside) : Prop :=
  forall i, In i (mslab_ids (t_root (mw_get w X))) -> mw_store w i = Some (mreg_of (mw_get w X) i).

Definition muntouched (w w' : mworld mreg) (X : mside) : Prop :=
  t_root (mw_get w' X) = t_root (mw_get w X) /\ t_count (mw_get w' X) = t_count (mw_get w X) /\
  forall i, In i (mslab_ids (t_root (mw_get w X))) -> mw_store w' i = mw_store w i.

(* two lemmas of MapFrame_proofs.v that were generalised over unused section variables *)
Lemma leu lg id : last_ev lg id = None <-> ~ touched lg id.
Proof. exact (last_ev_untouched (fun _ _ => 0) 0%nat 0 lg id). Qed.
Definition erf (rootid : N) := empty_root_facts (fun _ _ => 0) 0%nat rootid.

(** * The store after a log *)
Lemma mapply_log_last t' : forall lg (st : mstore mreg) id,
  mapply_log mreg_of t' st lg id =
  match last_ev lg id with
  | None => st id
  | Some EvStore => Some (mreg_of t' id)
  | Some EvRemove => None
  end.
Proof.
  induction lg as [|[i|i] r IH]; intros st id; cbn [mapply_log last_ev]; [reflexivity| |].
  - rewrite IH. destruct (last_ev r id) as [[|]|]; try reflexivity.
    unfold mst_set. rewrite N.eqb_sym. destruct (N.eqb_spec i id) as [->|]; reflexivity.
  - rewrite IH. destruct (last_ev r id) as [[|]|]; try reflexivity.
    unfold mst_set. rewrite N.eqb_sym. destruct (N.eqb_spec i id); reflexivity.
Qed.

Lemma mapply_log_untouched t' lg (st : mstore mreg) id : ~ touched lg id -> mapply_log mreg_of t' st lg id = st id.
Proof. intros H. apply leu in H. now rewrite mapply_log_last, H. Qed.

Section steps.
  Variable dg : N -> nat -> N.
  Variable levels : nat.
  Variable max_inline_elem limit : N.
  Variable c : cfg.
  Local Notation mt_step := (mt_step dg levels max_inline_elem limit c).
  Local Notation mwstep := (mwstep mreg mreg_of dg levels max_inline_elem limit c).
  Local Notation mwrun := (mwrun mreg mreg_of dg levels max_inline_elem limit c).

  (** * What one operation touches *)
  Lemma mnew_ids_owned t o t' out lg id :
    mids_ok t -> shape (t_root t) -> mt_step t o = (t', out, lg) -> In id (mslab_ids (t_root t')) ->
    In id (mslab_ids (t_root t)) \/ t_alloc t < id <= t_alloc t'.
  Proof.
    intros Hok Sh H Hi. destruct (mids_step _ _ _ _ _ _ _ _ _ _ Hok Sh H) as (_ & _ & _ & _ & k & E & P).
    assert (Hin : In id (mslab_ids (t_root t') ++ removed lg)) by (apply in_or_app; now left).
    eapply Permutation_in in Hin; [|exact P]. apply in_app_or in Hin as [Hin|Hin]; [now left|].
    right. apply in_nseq in Hin. lia.
  Qed.

  Lemma mtouched_owned t o t' out lg id :
    mids_ok t -> shape (t_root t) -> mt_step t o = (t', out, lg) -> touched lg id ->
    In id (mslab_ids (t_root t)) \/ t_alloc t < id <= t_alloc t'.
  Proof.
    intros Hok Sh H Ht. destruct (mids_step _ _ _ _ _ _ _ _ _ _ Hok Sh H) as (_ & _ & _ & _ & k & E & P).
    destruct (mframe_step _ _ _ _ _ _ _ _ _ _ Hok Sh H id) as (_ & F2 & _).
    assert (Hin : In id (mslab_ids (t_root t') ++ removed lg)).
    { destruct (last_ev lg id) as [[|]|] eqn:El.
      - apply in_or_app. left. specialize (F2 eq_refl). destruct (in_dec N.eq_dec id (mslab_ids (t_root t'))) as [Hy|Hn]; [exact Hy|].
        exfalso. apply F2. now apply mnode_at_none.
      - apply in_or_app. right. now apply last_ev_remove.
      - apply leu in El. contradiction. }
    eapply Permutation_in in Hin; [|exact P]. apply in_app_or in Hin as [Hin|Hin]; [now left|].
    right. apply in_nseq in Hin. lia.
  Qed.

  (** * One operation on one of two maps *)
  Lemma mdisjoint_sym a b : mdisjoint_ids a b -> mdisjoint_ids b a.
  Proof. intros H i Hb Ha. exact (H i Ha Hb). Qed.

  Lemma finv_mono t n m : finv (mwith_alloc t n) -> n <= m -> finv (mwith_alloc t m).
  Proof.
    intros ((HN & HB) & Sh & Ch) Hle. split; [split|split]; try assumption.
    cbn [mwith_alloc t_root t_alloc] in *. unfold bnd in *. eapply Forall_impl; [|exact HB]. cbn beta. intros; lia.
  Qed.

  Lemma mcore_step a b alloc (st : mstore mreg) o t' out lg :
    finv (mwith_alloc a alloc) -> finv (mwith_alloc b alloc) -> mdisjoint_ids a b ->
    mt_step (mwith_alloc a alloc) o = (t', out, lg) ->
    finv t' /\ finv (mwith_alloc b (t_alloc t')) /\ mdisjoint_ids t' b /\ alloc <= t_alloc t' /\
    (forall i, In i (mslab_ids (t_root b)) -> ~ touched lg i) /\
    ((forall i, In i (mslab_ids (t_root a)) -> st i = Some (mreg_of a i)) ->
     forall i, In i (mslab_ids (t_root t')) -> mapply_log mreg_of t' st lg i = Some (mreg_of t' i)).
  Proof.
    intros Ha Hb Hd H. set (a0 := mwith_alloc a alloc) in *.
    destruct (finv_step _ _ _ _ _ _ _ _ _ _ Ha H) as (Ha' & Hrid).
    destruct Ha as (Hok & Sh & Ch).
    destruct (mids_step _ _ _ _ _ _ _ _ _ _ Hok Sh H) as (_ & Hle & _).
    change (t_alloc a0) with alloc in Hle.
    assert (Hbb : forall i, In i (mslab_ids (t_root b)) -> i <= alloc).
    { destruct Hb as ((_ & HB) & _). cbn [mwith_alloc t_root t_alloc] in HB. unfold bnd in HB.
      rewrite Forall_forall in HB. intros i Hi. now apply HB. }
    split; [exact Ha'|]. split; [eapply finv_mono; eauto|]. split.
    { intros i Hi Hib. destruct (mnew_ids_owned _ _ _ _ _ _ Hok Sh H Hi) as [Hi'|Hi'].
      - exact (Hd i Hi' Hib).
      - change (t_alloc a0) with alloc in Hi'. specialize (Hbb i Hib). lia. }
    split; [exact Hle|]. split.
    { intros i Hib Ht. destruct (mtouched_owned _ _ _ _ _ _ Hok Sh H Ht) as [Hi'|Hi'].
      - exact (Hd i Hi' Hib).
      - change (t_alloc a0) with alloc in Hi'. specialize (Hbb i Hib). lia. }
    intros Hst i Hi. rewrite mapply_log_last.
    destruct (mframe_step _ _ _ _ _ _ _ _ _ _ Hok Sh H i) as (F1 & _ & F3 & _).
    destruct (last_ev lg i) as [[|]|] eqn:El.
    - reflexivity.
    - destruct (F3 eq_refl) as [_ Hn]. contradiction.
    - apply leu in El. specialize (F1 El).
      assert (Hia : In i (mslab_ids (t_root a))).
      { destruct (mnew_ids_owned _ _ _ _ _ _ Hok Sh H Hi) as [Hi'|Hi']; [exact Hi'|].
        exfalso. apply El. left. eapply mfresh_ids_stored; eauto. }
      rewrite (Hst i Hia). f_equal. unfold mreg_of. rewrite F1. reflexivity.
  Qed.

  Theorem mwstep_inv w X o w' out :
    mwinv w -> mwstep w X o = (w', out) ->
    mwinv w' /\ muntouched w w' (mother X) /\ mw_alloc w <= mw_alloc w' /\
    (mstore_ok w X -> mstore_ok w' X) /\ (mstore_ok w (mother X) -> mstore_ok w' (mother X)).
  Proof.
    intros (Ia & Ib & Id) H. unfold TwoMaps.mwstep in H.
    destruct (mt_step (mwith_alloc (mw_get w X) (mw_alloc w)) o) as [[t' out'] lg] eqn:E.
    destruct X; cbn [mw_get] in E; injection H as <- <-.
    - destruct (mcore_step (mw_a w) (mw_b w) (mw_alloc w) (mw_store w) o t' out' lg Ia Ib Id E)
        as (Ha' & Hb' & Hd' & Hle & Hfr & Hst).
      split; [split; [exact Ha'|split; [exact Hb'|exact Hd']]|].
      split; [split; [reflexivity|split; [reflexivity|]]|split; [exact Hle|split]].
      + intros i Hi. cbn [mw_store mother mw_get]. apply mapply_log_untouched. now apply Hfr.
      + intros Hok i Hi. cbn [mw_store mw_get mw_a] in *. apply Hst; auto.
      + intros Hok i Hi. cbn [mw_store mw_get mw_b mother] in *. rewrite mapply_log_untouched by now apply Hfr. now apply Hok.
    - destruct (mcore_step (mw_b w) (mw_a w) (mw_alloc w) (mw_store w) o t' out' lg Ib Ia (mdisjoint_sym _ _ Id) E)
        as (Ha' & Hb' & Hd' & Hle & Hfr & Hst).
      split; [split; [exact Hb'|split; [exact Ha'|apply mdisjoint_sym; exact Hd']]|].
      split; [split; [reflexivity|split; [reflexivity|]]|split; [exact Hle|split]].
      + intros i Hi. cbn [mw_store mother mw_get]. apply mapply_log_untouched. now apply Hfr.
      + intros Hok i Hi. cbn [mw_store mw_get mw_b] in *. apply Hst; auto.
      + intros Hok i Hi. cbn [mw_store mw_get mw_a mother] in *. rewrite mapply_log_untouched by now apply Hfr. now apply Hok.
  Qed.

  (** * Histories *)
  Lemma muntouched_refl w X : muntouched w w X.
  Proof. repeat split; auto. Qed.

  Lemma muntouched_trans w1 w2 w3 X : muntouched w1 w2 X -> muntouched w2 w3 X -> muntouched w1 w3 X.
  Proof.
    intros (R1 & T1 & S1) (R2 & T2 & S2). split; [congruence|]. split; [congruence|].
    intros i Hi. rewrite S2, S1; auto. now rewrite R1.
  Qed.

  Lemma mside_cases X Y : Y = X \/ Y = mother X.
  Proof. destruct X, Y; auto. Qed.

  Theorem mwrun_inv : forall ops w, mwinv w ->
    mwinv (fst (mwrun w ops)) /\ mw_alloc w <= mw_alloc (fst (mwrun w ops)) /\
    forall X, mstore_ok w X -> mstore_ok (fst (mwrun w ops)) X.
  Proof.
    induction ops as [|[X o] r IH]; intros w Hw; cbn [TwoMaps.mwrun].
    - cbn [fst]. split; [exact Hw|]. split; [lia|auto].
    - destruct (mwstep w X o) as [w1 x] eqn:E1.
      destruct (mwstep_inv _ _ _ _ _ Hw E1) as (Hw1 & _ & Hle & Hs1 & Hs2).
      destruct (IH w1 Hw1) as (Hw2 & Hle2 & Hs). destruct (mwrun w1 r) as [w2 xs]. cbn [fst] in *.
      split; [exact Hw2|]. split; [lia|]. intros Y HY. apply Hs.
      destruct (mside_cases X Y) as [->| ->]; auto.
  Qed.

  Theorem mwrun_one_side X : forall ops w, mwinv w -> Forall (fun p : mside * mop => fst p = X) ops ->
    muntouched w (fst (mwrun w ops)) (mother X).
  Proof.
    induction ops as [|[Y o] r IH]; intros w Hw Hall; cbn [TwoMaps.mwrun].
    - apply muntouched_refl.
    - inversion Hall as [|? ? HY Hr]; subst. cbn [fst] in *.
      destruct (mwstep w Y o) as [w1 x] eqn:E1.
      destruct (mwstep_inv _ _ _ _ _ Hw E1) as (Hw1 & Hu & _).
      specialize (IH w1 Hw1 Hr). destruct (mwrun w1 r) as [w2 xs]. cbn [fst] in *.
      eapply muntouched_trans; eauto.
  Qed.

  Theorem mwrun_each_step ops w X o :
    mwinv w ->
    let w1 := fst (mwrun w ops) in
    let w2 := fst (mwstep w1 X o) in
    mwinv w1 /\ mwinv w2 /\ muntouched w1 w2 (mother X).
  Proof.
    intros Hw w1 w2. destruct (mwrun_inv ops w Hw) as (Hw1 & _). fold w1 in Hw1.
    subst w2. destruct (mwstep w1 X o) as [w2 x] eqn:E.
    destruct (mwstep_inv _ _ _ _ _ Hw1 E) as (Hw2 & Hu & _). auto.
  Qed.

End steps.

(* two new maps *)
Lemma mw_new2_ok alloc :
  let w := mw_new2 mreg mreg_of alloc in
  mwinv w /\ mstore_ok w MA /\ mstore_ok w MB /\ mw_alloc w = alloc + 2 /\
  t_rootid (mw_a w) = alloc + 1 /\ t_rootid (mw_b w) = alloc + 2.
Proof.
  unfold mw_new2, mt_init. cbn beta iota zeta.
  destruct (erf (alloc + 1)) as (A1 & A2 & A3 & _).
  destruct (erf (alloc + 2)) as (B1 & B2 & B3 & _).
  split; [split; [|split]|split; [|split]].
  - split; [split|split]; cbn [mw_a mwith_alloc t_root t_alloc mw_alloc]; auto; rewrite A1.
    + repeat constructor; intros [].
    + repeat constructor; lia.
  - split; [split|split]; cbn [mw_b mwith_alloc t_root t_alloc mw_alloc]; auto; rewrite B1.
    + repeat constructor; intros [].
    + repeat constructor; lia.
  - intros i. cbn [mw_a mw_b t_root]. rewrite A1, B1. intros [<-|[]] [H|[]]. lia.
  - intros i. cbn [mw_get mw_a t_root mw_store]. rewrite A1. intros [<-|[]].
    cbn [mapply_log]. unfold mst_set. replace (alloc + 1 =? alloc + 2) with false by lia.
    now rewrite N.eqb_refl.
  - intros i. cbn [mw_get mw_b t_root mw_store]. rewrite B1. intros [<-|[]].
    cbn [mapply_log]. unfold mst_set. now rewrite N.eqb_refl.
  - split; [reflexivity|]. split; reflexivity.
Qed.


(** * Each map refines its own dictionary (C02) *)
Section mrefine.
  Variable dg : N -> nat -> N.
  Variable levels : nat.
  Variable T : N.
  Hypothesis HT : valid_T T.
  Hypothesis Hlv : (0 < levels)%nat.
  Variable limit : N.
  Variable ks : N -> N.
  Local Notation c := (set_threshold T).
  Local Notation minv := (Map_proofs.minv dg levels T ks).
  Local Notation mop_ok := (Map_proofs.mop_ok T ks).
  Local Notation mt_step := (mt_step dg levels (cinl_melem c) limit c).
  Local Notation mwstep := (mwstep mreg mreg_of dg levels (cinl_melem c) limit c).
  Local Notation mwrun := (mwrun mreg mreg_of dg levels (cinl_melem c) limit c).
  Local Notation d_step := (d_step dg levels limit).
  Local Notation d_run := (d_run dg levels limit).

  Definition mwwf (w : mworld mreg) : Prop := minv (mw_a w) /\ minv (mw_b w).

  Lemma minv_with_alloc t n : minv (mwith_alloc t n) <-> minv t.
  Proof. unfold Map_proofs.minv, mtwf, mwith_alloc. cbn [t_root t_count]. tauto. Qed.

  Lemma mt_step_refines t o : minv t -> mop_ok o ->
    minv (fst (fst (mt_step t o))) /\
    to_list_tree (t_root (fst (fst (mt_step t o)))) = fst (d_step (to_list_tree (t_root t)) o) /\
    snd (fst (mt_step t o)) = snd (d_step (to_list_tree (t_root t)) o) /\
    t_rootid (fst (fst (mt_step t o))) = t_rootid t.
  Proof.
    intros Hi Ho.
    pose proof (Map_proofs.mt_run_refines dg levels T HT Hlv limit ks [o] t Hi (Forall_cons _ Ho (Forall_nil _))) as H.
    cbn [mt_run MapElems.d_run] in H.
    destruct (mt_step t o) as [[t1 x] lg]. destruct (d_step (to_list_tree (t_root t)) o) as [d1 y].
    cbn [fst snd] in *. destruct H as (H1 & H2 & _ & H4 & H5). injection H1 as ->. auto.
  Qed.

  Lemma mwstep_refines w X o : mwwf w -> mop_ok o ->
    mwwf (fst (mwstep w X o)) /\
    to_list_tree (t_root (mw_get (fst (mwstep w X o)) X)) = fst (d_step (to_list_tree (t_root (mw_get w X))) o) /\
    snd (mwstep w X o) = snd (d_step (to_list_tree (t_root (mw_get w X))) o) /\
    mw_get (fst (mwstep w X o)) (mother X) = mw_get w (mother X) /\
    t_rootid (mw_get (fst (mwstep w X o)) X) = t_rootid (mw_get w X).
  Proof.
    intros [Ha Hb] Ho. unfold TwoMaps.mwstep.
    assert (Hx : minv (mwith_alloc (mw_get w X) (mw_alloc w))) by (apply minv_with_alloc; destruct X; assumption).
    pose proof (mt_step_refines _ o Hx Ho) as (H1 & H2 & H3 & H4).
    destruct (mt_step (mwith_alloc (mw_get w X) (mw_alloc w)) o) as [[t' out] lg]. cbn [fst snd] in *.
    unfold mwwf. destruct X; cbn [fst snd mw_get mw_a mw_b mother];
      (split; [split; assumption|]); (split; [exact H2|]); (split; [exact H3|]); (split; [reflexivity|exact H4]).
  Qed.

  Theorem mwrun_refines : forall ops w, mwwf w -> Forall (fun p : mside * mop => mop_ok (snd p)) ops ->
    mwwf (fst (mwrun w ops)) /\
    forall X,
      to_list_tree (t_root (mw_get (fst (mwrun w ops)) X)) =
        fst (d_run (to_list_tree (t_root (mw_get w X))) (mproj X ops)) /\
      mproj_out X ops (snd (mwrun w ops)) = snd (d_run (to_list_tree (t_root (mw_get w X))) (mproj X ops)) /\
      t_rootid (mw_get (fst (mwrun w ops)) X) = t_rootid (mw_get w X).
  Proof.
    induction ops as [|[Y o] r IH]; intros w Hw Hall; cbn [TwoMaps.mwrun].
    - cbn. split; auto.
    - inversion Hall as [|? ? Ho Hr]; subst. cbn [snd] in Ho.
      destruct (mwstep_refines w Y o Hw Ho) as (Hw1 & Habs & Hout & Hoth & Hrid).
      destruct (mwstep w Y o) as [w1 x] eqn:E1. cbn [fst snd] in *.
      destruct (IH w1 Hw1 Hr) as (Hw2 & Hall2).
      destruct (mwrun w1 r) as [w2 xs] eqn:E2. cbn [fst snd] in *.
      split; [exact Hw2|]. intros X. destruct (Hall2 X) as (A & B & C).
      destruct X, Y; cbn [mproj flat_map fst snd app mproj_out mother mw_get] in *;
        fold (mproj MA r) in *; fold (mproj MB r) in *.
      + cbn [MapElems.d_run]. destruct (d_step (to_list_tree (t_root (mw_a w))) o) as [s1 x1]. cbn [fst snd] in *. subst s1.
        destruct (d_run (to_list_tree (t_root (mw_a w1))) (mproj MA r)) as [s2 xs2]. cbn [fst snd] in *.
        repeat split; congruence.
      + rewrite Hoth in *. auto.
      + rewrite Hoth in *. auto.
      + cbn [MapElems.d_run]. destruct (d_step (to_list_tree (t_root (mw_b w))) o) as [s1 x1]. cbn [fst snd] in *. subst s1.
        destruct (d_run (to_list_tree (t_root (mw_b w1))) (mproj MB r)) as [s2 xs2]. cbn [fst snd] in *.
        repeat split; congruence.
  Qed.

  (* the statement of C17 "independent" for maps, in one piece *)
  Theorem two_maps_main :
    forall w, mwinv w -> mwwf w ->
    forall ops, Forall (fun p : mside * mop => mop_ok (snd p)) ops ->
    let w' := fst (mwrun w ops) in
    mwinv w' /\ mwwf w' /\ mw_alloc w <= mw_alloc w' /\
    (forall X, mstore_ok w X -> mstore_ok w' X) /\
    (forall X, Forall (fun p : mside * mop => fst p = X) ops -> muntouched w w' (mother X)) /\
    (forall ops1 X o ops2, ops = ops1 ++ (X, o) :: ops2 ->
       muntouched (fst (mwrun w ops1)) (fst (mwstep (fst (mwrun w ops1)) X o)) (mother X)) /\
    (forall X,
       to_list_tree (t_root (mw_get w' X)) = fst (d_run (to_list_tree (t_root (mw_get w X))) (mproj X ops)) /\
       mproj_out X ops (snd (mwrun w ops)) = snd (d_run (to_list_tree (t_root (mw_get w X))) (mproj X ops)) /\
       t_rootid (mw_get w' X) = t_rootid (mw_get w X)).
  Proof.
    intros w Hw Hwf ops Hops w'.
    destruct (mwrun_inv dg levels (cinl_melem c) limit c ops w Hw) as (H1 & H2 & H3).
    destruct (mwrun_refines ops w Hwf Hops) as (H4 & H5).
    split; [exact H1|]. split; [exact H4|]. split; [exact H2|]. split; [exact H3|].
    split; [intros X HX; now apply mwrun_one_side|]. split; [|exact H5].
    intros ops1 X o ops2 _. now destruct (mwrun_each_step dg levels (cinl_melem c) limit c ops1 w X o Hw) as (_ & _ & H).
  Qed.

  Lemma mw_new2_wwf alloc : mwwf (mw_new2 mreg mreg_of alloc).
  Proof.
    unfold mwwf, mw_new2, mt_init. cbn beta iota zeta. cbn [mw_a mw_b].
    split; apply Map_proofs.minv_empty; auto.
  Qed.
End mrefine.
